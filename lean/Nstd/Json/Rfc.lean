/-
  RFC 8259 (The JavaScript Object Notation Data Interchange Format), sections 2–7, as a DECLARATIVE
  grammar over byte strings.  This file imports nothing: it does not know the model of the nstd
  parser or serialiser.  Every production of the RFC is one inductive predicate / constructor; the
  second index of the predicates is the syntax tree of the text (the RFC data model: literal names,
  the number token, the sequence of characters of a string, arrays, objects as member lists in text
  order, duplicates kept).

      JSON-text = ws value ws
      value     = false / null / true / object / array / number / string
      object    = begin-object [ member *( value-separator member ) ] end-object
      member    = string name-separator value
      array     = begin-array [ value *( value-separator value ) ] end-array
      number    = [ minus ] int [ frac ] [ exp ]
      string    = quotation-mark *char quotation-mark
      ws        = *( %x20 / %x09 / %x0A / %x0D )
      begin-array = ws %x5B ws   (and so on: every structural character is surrounded by ws)

  Bytes, not code points: `unescaped = %x20-21 / %x23-5B / %x5D-10FFFF` becomes "any byte ≥ 0x20
  other than the quote and the backslash"; a code point above 0x7F is its UTF-8 byte sequence, all of
  whose bytes are ≥ 0x80.  Well-formedness of those UTF-8 sequences (RFC 8259 section 8.1) is NOT part
  of this grammar.  Like the ABNF of the RFC (section 8.2) the grammar admits `\u` escapes of lone
  surrogates.
-/
namespace Nstd.Json.Rfc

/-- `ws` characters: space, horizontal tab, line feed, carriage return -/
def isWs (c : Nat) : Prop := c = 32 ∨ c = 9 ∨ c = 10 ∨ c = 13

/-- `ws = *( %x20 / %x09 / %x0A / %x0D )` -/
def Ws (t : List Nat) : Prop := ∀ c ∈ t, isWs c

/-- `DIGIT` -/
def isDigit (c : Nat) : Prop := 48 ≤ c ∧ c ≤ 57

/-- `HEXDIG` (both cases, section 7) -/
def isHex (c : Nat) : Prop := isDigit c ∨ (65 ≤ c ∧ c ≤ 70) ∨ (97 ≤ c ∧ c ≤ 102)

/-- `1*DIGIT` -/
def Digits1 (t : List Nat) : Prop := t ≠ [] ∧ ∀ c ∈ t, isDigit c

/-! ### numbers (section 6) -/

/-- `int = zero / ( digit1-9 *DIGIT )` -/
inductive IntPart : List Nat → Prop
  | zero : IntPart [48]
  | nonzero (c : Nat) (ds : List Nat) : 49 ≤ c → c ≤ 57 → (∀ d ∈ ds, isDigit d) → IntPart (c :: ds)

/-- `[ frac ]`, `frac = decimal-point 1*DIGIT` -/
inductive Frac : List Nat → Prop
  | none : Frac []
  | some (ds : List Nat) : Digits1 ds → Frac (46 :: ds)

/-- `[ exp ]`, `exp = e [ minus / plus ] 1*DIGIT` -/
inductive Exp : List Nat → Prop
  | none : Exp []
  | some (e : Nat) (sign ds : List Nat) : (e = 101 ∨ e = 69) → (sign = [] ∨ sign = [45] ∨ sign = [43]) →
      Digits1 ds → Exp (e :: sign ++ ds)

/-- `number = [ minus ] int [ frac ] [ exp ]` -/
inductive Number : List Nat → Prop
  | mk (minus i f e : List Nat) : (minus = [] ∨ minus = [45]) → IntPart i → Frac f → Exp e →
      Number (minus ++ i ++ f ++ e)

/-! ### strings (section 7) -/

/-- what one `char` production denotes: a byte of the string (given raw or by a two-character
    escape), or the 16-bit code unit of a `\uXXXX` escape -/
inductive Item where
  | byte (b : Nat)
  | unit (w : Nat)

/-- value of a hexadecimal digit -/
def hexVal (c : Nat) : Nat := if c ≤ 57 then c - 48 else if c ≤ 70 then c - 55 else c - 87

/-- `char = unescaped / escape ( %x22 / %x5C / %x2F / %x62 / %x66 / %x6E / %x72 / %x74 / %x75 4HEXDIG )` -/
inductive Char : List Nat → Item → Prop
  | unescaped (c : Nat) : 32 ≤ c → c ≠ 34 → c ≠ 92 → Char [c] (.byte c)
  | quote : Char [92, 34] (.byte 34)
  | backslash : Char [92, 92] (.byte 92)
  | slash : Char [92, 47] (.byte 47)
  | backspace : Char [92, 98] (.byte 8)
  | formfeed : Char [92, 102] (.byte 12)
  | linefeed : Char [92, 110] (.byte 10)
  | cr : Char [92, 114] (.byte 13)
  | tab : Char [92, 116] (.byte 9)
  | u (a b c d : Nat) : isHex a → isHex b → isHex c → isHex d →
      Char [92, 117, a, b, c, d] (.unit (((hexVal a * 16 + hexVal b) * 16 + hexVal c) * 16 + hexVal d))

/-- `*char` -/
inductive Chars : List Nat → List Item → Prop
  | nil : Chars [] []
  | cons {c r : List Nat} {i : Item} {is : List Item} : Char c i → Chars r is → Chars (c ++ r) (i :: is)

/-- `string = quotation-mark *char quotation-mark` -/
inductive Str : List Nat → List Item → Prop
  | mk {body : List Nat} {is : List Item} : Chars body is → Str (34 :: body ++ [34]) is

/-! ### values (sections 3–5) -/

/-- the syntax tree of a JSON text -/
inductive Tree where
  | null
  | bool (b : Bool)
  | num (text : List Nat)
  | str (s : List Item)
  | arr (l : List Tree)
  | obj (m : List (List Item × Tree))

inductive Kind where
  | value     -- `value`
  | elems     -- `ws value ws *( %x2C ws value ws )`: the inside of a non-empty array
  | members   -- `ws string ws %x3A ws value ws *( %x2C ... )`: the inside of a non-empty object

/-- the grammar of values; `G .elems t (.arr l)` / `G .members t (.obj m)` describe the text between
    the brackets of a non-empty array / object -/
inductive G : Kind → List Nat → Tree → Prop
  | null : G .value [110, 117, 108, 108] .null
  | true_ : G .value [116, 114, 117, 101] (.bool true)
  | false_ : G .value [102, 97, 108, 115, 101] (.bool false)
  | num {t : List Nat} : Number t → G .value t (.num t)
  | str {t : List Nat} {s : List Item} : Str t s → G .value t (.str s)
  | arrEmpty {w : List Nat} : Ws w → G .value (91 :: w ++ [93]) (.arr [])
  | arr {t : List Nat} {l : List Tree} : G .elems t (.arr l) → G .value (91 :: t ++ [93]) (.arr l)
  | objEmpty {w : List Nat} : Ws w → G .value (123 :: w ++ [125]) (.obj [])
  | obj {t : List Nat} {m : List (List Item × Tree)} : G .members t (.obj m) → G .value (123 :: t ++ [125]) (.obj m)
  | elemsOne {a v b : List Nat} {tv : Tree} : Ws a → G .value v tv → Ws b → G .elems (a ++ v ++ b) (.arr [tv])
  | elemsCons {a v b r : List Nat} {tv : Tree} {l : List Tree} : Ws a → G .value v tv → Ws b → G .elems r (.arr l) →
      G .elems (a ++ v ++ b ++ 44 :: r) (.arr (tv :: l))
  | memOne {a k b c v d : List Nat} {ks : List Item} {tv : Tree} : Ws a → Str k ks → Ws b → Ws c → G .value v tv → Ws d →
      G .members (a ++ k ++ b ++ 58 :: (c ++ v ++ d)) (.obj [(ks, tv)])
  | memCons {a k b c v d r : List Nat} {ks : List Item} {tv : Tree} {m : List (List Item × Tree)} :
      Ws a → Str k ks → Ws b → Ws c → G .value v tv → Ws d → G .members r (.obj m) →
      G .members (a ++ k ++ b ++ 58 :: (c ++ v ++ d) ++ 44 :: r) (.obj ((ks, tv) :: m))

/-- `value` -/
abbrev Value (t : List Nat) (tr : Tree) : Prop := G .value t tr

/-- `JSON-text = ws value ws` -/
def Text (t : List Nat) (tr : Tree) : Prop := ∃ a v b, Ws a ∧ G .value v tr ∧ Ws b ∧ t = a ++ v ++ b

/-- the text is a JSON text (some syntax tree) -/
def IsText (t : List Nat) : Prop := ∃ tr, Text t tr

theorem Ws.nil : Ws [] := by intro c hc; cases hc

theorem Ws.append {a b : List Nat} (ha : Ws a) (hb : Ws b) : Ws (a ++ b) := by
  intro c hc
  rcases List.mem_append.mp hc with h | h
  · exact ha c h
  · exact hb c h

-- the grammar is inhabited: `[1, {"aé": null}]` followed by a line feed
example : Text [91, 49, 44, 32, 123, 34, 97, 92, 117, 48, 48, 101, 57, 34, 58, 32, 110, 117, 108, 108, 125, 93, 10]
    (.arr [.num [49], .obj [([.byte 97, .unit 233], .null)]]) := by
  refine ⟨[], [91, 49, 44, 32, 123, 34, 97, 92, 117, 48, 48, 101, 57, 34, 58, 32, 110, 117, 108, 108, 125, 93], [10], Ws.nil, ?_,
    by intro c hc; simp at hc; subst hc; simp [isWs], rfl⟩
  have hnum : G .value [49] (.num [49]) :=
    .num (Number.mk [] [49] [] [] (Or.inl rfl) (.nonzero 49 [] (by decide) (by decide) (by intro d hd; cases hd)) .none .none)
  have hkey : Str [34, 97, 92, 117, 48, 48, 101, 57, 34] [.byte 97, .unit 233] :=
    Str.mk (body := [97, 92, 117, 48, 48, 101, 57])
      (Chars.cons (.unescaped 97 (by decide) (by decide) (by decide))
        (Chars.cons (c := [92, 117, 48, 48, 101, 57]) (r := [])
          (.u 48 48 101 57 (by simp [isHex, isDigit]) (by simp [isHex, isDigit]) (by simp [isHex, isDigit]) (by simp [isHex, isDigit]))
          .nil))
  have hobj : G .value [123, 34, 97, 92, 117, 48, 48, 101, 57, 34, 58, 32, 110, 117, 108, 108, 125]
      (.obj [([.byte 97, .unit 233], .null)]) :=
    G.obj (t := [34, 97, 92, 117, 48, 48, 101, 57, 34, 58, 32, 110, 117, 108, 108])
      (G.memOne (a := []) (k := [34, 97, 92, 117, 48, 48, 101, 57, 34]) (b := []) (c := [32]) (v := [110, 117, 108, 108]) (d := [])
        Ws.nil hkey Ws.nil (by intro c hc; simp at hc; subst hc; simp [isWs]) .null Ws.nil)
  exact G.arr (t := [49, 44, 32, 123, 34, 97, 92, 117, 48, 48, 101, 57, 34, 58, 32, 110, 117, 108, 108, 125])
    (G.elemsCons (a := []) (v := [49]) (b := []) Ws.nil hnum Ws.nil
      (G.elemsOne (a := [32]) (b := []) (by intro c hc; simp at hc; subst hc; simp [isWs]) hobj Ws.nil))

end Nstd.Json.Rfc
