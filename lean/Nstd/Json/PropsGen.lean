import Nstd.Json.LemmasGen
import Nstd.Json.LemmasExact
import Nstd.Json.Props
import Nstd.Json.LemmasInto
/-
  Property C15, the tie by TRANSLATION.  `Nstd.Generated.JsonCode` is written on every run by tools/gen_json.py
  (tools/gen_json_cxx.py: tokenizer + parser of a C++ subset + symbolic execution) from the CURRENT
  src/Document/Json.cpp:
      strip / stripL0 stripL1 stripL2   `Json::stripComments`, the whole body (outer loop with the label `checkStr`,
                                        block-comment loop, string loop, `goto done`)
      strTok / strL0                    `readToken`, the statements of `case '"':` - the string loop with CR / CRLF / LF,
                                        the escape switch, `\u` + four hex digits, the surrogate tests, the second
                                        escape, `pos.pos -= 6`, `Unicode::append`
      numTok / numL0                    `readToken`, the number block: alphabet loop, `isDouble`, `toInt64`, narrowing
      skipWs / wsL0                     `Json::Private::skipSpace`
  The theorems say that the translated code IS the hand-written model (Model.lean) the property theorems of Props.lean
  are about - on every state, not on samples.  A change of one of these C++ bodies changes the generated definition;
  if it then computes something else the equality fails (broken obligation; the check searches for a failing input).
  What stays hand-translated and only tied by the differential run: the dispatch of `readToken` on the first byte
  (structural characters, `String::compare` for the literals), `parseValue/parseArray/parseObject`, `syntaxError`
  (column walk), `appendVariant` / `appendEscapedString` (escape tables by execution), `Json::parse`.
  Assumed by the translator (see its header): `k.scanf("%x", &w)` on four checked hex digits succeeds with their value.
-/
namespace Nstd.Json
open Nstd.Generated

/-- the translated `Json::stripComments` is the model's `stripComments`, for every buffer (and every budget: the three
    translated loops are the model's three mutual functions, fuel for fuel) -/
theorem translated_stripComments (buf : List Byte) : JsonCode.strip (stripFuel buf) buf = stripComments buf :=
  gen_stripComments buf

theorem translated_strip_loops (f : Nat) (out src : List Byte) :
    JsonCode.stripL0 f out src = stripOuter f out src ∧
    JsonCode.stripL1 f out src = stripBlock f out src ∧
    JsonCode.stripL2 f out src = stripString f out src :=
  gen_strip_loops f out src

/-- hence every theorem about the model's `stripComments` is a theorem about the translated code, e.g. `strip_spec` -/
theorem translated_strip_total (buf : List Byte) : JsonCode.strip (stripFuel buf) buf = stripComments buf ∧
    (∀ f out src, JsonCode.stripL0 f out src = stripOuter f out src) :=
  ⟨gen_stripComments buf, fun f out src => (gen_strip_loops f out src).1⟩

example : JsonCode.strip 20 [47, 42, 97, 10, 42, 47, 49, 34, 47, 47, 34, 47, 47, 120, 0] = .ok [10, 49, 34, 47, 47, 34] := by
  rfl

/-- the translated string loop of `readToken` is the model's `readStr`: same value, same line count, same cursor,
    same failure position, for every budget, line, accumulator and cursor -/
theorem translated_string_loop (f line : Nat) (acc r : List Byte) : JsonCode.strL0 f line acc r = readStr f line acc r :=
  gen_string f line acc r

/-- the statements of `case '"':` started AT the opening quote are what `readToken` does with a string token -/
theorem translated_string_token (line : Nat) (r' : List Byte) :
    JsonCode.strTok r'.length line (34 :: r') = readStr r'.length line [] r' := by
  unfold JsonCode.strTok
  simp only [List.drop]
  exact gen_string _ _ _ _

example : JsonCode.strTok 30 1 [34, 92, 117, 100, 56, 51, 100, 92, 117, 100, 101, 48, 48, 92, 110, 34, 0]
    = .ok (1, [0xF0, 0x9F, 0x98, 0x80, 10], [0]) := by rfl

/-- the translated number block is the model's `numLoop` followed by `numVal` (double iff a `.` was seen; otherwise
    `atoll` and the narrowing to `int` when the value survives the cast), for every cursor -/
theorem translated_number_token (r : List Byte) :
    JsonCode.numTok (r.length + 1) r = (numLoop [] false r).bind fun x => .ok (numVal x.1 x.2.1, x.2.2) := by
  unfold JsonCode.numTok
  exact gen_number _ _ _ _ (Nat.lt_succ_self _)

example : JsonCode.numTok 12 [50, 49, 52, 55, 52, 56, 51, 54, 52, 56, 93, 0] = .ok (.int64 2147483648, [93, 0]) := by
  rfl

/-- the translated `skipSpace` is the model's (CR, CRLF, LF counted as one line break each) -/
theorem translated_skipSpace (line : Nat) (r : List Byte) : JsonCode.skipWs (r.length + 1) line r = skipSpace line r :=
  gen_skipSpace _ _ _ (Nat.lt_succ_self _)

example : JsonCode.skipWs 9 1 [32, 13, 10, 13, 9, 10, 120, 0] = .ok (4, [120, 0]) := by rfl

/-- `readToken` of the model, written over the TRANSLATED pieces: white space, string tokens and number tokens are
    computed by code generated from the current Json.cpp; only the dispatch on the first byte (structural characters,
    the three literals) remains hand-written -/
theorem readToken_via_translation (line : Nat) (r : List Byte) :
    readToken line r =
      (JsonCode.skipWs (r.length + 1) line r).bind fun (line, r) =>
        match r with
        | [] => .oob
        | c :: r' =>
          if c = 0 then .ok ⟨0, .null, line, c :: r'⟩
          else if c = 123 ∨ c = 125 ∨ c = 91 ∨ c = 93 ∨ c = 44 ∨ c = 58 then .ok ⟨c, .null, line, r'⟩
          else if c = 34 then
            (JsonCode.strTok r'.length line (c :: r')).bind fun (line', v, r'') => .ok ⟨34, .str v, line', r''⟩
          else if c = 116 then
            (litMatch [116, 114, 117, 101] (c :: r')).bind fun m =>
              match m with
              | some r'' => .ok ⟨116, .bool true, line, r''⟩
              | none => .fail line (c :: r')
          else if c = 102 then
            (litMatch [102, 97, 108, 115, 101] (c :: r')).bind fun m =>
              match m with
              | some r'' => .ok ⟨102, .bool false, line, r''⟩
              | none => .fail line (c :: r')
          else if c = 110 then
            (litMatch [110, 117, 108, 108] (c :: r')).bind fun m =>
              match m with
              | some r'' => .ok ⟨110, .null, line, r''⟩
              | none => .fail line (c :: r')
          else if c = 45 ∨ isDigit c then
            (JsonCode.numTok ((c :: r').length + 1) (c :: r')).bind fun (v, r'') => .ok ⟨35, v, line, r''⟩
          else .fail line (c :: r') := by
  unfold readToken
  rw [translated_skipSpace]
  congr 1
  funext x
  obtain ⟨line, r⟩ := x
  rcases r with _ | ⟨c, r'⟩
  · rfl
  · have hnum : (JsonCode.numTok ((c :: r').length + 1) (c :: r')).bind
          (fun (x : Val × List Byte) => match x with | (v, r'') => (Res.ok ⟨35, v, line, r''⟩ : Res St)) =
        (numLoop [] false (c :: r')).bind fun (x : List Byte × Bool × List Byte) =>
          match x with | (n, dbl, r'') => (Res.ok ⟨35, numVal n dbl, line, r''⟩ : Res St) := by
      rw [translated_number_token]
      cases numLoop [] false (c :: r') <;> rfl
    simp only [hnum]
    by_cases h34 : c = 34
    · subst h34
      simp only [translated_string_token]
      rfl
    · simp only [h34, if_false]
      rfl

/-- more fuel never changes a result of the string loop: it can only turn `.nofuel` into a result (proved on the
    TRANSLATED loop by a structural tactic that follows the generated decision tree, then carried to the model) -/
theorem readStr_fuel_monotone (f g line : Nat) (acc r : List Byte) (h : f ≤ g) (hn : readStr f line acc r ≠ .nofuel) :
    readStr g line acc r = readStr f line acc r :=
  readStr_fuel f g line acc r h hn

/-- THE WHOLE `Json::Private::readToken` as written today (`skipSpace` executed in place, the dispatch on the first byte,
    `String::compare` for the three literals, the string loop, the number block) IS the model's `readToken`, on every
    consistent position `Pos buf line r` (cursor inside a NUL-terminated buffer, line = 1 + line breaks passed) and for
    every budget of at least `|r| + 2`.  Nothing of the tokenizer is hand-translated any more. -/
theorem translated_readToken (buf : List Byte) (line : Nat) (r : List Byte) (h : Pos buf line r) (f : Nat)
    (hf : r.length + 2 ≤ f) : JsonCode.readToken f line r = readToken line r := by
  unfold JsonCode.readToken
  exact gen_readToken buf f line r hf h

example : Pos [32, 10, 116, 114, 117, 101, 44, 0] 1 [32, 10, 116, 114, 117, 101, 44, 0] := Pos.init _ (by decide)
example : JsonCode.readToken 10 1 [32, 10, 116, 114, 117, 101, 44, 0] = .ok ⟨116, .bool true, 2, [44, 0]⟩ := by rfl

/-! ## `syntaxError` translated; exactness of the error position -/

/-- the translated `Json::Private::syntaxError` - the backwards walk from the error cursor to the previous CR / LF or the
    start of the text, over the bytes IN FRONT of the cursor (`back`, nearest first) - yields errorLine = pos.line and
    errorColumn = 1 + the number of bytes back to the line start (whether the code counts while walking or subtracts
    two pointers) -/
theorem translated_syntaxError (line : Nat) (back : List Byte) (f : Nat) (hf : back.length < f) :
    JsonCode.syntaxError f line back = .ok (line, 1 + (back.takeWhile notBreak).length) :=
  gen_syntaxError line back f hf

/-- hence on every consistent position the translated code computes the model's `column` -/
theorem translated_column (buf : List Byte) (line : Nat) (p : List Byte) (h : Pos buf line p) :
    ∃ back, buf = back.reverse ++ p ∧ 0 ∉ back ∧
      JsonCode.syntaxError (back.length + 1) line back = .ok (line, column buf p) := by
  obtain ⟨q, hb, _, hq, _, _⟩ := h
  refine ⟨q, hb, hq, ?_⟩
  rw [gen_syntaxError line q _ (Nat.lt_succ_self _)]
  have : buf.length - p.length = q.reverse.length := by rw [hb]; simp
  unfold column
  rw [this]
  conv => rhs; rw [hb]
  simp
  have e : notBreak = fun c => (!c == 10 && !c == 13) := by
    funext c; simp [notBreak]
  rw [e]

example : JsonCode.syntaxError 9 3 [120, 32, 10, 97] = .ok (3, 3) := by rfl

/-- EXACTNESS of the reported position, by error class.  When `parse` reports `(l, c)` there is a cursor `p` of the buffer
    (`buf = back.reverse ++ p`, nothing but NUL-free text in front of it) such that
    * `(l, c)` is what the TRANSLATED `syntaxError` computes for `p` (line `l`, the walk back over `back`), and
    * `p` is exactly one of (`ErrAt`):
      - `tokenizer`: the cursor at which `readToken`, started at a consistent position, gives up - by
        `tokenizer_error_cursor` that is the FIRST byte of the offending token (after the white space) for every token
        that is not a string literal, and inside a string literal the cursor where the (translated) string loop stops;
      - `behindToken`: a complete token was read that the grammar does not allow there; `p` is the cursor immediately
        behind that token and `l` the line of that cursor (the code passes `pos`, not `token.pos`). -/
theorem error_pos_exact (buf : List Byte) (h : 0 ∈ buf) (l c : Nat) (he : parse buf = .err l c) :
    ∃ p back, buf = back.reverse ++ p ∧ 0 ∉ back ∧ ErrAt buf l p ∧
      JsonCode.syntaxError (back.length + 1) l back = .ok (l, c) := by
  have hpost := parseRaw_post buf h
  rw [parse_eq_raw] at he
  cases hr : parseRaw buf with
  | ok v => rw [hr] at he; cases he
  | fail l' p =>
    rw [hr] at he hpost
    simp only [PRes.err.injEq] at he
    obtain ⟨back, hb, h0, hc⟩ := translated_column buf l' p hpost
    refine ⟨p, back, hb, h0, ?_, ?_⟩
    · rw [← he.1]; exact parseRaw_exact buf h l' p hr
    · rw [← he.1, ← he.2]; exact hc
  | oob => rw [hr] at he; cases he
  | nofuel => rw [hr] at he; cases he

/-- where the tokenizer gives up (first class of `error_pos_exact`): after the white space either at the first byte of
    the token - a byte that cannot start a token, or a `t` / `f` / `n` that does not start `true` / `false` / `null`;
    the line is the line of that byte - or inside a string literal, at the cursor where the string loop stops -/
theorem tokenizer_error_cursor (line : Nat) (r : List Byte) (l : Nat) (p : List Byte) (h : readToken line r = .fail l p) :
    ∃ line1 t, skipSpace line r = .ok (line1, t) ∧
      ((t = p ∧ l = line1 ∧ t.head? ≠ some 34) ∨
       (∃ r', t = 34 :: r' ∧ readStr r'.length line1 [] r' = .fail l p)) :=
  readToken_fail_cases line r l p h

-- `[1 x]`: the token `x` cannot start a token: error at its first byte (offset 3, column 4)
example : parseRaw [91, 49, 32, 120, 93, 0] = .fail 1 [120, 93, 0] := by rfl
example : ErrAt [91, 49, 32, 120, 93, 0] 1 [120, 93, 0] :=
  .tokenizer 1 [32, 120, 93, 0] ⟨[49, 91], by simp, by simp, by simp, by simp [breaksR], by simp⟩ (by rfl)
-- `[1 2]`: the token `2` is complete but not `,` / `]`: error immediately behind it (column 5)
example : parse [91, 49, 32, 50, 93, 0] = .err 1 5 := by rfl

/-- inside a string literal (second case of `tokenizer_error_cursor`): the string loop stops with an error exactly
    * AT the NUL that ends the text inside the literal (`StrStop.eof`), or
    * AT the first byte that is not a hexadecimal digit in a `\u` escape with fewer than four of them (`badHex`; also in the
      second escape of a surrogate pair), or
    * immediately BEHIND a high surrogate escape `\uD800`..`\uDBFF` that is not followed by `\u` + a low surrogate
      (`loneHigh`: the `pos.pos -= 6` and the two "Expected UTF-8 surrogate pair" returns);
    `pre` is the part of the literal in front of the error cursor.  For every budget, line, accumulator and cursor. -/
theorem string_error_cursor (f line : Nat) (acc r : List Byte) (l : Nat) (p : List Byte)
    (h : readStr f line acc r = .fail l p) : ∃ pre, r = pre ++ p ∧ StrStop pre p :=
  readStr_stop f line acc r l p h

example : readStr 9 1 [] [97, 92, 117, 49, 120, 34, 0] = .fail 1 [120, 34, 0] := by rfl
example : StrStop ([97] ++ [92, 117] ++ [49]) [120, 34, 0] :=
  .badHex [97] [49] _ 120 (by decide) (by decide) rfl (by decide)
example : readStr 9 1 [] [92, 117, 100, 56, 48, 48, 120, 34, 0] = .fail 1 [120, 34, 0] := by rfl

/-! ## the recursive-descent parser, translated -/

/-- `Json::Private::parseValue` with `parseArray` / `parseObject` executed in place, as written today, IS the model's
    `parseValue` / `arrLoop` / `objLoop` - for every budget and every parser state (the three generated functions are the
    model's three mutual functions, fuel for fuel; the out-parameter `Variant& result` is the value returned, `List::append`
    is `acc ++ [v]`, `HashMap::append(key, …)` is `mapAppend` with its repeated-key rule, `readToken()` is `St.next`) -/
theorem translated_parser (f : Nat) :
    (∀ st, JsonCode.parseValue f st = parseValue f st) ∧
    (∀ st acc, JsonCode.pvL0 f st acc = arrLoop f acc st) ∧
    (∀ st acc key, JsonCode.pvL1 f st acc key = objLoop f acc st) :=
  gen_parser f

/-- `Json::Private::parse(data, result)` glued from the translated pieces (the three statements `pos.line = 1; pos.pos = start;
    if(!readToken()) …; if(!parseValue(result)) …` are written here by hand): translated tokenizer, then translated parser -/
def translatedParse (buf : List Byte) : Res Val :=
  (JsonCode.readToken (buf.length + 2) 1 buf).bind fun st =>
    (JsonCode.parseValue (parseFuel buf) st).bind fun x => .ok x.1

/-- on every NUL-terminated buffer the translated parser is the model's parser -/
theorem translated_parse (buf : List Byte) (h : 0 ∈ buf) : translatedParse buf = parseRaw buf := by
  unfold translatedParse parseRaw
  rw [translated_readToken buf 1 buf (Pos.init buf h) _ (Nat.le_refl _)]
  congr 1
  funext st
  rw [(gen_parser (parseFuel buf)).1 st]

/-- `parse_total` / `parse_no_oob` over the TRANSLATED parser: it terminates within its budget and reads nothing behind the
    terminator, for every NUL-terminated buffer -/
theorem translated_parse_total_safe (buf : List Byte) (h : 0 ∈ buf) :
    translatedParse buf ≠ .nofuel ∧ translatedParse buf ≠ .oob := by
  rw [translated_parse buf h]
  have := parseRaw_post buf h
  constructor <;> (intro e; rw [e] at this; exact this)

/-- `roundtrip` over the TRANSLATED parser: for every tree of the property, the code of today parses the text of `toString`
    back to the tree (an int64 that fits 32 bits comes back as int) -/
theorem translated_roundtrip (v : Val) (h : wf v) : translatedParse (toString v ++ [0]) = .ok (norm v) := by
  rw [translated_parse _ (by simp)]
  have := roundtrip_through_rfc v h
  rw [parse_eq_raw] at this
  cases e : parseRaw (toString v ++ [0]) with
  | ok x => rw [e] at this; simp only [PRes.ok.injEq] at this; rw [this]
  | fail l p => rw [e] at this; cases this
  | oob => rw [e] at this; cases this
  | nofuel => rw [e] at this; cases this

example : translatedParse [91, 49, 44, 123, 34, 97, 34, 58, 110, 117, 108, 108, 125, 93, 0]
    = .ok (.list [.int 1, .map [([97], .null)]]) := by rfl

/-! ## `parse` into a Variant that already holds a value (ModelInto.lean; driven by the op `parseinto`) -/

/-- a Variant that is neither a non-empty list nor a non-empty map is simply replaced: parsing into it is `parse`, so every
    theorem about `parse` (total, safe, positions, round trip) holds for it -/
theorem parse_into_fresh (init : Val) (buf : List Byte) (h1 : initList init = []) (h2 : initMap init = []) :
    parseInto init buf = parse buf :=
  parseInto_fresh_eq init buf h1 h2

/-- a Variant that already holds the list `l`, text = an array: same outcome as `parse` (same errors, same positions), the
    parsed items are appended BEHIND the items of `l` -/
theorem parse_into_array_appends (l : List Val) (buf : List Byte) (st : St) (hst : readToken 1 buf = .ok st)
    (h91 : st.tok = 91) :
    parseInto (.list l) buf = match parse buf with
      | .ok v => .ok (prependList l v)
      | e => e :=
  parseInto_array l buf st hst h91

/-- a Variant that already holds the map `m`, text = an object: same outcome as `parse` (same errors, same positions);
    the parsed members are `HashMap::append`ed to `m` in text order - a name that `m` (or an earlier member) already has
    keeps its place and takes the new value, new names follow behind (`mergeMap` = fold of `mapAppend`; `obj_prefix` by
    induction over the loop with the invariant "the names collected so far are pairwise different") -/
theorem parse_into_object_appends (m : List (List Byte × Val)) (buf : List Byte) (st : St)
    (hst : readToken 1 buf = .ok st) (h123 : st.tok = 123) :
    parseInto (.map m) buf = match parse buf with
      | .ok v => .ok (mergeInto m v)
      | e => e :=
  parseInto_object m buf st hst h123

example : mergeInto [([97], .int 1), ([98], .null)] (.map [([99], .int 1), ([97], .int 2)])
    = .map [([97], .int 2), ([98], .null), ([99], .int 1)] := by rfl

end Nstd.Json
