import Nstd.Xml.LemmasHeap5
/-
  Exclusively owned block sets and the two ways a write-through operation proceeds:
  (1) make a fresh block and redirect the handle to it (clone of a shared element, replacement of a text / null),
  (2) use the block in place because its count is at most one — then nobody else can reach it.
-/
namespace Nstd.Xml.Heap

open Nstd.Xml (Bytes attrSet)

/-- `P` is owned by variable `v`: no other variable and no block outside `P` points into `P` -/
structure Excl (s : St) (v : Nat) (P : Nat → Prop) : Prop where
  vars : ∀ w b, w ≠ v → w < s.nv → s.vars w = some b → ¬ P b
  closed : ∀ x blk, ¬ P x → s.heap x = some blk → ∀ c ∈ kidsOfPay blk.pay, ¬ P c

theorem excl_empty (s : St) (v : Nat) : Excl s v (fun _ => False) :=
  ⟨fun _ _ _ _ _ h => h, fun _ _ _ _ _ _ h => h⟩

theorem keeps_trans {s s1 s2 : St} {v : Nat} (h1 : Keeps s s1 v) (h2 : Keeps s1 s2 v) : Keeps s s2 v :=
  ⟨by rw [h2.1, h1.1], fun w val hw hwn hr => h2.2 w val hw (by rw [h1.1]; exact hwn) (h1.2 w val hw hwn hr)⟩

theorem keeps_refl (s : St) (v : Nat) : Keeps s s v := ⟨rfl, fun _ _ _ _ h => h⟩

/-- a batch of writes that touches only payloads of blocks in `P` or fresh blocks, followed by dropping handles -/
theorem batch_ok (s : St) (hi : Inv s) (v : Nat) (P : Nat → Prop) (hex : Excl s v P) (s2 : St) (pend : List Nat) (f : Nat)
    (hnv : s2.nv = s.nv) (hvars : ∀ w, w ≠ v → s2.vars w = s.vars w)
    (hpay : ∀ x, ¬ P x → x < s.next → payOf s2.heap x = payOf s.heap x)
    (hcnt : ∀ x, varCnt s2.vars s.nv x + heapCnt s2.heap s2.next x + pend.count x ≤ refOf s2.heap x)
    (hfresh2 : ∀ b, s2.next ≤ b → s2.heap b = none) :
    Inv { s2 with heap := release s2.heap f pend } ∧ Keeps s { s2 with heap := release s2.heap f pend } v ∧
      Excl { s2 with heap := release s2.heap f pend } v (fun x => P x ∨ s.next ≤ x) := by
  have hrel := release_spec s2.vars s.nv s2.next f s2.heap pend hcnt hfresh2
  refine ⟨⟨?_, hrel.fresh⟩, ⟨hnv, ?_⟩, ⟨?_, ?_⟩⟩
  · intro x
    have := hrel.cnt_le x
    show varCnt s2.vars s2.nv x + heapCnt (release s2.heap f pend) s2.next x ≤ _
    rw [hnv]; exact this
  · intro w val hw hwn hr
    have h1 : repV s2.heap val (s.vars w) := by
      apply repV_frame s.heap s2.heap P _ hex.closed val _ _ hr
      · intro x blk hx hxs
        exact of_payOf_eq (hpay x hx (some_lt hi hxs)).symm hxs
      · intro b hb; exact hex.vars w b hw hwn hb
    have := hrel.rep w val hwn (by rw [hvars w hw]; exact h1)
    exact this
  · intro w b hw hwn hb hP
    have hb' : s.vars w = some b := by
      have : s2.vars w = some b := hb
      rw [hvars w hw] at this; exact this
    rcases hP with hP | hP
    · exact hex.vars w b hw (by rw [← hnv]; exact hwn) hb' hP
    · have := live_lt hi (var_live hi (by rw [← hnv]; exact hwn) hb')
      omega
  · intro x blk' hx hxs c hc hPc
    have hx1 : ¬ P x := fun h => hx (Or.inl h)
    have hx2 : x < s.next := by
      apply Classical.byContradiction; intro hn; exact hx (Or.inr (by omega))
    obtain ⟨blk2, h2, hp2⟩ := hrel.sub x blk' hxs
    obtain ⟨r0, h0⟩ := of_payOf_eq (hpay x hx1 hx2) h2
    rw [hp2] at h0
    rcases hPc with hPc | hPc
    · exact hex.closed x _ hx1 h0 c hc hPc
    · have := live_lt hi (kid_live hi hx2 (by rw [h0]; exact hc))
      omega

/-- the location belongs to variable `v`'s owned region -/
def LocOwned (v : Nat) (P : Nat → Prop) : Loc → Prop
  | .var v' => v' = v
  | .kid p _ => P p

/-- (1) a fresh block with payload `pay` (whose children `ks` get one more reference each), the handle at `loc`
    redirected to it, the old handle dropped -/
theorem redirect_ok (s : St) (hi : Inv s) (v : Nat) (P : Nat → Prop) (hex : Excl s v P)
    (loc : Loc) (cur : Option Nat) (hl : LocHolds s loc cur) (ho : LocOwned v P loc)
    (pay : Payload) (hlive : ∀ c ∈ kidsOfPay pay, s.heap c ≠ none) (f : Nat) :
    let s0 : St := { s with heap := incRefs s.heap (kidsOfPay pay) }
    let s2 := setLoc (alloc s0 pay).1 loc s.next
    Inv { s2 with heap := release s2.heap f cur.toList } ∧ Keeps s { s2 with heap := release s2.heap f cur.toList } v ∧
      Excl { s2 with heap := release s2.heap f cur.toList } v (fun x => P x ∨ s.next ≤ x) := by
  intro s0 s2
  have hn0 : s0.heap s.next = none := incRefs_none _ _ _ (hi.fresh _ (Nat.le_refl _))
  let s1 := (alloc s0 pay).1
  have hl1 : LocHolds s1 loc cur := by
    cases loc with
    | var v' => exact hl
    | kid p k =>
      obtain ⟨r, e, c, hpn, hp, hk, hc⟩ := hl
      have hpne : p ≠ s.next := by omega
      have h0 : payOf s0.heap p = payOf s.heap p := payOf_incRefs p _ _
      obtain ⟨r', hp0⟩ := of_payOf_eq h0.symm hp
      refine ⟨r', e, c, ?_, ?_, hk, hc⟩
      · show p < s.next + 1; omega
      · show upd s0.heap s.next _ p = _
        rw [upd_ne _ _ _ _ hpne]; exact hp0
  have hs2nv : s2.nv = s.nv := by rw [setLoc_nv]; rfl
  have hs2next : s2.next = s.next + 1 := by rw [setLoc_next]; rfl
  apply batch_ok s hi v P hex s2 cur.toList f hs2nv
  · intro w hw
    have hvv : ∀ v', loc = .var v' → v' = v := by
      intro v' hv'; subst hv'; exact ho
    rw [setLoc_vars_other s1 loc s.next v w hvv hw]; rfl
  · intro x hx hxn
    have hxp : ∀ p k, loc = .kid p k → x ≠ p := by
      intro p k hpk hxp2; subst hpk; subst hxp2; exact hx ho
    rw [setLoc_payOf s1 loc s.next x hxp]
    show payOf (upd s0.heap s.next _) x = _
    rw [payOf_upd_ne _ _ _ _ (by omega)]
    exact payOf_incRefs x _ _
  · intro x
    rw [hs2next]
    have h1 : varCnt s2.vars s.nv x + heapCnt s2.heap (s.next + 1) x + cur.toList.count x =
        varCnt s.vars s.nv x + heapCnt s1.heap (s.next + 1) x + [s.next].count x := setLoc_counts s1 loc cur s.next x hl1
    have h2 : heapCnt s1.heap (s.next + 1) x = heapCnt s0.heap s.next x + (kidsOfPay pay).count x := alloc_heapCnt s0 pay x
    have h3 : heapCnt s0.heap s.next x = heapCnt s.heap s.next x :=
      heapCnt_of_payOf _ _ _ _ (fun i _ => payOf_incRefs i _ _)
    have h4 : refOf s2.heap x = refOf s1.heap x := setLoc_refOf s1 loc cur s.next x hl1
    have h5 : refOf s1.heap x = refOf s0.heap x + [s.next].count x := alloc_refOf s0 pay x hn0
    have h6 : refOf s0.heap x = refOf s.heap x + (kidsOfPay pay).count x := refOf_incRefs x _ _ hlive
    have h7 := hi.cnt_le x
    unfold cnt at h7
    show varCnt s2.vars s.nv x + heapCnt s2.heap (s.next + 1) x + _ ≤ refOf s2.heap x
    omega
  · intro b hb
    rw [hs2next] at hb
    apply setLoc_none
    show upd s0.heap s.next _ b = none
    rw [upd_ne _ _ _ _ (by omega)]
    exact incRefs_none _ _ _ (hi.fresh b (by omega))

/-- (2) a block whose count is at most one and whose handle sits in `v`'s region belongs to `v` alone -/
theorem excl_extend (s : St) (hi : Inv s) (v : Nat) (P : Nat → Prop) (hex : Excl s v P)
    (loc : Loc) (c : Nat) (hl : LocHolds s loc (some c)) (ho : LocOwned v P loc) (hr : refOf s.heap c ≤ 1) :
    Excl s v (fun x => P x ∨ x = c) := by
  have hc := hi.cnt_le c
  unfold cnt at hc
  refine ⟨?_, ?_⟩
  · intro w b hw hwn hb hP
    rcases hP with hP | hP
    · exact hex.vars w b hw hwn hb hP
    · subst hP
      cases loc with
      | var v' =>
        obtain ⟨hv', hvc⟩ := hl
        have : v' = v := ho
        subst this
        have := varCnt_ge_two s.vars s.nv v' w b hv' hwn (Ne.symm hw) hvc hb
        omega
      | kid p k =>
        obtain ⟨r, e, c', hpn, hp, hk, hcc⟩ := hl
        cases hcc
        have h1 := varCnt_ge s.vars s.nv w b hwn hb
        have h2 := heapCnt_ge s.heap s.next p b hpn (by rw [hp]; exact mem_of_get hk)
        omega
  · intro x blk hx hxs d hd hP
    have hx1 : ¬ P x := fun h => hx (Or.inl h)
    rcases hP with hP | hP
    · exact hex.closed x blk hx1 hxs d hd hP
    · subst hP
      have hxn := some_lt hi hxs
      have h2 := heapCnt_ge s.heap s.next x d hxn (by rw [hxs]; exact hd)
      cases loc with
      | var v' =>
        obtain ⟨hv', hvc⟩ := hl
        have h1 := varCnt_ge s.vars s.nv v' d hv' hvc
        omega
      | kid p k =>
        obtain ⟨r, e, c', hpn, hp, hk, hcc⟩ := hl
        cases hcc
        have hxp : x ≠ p := by intro e2; subst e2; exact hx1 ho
        have := heapCnt_ge_two s.heap s.next x p d hxn hpn hxp (by rw [hxs]; exact hd) (by rw [hp]; exact mem_of_get hk)
        omega

/-- a write that changes only payloads of blocks in `P` (same reference counts, same children) -/
theorem keeps_of_frame (s s' : St) (hi : Inv s) (v : Nat) (P : Nat → Prop) (hex : Excl s v P)
    (hnv : s'.nv = s.nv) (hvars : ∀ w, w ≠ v → s'.vars w = s.vars w)
    (hpay : ∀ x, ¬ P x → x < s.next → payOf s'.heap x = payOf s.heap x) : Keeps s s' v := by
  refine ⟨hnv, ?_⟩
  intro w val hw hwn hr
  rw [hvars w hw]
  apply repV_frame s.heap s'.heap P _ hex.closed val _ _ hr
  · intro x blk hx hxs
    exact of_payOf_eq (hpay x hx (some_lt hi hxs)).symm hxs
  · intro b hb; exact hex.vars w b hw hwn hb

end Nstd.Xml.Heap
