import Nstd.Xml.Decor
import Nstd.Xml.LemmasComment
/-  `skipSpace` over a run of white-space bytes and complete comments (misc run) -/
namespace Nstd.Xml

/-- the outer loop of `skipSpace`, started at `p` with `commentEnd = ce`, ends with `r` (some fuel) -/
def SkipsTo (t : Bytes) (p : Pos) (ce : Option Pos) (r : Pos × Option Pos) : Prop :=
  ∃ f, skipLoop t f false p ce = .ok r

theorem SkipsTo.fuel {t : Bytes} {p : Pos} {ce : Option Pos} {r : Pos × Option Pos} (h : SkipsTo t p ce r)
    (hp : p.pos ≤ t.length) {f : Nat} (hf : t.length - p.pos < f) : skipLoop t f false p ce = .ok r := by
  obtain ⟨f0, h0⟩ := h
  obtain ⟨r', hr', _⟩ := skipLoop_ok t f false p ce hp hf
  have e1 := skipLoop_mono_le t (Nat.le_max_left f0 f) h0
  have e2 := skipLoop_mono_le t (Nat.le_max_right f0 f) hr'
  rw [e1] at e2
  cases e2
  exact hr'

theorem SkipsTo.skipSpace {t : Bytes} {p : Pos} {r : Pos × Option Pos} (h : SkipsTo t p none r)
    (hp : p.pos ≤ t.length) : skipSpace t p = .ok r :=
  h.fuel hp (by omega)

theorem SkipsTo.step_plain {t : Bytes} {p : Pos} {ce : Option Pos} {r : Pos × Option Pos} {b : UInt8} {rest : Bytes}
    (h : t.drop p.pos = b :: rest) (hs : isSpace b = true) (h13 : b ≠ 13) (h10 : b ≠ 10)
    (hn : SkipsTo t ⟨p.line, p.pos + 1, p.ls⟩ ce r) : SkipsTo t p ce r := by
  obtain ⟨f, hf⟩ := hn
  refine ⟨f + 1, ?_⟩
  simp only [skipLoop]
  rw [peek_drop h]; simp only [Res.ok_bind]
  rw [if_neg h13, if_neg h10, if_neg (isSpace_ne_60 hs), if_pos hs]
  exact hf

theorem SkipsTo.step_lf {t : Bytes} {p : Pos} {ce : Option Pos} {r : Pos × Option Pos} {rest : Bytes}
    (h : t.drop p.pos = 10 :: rest)
    (hn : SkipsTo t ⟨p.line + 1, p.pos + 1, p.pos + 1⟩ ce r) : SkipsTo t p ce r := by
  obtain ⟨f, hf⟩ := hn
  refine ⟨f + 1, ?_⟩
  simp only [skipLoop]
  rw [peek_drop h]; simp only [Res.ok_bind]
  rw [if_neg (by decide), if_pos trivial]
  exact hf

theorem SkipsTo.inv_lf {t : Bytes} {p : Pos} {ce : Option Pos} {r : Pos × Option Pos} {rest : Bytes}
    (h : t.drop p.pos = 10 :: rest) (hn : SkipsTo t p ce r) :
    SkipsTo t ⟨p.line + 1, p.pos + 1, p.pos + 1⟩ ce r := by
  obtain ⟨f, hf⟩ := hn
  cases f with
  | zero => simp [skipLoop] at hf
  | succ f =>
    refine ⟨f, ?_⟩
    simp only [skipLoop] at hf
    rw [peek_drop h] at hf; simp only [Res.ok_bind] at hf
    rw [if_neg (by decide), if_pos trivial] at hf
    exact hf

theorem SkipsTo.step_cr_lf {t : Bytes} {p : Pos} {ce : Option Pos} {r : Pos × Option Pos} {rest : Bytes}
    (h : t.drop p.pos = 13 :: 10 :: rest)
    (hn : SkipsTo t ⟨p.line + 1, p.pos + 2, p.pos + 2⟩ ce r) : SkipsTo t p ce r := by
  obtain ⟨f, hf⟩ := hn
  obtain ⟨_, _, hd1⟩ := drop_cons h
  refine ⟨f + 1, ?_⟩
  simp only [skipLoop]
  rw [peek_drop h]; simp only [Res.ok_bind]
  rw [if_pos trivial, peek_drop hd1]; simp only [Res.ok_bind, if_true]
  exact hf

theorem SkipsTo.step_cr {t : Bytes} {p : Pos} {ce : Option Pos} {r : Pos × Option Pos} {rest : Bytes}
    (h : t.drop p.pos = 13 :: rest) (hne : ∀ r', rest ≠ 10 :: r')
    (hn : SkipsTo t ⟨p.line + 1, p.pos + 1, p.pos + 1⟩ ce r) : SkipsTo t p ce r := by
  obtain ⟨f, hf⟩ := hn
  obtain ⟨hlt, _, hd1⟩ := drop_cons h
  obtain ⟨d, hd, hdnz, hdval⟩ := peek_le (show p.pos + 1 ≤ t.length by omega)
  have hd10 : d ≠ 10 := by
    intro e
    have hlt2 : p.pos + 1 < t.length := hdnz (by rw [e]; decide)
    have : t.drop (p.pos + 1) = t.getD (p.pos + 1) 0 :: t.drop (p.pos + 1 + 1) := by
      rw [List.drop_eq_getElem_cons hlt2]
      simp [List.getD_eq_getElem?_getD, List.getElem?_eq_getElem hlt2]
    rw [hd1, ← hdval hlt2, e] at this
    exact hne _ this
  refine ⟨f + 1, ?_⟩
  simp only [skipLoop]
  rw [peek_drop h]; simp only [Res.ok_bind]
  rw [if_pos trivial, hd]; simp only [Res.ok_bind, hd10, if_false]
  exact hf

/-- in front of a complete comment the outer loop does what it does behind it with `commentEnd` set there -/
theorem SkipsTo.step_comment (t : Bytes) (p : Pos) (ce : Option Pos) (body rest : Bytes)
    (h : t.drop p.pos = [60, 33, 45, 45] ++ (body ++ ([45, 45, 62] ++ rest))) (hb : commentBody body) :
    ∃ q : Pos, q.pos = p.pos + 4 + body.length + 3 ∧ ∀ r, SkipsTo t q (some q) r → SkipsTo t p ce r := by
  have h0 : t.drop p.pos = 60 :: 33 :: 45 :: 45 :: (body ++ ([45, 45, 62] ++ rest)) := by simpa using h
  obtain ⟨hplt, g0, hd1⟩ := drop_cons h0
  obtain ⟨_, g1, hd2⟩ := drop_cons hd1
  obtain ⟨_, g2, hd3⟩ := drop_cons hd2
  obtain ⟨_, g3, hd4⟩ := drop_cons hd3
  have hd4' : t.drop (p.pos + 4) = body ++ ([45, 45, 62] ++ rest) := by simpa [Nat.add_assoc] using hd4
  have hdm : t.drop (p.pos + 4 + body.length) = 45 :: 45 :: 62 :: rest := by simpa using drop_append hd4'
  obtain ⟨hmlt, m0, hdm1⟩ := drop_cons hdm
  obtain ⟨_, m1, hdm2⟩ := drop_cons hdm1
  obtain ⟨hm2lt, m2, _⟩ := drop_cons hdm2
  have hd4'' : t.drop (p.pos + 4) = (body ++ [45, 45]) ++ (62 :: rest) := by rw [hd4']; simp
  have hbody : ∀ i, p.pos + 4 ≤ i → i < p.pos + 4 + body.length →
      ¬(t.getD i 0 = 45 ∧ t.getD (i + 1) 0 = 45 ∧ t.getD (i + 2) 0 = 62) := by
    intro i hi1 hi2
    have e0 := drop_getD hd4'' (show i - (p.pos + 4) < (body ++ [45, 45]).length by simp; omega)
    rw [show p.pos + 4 + (i - (p.pos + 4)) = i by omega] at e0
    have e1 := drop_getD hd4'' (show i - (p.pos + 4) + 1 < (body ++ [45, 45]).length by simp; omega)
    rw [show p.pos + 4 + (i - (p.pos + 4) + 1) = i + 1 by omega] at e1
    have hget : t.getD (i + 2) 0 = (body ++ [45, 45]).getD (i - (p.pos + 4) + 2) 0 := by
      have e2 := drop_getD hd4'' (show i - (p.pos + 4) + 2 < (body ++ [45, 45]).length by simp; omega)
      rw [show p.pos + 4 + (i - (p.pos + 4) + 2) = i + 2 by omega] at e2
      exact e2
    rw [e0, e1, hget]
    exact hb _ (by omega)
  obtain ⟨q, hq1, _, hq3⟩ := comment_walk t (p.pos + 4) (p.pos + 4 + body.length) (by omega) m0 m1
    (by simpa [Nat.add_assoc] using m2) hbody (body.length) ⟨p.line, p.pos + 4, p.ls⟩ ce
    (by simp) (by simp) (by simp)
  refine ⟨q, hq1, ?_⟩
  intro r hr
  obtain ⟨f, hf⟩ := hq3 r hr
  refine ⟨f + 1, ?_⟩
  rw [skipLoop]
  rw [peek_drop h0]; simp only [Res.ok_bind]
  rw [if_neg (by decide), if_neg (by decide), if_pos trivial, cstr_le (by omega), hd1]
  simp only [Res.ok_bind]
  rw [if_pos (by simp)]
  exact hf

theorem textReady_tail (x : MiscItem) (m : List MiscItem) (h : textReady (x :: m) = true) : textReady m = true := by
  cases m with
  | nil => rfl
  | cons y m => simpa [textReady] using h

theorem miscOk_cons {x : MiscItem} {m : List MiscItem} (h : miscOk (x :: m)) : x.Ok ∧ miscOk m :=
  ⟨h x (by simp), fun y hy => h y (by simp [hy])⟩

/-- the outer loop of `skipSpace` in front of a misc run does what it does behind the run, with
    `commentEnd` = end of the last comment of the run -/
theorem skip_misc (t : Bytes) : ∀ (m : List MiscItem), miscOk m → ∀ (p : Pos) (ce : Option Pos) (tail : Bytes),
    t.drop p.pos = miscStr m ++ tail →
    ∃ (q : Pos) (ce' : Option Pos), q.pos = p.pos + (miscStr m).length ∧
      (∀ r, SkipsTo t q ce' r → SkipsTo t p ce r) ∧
      (m = [] → ce' = ce ∧ q = p) ∧
      (textReady m = true → m ≠ [] → ∃ c, ce' = some c ∧ c.pos = q.pos) := by
  intro m
  induction m with
  | nil =>
    intro _ p ce tail _
    exact ⟨p, ce, by simp [miscStr], fun r h => h, fun _ => ⟨rfl, rfl⟩, fun _ h => absurd rfl h⟩
  | cons x m ih =>
    intro hok p ce tail hd
    obtain ⟨hx, hm⟩ := miscOk_cons hok
    cases x with
    | comment body =>
      obtain ⟨hcb, _⟩ := hx
      have hd' : t.drop p.pos = [60, 33, 45, 45] ++ (body ++ ([45, 45, 62] ++ (miscStr m ++ tail))) := by
        rw [hd]; simp [miscStr, MiscItem.toStr]
      obtain ⟨qx, hqx, hstep⟩ := SkipsTo.step_comment t p ce body _ hd' hcb
      have hdq : t.drop qx.pos = miscStr m ++ tail := by
        have := drop_append (a := [60, 33, 45, 45] ++ (body ++ [45, 45, 62])) (r := miscStr m ++ tail) (t := t) (i := p.pos)
          (by rw [hd']; simp)
        rw [hqx, show p.pos + 4 + body.length + 3 = p.pos + ([60, 33, 45, 45] ++ (body ++ [45, 45, 62])).length by
          simp; omega]
        exact this
      obtain ⟨q, ce', hq, hall, hnil, hready⟩ := ih hm qx (some qx) tail hdq
      refine ⟨q, ce', ?_, fun r h => hstep r (hall r h), (fun h => by cases h), ?_⟩
      · rw [hq, hqx]; simp [miscStr, MiscItem.toStr]; omega
      · intro htr _
        cases m with
        | nil =>
          obtain ⟨e1, e2⟩ := hnil rfl
          exact ⟨qx, e1, by rw [e2]⟩
        | cons y m' => exact hready (textReady_tail _ _ htr) (by simp)
    | ws b =>
      have hsp : isSpace b = true := hx
      have hd' : t.drop p.pos = b :: (miscStr m ++ tail) := by
        rw [hd]; simp [miscStr, MiscItem.toStr]
      obtain ⟨_, _, hd1⟩ := drop_cons hd'
      -- the position behind the byte (line bookkeeping as the loop does it, except inside CR LF)
      have key : ∃ p1 : Pos, p1.pos = p.pos + 1 ∧ ∀ r, SkipsTo t p1 ce r → SkipsTo t p ce r := by
        by_cases h13 : b = 13
        · subst h13
          by_cases hlf : ∃ r', miscStr m ++ tail = 10 :: r'
          · obtain ⟨r', hr'⟩ := hlf
            refine ⟨⟨p.line, p.pos + 1, p.ls⟩, rfl, fun r h => ?_⟩
            have h2 := SkipsTo.inv_lf (p := ⟨p.line, p.pos + 1, p.ls⟩) (by rw [← hr']; exact hd1) h
            exact SkipsTo.step_cr_lf (by rw [hd', hr']) h2
          · exact ⟨⟨p.line + 1, p.pos + 1, p.pos + 1⟩, rfl, fun r h =>
              SkipsTo.step_cr hd' (fun r' e => hlf ⟨r', e⟩) h⟩
        · by_cases h10 : b = 10
          · subst h10
            exact ⟨⟨p.line + 1, p.pos + 1, p.pos + 1⟩, rfl, fun r h => SkipsTo.step_lf hd' h⟩
          · exact ⟨⟨p.line, p.pos + 1, p.ls⟩, rfl, fun r h => SkipsTo.step_plain hd' hsp h13 h10 h⟩
      obtain ⟨p1, hp1, hstep⟩ := key
      obtain ⟨q, ce', hq, hall, hnil, hready⟩ := ih hm p1 ce tail (by rw [hp1]; exact hd1)
      refine ⟨q, ce', ?_, fun r h => hstep r (hall r h), (fun h => by cases h), ?_⟩
      · rw [hq, hp1]; simp [miscStr, MiscItem.toStr]; omega
      · intro htr _
        cases m with
        | nil => simp [textReady] at htr
        | cons y m' => exact hready (textReady_tail _ _ htr) (by simp)

/-- what ends white space: a byte that is neither white space nor `<`, or a `<` that opens no comment -/
def StopHead (tail : Bytes) : Prop :=
  (∃ c r, tail = c :: r ∧ isSpace c = false ∧ c ≠ 60) ∨ (∃ d r, tail = 60 :: d :: r ∧ d ≠ 33)

theorem drop_pos_le {t : Bytes} {i : Nat} {c : UInt8} {r a : Bytes} (h : t.drop i = a ++ c :: r) : i ≤ t.length := by
  by_cases hp : i ≤ t.length
  · exact hp
  · have : t.drop i = [] := List.drop_eq_nil_of_le (by omega)
    rw [this] at h
    have := congrArg List.length h
    simp at this

/-- `skipSpace` in front of a misc run that is followed by a token start (or text) stops behind the run -/
theorem skipSpace_misc (t : Bytes) (m : List MiscItem) (hm : miscOk m) (p : Pos) (tail : Bytes)
    (hd : t.drop p.pos = miscStr m ++ tail) (hstop : StopHead tail) :
    ∃ (q : Pos) (ce' : Option Pos), q.pos = p.pos + (miscStr m).length ∧ skipSpace t p = .ok (q, ce') ∧
      t.drop q.pos = tail := by
  obtain ⟨q, ce', hq, hall, _, _⟩ := skip_misc t m hm p none tail hd
  have hdq : t.drop q.pos = tail := by rw [hq]; exact drop_append hd
  have hple : p.pos ≤ t.length := by
    rcases hstop with ⟨c, r, e, _, _⟩ | ⟨d, r, e, _⟩
    · rw [e] at hd; exact drop_pos_le hd
    · rw [e] at hd; exact drop_pos_le hd
  refine ⟨q, ce', hq, ?_, hdq⟩
  apply SkipsTo.skipSpace _ hple
  apply hall
  rcases hstop with ⟨c, r, e, hs, h60⟩ | ⟨d, r, e, hd33⟩
  · exact ⟨1, skipLoop_noop 0 ce' (by rw [hdq, e]) hs h60⟩
  · exact ⟨1, skipLoop_noop_lt 0 ce' (by rw [hdq, e]) hd33⟩

/-- … and `readToken` returns the token found there -/
theorem readToken_misc (t : Bytes) (m : List MiscItem) (hm : miscOk m) (p : Pos) (tail : Bytes)
    (hd : t.drop p.pos = miscStr m ++ tail) (hstop : StopHead tail) :
    ∃ (q : Pos) (ce' : Option Pos), q.pos = p.pos + (miscStr m).length ∧ t.drop q.pos = tail ∧
      ∀ tk q', tokenAt t q = .ok (tk, q') → readToken t p = .ok (tk, q', ce') := by
  obtain ⟨q, ce', hq, hs, hdq⟩ := skipSpace_misc t m hm p tail hd hstop
  exact ⟨q, ce', hq, hdq, fun tk q' h => readToken_eq hs h⟩

theorem miscStr_nul : ∀ (m : List MiscItem), miscOk m → ∀ b ∈ miscStr m, b ≠ 0 := by
  intro m
  induction m with
  | nil => intro _ b hb; simp [miscStr] at hb
  | cons x m ih =>
    intro hok b hb
    obtain ⟨hx, hm⟩ := miscOk_cons hok
    simp only [miscStr, List.mem_append] at hb
    rcases hb with hb | hb
    · cases x with
      | ws c =>
        simp only [MiscItem.toStr, List.mem_singleton] at hb
        subst hb
        have : isSpace b = true := hx
        intro e; subst e; revert this; decide
      | comment body =>
        obtain ⟨_, hnf⟩ := hx
        simp only [MiscItem.toStr, List.mem_append, List.mem_cons, List.not_mem_nil, or_false] at hb
        rcases hb with (rfl | rfl | rfl | rfl) | hb | (rfl | rfl | rfl)
        · decide
        · decide
        · decide
        · decide
        · simp only [bytesNulFree, List.all_eq_true, bne_iff_ne, ne_eq] at hnf
          exact hnf b hb
        · decide
        · decide
        · decide
    · exact ih hm b hb

end Nstd.Xml
