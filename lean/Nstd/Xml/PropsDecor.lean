import Nstd.Xml.Decor
import Nstd.Xml.LemmasDecor4
import Nstd.Xml.LemmasDecor5
/-
  Property C16, "accepts comments wherever white space is allowed" — as a statement about TWO texts:
  the decorated round trip.  `d : DElem` (Decor.lean) is an element tree together with a decoration:
  an arbitrary run of white-space bytes and complete comments `<!--body-->` (`commentBody`, Spec.lean)
    * in front of the root element,
    * inside every start tag: between `<` and the tag name (the code skips there too), in front of each
      attribute name (at least one white-space byte first behind the tag name: `<` is a name byte for the
      tokenizer, so a comment alone does not end a name; behind a quoted value any run, also none), on
      both sides of `=`, in front of `>` / `/>`,
    * in element content: in front of every child element, in front of every text node (the run then ends
      with a comment — white space behind the last comment belongs to the text), behind every text node
      (the run then starts with a comment) and in front of the end tag `</`,
    * inside every end tag: between `</` and the name, between the name and `>`,
  plus a quote kind (`'` or `"`) per attribute and the choice `<a/>` / `<a></a>` for an element without
  children.  `d.toStr` renders it, `d.erase` forgets the decoration.
-/
namespace Nstd.Xml

/-- Decorated round trip: for every element tree (any depth and size; well-formed names, pairwise different
    attribute keys, arbitrary NUL-free values and non-blank non-adjacent NUL-free texts, as in `roundtrip`)
    and every well-formed decoration of it — any runs of white space and comments in all the places listed
    above, either quote kind — `Xml::parse` of a run in front of the root, the decorated text and any bytes
    behind the root element succeeds and yields exactly the undecorated tree (names, attribute order and
    values, texts, nesting; `shape` drops only the recorded line/column). -/
theorem roundtrip_decorated (pre : List MiscItem) (d : DElem) (trail : Bytes)
    (hwf : d.erase.wf = true) (hnul : d.erase.nulFree = true) (hpre : miscOk pre) (hd : d.Ok) :
    ∃ e', parse (miscStr pre ++ (d.toStr ++ trail)) = .ok e' ∧ e'.shape = d.erase.shape :=
  parse_dec pre d trail hwf hnul hpre hd

/-- Two texts, one result: the decorated text and the plain serialisation `Element::toString` of the same
    tree parse to the same tree (up to the recorded positions) — comments and white space in all the places
    of a decoration, and the quote kind, do not change the result. -/
theorem comments_do_not_change_result (pre : List MiscItem) (d : DElem) (trail : Bytes)
    (hwf : d.erase.wf = true) (hnul : d.erase.nulFree = true) (hpre : miscOk pre) (hd : d.Ok) :
    ∃ e1 e2, parse (miscStr pre ++ (d.toStr ++ trail)) = .ok e1 ∧ parse d.erase.toStr = .ok e2 ∧
      e1.shape = e2.shape := by
  obtain ⟨e1, h1, s1⟩ := parse_dec pre d trail hwf hnul hpre hd
  obtain ⟨e2, h2, s2⟩ := parse_plain d.erase hwf hnul
  exact ⟨e1, e2, h1, h2, by rw [s1, s2]⟩

/-- The induction statement: positioned behind the `<` of a decorated well-formed element that is followed
    by arbitrary bytes, inside any text, `parseElement` returns the undecorated element (up to positions)
    and stops exactly behind the element, for any sufficient fuel (mutual structural induction on
    `DElem`/`DContent`, LemmasDecor3). -/
theorem roundtrip_decorated_inside (t : Bytes) (d : DElem) (hwf : d.erase.wf = true) (hd : d.Ok)
    (f : Nat) (start p : Pos) (rest : Bytes)
    (h : 60 :: t.drop p.pos = d.toStr ++ rest) (hf : d.toStr.length ≤ f) :
    ∃ e' q, parseElement t f start p = .ok (e', q) ∧ e'.shape = d.erase.shape ∧
      q.pos + 1 = p.pos + d.toStr.length :=
  delem_rt t d hwf hd f start p rest h hf

/-- The plain serialisation is one of the decorations (one space in front of each attribute, double quotes,
    no other run): `roundtrip_element` is the instance `d := e.plain` of `roundtrip_decorated`. -/
theorem plain_is_decoration (e : Elem) : e.plain.toStr = e.toStr ∧ e.plain.erase = e ∧ e.plain.Ok :=
  ⟨plain_toStr e, plain_erase e, plain_ok e⟩

/-- non-vacuity: the text
    `<!-- a--\n>--->\n<r x = <!--=-->'v"'<!--s-->y="2" > t<!--c-->< b/><!--d-->u <!--e-->\n</ r\t>`
    (comment body with `--`, a line break, `>` and `-` at its end; comments on both sides of the text `u `
    and directly behind the text ` t`; a single-quoted value containing `"`; white space and a comment
    around `=`; a comment as the only separator between two attributes; white space behind `<` and
    inside the end tag)
    is a well-formed decoration of `<r x="v&quot;" y="2"> t<b/>u </r>`. -/
example :
    let pre : List MiscItem := [.comment [32, 97, 45, 45, 10, 62, 45], .ws 10]
    let d : DElem := .full [] [114] 0 0
      [⟨[.ws 32], [120], [.ws 32], [.ws 32, .comment [61]], true, [118, 34]⟩,
       ⟨[.comment [115]], [121], [], [], false, [50]⟩]
      [.ws 32]
      (.text [] [32, 116] (.elem [.comment [99]] (.empty [.ws 32] [98] 0 0 [] [])
        (.text [.comment [100]] [117, 32] (.nil [.comment [101], .ws 10]))))
      [.ws 32] [.ws 9]
    d.erase.wf = true ∧ d.erase.nulFree = true ∧ miscOk pre ∧ d.Ok ∧
      d.erase.shape = (Elem.mk [114] 0 0 [([120], [118, 34]), ([121], [50])]
        (.text [32, 116] (.elem (.mk [98] 0 0 [] .nil) (.text [117, 32] .nil)))) ∧
      miscStr pre ++ d.toStr =
        [60, 33, 45, 45, 32, 97, 45, 45, 10, 62, 45, 45, 45, 62, 10,
         60, 114, 32, 120, 32, 61, 32, 60, 33, 45, 45, 61, 45, 45, 62, 39, 118, 38, 113, 117, 111, 116, 59, 39,
         60, 33, 45, 45, 115, 45, 45, 62, 121, 61, 34, 50, 34, 32, 62,
         32, 116, 60, 33, 45, 45, 99, 45, 45, 62, 60, 32, 98, 47, 62, 60, 33, 45, 45, 100, 45, 45, 62, 117, 32,
         60, 33, 45, 45, 101, 45, 45, 62, 10, 60, 47, 32, 114, 9, 62] := by
  intro pre d
  refine ⟨by decide, by decide, miscOk_of_check _ (by decide), ?_, rfl, by decide⟩
  simp only [d, DElem.Ok, DContent.Ok, dattrsOk]
  and_intros <;> first | exact miscOk_of_check _ (by decide) | decide | (intro _; rfl)

/- OPEN: what the decorated round trip does not cover.
   * The two-text statement for ARBITRARY texts (`parse (pre ++ comment ++ post)` vs `parse (pre ++ post)` for
     any `pre`/`post` the parser accepts): the theorems above cover every text in the image of the decorated
     serialiser — all trees, all placements of runs, both quote kinds, texts and values escaped as `toString`
     escapes them — but not hand-written spellings of the same tree (numeric references `&#65;`, raw `>` or
     quotes in text, unknown `&name;` …).  That needs translation invariance of the whole parser.
   * A prologue: the run in front of the root consists of white space and comments only; processing
     instructions mixed with comments in front of the root are not covered here
     (`pi_prologue_skipped` has white space between the instructions, no comments).
   * Trees outside `wf`: two text nodes separated only by comments (`x<!--c-->y` parses to two adjacent
     texts, which `toString` would merge) and blank texts.
   * Quirks of the attribute loop (stray tokens inside a tag are ignored) are not decorations. -/

end Nstd.Xml
