/-
  Executable model of src/Document/Xml.cpp (libnstd), property C16.

  The text handed to `Xml::parse` is a NUL terminated C string.  The model works on the
  bytes `t` in front of the first NUL; the buffer the C++ code may touch is `t ++ [0]`:
    * `peek t i`  – a dereference `*(base + i)`: a byte of `t`, the terminator at
                    `i = t.length`, and `.oob` behind it;
    * `cstr t i`  – a pointer handed to a libc string function (`strpbrk`, `strchr`,
                    `strncmp`, `strlen`): the C string starting at offset `i`; forming it
                    behind the terminator is `.oob`.  The libc functions themselves are
                    list functions on that C string (documented behaviour: they stop at NUL).
  Every loop of Xml.cpp is a recursion on a fuel argument (`.fuel` when it runs out); the
  theorems show that the fuel handed over by `parse` always suffices.

  The model mirrors the control flow of the repaired sources (fixes/xml/*.patch):
  rewind behind the last comment / after a failed look-ahead in the content loop, a
  processing instruction before the root runs to its first `?>` — line breaks inside it are
  counted by its own loop, which never calls `skipSpace` (so `<!--` inside an instruction is
  just bytes: `<?a ?<!--?><r/>` is accepted) —, `&#10;`/`&#13;` for line breaks in attribute
  values.
-/
namespace Nstd.Xml

abbrev Bytes := List UInt8

inductive Msg where
  | eof | newline | name | lt | tagname | eq | string | endtag | gt
  deriving DecidableEq, Repr

/-- outcome of a model function: value, syntax error (line, column, message),
    a read outside `t ++ [0]`, or loop fuel exhausted -/
inductive Res (α : Type) where
  | ok : α → Res α
  | err : Nat → Nat → Msg → Res α
  | oob : Res α
  | fuel : Res α

namespace Res
def bind {α β : Type} : Res α → (α → Res β) → Res β
  | .ok a, f => f a
  | .err l c m, _ => .err l c m
  | .oob, _ => .oob
  | .fuel, _ => .fuel

@[simp] theorem ok_bind {α β : Type} (a : α) (f : α → Res β) : (Res.ok a).bind f = f a := rfl
@[simp] theorem err_bind {α β : Type} (l c : Nat) (m : Msg) (f : α → Res β) :
    (Res.err l c m : Res α).bind f = .err l c m := rfl
@[simp] theorem oob_bind {α β : Type} (f : α → Res β) : (Res.oob : Res α).bind f = .oob := rfl
@[simp] theorem fuel_bind {α β : Type} (f : α → Res β) : (Res.fuel : Res α).bind f = .fuel := rfl
end Res

/-- cursor of the parser (`Xml::Private::Position`): line number, offset, offset of the line start -/
structure Pos where
  line : Nat
  pos : Nat
  ls : Nat
  deriving Repr, DecidableEq

/-- column reported by `syntaxError`: `(pos - lineStart) + 1` -/
def Pos.col (p : Pos) : Nat := p.pos - p.ls + 1

def peek (t : Bytes) (i : Nat) : Res UInt8 :=
  if i < t.length then .ok (t.getD i 0) else if i = t.length then .ok 0 else .oob

def cstr (t : Bytes) (i : Nat) : Res Bytes :=
  if i ≤ t.length then .ok (t.drop i) else .oob

/-- `String::isSpace` -/
def isSpace (c : UInt8) : Bool := (9 ≤ c && c ≤ 13) || c == 32

/-- offset of the first byte satisfying `p` (strpbrk / strchr on a C string) -/
def idxOf (p : UInt8 → Bool) : Bytes → Option Nat
  | [] => none
  | b :: r => if p b then some 0 else (idxOf p r).map (· + 1)

/-! ### entity handling -/

/-- `Unicode::append` (UTF-8 build): nothing for values ≥ 0x110000 -/
def utf8 (v : Nat) : Bytes :=
  if v < 0x80 then [v.toUInt8]
  else if v < 0x800 then [(v / 64 + 0xC0).toUInt8, (v % 64 + 0x80).toUInt8]
  else if v < 0x10000 then [(v / 4096 + 0xE0).toUInt8, (v / 64 % 64 + 0x80).toUInt8, (v % 64 + 0x80).toUInt8]
  else if v < 0x110000 then
    [(v / 262144 + 0xF0).toUInt8, (v / 4096 % 64 + 0x80).toUInt8, (v / 64 % 64 + 0x80).toUInt8, (v % 64 + 0x80).toUInt8]
  else []

def isDigit (c : UInt8) : Bool := 48 ≤ c && c ≤ 57

def digitsVal : Bytes → Nat → Nat
  | [], acc => acc
  | d :: r, acc => digitsVal r (acc * 10 + (d.toNat - 48))

/-- glibc `sscanf(s, "%u", &v)` on the text behind `#`: white space, optional sign, at least one
    digit; conversion like `strtoul` (clamped at 2^64-1, negated when signed) cut to 32 bit -/
def scanU (s : Bytes) : Option Nat :=
  let s1 := s.dropWhile isSpace
  let (neg, s2) := match s1 with
    | 45 :: r => (true, r)
    | 43 :: r => (false, r)
    | _ => (false, s1)
  let ds := s2.takeWhile isDigit
  if ds.isEmpty then none
  else
    let n := digitsVal ds 0
    if n ≥ 2 ^ 64 then some (2 ^ 32 - 1)
    else some ((if neg then (2 ^ 64 - n) % 2 ^ 64 else n) % 2 ^ 32)

/-- `escapeChars` / `escapeStrings` of Xml.cpp -/
def entityTable : List (UInt8 × Bytes) :=
  [ (39, [97, 112, 111, 115]),   -- ' apos
    (34, [113, 117, 111, 116]),  -- " quot
    (38, [97, 109, 112]),        -- & amp
    (60, [108, 116]),            -- < lt
    (62, [103, 116]) ]           -- > gt

def entityChar (nm : Bytes) : Option UInt8 :=
  (entityTable.find? (fun e => e.2 == nm)).map (·.1)

def entityName (c : UInt8) : Option Bytes :=
  (entityTable.find? (fun e => e.1 == c)).map (·.2)

/-- `unescapeString`: the loop over the source; `f` bounds the number of iterations -/
def unescapeF : Nat → Bytes → Bytes
  | 0, _ => []
  | _, [] => []
  | f + 1, c :: r =>
    if c ≠ 38 then c :: unescapeF f r
    else
      match idxOf (· == 59) r with
      | none => 38 :: unescapeF f r
      | some k =>
        let nm := r.take k
        if nm.head? = some 35 then
          match scanU (nm.drop 1) with
          | none => 38 :: unescapeF f r
          | some v => utf8 v ++ unescapeF f (r.drop (k + 1))
        else
          match entityChar nm with
          | some ch => ch :: unescapeF f (r.drop (k + 1))
          | none => 38 :: unescapeF f r

def unescape (s : Bytes) : Bytes := unescapeF s.length s

/-- one step of `escapeString(str, attributeValue)` -/
def escapeByte (attr : Bool) (c : UInt8) : Bytes :=
  if (c ≥ 64 || c < 32) && !(attr && (c == 10 || c == 13)) then [c]
  else
    match entityName c with
    | some nm => 38 :: nm ++ [59]
    | none =>
      if c == 10 then [38, 35, 49, 48, 59]        -- &#10;
      else if c == 13 then [38, 35, 49, 51, 59]   -- &#13;
      else [c]

def escape (attr : Bool) : Bytes → Bytes
  | [] => []
  | c :: r => escapeByte attr c ++ escape attr r

/-! ### tokenizer -/

inductive TokType where
  | startTagBegin | tagEnd | endTagBegin | emptyTagEnd | equalsSign | string | name
  deriving DecidableEq, Repr

structure Token where
  type : TokType
  value : Bytes
  pos : Pos

def isCommentScanStop (b : UInt8) : Bool := b == 45 || b == 10 || b == 13

/-- `skipSpace`: outer loop (`inC = false`) and the comment loop (`inC = true`).
    The second component is `commentEnd` (position behind the comment skipped last). -/
def skipLoop (t : Bytes) : Nat → Bool → Pos → Option Pos → Res (Pos × Option Pos)
  | 0, _, _, _ => .fuel
  | f + 1, false, p, ce =>
    (peek t p.pos).bind fun c =>
    if c = 13 then
      (peek t (p.pos + 1)).bind fun d =>
        let q := if d = 10 then p.pos + 2 else p.pos + 1
        skipLoop t f false ⟨p.line + 1, q, q⟩ ce
    else if c = 10 then skipLoop t f false ⟨p.line + 1, p.pos + 1, p.pos + 1⟩ ce
    else if c = 60 then
      (cstr t (p.pos + 1)).bind fun s =>
        if s.take 3 = [33, 45, 45] then skipLoop t f true ⟨p.line, p.pos + 4, p.ls⟩ ce
        else .ok (p, ce)
    else if isSpace c then skipLoop t f false ⟨p.line, p.pos + 1, p.ls⟩ ce
    else .ok (p, ce)
  | f + 1, true, p, ce =>
    (cstr t p.pos).bind fun s =>
    match idxOf isCommentScanStop s with
    | none =>
      let q : Pos := ⟨p.line, p.pos + s.length, p.ls⟩
      .ok (q, some q)
    | some k =>
      let e := p.pos + k
      (peek t e).bind fun c =>
      if c = 13 then
        (peek t (e + 1)).bind fun d =>
          let q := if d = 10 then e + 2 else e + 1
          skipLoop t f true ⟨p.line + 1, q, q⟩ ce
      else if c = 10 then skipLoop t f true ⟨p.line + 1, e + 1, e + 1⟩ ce
      else
        (cstr t (e + 1)).bind fun s2 =>
          if s2.take 2 = [45, 62] then
            let q : Pos := ⟨p.line, e + 3, p.ls⟩
            skipLoop t f false q (some q)
          else skipLoop t f true ⟨p.line, e + 1, p.ls⟩ ce

def skipSpace (t : Bytes) (p : Pos) : Res (Pos × Option Pos) :=
  skipLoop t (t.length + 2) false p none

def isNameByte (b : UInt8) : Bool :=
  b != 0 && b != 47 && b != 62 && b != 61 && !isSpace b

/-- the `switch` of `readToken`, cursor already behind the white space -/
def tokenAt (t : Bytes) (p : Pos) : Res (Token × Pos) :=
  (peek t p.pos).bind fun c =>
  if c = 60 then
    (peek t (p.pos + 1)).bind fun d =>
      if d = 47 then .ok (⟨.endTagBegin, [], p⟩, ⟨p.line, p.pos + 2, p.ls⟩)
      else .ok (⟨.startTagBegin, [], p⟩, ⟨p.line, p.pos + 1, p.ls⟩)
  else if c = 62 then .ok (⟨.tagEnd, [], p⟩, ⟨p.line, p.pos + 1, p.ls⟩)
  else if c = 0 then .err p.line p.col .eof
  else if c = 61 then .ok (⟨.equalsSign, [], p⟩, ⟨p.line, p.pos + 1, p.ls⟩)
  else if c = 34 ∨ c = 39 then
    (cstr t (p.pos + 1)).bind fun s =>
    match idxOf (fun b => b == c || b == 13 || b == 10) s with
    | none => .err p.line p.col .eof
    | some k =>
      (peek t (p.pos + 1 + k)).bind fun e =>
      if e ≠ c then .err p.line p.col .newline
      else .ok (⟨.string, unescape (s.take k), p⟩, ⟨p.line, p.pos + 1 + k + 1, p.ls⟩)
  else
    (if c = 47 then (peek t (p.pos + 1)).bind fun d => .ok (decide (d = 62)) else .ok false).bind fun empt =>
    if empt then .ok (⟨.emptyTagEnd, [], p⟩, ⟨p.line, p.pos + 2, p.ls⟩)
    else
      (cstr t p.pos).bind fun s =>
        let nm := s.takeWhile isNameByte
        if nm.isEmpty then .err p.line p.col .name
        else .ok (⟨.name, nm, p⟩, ⟨p.line, p.pos + nm.length, p.ls⟩)

/-- `readToken`; third component: `commentEnd` as left by its `skipSpace` -/
def readToken (t : Bytes) (p0 : Pos) : Res (Token × Pos × Option Pos) :=
  (skipSpace t p0).bind fun pc =>
  (tokenAt t pc.1).bind fun tp => .ok (tp.1, tp.2, pc.2)

/-! ### element trees -/

/-- insertion into `HashMap<String,String>` by `append`: an existing key keeps its place -/
def attrSet : List (Bytes × Bytes) → Bytes → Bytes → List (Bytes × Bytes)
  | [], k, v => [(k, v)]
  | (k', v') :: r, k, v => if k' = k then (k', v) :: r else (k', v') :: attrSet r k v

mutual
  /-- `Xml::Element` -/
  inductive Elem where
    | mk (name : Bytes) (line col : Nat) (attrs : List (Bytes × Bytes)) (content : Content)
  /-- `List<Xml::Variant>` -/
  inductive Content where
    | nil
    | text (s : Bytes) (rest : Content)
    | elem (e : Elem) (rest : Content)
end

def Content.isEmpty : Content → Bool
  | .nil => true
  | _ => false

/-! ### parser -/

def isTextScanStop (b : UInt8) : Bool := b == 60 || b == 13 || b == 10

/-- loop of `parseText`: runs to the next `<`, counting lines -/
def textLoop (t : Bytes) : Nat → Pos → Res Pos
  | 0, _ => .fuel
  | f + 1, p =>
    (cstr t p.pos).bind fun s =>
    match idxOf isTextScanStop s with
    | none =>
      let q : Pos := ⟨p.line, p.pos + s.length, p.ls⟩
      .err q.line q.col .eof
    | some k =>
      let e := p.pos + k
      (peek t e).bind fun c =>
      if c = 13 then
        (peek t (e + 1)).bind fun d =>
          let q := if d = 10 then e + 2 else e + 1
          textLoop t f ⟨p.line + 1, q, q⟩
      else if c = 10 then textLoop t f ⟨p.line + 1, e + 1, e + 1⟩
      else .ok ⟨p.line, e, p.ls⟩

def slice (t : Bytes) (a b : Nat) : Bytes := (t.drop a).take (b - a)

def parseText (t : Bytes) (p : Pos) : Res (Bytes × Pos) :=
  (textLoop t (t.length + 2) p).bind fun q => .ok (unescape (slice t p.pos q.pos), q)

/-- attribute loop of `parseElement`; the flag tells whether the tag ended with `/>` -/
def parseAttrs (t : Bytes) : Nat → List (Bytes × Bytes) → Pos → Res (List (Bytes × Bytes) × Bool × Pos)
  | 0, _, _ => .fuel
  | f + 1, as, p =>
    (readToken t p).bind fun r =>
    let tk := r.1
    let p1 := r.2.1
    if tk.type = .emptyTagEnd then .ok (as, true, p1)
    else if tk.type = .tagEnd then .ok (as, false, p1)
    else if tk.type = .name then
      (readToken t p1).bind fun r2 =>
      if r2.1.type ≠ .equalsSign then .err r2.1.pos.line r2.1.pos.col .eq
      else
        (readToken t r2.2.1).bind fun r3 =>
        if r3.1.type ≠ .string then .err r3.1.pos.line r3.1.pos.col .string
        else parseAttrs t f (attrSet as tk.value r3.1.value) r3.2.1
    else parseAttrs t f as p1     -- any other token inside a tag is ignored by the loop

mutual
  /-- `parseElement`, entered behind the `<` token whose position gives line/column -/
  def parseElement (t : Bytes) : Nat → Pos → Pos → Res (Elem × Pos)
    | 0, _, _ => .fuel
    | f + 1, start, p =>
      (readToken t p).bind fun r =>
      if r.1.type ≠ .name then .err r.1.pos.line r.1.pos.col .tagname
      else
        let name := r.1.value
        (parseAttrs t (t.length + 2) [] r.2.1).bind fun a =>
        if a.2.1 then .ok (.mk name start.line start.col a.1 .nil, a.2.2)
        else
          (parseContent t f a.2.2).bind fun c =>
          (readToken t c.2).bind fun r2 =>
          if r2.1.type ≠ .name then .err r2.1.pos.line r2.1.pos.col .tagname
          else if r2.1.value ≠ name then .err r2.1.pos.line r2.1.pos.col .endtag
          else
            (readToken t r2.2.1).bind fun r3 =>
            if r3.1.type ≠ .tagEnd then .err r3.1.pos.line r3.1.pos.col .gt
            else .ok (.mk name start.line start.col a.1 c.1, r3.2.1)
  /-- content loop of `parseElement`; returns the children and the cursor behind `</` -/
  def parseContent (t : Bytes) : Nat → Pos → Res (Content × Pos)
    | 0, _ => .fuel
    | f + 1, p =>
      (skipSpace t p).bind fun sc =>
      let textStart : Pos := match sc.2 with
        | some ce => ce
        | none => p
      -- (a function, so that the compiled driver evaluates it only where the C++ code gets there)
      let textBranch : Unit → Res (Content × Pos) := fun _ =>
        (parseText t textStart).bind fun tx =>
        (parseContent t f tx.2).bind fun c => .ok (.text tx.1 c.1, c.2)
      match tokenAt t sc.1 with
      | .oob => .oob
      | .fuel => .fuel
      | .err _ _ _ => textBranch ()
      | .ok tp =>
        if tp.1.type = .endTagBegin then .ok (.nil, tp.2)
        else if tp.1.type = .startTagBegin then
          (parseElement t f tp.1.pos tp.2).bind fun e =>
          (parseContent t f e.2).bind fun c => .ok (.elem e.1 c.1, c.2)
        else textBranch ()
end

def isPiScanStop (b : UInt8) : Bool := b == 13 || b == 10 || b == 63

/-- inner loop over one processing instruction; `sp` = position of its `<?`.
    Runs to the first `?>`; a lone `?` is stepped over, a line break (`\r\n`, `\r`, `\n`) is counted
    by the loop itself — `skipSpace` is not called inside the instruction (fixes/xml/0005), so
    neither white space nor `<!--` means anything there. -/
def piInner (t : Bytes) : Nat → Pos → Pos → Res Pos
  | 0, _, _ => .fuel
  | f + 1, sp, p =>
    (cstr t p.pos).bind fun s =>
    match idxOf isPiScanStop s with
    | none => .err sp.line sp.col .eof
    | some k =>
      let e := p.pos + k
      (peek t e).bind fun c =>
      if c = 63 then
        (peek t (e + 1)).bind fun d =>
          if d = 62 then .ok ⟨p.line, e + 2, p.ls⟩
          else piInner t f sp ⟨p.line, e + 1, p.ls⟩
      else if c = 13 then
        (peek t (e + 1)).bind fun d =>
          let q := if d = 10 then e + 2 else e + 1
          piInner t f sp ⟨p.line + 1, q, q⟩
      else piInner t f sp ⟨p.line + 1, e + 1, e + 1⟩

/-- `while(*pos.pos == '<' && pos.pos[1] == '?')` of `parse` -/
def piLoop (t : Bytes) : Nat → Pos → Res Pos
  | 0, _ => .fuel
  | f + 1, p =>
    (peek t p.pos).bind fun c =>
    if c = 60 then
      (peek t (p.pos + 1)).bind fun d =>
        if d = 63 then
          (piInner t (t.length + 2) p ⟨p.line, p.pos + 2, p.ls⟩).bind fun q =>
          (skipSpace t q).bind fun q2 => piLoop t f q2.1
        else .ok p
    else .ok p

/-- `Xml::Private::parse` on the text in front of the terminator -/
def parseDoc (t : Bytes) : Res Elem :=
  (skipSpace t ⟨1, 0, 0⟩).bind fun s0 =>
  (piLoop t (t.length + 2) s0.1).bind fun p =>
  (readToken t p).bind fun r =>
  if r.1.type ≠ .startTagBegin then .err r.1.pos.line r.1.pos.col .lt
  else (parseElement t (t.length + 2) r.1.pos r.2.1).bind fun e => .ok e.1

/-- the C string in a buffer: bytes in front of the first NUL -/
def cutNul (bs : Bytes) : Bytes := bs.takeWhile (· != 0)

/-- `Xml::parse(const char*)` on a buffer `bs ++ [0]` -/
def parse (bs : Bytes) : Res Elem := parseDoc (cutNul bs)

/-! ### serialisation -/

def attrsToStr : List (Bytes × Bytes) → Bytes
  | [] => []
  | (k, v) :: r => [32] ++ k ++ [61, 34] ++ escape true v ++ [34] ++ attrsToStr r

mutual
  /-- `Xml::Element::toString` -/
  def Elem.toStr : Elem → Bytes
    | .mk name _ _ attrs content =>
      [60] ++ name ++ attrsToStr attrs ++
        (if content.isEmpty then [47, 62]
         else [62] ++ content.toStr ++ [60, 47] ++ name ++ [62])
  def Content.toStr : Content → Bytes
    | .nil => []
    | .text s rest => escape false s ++ rest.toStr
    | .elem e rest => e.toStr ++ rest.toStr
end

/-- `<?xml version="1.0" encoding="UTF-8"?>\n` -/
def xmlHeader : Bytes :=
  [60, 63, 120, 109, 108, 32, 118, 101, 114, 115, 105, 111, 110, 61, 34, 49, 46, 48, 34, 32, 101, 110, 99, 111, 100, 105, 110, 103, 61, 34, 85, 84, 70, 45, 56, 34, 63, 62, 10]

def docToStr (e : Elem) : Bytes := xmlHeader ++ e.toStr

end Nstd.Xml
