import Nstd.Xml.Model
import Nstd.Xml.Spec
/-
  Decorated serialisation (property C16, "comments are accepted wherever white space is allowed"):
  an element tree rendered like `Elem.toStr`, but with an arbitrary run of white-space bytes and
  complete comments `<!--body-->` ("misc run") at every place where the tokenizer of Xml.cpp skips
  white space, and with either quote kind around attribute values.  `DElem`/`DContent` mirror
  `Elem`/`Content` and carry the runs; `erase` forgets them.
-/
namespace Nstd.Xml

/-- one item of a misc run: a white-space byte or a comment `<!--body-->` -/
inductive MiscItem where
  | ws (b : UInt8)
  | comment (body : Bytes)

def MiscItem.toStr : MiscItem → Bytes
  | .ws b => [b]
  | .comment body => [60, 33, 45, 45] ++ (body ++ [45, 45, 62])

/-- serialisation of a misc run -/
def miscStr : List MiscItem → Bytes
  | [] => []
  | x :: m => x.toStr ++ miscStr m

/-- a white-space byte is one of `String::isSpace`; a comment body contains no `-->` (`commentBody`:
    `--`, `-` at the end, `<`, `>`, line breaks … allowed) and no NUL (a NUL ends the text) -/
def MiscItem.Ok : MiscItem → Prop
  | .ws b => isSpace b = true
  | .comment body => commentBody body ∧ bytesNulFree body = true

def miscOk (m : List MiscItem) : Prop := ∀ x ∈ m, x.Ok

/-- the run starts with a white-space byte (needed between a tag name and the first attribute:
    `<` is a name byte for the tokenizer, a comment alone does not end a name) -/
def startsWs : List MiscItem → Bool
  | .ws _ :: _ => true
  | _ => false

/-- the run may follow a name: it is empty or starts with a white-space byte -/
def nameSafe : List MiscItem → Bool
  | .comment _ :: _ => false
  | _ => true

/-- the run may follow a text node: it is empty or starts with a comment (white space directly
    behind a text belongs to the text) -/
def textSafe : List MiscItem → Bool
  | .ws _ :: _ => false
  | _ => true

/-- the run may precede a text node: it is empty or ends with a comment (the text starts behind
    the last comment; white space behind it belongs to the text) -/
def textReady : List MiscItem → Bool
  | [] => true
  | [.comment _] => true
  | [.ws _] => false
  | _ :: y :: m => textReady (y :: m)

/-- a decorated attribute: `pre key preEq = postEq q value q` with `q` = `'` or `"` -/
structure DAttr where
  pre : List MiscItem
  key : Bytes
  preEq : List MiscItem
  postEq : List MiscItem
  single : Bool
  val : Bytes

def DAttr.quote (a : DAttr) : UInt8 := if a.single then 39 else 34

def dattrsStr : List DAttr → Bytes
  | [] => []
  | a :: r => miscStr a.pre ++ (a.key ++ (miscStr a.preEq ++ (61 :: (miscStr a.postEq ++
      (a.quote :: (escape true a.val ++ (a.quote :: dattrsStr r)))))))

def eraseAttrs : List DAttr → List (Bytes × Bytes)
  | [] => []
  | a :: r => (a.key, a.val) :: eraseAttrs r

/-- decoration of an attribute list followed by the run `close` in front of `>` / `/>`;
    `afterName`: the previous token is a name (the tag name) -/
def dattrsOk : Bool → List DAttr → List MiscItem → Prop
  | an, [], close => miscOk close ∧ (an = true → nameSafe close = true)
  | an, a :: r, close => miscOk a.pre ∧ miscOk a.preEq ∧ miscOk a.postEq ∧
      (an = true → startsWs a.pre = true) ∧ nameSafe a.preEq = true ∧ dattrsOk false r close

mutual
  /-- decorated element: `< lead name attrs close/>` or
      `< lead name attrs close> content </ endPre name endPost >` (the run in front of `</` is part of the
      content; `lead`: the tokenizer also skips white space and comments between `<` and the tag name) -/
  inductive DElem where
    | empty (lead : List MiscItem) (name : Bytes) (line col : Nat) (attrs : List DAttr) (close : List MiscItem)
    | full (lead : List MiscItem) (name : Bytes) (line col : Nat) (attrs : List DAttr) (close : List MiscItem)
        (content : DContent) (endPre endPost : List MiscItem)
  /-- decorated children, each with the run in front of it; `nil pre`: the run in front of `</` -/
  inductive DContent where
    | nil (pre : List MiscItem)
    | text (pre : List MiscItem) (s : Bytes) (rest : DContent)
    | elem (pre : List MiscItem) (e : DElem) (rest : DContent)
end

mutual
  def DElem.toStr : DElem → Bytes
    | .empty lead name _ _ attrs close =>
      60 :: (miscStr lead ++ (name ++ (dattrsStr attrs ++ (miscStr close ++ [47, 62]))))
    | .full lead name _ _ attrs close content endPre endPost =>
      60 :: (miscStr lead ++ (name ++ (dattrsStr attrs ++ (miscStr close ++ (62 :: (content.toStr ++
        (miscStr endPre ++ (name ++ (miscStr endPost ++ [62])))))))))
  /-- the children up to and including the `</` of the end tag -/
  def DContent.toStr : DContent → Bytes
    | .nil pre => miscStr pre ++ [60, 47]
    | .text pre s rest => miscStr pre ++ (escape false s ++ rest.toStr)
    | .elem pre e rest => miscStr pre ++ (e.toStr ++ rest.toStr)
end

mutual
  /-- the tree without its decoration -/
  def DElem.erase : DElem → Elem
    | .empty _ name l c attrs _ => .mk name l c (eraseAttrs attrs) .nil
    | .full _ name l c attrs _ content _ _ => .mk name l c (eraseAttrs attrs) content.erase
  def DContent.erase : DContent → Content
    | .nil _ => .nil
    | .text _ s rest => .text s rest.erase
    | .elem _ e rest => .elem e.erase rest.erase
end

mutual
  /-- well-formed decoration: every run consists of white-space bytes and complete NUL-free comments;
      a run behind a name is empty or starts with white space (non-empty in front of the first
      attribute); a run behind a text node is empty or starts with a comment; a run in front of a
      text node is empty or ends with a comment -/
  def DElem.Ok : DElem → Prop
    | .empty lead _ _ _ attrs close => miscOk lead ∧ dattrsOk true attrs close
    | .full lead _ _ _ attrs close content endPre endPost =>
      miscOk lead ∧ dattrsOk true attrs close ∧ content.Ok false ∧ miscOk endPre ∧ miscOk endPost ∧ nameSafe endPost = true
  /-- `prevText`: the preceding sibling is a text node -/
  def DContent.Ok : DContent → Bool → Prop
    | .nil pre, pt => miscOk pre ∧ (pt = true → textSafe pre = true)
    | .text pre _ rest, _ => miscOk pre ∧ textReady pre = true ∧ rest.Ok true
    | .elem pre e rest, pt => miscOk pre ∧ (pt = true → textSafe pre = true) ∧ e.Ok ∧ rest.Ok false
end

/-! ### the plain serialisation as a decoration (one space in front of every attribute, double
      quotes, nothing else): `Elem.toStr` is the special case `e.plain.toStr` -/

def plainAttrs : List (Bytes × Bytes) → List DAttr
  | [] => []
  | (k, v) :: r => ⟨[.ws 32], k, [], [], false, v⟩ :: plainAttrs r

mutual
  def Elem.plain : Elem → DElem
    | .mk name l c attrs content =>
      if content.isEmpty then .empty [] name l c (plainAttrs attrs) []
      else .full [] name l c (plainAttrs attrs) [] content.plain [] []
  def Content.plain : Content → DContent
    | .nil => .nil []
    | .text s rest => .text [] s rest.plain
    | .elem e rest => .elem [] e.plain rest.plain
end

end Nstd.Xml
