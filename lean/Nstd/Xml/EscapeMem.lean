import Nstd.Xml.Model
import Nstd.Generated.XmlEscape
/-
  Buffer management of `Xml::Private::escapeString` with checked memory.

  The C++ code writes through a raw pointer `dest` into `String result`, whose capacity it
  manages itself: `String result(str.length() + N)`, and at every escape
  `result.resize(dest - destStart); result.reserve(<policy>)`.  The model is parametric in the
  reserve policy `pol cap len nm rem` (size handed to `reserve`); the theorems hold for EVERY
  policy that reserves at least `len + nm + 1 + rem` (= `&` + name + `;` + the remaining input).
  `N`, the policy the code uses and the rounding mask of `String::detach` are regenerated from
  the sources (Nstd/Generated/XmlEscape.lean); `genPolicy_ok` shows the generated policy meets
  the bound — extra headroom keeps everything true, an under-reservation breaks that proof.  Here the buffer is `cap` (the block has `cap + 1` bytes, the
  last one for the terminator), `len` (`data->len` as of the last resize) and the bytes written
  so far (`dest - destStart = out.length`).  A write at or behind `cap` (terminator slot and
  beyond) is a fault — that is where the real code would later lose what it wrote, because
  `String::detach` copies only `len` bytes when it has to reallocate.
-/
namespace Nstd.Xml
open Nstd.Xml.Generated

structure EscBuf where
  cap : Nat
  len : Nat
  out : Bytes
  deriving Repr

/-- `String::detach`: a new block gets `minCapacity | mask` -/
def roundCap (n : Nat) : Nat := n ||| capRoundMask

/-- `*(dest++) = c` -/
def EscBuf.put (b : EscBuf) (c : UInt8) : Option EscBuf :=
  if b.out.length < b.cap then some { b with out := b.out ++ [c] } else none

/-- `*(dest++) = '&'; Memory::copy(dest, name, n); dest += n; *(dest++) = ';'` byte by byte -/
def EscBuf.putAll : EscBuf → Bytes → Option EscBuf
  | b, [] => some b
  | b, c :: r => match b.put c with
    | some b' => b'.putAll r
    | none => none

/-- `result.resize(dest - destStart)` = `detach(n, n)`: inside the capacity it records the length
    (and stores the terminator at `n ≤ cap`); beyond it the block would be replaced and only `len`
    bytes copied — what was written behind `len` is lost: fault -/
def EscBuf.resize (b : EscBuf) : Option EscBuf :=
  if b.out.length ≤ b.cap then some { b with len := b.out.length } else none

/-- `result.reserve(size)` = `detach(len, max size len)`: a new block keeps the first `len` bytes -/
def EscBuf.reserve (b : EscBuf) (size : Nat) : EscBuf :=
  let size := if size < b.len then b.len else size
  if size ≤ b.cap then b else { cap := roundCap size, len := b.len, out := b.out.take b.len }

/-- the branch that replaces a byte by `&name;`; `rem` = `end - i` (source bytes left, incl. this one) -/
def escEntity (pol : Nat → Nat → Nat → Nat → Nat) (nm : Bytes) (rem : Nat) (b : EscBuf) : Option EscBuf :=
  match b.resize with
  | none => none
  | some b1 => (b1.reserve (pol b1.cap b1.len nm.length rem)).putAll (38 :: nm ++ [59])

/-- one iteration of the loop of `escapeString` -/
def escStep (pol : Nat → Nat → Nat → Nat → Nat) (attr : Bool) (c : UInt8) (rem : Nat) (b : EscBuf) : Option EscBuf :=
  if (c ≥ 64 || c < 32) && !(attr && (c == 10 || c == 13)) then b.put c
  else
    match entityName c with
    | some nm => escEntity pol nm rem b
    | none =>
      if c == 10 then escEntity pol [35, 49, 48] rem b
      else if c == 13 then escEntity pol [35, 49, 51] rem b
      else b.put c

def escLoop (pol : Nat → Nat → Nat → Nat → Nat) (attr : Bool) : Bytes → EscBuf → Option EscBuf
  | [], b => some b
  | c :: r, b => match escStep pol attr c (r.length + 1) b with
    | some b' => escLoop pol attr r b'
    | none => none

/-- `escapeString(str, attributeValue)`: result bytes and final capacity, or a fault -/
def escapeMemP (pol : Nat → Nat → Nat → Nat → Nat) (attr : Bool) (s : Bytes) : Option EscBuf :=
  match escLoop pol attr s ⟨s.length + escInitialSlack, 0, []⟩ with
  | some b => b.resize
  | none => none

/-- with the reserve policy of the current sources -/
def escapeMem (attr : Bool) (s : Bytes) : Option EscBuf := escapeMemP escReservePolicy attr s

/-- a policy reserves enough: `&` + name + `;` + the input bytes behind the current one -/
def PolicyOK (pol : Nat → Nat → Nat → Nat → Nat) : Prop :=
  ∀ cap len nm rem, len + nm + 1 + rem ≤ pol cap len nm rem

/-- the policy translated from the current sources reserves enough -/
theorem genPolicy_ok : PolicyOK escReservePolicy := by
  intro cap len nm rem
  unfold escReservePolicy
  first
    | omega
    | (split <;> omega)
    | (simp only []; split <;> omega)

/-! ### no write behind the capacity, and the buffer holds `escape attr s` -/

theorem le_roundCap (n : Nat) : n ≤ roundCap n := Nat.left_le_or

theorem putAll_ok : ∀ (l : Bytes) (b : EscBuf), b.out.length + l.length ≤ b.cap →
    b.putAll l = some { b with out := b.out ++ l } := by
  intro l
  induction l with
  | nil => intro b _; simp [EscBuf.putAll]
  | cons c r ih =>
    intro b h
    simp only [List.length_cons] at h
    have hlt : b.out.length < b.cap := by omega
    simp only [EscBuf.putAll, EscBuf.put, if_pos hlt]
    rw [ih _ (by simp; omega)]
    simp

theorem escEntity_ok {pol : Nat → Nat → Nat → Nat → Nat} (hpol : PolicyOK pol) (nm : Bytes) (r : Nat) (b : EscBuf)
    (h : b.out.length + (r + 1) ≤ b.cap) :
    ∃ b', escEntity pol nm (r + 1) b = some b' ∧ b'.out = b.out ++ (38 :: nm ++ [59]) ∧ b'.out.length + r ≤ b'.cap := by
  have hle : b.out.length ≤ b.cap := by omega
  have hK := hpol b.cap b.out.length nm.length (r + 1)
  simp only [escEntity, EscBuf.resize, if_pos hle]
  -- the buffer after reserve
  generalize hsz : pol b.cap b.out.length nm.length (r + 1) = sz at hK
  have key : ∃ b2 : EscBuf, EscBuf.reserve { b with len := b.out.length } sz = b2 ∧
      b2.out = b.out ∧ sz ≤ b2.cap := by
    simp only [EscBuf.reserve]
    have h1 : ¬ (sz < b.out.length) := by omega
    simp only [if_neg h1]
    by_cases hc : sz ≤ b.cap
    · exact ⟨{ b with len := b.out.length }, by rw [if_pos hc], rfl, hc⟩
    · exact ⟨_, by rw [if_neg hc], by simp, le_roundCap _⟩
  obtain ⟨b2, hb2, hout, hcap⟩ := key
  rw [hb2]
  have hput := putAll_ok (38 :: nm ++ [59]) b2 (by rw [hout]; simp; omega)
  refine ⟨_, hput, by simp [hout], ?_⟩
  simp [hout]
  omega

theorem escStep_ok {pol : Nat → Nat → Nat → Nat → Nat} (hpol : PolicyOK pol) (attr : Bool) (c : UInt8) (r : Nat) (b : EscBuf)
    (h : b.out.length + (r + 1) ≤ b.cap) :
    ∃ b', escStep pol attr c (r + 1) b = some b' ∧ b'.out = b.out ++ escapeByte attr c ∧ b'.out.length + r ≤ b'.cap := by
  have hput : ∃ b', b.put c = some b' ∧ b'.out = b.out ++ [c] ∧ b'.out.length + r ≤ b'.cap := by
    have hlt : b.out.length < b.cap := by omega
    exact ⟨{ b with out := b.out ++ [c] }, by simp [EscBuf.put, hlt], rfl, by simp; omega⟩
  unfold escStep escapeByte
  by_cases h1 : ((c ≥ 64 || c < 32) && !(attr && (c == 10 || c == 13))) = true
  · rw [if_pos h1, if_pos h1]; exact hput
  · rw [if_neg h1, if_neg h1]
    cases hn : entityName c with
    | some nm => exact escEntity_ok hpol nm r b h
    | none =>
      simp only
      by_cases h10 : (c == 10) = true
      · rw [if_pos h10, if_pos h10]; exact escEntity_ok hpol _ r b h
      · rw [if_neg h10, if_neg h10]
        by_cases h13 : (c == 13) = true
        · rw [if_pos h13, if_pos h13]; exact escEntity_ok hpol _ r b h
        · rw [if_neg h13, if_neg h13]; exact hput

theorem escLoop_ok {pol : Nat → Nat → Nat → Nat → Nat} (hpol : PolicyOK pol) (attr : Bool) :
    ∀ (s : Bytes) (b : EscBuf), b.out.length + s.length ≤ b.cap →
    ∃ b', escLoop pol attr s b = some b' ∧ b'.out = b.out ++ escape attr s ∧ b'.out.length ≤ b'.cap := by
  intro s
  induction s with
  | nil => intro b h; exact ⟨b, rfl, by simp [escape], by simpa using h⟩
  | cons c r ih =>
    intro b h
    obtain ⟨b1, h1, h2, h3⟩ := escStep_ok hpol attr c r.length b (by simpa using h)
    obtain ⟨b2, g1, g2, g3⟩ := ih b1 h3
    refine ⟨b2, by simp only [escLoop, h1, g1], ?_, g3⟩
    rw [g2, h2]; simp [escape]

end Nstd.Xml
