import Nstd.Xml.LemmasRt
/-  round trip: the parser run on the serialisation of a well-formed tree -/
namespace Nstd.Xml

theorem attrs_length_le : ∀ (as : List (Bytes × Bytes)), as.length ≤ (attrsToStr as).length := by
  intro as
  induction as with
  | nil => simp
  | cons x as ih =>
    obtain ⟨k, v⟩ := x
    simp [attrsToStr]
    omega

/-- what follows a name in a tag is a delimiter -/
theorem after_name_delim (as : List (Bytes × Bytes)) (x : Bytes) (hx : (∃ r, x = 62 :: r) ∨ (∃ r, x = 47 :: 62 :: r)) :
    ∃ d r, attrsToStr as ++ x = d :: r ∧ isNameByte d = false := by
  cases as with
  | nil =>
    rcases hx with ⟨r, rfl⟩ | ⟨r, rfl⟩
    · exact ⟨62, r, rfl, by decide⟩
    · exact ⟨47, 62 :: r, rfl, by decide⟩
  | cons kv as =>
    obtain ⟨k, v⟩ := kv
    exact ⟨32, _, by simp [attrsToStr]; rfl, by decide⟩

theorem elem_toStr_cons (name : Bytes) (l c : Nat) (attrs : List (Bytes × Bytes)) (content : Content) :
    (Elem.mk name l c attrs content).toStr = 60 :: (name ++ (attrsToStr attrs ++
      (if content.isEmpty then [47, 62] else 62 :: (content.toStr ++ 60 :: 47 :: (name ++ [62]))))) := by
  simp only [Elem.toStr]
  split <;> simp

/-- behind a text node comes a tag -/
theorem content_after_text (c : Content) (h : c.wf true = true) (x : Bytes) :
    ∃ r, c.toStr ++ 60 :: x = 60 :: r := by
  cases c with
  | nil => exact ⟨x, by simp [Content.toStr]⟩
  | text s rest => simp [Content.wf] at h
  | elem e rest =>
    obtain ⟨name, l, c, attrs, content⟩ := e
    simp only [Content.toStr, elem_toStr_cons]
    exact ⟨_, by simp; rfl⟩


mutual
  /-- `parseElement` behind the `<` of a serialised well-formed element returns that element -/
  theorem elem_rt (t : Bytes) : (e : Elem) → e.wf = true → ∀ (f : Nat) (start p : Pos) (rest : Bytes),
      60 :: t.drop p.pos = e.toStr ++ rest → e.toStr.length ≤ f →
      ∃ e' q, parseElement t f start p = .ok (e', q) ∧ e'.shape = e.shape ∧ q.pos + 1 = p.pos + e.toStr.length
    | .mk name l c attrs content, hwf, f, start, p, rest, hd, hf => by
      simp only [Elem.wf, Bool.and_eq_true] at hwf
      obtain ⟨⟨hname, hattrs⟩, hcontent⟩ := hwf
      rw [elem_toStr_cons] at hd hf ⊢
      simp only [List.cons_append, List.cons.injEq, true_and, List.append_assoc] at hd
      obtain ⟨f, rfl⟩ : ∃ g, f = g + 1 := ⟨f - 1, by simp at hf; omega⟩
      obtain ⟨c0, nr, hnc, hall, c60, _, _, c33, _⟩ := wfName_facts hname
      obtain ⟨_, _, _, _, c0s⟩ := nameByte_facts (hall c0 (by rw [hnc]; simp))
      -- the tail behind the attributes
      have htail : ∃ x, (if content.isEmpty then [47, 62] else 62 :: (content.toStr ++ 60 :: 47 :: (name ++ [62]))) ++ rest = x ∧
          ((content.isEmpty = false ∧ ∃ r, x = 62 :: r) ∨ (content.isEmpty = true ∧ ∃ r, x = 47 :: 62 :: r)) := by
        cases hce : content.isEmpty with
        | true => exact ⟨47 :: 62 :: rest, by simp, Or.inr ⟨rfl, rest, rfl⟩⟩
        | false => exact ⟨62 :: (content.toStr ++ 60 :: 47 :: (name ++ 62 :: rest)), by simp, Or.inl ⟨rfl, _, rfl⟩⟩
      obtain ⟨x, hx, hxc⟩ := htail
      rw [hx] at hd
      obtain ⟨d, dr, hdel, hdn⟩ := after_name_delim attrs x
        (by rcases hxc with ⟨_, h⟩ | ⟨_, h⟩; exact Or.inl h; exact Or.inr h)
      have hd0 : t.drop p.pos = c0 :: (nr ++ (attrsToStr attrs ++ x)) := by rw [hd, hnc]; simp
      obtain ⟨hplt, _, _⟩ := drop_cons hd0
      have hdn' : t.drop p.pos = name ++ d :: dr := by rw [hd, hdel]
      have r1 : readToken t p = .ok (⟨.name, name, p⟩, ⟨p.line, p.pos + name.length, p.ls⟩, none) :=
        readToken_eq (skipSpace_noop hd0 c0s c60) (tokenAt_name hdn' hname hdn)
      have hd1 : t.drop (p.pos + name.length) = attrsToStr attrs ++ x := drop_append hd
      have hlen1 := drop_le hd (by omega)
      have hlen2 := drop_le hd1 (by omega)
      have ra := parseAttrs_toStr t attrs [] (t.length + 2) ⟨p.line, p.pos + name.length, p.ls⟩ x content.isEmpty
        hd1 (by rcases hxc with ⟨h1, h2⟩ | ⟨h1, h2⟩
                · exact Or.inl ⟨h1, h2⟩
                · exact Or.inr ⟨h1, h2⟩)
        (attrsWf_names attrs hattrs) (by have := attrs_length_le attrs; omega)
      rw [attrFold_wf attrs [] hattrs (by intro kv h; simp at h)] at ra
      simp only [List.nil_append] at ra
      simp only [parseElement]
      rw [r1]; simp only [Res.ok_bind]
      rw [if_neg (by decide), ra]; simp only [Res.ok_bind]
      cases hce : content.isEmpty with
      | true =>
        have hcnil : content = .nil := by
          cases content with
          | nil => rfl
          | text _ _ => simp [Content.isEmpty] at hce
          | elem _ _ => simp [Content.isEmpty] at hce
        subst hcnil
        refine ⟨_, _, rfl, by simp [Elem.shape, Content.shape], ?_⟩
        simp [Content.isEmpty] at hf ⊢
        omega
      | false =>
        simp only [Bool.false_eq_true, if_false]
        rw [hce] at hx hf
        simp only [Bool.false_eq_true, if_false] at hx hf
        -- content
        have hd2 : t.drop (p.pos + name.length + (attrsToStr attrs).length) = x := drop_append hd1
        rw [← hx] at hd2
        simp only [List.cons_append, List.append_assoc] at hd2
        obtain ⟨_, _, hd3⟩ := drop_cons hd2
        simp only [List.length_cons, List.length_append] at hf
        obtain ⟨c', q, hc', hshape, hq⟩ := content_rt t content false hcontent f
          ⟨p.line, p.pos + name.length + (attrsToStr attrs).length + 1, p.ls⟩ (name ++ 62 :: rest)
          (by simpa using hd3) (by simp at hf ⊢; omega)
        rw [hc']; simp only [Res.ok_bind]
        simp only at hq
        -- end tag
        have hd4 : t.drop (q.pos) = name ++ 62 :: rest := by
          have := drop_append (a := content.toStr ++ [60, 47]) (r := name ++ 62 :: rest) (i := p.pos + name.length + (attrsToStr attrs).length + 1) (t := t)
            (by simpa using hd3)
          rw [hq]
          simpa [Nat.add_assoc] using this
        have hd4' : t.drop q.pos = c0 :: (nr ++ 62 :: rest) := by rw [hd4, hnc]; simp
        have r2 : readToken t q = .ok (⟨.name, name, q⟩, ⟨q.line, q.pos + name.length, q.ls⟩, none) :=
          readToken_eq (skipSpace_noop hd4' c0s c60) (tokenAt_name hd4 hname (by decide))
        have hd5 : t.drop (q.pos + name.length) = 62 :: rest := drop_append hd4
        have r3 : readToken t ⟨q.line, q.pos + name.length, q.ls⟩ =
            .ok (⟨.tagEnd, [], ⟨q.line, q.pos + name.length, q.ls⟩⟩, ⟨q.line, q.pos + name.length + 1, q.ls⟩, none) :=
          readToken_eq (skipSpace_noop (p := ⟨q.line, q.pos + name.length, q.ls⟩) hd5 (by decide) (by decide))
            (tokenAt_tagEnd (p := ⟨q.line, q.pos + name.length, q.ls⟩) hd5)
        rw [r2]; simp only [Res.ok_bind]
        rw [if_neg (by decide), if_neg (by simp), r3]; simp only [Res.ok_bind]
        rw [if_neg (by decide)]
        refine ⟨_, _, rfl, by simp [Elem.shape, hshape], ?_⟩
        simp at hq hf ⊢
        omega
  /-- the content loop on the serialised children, up to and including the `</` of the end tag -/
  theorem content_rt (t : Bytes) : (c : Content) → (prev : Bool) → c.wf prev = true →
      ∀ (f : Nat) (p : Pos) (tail : Bytes),
      t.drop p.pos = c.toStr ++ 60 :: 47 :: tail → c.toStr.length < f →
      ∃ c' q, parseContent t f p = .ok (c', q) ∧ c'.shape = c.shape ∧ q.pos = p.pos + c.toStr.length + 2
    | .nil, prev, hwf, f, p, tail, hd, hf => by
      obtain ⟨f, rfl⟩ : ∃ g, f = g + 1 := ⟨f - 1, by omega⟩
      simp only [Content.toStr, List.nil_append] at hd
      simp only [parseContent]
      rw [skipSpace_noop_lt hd (by decide)]; simp only [Res.ok_bind]
      rw [tokenAt_endTag hd]
      exact ⟨.nil, ⟨p.line, p.pos + 2, p.ls⟩, by simp, by simp [Content.shape], by simp [Content.toStr]⟩
    | .elem e rest, prev, hwf, f, p, tail, hd, hf => by
      obtain ⟨f, rfl⟩ : ∃ g, f = g + 1 := ⟨f - 1, by omega⟩
      simp only [Content.wf, Bool.and_eq_true] at hwf
      obtain ⟨hew, hrw⟩ := hwf
      simp only [Content.toStr, List.append_assoc, List.length_append] at hd hf
      obtain ⟨name, l, c, attrs, content⟩ := e
      have hew' := hew
      simp only [Elem.wf, Bool.and_eq_true] at hew'
      obtain ⟨c0, nr, hnc, hall, _, _, _, c33, _⟩ := wfName_facts hew'.1.1
      obtain ⟨_, c47, _, _, _⟩ := nameByte_facts (hall c0 (by rw [hnc]; simp))
      have hts := elem_toStr_cons name l c attrs content
      have hd0 : ∃ r, t.drop p.pos = 60 :: c0 :: r := by
        rw [hd, hts, hnc]; simp only [List.cons_append]; exact ⟨_, rfl⟩
      obtain ⟨r0, hd0⟩ := hd0
      obtain ⟨_, _, hd1⟩ := drop_cons hd0
      simp only [parseContent]
      rw [skipSpace_noop_lt hd0 c33]; simp only [Res.ok_bind]
      rw [tokenAt_startTag hd0 c47]; simp only
      rw [if_neg (by decide), if_pos trivial]
      obtain ⟨e', q, he', hes, hq⟩ := elem_rt t (.mk name l c attrs content) hew f p ⟨p.line, p.pos + 1, p.ls⟩
        (rest.toStr ++ 60 :: 47 :: tail)
        (by
          have : t.drop p.pos = 60 :: t.drop (p.pos + 1) := by rw [hd0, hd1]
          simp only
          rw [← this, hd])
        (by omega)
      rw [he']; simp only [Res.ok_bind]
      simp only at hq
      have hd2 : t.drop q.pos = rest.toStr ++ 60 :: 47 :: tail := by
        have := drop_append hd
        have e1 : q.pos = p.pos + (Elem.mk name l c attrs content).toStr.length := by
          have : 0 < (Elem.mk name l c attrs content).toStr.length := by rw [hts]; simp
          omega
        rw [e1]; exact this
      obtain ⟨c', q', hc', hcs, hq'⟩ := content_rt t rest false hrw f q tail hd2
        (by have : 0 < (Elem.mk name l c attrs content).toStr.length := by rw [hts]; simp
            omega)
      rw [hc']; simp only [Res.ok_bind]
      refine ⟨_, _, rfl, by simp [Content.shape, hes, hcs], ?_⟩
      simp only [Content.toStr, List.length_append]
      omega
    | .text s rest, prev, hwf, f, p, tail, hd, hf => by
      obtain ⟨f, rfl⟩ : ∃ g, f = g + 1 := ⟨f - 1, by omega⟩
      simp only [Content.wf, Bool.and_eq_true, Bool.not_eq_true'] at hwf
      obtain ⟨⟨_, hnb⟩, hrw⟩ := hwf
      simp only [Content.toStr, List.append_assoc, List.length_append] at hd hf
      obtain ⟨r', hr'⟩ := content_after_text rest hrw (47 :: tail)
      rw [hr'] at hd
      have hes60 : ∀ b ∈ escape false s, b ≠ 60 := fun b hb => (escape_bytes false s b hb).1
      obtain ⟨m, hm1, hm2, hm3⟩ := nonBlank_first _ (escape_nonBlank false s hnb)
      have hplen : p.pos ≤ t.length := by
        by_cases h : p.pos ≤ t.length
        · exact h
        · have : t.drop p.pos = [] := List.drop_eq_nil_of_le (by omega)
          rw [this] at hd
          have := congrArg List.length hd
          simp at this
      have hlen := drop_le hd hplen
      have hgm : t.getD (p.pos + m) 0 = (escape false s).getD m 0 := drop_getD hd hm1
      have hm60 : t.getD (p.pos + m) 0 ≠ 60 := by rw [hgm]; exact hes60 _ (getD_mem hm1)
      obtain ⟨sq, hsq, hsqpos⟩ := skipLoop_spaces t (p.pos + m) (by omega) (by rw [hgm]; exact hm2) hm60
        (t.length + 2) p none (by omega) (by omega)
        (by intro j hj1 hj2
            have := drop_getD hd (show j - p.pos < (escape false s).length by omega)
            rw [show p.pos + (j - p.pos) = j by omega] at this
            rw [this]; exact hm3 _ (by omega))
      obtain ⟨tq, htx, htq⟩ := parseText_body hd hes60 hplen
      have hd2 : t.drop tq.pos = rest.toStr ++ 60 :: 47 :: tail := by
        rw [htq, drop_append hd, hr']
      obtain ⟨c', q', hc', hcs, hq'⟩ := content_rt t rest true hrw f tq tail hd2
        (by have : 0 < (escape false s).length := by omega
            omega)
      have htextBranch : ((parseText t p).bind fun tx =>
          (parseContent t f tx.2).bind fun c => Res.ok (Content.text tx.1 c.1, c.2)) =
          .ok (.text s c', q') := by
        rw [htx]; simp only [Res.ok_bind]
        rw [hc']; simp only [Res.ok_bind]
        rw [unescape_escape]
      simp only [parseContent]
      have hsq' : skipSpace t p = .ok (sq, none) := hsq
      rw [hsq']; simp only [Res.ok_bind]
      have hsafe := tokenAt_safe t sq (by omega)
      have goal : ∃ c'' q'', Res.ok (Content.text s c', q') = Res.ok (c'', q'') ∧ c''.shape = (Content.text s rest).shape ∧
          q''.pos = p.pos + ((escape false s).length + rest.toStr.length) + 2 :=
        ⟨_, _, rfl, by simp [Content.shape, hcs], by omega⟩
      cases htk : tokenAt t sq with
      | oob => rw [htk] at hsafe; exact hsafe.elim
      | fuel => rw [htk] at hsafe; exact hsafe.elim
      | err l c m =>
        simp only
        rw [htextBranch]
        simpa [Content.toStr] using goal
      | ok tp =>
        simp only
        have hnt : ¬ isTag tp.1.type := by
          intro htag
          have := tokenAt_tag_byte (by omega) htk htag
          rw [hsqpos] at this
          exact hm60 this
        have h1 : ¬ tp.1.type = .endTagBegin := fun h => hnt (Or.inr h)
        have h2 : ¬ tp.1.type = .startTagBegin := fun h => hnt (Or.inl h)
        rw [if_neg h1, if_neg h2, htextBranch]
        simpa [Content.toStr] using goal
end

end Nstd.Xml
