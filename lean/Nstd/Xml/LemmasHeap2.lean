import Nstd.Xml.LemmasHeap
/-
  `release` (Variant::clear over a work list): keeps "count ≤ ref", frees only blocks nobody points to, and
  therefore leaves the value of every variable alone.
-/
namespace Nstd.Xml.Heap

theorem count_cons_self (b : Nat) (l : List Nat) : (b :: l).count b = l.count b + 1 := by
  simp [List.count_cons]

theorem count_cons_ne (a b : Nat) (l : List Nat) (h : a ≠ b) : (a :: l).count b = l.count b := by
  simp [List.count_cons, h]

theorem refOf_upd_none (h : Heap) (b : Nat) : refOf (upd h b none) b = 0 := by
  simp [refOf, upd]

theorem refOf_upd_some (h : Heap) (b : Nat) (blk : Block) : refOf (upd h b (some blk)) b = blk.ref := by
  simp [refOf, upd]

theorem refOf_upd_ne (h : Heap) (b x : Nat) (y : Option Block) (hx : x ≠ b) : refOf (upd h b y) x = refOf h x := by
  simp only [refOf, upd, if_neg hx]

theorem upd_ne (h : Heap) (b x : Nat) (y : Option Block) (hx : x ≠ b) : upd h b y x = h x := by
  simp only [upd, if_neg hx]

theorem upd_same (h : Heap) (b : Nat) (y : Option Block) : upd h b y b = y := by
  simp [upd]

/-- what `release` guarantees, for fixed variables -/
structure RelOK (vars : Nat → Option Nat) (nv next : Nat) (h h' : Heap) : Prop where
  cnt_le : ∀ x, varCnt vars nv x + heapCnt h' next x ≤ refOf h' x
  fresh : ∀ b, next ≤ b → h' b = none
  sub : ∀ x blk', h' x = some blk' → ∃ blk, h x = some blk ∧ blk.pay = blk'.pay
  rep : ∀ w val, w < nv → repV h val (vars w) → repV h' val (vars w)

theorem release_spec (vars : Nat → Option Nat) (nv next : Nat) : ∀ (f : Nat) (h : Heap) (pend : List Nat),
    (∀ x, varCnt vars nv x + heapCnt h next x + pend.count x ≤ refOf h x) →
    (∀ b, next ≤ b → h b = none) →
    RelOK vars nv next h (release h f pend) := by
  intro f
  induction f with
  | zero =>
    intro h pend hr hf
    exact ⟨fun x => by have := hr x; simp only [release]; omega, by simpa only [release] using hf,
      fun x blk' hx => ⟨blk', by simpa only [release] using hx, rfl⟩, fun w val _ hv => by simpa only [release] using hv⟩
  | succ f ih =>
    intro h pend hr hf
    cases pend with
    | nil =>
      exact ⟨fun x => by have := hr x; simp only [release]; simpa using this, by simpa only [release] using hf,
        fun x blk' hx => ⟨blk', by simpa only [release] using hx, rfl⟩, fun w val _ hv => by simpa only [release] using hv⟩
    | cons b rest =>
      cases hb : h b with
      | none =>
        have hstep : release h (f + 1) (b :: rest) = release h f rest := by
          simp only [release, hb]
        rw [hstep]
        apply ih h rest _ hf
        intro x
        have := hr x
        by_cases hx : b = x
        · subst hx; rw [count_cons_self] at this; omega
        · rw [count_cons_ne b x rest hx] at this; omega
      | some blk =>
        have hbn : b < next := by
          apply Classical.byContradiction
          intro hn
          have := hf b (by omega)
          rw [this] at hb; cases hb
        have hkb : kidsOf (h b) = kidsOfPay blk.pay := by rw [hb]; rfl
        by_cases hlast : blk.ref ≤ 1
        · -- last reference: destroy and free
          have hstep : release h (f + 1) (b :: rest) = release (upd h b none) f (kidsOfPay blk.pay ++ rest) := by
            simp only [release, hb, if_pos hlast]
          rw [hstep]
          have hcb := hr b
          rw [count_cons_self] at hcb
          have hrefb : refOf h b = blk.ref := by simp only [refOf, hb]
          have hv0 : varCnt vars nv b = 0 := by omega
          have hh0 : heapCnt h next b = 0 := by omega
          have hcnt : ∀ x, heapCnt (upd h b none) next x + (kidsOfPay blk.pay).count x = heapCnt h next x := by
            intro x
            have := heapCnt_upd h next b none x hbn
            rw [hkb] at this
            simpa [kidsOf] using this
          have h1 := ih (upd h b none) (kidsOfPay blk.pay ++ rest) (by
            intro x
            rw [List.count_append]
            have := hr x
            have := hcnt x
            by_cases hx : b = x
            · subst hx
              rw [refOf_upd_none]
              omega
            · rw [count_cons_ne b x rest hx] at *
              rw [refOf_upd_ne h b x none (Ne.symm hx)]
              omega) (by
            intro x hx
            by_cases hxb : x = b
            · subst hxb; exact upd_same h x none
            · rw [upd_ne h b x none hxb]; exact hf x hx)
          refine ⟨h1.cnt_le, h1.fresh, ?_, ?_⟩
          · intro x blk' hx
            obtain ⟨blk2, h2, hp⟩ := h1.sub x blk' hx
            by_cases hxb : x = b
            · subst hxb; rw [upd_same] at h2; cases h2
            · rw [upd_ne h b x none hxb] at h2; exact ⟨blk2, h2, hp⟩
          · intro w val hw hv
            apply h1.rep w val hw
            apply repV_frame h (upd h b none) (fun x => x = b) _ _ val (vars w) _ hv
            · intro x blk2 hx hx2
              exact ⟨blk2.ref, by rw [upd_ne h b x none hx]; exact hx2⟩
            · intro x blk2 hx hx2 c hc hcb2
              subst hcb2
              have hxn : x < next := by
                apply Classical.byContradiction
                intro hn
                have := hf x (by omega)
                rw [this] at hx2; cases hx2
              have := heapCnt_ge h next x c hxn (by rw [hx2]; exact hc)
              omega
            · intro b2 hb2 hb3
              subst hb3
              have := varCnt_ge vars nv w b2 hw hb2
              omega
        · -- not the last reference: decrement
          have hstep : release h (f + 1) (b :: rest) = release (upd h b (some ⟨blk.ref - 1, blk.pay⟩)) f rest := by
            simp only [release, hb, if_neg hlast]
          rw [hstep]
          have hcnt : ∀ x, heapCnt (upd h b (some ⟨blk.ref - 1, blk.pay⟩)) next x = heapCnt h next x :=
            fun x => heapCnt_upd_same h next b _ x (by rw [hkb]; rfl)
          have h1 := ih (upd h b (some ⟨blk.ref - 1, blk.pay⟩)) rest (by
            intro x
            have := hr x
            rw [hcnt x]
            by_cases hx : b = x
            · subst hx
              rw [refOf_upd_some]
              rw [count_cons_self] at this
              have hrefb : refOf h b = blk.ref := by simp only [refOf, hb]
              simp only
              omega
            · rw [count_cons_ne b x rest hx] at this
              rw [refOf_upd_ne h b x _ (Ne.symm hx)]
              omega) (by
            intro x hx
            by_cases hxb : x = b
            · subst hxb; omega
            · rw [upd_ne h b x _ hxb]; exact hf x hx)
          refine ⟨h1.cnt_le, h1.fresh, ?_, ?_⟩
          · intro x blk' hx
            obtain ⟨blk2, h2, hp⟩ := h1.sub x blk' hx
            by_cases hxb : x = b
            · subst hxb; rw [upd_same] at h2; cases h2; exact ⟨blk, hb, hp⟩
            · rw [upd_ne h b x _ hxb] at h2; exact ⟨blk2, h2, hp⟩
          · intro w val hw hv
            apply h1.rep w val hw
            apply repV_frame h _ (fun _ => False) _ _ val (vars w) _ hv
            · intro x blk2 _ hx2
              by_cases hxb : x = b
              · subst hxb; rw [hb] at hx2; cases hx2
                exact ⟨blk.ref - 1, upd_same h x _⟩
              · exact ⟨blk2.ref, by rw [upd_ne h b x _ hxb]; exact hx2⟩
            · intro x blk2 _ _ c _ hF; exact hF
            · intro _ _ hF; exact hF

end Nstd.Xml.Heap
