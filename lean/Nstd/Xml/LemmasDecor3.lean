import Nstd.Xml.LemmasDecor2
/-  decorated round trip: the parser run on the decorated serialisation of a well-formed tree -/
namespace Nstd.Xml

theorem drop_ne_nil_le {t : Bytes} {i : Nat} (h : t.drop i ≠ []) : i ≤ t.length := by
  by_cases hp : i ≤ t.length
  · exact hp
  · exact absurd (List.drop_eq_nil_of_le (by omega)) h

/-- behind the `<` of a start tag: white space, the `<` of a comment, or the first byte of the name -/
theorem lead_head (lead : List MiscItem) (hl : miscOk lead) (name : Bytes) (hname : wfName name = true) (x : Bytes) :
    ∃ c0 r, miscStr lead ++ (name ++ x) = c0 :: r ∧ c0 ≠ 33 ∧ c0 ≠ 47 ∧ c0 ≠ 63 := by
  cases lead with
  | nil =>
    obtain ⟨c0, nr, hnc, hall, _, _, _, c33, c63⟩ := wfName_facts hname
    obtain ⟨_, c47, _, _, _⟩ := nameByte_facts (hall c0 (by rw [hnc]; simp))
    exact ⟨c0, nr ++ x, by rw [hnc]; simp [miscStr], c33, c47, c63⟩
  | cons y m =>
    cases y with
    | ws b =>
      have hb : isSpace b = true := (miscOk_cons hl).1
      refine ⟨b, miscStr m ++ (name ++ x), by simp [miscStr, MiscItem.toStr], ?_, ?_, ?_⟩ <;>
        (intro e; subst e; revert hb; decide)
    | comment body =>
      exact ⟨60, _, by simp [miscStr, MiscItem.toStr]; rfl, by decide, by decide, by decide⟩

theorem delem_toStr_head (d : DElem) (hwf : d.erase.wf = true) (hok : d.Ok) :
    ∃ c0 r, d.toStr = 60 :: c0 :: r ∧ c0 ≠ 33 ∧ c0 ≠ 47 ∧ c0 ≠ 63 := by
  cases d with
  | empty lead name l c attrs close =>
    simp only [DElem.erase, Elem.wf, Bool.and_eq_true] at hwf
    simp only [DElem.Ok] at hok
    obtain ⟨c0, r, e, h⟩ := lead_head lead hok.1 name hwf.1.1 (dattrsStr attrs ++ (miscStr close ++ [47, 62]))
    exact ⟨c0, r, by rw [DElem.toStr, e], h⟩
  | full lead name l c attrs close content endPre endPost =>
    simp only [DElem.erase, Elem.wf, Bool.and_eq_true] at hwf
    simp only [DElem.Ok] at hok
    obtain ⟨c0, r, e, h⟩ := lead_head lead hok.1 name hwf.1.1 (dattrsStr attrs ++ (miscStr close ++ (62 :: (content.toStr ++
        (miscStr endPre ++ (name ++ (miscStr endPost ++ [62])))))))
    exact ⟨c0, r, by rw [DElem.toStr, e], h⟩

theorem dcontent_len : (c : DContent) → 2 ≤ c.toStr.length
  | .nil pre => by simp [DContent.toStr]
  | .text pre s rest => by
    have := dcontent_len rest
    simp only [DContent.toStr, List.length_append]; omega
  | .elem pre e rest => by
    have := dcontent_len rest
    simp only [DContent.toStr, List.length_append]; omega

theorem textSafe_head (m : List MiscItem) (hs : textSafe m = true) (x : Bytes) (hx : ∃ r, x = 60 :: r) :
    ∃ r, miscStr m ++ x = 60 :: r := by
  cases m with
  | nil => obtain ⟨r, rfl⟩ := hx; exact ⟨r, by simp [miscStr]⟩
  | cons y m =>
    cases y with
    | ws b => simp [textSafe] at hs
    | comment b => exact ⟨_, by simp [miscStr, MiscItem.toStr]; rfl⟩

/-- behind a text node comes a tag or a comment -/
theorem dcontent_after_text (c : DContent) (hwf : c.erase.wf true = true) (hok : c.Ok true) (x : Bytes) :
    ∃ r, c.toStr ++ x = 60 :: r := by
  cases c with
  | nil pre =>
    simp only [DContent.Ok] at hok
    obtain ⟨r, hr⟩ := textSafe_head pre (hok.2 trivial) (60 :: 47 :: x) ⟨_, rfl⟩
    exact ⟨r, by rw [← hr]; simp [DContent.toStr]⟩
  | text pre s rest => simp [DContent.erase, Content.wf] at hwf
  | elem pre e rest =>
    simp only [DContent.erase, Content.wf, Bool.and_eq_true] at hwf
    simp only [DContent.Ok] at hok
    obtain ⟨c0, r0, hh, _, _, _⟩ := delem_toStr_head e hwf.1 hok.2.2.1
    obtain ⟨r, hr⟩ := textSafe_head pre (hok.2.1 trivial) (e.toStr ++ (rest.toStr ++ x)) ⟨_, by rw [hh]; rfl⟩
    exact ⟨r, by rw [← hr]; simp [DContent.toStr]⟩

/-- one round of the content loop that finds a text: `skipSpace` stops at a byte that starts no tag,
    the text begins at `commentEnd` (or at the cursor when no comment was skipped) -/
theorem parseContent_text_step {t : Bytes} {f : Nat} {p sq : Pos} {ce0 : Option Pos} {X : Res (Content × Pos)}
    (hs : skipSpace t p = .ok (sq, ce0)) (hsq : sq.pos ≤ t.length) (h60 : t.getD sq.pos 0 ≠ 60)
    (hX : ((parseText t (ce0.getD p)).bind fun tx =>
      (parseContent t f tx.2).bind fun c => Res.ok (Content.text tx.1 c.1, c.2)) = X) :
    parseContent t (f + 1) p = X := by
  have hsafe := tokenAt_safe t sq hsq
  simp only [parseContent]
  rw [hs]; simp only [Res.ok_bind]
  have hstart : (match ce0 with | some ce => ce | none => p) = ce0.getD p := by cases ce0 <;> rfl
  cases htk : tokenAt t sq with
  | oob => rw [htk] at hsafe; exact hsafe.elim
  | fuel => rw [htk] at hsafe; exact hsafe.elim
  | err l c m =>
    simp only
    cases ce0 <;> exact hX
  | ok tp =>
    simp only
    have hnt : ¬ isTag tp.1.type := fun htag => h60 (tokenAt_tag_byte hsq htk htag)
    have h1 : ¬ tp.1.type = .endTagBegin := fun h => hnt (Or.inr h)
    have h2 : ¬ tp.1.type = .startTagBegin := fun h => hnt (Or.inl h)
    rw [if_neg h1, if_neg h2]
    cases ce0 <;> exact hX

mutual
  /-- `parseElement` behind the `<` of a decorated well-formed element returns that element -/
  theorem delem_rt (t : Bytes) : (d : DElem) → d.erase.wf = true → d.Ok → ∀ (f : Nat) (start p : Pos) (rest : Bytes),
      60 :: t.drop p.pos = d.toStr ++ rest → d.toStr.length ≤ f →
      ∃ e' q, parseElement t f start p = .ok (e', q) ∧ e'.shape = d.erase.shape ∧ q.pos + 1 = p.pos + d.toStr.length
    | .empty lead name l c attrs close, hwf, hok, f, start, p, rest, hd, hf => by
      simp only [DElem.erase, Elem.wf, Bool.and_eq_true] at hwf
      obtain ⟨⟨hname, hattrs⟩, _⟩ := hwf
      simp only [DElem.Ok] at hok
      obtain ⟨hlead, hok⟩ := hok
      have hd' : t.drop p.pos = miscStr lead ++ (name ++ (dattrsStr attrs ++ (miscStr close ++ 47 :: 62 :: rest))) := by
        simpa [DElem.toStr] using hd
      simp only [DElem.toStr, List.length_cons, List.length_append, List.length_nil] at hf ⊢
      obtain ⟨f, rfl⟩ : ∃ g, f = g + 1 := ⟨f - 1, by omega⟩
      obtain ⟨d, dr, hdel, hdn⟩ := after_name_delim_dec attrs close hok (47 :: 62 :: rest) (Or.inr ⟨rest, rfl⟩)
      obtain ⟨c0, nr, hnc, _⟩ := wfName_facts hname
      have hple : p.pos ≤ t.length := drop_ne_nil_le (by rw [hd', hnc]; simp)
      obtain ⟨q0, ce0, hq0, hdq0, hrt0⟩ := readToken_misc t lead hlead p _ hd' (name_stop hname _)
      have r1 := hrt0 _ _ (tokenAt_name (by rw [hdq0, hdel]) hname hdn)
      have hd1 : t.drop (q0.pos + name.length) = dattrsStr attrs ++ (miscStr close ++ 47 :: 62 :: rest) :=
        drop_append hdq0
      have hlen0 := drop_le hd' hple
      have hlen1 := drop_le hdq0 (by omega)
      have hlen2 := drop_le hd1 (by omega)
      obtain ⟨qa, hra, hqa⟩ := parseAttrs_dec t attrs true close [] (t.length + 2) ⟨q0.line, q0.pos + name.length, q0.ls⟩
        (47 :: 62 :: rest) true hd1 (Or.inr ⟨rfl, rest, rfl⟩) hok (dattrs_names attrs hattrs)
        (by have := dattrs_length_le attrs; omega)
      rw [attrFold_wf _ [] hattrs (by intro kv h; simp at h)] at hra
      simp only [List.nil_append] at hra
      simp only [parseElement]
      rw [r1]; simp only [Res.ok_bind]
      rw [if_neg (by decide), hra]; simp only [Res.ok_bind]
      refine ⟨_, _, rfl, by simp [Elem.shape, DElem.erase, Content.shape], ?_⟩
      simp only [if_true] at hqa
      omega
    | .full lead name l c attrs close content endPre endPost, hwf, hok, f, start, p, rest, hd, hf => by
      simp only [DElem.erase, Elem.wf, Bool.and_eq_true] at hwf
      obtain ⟨⟨hname, hattrs⟩, hcontent⟩ := hwf
      simp only [DElem.Ok] at hok
      obtain ⟨hlead, hoka, hokc, hpre, hpost, hns⟩ := hok
      have hd' : t.drop p.pos = miscStr lead ++ (name ++ (dattrsStr attrs ++ (miscStr close ++ 62 :: (content.toStr ++
          (miscStr endPre ++ (name ++ (miscStr endPost ++ 62 :: rest))))))) := by
        simpa [DElem.toStr] using hd
      simp only [DElem.toStr, List.length_cons, List.length_append, List.length_nil] at hf ⊢
      obtain ⟨f, rfl⟩ : ∃ g, f = g + 1 := ⟨f - 1, by omega⟩
      obtain ⟨d, dr, hdel, hdn⟩ := after_name_delim_dec attrs close hoka
        (62 :: (content.toStr ++ (miscStr endPre ++ (name ++ (miscStr endPost ++ 62 :: rest))))) (Or.inl ⟨_, rfl⟩)
      obtain ⟨c0, nr, hnc, _⟩ := wfName_facts hname
      have hple : p.pos ≤ t.length := drop_ne_nil_le (by rw [hd', hnc]; simp)
      obtain ⟨q0, ce0, hq0, hdq0, hrt0⟩ := readToken_misc t lead hlead p _ hd' (name_stop hname _)
      have r1 := hrt0 _ _ (tokenAt_name (by rw [hdq0, hdel]) hname hdn)
      have hd1 : t.drop (q0.pos + name.length) = dattrsStr attrs ++ (miscStr close ++ 62 :: (content.toStr ++
          (miscStr endPre ++ (name ++ (miscStr endPost ++ 62 :: rest))))) := drop_append hdq0
      have hlen0 := drop_le hd' hple
      have hlen1 := drop_le hdq0 (by omega)
      have hlen2 := drop_le hd1 (by omega)
      obtain ⟨qa, hra, hqa⟩ := parseAttrs_dec t attrs true close [] (t.length + 2) ⟨q0.line, q0.pos + name.length, q0.ls⟩
        _ false hd1 (Or.inl ⟨rfl, _, rfl⟩) hoka (dattrs_names attrs hattrs)
        (by have := dattrs_length_le attrs; omega)
      rw [attrFold_wf _ [] hattrs (by intro kv h; simp at h)] at hra
      simp only [List.nil_append] at hra
      simp only [Bool.false_eq_true, if_false] at hqa
      -- content
      have hd2 := drop_append hd1
      have hd3 := drop_append hd2
      have hdc : t.drop qa.pos = content.toStr ++ (miscStr endPre ++ (name ++ (miscStr endPost ++ 62 :: rest))) := by
        rw [hqa]; exact (drop_cons hd3).2.2
      obtain ⟨c', qc, hc', hshape, hqc⟩ := dcontent_rt t content false hcontent hokc f qa _ hdc (by omega)
      -- end tag
      have hde : t.drop qc.pos = miscStr endPre ++ (name ++ (miscStr endPost ++ 62 :: rest)) := by
        rw [hqc]; exact drop_append hdc
      obtain ⟨q1, ce1, hq1, hdq1, hrt1⟩ := readToken_misc t endPre hpre qc _ hde (name_stop hname _)
      obtain ⟨d2, dr2, hdel2, hdn2⟩ := nameSafe_delim endPost hpost hns 62 rest (by decide)
      have r2 := hrt1 _ _ (tokenAt_name (by rw [hdq1, hdel2]) hname hdn2)
      have hd5 : t.drop (q1.pos + name.length) = miscStr endPost ++ 62 :: rest := drop_append hdq1
      obtain ⟨q2, ce2, hq2, hdq2, hrt2⟩ := readToken_misc t endPost hpost ⟨q1.line, q1.pos + name.length, q1.ls⟩ _ hd5
        (Or.inl ⟨62, rest, rfl, by decide, by decide⟩)
      have r3 := hrt2 _ _ (tokenAt_tagEnd hdq2)
      simp only [parseElement]
      rw [r1]; simp only [Res.ok_bind]
      rw [if_neg (by decide), hra]; simp only [Res.ok_bind]
      simp only [Bool.false_eq_true, if_false]
      rw [hc']; simp only [Res.ok_bind]
      rw [r2]; simp only [Res.ok_bind]
      rw [if_neg (by decide), if_neg (by simp), r3]; simp only [Res.ok_bind]
      rw [if_neg (by decide)]
      refine ⟨_, _, rfl, by simp [Elem.shape, DElem.erase, hshape], ?_⟩
      simp only at hq2 hqa ⊢
      omega
  /-- the content loop on the decorated children, up to and including the `</` of the end tag -/
  theorem dcontent_rt (t : Bytes) : (c : DContent) → (prev : Bool) → c.erase.wf prev = true → c.Ok prev →
      ∀ (f : Nat) (p : Pos) (tail : Bytes),
      t.drop p.pos = c.toStr ++ tail → c.toStr.length ≤ f →
      ∃ c' q, parseContent t f p = .ok (c', q) ∧ c'.shape = c.erase.shape ∧ q.pos = p.pos + c.toStr.length
    | .nil pre, prev, hwf, hok, f, p, tail, hd, hf => by
      simp only [DContent.Ok] at hok
      simp only [DContent.toStr, List.length_append, List.length_cons, List.length_nil] at hf ⊢
      obtain ⟨f, rfl⟩ : ∃ g, f = g + 1 := ⟨f - 1, by omega⟩
      have hd' : t.drop p.pos = miscStr pre ++ 60 :: 47 :: tail := by simpa [DContent.toStr] using hd
      obtain ⟨q, ce', hq, hs, hdq⟩ := skipSpace_misc t pre hok.1 p _ hd' (Or.inr ⟨47, tail, rfl, by decide⟩)
      simp only [parseContent]
      rw [hs]; simp only [Res.ok_bind]
      rw [tokenAt_endTag hdq]
      exact ⟨.nil, ⟨q.line, q.pos + 2, q.ls⟩, by simp, by simp [Content.shape, DContent.erase], by simp only; omega⟩
    | .elem pre e rest, prev, hwf, hok, f, p, tail, hd, hf => by
      simp only [DContent.erase, Content.wf, Bool.and_eq_true] at hwf
      obtain ⟨hew, hrw⟩ := hwf
      simp only [DContent.Ok] at hok
      obtain ⟨hpre, _, hoke, hokr⟩ := hok
      have hd' : t.drop p.pos = miscStr pre ++ (e.toStr ++ (rest.toStr ++ tail)) := by
        simpa [DContent.toStr] using hd
      simp only [DContent.toStr, List.length_append] at hf ⊢
      have hlr := dcontent_len rest
      obtain ⟨f, rfl⟩ : ∃ g, f = g + 1 := ⟨f - 1, by omega⟩
      obtain ⟨c0, r0, hh, c33, c47, _⟩ := delem_toStr_head e hew hoke
      obtain ⟨q, ce', hq, hs, hdq⟩ := skipSpace_misc t pre hpre p _ hd'
        (Or.inr ⟨c0, r0 ++ (rest.toStr ++ tail), by rw [hh]; simp, c33⟩)
      have hdq0 : t.drop q.pos = 60 :: c0 :: (r0 ++ (rest.toStr ++ tail)) := by rw [hdq, hh]; simp
      obtain ⟨_, _, hdq1⟩ := drop_cons hdq0
      simp only [parseContent]
      rw [hs]; simp only [Res.ok_bind]
      rw [tokenAt_startTag hdq0 c47]; simp only
      rw [if_neg (by decide), if_pos trivial]
      have hlen : 0 < e.toStr.length := by rw [hh]; simp
      obtain ⟨e', q2, he', hes, hq2⟩ := delem_rt t e hew hoke f q ⟨q.line, q.pos + 1, q.ls⟩ (rest.toStr ++ tail)
        (by
          have : t.drop q.pos = 60 :: t.drop (q.pos + 1) := by rw [hdq0, hdq1]
          simp only
          rw [← this, hdq])
        (by omega)
      rw [he']; simp only [Res.ok_bind]
      simp only at hq2
      have hd2 : t.drop q2.pos = rest.toStr ++ tail := by
        have := drop_append hdq
        rw [show q2.pos = q.pos + e.toStr.length by omega]; exact this
      obtain ⟨c', q', hc', hcs, hq'⟩ := dcontent_rt t rest false hrw hokr f q2 tail hd2 (by omega)
      rw [hc']; simp only [Res.ok_bind]
      refine ⟨_, _, rfl, by simp [Content.shape, DContent.erase, hes, hcs], ?_⟩
      omega
    | .text pre s rest, prev, hwf, hok, f, p, tail, hd, hf => by
      simp only [DContent.erase, Content.wf, Bool.and_eq_true, Bool.not_eq_true'] at hwf
      obtain ⟨⟨_, hnb⟩, hrw⟩ := hwf
      simp only [DContent.Ok] at hok
      obtain ⟨hpre, hready, hokr⟩ := hok
      obtain ⟨r', hr'⟩ := dcontent_after_text rest hrw hokr tail
      have hd' : t.drop p.pos = miscStr pre ++ (escape false s ++ 60 :: r') := by
        rw [← hr']; simpa [DContent.toStr] using hd
      simp only [DContent.toStr, List.length_append] at hf ⊢
      have hlr := dcontent_len rest
      obtain ⟨f, rfl⟩ : ∃ g, f = g + 1 := ⟨f - 1, by omega⟩
      have hes60 : ∀ b ∈ escape false s, b ≠ 60 := fun b hb => (escape_bytes false s b hb).1
      obtain ⟨m, hm1, hm2, hm3⟩ := nonBlank_first _ (escape_nonBlank false s hnb)
      have hplen : p.pos ≤ t.length := drop_pos_le (a := miscStr pre ++ escape false s) (c := 60) (r := r') (by rw [hd']; simp)
      obtain ⟨q0, ce0, hq0, hall, hnil, hrdy⟩ := skip_misc t pre hpre p none _ hd'
      have hdq0 : t.drop q0.pos = escape false s ++ 60 :: r' := by rw [hq0]; exact drop_append hd'
      have hq0len : q0.pos ≤ t.length := drop_pos_le hdq0
      have hlen := drop_le hdq0 hq0len
      have hgm : t.getD (q0.pos + m) 0 = (escape false s).getD m 0 := drop_getD hdq0 hm1
      have hm60 : t.getD (q0.pos + m) 0 ≠ 60 := by rw [hgm]; exact hes60 _ (getD_mem hm1)
      obtain ⟨sq, hsq, hsqpos⟩ := skipLoop_spaces t (q0.pos + m) (by omega) (by rw [hgm]; exact hm2) hm60
        (t.length + 2) q0 ce0 (by omega) (by omega)
        (by intro j hj1 hj2
            have := drop_getD hdq0 (show j - q0.pos < (escape false s).length by omega)
            rw [show q0.pos + (j - q0.pos) = j by omega] at this
            rw [this]; exact hm3 _ (by omega))
      have hskip : skipSpace t p = .ok (sq, ce0) := (hall _ ⟨_, hsq⟩).skipSpace hplen
      -- where the text starts: behind the last comment, or at the cursor
      have hts : ∃ ts : Pos, ce0.getD p = ts ∧ ts.pos = q0.pos := by
        cases pre with
        | nil => obtain ⟨e1, e2⟩ := hnil rfl; exact ⟨p, by rw [e1]; rfl, by rw [e2]⟩
        | cons x pre' => obtain ⟨c, e1, e2⟩ := hrdy hready (by simp); exact ⟨c, by rw [e1]; rfl, e2⟩
      obtain ⟨ts, hts1, hts2⟩ := hts
      obtain ⟨tq, htx, htq⟩ := parseText_body (p := ts) (by rw [hts2]; exact hdq0) hes60 (by omega)
      have hd2 : t.drop tq.pos = rest.toStr ++ tail := by
        rw [htq, hts2, drop_append hdq0, hr']
      obtain ⟨c', q', hc', hcs, hq'⟩ := dcontent_rt t rest true hrw hokr f tq tail hd2
        (by have : 0 < (escape false s).length := by omega
            omega)
      refine ⟨.text s c', q', ?_, by simp [Content.shape, DContent.erase, hcs], ?_⟩
      · apply parseContent_text_step hskip (by omega) (by rw [hsqpos]; exact hm60)
        rw [hts1, htx]; simp only [Res.ok_bind]
        rw [hc']; simp only [Res.ok_bind]
        rw [unescape_escape]
      · omega
end

end Nstd.Xml
