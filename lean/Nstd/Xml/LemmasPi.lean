import Nstd.Xml.LemmasComment
/-  a processing instruction in front of the root element is stepped over -/
namespace Nstd.Xml

/-- without any `<` the outer loop of `skipSpace` stops at the latest at a byte that is no white space -/
theorem skipLoop_bound (t : Bytes) (lo m : Nat) (hm : m < t.length)
    (hms : isSpace (t.getD m 0) = false) (hm60 : t.getD m 0 ≠ 60)
    (hno : ∀ j, lo ≤ j → j < m → t.getD j 0 ≠ 60) :
    ∀ (f : Nat) (p : Pos) (ce : Option Pos), lo ≤ p.pos → p.pos ≤ m → m - p.pos < f →
      ∃ q, skipLoop t f false p ce = .ok (q, ce) ∧ p.pos ≤ q.pos ∧ q.pos ≤ m := by
  intro f
  induction f with
  | zero => intro p ce _ _ h; omega
  | succ f ih =>
    intro p ce hlo hp hf
    by_cases hpm : p.pos = m
    · have hd : t.drop p.pos = t.getD m 0 :: t.drop (m + 1) := by
        rw [hpm, List.drop_eq_getElem_cons hm]
        simp [List.getD_eq_getElem?_getD, List.getElem?_eq_getElem hm]
      exact ⟨p, skipLoop_noop f ce hd hms hm60, Nat.le_refl _, hp⟩
    · have hlt : p.pos < m := by omega
      have h60 := hno p.pos hlo hlt
      simp only [skipLoop]
      rw [peek_eq (by omega)]; simp only [Res.ok_bind]
      by_cases h13 : t.getD p.pos 0 = 13
      · rw [if_pos h13, peek_eq (by omega)]; simp only [Res.ok_bind]
        by_cases hd10 : t.getD (p.pos + 1) 0 = 10
        · have hne : m ≠ p.pos + 1 := by
            intro e; rw [e, hd10] at hms; revert hms; decide
          simp only [hd10, if_true]
          obtain ⟨q, hq, q1, q2⟩ := ih ⟨p.line + 1, p.pos + 2, p.pos + 2⟩ ce (by simp; omega) (by simp; omega) (by simp; omega)
          exact ⟨q, hq, by simp at q1; omega, q2⟩
        · simp only [hd10, if_false]
          obtain ⟨q, hq, q1, q2⟩ := ih ⟨p.line + 1, p.pos + 1, p.pos + 1⟩ ce (by simp; omega) (by simp; omega) (by simp; omega)
          exact ⟨q, hq, by simp at q1; omega, q2⟩
      rw [if_neg h13]
      by_cases h10 : t.getD p.pos 0 = 10
      · rw [if_pos h10]
        obtain ⟨q, hq, q1, q2⟩ := ih ⟨p.line + 1, p.pos + 1, p.pos + 1⟩ ce (by simp; omega) (by simp; omega) (by simp; omega)
        exact ⟨q, hq, by simp at q1; omega, q2⟩
      rw [if_neg h10, if_neg h60]
      by_cases hsp : isSpace (t.getD p.pos 0) = true
      · rw [if_pos hsp]
        obtain ⟨q, hq, q1, q2⟩ := ih ⟨p.line, p.pos + 1, p.ls⟩ ce (by simp; omega) (by simp; omega) (by simp; omega)
        exact ⟨q, hq, by simp at q1; omega, q2⟩
      · rw [if_neg hsp]
        exact ⟨p, rfl, Nat.le_refl _, hp⟩

/-- the scan for the end of a processing instruction whose body has neither `?>` nor `<` -/
theorem piInner_walk (t : Bytes) (lo m : Nat) (hm : m + 2 ≤ t.length)
    (h1 : t.getD m 0 = 63) (h2 : t.getD (m + 1) 0 = 62)
    (hbody : ∀ i, lo ≤ i → i < m → (t.getD i 0 = 63 → t.getD (i + 1) 0 ≠ 62) ∧ t.getD i 0 ≠ 60) (sp : Pos) :
    ∀ (n : Nat) (p : Pos), lo ≤ p.pos → p.pos ≤ m → m - p.pos ≤ n →
      ∃ q : Pos, q.pos = m + 2 ∧ (PosOK t p → PosOK t q) ∧ ∀ f, n < f → piInner t f sp p = .ok q := by
  intro n
  induction n using Nat.strongRecOn with
  | ind n ih =>
    intro p hlo hpm hn
    have hple : p.pos ≤ t.length := by omega
    have hstopm : isPiScanStop ((t.drop p.pos).getD (m - p.pos) 0) = true := by
      rw [getD_drop, show p.pos + (m - p.pos) = m by omega, h1]; decide
    obtain ⟨k, hidx⟩ : ∃ k, idxOf isPiScanStop (t.drop p.pos) = some k := by
      cases h : idxOf isPiScanStop (t.drop p.pos) with
      | some k => exact ⟨k, rfl⟩
      | none =>
        have := idxOf_none h (m - p.pos) (by simp; omega)
        rw [this] at hstopm; cases hstopm
    obtain ⟨hk, hstop, hbefore⟩ := idxOf_some hidx
    simp at hk
    rw [getD_drop] at hstop
    have hkm : p.pos + k ≤ m := by
      by_cases hlt : m < p.pos + k
      · have := hbefore (m - p.pos) (by omega)
        rw [this] at hstopm; cases hstopm
      · omega
    have hadv : PosOK t p → PosOK t ⟨p.line, p.pos + k, p.ls⟩ := by
      intro hp
      refine hp.adv k (by omega) ?_
      intro j hj
      have := hbefore j hj
      rw [getD_drop] at this
      exact piStop_false this
    by_cases hem : p.pos + k = m
    · refine ⟨⟨p.line, p.pos + k + 2, p.ls⟩, by simp; omega, ?_, ?_⟩
      · intro hp
        refine (hadv hp).adv 2 (by simp; omega) ?_
        intro j hj
        have : j = 0 ∨ j = 1 := by omega
        simp only
        rcases this with rfl | rfl
        · rw [Nat.add_zero, hem, h1]; decide
        · rw [hem, h2]; decide
      · intro f hf
        obtain ⟨f, rfl⟩ : ∃ g, f = g + 1 := ⟨f - 1, by omega⟩
        rw [piInner, cstr_le hple]; simp only [Res.ok_bind]
        rw [hidx]; simp only
        rw [peek_eq (by omega), hem, h1]; simp only [Res.ok_bind]
        rw [if_pos trivial, peek_eq (by omega), h2]; simp only [Res.ok_bind]
        rw [if_pos trivial]
    · have hlt : p.pos + k < m := by omega
      by_cases h63 : t.getD (p.pos + k) 0 = 63
      · -- a `?` that does not end the instruction
        have hne62 := (hbody _ (by omega) hlt).1 h63
        obtain ⟨q1, hq1, hq1a, hq1b⟩ := skipLoop_bound t lo m (by omega) (by rw [h1]; decide) (by rw [h1]; decide)
          (fun j hj1 hj2 => (hbody j hj1 hj2).2) (t.length + 2) ⟨p.line, p.pos + k + 1, p.ls⟩ none
          (by simp; omega) (by simp; omega) (by simp; omega)
        have hsk : skipSpace t ⟨p.line, p.pos + k + 1, p.ls⟩ = .ok (q1, none) := hq1
        simp at hq1a hq1b
        obtain ⟨q, hq, hq2, hq3⟩ := ih (m - q1.pos) (by omega) q1 (by omega) hq1b (Nat.le_refl _)
        refine ⟨q, hq, ?_, ?_⟩
        · intro hp
          have hg := skipSpace_good t _ ((hadv hp).adv1 (show p.pos + k < t.length by omega) (show t.getD (p.pos + k) 0 ≠ 13 by rw [h63]; decide) (show t.getD (p.pos + k) 0 ≠ 10 by rw [h63]; decide))
          simp only at hg
          rw [hsk] at hg
          exact hq2 hg.1
        · intro f hf
          obtain ⟨f, rfl⟩ : ∃ g, f = g + 1 := ⟨f - 1, by omega⟩
          rw [piInner, cstr_le hple]; simp only [Res.ok_bind]
          rw [hidx]; simp only
          rw [peek_eq (by omega)]; simp only [Res.ok_bind]
          rw [if_pos h63, peek_eq (by omega)]; simp only [Res.ok_bind]
          rw [if_neg hne62, hsk]; simp only [Res.ok_bind]
          exact hq3 f (by omega)
      have hne63 : t.getD (p.pos + k) 0 ≠ 63 := h63
      have hlb := piStop_cases hstop hne63
      -- skipSpace consumes the line break and the white space behind it
      obtain ⟨q1, hq1, hq1a, hq1b⟩ := skipLoop_bound t lo m (by omega) (by rw [h1]; decide) (by rw [h1]; decide)
        (fun j hj1 hj2 => (hbody j hj1 hj2).2) (t.length + 2) ⟨p.line, p.pos + k, p.ls⟩ none
        (by simp; omega) (by simp; omega) (by simp; omega)
      have hsk : skipSpace t ⟨p.line, p.pos + k, p.ls⟩ = .ok (q1, none) := hq1
      obtain ⟨r, hr, hr1, _⟩ := skipSpace_adv_lb t ⟨p.line, p.pos + k, p.ls⟩ (by simp; omega) (by simpa using hlb)
      rw [hsk] at hr; cases hr
      simp at hr1 hq1b
      obtain ⟨q, hq, hq2, hq3⟩ := ih (m - q1.pos) (by omega) q1 (by omega) hq1b (Nat.le_refl _)
      refine ⟨q, hq, ?_, ?_⟩
      · intro hp
        have hg := skipSpace_good t _ (hadv hp)
        rw [hsk] at hg
        exact hq2 hg.1
      · intro f hf
        obtain ⟨f, rfl⟩ : ∃ g, f = g + 1 := ⟨f - 1, by omega⟩
        rw [piInner, cstr_le hple]; simp only [Res.ok_bind]
        rw [hidx]; simp only
        rw [peek_eq (by omega)]; simp only [Res.ok_bind]
        rw [if_neg hne63, hsk]; simp only [Res.ok_bind]
        exact hq3 f (by omega)

/-- one round of the loop over processing instructions -/
theorem piLoop_step (t : Bytes) (p : Pos) (body rest : Bytes)
    (h : t.drop p.pos = [60, 63] ++ (body ++ ([63, 62] ++ rest))) (hb : piBody body) :
    ∃ q : Pos, q.pos = p.pos + 2 + body.length + 2 ∧ (PosOK t p → PosOK t q) ∧
      ∀ f, piLoop t (f + 1) p = (skipSpace t q).bind fun q2 => piLoop t f q2.1 := by
  have h0 : t.drop p.pos = 60 :: 63 :: (body ++ ([63, 62] ++ rest)) := by simpa using h
  obtain ⟨hplt, g0, hd1⟩ := drop_cons h0
  obtain ⟨_, g1, hd2⟩ := drop_cons hd1
  have hd2' : t.drop (p.pos + 2) = body ++ ([63, 62] ++ rest) := by simpa [Nat.add_assoc] using hd2
  have hdm : t.drop (p.pos + 2 + body.length) = 63 :: 62 :: rest := by simpa using drop_append hd2'
  obtain ⟨hmlt, m0, hdm1⟩ := drop_cons hdm
  obtain ⟨hm1lt, m1, _⟩ := drop_cons hdm1
  have hd2'' : t.drop (p.pos + 2) = (body ++ [63]) ++ (62 :: rest) := by rw [hd2']; simp
  have hbody : ∀ i, p.pos + 2 ≤ i → i < p.pos + 2 + body.length →
      (t.getD i 0 = 63 → t.getD (i + 1) 0 ≠ 62) ∧ t.getD i 0 ≠ 60 := by
    intro i hi1 hi2
    have e1 := drop_getD hd2' (show i - (p.pos + 2) < body.length by omega)
    rw [show p.pos + 2 + (i - (p.pos + 2)) = i by omega] at e1
    have e2 := drop_getD hd2'' (show i - (p.pos + 2) + 1 < (body ++ [63]).length by simp; omega)
    rw [show p.pos + 2 + (i - (p.pos + 2) + 1) = i + 1 by omega] at e2
    obtain ⟨g1, g2⟩ := hb (i - (p.pos + 2)) (by omega)
    rw [e1, e2]
    exact ⟨g2, g1⟩
  obtain ⟨q, hq1, hq2, hq3⟩ := piInner_walk t (p.pos + 2) (p.pos + 2 + body.length) (by omega) m0 m1 hbody p
    body.length ⟨p.line, p.pos + 2, p.ls⟩ (by simp) (by simp) (by simp)
  have hlen : body.length ≤ t.length := by omega
  refine ⟨q, hq1, ?_, ?_⟩
  · intro hp
    exact hq2 (hp.adv 2 (by omega) (by
      intro j hj
      have : j = 0 ∨ j = 1 := by omega
      rcases this with rfl | rfl
      · rw [Nat.add_zero, g0]; decide
      · rw [g1]; decide))
  · intro f
    rw [piLoop, peek_drop h0]; simp only [Res.ok_bind]
    rw [if_pos trivial, peek_drop hd1]; simp only [Res.ok_bind]
    rw [if_pos trivial, hq3 (t.length + 2) (by omega)]; simp only [Res.ok_bind]

end Nstd.Xml
