import Nstd.Xml.LemmasComment
/-  a processing instruction in front of the root element is stepped over -/
namespace Nstd.Xml

/-- the scan for the end of a processing instruction whose body has no `?>` -/
theorem piInner_walk (t : Bytes) (lo m : Nat) (hm : m + 2 ≤ t.length)
    (h1 : t.getD m 0 = 63) (h2 : t.getD (m + 1) 0 = 62)
    (hbody : ∀ i, lo ≤ i → i < m → t.getD i 0 = 63 → t.getD (i + 1) 0 ≠ 62) (sp : Pos) :
    ∀ (n : Nat) (p : Pos), lo ≤ p.pos → p.pos ≤ m → m - p.pos ≤ n →
      ∃ q : Pos, q.pos = m + 2 ∧ (PosOK t p → PosOK t q) ∧ ∀ f, n < f → piInner t f sp p = .ok q := by
  intro n
  induction n using Nat.strongRecOn with
  | ind n ih =>
    intro p hlo hpm hn
    have hple : p.pos ≤ t.length := by omega
    have hstopm : isPiScanStop ((t.drop p.pos).getD (m - p.pos) 0) = true := by
      rw [getD_drop, show p.pos + (m - p.pos) = m by omega, h1]; decide
    obtain ⟨k, hidx⟩ : ∃ k, idxOf isPiScanStop (t.drop p.pos) = some k := by
      cases h : idxOf isPiScanStop (t.drop p.pos) with
      | some k => exact ⟨k, rfl⟩
      | none =>
        have := idxOf_none h (m - p.pos) (by simp; omega)
        rw [this] at hstopm; cases hstopm
    obtain ⟨hk, hstop, hbefore⟩ := idxOf_some hidx
    simp at hk
    rw [getD_drop] at hstop
    have hkm : p.pos + k ≤ m := by
      by_cases hlt : m < p.pos + k
      · have := hbefore (m - p.pos) (by omega)
        rw [this] at hstopm; cases hstopm
      · omega
    have hadv : PosOK t p → PosOK t ⟨p.line, p.pos + k, p.ls⟩ := by
      intro hp
      refine hp.adv k (by omega) ?_
      intro j hj
      have := hbefore j hj
      rw [getD_drop] at this
      exact piStop_false this
    by_cases hem : p.pos + k = m
    · refine ⟨⟨p.line, p.pos + k + 2, p.ls⟩, by simp; omega, ?_, ?_⟩
      · intro hp
        refine (hadv hp).adv 2 (by simp; omega) ?_
        intro j hj
        have : j = 0 ∨ j = 1 := by omega
        simp only
        rcases this with rfl | rfl
        · rw [Nat.add_zero, hem, h1]; decide
        · rw [hem, h2]; decide
      · intro f hf
        obtain ⟨f, rfl⟩ : ∃ g, f = g + 1 := ⟨f - 1, by omega⟩
        rw [piInner, cstr_le hple]; simp only [Res.ok_bind]
        rw [hidx]; simp only
        rw [peek_eq (by omega), hem, h1]; simp only [Res.ok_bind]
        rw [if_pos trivial, peek_eq (by omega), h2]; simp only [Res.ok_bind]
        rw [if_pos trivial]
    · have hlt : p.pos + k < m := by omega
      have hltl : p.pos + k < t.length := by omega
      by_cases h63 : t.getD (p.pos + k) 0 = 63
      · -- a `?` that does not end the instruction
        have hne62 := hbody _ (by omega) hlt h63
        obtain ⟨q, hq, hq2, hq3⟩ := ih (m - (p.pos + k + 1)) (by omega) ⟨p.line, p.pos + k + 1, p.ls⟩
          (by simp; omega) (by simp; omega) (Nat.le_refl _)
        refine ⟨q, hq, ?_, ?_⟩
        · intro hp
          exact hq2 ((hadv hp).adv1 hltl (by rw [h63]; decide) (by rw [h63]; decide))
        · intro f hf
          obtain ⟨f, rfl⟩ : ∃ g, f = g + 1 := ⟨f - 1, by omega⟩
          rw [piInner, cstr_le hple]; simp only [Res.ok_bind]
          rw [hidx]; simp only
          rw [peek_eq (by omega)]; simp only [Res.ok_bind]
          rw [if_pos h63, peek_eq (by omega)]; simp only [Res.ok_bind]
          rw [if_neg hne62]
          exact hq3 f (by omega)
      by_cases h13 : t.getD (p.pos + k) 0 = 13
      · by_cases hd10 : t.getD (p.pos + k + 1) 0 = 10
        · have hne : p.pos + k + 1 ≠ m := by
            intro e; rw [e, h1] at hd10; revert hd10; decide
          obtain ⟨q, hq, hq2, hq3⟩ := ih (m - (p.pos + k + 2)) (by omega) ⟨p.line + 1, p.pos + k + 2, p.pos + k + 2⟩
            (by simp; omega) (by simp; omega) (Nat.le_refl _)
          refine ⟨q, hq, ?_, ?_⟩
          · intro hp
            exact hq2 ((hadv hp).crlf (by simp; omega) h13 hd10)
          · intro f hf
            obtain ⟨f, rfl⟩ : ∃ g, f = g + 1 := ⟨f - 1, by omega⟩
            rw [piInner, cstr_le hple]; simp only [Res.ok_bind]
            rw [hidx]; simp only
            rw [peek_eq (by omega)]; simp only [Res.ok_bind]
            rw [if_neg h63, if_pos h13, peek_eq (by omega)]; simp only [Res.ok_bind]
            simp only [hd10, if_true]
            exact hq3 f (by omega)
        · obtain ⟨q, hq, hq2, hq3⟩ := ih (m - (p.pos + k + 1)) (by omega) ⟨p.line + 1, p.pos + k + 1, p.pos + k + 1⟩
            (by simp; omega) (by simp; omega) (Nat.le_refl _)
          refine ⟨q, hq, ?_, ?_⟩
          · intro hp
            exact hq2 ((hadv hp).cr hltl h13 hd10)
          · intro f hf
            obtain ⟨f, rfl⟩ : ∃ g, f = g + 1 := ⟨f - 1, by omega⟩
            rw [piInner, cstr_le hple]; simp only [Res.ok_bind]
            rw [hidx]; simp only
            rw [peek_eq (by omega)]; simp only [Res.ok_bind]
            rw [if_neg h63, if_pos h13, peek_eq (by omega)]; simp only [Res.ok_bind]
            simp only [hd10, if_false]
            exact hq3 f (by omega)
      have h10 : t.getD (p.pos + k) 0 = 10 := by
        rcases piStop_cases hstop h63 with h | h
        · exact absurd h h13
        · exact h
      obtain ⟨q, hq, hq2, hq3⟩ := ih (m - (p.pos + k + 1)) (by omega) ⟨p.line + 1, p.pos + k + 1, p.pos + k + 1⟩
        (by simp; omega) (by simp; omega) (Nat.le_refl _)
      refine ⟨q, hq, ?_, ?_⟩
      · intro hp
        exact hq2 ((hadv hp).lf hltl h10)
      · intro f hf
        obtain ⟨f, rfl⟩ : ∃ g, f = g + 1 := ⟨f - 1, by omega⟩
        rw [piInner, cstr_le hple]; simp only [Res.ok_bind]
        rw [hidx]; simp only
        rw [peek_eq (by omega)]; simp only [Res.ok_bind]
        rw [if_neg h63, if_neg h13]
        exact hq3 f (by omega)

/-- one round of the loop over processing instructions -/
theorem piLoop_step (t : Bytes) (p : Pos) (body rest : Bytes)
    (h : t.drop p.pos = [60, 63] ++ (body ++ ([63, 62] ++ rest))) (hb : piBody body) :
    ∃ q : Pos, q.pos = p.pos + 2 + body.length + 2 ∧ (PosOK t p → PosOK t q) ∧
      ∀ f, piLoop t (f + 1) p = (skipSpace t q).bind fun q2 => piLoop t f q2.1 := by
  have h0 : t.drop p.pos = 60 :: 63 :: (body ++ ([63, 62] ++ rest)) := by simpa using h
  obtain ⟨hplt, g0, hd1⟩ := drop_cons h0
  obtain ⟨_, g1, hd2⟩ := drop_cons hd1
  have hd2' : t.drop (p.pos + 2) = body ++ ([63, 62] ++ rest) := by simpa [Nat.add_assoc] using hd2
  have hdm : t.drop (p.pos + 2 + body.length) = 63 :: 62 :: rest := by simpa using drop_append hd2'
  obtain ⟨hmlt, m0, hdm1⟩ := drop_cons hdm
  obtain ⟨hm1lt, m1, _⟩ := drop_cons hdm1
  have hd2'' : t.drop (p.pos + 2) = (body ++ [63]) ++ (62 :: rest) := by rw [hd2']; simp
  have hbody : ∀ i, p.pos + 2 ≤ i → i < p.pos + 2 + body.length →
      t.getD i 0 = 63 → t.getD (i + 1) 0 ≠ 62 := by
    intro i hi1 hi2
    have e1 := drop_getD hd2' (show i - (p.pos + 2) < body.length by omega)
    rw [show p.pos + 2 + (i - (p.pos + 2)) = i by omega] at e1
    have e2 := drop_getD hd2'' (show i - (p.pos + 2) + 1 < (body ++ [63]).length by simp; omega)
    rw [show p.pos + 2 + (i - (p.pos + 2) + 1) = i + 1 by omega] at e2
    rw [e1, e2]
    exact hb (i - (p.pos + 2)) (by omega)
  obtain ⟨q, hq1, hq2, hq3⟩ := piInner_walk t (p.pos + 2) (p.pos + 2 + body.length) (by omega) m0 m1 hbody p
    body.length ⟨p.line, p.pos + 2, p.ls⟩ (by simp) (by simp) (by simp)
  have hlen : body.length ≤ t.length := by omega
  refine ⟨q, hq1, ?_, ?_⟩
  · intro hp
    exact hq2 (hp.adv 2 (by omega) (by
      intro j hj
      have : j = 0 ∨ j = 1 := by omega
      rcases this with rfl | rfl
      · rw [Nat.add_zero, g0]; decide
      · rw [g1]; decide))
  · intro f
    rw [piLoop, peek_drop h0]; simp only [Res.ok_bind]
    rw [if_pos trivial, peek_drop hd1]; simp only [Res.ok_bind]
    rw [if_pos trivial, hq3 (t.length + 2) (by omega)]; simp only [Res.ok_bind]


/-- white space in front of a `<` that does not open a comment: `skipSpace` stops exactly there -/
theorem skipSpace_ws {t : Bytes} {p : Pos} {ws : Bytes} {d : UInt8} {r : Bytes}
    (h : t.drop p.pos = ws ++ 60 :: d :: r) (hws : ∀ b ∈ ws, isSpace b = true) (hd : d ≠ 33) (hp : p.pos ≤ t.length) :
    ∃ q, skipSpace t p = .ok (q, none) ∧ q.pos = p.pos + ws.length := by
  have hlen := drop_le h hp
  have hdm : t.drop (p.pos + ws.length) = 60 :: d :: r := drop_append h
  obtain ⟨hmlt, hm60, _⟩ := drop_cons hdm
  refine skipLoop_spaces_gen t (p.pos + ws.length) hmlt (by rw [hm60]; decide) ?_ (t.length + 2) p none (by omega) (by omega) ?_
  · intro f q ce hq
    exact skipLoop_noop_lt f ce (by rw [hq]; exact hdm) hd
  · intro j hj1 hj2
    have := drop_getD h (show j - p.pos < ws.length by omega)
    rw [show p.pos + (j - p.pos) = j by omega] at this
    rw [this]
    exact hws _ (getD_mem (by omega))

theorem prologue_head : ∀ (pis : List (Bytes × Bytes)) (d : UInt8) (r : Bytes), d ≠ 33 →
    ∃ d' r', prologue pis ++ 60 :: d :: r = 60 :: d' :: r' ∧ d' ≠ 33 := by
  intro pis d r hd
  cases pis with
  | nil => exact ⟨d, r, rfl, hd⟩
  | cons x pis =>
    obtain ⟨body, ws⟩ := x
    exact ⟨63, body ++ 63 :: 62 :: (ws ++ (prologue pis ++ 60 :: d :: r)), by simp [prologue], by decide⟩

theorem piLoop_stop {t : Bytes} {p : Pos} {d : UInt8} {r : Bytes} (f : Nat)
    (h : t.drop p.pos = 60 :: d :: r) (hd : d ≠ 63) : piLoop t (f + 1) p = .ok p := by
  obtain ⟨_, _, hdrop⟩ := drop_cons h
  simp only [piLoop]
  rw [peek_drop h]; simp only [Res.ok_bind]
  rw [if_pos trivial, peek_drop hdrop]; simp only [Res.ok_bind]
  rw [if_neg hd]

/-- the loop over processing instructions runs through a whole prologue and stops at the `<` behind it -/
theorem piLoop_prologue (t : Bytes) (d : UInt8) (rest : Bytes) (hd63 : d ≠ 63) (hd33 : d ≠ 33) :
    ∀ (pis : List (Bytes × Bytes)) (p : Pos) (f : Nat), prologueOk pis →
      t.drop p.pos = prologue pis ++ 60 :: d :: rest → PosOK t p → t.length - p.pos < f →
      ∃ r, piLoop t f p = .ok r ∧ r.pos = p.pos + (prologue pis).length ∧ PosOK t r := by
  intro pis
  induction pis with
  | nil =>
    intro p f _ h hp hf
    obtain ⟨f, rfl⟩ : ∃ g, f = g + 1 := ⟨f - 1, by omega⟩
    exact ⟨p, piLoop_stop f (by simpa [prologue] using h) hd63, by simp [prologue], hp⟩
  | cons x pis ih =>
    obtain ⟨body, ws⟩ := x
    intro p f hok h hp hf
    obtain ⟨hb, hws, hrest⟩ := hok
    obtain ⟨f, rfl⟩ : ∃ g, f = g + 1 := ⟨f - 1, by omega⟩
    have h' : t.drop p.pos = [60, 63] ++ (body ++ ([63, 62] ++ (ws ++ (prologue pis ++ 60 :: d :: rest)))) := by
      rw [h]; simp [prologue]
    obtain ⟨q, hq1, hq2, hq3⟩ := piLoop_step t p body _ h' hb
    have hple : p.pos ≤ t.length := hp.1
    have h'' : t.drop p.pos = ([60, 63] ++ (body ++ [63, 62])) ++ (ws ++ (prologue pis ++ 60 :: d :: rest)) := by
      rw [h']; simp
    have hlen := drop_le h'' hple
    have hpre : ([60, 63] ++ (body ++ [63, 62]) : Bytes).length = 2 + body.length + 2 := by simp; omega
    rw [hpre] at hlen
    have hdq : t.drop q.pos = ws ++ (prologue pis ++ 60 :: d :: rest) := by
      have := drop_append h''
      rw [hpre] at this
      rw [hq1, show p.pos + 2 + body.length + 2 = p.pos + (2 + body.length + 2) by omega]
      exact this
    obtain ⟨d', r', hhead, hd'⟩ := prologue_head pis d rest hd33
    rw [hhead] at hdq
    obtain ⟨q2, hsk, hq2pos⟩ := skipSpace_ws hdq hws hd' (by omega)
    have hq2ok : PosOK t q2 := by
      have hg := skipSpace_good t q (hq2 hp)
      rw [hsk] at hg
      exact hg.1
    have hdq2 : t.drop q2.pos = prologue pis ++ 60 :: d :: rest := by
      rw [hq2pos, drop_append hdq, hhead]
    obtain ⟨r, hr1, hr2, hr3⟩ := ih q2 f hrest hdq2 hq2ok (by omega)
    refine ⟨r, ?_, ?_, hr3⟩
    · rw [hq3 f, hsk]; simp only [Res.ok_bind]; exact hr1
    · rw [hr2, hq2pos, hq1]
      simp [prologue]
      omega

/-- `parseDoc` on white space, a prologue of processing instructions and a `<` that starts the root:
    the root is parsed at the cursor behind the prologue, whose line bookkeeping is right -/
theorem parseDoc_prologue (ws0 : Bytes) (pis : List (Bytes × Bytes)) (d : UInt8) (rest : Bytes)
    (hws0 : ∀ b ∈ ws0, isSpace b = true) (hok : prologueOk pis) (hd63 : d ≠ 63) (hd33 : d ≠ 33) :
    ∃ r : Pos, r.pos = ws0.length + (prologue pis).length ∧
      PosOK (ws0 ++ (prologue pis ++ 60 :: d :: rest)) r ∧
      parseDoc (ws0 ++ (prologue pis ++ 60 :: d :: rest)) = parseRootAt (ws0 ++ (prologue pis ++ 60 :: d :: rest)) r := by
  generalize ht : ws0 ++ (prologue pis ++ 60 :: d :: rest) = t
  obtain ⟨d', r', hhead, hd'⟩ := prologue_head pis d rest hd33
  have h0 : t.drop (Pos.mk 1 0 0).pos = ws0 ++ 60 :: d' :: r' := by rw [← ht, hhead]; simp
  obtain ⟨p0, hsk, hp0⟩ := skipSpace_ws h0 hws0 hd' (Nat.zero_le _)
  have hp0ok : PosOK t p0 := by
    have hg := skipSpace_good t _ (PosOK.init t)
    rw [hsk] at hg
    exact hg.1
  have hdp0 : t.drop p0.pos = prologue pis ++ 60 :: d :: rest := by
    rw [hp0, drop_append h0, hhead]
  obtain ⟨r, hr1, hr2, hr3⟩ := piLoop_prologue t d rest hd63 hd33 pis p0 (t.length + 2) hok hdp0 hp0ok (by omega)
  refine ⟨r, by rw [hr2, hp0]; simp, hr3, ?_⟩
  unfold parseDoc parseRootAt
  rw [hsk]; simp only [Res.ok_bind]
  rw [hr1]; simp only [Res.ok_bind]

end Nstd.Xml
