import Nstd.Xml.LemmasGen
import Nstd.Xml.LemmasUnesc
/-
  Property C16 — tie by translation (extension round 7).

  `Nstd/Generated/XmlScan.lean` is written on every run by tools/gen_xml.py from the CURRENT text of
  `Xml::Private::skipSpace`, `readToken`, `parseText`, `syntaxError`, the tables `escapeChars` / `escapeStrings` /
  `lineBreakStrings`, the first condition of `escapeString` (src/Document/Xml.cpp) and `String::isSpace` (String.hpp):
  tokenizer + parser of the C++ subset these bodies use, compiled statement by statement to Lean over the primitives of
  CSem.lean (checked reads `peek` / `cstr` / `mem`, `strpbrk`, `strncmp0`, `span`).  The theorems below say that the
  hand-written model functions (Model.lean) — about which Props.lean, PropsDecor.lean prove the property — ARE these
  translations, on every state.  A change of one of those C++ bodies changes the generated definition; if the behaviour
  changes, the equality below no longer checks (a broken obligation -> the check searches a failing input).
  (second leg: also the loop over one processing instruction of `parse` and the loop body of `escapeString`.)
  What stays hand-translated and tied only by the correspondence run: the rest of `parse`, `parseElement`
  (attribute loop, content loop with rewind), `Element::toString` (third leg: `unescapeString` is translated too).
-/
namespace Nstd.Xml
open CSem

/-- iteration of the translated loop bodies of `skipSpace` (outer loop = depth 0: `inC = false`, comment loop = depth 1:
    `inC = true`); `.next lvl` continues the loop at depth `lvl` -/
def skipRun (t : Bytes) : Nat → Bool → St → Res (Pos × Option Pos)
  | 0, _, _ => .fuel
  | f + 1, false, s => (Generated.skipSpace_loop0 t s).bind fun r => match r with
      | .next _ s' => skipRun t f false s'
      | .enter _ s' _ => skipRun t f true s'
      | .ret s' => .ok (s'.pos, s'.ce)
  | f + 1, true, s => (Generated.skipSpace_loop1 t s).bind fun r => match r with
      | .next lvl s' => if lvl = 0 then skipRun t f false s' else skipRun t f true s'
      | .enter _ s' _ => .ok (s'.pos, s'.ce)
      | .ret s' => .ok (s'.pos, s'.ce)

/-- `skipSpace` (both loops): the model's `skipLoop` is the iteration of the TRANSLATED loop bodies — for every text, cursor,
    `commentEnd`, fuel and mode, whatever the other members hold. -/
theorem skipSpace_is_translation (t : Bytes) : ∀ (f : Nat) (inC : Bool) (p : Pos) (ce : Option Pos) (tok : Token) (tx : Bytes),
    skipLoop t f inC p ce = skipRun t f inC ⟨p, ce, tok, tx⟩ := by
  intro f
  induction f with
  | zero => intro inC p ce tok tx; cases inC <;> simp [skipLoop, skipRun]
  | succ f ih =>
    intro inC p ce tok tx
    cases inC with
    | false =>
      rw [skipLoop_outer_translated t f p ce tok tx]
      simp only [skipRun]
      congr 1
      funext r
      cases r with
      | next l s => exact ih false s.pos s.ce s.tok s.text
      | enter l s loc => exact ih true s.pos s.ce s.tok s.text
      | ret s => rfl
    | true =>
      rw [skipLoop_inner_translated t f p ce tok tx]
      simp only [skipRun]
      congr 1
      funext r
      cases r with
      | next l s =>
        simp only [skipInnerK]
        by_cases hl : l = 0
        · simp only [hl, if_true]; exact ih false s.pos s.ce s.tok s.text
        · simp only [hl, if_false]; exact ih true s.pos s.ce s.tok s.text
      | enter l s loc => rfl
      | ret s => rfl

/-- one run of the outer loop body, spelled out (`skipOuterK`: how `skipLoop` goes on after each control outcome) -/
theorem skipSpace_outer_body (t : Bytes) (f : Nat) (p : Pos) (ce : Option Pos) (tok : Token) (tx : Bytes) :
    skipLoop t (f + 1) false p ce = (Generated.skipSpace_loop0 t ⟨p, ce, tok, tx⟩).bind (skipOuterK t f) :=
  skipLoop_outer_translated t f p ce tok tx

/-- one run of the comment loop body -/
theorem skipSpace_comment_body (t : Bytes) (f : Nat) (p : Pos) (ce : Option Pos) (tok : Token) (tx : Bytes) :
    skipLoop t (f + 1) true p ce = (Generated.skipSpace_loop1 t ⟨p, ce, tok, tx⟩).bind (skipInnerK t f) :=
  skipLoop_inner_translated t f p ce tok tx

/-- the function body in front of the loop: `skipSpace` enters its loop at once with the members unchanged -/
theorem skipSpace_frame (t : Bytes) (s : St) : Generated.skipSpace_entry t s = .ok (.enter 0 s []) := rfl

/-- `readToken` behind its `skipSpace()`: the translated body (switch with all nine arms, string scan with the opening quote
    put into the stop set, fall through from `/` into the name scan) computes exactly the model's `tokenAt` — same token
    type, value, token position, next cursor, same error line / column / message — and leaves `commentEnd` and everything
    else alone (`tokState`: `token.value` is only assigned for names and strings). -/
theorem readToken_is_translation (t : Bytes) (p : Pos) (ce : Option Pos) (tok : Token) (tx : Bytes) :
    Generated.readToken_entry t ⟨p, ce, tok, tx⟩ = (tokenAt t p).bind fun r => .ok (.ret (tokState ce tok tx r)) :=
  tokenAt_translated t p ce tok tx

/-- the byte test of the name scan `while(*end && *end != '/' && …) ++end;` is the model's `isNameByte` -/
theorem name_scan_is_translation : Generated.readToken_scan0 = isNameByte := nameScan_translated

/-- `String::isSpace` (signed `char` comparisons) is the model's `isSpace`, on every byte -/
theorem isSpace_is_translation : Generated.isSpace = isSpace := isSpace_translated

/-- `syntaxError`: line and column as the code computes them are the model's `.err p.line p.col` -/
theorem syntaxError_is_translation {α : Type} (p : Pos) (m : Msg) :
    (Generated.syntaxError p m : Res α) = .err p.line p.col m := rfl

/-- `parseText`: one run of the translated loop body (find `<`, CR or LF from the cursor; count the line break; or cut the
    text from `start` and unescape it) is one step of the model's `textLoop` followed by the model's `parseText` result;
    `start` is the cursor at entry (`parseText_frame`). -/
theorem parseText_loop_body (t : Bytes) (f : Nat) (start : Nat) (p : Pos) (ce : Option Pos) (tok : Token) (tx : Bytes)
    (hs : start ≤ p.pos) :
    ((textLoop t (f + 1) p).bind fun q => .ok (unescape (slice t start q.pos), q)) =
      (Generated.parseText_loop0 t start ⟨p, ce, tok, tx⟩).bind (textK t f start) :=
  textLoop_translated t f start p ce tok tx hs

theorem parseText_frame (t : Bytes) (s : St) : Generated.parseText_entry t s = .ok (.enter 0 s [s.pos.pos]) := rfl

/-- iteration of the translated loop body of `parseText` -/
def textRun (t : Bytes) (start : Nat) : Nat → St → Res (Bytes × Pos)
  | 0, _ => .fuel
  | f + 1, s => (Generated.parseText_loop0 t start s).bind fun r => match r with
      | .next _ s' => textRun t start f s'
      | .enter _ s' _ => .ok (s'.text, s'.pos)
      | .ret s' => .ok (s'.text, s'.pos)

theorem textRun_eq (t : Bytes) (start : Nat) : ∀ (f : Nat) (p : Pos) (ce : Option Pos) (tok : Token) (tx : Bytes),
    start ≤ p.pos →
    ((textLoop t f p).bind fun q => .ok (unescape (slice t start q.pos), q)) = textRun t start f ⟨p, ce, tok, tx⟩ := by
  intro f
  induction f with
  | zero => intro p ce tok tx _; simp [textLoop, textRun]
  | succ f ih =>
    intro p ce tok tx hs
    rw [textLoop_translated t f start p ce tok tx hs]
    simp only [textRun]
    cases hg : Generated.parseText_loop0 t start ⟨p, ce, tok, tx⟩ with
    | ok r =>
      cases r with
      | next l s =>
        have hm := parseText_loop0_mono t start _ _ _ hg
        simp only [Res.ok_bind, textK]
        exact ih s.pos s.ce s.tok s.text (by simp only [] at hm; omega)
      | enter l s loc => rfl
      | ret s => rfl
    | err l c m => rfl
    | oob => rfl
    | fuel => rfl

/-- `parseText` as a whole: the model's `parseText` is the iteration of the translated loop body started at the cursor. -/
theorem parseText_is_translation (t : Bytes) (p : Pos) (ce : Option Pos) (tok : Token) (tx : Bytes) :
    parseText t p = textRun t p.pos (t.length + 2) ⟨p, ce, tok, tx⟩ :=
  textRun_eq t p.pos (t.length + 2) p ce tok tx (Nat.le_refl _)

/-- iteration of the translated body of the loop over ONE processing instruction (`parse`, inside
    `while(*pos.pos == '<' && pos.pos[1] == '?')`); `sp` = the saved `startPos` -/
def piRun (t : Bytes) (sp : Pos) : Nat → St → Res Pos
  | 0, _ => .fuel
  | f + 1, s => (Generated.parsePi_loop0 t sp.line sp.ls sp.pos s).bind fun r => match r with
      | .next _ s' => piRun t sp f s'
      | .enter _ s' _ => .ok s'.pos
      | .ret s' => .ok s'.pos

/-- one run of the translated loop body (find CR, LF or `?`; `?>` ends the instruction; a lone `?` is stepped over; a line
    break is counted) is one step of the model's `piInner` -/
theorem parsePi_loop_body (t : Bytes) (f : Nat) (sp p : Pos) (ce : Option Pos) (tok : Token) (tx : Bytes) :
    piInner t (f + 1) sp p = (Generated.parsePi_loop0 t sp.line sp.ls sp.pos ⟨p, ce, tok, tx⟩).bind (piK t f sp) :=
  piInner_translated t f sp p ce tok tx

/-- the statements in front of that loop: `Position startPos = pos; pos.pos += 2;` -/
theorem parsePi_frame (t : Bytes) (p : Pos) (ce : Option Pos) (tok : Token) (tx : Bytes) :
    Generated.parsePi_entry t ⟨p, ce, tok, tx⟩ =
      .ok (.enter 0 ⟨⟨p.line, p.pos + 2, p.ls⟩, ce, tok, tx⟩ [p.line, p.ls, p.pos]) := rfl

/-- the prologue loop of `parse` over one processing instruction: the model's `piInner` (about which `pi_before_root` and
    `pi_prologue_skipped` speak) is the iteration of the TRANSLATED loop body, for every text, fuel, start position and cursor -/
theorem parsePi_is_translation (t : Bytes) (sp : Pos) : ∀ (f : Nat) (p : Pos) (ce : Option Pos) (tok : Token) (tx : Bytes),
    piInner t f sp p = piRun t sp f ⟨p, ce, tok, tx⟩ := by
  intro f
  induction f with
  | zero => intro p ce tok tx; simp [piInner, piRun]
  | succ f ih =>
    intro p ce tok tx
    rw [piInner_translated t f sp p ce tok tx]
    simp only [piRun]
    congr 1
    funext r
    cases r with
    | next l s => exact ih s.pos s.ce s.tok s.text
    | enter l s loc => rfl
    | ret s => rfl

/-- `unescapeString`, ONE run of the loop body on a non-empty rest `c :: r` of the source: the translated body (plain byte copied;
    `&` without `;` kept; `&#…;` through `scanfHashU` = '#' + the decimal reader `scanU`, and `utf8`; `&name;` by first-match
    search in the generated `escapeStrings`, the byte from `escapeChars`; anything else keeps the `&`) yields exactly one
    step of the model's `unescapeF` -/
theorem unescapeString_body_is_step (f : Nat) (c : UInt8) (r : Bytes) :
    unescapeF (f + 1) (c :: r) =
      (Generated.unescapeString_body (c :: r)).1 ++ unescapeF f (Generated.unescapeString_body (c :: r)).2 :=
  unescape_step f c r

/-- iteration of the translated loop body of `unescapeString` (`for(…; src < srcEnd;)`) -/
def unescRun : Nat → Bytes → Bytes
  | 0, _ => []
  | _ + 1, [] => []
  | f + 1, c :: r => (Generated.unescapeString_body (c :: r)).1 ++ unescRun f (Generated.unescapeString_body (c :: r)).2

/-- `unescapeString`, the loop: the model's `unescapeF` is the iteration of the TRANSLATED loop body, for every fuel and string -/
theorem unescapeF_is_translation : ∀ (f : Nat) (s : Bytes), unescapeF f s = unescRun f s := by
  intro f
  induction f with
  | zero => intro s; simp [unescapeF, unescRun]
  | succ f ih =>
    intro s
    cases s with
    | nil => simp [unescapeF, unescRun]
    | cons c r => rw [unescape_step, ih]; simp [unescRun]

/-- `unescapeString` as a whole: no `&` → the string itself (`return str`); else the bytes in front of the first `&`, then the
    iteration of the translated loop body on the rest.  (So `escape_unescape`, `unescape_no_growth`, `unescape_numeric_ref` and the
    round-trip theorems speak about the translation of the current C++ body.) -/
theorem unescape_is_translation (s : Bytes) :
    unescape s = match Generated.unescapeString_entry s with
      | none => s
      | some (pre, r) => pre ++ unescRun (s.length - pre.length) r := by
  unfold Generated.unescapeString_entry unescape
  cases hk : idxOf (· == 38) s with
  | none =>
    have h := unescapeF_prefix s [] 0 (idxOf_none_false _ s hk)
    simp only [Nat.add_zero, List.append_nil] at h
    rw [h]; simp [unescapeF]
  | some k =>
    simp only []
    have hk1 := (idxOf_some hk).1
    have hlen : (s.take k).length = k := by simp; omega
    have h := unescapeF_prefix (s.take k) (s.drop k) (s.length - k) (idxOf_take_false _ s k hk)
    rw [List.take_append_drop, hlen, show k + (s.length - k) = s.length by omega] at h
    rw [h, hlen, unescapeF_is_translation]

theorem escapePlain_translated (attr : Bool) (c : UInt8) :
    Generated.escapePlain attr c = ((c ≥ 64 || c < 32) && !(attr && (c == 10 || c == 13))) := by
  revert c
  apply forall_byte
  cases attr <;> decide +kernel

/-- `escapeString`: ONE run of the translated loop body (plain-byte test, `String::find(escapeChars, c)`, the choice between
    `escapeStrings[escapeChar - escapeChars]` and `lineBreakStrings[c == '\r']`, the writes `&` name `;` through `dest`) appends
    exactly the model's `escapeByte attr c` — for both modes and every byte.  (The loop header and the statements behind the
    loop are checked by the translator; the buffer re-seating between `result.resize` and `dest = destStart + result.length()`
    is the subject of `escape_no_overflow`.) -/
theorem escapeByte_is_translation (attr : Bool) (c : UInt8) : escapeByte attr c = Generated.escapeString_body attr c := by
  revert c
  apply forall_byte
  cases attr <;> decide +kernel

/-- … hence the model's `escape` is the concatenation of the translated loop body over the bytes of the string -/
theorem escape_is_translation (attr : Bool) (s : Bytes) : escape attr s = s.flatMap (Generated.escapeString_body attr) := by
  induction s with
  | nil => rfl
  | cons c r ih => simp [escape, escapeByte_is_translation, ih]

theorem entityTable_translated : entityTable = Generated.escapeChars.zip Generated.escapeStrings := by decide

theorem syntaxError_translated {α : Type} (p : Pos) (m : Msg) :
    (Generated.syntaxError p m : Res α) = .err p.line p.col m := rfl

end Nstd.Xml
