import Nstd.Xml.Model
/-  unescape ∘ escape = id  (C16: entity and numeric references, line breaks in values) -/
namespace Nstd.Xml

theorem idxOf_append_hit (p : UInt8 → Bool) (a : Bytes) (c : UInt8) (r : Bytes)
    (ha : ∀ b ∈ a, p b = false) (hc : p c = true) : idxOf p (a ++ c :: r) = some a.length := by
  induction a with
  | nil => simp [idxOf, hc]
  | cons x a ih =>
    have hx : p x = false := ha x (by simp)
    have := ih (fun b hb => ha b (by simp [hb]))
    simp [idxOf, hx, this]

/-- the loop of `unescapeString` on `&name;rest` for a known entity name -/
theorem unescapeF_entity (f : Nat) (nm : Bytes) (ch : UInt8) (r : Bytes)
    (hsemi : ∀ b ∈ nm, (b == 59) = false) (hhead : nm.head? ≠ some 35)
    (hent : entityChar nm = some ch) :
    unescapeF (f + 1) (38 :: (nm ++ 59 :: r)) = ch :: unescapeF f r := by
  have hidx := idxOf_append_hit (· == 59) nm 59 r hsemi (by decide)
  simp only [unescapeF]
  simp [hidx, hhead, hent]

/-- the loop of `unescapeString` on `&#digits;rest` -/
theorem unescapeF_numeric (f : Nat) (ds : Bytes) (v : Nat) (r : Bytes)
    (hsemi : ∀ b ∈ ds, (b == 59) = false) (hscan : scanU ds = some v) :
    unescapeF (f + 1) (38 :: 35 :: (ds ++ 59 :: r)) = utf8 v ++ unescapeF f r := by
  have hidx := idxOf_append_hit (· == 59) (35 :: ds) 59 r
    (by intro b hb; simp at hb; rcases hb with h | h; · subst h; decide
        · exact hsemi b h) (by decide)
  simp only [unescapeF]
  simp at hidx
  simp [hidx, hscan]

theorem unescapeF_copy (f : Nat) (c : UInt8) (r : Bytes) (hc : c ≠ 38) :
    unescapeF (f + 1) (c :: r) = c :: unescapeF f r := by
  simp [unescapeF, hc]

def isSpecial (c : UInt8) : Prop := c = 39 ∨ c = 34 ∨ c = 38 ∨ c = 60 ∨ c = 62 ∨ c = 10 ∨ c = 13

theorem entityName_none (c : UInt8) (h1 : c ≠ 39) (h2 : c ≠ 34) (h3 : c ≠ 38) (h4 : c ≠ 60) (h5 : c ≠ 62) :
    entityName c = none := by
  have e1 : ((39 : UInt8) == c) = false := beq_eq_false_iff_ne.mpr (Ne.symm h1)
  have e2 : ((34 : UInt8) == c) = false := beq_eq_false_iff_ne.mpr (Ne.symm h2)
  have e3 : ((38 : UInt8) == c) = false := beq_eq_false_iff_ne.mpr (Ne.symm h3)
  have e4 : ((60 : UInt8) == c) = false := beq_eq_false_iff_ne.mpr (Ne.symm h4)
  have e5 : ((62 : UInt8) == c) = false := beq_eq_false_iff_ne.mpr (Ne.symm h5)
  simp [entityName, entityTable, List.find?, e1, e2, e3, e4, e5]

theorem escapeByte_plain (a : Bool) (c : UInt8) (h1 : c ≠ 39) (h2 : c ≠ 34) (h3 : c ≠ 38) (h4 : c ≠ 60)
    (h5 : c ≠ 62) (h6 : c ≠ 10) (h7 : c ≠ 13) : escapeByte a c = [c] := by
  unfold escapeByte
  rw [entityName_none c h1 h2 h3 h4 h5]
  simp [h6, h7]

/-- one escaped byte is undone by one or more iterations of the unescape loop -/
theorem unescapeF_escapeByte (a : Bool) (c : UInt8) (r : Bytes) (f : Nat) :
    unescapeF (f + 1) (escapeByte a c ++ r) = c :: unescapeF f r := by
  by_cases h1 : c = 39
  · subst h1
    have : escapeByte a 39 = 38 :: ([97, 112, 111, 115] ++ [59]) := by cases a <;> decide
    rw [this]
    exact unescapeF_entity f [97, 112, 111, 115] 39 r (by decide) (by decide) (by decide)
  by_cases h2 : c = 34
  · subst h2
    have : escapeByte a 34 = 38 :: ([113, 117, 111, 116] ++ [59]) := by cases a <;> decide
    rw [this]
    exact unescapeF_entity f [113, 117, 111, 116] 34 r (by decide) (by decide) (by decide)
  by_cases h3 : c = 38
  · subst h3
    have : escapeByte a 38 = 38 :: ([97, 109, 112] ++ [59]) := by cases a <;> decide
    rw [this]
    exact unescapeF_entity f [97, 109, 112] 38 r (by decide) (by decide) (by decide)
  by_cases h4 : c = 60
  · subst h4
    have : escapeByte a 60 = 38 :: ([108, 116] ++ [59]) := by cases a <;> decide
    rw [this]
    exact unescapeF_entity f [108, 116] 60 r (by decide) (by decide) (by decide)
  by_cases h5 : c = 62
  · subst h5
    have : escapeByte a 62 = 38 :: ([103, 116] ++ [59]) := by cases a <;> decide
    rw [this]
    exact unescapeF_entity f [103, 116] 62 r (by decide) (by decide) (by decide)
  by_cases h6 : c = 10
  · subst h6
    cases a
    · have : escapeByte false 10 = [10] := by decide
      rw [this]; exact unescapeF_copy f 10 r (by decide)
    · have : escapeByte true 10 = 38 :: 35 :: ([49, 48] ++ [59]) := by decide
      rw [this]
      have := unescapeF_numeric f [49, 48] 10 r (by decide) (by decide)
      simpa [utf8] using this
  by_cases h7 : c = 13
  · subst h7
    cases a
    · have : escapeByte false 13 = [13] := by decide
      rw [this]; exact unescapeF_copy f 13 r (by decide)
    · have : escapeByte true 13 = 38 :: 35 :: ([49, 51] ++ [59]) := by decide
      rw [this]
      have := unescapeF_numeric f [49, 51] 13 r (by decide) (by decide)
      simpa [utf8] using this
  rw [escapeByte_plain a c h1 h2 h3 h4 h5 h6 h7]
  exact unescapeF_copy f c r h3

theorem escapeByte_length_pos (a : Bool) (c : UInt8) : 1 ≤ (escapeByte a c).length := by
  unfold escapeByte
  split
  · simp
  · split
    · simp
    · split
      · simp
      · split <;> simp

/-- more fuel than bytes does not change the result -/
theorem unescapeF_escape (a : Bool) (s : Bytes) : ∀ f, (escape a s).length ≤ f → unescapeF f (escape a s) = s := by
  induction s with
  | nil => intro f _; cases f <;> simp [escape, unescapeF]
  | cons c r ih =>
    intro f hf
    simp only [escape, List.length_append] at hf
    have hpos := escapeByte_length_pos a c
    obtain ⟨g, rfl⟩ : ∃ g, f = g + 1 := ⟨f - 1, by omega⟩
    simp only [escape]
    rw [unescapeF_escapeByte a c (escape a r) g, ih g (by omega)]

theorem unescape_escape (a : Bool) (s : Bytes) : unescape (escape a s) = s :=
  unescapeF_escape a s _ (Nat.le_refl _)


/-! ### unescaping never lengthens (the C++ code writes into `String result(str.length())`) -/

theorem utf8_length_le (v : Nat) : (utf8 v).length ≤ 4 := by
  unfold utf8
  split
  · simp
  · split
    · simp
    · split
      · simp
      · split <;> simp

theorem scanU_nil : scanU [] = none := by decide

theorem unescapeF_length_le : ∀ (f : Nat) (s : Bytes), (unescapeF f s).length ≤ s.length := by
  intro f
  induction f with
  | zero => intro s; simp [unescapeF]
  | succ f ih =>
    intro s
    cases s with
    | nil => simp [unescapeF]
    | cons c r =>
      simp only [unescapeF]
      by_cases hc : c ≠ 38
      · rw [if_pos hc]; simp; exact ih r
      rw [if_neg hc]
      cases hidx : idxOf (· == 59) r with
      | none => simp; exact ih r
      | some k =>
        simp only
        have hk : k < r.length := by
          have : ∀ (l : Bytes) (k : Nat), idxOf (· == 59) l = some k → k < l.length := by
            intro l
            induction l with
            | nil => intro k h; simp [idxOf] at h
            | cons b l ihl =>
              intro k h
              simp only [idxOf] at h
              by_cases hb : (b == 59) = true
              · simp [hb] at h; subst h; simp
              · simp [hb] at h
                obtain ⟨k', hk', rfl⟩ := h
                have := ihl k' hk'
                simp; omega
          exact this r k hidx
        have hdrop : (r.drop (k + 1)).length + (k + 1) = r.length := by simp; omega
        have hrec := ih (r.drop (k + 1))
        by_cases hh : (r.take k).head? = some 35
        · rw [if_pos hh]
          cases hs : scanU ((r.take k).drop 1) with
          | none => simp; exact ih r
          | some v =>
            simp only [List.length_append, List.length_cons]
            have hk2 : 2 ≤ k := by
              by_cases h2 : 2 ≤ k
              · exact h2
              · exfalso
                have : (r.take k).drop 1 = [] := by
                  apply List.eq_nil_of_length_eq_zero
                  simp; omega
                rw [this, scanU_nil] at hs; cases hs
            have := utf8_length_le v
            omega
        · rw [if_neg hh]
          cases he : entityChar (r.take k) with
          | none => simp; exact ih r
          | some ch => simp only [List.length_cons]; omega

theorem unescape_length_le (s : Bytes) : (unescape s).length ≤ s.length := unescapeF_length_le _ s

end Nstd.Xml
