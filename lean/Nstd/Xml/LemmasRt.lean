import Nstd.Xml.Model
import Nstd.Xml.LemmasEscape
import Nstd.Xml.LemmasSafe
import Nstd.Xml.Spec
/-  parsing the serialisation of an element tree (round trip), symbolic execution lemmas -/
namespace Nstd.Xml

/-! ### reading a text through `drop` -/

theorem drop_cons {t : Bytes} {i : Nat} {c : UInt8} {r : Bytes} (h : t.drop i = c :: r) :
    i < t.length ∧ t.getD i 0 = c ∧ t.drop (i + 1) = r := by
  have hlt : i < t.length := by
    by_cases hl : i < t.length
    · exact hl
    · have : t.drop i = [] := List.drop_eq_nil_of_le (by omega)
      rw [this] at h; cases h
  refine ⟨hlt, ?_, ?_⟩
  · have := getD_drop t i 0
    rw [h] at this
    simpa using this.symm
  · have : t.drop (i + 1) = (t.drop i).drop 1 := by rw [List.drop_drop]
    rw [this, h]; rfl

theorem drop_append {t : Bytes} {i : Nat} {a r : Bytes} (h : t.drop i = a ++ r) :
    t.drop (i + a.length) = r := by
  have : t.drop (i + a.length) = (t.drop i).drop a.length := by rw [List.drop_drop]
  rw [this, h]; simp

theorem drop_le {t : Bytes} {i : Nat} {a r : Bytes} (h : t.drop i = a ++ r) (hi : i ≤ t.length) :
    i + a.length ≤ t.length := by
  have := congrArg List.length h
  simp at this
  omega

theorem drop_getD {t : Bytes} {i : Nat} {a r : Bytes} (h : t.drop i = a ++ r) {j : Nat} (hj : j < a.length) :
    t.getD (i + j) 0 = a.getD j 0 := by
  rw [← getD_drop, h]
  simp [List.getD_eq_getElem?_getD, List.getElem?_append_left hj]

theorem peek_drop {t : Bytes} {i : Nat} {c : UInt8} {r : Bytes} (h : t.drop i = c :: r) : peek t i = .ok c := by
  obtain ⟨h1, h2, _⟩ := drop_cons h
  rw [peek_lt h1, h2]


/-! ### `skipSpace` on the serialised text -/

theorem not_space_ne {c : UInt8} (h : isSpace c = false) : c ≠ 13 ∧ c ≠ 10 := by
  constructor <;> (intro e; subst e; revert h; decide)

/-- nothing to skip in front of a byte that is neither white space nor `<` -/
theorem skipLoop_noop {t : Bytes} {p : Pos} {c : UInt8} {r : Bytes} (f : Nat) (ce : Option Pos)
    (h : t.drop p.pos = c :: r) (hs : isSpace c = false) (h60 : c ≠ 60) :
    skipLoop t (f + 1) false p ce = .ok (p, ce) := by
  obtain ⟨h13, h10⟩ := not_space_ne hs
  simp only [skipLoop]
  rw [peek_drop h]; simp only [Res.ok_bind]
  rw [if_neg h13, if_neg h10, if_neg h60]
  simp [hs]

/-- `<` that does not open a comment ends the white space -/
theorem skipLoop_noop_lt {t : Bytes} {p : Pos} {d : UInt8} {r : Bytes} (f : Nat) (ce : Option Pos)
    (h : t.drop p.pos = 60 :: d :: r) (hd : d ≠ 33) :
    skipLoop t (f + 1) false p ce = .ok (p, ce) := by
  obtain ⟨hlt, _, hdrop⟩ := drop_cons h
  simp only [skipLoop]
  rw [peek_drop h]; simp only [Res.ok_bind]
  rw [if_neg (by decide), if_neg (by decide), if_pos trivial, cstr_le (by omega)]; simp only [Res.ok_bind]
  rw [hdrop]
  have : ¬ (d :: r).take 3 = [33, 45, 45] := by
    intro e
    have := congrArg List.head? e
    simp at this
    exact hd this
  rw [if_neg this]

theorem skipSpace_noop {t : Bytes} {p : Pos} {c : UInt8} {r : Bytes}
    (h : t.drop p.pos = c :: r) (hs : isSpace c = false) (h60 : c ≠ 60) :
    skipSpace t p = .ok (p, none) := skipLoop_noop _ none h hs h60

theorem skipSpace_noop_lt {t : Bytes} {p : Pos} {d : UInt8} {r : Bytes}
    (h : t.drop p.pos = 60 :: d :: r) (hd : d ≠ 33) :
    skipSpace t p = .ok (p, none) := skipLoop_noop_lt _ none h hd

/-- white space without any `<` is skipped up to the first other byte; `commentEnd` is untouched -/
theorem skipLoop_spaces (t : Bytes) (m : Nat) (hm : m < t.length)
    (hms : isSpace (t.getD m 0) = false) (hm60 : t.getD m 0 ≠ 60) :
    ∀ (f : Nat) (p : Pos) (ce : Option Pos), p.pos ≤ m → m - p.pos < f →
      (∀ j, p.pos ≤ j → j < m → isSpace (t.getD j 0) = true) →
      ∃ q, skipLoop t f false p ce = .ok (q, ce) ∧ q.pos = m := by
  intro f
  induction f with
  | zero => intro p ce _ h; omega
  | succ f ih =>
    intro p ce hp hf hsp
    by_cases hpm : p.pos = m
    · have hd : t.drop p.pos = t.getD m 0 :: t.drop (m + 1) := by
        rw [hpm]
        rw [List.drop_eq_getElem_cons hm]
        simp [List.getD_eq_getElem?_getD, List.getElem?_eq_getElem hm]
      exact ⟨p, skipLoop_noop f ce hd hms hm60, hpm⟩
    · have hlt : p.pos < m := by omega
      have hc := hsp p.pos (Nat.le_refl _) hlt
      simp only [skipLoop]
      rw [peek_lt (show p.pos < t.length by omega)]; simp only [Res.ok_bind]
      by_cases h13 : t.getD p.pos 0 = 13
      · rw [if_pos h13]
        obtain ⟨d, hd, hdnz, hdval⟩ := peek_le (show p.pos + 1 ≤ t.length by omega)
        rw [hd]; simp only [Res.ok_bind]
        by_cases hd10 : d = 10
        · have hlt2 : p.pos + 1 < t.length := hdnz (by rw [hd10]; decide)
          have hdv : t.getD (p.pos + 1) 0 = 10 := by rw [← hdval hlt2, hd10]
          have hne : m ≠ p.pos + 1 := by
            intro e; rw [e, hdv] at hms; revert hms; decide
          simp only [hd10, if_true]
          exact ih ⟨p.line + 1, p.pos + 2, p.pos + 2⟩ ce (by simp; omega) (by simp; omega)
            (fun j hj1 hj2 => hsp j (by simp at hj1; omega) hj2)
        · simp only [hd10, if_false]
          exact ih ⟨p.line + 1, p.pos + 1, p.pos + 1⟩ ce (by simp; omega) (by simp; omega)
            (fun j hj1 hj2 => hsp j (by simp at hj1; omega) hj2)
      rw [if_neg h13]
      by_cases h10 : t.getD p.pos 0 = 10
      · rw [if_pos h10]
        exact ih ⟨p.line + 1, p.pos + 1, p.pos + 1⟩ ce (by simp; omega) (by simp; omega)
          (fun j hj1 hj2 => hsp j (by simp at hj1; omega) hj2)
      rw [if_neg h10, if_neg (isSpace_ne_60 hc), if_pos hc]
      exact ih ⟨p.line, p.pos + 1, p.ls⟩ ce (by simp; omega) (by simp; omega)
        (fun j hj1 hj2 => hsp j (by simp at hj1; omega) hj2)


/-- white space is skipped up to a byte `m` at which the loop stops (general form) -/
theorem skipLoop_spaces_gen (t : Bytes) (m : Nat) (hm : m < t.length)
    (hms : isSpace (t.getD m 0) = false)
    (hbase : ∀ (f : Nat) (p : Pos) (ce : Option Pos), p.pos = m → skipLoop t (f + 1) false p ce = .ok (p, ce)) :
    ∀ (f : Nat) (p : Pos) (ce : Option Pos), p.pos ≤ m → m - p.pos < f →
      (∀ j, p.pos ≤ j → j < m → isSpace (t.getD j 0) = true) →
      ∃ q, skipLoop t f false p ce = .ok (q, ce) ∧ q.pos = m := by
  intro f
  induction f with
  | zero => intro p ce _ h; omega
  | succ f ih =>
    intro p ce hp hf hsp
    by_cases hpm : p.pos = m
    · exact ⟨p, hbase f p ce hpm, hpm⟩
    · have hlt : p.pos < m := by omega
      have hc := hsp p.pos (Nat.le_refl _) hlt
      simp only [skipLoop]
      rw [peek_lt (show p.pos < t.length by omega)]; simp only [Res.ok_bind]
      by_cases h13 : t.getD p.pos 0 = 13
      · rw [if_pos h13]
        obtain ⟨d, hd, hdnz, hdval⟩ := peek_le (show p.pos + 1 ≤ t.length by omega)
        rw [hd]; simp only [Res.ok_bind]
        by_cases hd10 : d = 10
        · have hlt2 : p.pos + 1 < t.length := hdnz (by rw [hd10]; decide)
          have hdv : t.getD (p.pos + 1) 0 = 10 := by rw [← hdval hlt2, hd10]
          have hne : m ≠ p.pos + 1 := by
            intro e; rw [e, hdv] at hms; revert hms; decide
          simp only [hd10, if_true]
          exact ih ⟨p.line + 1, p.pos + 2, p.pos + 2⟩ ce (by simp; omega) (by simp; omega)
            (fun j hj1 hj2 => hsp j (by simp at hj1; omega) hj2)
        · simp only [hd10, if_false]
          exact ih ⟨p.line + 1, p.pos + 1, p.pos + 1⟩ ce (by simp; omega) (by simp; omega)
            (fun j hj1 hj2 => hsp j (by simp at hj1; omega) hj2)
      rw [if_neg h13]
      by_cases h10 : t.getD p.pos 0 = 10
      · rw [if_pos h10]
        exact ih ⟨p.line + 1, p.pos + 1, p.pos + 1⟩ ce (by simp; omega) (by simp; omega)
          (fun j hj1 hj2 => hsp j (by simp at hj1; omega) hj2)
      rw [if_neg h10, if_neg (isSpace_ne_60 hc), if_pos hc]
      exact ih ⟨p.line, p.pos + 1, p.ls⟩ ce (by simp; omega) (by simp; omega)
        (fun j hj1 hj2 => hsp j (by simp at hj1; omega) hj2)



/-! ### tokens of the serialised text -/

theorem tokenAt_startTag {t : Bytes} {p : Pos} {d : UInt8} {r : Bytes}
    (h : t.drop p.pos = 60 :: d :: r) (hd : d ≠ 47) :
    tokenAt t p = .ok (⟨.startTagBegin, [], p⟩, ⟨p.line, p.pos + 1, p.ls⟩) := by
  obtain ⟨_, _, hdrop⟩ := drop_cons h
  unfold tokenAt
  rw [peek_drop h]
  simp [peek_drop hdrop, hd]

theorem tokenAt_endTag {t : Bytes} {p : Pos} {r : Bytes} (h : t.drop p.pos = 60 :: 47 :: r) :
    tokenAt t p = .ok (⟨.endTagBegin, [], p⟩, ⟨p.line, p.pos + 2, p.ls⟩) := by
  obtain ⟨_, _, hdrop⟩ := drop_cons h
  unfold tokenAt
  rw [peek_drop h]
  simp [peek_drop hdrop]

theorem tokenAt_tagEnd {t : Bytes} {p : Pos} {r : Bytes} (h : t.drop p.pos = 62 :: r) :
    tokenAt t p = .ok (⟨.tagEnd, [], p⟩, ⟨p.line, p.pos + 1, p.ls⟩) := by
  unfold tokenAt
  rw [peek_drop h]
  simp

theorem tokenAt_equals {t : Bytes} {p : Pos} {r : Bytes} (h : t.drop p.pos = 61 :: r) :
    tokenAt t p = .ok (⟨.equalsSign, [], p⟩, ⟨p.line, p.pos + 1, p.ls⟩) := by
  unfold tokenAt
  rw [peek_drop h]
  simp

theorem tokenAt_emptyTagEnd {t : Bytes} {p : Pos} {r : Bytes} (h : t.drop p.pos = 47 :: 62 :: r) :
    tokenAt t p = .ok (⟨.emptyTagEnd, [], p⟩, ⟨p.line, p.pos + 2, p.ls⟩) := by
  obtain ⟨_, _, hdrop⟩ := drop_cons h
  unfold tokenAt
  rw [peek_drop h]
  simp [peek_drop hdrop]

/-- a double-quoted string without quote and line break inside -/
theorem tokenAt_string {t : Bytes} {p : Pos} {body r : Bytes} (h : t.drop p.pos = 34 :: (body ++ 34 :: r))
    (hb : ∀ b ∈ body, b ≠ 34 ∧ b ≠ 13 ∧ b ≠ 10) :
    tokenAt t p = .ok (⟨.string, unescape body, p⟩, ⟨p.line, p.pos + 1 + body.length + 1, p.ls⟩) := by
  obtain ⟨hlt, _, hdrop⟩ := drop_cons h
  have hidx : idxOf (fun b => b == 34 || b == 13 || b == 10) (body ++ 34 :: r) = some body.length := by
    apply idxOf_append_hit
    · intro b hbm
      obtain ⟨h1, h2, h3⟩ := hb b hbm
      simp [h1, h2, h3]
    · decide
  have hq : t.drop (p.pos + 1 + body.length) = 34 :: r := drop_append hdrop
  unfold tokenAt
  rw [peek_drop h]; simp only [Res.ok_bind]
  have hc : cstr t (p.pos + 1) = .ok (body ++ 34 :: r) := by rw [cstr_le (by omega), hdrop]
  simp [hc, hidx, peek_drop hq]

theorem takeWhile_append_stop {p : UInt8 → Bool} {a : Bytes} {d : UInt8} {r : Bytes}
    (ha : ∀ b ∈ a, p b = true) (hd : p d = false) : (a ++ d :: r).takeWhile p = a := by
  induction a with
  | nil => simp [List.takeWhile, hd]
  | cons x a ih =>
    have hx : p x = true := ha x (by simp)
    simp [List.takeWhile, hx, ih (fun b hb => ha b (by simp [hb]))]

theorem wfName_facts {n : Bytes} (h : wfName n = true) :
    ∃ c r, n = c :: r ∧ (∀ b ∈ n, isNameByte b = true) ∧ c ≠ 60 ∧ c ≠ 34 ∧ c ≠ 39 ∧ c ≠ 33 ∧ c ≠ 63 := by
  cases n with
  | nil => simp [wfName] at h
  | cons c r =>
    simp only [wfName, Bool.and_eq_true, List.all_eq_true, bne_iff_ne, ne_eq] at h
    obtain ⟨⟨⟨⟨⟨h1, h2⟩, h3⟩, h4⟩, h5⟩, h6⟩ := h
    exact ⟨c, r, rfl, h1, h2, h3, h4, h5, h6⟩

theorem nameByte_facts {c : UInt8} (h : isNameByte c = true) :
    c ≠ 0 ∧ c ≠ 47 ∧ c ≠ 62 ∧ c ≠ 61 ∧ isSpace c = false := by
  simp only [isNameByte, Bool.and_eq_true, bne_iff_ne, ne_eq, Bool.not_eq_true'] at h
  obtain ⟨⟨⟨⟨h1, h2⟩, h3⟩, h4⟩, h5⟩ := h
  exact ⟨h1, h2, h3, h4, h5⟩

/-- a well-formed name in front of a delimiter is read back as one name token -/
theorem tokenAt_name {t : Bytes} {p : Pos} {nm : Bytes} {d : UInt8} {r : Bytes}
    (h : t.drop p.pos = nm ++ d :: r) (hn : wfName nm = true) (hd : isNameByte d = false) :
    tokenAt t p = .ok (⟨.name, nm, p⟩, ⟨p.line, p.pos + nm.length, p.ls⟩) := by
  obtain ⟨c, r', rfl, hall, c60, c34, c39, _, _⟩ := wfName_facts hn
  obtain ⟨c0, c47, c62, c61, _⟩ := nameByte_facts (hall c (by simp))
  have h' : t.drop p.pos = c :: (r' ++ d :: r) := by simpa using h
  obtain ⟨hlt, _, _⟩ := drop_cons h'
  unfold tokenAt
  rw [peek_drop h']; simp only [Res.ok_bind]
  rw [if_neg c60, if_neg c62, if_neg c0, if_neg c61, if_neg (by intro e; rcases e with e | e; exact c34 e; exact c39 e),
    if_neg c47]
  simp only [Res.ok_bind]
  rw [cstr_le (by omega), h]; simp only [Res.ok_bind]
  rw [takeWhile_append_stop hall hd]
  simp


/-! ### what escaping leaves in the text -/

theorem escapeByte_bytes (a : Bool) (c : UInt8) :
    ∀ b ∈ escapeByte a c, b ≠ 60 ∧ (a = true → b ≠ 34 ∧ b ≠ 13 ∧ b ≠ 10) := by
  by_cases h1 : c = 39
  · subst h1; cases a <;> decide
  by_cases h2 : c = 34
  · subst h2; cases a <;> decide
  by_cases h3 : c = 38
  · subst h3; cases a <;> decide
  by_cases h4 : c = 60
  · subst h4; cases a <;> decide
  by_cases h5 : c = 62
  · subst h5; cases a <;> decide
  by_cases h6 : c = 10
  · subst h6; cases a <;> decide
  by_cases h7 : c = 13
  · subst h7; cases a <;> decide
  rw [escapeByte_plain a c h1 h2 h3 h4 h5 h6 h7]
  intro b hb
  simp at hb
  subst hb
  exact ⟨h4, fun _ => ⟨h2, h7, h6⟩⟩

theorem escape_bytes (a : Bool) (s : Bytes) :
    ∀ b ∈ escape a s, b ≠ 60 ∧ (a = true → b ≠ 34 ∧ b ≠ 13 ∧ b ≠ 10) := by
  induction s with
  | nil => intro b hb; simp [escape] at hb
  | cons c r ih =>
    intro b hb
    simp only [escape, List.mem_append] at hb
    rcases hb with hb | hb
    · exact escapeByte_bytes a c b hb
    · exact ih b hb

theorem readToken_eq {t : Bytes} {p q q' : Pos} {ce : Option Pos} {tk : Token}
    (h1 : skipSpace t p = .ok (q, ce)) (h2 : tokenAt t q = .ok (tk, q')) :
    readToken t p = .ok (tk, q', ce) := by
  unfold readToken
  rw [h1]; simp only [Res.ok_bind]
  rw [h2]; simp only [Res.ok_bind]

theorem skipSpace_one_space {t : Bytes} {p : Pos} {c : UInt8} {r : Bytes}
    (h : t.drop p.pos = 32 :: c :: r) (hs : isSpace c = false) (h60 : c ≠ 60) :
    skipSpace t p = .ok (⟨p.line, p.pos + 1, p.ls⟩, none) := by
  obtain ⟨hlt, _, hdrop⟩ := drop_cons h
  unfold skipSpace
  have : ∀ f0, skipLoop t (f0 + 1 + 1) false p none = .ok (⟨p.line, p.pos + 1, p.ls⟩, none) := by
    intro f0
    have inner : skipLoop t (f0 + 1) false ⟨p.line, p.pos + 1, p.ls⟩ none = .ok (⟨p.line, p.pos + 1, p.ls⟩, none) :=
      skipLoop_noop (p := ⟨p.line, p.pos + 1, p.ls⟩) _ none hdrop hs h60
    generalize f0 + 1 = f1 at inner ⊢
    simp only [skipLoop]
    rw [peek_drop h]
    simp [isSpace, inner]
  exact this t.length

def attrFold (acc : List (Bytes × Bytes)) (as : List (Bytes × Bytes)) : List (Bytes × Bytes) :=
  as.foldl (fun a kv => attrSet a kv.1 kv.2) acc

/-- the attribute loop reads back what `toString` wrote for the attributes -/
theorem parseAttrs_toStr (t : Bytes) : ∀ (as acc : List (Bytes × Bytes)) (f : Nat) (p : Pos) (tail : Bytes) (flag : Bool),
    t.drop p.pos = attrsToStr as ++ tail →
    ((flag = false ∧ ∃ r, tail = 62 :: r) ∨ (flag = true ∧ ∃ r, tail = 47 :: 62 :: r)) →
    (∀ kv ∈ as, wfName kv.1 = true) → as.length < f →
    parseAttrs t f acc p = .ok (attrFold acc as, flag,
      ⟨p.line, p.pos + (attrsToStr as).length + (if flag then 2 else 1), p.ls⟩) := by
  intro as
  induction as with
  | nil =>
    intro acc f p tail flag hd htail _ hf
    obtain ⟨f, rfl⟩ : ∃ g, f = g + 1 := ⟨f - 1, by simp at hf; omega⟩
    simp only [attrsToStr, List.nil_append] at hd
    simp only [parseAttrs]
    rcases htail with ⟨rfl, r, rfl⟩ | ⟨rfl, r, rfl⟩
    · rw [readToken_eq (skipSpace_noop hd (by decide) (by decide)) (tokenAt_tagEnd hd)]
      simp [attrFold, attrsToStr]
    · rw [readToken_eq (skipSpace_noop hd (by decide) (by decide)) (tokenAt_emptyTagEnd hd)]
      simp [attrFold, attrsToStr]
  | cons kv as ih =>
    intro acc f p tail flag hd htail hwf hf
    obtain ⟨k, v⟩ := kv
    obtain ⟨f, rfl⟩ : ∃ g, f = g + 1 := ⟨f - 1, by simp at hf; omega⟩
    have hk : wfName k = true := hwf (k, v) (by simp)
    obtain ⟨c, kr, hkc, hall, c60, _, _, _, _⟩ := wfName_facts hk
    obtain ⟨_, _, _, _, cs⟩ := nameByte_facts (hall c (by rw [hkc]; simp))
    -- layout of the text at the cursor
    have hd1 : t.drop p.pos = 32 :: (k ++ 61 :: (34 :: (escape true v ++ 34 :: (attrsToStr as ++ tail)))) := by
      rw [hd]; simp [attrsToStr]
    obtain ⟨_, _, hd2⟩ := drop_cons hd1
    have hd1' : t.drop p.pos = 32 :: c :: (kr ++ 61 :: (34 :: (escape true v ++ 34 :: (attrsToStr as ++ tail)))) := by
      rw [hd1, hkc]; simp
    have hd2' : t.drop (p.pos + 1) = c :: (kr ++ 61 :: (34 :: (escape true v ++ 34 :: (attrsToStr as ++ tail)))) := by
      rw [hd2, hkc]; simp
    have hd3 : t.drop (p.pos + 1 + k.length) = 61 :: (34 :: (escape true v ++ 34 :: (attrsToStr as ++ tail))) :=
      drop_append hd2
    obtain ⟨_, _, hd4⟩ := drop_cons hd3
    have hd5 : t.drop (p.pos + 1 + k.length + 1 + 1 + (escape true v).length) = 34 :: (attrsToStr as ++ tail) :=
      drop_append (drop_cons hd4).2.2
    obtain ⟨_, _, hd6⟩ := drop_cons hd5
    have r1 : readToken t p = .ok (⟨.name, k, ⟨p.line, p.pos + 1, p.ls⟩⟩, ⟨p.line, p.pos + 1 + k.length, p.ls⟩, none) :=
      readToken_eq (skipSpace_one_space hd1' cs c60)
        (tokenAt_name (p := ⟨p.line, p.pos + 1, p.ls⟩) hd2 hk (by decide))
    have r2 : readToken t ⟨p.line, p.pos + 1 + k.length, p.ls⟩ =
        .ok (⟨.equalsSign, [], ⟨p.line, p.pos + 1 + k.length, p.ls⟩⟩, ⟨p.line, p.pos + 1 + k.length + 1, p.ls⟩, none) :=
      readToken_eq (skipSpace_noop (p := ⟨p.line, p.pos + 1 + k.length, p.ls⟩) hd3 (by decide) (by decide))
        (tokenAt_equals (p := ⟨p.line, p.pos + 1 + k.length, p.ls⟩) hd3)
    have r3 : readToken t ⟨p.line, p.pos + 1 + k.length + 1, p.ls⟩ =
        .ok (⟨.string, unescape (escape true v), ⟨p.line, p.pos + 1 + k.length + 1, p.ls⟩⟩,
          ⟨p.line, p.pos + 1 + k.length + 1 + 1 + (escape true v).length + 1, p.ls⟩, none) :=
      readToken_eq (skipSpace_noop (p := ⟨p.line, p.pos + 1 + k.length + 1, p.ls⟩) hd4 (by decide) (by decide))
        (tokenAt_string (p := ⟨p.line, p.pos + 1 + k.length + 1, p.ls⟩) hd4
          (fun b hb => (escape_bytes true v b hb).2 rfl))
    have hrec := ih (attrSet acc k v) f ⟨p.line, p.pos + 1 + k.length + 1 + 1 + (escape true v).length + 1, p.ls⟩ tail flag
      hd6 htail (fun kv hkv => hwf kv (by simp [hkv])) (by simp at hf; omega)
    simp only [parseAttrs]
    rw [r1]; simp only [Res.ok_bind]
    rw [if_neg (by decide), if_neg (by decide), if_pos trivial, r2]; simp only [Res.ok_bind]
    rw [if_neg (by decide), r3]; simp only [Res.ok_bind]
    rw [if_neg (by decide), unescape_escape true v, hrec]
    simp [attrFold, attrsToStr]
    omega


/-! ### attributes with pairwise different keys are stored in order -/

theorem attrSet_fresh : ∀ (acc : List (Bytes × Bytes)) (k v : Bytes), (∀ kv ∈ acc, kv.1 ≠ k) →
    attrSet acc k v = acc ++ [(k, v)] := by
  intro acc
  induction acc with
  | nil => intro k v _; rfl
  | cons x acc ih =>
    intro k v h
    obtain ⟨k', v'⟩ := x
    have hne : k' ≠ k := h (k', v') (by simp)
    simp only [attrSet, if_neg hne, List.cons_append]
    rw [ih k v (fun kv hkv => h kv (by simp [hkv]))]

theorem attrFold_wf : ∀ (as acc : List (Bytes × Bytes)), attrsWf as = true →
    (∀ kv ∈ acc, ∀ kv' ∈ as, kv.1 ≠ kv'.1) → attrFold acc as = acc ++ as := by
  intro as
  induction as with
  | nil => intro acc _ _; simp [attrFold]
  | cons x as ih =>
    intro acc hwf hdis
    obtain ⟨k, v⟩ := x
    simp only [attrsWf, Bool.and_eq_true, Bool.not_eq_true', List.any_eq_false, beq_iff_eq] at hwf
    obtain ⟨⟨_, hfresh⟩, hrest⟩ := hwf
    have h1 : attrSet acc k v = acc ++ [(k, v)] :=
      attrSet_fresh acc k v (fun kv hkv => hdis kv hkv (k, v) (by simp))
    show attrFold (attrSet acc k v) as = _
    rw [h1, ih (acc ++ [(k, v)]) hrest ?_]
    · simp
    · intro kv hkv kv' hkv'
      simp only [List.mem_append, List.mem_singleton] at hkv
      rcases hkv with hkv | rfl
      · exact hdis kv hkv kv' (by simp [hkv'])
      · exact fun e => hfresh kv' hkv' e.symm

theorem attrsWf_names : ∀ (as : List (Bytes × Bytes)), attrsWf as = true → ∀ kv ∈ as, wfName kv.1 = true := by
  intro as
  induction as with
  | nil => intro _ kv h; simp at h
  | cons x as ih =>
    intro hwf kv hkv
    obtain ⟨k, v⟩ := x
    simp only [attrsWf, Bool.and_eq_true] at hwf
    simp only [List.mem_cons] at hkv
    rcases hkv with rfl | hkv
    · exact hwf.1.1
    · exact ih hwf.2 kv hkv

/-! ### the text loop finds the next `<` -/

theorem textLoop_ok (t : Bytes) (m : Nat) (hm : m < t.length) (hm60 : t.getD m 0 = 60) :
    ∀ (f : Nat) (p : Pos), p.pos ≤ m → t.length - p.pos < f → ∃ q, textLoop t f p = .ok q := by
  intro f
  induction f with
  | zero => intro p _ h; omega
  | succ f ih =>
    intro p hp hf
    simp only [textLoop]
    rw [cstr_le (by omega)]; simp only [Res.ok_bind]
    cases hidx : idxOf isTextScanStop (t.drop p.pos) with
    | none =>
      have := idxOf_none hidx (m - p.pos) (by simp; omega)
      rw [getD_drop, show p.pos + (m - p.pos) = m by omega, hm60] at this
      exact absurd this (by decide)
    | some k =>
      simp only
      obtain ⟨hk, hstop, hbefore⟩ := idxOf_some hidx
      simp at hk
      rw [getD_drop] at hstop
      have hkm : p.pos + k ≤ m := by
        by_cases hlt : m < p.pos + k
        · have := hbefore (m - p.pos) (by omega)
          rw [getD_drop, show p.pos + (m - p.pos) = m by omega, hm60] at this
          exact absurd this (by decide)
        · omega
      have hlt : p.pos + k < t.length := by omega
      rw [peek_lt hlt]; simp only [Res.ok_bind]
      by_cases h13 : t.getD (p.pos + k) 0 = 13
      · obtain ⟨d, hd, hdnz, hdval⟩ := peek_le (show p.pos + k + 1 ≤ t.length by omega)
        rw [if_pos h13, hd]; simp only [Res.ok_bind]
        have hm1 : m ≠ p.pos + k := by intro e; rw [e, h13] at hm60; revert hm60; decide
        by_cases hd10 : d = 10
        · have hlt2 : p.pos + k + 1 < t.length := hdnz (by rw [hd10]; decide)
          have hdv : t.getD (p.pos + k + 1) 0 = 10 := by rw [← hdval hlt2, hd10]
          have hm2 : m ≠ p.pos + k + 1 := by intro e; rw [e, hdv] at hm60; revert hm60; decide
          simp only [hd10, if_true]
          exact ih ⟨p.line + 1, p.pos + k + 2, p.pos + k + 2⟩ (by simp; omega) (by simp; omega)
        · simp only [hd10, if_false]
          exact ih ⟨p.line + 1, p.pos + k + 1, p.pos + k + 1⟩ (by simp; omega) (by simp; omega)
      rw [if_neg h13]
      by_cases h10 : t.getD (p.pos + k) 0 = 10
      · rw [if_pos h10]
        have hm1 : m ≠ p.pos + k := by intro e; rw [e, h10] at hm60; revert hm60; decide
        exact ih ⟨p.line + 1, p.pos + k + 1, p.pos + k + 1⟩ (by simp; omega) (by simp; omega)
      rw [if_neg h10]
      exact ⟨_, rfl⟩

/-- `parseText` in front of `body ++ '<' :: …` where `body` has no `<`: the text is `unescape body` -/
theorem parseText_body {t : Bytes} {p : Pos} {body r : Bytes} (h : t.drop p.pos = body ++ 60 :: r)
    (hb : ∀ b ∈ body, b ≠ 60) (hp : p.pos ≤ t.length) :
    ∃ q, parseText t p = .ok (unescape body, q) ∧ q.pos = p.pos + body.length := by
  have hlen := drop_le h hp
  have hq0 := drop_append h
  obtain ⟨hmlt, hm60, _⟩ := drop_cons hq0
  obtain ⟨q, hq⟩ := textLoop_ok t (p.pos + body.length) hmlt hm60 (t.length + 2) p (by omega) (by omega)
  have hsafe := textLoop_safe t (t.length + 2) p hp (by omega)
  rw [hq] at hsafe
  obtain ⟨q1, q2, q3, q4⟩ := hsafe
  have hqpos : q.pos = p.pos + body.length := by
    by_cases hlt : q.pos < p.pos + body.length
    · have := drop_getD h (show q.pos - p.pos < body.length by omega)
      rw [show p.pos + (q.pos - p.pos) = q.pos by omega, q3] at this
      have hmem : body.getD (q.pos - p.pos) 0 ∈ body := by
        rw [List.getD_eq_getElem?_getD, List.getElem?_eq_getElem (by omega)]
        simp
      exact absurd this.symm (hb _ hmem)
    · by_cases hgt : p.pos + body.length < q.pos
      · exact absurd hm60 (q4 _ (by omega) hgt)
      · omega
  refine ⟨q, ?_, hqpos⟩
  unfold parseText
  rw [hq]; simp only [Res.ok_bind]
  have : slice t p.pos q.pos = body := by
    unfold slice
    rw [h, hqpos]
    simp
  rw [this]


/-! ### non-blank text -/

theorem escapeByte_nonspace (a : Bool) (c : UInt8) (hc : isSpace c = false) :
    (escapeByte a c).any (fun b => !isSpace b) = true := by
  by_cases h1 : c = 39
  · subst h1; cases a <;> decide
  by_cases h2 : c = 34
  · subst h2; cases a <;> decide
  by_cases h3 : c = 38
  · subst h3; cases a <;> decide
  by_cases h4 : c = 60
  · subst h4; cases a <;> decide
  by_cases h5 : c = 62
  · subst h5; cases a <;> decide
  by_cases h6 : c = 10
  · subst h6; exact absurd hc (by decide)
  by_cases h7 : c = 13
  · subst h7; exact absurd hc (by decide)
  rw [escapeByte_plain a c h1 h2 h3 h4 h5 h6 h7]
  simp [hc]

theorem escape_nonBlank (a : Bool) : ∀ (s : Bytes), nonBlank s = true → nonBlank (escape a s) = true := by
  intro s
  induction s with
  | nil => intro h; simp [nonBlank] at h
  | cons c r ih =>
    intro h
    simp only [nonBlank, escape, List.any_append, List.any_cons, Bool.or_eq_true] at h ⊢
    by_cases hc : isSpace c = false
    · left; exact escapeByte_nonspace a c hc
    · right
      have : isSpace c = true := by simpa using hc
      rcases h with h | h
      · simp [this] at h
      · exact ih h

/-- a non-blank byte string: some white space, then a byte that is none -/
theorem nonBlank_first : ∀ (l : Bytes), nonBlank l = true →
    ∃ m, m < l.length ∧ isSpace (l.getD m 0) = false ∧ ∀ j, j < m → isSpace (l.getD j 0) = true := by
  intro l
  induction l with
  | nil => intro h; simp [nonBlank] at h
  | cons c r ih =>
    intro h
    by_cases hc : isSpace c = false
    · exact ⟨0, by simp, by simpa using hc, fun j hj => by omega⟩
    · have hc' : isSpace c = true := by simpa using hc
      have hr : nonBlank r = true := by
        simp only [nonBlank, List.any_cons, Bool.or_eq_true] at h
        rcases h with h | h
        · simp [hc'] at h
        · exact h
      obtain ⟨m, hm1, hm2, hm3⟩ := ih hr
      refine ⟨m + 1, by simp; omega, by simpa using hm2, ?_⟩
      intro j hj
      cases j with
      | zero => simpa using hc'
      | succ j => simpa using hm3 j (by omega)

theorem getD_mem {l : Bytes} {j : Nat} (hj : j < l.length) : l.getD j 0 ∈ l := by
  rw [List.getD_eq_getElem?_getD, List.getElem?_eq_getElem hj]
  simp

/-- a token that starts a tag starts with `<` -/
theorem tokenAt_tag_byte {t : Bytes} {p : Pos} {tp : Token × Pos} (hp : p.pos ≤ t.length)
    (h : tokenAt t p = .ok tp) (htag : isTag tp.1.type) : t.getD p.pos 0 = 60 := by
  obtain ⟨c, hc, hnz, hval⟩ := peek_le hp
  by_cases h60 : c = 60
  · have hlt : p.pos < t.length := hnz (by rw [h60]; decide)
    rw [← hval hlt, h60]
  · exfalso
    unfold tokenAt at h
    rw [hc] at h
    simp only [Res.ok_bind, if_neg h60] at h
    unfold isTag at htag
    by_cases h62 : c = 62
    · rw [if_pos h62] at h; cases h; simp at htag
    rw [if_neg h62] at h
    by_cases h0 : c = 0
    · rw [if_pos h0] at h; cases h
    rw [if_neg h0] at h
    by_cases h61 : c = 61
    · rw [if_pos h61] at h; cases h; simp at htag
    rw [if_neg h61] at h
    by_cases hq : c = 34 ∨ c = 39
    · rw [if_pos hq] at h
      obtain ⟨s, _, h⟩ := bind_eq_ok h
      cases hidx : idxOf (fun b => b == c || b == 13 || b == 10) s with
      | none => rw [hidx] at h; cases h
      | some k =>
        rw [hidx] at h
        obtain ⟨e, _, h⟩ := bind_eq_ok h
        by_cases hec : e ≠ c
        · rw [if_pos hec] at h; cases h
        · rw [if_neg hec] at h; cases h; simp at htag
    rw [if_neg hq] at h
    obtain ⟨empt, _, h⟩ := bind_eq_ok h
    by_cases he : empt = true
    · rw [if_pos he] at h; cases h; simp at htag
    rw [if_neg he] at h
    obtain ⟨s, _, h⟩ := bind_eq_ok h
    by_cases hn : (s.takeWhile isNameByte).isEmpty = true
    · rw [if_pos hn] at h; cases h
    · rw [if_neg hn] at h; cases h; simp at htag

end Nstd.Xml
