import Nstd.Xml.LemmasHeap6
/-
  The write-through operations: mutable `toElement()`, the walk down a path, `operator=(const String&)` at any
  location, the edits, and `Op.mut` as a whole — invariant kept, every other variable keeps its value.
-/
namespace Nstd.Xml.Heap

open Nstd.Xml (Bytes attrSet)

theorem elemAt_some {s : St} {b r : Nat} {e : HElem} (h : elemAt s b = some (r, e)) : s.heap b = some ⟨r, .elem e⟩ := by
  unfold elemAt at h
  split at h
  · rename_i r' e' hb
    cases h; exact hb
  · cases h

theorem locHolds_live {s : St} (hi : Inv s) {loc : Loc} {c : Nat} (hl : LocHolds s loc (some c)) : 1 ≤ refOf s.heap c := by
  cases loc with
  | var v => exact var_live hi hl.1 hl.2
  | kid p k =>
    obtain ⟨r, e, c', hpn, hp, hk, hc⟩ := hl
    cases hc
    exact kid_live hi hpn (by rw [hp]; exact mem_of_get hk)

/-- the mutable `toElement()` -/
theorem accessElem_ok (s : St) (hi : Inv s) (v : Nat) (P : Nat → Prop) (hex : Excl s v P)
    (loc : Loc) (cur : Option Nat) (hl : LocHolds s loc cur) (ho : LocOwned v P loc) :
    Inv (accessElem s loc cur).1 ∧ Keeps s (accessElem s loc cur).1 v ∧
      ∃ P', Excl (accessElem s loc cur).1 v P' ∧ (∀ x, P x → P' x) ∧ P' (accessElem s loc cur).2 := by
  cases cur with
  | none =>
    have h := redirect_ok s hi v P hex loc none hl ho (.elem emptyElem) (by intro c hc; simp [kidsOfPay, emptyElem] at hc) 0
    exact ⟨h.1, h.2.1, _, h.2.2, fun x hx => Or.inl hx, Or.inr (Nat.le_refl _)⟩
  | some c =>
    have hlive := locHolds_live hi hl
    cases hc : s.heap c with
    | none => simp [refOf, hc] at hlive
    | some blk =>
      obtain ⟨r, pay⟩ := blk
      cases pay with
      | text t0 =>
        have h := redirect_ok s hi v P hex loc (some c) hl ho (.elem emptyElem)
          (by intro c hc; simp [kidsOfPay, emptyElem] at hc)
          (relFuel (setLoc (alloc s (.elem emptyElem)).1 loc s.next) 1)
        have e : accessElem s loc (some c) =
            ({ (setLoc (alloc s (.elem emptyElem)).1 loc s.next) with
                heap := release (setLoc (alloc s (.elem emptyElem)).1 loc s.next).heap
                  (relFuel (setLoc (alloc s (.elem emptyElem)).1 loc s.next) 1) [c] }, s.next) := by
          simp only [accessElem, hc]; rfl
        rw [e]
        exact ⟨h.1, h.2.1, _, h.2.2, fun x hx => Or.inl hx, Or.inr (Nat.le_refl _)⟩
      | elem e0 =>
        by_cases hr : r > 1
        · have hkl : ∀ k ∈ kidsOfPay (.elem e0), s.heap k ≠ none := by
            intro k hk hn
            have := kid_live hi (some_lt hi hc) (show k ∈ kidsOf (s.heap c) by rw [hc]; exact hk)
            simp [refOf, hn] at this
          have h := redirect_ok s hi v P hex loc (some c) hl ho (.elem e0) hkl
            (relFuel (setLoc (alloc { s with heap := incRefs s.heap e0.kids } (.elem e0)).1 loc s.next) 1)
          have e : accessElem s loc (some c) =
              ({ (setLoc (alloc { s with heap := incRefs s.heap e0.kids } (.elem e0)).1 loc s.next) with
                  heap := release (setLoc (alloc { s with heap := incRefs s.heap e0.kids } (.elem e0)).1 loc s.next).heap
                    (relFuel (setLoc (alloc { s with heap := incRefs s.heap e0.kids } (.elem e0)).1 loc s.next) 1) [c] }, s.next) := by
            simp only [accessElem, hc, if_pos hr]; rfl
          rw [e]
          exact ⟨h.1, h.2.1, _, h.2.2, fun x hx => Or.inl hx, Or.inr (Nat.le_refl _)⟩
        · have e : accessElem s loc (some c) = (s, c) := by
            simp only [accessElem, hc, if_neg hr]
          rw [e]
          have hex' := excl_extend s hi v P hex loc c hl ho (by simp [refOf, hc]; omega)
          exact ⟨hi, keeps_refl s v, _, hex', fun x hx => Or.inl hx, Or.inr rfl⟩

/-- the walk down a path -/
theorem walk_ok (v : Nat) : ∀ (path : List Nat) (s : St) (b : Nat) (s1 : St) (b1 : Nat) (P : Nat → Prop),
    Inv s → Excl s v P → P b → walk s b path = some (s1, b1) →
    Inv s1 ∧ Keeps s s1 v ∧ ∃ P1, Excl s1 v P1 ∧ P1 b1 := by
  intro path
  induction path with
  | nil =>
    intro s b s1 b1 P hi hex hb hw
    simp only [walk] at hw
    cases hw
    exact ⟨hi, keeps_refl _ v, P, hex, hb⟩
  | cons k path ih =>
    intro s b s1 b1 P hi hex hb hw
    simp only [walk] at hw
    cases hel : elemAt s b with
    | none => rw [hel] at hw; cases hw
    | some re =>
      obtain ⟨r, e⟩ := re
      rw [hel] at hw
      simp only at hw
      cases hk : e.kids[k]? with
      | none => rw [hk] at hw; cases hw
      | some c =>
        rw [hk] at hw
        simp only at hw
        have hbb := elemAt_some hel
        have hl : LocHolds s (.kid b k) (some c) := ⟨r, e, c, some_lt hi hbb, hbb, hk, rfl⟩
        obtain ⟨hi1, hk1, P', hex1, hsub, hPb⟩ := accessElem_ok s hi v P hex (.kid b k) (some c) hl hb
        obtain ⟨hi2, hk2, P2, hex2, hP2⟩ := ih _ _ s1 b1 P' hi1 hex1 hPb hw
        exact ⟨hi2, keeps_trans hk1 hk2, P2, hex2, hP2⟩

/-- replacing the payload of a block by one with the same children and the same reference count -/
theorem setpay_inv (s : St) (hi : Inv s) (c r : Nat) (pay pay' : Payload) (hc : s.heap c = some ⟨r, pay⟩)
    (hk : kidsOfPay pay' = kidsOfPay pay) : Inv { s with heap := upd s.heap c (some ⟨r, pay'⟩) } := by
  refine ⟨?_, ?_⟩
  · intro x
    have := hi.cnt_le x
    unfold cnt at *
    show varCnt s.vars s.nv x + heapCnt (upd s.heap c _) s.next x ≤ refOf (upd s.heap c _) x
    rw [heapCnt_upd_same s.heap s.next c _ x (by rw [hc]; exact hk)]
    by_cases hx : x = c
    · subst hx; rw [refOf_upd_some]; simpa [refOf, hc] using this
    · rw [refOf_upd_ne _ _ _ _ hx]; exact this
  · intro b hb
    show upd s.heap c _ b = none
    have hb' : s.next ≤ b := hb
    have := some_lt hi hc
    rw [upd_ne _ _ _ _ (by omega)]; exact hi.fresh b hb'

theorem refOf_upd_sameref (h : Heap) (b r x : Nat) (pay pay' : Payload) (hb : h b = some ⟨r, pay⟩) :
    refOf (upd h b (some ⟨r, pay'⟩)) x = refOf h x := by
  by_cases hx : x = b
  · subst hx; rw [refOf_upd_some]; simp [refOf, hb]
  · rw [refOf_upd_ne _ _ _ _ hx]

/-- `operator=(const String&)` on the Variant at any location of `v`'s region -/
theorem assignStr_ok (s : St) (hi : Inv s) (v : Nat) (P : Nat → Prop) (hex : Excl s v P)
    (loc : Loc) (cur : Option Nat) (hl : LocHolds s loc cur) (ho : LocOwned v P loc) (t : Bytes) :
    Inv (assignStr s loc cur t) ∧ Keeps s (assignStr s loc cur t) v := by
  cases cur with
  | none =>
    have h := redirect_ok s hi v P hex loc none hl ho (.text t) (by intro c hc; simp [kidsOfPay] at hc) 0
    exact ⟨h.1, h.2.1⟩
  | some c =>
    have hlive := locHolds_live hi hl
    cases hc : s.heap c with
    | none => simp [refOf, hc] at hlive
    | some blk =>
      obtain ⟨r, pay⟩ := blk
      have hfresh : ∀ (hne : assignStr s loc (some c) t =
          { (setLoc (alloc s (.text t)).1 loc s.next) with
              heap := release (setLoc (alloc s (.text t)).1 loc s.next).heap
                (relFuel (setLoc (alloc s (.text t)).1 loc s.next) 1) [c] }),
          Inv (assignStr s loc (some c) t) ∧ Keeps s (assignStr s loc (some c) t) v := by
        intro hne
        have h := redirect_ok s hi v P hex loc (some c) hl ho (.text t) (by intro c hc; simp [kidsOfPay] at hc)
          (relFuel (setLoc (alloc s (.text t)).1 loc s.next) 1)
        rw [hne]
        exact ⟨h.1, h.2.1⟩
      cases pay with
      | text t0 =>
        by_cases hr : r > 1
        · apply hfresh
          simp only [assignStr, hc, if_pos hr]; rfl
        · have e : assignStr s loc (some c) t = { s with heap := upd s.heap c (some ⟨r, .text t⟩) } := by
            simp only [assignStr, hc, if_neg hr]
          rw [e]
          have hex' := excl_extend s hi v P hex loc c hl ho (by simp [refOf, hc]; omega)
          refine ⟨setpay_inv s hi c r _ _ hc rfl, ?_⟩
          apply keeps_of_frame s { s with heap := upd s.heap c (some ⟨r, .text t⟩) } hi v _ hex' rfl (fun _ _ => rfl)
          intro x hx _
          exact payOf_upd_ne _ _ _ _ (fun h => hx (Or.inr h))
      | elem e0 =>
        apply hfresh
        simp only [assignStr, hc]; rfl

end Nstd.Xml.Heap
