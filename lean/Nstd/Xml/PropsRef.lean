import Nstd.Xml.LemmasRef
/-
  Property C16 — numeric character references at their boundaries, attribute order and duplicate attributes
  (extension round 7).  About the model functions `unescape` (`unescapeString`), `utf8` (`Unicode::append`), `attrSet`
  (`HashMap<String,String>::append` as used by the attribute loop); these stay HAND-translated and are tied by the
  correspondence ops `unesc` / `parse` (boundary references are in the generator: NUM_ODD / NUM_CLEAN of tools/areas/xml.py).
-/
set_option linter.unusedSimpArgs false
namespace Nstd.Xml

/-- Numeric character references: `&#` + a plain decimal digit string + `;` (the whole value of an attribute or a text)
    is replaced by the UTF-8 encoding of its value — for EVERY digit string of any length: leading zeros, values up to and
    beyond 2^32 and 2^64 (`refValue`: glibc `%u` saturates at 2^64-1 and the result is stored into 32 bits). -/
theorem unescape_numeric_ref (d : UInt8) (ds : Bytes) (hd : isDigit d = true) (h : ∀ b ∈ ds, isDigit b = true) :
    unescape (38 :: 35 :: (d :: ds ++ [59])) = utf8 (refValue (d :: ds)) := by
  have hsemi : ∀ b ∈ d :: ds, (b == 59) = false := by
    intro b hb; simp at hb
    rcases hb with rfl | hb
    · exact (digit_facts b hd).2.2.2
    · exact (digit_facts b (h b hb)).2.2.2
  have e : (38 :: 35 :: (d :: ds ++ [59]) : Bytes) = 38 :: 35 :: ((d :: ds) ++ 59 :: []) := by simp
  unfold unescape
  rw [e]
  have hl : (38 :: 35 :: ((d :: ds) ++ 59 :: []) : Bytes).length = (ds.length + 3) + 1 := by simp
  rw [hl, unescapeF_numeric _ _ _ [] hsemi (scanU_digits d ds hd h)]
  cases (ds.length + 3) <;> simp [unescapeF]

/-- the UTF-8 encoder at its boundaries: 1 byte below 0x80, 2 below 0x800, 3 below 0x10000, 4 up to 0x10FFFF, and NOTHING
    from 0x110000 on (`Unicode::append` has no case for it) -/
theorem utf8_length (v : Nat) : (utf8 v).length =
    if v < 0x80 then 1 else if v < 0x800 then 2 else if v < 0x10000 then 3 else if v < 0x110000 then 4 else 0 := by
  unfold utf8
  repeat' split
  all_goals simp

/-- `&#0;` yields one NUL byte, `&#127;` / `&#128;` / `&#2047;` / `&#2048;` / `&#65535;` / `&#65536;` / `&#1114111;` the 1 / 2 / 2 / 3 / 3 / 4 / 4
    byte encodings, `&#1114112;` (0x110000) nothing, `&#4294967296;` (2^32) wraps to NUL, `&#18446744073709551616;` (2^64)
    saturates to 2^32-1 and yields nothing -/
example : unescape [38, 35, 48, 59] = [0] := by decide
example : unescape [38, 35, 49, 50, 55, 59] = [127] := by decide
example : unescape [38, 35, 49, 50, 56, 59] = [194, 128] := by decide
example : unescape [38, 35, 50, 48, 52, 55, 59] = [223, 191] := by decide
example : unescape [38, 35, 50, 48, 52, 56, 59] = [224, 160, 128] := by decide
example : unescape [38, 35, 54, 53, 53, 51, 53, 59] = [239, 191, 191] := by decide
example : unescape [38, 35, 54, 53, 53, 51, 54, 59] = [240, 144, 128, 128] := by decide
example : unescape [38, 35, 49, 49, 49, 52, 49, 49, 49, 59] = [244, 143, 191, 191] := by decide
example : unescape [38, 35, 49, 49, 49, 52, 49, 49, 50, 59] = [] := by decide
example : unescape [38, 35, 52, 50, 57, 52, 57, 54, 55, 50, 57, 54, 59] = [0] := by decide
example : unescape [38, 35, 49, 56, 52, 52, 54, 55, 52, 52, 48, 55, 51, 55, 48, 57, 53, 53, 49, 54, 49, 54, 59] = [] := by decide
/-- hexadecimal references are NOT decoded (`%u` reads no digit): `&#x10FFFF;` and `&#x110000;` stay as they are -/
example : unescape [38, 35, 120, 49, 48, 70, 70, 70, 70, 59] = [38, 35, 120, 49, 48, 70, 70, 70, 70, 59] := by decide
example : unescape [38, 35, 120, 49, 49, 48, 48, 48, 48, 59] = [38, 35, 120, 49, 49, 48, 48, 48, 48, 59] := by decide

/-- Attribute order and duplicate attributes (`element.attributes.append(name, value)` of an insertion-ordered HashMap,
    `attrSet`): the key order is the order of FIRST occurrence — a repeated name adds no entry … -/
theorem attrSet_keys (as : List (Bytes × Bytes)) (k v : Bytes) :
    (attrSet as k v).map Prod.fst = if k ∈ as.map Prod.fst then as.map Prod.fst else as.map Prod.fst ++ [k] := by
  induction as with
  | nil => simp [attrSet]
  | cons a r ih =>
    obtain ⟨k', v'⟩ := a
    by_cases h : k' = k
    · subst h; simp [attrSet]
    · have h' : ¬ k = k' := fun e => h e.symm
      simp only [attrSet, h, if_false, List.map_cons, ih, List.mem_cons, h', false_or]
      split <;> simp

/-- … the LAST value given for a name wins … -/
theorem attrSet_lookup_self (as : List (Bytes × Bytes)) (k v : Bytes) : (attrSet as k v).lookup k = some v := by
  induction as with
  | nil => simp [attrSet, List.lookup]
  | cons a r ih =>
    obtain ⟨k', v'⟩ := a
    by_cases h : k' = k
    · subst h; simp [attrSet, List.lookup]
    · have h' : (k == k') = false := by simpa using fun e => h e.symm
      simp [attrSet, h, List.lookup, h', ih]

/-- … and the other names keep their values. -/
theorem attrSet_lookup_other (as : List (Bytes × Bytes)) (k v k2 : Bytes) (hne : k2 ≠ k) :
    (attrSet as k v).lookup k2 = as.lookup k2 := by
  induction as with
  | nil => have : (k2 == k) = false := by simpa using hne
           simp [attrSet, List.lookup, this]
  | cons a r ih =>
    obtain ⟨k', v'⟩ := a
    by_cases h : k' = k
    · subst h
      have : (k2 == k') = false := by simpa using hne
      simp [attrSet, List.lookup, this]
    · simp only [attrSet, h, if_false, List.lookup]
      cases k2 == k' <;> simp [ih]

/-- whole parser: `<a k="1" j="x" k="2"/>` has the attributes k=2, j=x in that order -/
example : parse [60, 97, 32, 107, 61, 34, 49, 34, 32, 106, 61, 34, 120, 34, 32, 107, 61, 34, 50, 34, 47, 62] =
    .ok (.mk [97] 1 1 [([107], [50]), ([106], [120])] .nil) := by rfl

end Nstd.Xml
