import Nstd.Xml.LemmasHeap3
/-
  `vars[v] = String` (`Variant::operator=(const String&)` on a variable): a fresh text block unless the variable
  holds a text whose count is one, which is then written IN PLACE — no other variable can reach that block.
-/
namespace Nstd.Xml.Heap

open Nstd.Xml (Bytes)

theorem refOf_none {h : Heap} {b : Nat} (hb : h b = none) : refOf h b = 0 := by simp [refOf, hb]

/-- allocate a childless block and let variable `v` point to it; `pend` = the handle `v` held before -/
theorem fresh_var_counts (s : St) (hi : Inv s) (v : Nat) (hv : v < s.nv) (pay : Payload) (hk : kidsOfPay pay = []) (x : Nat) :
    varCnt (fun i => if i = v then some s.next else s.vars i) s.nv x +
        heapCnt (upd s.heap s.next (some ⟨1, pay⟩)) (s.next + 1) x + (s.vars v).toList.count x
      ≤ refOf (upd s.heap s.next (some ⟨1, pay⟩)) x := by
  have h1 := varCnt_set s.vars s.nv v (some s.next) x hv
  have h2 := hi.cnt_le x
  unfold cnt at h2
  have h3 := heapCnt_alloc s.heap s.next (some ⟨1, pay⟩) x
  have h3' : (kidsOf (some (⟨1, pay⟩ : Block))).count x = 0 := by simp [kidsOf, hk]
  have hn := hi.fresh s.next (Nat.le_refl _)
  by_cases hx : s.next = x
  · subst hx
    rw [refOf_upd_some]
    have hr0 := refOf_none hn
    have hvv : s.vars v ≠ some s.next := by
      intro hvv
      have := var_live hi hv hvv
      omega
    cases hvs : s.vars v with
    | none => simp [hvs] at h1 ⊢; omega
    | some c =>
      have hc : c ≠ s.next := by intro hc; apply hvv; rw [hvs, hc]
      simp [hvs, hc] at h1 ⊢; omega
  · rw [refOf_upd_ne _ _ _ _ (Ne.symm hx)]
    cases hvs : s.vars v with
    | none => simp [hvs, hx] at h1 ⊢; omega
    | some c =>
      by_cases hc : c = x
      · subst hc; simp [hvs, hx] at h1 ⊢; omega
      · simp [hvs, hx, hc] at h1 ⊢; omega

theorem fresh_var_ok (s : St) (hi : Inv s) (v : Nat) (hv : v < s.nv) (pay : Payload) (hk : kidsOfPay pay = []) (f : Nat) :
    let s2 : St := { heap := upd s.heap s.next (some ⟨1, pay⟩), next := s.next + 1, nv := s.nv,
                     vars := fun i => if i = v then some s.next else s.vars i }
    let s' : St := { s2 with heap := release s2.heap f (s.vars v).toList }
    Inv s' ∧ Keeps s s' v := by
  intro s2 s'
  have hfresh2 : ∀ b, s.next + 1 ≤ b → upd s.heap s.next (some ⟨1, pay⟩) b = none := by
    intro b hb
    have : b ≠ s.next := by omega
    rw [upd_ne _ _ _ _ this]; exact hi.fresh b (by omega)
  have hrel := release_spec (fun i => if i = v then some s.next else s.vars i) s.nv (s.next + 1) f
    (upd s.heap s.next (some ⟨1, pay⟩)) (s.vars v).toList (fresh_var_counts s hi v hv pay hk) hfresh2
  refine ⟨⟨hrel.cnt_le, hrel.fresh⟩, rfl, ?_⟩
  intro w val hwv hw hr
  have h1 : repV (upd s.heap s.next (some ⟨1, pay⟩)) val (s.vars w) := by
    apply repV_frame s.heap _ (fun _ => False) _ _ val _ _ hr
    · intro x blk _ hx
      have : x ≠ s.next := by
        intro hxn; subst hxn
        rw [hi.fresh _ (Nat.le_refl _)] at hx; cases hx
      exact ⟨blk.ref, by rw [upd_ne _ _ _ _ this]; exact hx⟩
    · intro _ _ _ _ _ _ hF; exact hF
    · intro _ _ hF; exact hF
  have := hrel.rep w val hw (by simpa [hwv] using h1)
  simpa [s', s2, hwv] using this

/-- the in-place write: the variable holds a text block whose reference count is at most one -/
theorem inplace_text_ok (s : St) (hi : Inv s) (v : Nat) (hv : v < s.nv) (c r : Nat) (t0 t : Bytes)
    (hvc : s.vars v = some c) (hc : s.heap c = some ⟨r, .text t0⟩) (hr1 : r ≤ 1) :
    let s' : St := { s with heap := upd s.heap c (some ⟨r, .text t⟩) }
    Inv s' ∧ Keeps s s' v := by
  intro s'
  have hcn : c < s.next := some_lt hi hc
  have hcnt : ∀ x, heapCnt (upd s.heap c (some ⟨r, .text t⟩)) s.next x = heapCnt s.heap s.next x :=
    fun x => heapCnt_upd_same s.heap s.next c _ x (by rw [hc]; rfl)
  have href : ∀ x, refOf (upd s.heap c (some ⟨r, .text t⟩)) x = refOf s.heap x := by
    intro x
    by_cases hx : x = c
    · subst hx; rw [refOf_upd_some]; simp [refOf, hc]
    · rw [refOf_upd_ne _ _ _ _ hx]
  have hcc := hi.cnt_le c
  have hrc : refOf s.heap c = r := by simp [refOf, hc]
  have hv1 := varCnt_ge s.vars s.nv v c hv hvc
  unfold cnt at hcc
  refine ⟨⟨?_, ?_⟩, rfl, ?_⟩
  · intro x
    have := hi.cnt_le x
    unfold cnt at *
    show varCnt s.vars s.nv x + heapCnt (upd s.heap c _) s.next x ≤ refOf (upd s.heap c _) x
    rw [hcnt x, href x]; exact this
  · intro b hb
    show upd s.heap c _ b = none
    have hb' : s.next ≤ b := hb
    have : b ≠ c := by omega
    rw [upd_ne _ _ _ _ this]; exact hi.fresh b hb'
  · intro w val hwv hw hr
    show repV (upd s.heap c _) val (s.vars w)
    apply repV_frame s.heap _ (fun x => x = c) _ _ val _ _ hr
    · intro x blk hx hx2
      exact ⟨blk.ref, by rw [upd_ne _ _ _ _ hx]; exact hx2⟩
    · intro x blk hx hx2 k hk hkc
      subst hkc
      have := heapCnt_ge s.heap s.next x k (some_lt hi hx2) (by rw [hx2]; exact hk)
      omega
    · intro b hb hbc
      subst hbc
      have := varCnt_ge_two s.vars s.nv v w b hv hw (Ne.symm hwv) hvc hb
      omega

/-- `vars[v] = String`: invariant kept, every other variable keeps its value -/
theorem setStr_ok (s : St) (hi : Inv s) (v : Nat) (hv : v < s.nv) (t : Bytes) :
    Inv (assignStr s (.var v) (s.vars v) t) ∧ Keeps s (assignStr s (.var v) (s.vars v) t) v := by
  cases hvc : s.vars v with
  | none =>
    have h := fresh_var_ok s hi v hv (.text t) rfl 0
    simp only [hvc, Option.toList, release] at h
    simpa [assignStr, alloc, setLoc] using h
  | some c =>
    have hlive := var_live hi hv hvc
    cases hc : s.heap c with
    | none => simp [refOf, hc] at hlive
    | some blk =>
      obtain ⟨r, pay⟩ := blk
      cases pay with
      | text t0 =>
        by_cases hr : r > 1
        · have h := fresh_var_ok s hi v hv (.text t) rfl
            (relFuel { heap := upd s.heap s.next (some ⟨1, .text t⟩), next := s.next + 1, nv := s.nv,
                       vars := fun i => if i = v then some s.next else s.vars i } 1)
          simp only [hvc, Option.toList] at h
          simpa [assignStr, alloc, setLoc, hc, hr] using h
        · have h := inplace_text_ok s hi v hv c r t0 t hvc hc (by omega)
          simpa [assignStr, hc, hr] using h
      | elem e =>
        have h := fresh_var_ok s hi v hv (.text t) rfl
          (relFuel { heap := upd s.heap s.next (some ⟨1, .text t⟩), next := s.next + 1, nv := s.nv,
                     vars := fun i => if i = v then some s.next else s.vars i } 1)
        simp only [hvc, Option.toList] at h
        simpa [assignStr, alloc, setLoc, hc] using h

end Nstd.Xml.Heap
