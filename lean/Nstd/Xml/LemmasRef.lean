import Nstd.Xml.LemmasGen
import Nstd.Xml.LemmasEscape
/- helper lemmas of PropsRef.lean: `sscanf("%u")` on a plain digit string -/
set_option linter.unusedSimpArgs false
namespace Nstd.Xml

theorem digit_facts : ∀ d : UInt8, isDigit d = true → isSpace d = false ∧ d ≠ 45 ∧ d ≠ 43 ∧ (d == 59) = false := by
  apply forall_byte; decide +kernel

theorem takeWhile_all {p : UInt8 → Bool} : ∀ {l : Bytes}, (∀ b ∈ l, p b = true) → l.takeWhile p = l := by
  intro l
  induction l with
  | nil => intro _; rfl
  | cons a r ih => intro h; simp [List.takeWhile_cons, h a (by simp), ih (fun b hb => h b (by simp [hb]))]

/-- value `sscanf("%u")` stores for a plain digit string: saturated at 2^64-1 (strtoul), cut to 32 bit -/
def refValue (ds : Bytes) : Nat :=
  if digitsVal ds 0 ≥ 2 ^ 64 then 2 ^ 32 - 1 else digitsVal ds 0 % 2 ^ 32

theorem scanU_digits (d : UInt8) (ds : Bytes) (hd : isDigit d = true) (h : ∀ b ∈ ds, isDigit b = true) :
    scanU (d :: ds) = some (refValue (d :: ds)) := by
  obtain ⟨h1, h2, h3, _⟩ := digit_facts d hd
  have htw : (d :: ds).takeWhile isDigit = d :: ds :=
    takeWhile_all (by intro b hb; simp at hb; rcases hb with rfl | hb; exact hd; exact h b hb)
  unfold scanU
  simp only [List.dropWhile_cons, h1, Bool.false_eq_true, if_false]
  split
  · rename_i r heq; simp at heq; exact absurd heq.1 h2
  · rename_i r heq; simp at heq; exact absurd heq.1 h3
  · rw [htw]; simp only [refValue, List.isEmpty_cons, Bool.false_eq_true, if_false]; split <;> rfl


end Nstd.Xml
