import Nstd.Xml.LemmasPos
/-
  Exact source positions of the elements of a successful parse: the (line, column) recorded in every element is
  the line/column — computed from the text — of the offset at which that element's `<` stands.
-/
namespace Nstd.Xml

/-- a property of the value of a successful run -/
def Res.Post {α : Type} (r : Res α) (Q : α → Prop) : Prop :=
  match r with
  | .ok a => Q a
  | _ => True

/-- `readToken`'s switch yields a start-tag token only at a `<` -/
theorem tokenAt_start_byte (t : Bytes) (p : Pos) (hple : p.pos ≤ t.length) (h60 : t.getD p.pos 0 ≠ 60) :
    (tokenAt t p).Post (fun r => r.1.type ≠ .startTagBegin) := by
  unfold tokenAt
  rw [peek_eq hple]; simp only [Res.ok_bind]
  rw [if_neg h60]
  by_cases h62 : t.getD p.pos 0 = 62
  · rw [if_pos h62]; show TokType.tagEnd ≠ _; decide
  rw [if_neg h62]
  by_cases h0 : t.getD p.pos 0 = 0
  · rw [if_pos h0]; trivial
  rw [if_neg h0]
  have hlt : p.pos < t.length := getD_ne_zero_lt h0
  by_cases h61 : t.getD p.pos 0 = 61
  · rw [if_pos h61]; show TokType.equalsSign ≠ _; decide
  rw [if_neg h61]
  by_cases hq : t.getD p.pos 0 = 34 ∨ t.getD p.pos 0 = 39
  · rw [if_pos hq, cstr_le (show p.pos + 1 ≤ t.length by omega)]; simp only [Res.ok_bind]
    cases hidx : idxOf (fun b => b == t.getD p.pos 0 || b == 13 || b == 10) (t.drop (p.pos + 1)) with
    | none => trivial
    | some k =>
      simp only
      obtain ⟨hk, _, _⟩ := idxOf_some hidx
      simp at hk
      rw [peek_eq (show p.pos + 1 + k ≤ t.length by omega)]; simp only [Res.ok_bind]
      by_cases hec : t.getD (p.pos + 1 + k) 0 ≠ t.getD p.pos 0
      · rw [if_pos hec]; trivial
      · rw [if_neg hec]; show TokType.string ≠ _; decide
  rw [if_neg hq]
  have hempt : ∃ b, (if t.getD p.pos 0 = 47 then (peek t (p.pos + 1)).bind fun d => Res.ok (decide (d = 62)) else Res.ok false) = Res.ok b := by
    by_cases h47 : t.getD p.pos 0 = 47
    · rw [if_pos h47, peek_eq (show p.pos + 1 ≤ t.length by omega)]; exact ⟨_, rfl⟩
    · rw [if_neg h47]; exact ⟨false, rfl⟩
  obtain ⟨b, hb⟩ := hempt
  rw [hb]; simp only [Res.ok_bind]
  by_cases hbt : b = true
  · rw [if_pos hbt]; show TokType.emptyTagEnd ≠ _; decide
  rw [if_neg hbt, cstr_le hple]; simp only [Res.ok_bind]
  by_cases hemp : ((t.drop p.pos).takeWhile isNameByte).isEmpty = true
  · rw [if_pos hemp]; trivial
  · rw [if_neg hemp]; show TokType.name ≠ _; decide

/-- the cursor stands at a `<` and its line bookkeeping is right -/
def StartOK (t : Bytes) (p : Pos) : Prop := PosOK t p ∧ t.getD p.pos 0 = 60

/-- `(l, c)` is the line/column of an offset at which a `<` stands -/
def AtLt (t : Bytes) (l c : Nat) : Prop := ∃ off, off < t.length ∧ t.getD off 0 = 60 ∧ lineCol t off = (l, c)

theorem StartOK.atLt {t : Bytes} {p : Pos} (h : StartOK t p) : AtLt t p.line p.col := by
  obtain ⟨⟨h1, cr, h2, _⟩, h60⟩ := h
  refine ⟨p.pos, getD_ne_zero_lt (by rw [h60]; decide), h60, ?_⟩
  unfold lineCol
  show ((stAt t p.pos).line, p.pos - (stAt t p.pos).ls + 1) = _
  rw [h2]; rfl

mutual
  /-- every element of the tree carries the line/column of the offset of its `<` -/
  def Elem.posOK (t : Bytes) : Elem → Prop
    | .mk _ l c _ ct => AtLt t l c ∧ ct.posOK t
  def Content.posOK (t : Bytes) : Content → Prop
    | .nil => True
    | .text _ r => r.posOK t
    | .elem e r => e.posOK t ∧ r.posOK t
end

theorem parse_mutual_pos (t : Bytes) : ∀ f : Nat,
    (∀ (start p : Pos), PosOK t p → StartOK t start →
      (parseElement t f start p).Good t (fun r => PosOK t r.2 ∧ r.1.posOK t)) ∧
    (∀ (p : Pos), PosOK t p → (parseContent t f p).Good t (fun r => PosOK t r.2 ∧ r.1.posOK t)) := by
  intro f
  induction f with
  | zero => exact ⟨fun _ _ _ _ => trivial, fun _ _ => trivial⟩
  | succ f ih =>
    obtain ⟨ihE, ihC⟩ := ih
    constructor
    · intro start p hp hstart
      simp only [parseElement]
      refine (readToken_good t p hp).bind ?_
      intro r ⟨h1, h2, _⟩
      by_cases c1 : r.1.type ≠ .name
      · rw [if_pos c1]; exact h1.inside
      rw [if_neg c1]
      refine (parseAttrs_good t _ [] r.2.1 h2).bind ?_
      intro a ha
      by_cases c2 : a.2.1 = true
      · rw [if_pos c2]
        exact ⟨ha, by simp only [Elem.posOK, Content.posOK]; exact ⟨hstart.atLt, trivial⟩⟩
      rw [if_neg c2]
      refine (ihC a.2.2 ha).bind ?_
      intro c ⟨hc, hcp⟩
      refine (readToken_good t c.2 hc).bind ?_
      intro r2 ⟨g1, g2, _⟩
      by_cases c3 : r2.1.type ≠ .name
      · rw [if_pos c3]; exact g1.inside
      rw [if_neg c3]
      by_cases c4 : r2.1.value ≠ r.1.value
      · rw [if_pos c4]; exact g1.inside
      rw [if_neg c4]
      refine (readToken_good t r2.2.1 g2).bind ?_
      intro r3 ⟨k1, k2, _⟩
      by_cases c5 : r3.1.type ≠ .tagEnd
      · rw [if_pos c5]; exact k1.inside
      rw [if_neg c5]
      exact ⟨k2, by simp only [Elem.posOK]; exact ⟨hstart.atLt, hcp⟩⟩
    · intro p hp
      simp only [parseContent]
      refine (skipSpace_good t p hp).bind ?_
      intro sc ⟨s1, s2⟩
      have hts : PosOK t (match sc.2 with | some ce => ce | none => p) := by
        cases h : sc.2 with
        | none => exact hp
        | some ce => exact s2 ce h
      have htext : ((parseText t (match sc.2 with | some ce => ce | none => p)).bind fun tx =>
            (parseContent t f tx.2).bind fun c => Res.ok (Content.text tx.1 c.1, c.2)).Good t
            (fun r => PosOK t r.2 ∧ r.1.posOK t) := by
        refine (parseText_good t _ hts).bind ?_
        intro tx htx
        refine (ihC tx.2 htx).bind ?_
        intro c hc
        exact ⟨hc.1, by simp only [Content.posOK]; exact hc.2⟩
      have htok := tokenAt_good t sc.1 s1
      have hbyte := fun h => tokenAt_start_byte t sc.1 s1.1 h
      cases htk : tokenAt t sc.1 with
      | oob => trivial
      | fuel => trivial
      | err l c m => exact htext
      | ok tp =>
        rw [htk] at htok
        obtain ⟨e1, e2⟩ := htok
        simp only
        by_cases c1 : tp.1.type = .endTagBegin
        · rw [if_pos c1]; exact ⟨e2, by simp only [Content.posOK]⟩
        rw [if_neg c1]
        by_cases c2 : tp.1.type = .startTagBegin
        · rw [if_pos c2]
          have h60 : t.getD sc.1.pos 0 = 60 := by
            apply Classical.byContradiction
            intro hn
            have := hbyte hn
            rw [htk] at this
            exact this c2
          have hst : StartOK t tp.1.pos := by rw [e1]; exact ⟨s1, h60⟩
          refine (ihE tp.1.pos tp.2 e2 hst).bind ?_
          intro e he
          refine (ihC e.2 he.1).bind ?_
          intro c hc
          exact ⟨hc.1, by simp only [Content.posOK]; exact ⟨he.2, hc.2⟩⟩
        · rw [if_neg c2]; exact htext

/-- the token `readToken` returns as start-tag token stands at a `<` -/
theorem readToken_start (t : Bytes) (p : Pos) (hp : PosOK t p) :
    (readToken t p).Good t (fun r => ReadOK t r ∧ (r.1.type = .startTagBegin → StartOK t r.1.pos)) := by
  unfold readToken
  refine (skipSpace_good t p hp).bind ?_
  intro pc ⟨h1, h2⟩
  have hg := tokenAt_good t pc.1 h1
  have hbyte := fun h => tokenAt_start_byte t pc.1 h1.1 h
  cases htk : tokenAt t pc.1 with
  | oob => trivial
  | fuel => trivial
  | err l c m => rw [htk] at hg; exact hg
  | ok tp =>
    rw [htk] at hg
    obtain ⟨e1, e2⟩ := hg
    refine ⟨⟨by show PosOK t tp.1.pos; rw [e1]; exact h1, e2, h2⟩, ?_⟩
    intro hty
    show StartOK t tp.1.pos
    rw [e1]
    refine ⟨h1, ?_⟩
    apply Classical.byContradiction
    intro hn
    have := hbyte hn
    rw [htk] at this
    exact this hty

theorem parseDoc_pos (t : Bytes) : (parseDoc t).Good t (fun e => e.posOK t) := by
  unfold parseDoc
  refine (skipSpace_good t _ (PosOK.init t)).bind ?_
  intro s0 ⟨h0, _⟩
  refine (piLoop_good t _ s0.1 h0).bind ?_
  intro p hp
  refine (readToken_start t p hp).bind ?_
  intro r ⟨⟨r1, r2, _⟩, hst⟩
  by_cases c1 : r.1.type ≠ .startTagBegin
  · rw [if_pos c1]; exact r1.inside
  rw [if_neg c1]
  have c1' : r.1.type = .startTagBegin := by simpa using c1
  refine ((parse_mutual_pos t _).1 r.1.pos r.2.1 r2 (hst c1')).bind ?_
  intro e he
  exact he.2

end Nstd.Xml
