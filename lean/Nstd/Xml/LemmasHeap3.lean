import Nstd.Xml.LemmasHeap2
/-
  The variable-level operations of the heap model (`Variant::operator=(const Variant&)`, `Variant::clear()`):
  they keep the invariant and leave the value of every other variable alone; the assigned variable gets the
  value of the source.
-/
namespace Nstd.Xml.Heap

theorem inv_init (nv : Nat) : Inv (init nv) := by
  refine ⟨?_, fun _ _ => rfl⟩
  intro b
  have h1 : varCnt (init nv).vars (init nv).nv b = 0 := by
    unfold varCnt init
    have : ∀ n, sumTo (fun v => if (none : Option Nat) = some b then 1 else 0) n = 0 := by
      intro n; induction n with
      | zero => rfl
      | succ n ih => simp only [sumTo]; simp at ih ⊢; exact ih
    exact this nv
  have h2 : heapCnt (init nv).heap (init nv).next b = 0 := rfl
  unfold cnt; omega

/-- the values of all variables `w < nv` other than `v` are kept -/
def Keeps (s s' : St) (v : Nat) : Prop :=
  s'.nv = s.nv ∧ ∀ w val, w ≠ v → w < s.nv → repV s.heap val (s.vars w) → repV s'.heap val (s'.vars w)

theorem repV_ref_change (h : Heap) (c : Nat) (blk : Block) (r' : Nat) (hc : h c = some blk) (val : Val) (o : Option Nat)
    (hr : repV h val o) : repV (upd h c (some ⟨r', blk.pay⟩)) val o := by
  apply repV_frame h _ (fun _ => False) _ _ val o _ hr
  · intro x blk2 _ hx2
    by_cases hxc : x = c
    · subst hxc; rw [hc] at hx2; cases hx2
      exact ⟨r', upd_same h x _⟩
    · exact ⟨blk2.ref, by rw [upd_ne h c x _ hxc]; exact hx2⟩
  · intro x blk2 _ _ c _ hF; exact hF
  · intro _ _ hF; exact hF

/-- `vars[v].clear()` -/
theorem clear_ok (s : St) (hi : Inv s) (v : Nat) (hv : v < s.nv) :
    let s2 : St := { s with vars := fun i => if i = v then none else s.vars i }
    let s' : St := { s2 with heap := release s2.heap (relFuel s2 1) (s.vars v).toList }
    Inv s' ∧ Keeps s s' v ∧ s'.vars v = none := by
  intro s2 s'
  have hrel := release_spec (fun i => if i = v then none else s.vars i) s.nv s.next (relFuel s2 1) s.heap (s.vars v).toList (by
    intro x
    have h1 := varCnt_set s.vars s.nv v none x hv
    have h2 := hi.cnt_le x
    unfold cnt at h2
    cases hvv : s.vars v with
    | none => simp [hvv] at h1 ⊢; omega
    | some c =>
      by_cases hcx : c = x
      · subst hcx; simp [hvv] at h1 ⊢; omega
      · simp [hvv, hcx] at h1 ⊢; omega) hi.fresh
  refine ⟨⟨hrel.cnt_le, hrel.fresh⟩, ⟨rfl, ?_⟩, by simp [s', s2]⟩
  intro w val hwv hw hr
  have := hrel.rep w val hw (by simpa [s2, hwv] using hr)
  simpa [s', s2, hwv] using this

/-- `vars[d] = vars[src]` for two different variables -/
theorem assign_ok (s : St) (hi : Inv s) (d src : Nat) (hd : d < s.nv) (hs : src < s.nv) (hne : d ≠ src) :
    ∃ s', step? s (.assign d src) = some s' ∧ Inv s' ∧ Keeps s s' d ∧
      ∀ val, repV s.heap val (s.vars src) → repV s'.heap val (s'.vars d) := by
  cases hsv : s.vars src with
  | none =>
    have h := clear_ok s hi d hd
    refine ⟨_, by simp [step?, hd, hs, hne, hsv], h.1, h.2.1, ?_⟩
    intro val hr
    cases val with
    | null => exact h.2.2
    | text t => obtain ⟨b, rf, hb, _⟩ := hr; cases hb
    | elem n as k => obtain ⟨b, rf, ks, hb, _⟩ := hr; cases hb
  | some c =>
    have hlive := var_live hi hs hsv
    cases hc : s.heap c with
    | none => simp [refOf, hc] at hlive
    | some blk =>
      have hinc : incRef s.heap c = upd s.heap c (some ⟨blk.ref + 1, blk.pay⟩) := by
        simp [incRef, hc]
      let s2 : St := { s with heap := incRef s.heap c, vars := fun i => if i = d then some c else s.vars i }
      have hcn : c < s.next := some_lt hi hc
      have hrel := release_spec (fun i => if i = d then some c else s.vars i) s.nv s.next (relFuel s2 1) (incRef s.heap c) (s.vars d).toList (by
        intro x
        have h1 := varCnt_set s.vars s.nv d (some c) x hd
        have h2 := hi.cnt_le x
        unfold cnt at h2
        have h3 : heapCnt (incRef s.heap c) s.next x = heapCnt s.heap s.next x := by
          rw [hinc]
          exact heapCnt_upd_same s.heap s.next c _ x (by rw [hc]; rfl)
        have h4 : refOf (incRef s.heap c) x = refOf s.heap x + (if c = x then 1 else 0) := by
          rw [hinc]
          by_cases hcx : c = x
          · subst hcx; rw [refOf_upd_some]; simp [refOf, hc]
          · rw [refOf_upd_ne _ _ _ _ (Ne.symm hcx)]; simp [hcx]
        rw [h3, h4]
        cases hvv : s.vars d with
        | none =>
          by_cases hcx : c = x
          · subst hcx; simp [hvv] at h1 ⊢; omega
          · simp [hvv, hcx] at h1 ⊢; omega
        | some c0 =>
          by_cases hcx : c = x <;> by_cases hc0 : c0 = x
          · subst hcx; subst hc0; simp [hvv] at h1 ⊢; omega
          · subst hcx; simp [hvv, hc0] at h1 ⊢; omega
          · subst hc0; simp [hvv, hcx] at h1 ⊢; omega
          · simp [hvv, hcx, hc0] at h1 ⊢; omega) (by
        intro b hb
        rw [hinc]
        have : b ≠ c := by omega
        rw [upd_ne _ _ _ _ this]
        exact hi.fresh b hb)
      refine ⟨{ s2 with heap := release s2.heap (relFuel s2 1) (s.vars d).toList }, ?_, ⟨hrel.cnt_le, hrel.fresh⟩, ⟨rfl, ?_⟩, ?_⟩
      · simp [step?, hd, hs, hne, hsv, s2]
      · intro w val hwd hw hr
        have h1 : repV s2.heap val (s.vars w) := by
          show repV (incRef s.heap c) val _
          rw [hinc]; exact repV_ref_change s.heap c blk _ hc val _ hr
        have := hrel.rep w val hw (by simpa [s2, hwd] using h1)
        simpa [s2, hwd] using this
      · intro val hr
        have h1 : repV (incRef s.heap c) val (s.vars src) := by
          rw [hinc]; exact repV_ref_change s.heap c blk _ hc val _ (by rw [hsv]; exact hr)
        have := hrel.rep src val hs (by simpa [Ne.symm hne] using h1)
        simp only [if_neg (Ne.symm hne), hsv] at this
        simpa [s2] using this

theorem clear_step_ok (s : St) (hi : Inv s) (v : Nat) (hv : v < s.nv) :
    ∃ s', step? s (.clear v) = some s' ∧ Inv s' ∧ Keeps s s' v := by
  have h := clear_ok s hi v hv
  exact ⟨_, by simp [step?, hv], h.1, h.2.1⟩

end Nstd.Xml.Heap
