import Nstd.Xml.LemmasGen
import Nstd.Xml.LemmasEscape
/- lemmas for the translation theorems of `unescapeString` (PropsGen.lean) -/
set_option linter.unusedSimpArgs false
namespace Nstd.Xml
open CSem


theorem zip_find_idx (nm : Bytes) : ∀ (cs : List UInt8) (ns : List Bytes), cs.length = ns.length →
    ((cs.zip ns).find? (fun e => e.2 == nm)).map (·.1) = (ns.findIdx? (· == nm)).map (cs.getD · 0) := by
  intro cs ns
  induction ns generalizing cs with
  | nil => intro _; cases cs <;> simp
  | cons n ns ih =>
    intro hl
    cases cs with
    | nil => simp at hl
    | cons c cs =>
      simp only [List.length_cons, Nat.add_right_cancel_iff] at hl
      simp only [List.zip_cons_cons, List.find?_cons, List.findIdx?_cons]
      by_cases h : (n == nm) = true
      · simp [h]
      · simp only [h]
        rw [ih cs hl]
        cases ns.findIdx? (· == nm) <;> simp

theorem entityChar_generated (nm : Bytes) :
    entityChar nm = (Generated.escapeStrings.findIdx? (· == nm)).map (Generated.escapeChars.getD · 0) := by
  have e : entityTable = Generated.escapeChars.zip Generated.escapeStrings := by decide
  unfold entityChar
  rw [e]
  exact zip_find_idx nm _ _ (by decide)

theorem head_take_hash (r : Bytes) (k : Nat) (h : idxOf (· == 59) r = some k) :
    ((r.take k).head? = some 35) ↔ hd r = 35 := by
  cases r with
  | nil => simp [idxOf] at h
  | cons b r' =>
    cases k with
    | zero =>
      simp only [idxOf] at h
      by_cases hb : (b == 59) = true
      · have : b = 59 := by simpa using hb
        subst this; simp [hd]
      · simp [hb] at h
    | succ k' => simp [hd]

theorem scanfHashU_of_head (nm : Bytes) (h : nm.head? = some 35) : scanfHashU nm = scanU (nm.drop 1) := by
  cases nm with
  | nil => simp at h
  | cons b r => simp at h; subst h; simp [scanfHashU]

theorem unescape_step (f : Nat) (c : UInt8) (r : Bytes) :
    unescapeF (f + 1) (c :: r) =
      (Generated.unescapeString_body (c :: r)).1 ++ unescapeF f (Generated.unescapeString_body (c :: r)).2 := by
  simp only [unescapeF, Generated.unescapeString_body, hd, List.headD_cons, List.drop_succ_cons, List.drop_zero]
  by_cases hc : c = 38
  · subst hc
    simp only [ne_eq, not_true_eq_false, if_false, bne_self_eq_false, Bool.false_eq_true]
    cases hk : idxOf (· == 59) r with
    | none => simp
    | some k =>
      simp only []
      have hh := head_take_hash r k hk
      by_cases h35 : (r.take k).head? = some 35
      · have h2 : hd r = 35 := hh.mp h35
        simp only [hd] at h2
        simp only [h35, if_true, h2, beq_self_eq_true, scanfHashU_of_head _ h35]
        cases scanU ((r.take k).drop 1) <;> simp
      · have h2 : ¬ hd r = 35 := fun e => h35 (hh.mpr e)
        simp only [hd] at h2
        have h3 : (r.headD 0 == 35) = false := by simpa using h2
        simp only [h35, if_false, h3, Bool.false_eq_true, entityChar_generated]
        cases Generated.escapeStrings.findIdx? (· == r.take k) <;> simp
  · have : (c != 38) = true := by simpa using hc
    simp [hc, this]

theorem idxOf_take_false (p : UInt8 → Bool) : ∀ (s : Bytes) (k : Nat), idxOf p s = some k → ∀ b ∈ s.take k, p b = false := by
  intro s
  induction s with
  | nil => intro k h; simp [idxOf] at h
  | cons a r ih =>
    intro k h b hb
    simp only [idxOf] at h
    by_cases ha : p a = true
    · simp [ha] at h; subst h; simp at hb
    · simp [ha] at h
      obtain ⟨k', hk', rfl⟩ := h
      simp only [List.take_succ_cons, List.mem_cons] at hb
      rcases hb with rfl | hb
      · simpa using ha
      · exact ih k' hk' b hb

theorem idxOf_none_false (p : UInt8 → Bool) : ∀ (s : Bytes), idxOf p s = none → ∀ b ∈ s, p b = false := by
  intro s
  induction s with
  | nil => intro _ b hb; simp at hb
  | cons a r ih =>
    intro h b hb
    simp only [idxOf] at h
    by_cases ha : p a = true
    · simp [ha] at h
    · simp [ha] at h
      simp only [List.mem_cons] at hb
      rcases hb with rfl | hb
      · simpa using ha
      · exact ih h b hb

theorem unescapeF_prefix : ∀ (pre r : Bytes) (f : Nat), (∀ b ∈ pre, (b == 38) = false) →
    unescapeF (pre.length + f) (pre ++ r) = pre ++ unescapeF f r := by
  intro pre
  induction pre with
  | nil => intro r f _; simp
  | cons a pre ih =>
    intro r f h
    have ha : a ≠ 38 := by simpa using h a (by simp)
    have e : (a :: pre).length + f = (pre.length + f) + 1 := by simp; omega
    rw [e, List.cons_append, unescapeF_copy _ _ _ ha, ih r f (fun b hb => h b (by simp [hb]))]
    rfl


end Nstd.Xml
