import Nstd.Xml.Model
import Nstd.Xml.LemmasEscape
import Nstd.Xml.LemmasSafe
import Nstd.Xml.LemmasRt3
import Nstd.Xml.LemmasPos
import Nstd.Xml.LemmasPos2
import Nstd.Xml.LemmasComment
import Nstd.Xml.LemmasPi
import Nstd.Xml.EscapeMem
/-
  Property C16 — XML parsing is total and safe; serialising then parsing is identity.
  Theorems about the model `Nstd.Xml.parse` / `Elem.toStr` of src/Document/Xml.cpp.
  `parse bs` models `Xml::parse` on the buffer `bs ++ [0]` (bytes behind the first NUL are
  never looked at; a read behind the terminator would be `.oob`, an unfinished loop `.fuel`).
-/
namespace Nstd.Xml

/-- Termination: the loop fuel handed over by `parse` (text length + 2 for every loop and for the
    recursion depth) is never exhausted, for every byte string. -/
theorem parse_total (bs : Bytes) : parse bs ≠ .fuel := by
  have h := parseDoc_safe (cutNul bs)
  unfold parse
  intro e; rw [e] at h; exact h

/-- Memory safety: no byte behind the terminator of the text is read, for every byte string. -/
theorem parse_no_oob (bs : Bytes) : parse bs ≠ .oob := by
  have h := parseDoc_safe (cutNul bs)
  unfold parse
  intro e; rw [e] at h; exact h

/-- Error positions: whenever parsing fails, the reported (line, column) is exactly the line and
    column (1-based; `\r\n`, `\r`, `\n` each end a line; column = offset in the line + 1) of a position
    `0 … length` of the text in front of the terminator (`Inside`, Spec.lean) — for every byte string.
    In particular 1 ≤ line ≤ number of lines and 1 ≤ column ≤ length of that line + 1. -/
theorem error_pos_inside (bs : Bytes) (l c : Nat) (m : Msg) (h : parse bs = .err l c m) :
    Inside (cutNul bs) l c := by
  have hg := parseDoc_good (cutNul bs)
  unfold parse at h
  rw [h] at hg
  exact hg

/-- … hence line and column are between 1 and text length + 1 (coarse corollary of the above). -/
theorem error_pos_bounds (bs : Bytes) (l c : Nat) (m : Msg) (h : parse bs = .err l c m) :
    1 ≤ l ∧ l ≤ (cutNul bs).length + 1 ∧ 1 ≤ c ∧ c ≤ (cutNul bs).length + 1 :=
  (error_pos_inside bs l c m h).bounds

/-- The same, spelled out: the reported pair is COMPUTED FROM THE TEXT for an offset `off ≤ length` the parser's
    cursor stood at — line = 1 + number of line breaks (`\r\n`, `\r`, `\n`) in the first `off` bytes, column =
    `off` − offset of the start of that line + 1 (`lineCol`, Spec.lean).  Every error of the model is raised at a
    cursor / token position `p` as `.err p.line p.col` — exactly where Xml.cpp calls `syntaxError(pos, …)` — and
    the proof carries `PosOK t p` (the cursor's line number and line start ARE the line state of its offset) through
    every loop; so a stale line number or line start anywhere (e.g. a comment end remembered as a bare pointer)
    would break this theorem. -/
theorem error_pos_exact (bs : Bytes) (l c : Nat) (m : Msg) (h : parse bs = .err l c m) :
    ∃ off, off ≤ (cutNul bs).length ∧ lineCol (cutNul bs) off = (l, c) :=
  error_pos_inside bs l c m h

/-- Positions recorded in the tree: for every byte string on which parsing succeeds, EVERY element of the result
    (at any depth) carries as `line`/`column` the line and column — computed from the text by `lineCol` — of an
    offset at which a `<` stands (`Elem.posOK`: the `<` that opened that element's start tag).  Comments, line
    breaks of all three kinds, processing instructions and text in front of the element do not disturb it. -/
theorem element_positions_exact (bs : Bytes) (e : Elem) (h : parse bs = .ok e) : e.posOK (cutNul bs) := by
  have hg := parseDoc_pos (cutNul bs)
  unfold parse at h
  rw [h] at hg
  exact hg

/-- non-vacuity: in `<a>\n<b/></a>` the inner element is at line 2, column 1 -/
example : parse [60, 97, 62, 10, 60, 98, 47, 62, 60, 47, 97, 62] =
    .ok (.mk [97] 1 1 [] (.elem (.mk [98] 2 1 [] .nil) .nil)) := by rfl

/-- non-vacuity: `<a>\n<` fails at line 2, column 2 (end of text) -/
example : parse [60, 97, 62, 10, 60] = .err 2 2 .eof := by rfl

/-- Comments are white space: `skipSpace` is the one place where the tokenizer skips white space
    (it runs in front of every token, in front of and between processing instructions, and as
    look-ahead in element content).  In front of a complete comment `<!--body-->` (any body in
    which no `-->` begins, `commentBody`: all XML comments, but also bodies with `--`, line breaks,
    `<`, `>` …), at any position of any text, it behaves exactly like its own outer loop continued
    behind the comment (`commentEnd` := that position), and the line bookkeeping of that position
    is right. -/
theorem comments_are_whitespace (t : Bytes) (p : Pos) (body rest : Bytes)
    (h : t.drop p.pos = [60, 33, 45, 45] ++ (body ++ ([45, 45, 62] ++ rest))) (hb : commentBody body) :
    ∃ q : Pos, q.pos = p.pos + 4 + body.length + 3 ∧ (PosOK t p → PosOK t q) ∧
      skipSpace t p = skipLoop t (t.length + 2) false q (some q) :=
  skipSpace_comment t p body rest h hb

/-- non-vacuity: the body ` a--\n>-` (with `--` inside and `-` at the end) is a comment body -/
example : commentBody [32, 97, 45, 45, 10, 62, 45] := by
  intro i hi
  simp at hi
  have h : i = 0 ∨ i = 1 ∨ i = 2 ∨ i = 3 ∨ i = 4 ∨ i = 5 ∨ i = 6 := by omega
  rcases h with rfl | rfl | rfl | rfl | rfl | rfl | rfl <;> decide

/-- … as the tokenizer's callers see it: in front of a complete comment `readToken` returns the same
    token and the same cursor behind it as it does behind the comment (only `commentEnd` differs, which
    the tag name, the attribute loop, the end tag and the prologue never look at).  So between any two
    tokens of a tag, in front of the root and between processing instructions a comment is read over. -/
theorem comments_between_tokens (t : Bytes) (p : Pos) (body rest : Bytes)
    (h : t.drop p.pos = [60, 33, 45, 45] ++ (body ++ ([45, 45, 62] ++ rest))) (hb : commentBody body) :
    ∃ q : Pos, q.pos = p.pos + 4 + body.length + 3 ∧ (PosOK t p → PosOK t q) ∧
      tokenOnly (readToken t p) = tokenOnly (readToken t q) :=
  readToken_comment t p body rest h hb

/-- … and in element content ("comments next to text"): in front of a complete comment the content
    loop returns exactly what it returns when started behind the comment — children, texts (a text
    that follows starts behind the comment) and final cursor — for any fuel. -/
theorem comments_in_content (t : Bytes) (p : Pos) (body rest : Bytes) (f : Nat)
    (h : t.drop p.pos = [60, 33, 45, 45] ++ (body ++ ([45, 45, 62] ++ rest))) (hb : commentBody body) :
    ∃ q : Pos, q.pos = p.pos + 4 + body.length + 3 ∧ (PosOK t p → PosOK t q) ∧
      parseContent t (f + 1) p = parseContent t (f + 1) q :=
  parseContent_comment t p body rest f h hb

/- The statement about TWO texts is in PropsDecor.lean: `roundtrip_decorated` / `comments_do_not_change_result` — for every
   well-formed tree, every placement of white-space/comment runs at every place where the tokenizer skips white space
   (in front of the root, inside start and end tags, around `=`, in front of child elements and end tags, next to text)
   and either quote kind per attribute, the decorated text parses to the same tree as the plain serialisation.
   OPEN: (see also the OPEN block there) the general form `parse (pre ++ "<!--body-->" ++ post) ≈ parse (pre ++ post)` for
   ARBITRARY texts pre/post (ill-formed ones, numeric references, …) — it needs the translation invariance of the whole
   parser.  For arbitrary texts what is proved is the same-text form above (`comments_are_whitespace`,
   `comments_between_tokens`, `comments_in_content`); since round 7 `skipSpace` and `readToken`, which these theorems are about, are
   proved equal to the translation of the current C++ bodies (PropsGen.lean).  Note the code also accepts a comment in places XML does not
   (`<a <!-- c --> x='1'/>`); the theorems state acceptance, not XML conformance. -/

/-- Processing instructions before the root element: in front of `<?body?>` — ANY body that does not
    contain `?>` (`piBody`: `<`, `<!--`, `>`, lone `?`, CR, LF, CRLF, white space … anywhere, e.g. the
    `<?xml version=… encoding=…?>` declaration, also spread over several lines) — one round of
    `parse`'s loop over processing instructions steps exactly over it (it ends at its first `?>`), keeps
    the line bookkeeping right, skips the white space/comments behind it and goes on with the next round
    (another processing instruction, or the root element follows) — at any position of any text, any fuel. -/
theorem pi_before_root (t : Bytes) (p : Pos) (body rest : Bytes)
    (h : t.drop p.pos = [60, 63] ++ (body ++ ([63, 62] ++ rest))) (hb : piBody body) :
    ∃ q : Pos, q.pos = p.pos + 2 + body.length + 2 ∧ (PosOK t p → PosOK t q) ∧
      ∀ f, piLoop t (f + 1) p = (skipSpace t q).bind fun q2 => piLoop t f q2.1 :=
  piLoop_step t p body rest h hb

/-- non-vacuity: `xml a="1"?\n b` is such a body -/
example : piBody [120, 109, 108, 32, 97, 61, 34, 49, 34, 63, 10, 32, 98] := by
  unfold piBody; decide

/-- non-vacuity: so is `a ?<!--\n<!-- b\r<c>\r\n <!-- ? >?` — `<!--` behind a lone `?`, behind LF and behind
    CRLF + white space, `<` behind CR, a lone `?`, `? >`, and a `?` as last byte in front of the closing `?>` -/
example : piBody [97, 32, 63, 60, 33, 45, 45, 10, 60, 33, 45, 45, 32, 98, 13, 60, 99, 62, 13, 10, 32, 60, 33, 45, 45,
    32, 63, 32, 62, 63] := by
  unfold piBody; decide

/-- … while a body that contains `?>` is none (`a?>b`) -/
example : ¬ piBody [97, 63, 62, 98] := by
  unfold piBody; decide

/-- Processing instructions before the root, end to end: for every text that consists of white space,
    any number of processing instructions `<?body?>` (any body without `?>`, each followed by any white
    space) and then a `<` that opens neither a processing instruction nor a comment, `parse` reads the root
    element at the cursor behind the whole prologue (`parseRootAt`, the part of `parseDoc` behind the loop),
    and that cursor's line bookkeeping is right — the prologue contributes nothing else to the result. -/
theorem pi_prologue_skipped (ws0 : Bytes) (pis : List (Bytes × Bytes)) (d : UInt8) (rest : Bytes)
    (hws0 : ∀ b ∈ ws0, isSpace b = true) (hok : prologueOk pis) (hd63 : d ≠ 63) (hd33 : d ≠ 33) :
    ∃ r : Pos, r.pos = ws0.length + (prologue pis).length ∧
      PosOK (ws0 ++ (prologue pis ++ 60 :: d :: rest)) r ∧
      parseDoc (ws0 ++ (prologue pis ++ 60 :: d :: rest)) = parseRootAt (ws0 ++ (prologue pis ++ 60 :: d :: rest)) r :=
  parseDoc_prologue ws0 pis d rest hws0 hok hd63 hd33

/-- non-vacuity: `<?xml v?>\n<?a ?<!--?> <?b\r\n <!--?>` is such a prologue (`<!--` behind a lone `?` and
    behind a line break + white space inside an instruction) -/
example : prologueOk [([120, 109, 108, 32, 118], [10]), ([97, 32, 63, 60, 33, 45, 45], [32]),
    ([98, 13, 10, 32, 60, 33, 45, 45], [])] := by
  refine ⟨?_, by decide, ?_, by decide, ?_, by decide, trivial⟩ <;> (unfold piBody; decide)

/-- non-vacuity, whole parser: `<?a ?<!--?><r/>` (rejected with "Unexpected end of file" before
    fixes/xml/0005) yields the root `r` at line 1, column 12 … -/
example : parse [60, 63, 97, 32, 63, 60, 33, 45, 45, 63, 62, 60, 114, 47, 62] = .ok (.mk [114] 1 12 [] .nil) := by rfl

/-- … `<?a\r\n <!--?><r/>` the root at line 2, column 8 … -/
example : parse [60, 63, 97, 13, 10, 32, 60, 33, 45, 45, 63, 62, 60, 114, 47, 62] = .ok (.mk [114] 2 8 [] .nil) := by rfl

/-- … and `<?x ?<!-- ?> -->?><r/>` is ended by its first `?>`: the `-->` behind it is not a `<` (line 1, column 14) -/
example : parse [60, 63, 120, 32, 63, 60, 33, 45, 45, 32, 63, 62, 32, 45, 45, 62, 63, 62, 60, 114, 47, 62] =
    .err 1 14 .lt := by rfl

/-- Unescaping undoes escaping, for every byte string, for text and for attribute values
    (`'"&<>` as entities, line breaks in attribute values as `&#10;` / `&#13;`). -/
theorem escape_unescape (attr : Bool) (s : Bytes) : unescape (escape attr s) = s :=
  unescapeF_escape attr s _ (Nat.le_refl _)

/-- Unescaping never lengthens: `unescapeString` writes through `dest` into `String result(str.length())`;
    every reference shrinks (`&#N;` is at least 4 bytes and yields at most 4 bytes of UTF-8, `&name;` yields 1). -/
theorem unescape_no_growth (s : Bytes) : (unescape s).length ≤ s.length := unescape_length_le s

/-- Buffer management of `escapeString` (EscapeMem.lean: capacity arithmetic as coded — initial
    `length + N`, `resize` + `reserve(policy)` at every escape, capacities rounded by `String::detach`,
    raw writes through `dest`): for EVERY reserve policy that reserves at least
    written + name + 1 + remaining bytes (`PolicyOK`), every byte string and both modes, no byte
    is ever written at or behind the reserved capacity (no fault), the bytes in the buffer are
    exactly `escape attr s`, and the final length fits. -/
theorem escape_no_overflow_policy (pol : Nat → Nat → Nat → Nat → Nat) (hpol : PolicyOK pol) (attr : Bool) (s : Bytes) :
    ∃ b, escapeMemP pol attr s = some b ∧ b.out = escape attr s ∧ b.out.length ≤ b.cap := by
  obtain ⟨b, h1, h2, h3⟩ := escLoop_ok hpol attr s ⟨s.length + Generated.escInitialSlack, 0, []⟩ (by simp)
  refine ⟨{ b with len := b.out.length }, ?_, by simpa using h2, h3⟩
  simp only [escapeMemP, h1, EscBuf.resize, if_pos h3]

/-- … in particular for the policy of the current sources (regenerated on every run into
    Nstd/Generated/XmlEscape.lean; `genPolicy_ok`: it meets the bound — more headroom keeps this
    true, an under-reservation does not compile). -/
theorem escape_no_overflow (attr : Bool) (s : Bytes) :
    ∃ b, escapeMem attr s = some b ∧ b.out = escape attr s ∧ b.out.length ≤ b.cap :=
  escape_no_overflow_policy _ genPolicy_ok attr s

/-- Round trip through `Xml::toString` (header line + `Element::toString`) and `Xml::parse`:
    for every element tree with well-formed names, pairwise different attribute keys, arbitrary
    NUL-free attribute values (quotes, ampersands, `<`, line breaks, ...) and non-blank, non-adjacent
    NUL-free text nodes — of any depth and size — parsing the serialisation succeeds and yields
    the same names, attribute order and values, texts and nesting (`shape` drops only the
    line/column the parser records per element). -/
theorem roundtrip (e : Elem) (hwf : e.wf = true) (hnul : e.nulFree = true) :
    ∃ e', parse (docToStr e) = .ok e' ∧ e'.shape = e.shape := by
  have h0 : ∀ b ∈ docToStr e, b ≠ 0 := by
    intro b hb
    simp only [docToStr, List.mem_append] at hb
    rcases hb with hb | hb
    · revert b; decide
    · exact elem_toStr_nul e hnul b hb
  unfold parse
  rw [cutNul_of_nulFree h0]
  exact parseDoc_docToStr e hwf

/-- The same for `Element::toString` alone (no header line). -/
theorem roundtrip_element (e : Elem) (hwf : e.wf = true) (hnul : e.nulFree = true) :
    ∃ e', parse e.toStr = .ok e' ∧ e'.shape = e.shape := by
  unfold parse
  rw [cutNul_of_nulFree (elem_toStr_nul e hnul)]
  exact parseDoc_toStr e hwf

/-- the serialiser loses nothing beyond what `shape` identifies, for ALL pairs of well-formed NUL-free elements: two elements with
    the same document text (or the same element text) have the same shape -/
theorem toStr_injective_up_to_shape (e w : Elem) (he : e.wf = true) (hen : e.nulFree = true)
    (hw : w.wf = true) (hwn : w.nulFree = true) :
    (docToStr e = docToStr w → e.shape = w.shape) ∧ (e.toStr = w.toStr → e.shape = w.shape) := by
  constructor
  · intro h
    obtain ⟨e1, h1, s1⟩ := roundtrip e he hen
    obtain ⟨e2, h2, s2⟩ := roundtrip w hw hwn
    rw [h, h2] at h1
    injection h1 with h1
    rw [← s1, ← s2, h1]
  · intro h
    obtain ⟨e1, h1, s1⟩ := roundtrip_element e he hen
    obtain ⟨e2, h2, s2⟩ := roundtrip_element w hw hwn
    rw [h, h2] at h1
    injection h1 with h1
    rw [← s1, ← s2, h1]

/-- The round trip inside a larger text: positioned behind the `<` of a serialised well-formed
    element that is followed by arbitrary bytes, `parseElement` returns the element and stops
    exactly behind its end (statement used by the induction; any sufficient fuel). -/
theorem roundtrip_inside (t : Bytes) (e : Elem) (hwf : e.wf = true) (f : Nat) (start p : Pos) (rest : Bytes)
    (h : 60 :: t.drop p.pos = e.toStr ++ rest) (hf : e.toStr.length ≤ f) :
    ∃ e' q, parseElement t f start p = .ok (e', q) ∧ e'.shape = e.shape ∧ q.pos + 1 = p.pos + e.toStr.length :=
  elem_rt t e hwf f start p rest h hf

/-- non-vacuity: `<a x-y="l1\nl2&quot;" b=""> /x<b/>é&amp;<c>t</c></a>` meets the hypotheses -/
example : (Elem.mk [97] 0 0 [([120, 45, 121], [108, 49, 10, 108, 50, 34]), ([98], [])]
    (.text [32, 47, 120] (.elem (.mk [98] 0 0 [] .nil) (.text [195, 169, 38]
      (.elem (.mk [99] 0 0 [] (.text [116] .nil)) .nil))))).wf = true ∧
    (Elem.mk [97] 0 0 [([120, 45, 121], [108, 49, 10, 108, 50, 34]), ([98], [])]
    (.text [32, 47, 120] (.elem (.mk [98] 0 0 [] .nil) (.text [195, 169, 38]
      (.elem (.mk [99] 0 0 [] (.text [116] .nil)) .nil))))).nulFree = true := by
  constructor <;> decide

/- "Copies of element values are independent of their source" (third sentence of C16): in THIS file element values
   are immutable Lean values, so the clause says nothing here.  It is stated and proved about a heap model of
   `Xml::Variant` / `Xml::Element` handles (Heap.lean: blocks with reference counts, copies share, `clear()` frees at
   zero, mutable accessors clone unless the count is one) in PropsHeap.lean: `step_independent`, `independent` (ALL
   histories of copy assignments, clears, text assignments and writes through the mutable `toElement()` down any path
   followed by any edit; values of any depth and sharing), `copy_then_any_history`, `assign_copies_value`,
   `release_keeps_values`, `reach_inv`.
   OPEN: (there) `refines` — the functional effect of an edit (`mut`) on the target variable itself (`release_fuel_suffices`,
   `clear_value`, `setStr_target_value`, `assign_copies_value` are proved).
   Reference-count exactness is property C09 (area Rc). -/

end Nstd.Xml
