import Nstd.Xml.Model
import Nstd.Xml.LemmasEscape
import Nstd.Xml.LemmasSafe
/-
  Property C16 — XML parsing is total and safe; serialising then parsing is identity.
  Theorems about the model `Nstd.Xml.parse` / `Elem.toStr` of src/Document/Xml.cpp.
  `parse bs` models `Xml::parse` on the buffer `bs ++ [0]` (bytes behind the first NUL are
  never looked at; a read behind the terminator would be `.oob`, an unfinished loop `.fuel`).
-/
namespace Nstd.Xml

/-- Termination: the loop fuel handed over by `parse` (text length + 2 for every loop and for the
    recursion depth) is never exhausted, for every byte string. -/
theorem parse_total (bs : Bytes) : parse bs ≠ .fuel := by
  have h := parseDoc_safe (cutNul bs)
  unfold parse
  intro e; rw [e] at h; exact h

/-- Memory safety: no byte behind the terminator of the text is read, for every byte string. -/
theorem parse_no_oob (bs : Bytes) : parse bs ≠ .oob := by
  have h := parseDoc_safe (cutNul bs)
  unfold parse
  intro e; rw [e] at h; exact h

/-- Unescaping undoes escaping, for every byte string, for text and for attribute values
    (`'"&<>` as entities, line breaks in attribute values as `&#10;` / `&#13;`). -/
theorem escape_unescape (attr : Bool) (s : Bytes) : unescape (escape attr s) = s :=
  unescapeF_escape attr s _ (Nat.le_refl _)

end Nstd.Xml
