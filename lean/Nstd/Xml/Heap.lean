import Nstd.Xml.Model
/-
  Heap model of `Xml::Variant` / `Xml::Element` handles (include/nstd/Document/Xml.hpp), property C16,
  third sentence: "copies of element values are independent of their source".

  * a `Block` is the `Data` header (reference count) + payload (`String` or `Element`) a Variant points to;
  * an `HElem` is an `Xml::Element`: type name, attributes, and `List<Variant> content` = list of block ids
    (the content of an element never holds a null Variant in the histories considered here);
  * a variable is an `Xml::Variant` object: `none` = `&nullData`, `some b` = pointer to block `b`;
  * copy construction / copy assignment SHARE the block (`++ref`), `clear()` is `--ref` and, at zero, destruction
    of the payload (which clears the content Variants in turn) and `delete[]`;
  * the mutable `toElement()` clones a shared element (`ref > 1`) into a fresh block whose content shares the
    children, replaces a text / null Variant by a fresh empty element, and otherwise hands out the block itself
    for writing in place; `operator=(const String&)` likewise writes in place only when the block holds a text
    and `ref <= 1`.
  `line`/`column` of an element are left out (plain ints copied along; a default-constructed element leaves them
  uninitialised, so the harness does not print them in this part).
-/
namespace Nstd.Xml.Heap

open Nstd.Xml (Bytes attrSet)

structure HElem where
  name : Bytes
  attrs : List (Bytes × Bytes)
  kids : List Nat

inductive Payload where
  | text (s : Bytes)
  | elem (e : HElem)

structure Block where
  ref : Nat
  pay : Payload

/-- the heap: block id ↦ block.  (A structure around the function, so that the compiled driver evaluates a heap
    once instead of re-running the operation that produced it at every lookup.) -/
structure Heap where
  get : Nat → Option Block

instance : CoeFun Heap (fun _ => Nat → Option Block) := ⟨Heap.get⟩

structure St where
  heap : Heap
  next : Nat                 -- ids ≥ next have never been allocated
  nv : Nat                   -- number of Variant variables
  vars : Nat → Option Nat

def init (nv : Nat) : St := ⟨⟨fun _ => none⟩, 0, nv, fun _ => none⟩

def upd (h : Heap) (b : Nat) (x : Option Block) : Heap := ⟨fun i => if i = b then x else h i⟩

def kidsOfPay : Payload → List Nat
  | .text _ => []
  | .elem e => e.kids

def kidsOf : Option Block → List Nat
  | some blk => kidsOfPay blk.pay
  | none => []

/-- `Atomic::increment(data->ref)` -/
def incRef (h : Heap) (b : Nat) : Heap :=
  match h b with
  | some blk => upd h b (some ⟨blk.ref + 1, blk.pay⟩)
  | none => h

/-- copy construction of a `List<Variant>`: every element's block gets one more reference -/
def incRefs (h : Heap) : List Nat → Heap
  | [] => h
  | b :: r => incRefs (incRef h b) r

/-- `Variant::clear()` run for a work list of handles that are being dropped: `--ref`; at zero the payload is
    destroyed (its content handles are dropped in turn) and the block is freed.  The C++ code recurses
    depth-first through `~Element` / `~List`; the order of frees is not observable.  `f` bounds the number of
    iterations (the driver hands over the size of the heap; running out only leaks). -/
def release (h : Heap) : Nat → List Nat → Heap
  | 0, _ => h
  | _, [] => h
  | f + 1, b :: rest =>
    match h b with
    | none => release h f rest
    | some blk =>
      if blk.ref ≤ 1 then release (upd h b none) f (kidsOfPay blk.pay ++ rest)
      else release (upd h b (some ⟨blk.ref - 1, blk.pay⟩)) f rest

def sumTo (f : Nat → Nat) : Nat → Nat
  | 0 => 0
  | n + 1 => sumTo f n + f n

/-- enough iterations for `release`: one per handle stored in the heap, plus the handles handed over -/
def relFuel (s : St) (pending : Nat) : Nat :=
  sumTo (fun i => (kidsOf (s.heap i)).length) s.next + s.next + pending + 1

/-- where a Variant object lives: a variable, or entry `k` of the content of the element in block `p` -/
inductive Loc where
  | var (v : Nat)
  | kid (p k : Nat)

def setKid (h : Heap) (p k b : Nat) : Heap :=
  match h p with
  | some ⟨r, .elem e⟩ => upd h p (some ⟨r, .elem ⟨e.name, e.attrs, e.kids.set k b⟩⟩)
  | _ => h

/-- `data = <block b>` for the Variant at `loc` -/
def setLoc (s : St) (loc : Loc) (b : Nat) : St :=
  match loc with
  | .var v => { s with vars := fun i => if i = v then some b else s.vars i }
  | .kid p k => { s with heap := setKid s.heap p k b }

def alloc (s : St) (pay : Payload) : St × Nat :=
  ({ s with heap := upd s.heap s.next (some ⟨1, pay⟩), next := s.next + 1 }, s.next)

def emptyElem : HElem := ⟨[], [], []⟩

/-- the mutable `Element& Variant::toElement()` on the Variant at `loc` whose `data` is `cur`.
    Returns the block that now holds the element the caller writes to. -/
def accessElem (s : St) (loc : Loc) (cur : Option Nat) : St × Nat :=
  match cur with
  | none =>
    let (s1, b) := alloc s (.elem emptyElem)
    (setLoc s1 loc b, b)
  | some c =>
    match s.heap c with
    | some ⟨r, .elem e⟩ =>
      if r > 1 then
        -- new Element(*old): the copy's content shares the children; then clear() (not the last reference)
        let (s1, b) := alloc { s with heap := incRefs s.heap e.kids } (.elem e)
        let s2 := setLoc s1 loc b
        ({ s2 with heap := release s2.heap (relFuel s2 1) [c] }, b)
      else (s, c)
    | some ⟨_, .text _⟩ =>
      -- data->type != elementType: clear(), then a fresh default-constructed element
      let (s1, b) := alloc s (.elem emptyElem)
      let s2 := setLoc s1 loc b
      ({ s2 with heap := release s2.heap (relFuel s2 1) [c] }, b)
    | none => (s, c)

/-- `Variant& operator=(const String&)` on the Variant at `loc` whose `data` is `cur` -/
def assignStr (s : St) (loc : Loc) (cur : Option Nat) (t : Bytes) : St :=
  match cur with
  | none =>
    let (s1, b) := alloc s (.text t)
    setLoc s1 loc b
  | some c =>
    match s.heap c with
    | some ⟨r, .text _⟩ =>
      if r > 1 then
        let (s1, b) := alloc s (.text t)
        let s2 := setLoc s1 loc b
        { s2 with heap := release s2.heap (relFuel s2 1) [c] }
      else { s with heap := upd s.heap c (some ⟨r, .text t⟩) }      -- written in place
    | some ⟨_, .elem _⟩ =>
      let (s1, b) := alloc s (.text t)
      let s2 := setLoc s1 loc b
      { s2 with heap := release s2.heap (relFuel s2 1) [c] }
    | none => s

def elemAt (s : St) (b : Nat) : Option (Nat × HElem) :=
  match s.heap b with
  | some ⟨r, .elem e⟩ => some (r, e)
  | _ => none

/-- `cur = &cur->content[k].toElement()` down the path -/
def walk (s : St) (b : Nat) : List Nat → Option (St × Nat)
  | [] => some (s, b)
  | k :: path =>
    match elemAt s b with
    | some (_, e) =>
      match e.kids[k]? with
      | some c =>
        let r := accessElem s (.kid b k) (some c)
        walk r.1 r.2 path
      | none => none
    | none => none

inductive Edit where
  | rename (n : Bytes)                 -- cur->type = n
  | setAttr (k v : Bytes)              -- cur->attributes.append(k, v)
  | addText (t : Bytes)                -- cur->content.append(Variant(t))
  | addElem (n : Bytes)                -- cur->content.append(Variant(Element named n))
  | delFirst                           -- cur->content.removeFront()
  | clearE                             -- cur->clear()
  | setText (k : Nat) (t : Bytes)      -- cur->content[k] = t   (operator=(const String&))
  | push (src : Nat)                   -- cur->content.append(vars[src])   (Variant copy constructor)

def setElem (s : St) (b r : Nat) (e : HElem) : St := { s with heap := upd s.heap b (some ⟨r, .elem e⟩) }

/-- the edit of the element in block `b` (handed out by the mutable accessor, written in place) -/
def editAt (s : St) (b : Nat) (ed : Edit) : Option St :=
  match elemAt s b with
  | none => none
  | some (r, e) =>
    match ed with
    | .rename n => some (setElem s b r ⟨n, e.attrs, e.kids⟩)
    | .setAttr k v => some (setElem s b r ⟨e.name, attrSet e.attrs k v, e.kids⟩)
    | .addText t =>
      let (s1, c) := alloc s (.text t)
      some (setElem s1 b r ⟨e.name, e.attrs, e.kids ++ [c]⟩)
    | .addElem n =>
      let (s1, c) := alloc s (.elem ⟨n, [], []⟩)
      some (setElem s1 b r ⟨e.name, e.attrs, e.kids ++ [c]⟩)
    | .delFirst =>
      match e.kids with
      | [] => none
      | c :: rest =>
        let s1 := setElem s b r ⟨e.name, e.attrs, rest⟩
        some { s1 with heap := release s1.heap (relFuel s1 1) [c] }
    | .clearE =>
      let s1 := setElem s b r ⟨[], [], []⟩
      some { s1 with heap := release s1.heap (relFuel s1 e.kids.length) e.kids }
    | .setText k t =>
      match e.kids[k]? with
      | some c => some (assignStr s (.kid b k) (some c) t)
      | none => none
    | .push src =>
      if src < s.nv then
        match s.vars src with
        | some c => some (setElem { s with heap := incRef s.heap c } b r ⟨e.name, e.attrs, e.kids ++ [c]⟩)
        | none => none
      else none

inductive Op where
  | assign (d src : Nat)                        -- vars[d] = vars[src]   (Variant::operator=(const Variant&))
  | clear (v : Nat)                             -- vars[v].clear()
  | setStr (v : Nat) (t : Bytes)                -- vars[v] = t
  | mut (v : Nat) (path : List Nat) (ed : Edit) -- vars[v].toElement() … content[k].toElement() …, then the edit

/-- the variable an operation writes through -/
def Op.target : Op → Nat
  | .assign d _ => d
  | .clear v => v
  | .setStr v _ => v
  | .mut v _ _ => v

def step? (s : St) : Op → Option St
  | .assign d src =>
    if d < s.nv ∧ src < s.nv then
      if d = src then some s      -- `if(&other != this)`
      else
        match s.vars src with
        | some c =>
          -- increment(otherData->ref); clear(); data = otherData
          let s1 : St := { s with heap := incRef s.heap c }
          let s2 : St := { s1 with vars := fun i => if i = d then some c else s1.vars i }
          some { s2 with heap := release s2.heap (relFuel s2 1) (s.vars d).toList }
        | none =>
          let s2 : St := { s with vars := fun i => if i = d then none else s.vars i }
          some { s2 with heap := release s2.heap (relFuel s2 1) (s.vars d).toList }
    else none
  | .clear v =>
    if v < s.nv then
      let s2 : St := { s with vars := fun i => if i = v then none else s.vars i }
      some { s2 with heap := release s2.heap (relFuel s2 1) (s.vars v).toList }
    else none
  | .setStr v t =>
    if v < s.nv then some (assignStr s (.var v) (s.vars v) t) else none
  | .mut v path ed =>
    if v < s.nv then
      let r := accessElem s (.var v) (s.vars v)
      match walk r.1 r.2 path with
      | some (s1, b) =>
        match ed with
        | .push src => if src = v then none else editAt s1 b ed      -- appending a Variant to its own content is excluded
        | _ => editAt s1 b ed
      | none => none
    else none

/-- a rejected operation (`bad-op`) leaves the state alone.  NOTE: the C++ harness checks an op before it
    executes anything of it; the model's `mut` runs the accessors before it finds a bad index, so `step` drops
    that work — the values are the same either way (clones are value-preserving), the driver prints them. -/
def step (s : St) (op : Op) : St := (step? s op).getD s

def run (s : St) : List Op → St
  | [] => s
  | op :: ops => run (step s op) ops

/-! ### reading a value (for the driver; `unfold` is proved sound w.r.t. the representation relation) -/

/-- immutable content list: first child / next sibling -/
inductive Kids where
  | nil
  | text (s : Bytes) (rest : Kids)
  | elem (name : Bytes) (attrs : List (Bytes × Bytes)) (kids : Kids) (rest : Kids)

/-- immutable value of a Variant -/
inductive Val where
  | null
  | text (s : Bytes)
  | elem (name : Bytes) (attrs : List (Bytes × Bytes)) (kids : Kids)

def unfoldK (h : Heap) : Nat → List Nat → Option Kids
  | 0, _ => none
  | _, [] => some .nil
  | f + 1, b :: bs =>
    match h b with
    | some ⟨_, .text s⟩ => (unfoldK h f bs).map (.text s)
    | some ⟨_, .elem e⟩ =>
      match unfoldK h f e.kids with
      | none => none
      | some k => (unfoldK h f bs).map (.elem e.name e.attrs k)
    | none => none

def unfoldV (h : Heap) (f : Nat) : Option Nat → Option Val
  | none => some .null
  | some b =>
    match h b with
    | some ⟨_, .text s⟩ => some (.text s)
    | some ⟨_, .elem e⟩ => (unfoldK h f e.kids).map (.elem e.name e.attrs)
    | none => none

end Nstd.Xml.Heap
