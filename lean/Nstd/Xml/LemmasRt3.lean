import Nstd.Xml.LemmasRt2
/-  round trip at document level: prologue, root element, NUL-freeness of the serialisation -/
namespace Nstd.Xml

theorem piLoop_noop {t : Bytes} {p : Pos} {d : UInt8} {r : Bytes} (f : Nat)
    (h : t.drop p.pos = 60 :: d :: r) (hd : d ≠ 63) : piLoop t (f + 1) p = .ok p := by
  obtain ⟨_, _, hdrop⟩ := drop_cons h
  simp only [piLoop]
  rw [peek_drop h]; simp only [Res.ok_bind]
  rw [if_pos trivial, peek_drop hdrop]; simp only [Res.ok_bind]
  rw [if_neg hd]

/-- from the `<` of a serialised well-formed root element the rest of `parseDoc` returns it -/
theorem root_rt (t : Bytes) (e : Elem) (hwf : e.wf = true) (p : Pos) (rest : Bytes)
    (hd : t.drop p.pos = e.toStr ++ rest) :
    ∃ e', ((piLoop t (t.length + 2) p).bind fun p =>
      (readToken t p).bind fun r =>
      if r.1.type ≠ .startTagBegin then Res.err r.1.pos.line r.1.pos.col .lt
      else (parseElement t (t.length + 2) r.1.pos r.2.1).bind fun e => Res.ok e.1) = .ok e' ∧
      e'.shape = e.shape := by
  obtain ⟨name, l, c, attrs, content⟩ := e
  have hwf' := hwf
  simp only [Elem.wf, Bool.and_eq_true] at hwf'
  obtain ⟨c0, nr, hnc, hall, _, _, _, c33, c63⟩ := wfName_facts hwf'.1.1
  obtain ⟨_, c47, _, _, _⟩ := nameByte_facts (hall c0 (by rw [hnc]; simp))
  have hts := elem_toStr_cons name l c attrs content
  have hd0 : ∃ r, t.drop p.pos = 60 :: c0 :: r := by
    rw [hd, hts, hnc]; simp only [List.cons_append]; exact ⟨_, rfl⟩
  obtain ⟨r0, hd0⟩ := hd0
  obtain ⟨hplt, _, hd1⟩ := drop_cons hd0
  have hlen : p.pos + (Elem.mk name l c attrs content).toStr.length ≤ t.length := drop_le hd (by omega)
  rw [show t.length + 2 = (t.length + 1) + 1 from rfl, piLoop_noop _ hd0 c63]; simp only [Res.ok_bind]
  rw [readToken_eq (skipSpace_noop_lt hd0 c33) (tokenAt_startTag hd0 c47)]; simp only [Res.ok_bind]
  rw [if_neg (by decide)]
  obtain ⟨e', q, he', hes, _⟩ := elem_rt t (.mk name l c attrs content) hwf (t.length + 1 + 1) p ⟨p.line, p.pos + 1, p.ls⟩ rest
    (by
      have : t.drop p.pos = 60 :: t.drop (p.pos + 1) := by rw [hd0, hd1]
      simp only
      rw [← this, hd])
    (by omega)
  rw [he']; simp only [Res.ok_bind]
  exact ⟨e', rfl, hes⟩

theorem elem_toStr_head (e : Elem) (hwf : e.wf = true) : ∃ c0 r, e.toStr = 60 :: c0 :: r ∧ c0 ≠ 33 ∧ c0 ≠ 63 := by
  obtain ⟨name, l, c, attrs, content⟩ := e
  simp only [Elem.wf, Bool.and_eq_true] at hwf
  obtain ⟨c0, nr, hnc, _, _, _, _, c33, c63⟩ := wfName_facts hwf.1.1
  rw [elem_toStr_cons, hnc]; simp only [List.cons_append]
  exact ⟨c0, _, rfl, c33, c63⟩

/-- parsing `Element::toString` of a well-formed tree -/
theorem parseDoc_toStr (e : Elem) (hwf : e.wf = true) :
    ∃ e', parseDoc e.toStr = .ok e' ∧ e'.shape = e.shape := by
  obtain ⟨c0, r, hh, c33, _⟩ := elem_toStr_head e hwf
  have hd : (e.toStr).drop (Pos.mk 1 0 0).pos = e.toStr ++ [] := by simp
  have hd0 : (e.toStr).drop (Pos.mk 1 0 0).pos = 60 :: c0 :: r := by simpa using hh
  unfold parseDoc
  rw [skipSpace_noop_lt hd0 c33]; simp only [Res.ok_bind]
  exact root_rt e.toStr e hwf ⟨1, 0, 0⟩ [] hd

/-- the scan over the body of the header line `<?xml version="1.0" encoding="UTF-8"?>` (34 bytes without a
    line break or `?`) ends behind its `?>` -/
theorem piInner_header (t body rest : Bytes) (hlen : 39 ≤ t.length)
    (hd2 : t.drop 2 = body ++ 63 :: 62 :: 10 :: rest)
    (hidx : idxOf isPiScanStop (body ++ 63 :: 62 :: 10 :: rest) = some 34)
    (HD36 : t.drop 36 = 63 :: 62 :: 10 :: rest) (HD37 : t.drop 37 = 62 :: 10 :: rest) :
    piInner t (t.length + 1 + 1) ⟨1, 0, 0⟩ ⟨1, 2, 0⟩ = .ok ⟨1, 38, 0⟩ := by
  rw [piInner, cstr_le (show (Pos.mk 1 2 0).pos ≤ t.length by simp; omega)]; simp only [Res.ok_bind]
  rw [hd2, hidx]; simp only
  rw [peek_drop (show t.drop (2 + 34) = 63 :: 62 :: 10 :: rest from HD36)]; simp only [Res.ok_bind]
  rw [if_pos trivial, peek_drop (show t.drop (2 + 34 + 1) = 62 :: 10 :: rest from HD37)]; simp only [Res.ok_bind]
  rw [if_pos trivial]

/-- parsing `Xml::toString` (header line + element) of a well-formed tree -/
theorem parseDoc_docToStr (e : Elem) (hwf : e.wf = true) :
    ∃ e', parseDoc (docToStr e) = .ok e' ∧ e'.shape = e.shape := by
  obtain ⟨c0, r, hh, c33, c63⟩ := elem_toStr_head e hwf
  generalize ht : docToStr e = t
  have hlen : 39 + e.toStr.length = t.length := by rw [← ht]; simp [docToStr, xmlHeader]; omega
  have hd0 : t.drop (Pos.mk 1 0 0).pos = 60 :: 63 :: ([120, 109, 108, 32, 118, 101, 114, 115, 105, 111, 110, 61, 34, 49, 46, 48, 34, 32, 101,
      110, 99, 111, 100, 105, 110, 103, 61, 34, 85, 84, 70, 45, 56, 34] ++ 63 :: 62 :: 10 :: e.toStr) := by
    rw [← ht]; simp [docToStr, xmlHeader]
  obtain ⟨_, _, hd1⟩ := drop_cons hd0
  obtain ⟨_, _, hd2⟩ := drop_cons hd1
  have HD36 : t.drop 36 = 63 :: 62 :: 10 :: e.toStr := by
    have := drop_append hd2
    simpa using this
  obtain ⟨_, _, HD37⟩ := drop_cons HD36
  obtain ⟨_, _, HD38⟩ := drop_cons HD37
  obtain ⟨_, _, HD39⟩ := drop_cons HD38
  have hidx : idxOf isPiScanStop ([120, 109, 108, 32, 118, 101, 114, 115, 105, 111, 110, 61, 34, 49, 46, 48, 34, 32, 101,
      110, 99, 111, 100, 105, 110, 103, 61, 34, 85, 84, 70, 45, 56, 34] ++ 63 :: 62 :: 10 :: e.toStr) = some 34 :=
    idxOf_append_hit _ _ _ _ (by decide) (by decide)
  have hpi : piInner t (t.length + 1 + 1) ⟨1, 0, 0⟩ ⟨1, 2, 0⟩ = .ok ⟨1, 38, 0⟩ :=
    piInner_header t _ e.toStr (by omega) (by simpa using hd2) hidx HD36 HD37
  have hsk : skipSpace t ⟨1, 38, 0⟩ = .ok (⟨2, 39, 39⟩, none) := by
    unfold skipSpace
    have : ∀ f0, skipLoop t (f0 + 1 + 1) false ⟨1, 38, 0⟩ none = .ok (⟨2, 39, 39⟩, none) := by
      intro f0
      have inner : skipLoop t (f0 + 1) false ⟨2, 39, 39⟩ none = .ok (⟨2, 39, 39⟩, none) :=
        skipLoop_noop_lt (p := ⟨2, 39, 39⟩) _ none (by rw [HD39, hh]) c33
      generalize f0 + 1 = f1 at inner ⊢
      simp only [skipLoop]
      rw [peek_drop (show t.drop 38 = 10 :: e.toStr from HD38)]; simp only [Res.ok_bind]
      rw [if_neg (by decide), if_pos trivial]
      exact inner
    exact this t.length
  unfold parseDoc
  rw [skipSpace_noop_lt hd0 (by decide)]; simp only [Res.ok_bind]
  -- first round of the processing-instruction loop
  have hloop : ∀ (k : Pos → Res Elem), (piLoop t (t.length + 2) ⟨1, 0, 0⟩).bind k =
      (piLoop t (t.length + 1) ⟨2, 39, 39⟩).bind k := by
    intro k
    rw [show t.length + 2 = (t.length + 1) + 1 from rfl]
    simp only [piLoop]
    rw [peek_drop (show t.drop 0 = _ from hd0)]; simp only [Res.ok_bind]
    rw [if_pos trivial, peek_drop (show t.drop (0 + 1) = _ from hd1)]; simp only [Res.ok_bind]
    rw [if_pos trivial, hpi]; simp only [Res.ok_bind]
    rw [hsk]; simp only [Res.ok_bind]
  rw [hloop]
  have hroot : t.drop (Pos.mk 2 39 39).pos = e.toStr ++ [] := by simpa using HD39
  have HD39' : t.drop (Pos.mk 2 39 39).pos = 60 :: c0 :: r := by rw [hroot, hh]; simp
  rw [piLoop_noop _ HD39' c63]; simp only [Res.ok_bind]
  have := root_rt t e hwf ⟨2, 39, 39⟩ [] hroot
  rw [show t.length + 2 = (t.length + 1) + 1 from rfl, piLoop_noop _ HD39' c63] at this
  simpa only [Res.ok_bind] using this


/-! ### the serialisation of a NUL-free tree is NUL-free -/

theorem escapeByte_nul (a : Bool) (c : UInt8) (hc : c ≠ 0) : ∀ b ∈ escapeByte a c, b ≠ 0 := by
  by_cases h1 : c = 39
  · subst h1; cases a <;> decide
  by_cases h2 : c = 34
  · subst h2; cases a <;> decide
  by_cases h3 : c = 38
  · subst h3; cases a <;> decide
  by_cases h4 : c = 60
  · subst h4; cases a <;> decide
  by_cases h5 : c = 62
  · subst h5; cases a <;> decide
  by_cases h6 : c = 10
  · subst h6; cases a <;> decide
  by_cases h7 : c = 13
  · subst h7; cases a <;> decide
  rw [escapeByte_plain a c h1 h2 h3 h4 h5 h6 h7]
  intro b hb
  simp at hb
  subst hb
  exact hc

theorem bytesNulFree_iff {s : Bytes} : bytesNulFree s = true ↔ ∀ b ∈ s, b ≠ 0 := by
  simp [bytesNulFree]

theorem escape_nul (a : Bool) : ∀ (s : Bytes), (∀ b ∈ s, b ≠ 0) → ∀ b ∈ escape a s, b ≠ 0 := by
  intro s
  induction s with
  | nil => intro _ b hb; simp [escape] at hb
  | cons c r ih =>
    intro hs b hb
    simp only [escape, List.mem_append] at hb
    rcases hb with hb | hb
    · exact escapeByte_nul a c (hs c (by simp)) b hb
    · exact ih (fun x hx => hs x (by simp [hx])) b hb

theorem attrsToStr_nul : ∀ (as : List (Bytes × Bytes)), attrsNulFree as = true → ∀ b ∈ attrsToStr as, b ≠ 0 := by
  intro as
  induction as with
  | nil => intro _ b hb; simp [attrsToStr] at hb
  | cons x as ih =>
    obtain ⟨k, v⟩ := x
    intro h b hb
    simp only [attrsNulFree, Bool.and_eq_true, bytesNulFree_iff] at h
    obtain ⟨⟨hk, hv⟩, hr⟩ := h
    simp only [attrsToStr, List.mem_append, List.mem_cons, List.mem_singleton, List.not_mem_nil, or_false] at hb
    rcases hb with ((((rfl | hb) | (rfl | rfl)) | hb) | rfl) | hb
    · decide
    · exact hk b hb
    · decide
    · decide
    · exact escape_nul true v hv b hb
    · decide
    · exact ih hr b hb

mutual
  theorem elem_toStr_nul : (e : Elem) → e.nulFree = true → ∀ b ∈ e.toStr, b ≠ 0
    | .mk name l c attrs content, h, b, hb => by
      simp only [Elem.nulFree, Bool.and_eq_true, bytesNulFree_iff] at h
      obtain ⟨⟨hn, ha⟩, hc⟩ := h
      rw [elem_toStr_cons] at hb
      simp only [List.mem_cons, List.mem_append] at hb
      rcases hb with rfl | hb | hb | hb
      · decide
      · exact hn b hb
      · exact attrsToStr_nul attrs ha b hb
      · split at hb
        · simp at hb
          rcases hb with rfl | rfl <;> decide
        · simp only [List.mem_cons, List.mem_append, List.mem_singleton, List.not_mem_nil, or_false] at hb
          rcases hb with rfl | hb | rfl | rfl | hb | rfl
          · decide
          · exact content_toStr_nul content hc b hb
          · decide
          · decide
          · exact hn b hb
          · decide
  theorem content_toStr_nul : (c : Content) → c.nulFree = true → ∀ b ∈ c.toStr, b ≠ 0
    | .nil, _, b, hb => by simp [Content.toStr] at hb
    | .text s rest, h, b, hb => by
      simp only [Content.nulFree, Bool.and_eq_true, bytesNulFree_iff] at h
      simp only [Content.toStr, List.mem_append] at hb
      rcases hb with hb | hb
      · exact escape_nul false s h.1 b hb
      · exact content_toStr_nul rest h.2 b hb
    | .elem e rest, h, b, hb => by
      simp only [Content.nulFree, Bool.and_eq_true] at h
      simp only [Content.toStr, List.mem_append] at hb
      rcases hb with hb | hb
      · exact elem_toStr_nul e h.1 b hb
      · exact content_toStr_nul rest h.2 b hb
end

theorem cutNul_of_nulFree {s : Bytes} (h : ∀ b ∈ s, b ≠ 0) : cutNul s = s := by
  unfold cutNul
  induction s with
  | nil => rfl
  | cons c r ih =>
    have hc : (c != 0) = true := by simpa using h c (by simp)
    simp only [List.takeWhile, hc]
    rw [ih (fun b hb => h b (by simp [hb]))]

end Nstd.Xml
