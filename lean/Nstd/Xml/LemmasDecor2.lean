import Nstd.Xml.LemmasDecor1
import Nstd.Xml.LemmasRt2
/-  decorated tags: tokens behind misc runs, strings in either quote kind, the attribute loop -/
namespace Nstd.Xml

theorem escapeByte_no39 (c : UInt8) : ∀ b ∈ escapeByte true c, b ≠ 39 := by
  by_cases h1 : c = 39
  · subst h1; decide
  by_cases h2 : c = 34
  · subst h2; decide
  by_cases h3 : c = 38
  · subst h3; decide
  by_cases h4 : c = 60
  · subst h4; decide
  by_cases h5 : c = 62
  · subst h5; decide
  by_cases h6 : c = 10
  · subst h6; decide
  by_cases h7 : c = 13
  · subst h7; decide
  rw [escapeByte_plain true c h1 h2 h3 h4 h5 h6 h7]
  intro b hb
  simp at hb
  subst hb
  exact h1

theorem escape_no39 (s : Bytes) : ∀ b ∈ escape true s, b ≠ 39 := by
  induction s with
  | nil => intro b hb; simp [escape] at hb
  | cons c r ih =>
    intro b hb
    simp only [escape, List.mem_append] at hb
    rcases hb with hb | hb
    · exact escapeByte_no39 c b hb
    · exact ih b hb

theorem quote_cases (a : DAttr) : a.quote = 34 ∨ a.quote = 39 := by
  unfold DAttr.quote
  cases a.single <;> simp

/-- an attribute value as `toString` escapes it contains neither quote kind and no line break -/
theorem escape_attr_bytes (a : DAttr) : ∀ b ∈ escape true a.val, b ≠ a.quote ∧ b ≠ 13 ∧ b ≠ 10 := by
  intro b hb
  obtain ⟨_, h34, h13, h10⟩ := escape_bytes true a.val b hb |>.imp id (fun h => h rfl)
  refine ⟨?_, h13, h10⟩
  rcases quote_cases a with e | e <;> rw [e]
  · exact h34
  · exact escape_no39 a.val b hb

/-- a string in either quote kind without that quote and without line break inside -/
theorem tokenAt_string_q {t : Bytes} {p : Pos} {c : UInt8} {body r : Bytes} (hc : c = 34 ∨ c = 39)
    (h : t.drop p.pos = c :: (body ++ c :: r)) (hb : ∀ b ∈ body, b ≠ c ∧ b ≠ 13 ∧ b ≠ 10) :
    tokenAt t p = .ok (⟨.string, unescape body, p⟩, ⟨p.line, p.pos + 1 + body.length + 1, p.ls⟩) := by
  obtain ⟨hlt, _, hdrop⟩ := drop_cons h
  have hidx : idxOf (fun b => b == c || b == 13 || b == 10) (body ++ c :: r) = some body.length := by
    apply idxOf_append_hit
    · intro b hbm
      obtain ⟨h1, h2, h3⟩ := hb b hbm
      simp [h1, h2, h3]
    · simp
  have hq : t.drop (p.pos + 1 + body.length) = c :: r := drop_append hdrop
  have hcs : cstr t (p.pos + 1) = .ok (body ++ c :: r) := by rw [cstr_le (by omega), hdrop]
  unfold tokenAt
  rw [peek_drop h]; simp only [Res.ok_bind]
  rcases hc with rfl | rfl <;> simp [hcs, hidx, peek_drop hq]

/-- behind a name: an empty run or one that starts with white space, then a delimiter -/
theorem nameSafe_delim (m : List MiscItem) (hm : miscOk m) (hs : nameSafe m = true) (d0 : UInt8) (x : Bytes)
    (hd0 : isNameByte d0 = false) : ∃ d r, miscStr m ++ d0 :: x = d :: r ∧ isNameByte d = false := by
  cases m with
  | nil => exact ⟨d0, x, by simp [miscStr], hd0⟩
  | cons y m =>
    cases y with
    | comment b => simp [nameSafe] at hs
    | ws b =>
      have hb : isSpace b = true := (miscOk_cons hm).1
      exact ⟨b, miscStr m ++ d0 :: x, by simp [miscStr, MiscItem.toStr], by simp [isNameByte, hb]⟩

theorem startsWs_delim (m : List MiscItem) (hm : miscOk m) (hs : startsWs m = true) (x : Bytes) :
    ∃ d r, miscStr m ++ x = d :: r ∧ isNameByte d = false := by
  cases m with
  | nil => simp [startsWs] at hs
  | cons y m =>
    cases y with
    | comment b => simp [startsWs] at hs
    | ws b =>
      have hb : isSpace b = true := (miscOk_cons hm).1
      exact ⟨b, miscStr m ++ x, by simp [miscStr, MiscItem.toStr], by simp [isNameByte, hb]⟩

/-- what follows the tag name is a delimiter -/
theorem after_name_delim_dec (as : List DAttr) (close : List MiscItem) (hok : dattrsOk true as close) (x : Bytes)
    (hx : (∃ r, x = 62 :: r) ∨ (∃ r, x = 47 :: 62 :: r)) :
    ∃ d r, dattrsStr as ++ (miscStr close ++ x) = d :: r ∧ isNameByte d = false := by
  cases as with
  | nil =>
    obtain ⟨hm, hs⟩ := hok
    simp only [dattrsStr, List.nil_append]
    rcases hx with ⟨r, rfl⟩ | ⟨r, rfl⟩
    · exact nameSafe_delim close hm (hs rfl) 62 r (by decide)
    · exact nameSafe_delim close hm (hs rfl) 47 (62 :: r) (by decide)
  | cons a as =>
    obtain ⟨hm, _, _, hs, _, _⟩ := hok
    obtain ⟨d, r, e, hd⟩ := startsWs_delim a.pre hm (hs rfl)
      (a.key ++ (miscStr a.preEq ++ (61 :: (miscStr a.postEq ++
        (a.quote :: (escape true a.val ++ (a.quote :: dattrsStr as)))))) ++ (miscStr close ++ x))
    exact ⟨d, r, by rw [← e]; simp [dattrsStr], hd⟩

theorem name_stop {n : Bytes} (h : wfName n = true) (x : Bytes) : StopHead (n ++ x) := by
  obtain ⟨c, r, hnc, hall, c60, _, _, _, _⟩ := wfName_facts h
  obtain ⟨_, _, _, _, cs⟩ := nameByte_facts (hall c (by rw [hnc]; simp))
  exact Or.inl ⟨c, r ++ x, by rw [hnc]; simp, cs, c60⟩

theorem dattrs_length_le : ∀ (as : List DAttr), as.length ≤ (dattrsStr as).length := by
  intro as
  induction as with
  | nil => simp
  | cons a as ih =>
    simp [dattrsStr]
    omega

theorem dattrs_names : ∀ (as : List DAttr), attrsWf (eraseAttrs as) = true → ∀ a ∈ as, wfName a.key = true := by
  intro as
  induction as with
  | nil => intro _ a h; simp at h
  | cons x as ih =>
    intro hwf a ha
    simp only [eraseAttrs, attrsWf, Bool.and_eq_true] at hwf
    simp only [List.mem_cons] at ha
    rcases ha with rfl | ha
    · exact hwf.1.1
    · exact ih hwf.2 a ha

/-- the attribute loop reads back a decorated attribute list -/
theorem parseAttrs_dec (t : Bytes) : ∀ (as : List DAttr) (an : Bool) (close : List MiscItem)
    (acc : List (Bytes × Bytes)) (f : Nat) (p : Pos) (tail : Bytes) (flag : Bool),
    t.drop p.pos = dattrsStr as ++ (miscStr close ++ tail) →
    ((flag = false ∧ ∃ r, tail = 62 :: r) ∨ (flag = true ∧ ∃ r, tail = 47 :: 62 :: r)) →
    dattrsOk an as close → (∀ a ∈ as, wfName a.key = true) → as.length < f →
    ∃ q : Pos, parseAttrs t f acc p = .ok (attrFold acc (eraseAttrs as), flag, q) ∧
      q.pos = p.pos + (dattrsStr as).length + (miscStr close).length + (if flag then 2 else 1) := by
  intro as
  induction as with
  | nil =>
    intro an close acc f p tail flag hd htail hok _ hf
    obtain ⟨f, rfl⟩ : ∃ g, f = g + 1 := ⟨f - 1, by simp at hf; omega⟩
    simp only [dattrsStr, List.nil_append] at hd
    obtain ⟨hclose, _⟩ := hok
    simp only [parseAttrs]
    rcases htail with ⟨rfl, r, rfl⟩ | ⟨rfl, r, rfl⟩
    · obtain ⟨q, ce', hq, hdq, hrt⟩ := readToken_misc t close hclose p _ hd (Or.inl ⟨62, r, rfl, by decide, by decide⟩)
      rw [hrt _ _ (tokenAt_tagEnd hdq)]
      refine ⟨⟨q.line, q.pos + 1, q.ls⟩, by simp [attrFold, eraseAttrs], ?_⟩
      simp [dattrsStr]; omega
    · obtain ⟨q, ce', hq, hdq, hrt⟩ := readToken_misc t close hclose p _ hd (Or.inl ⟨47, 62 :: r, rfl, by decide, by decide⟩)
      rw [hrt _ _ (tokenAt_emptyTagEnd hdq)]
      refine ⟨⟨q.line, q.pos + 2, q.ls⟩, by simp [attrFold, eraseAttrs], ?_⟩
      simp [dattrsStr]; omega
  | cons a as ih =>
    intro an close acc f p tail flag hd htail hok hwf hf
    obtain ⟨f, rfl⟩ : ∃ g, f = g + 1 := ⟨f - 1, by simp at hf; omega⟩
    obtain ⟨hpre, hpreEq, hpostEq, _, hns, hrest⟩ := hok
    have hk : wfName a.key = true := hwf a (by simp)
    -- layout of the text at the cursor
    have hd1 : t.drop p.pos = miscStr a.pre ++ (a.key ++ (miscStr a.preEq ++ (61 :: (miscStr a.postEq ++
        (a.quote :: (escape true a.val ++ (a.quote :: (dattrsStr as ++ (miscStr close ++ tail))))))))) := by
      rw [hd]; simp [dattrsStr]
    -- the key
    obtain ⟨q1, ce1, hq1, hdq1, hrt1⟩ := readToken_misc t a.pre hpre p _ hd1 (name_stop hk _)
    obtain ⟨d, dr, hdel, hdn⟩ := nameSafe_delim a.preEq hpreEq hns 61 (miscStr a.postEq ++
        (a.quote :: (escape true a.val ++ (a.quote :: (dattrsStr as ++ (miscStr close ++ tail)))))) (by decide)
    have r1 := hrt1 _ _ (tokenAt_name (by rw [hdq1, hdel]) hk hdn)
    -- the equals sign
    have hd2 : t.drop (q1.pos + a.key.length) = _ := drop_append hdq1
    obtain ⟨q2, ce2, hq2, hdq2, hrt2⟩ := readToken_misc t a.preEq hpreEq ⟨q1.line, q1.pos + a.key.length, q1.ls⟩ _ hd2
      (Or.inl ⟨61, _, rfl, by decide, by decide⟩)
    have r2 := hrt2 _ _ (tokenAt_equals hdq2)
    -- the value
    obtain ⟨_, _, hd3⟩ := drop_cons hdq2
    have hqc := quote_cases a
    obtain ⟨q3, ce3, hq3, hdq3, hrt3⟩ := readToken_misc t a.postEq hpostEq ⟨q2.line, q2.pos + 1, q2.ls⟩ _ hd3
      (Or.inl ⟨a.quote, _, rfl, by rcases hqc with e | e <;> rw [e] <;> decide,
        by rcases hqc with e | e <;> rw [e] <;> decide⟩)
    have r3 := hrt3 _ _ (tokenAt_string_q hqc hdq3 (escape_attr_bytes a))
    have hd4 : t.drop (q3.pos + 1 + (escape true a.val).length) = a.quote :: (dattrsStr as ++ (miscStr close ++ tail)) :=
      drop_append (drop_cons hdq3).2.2
    obtain ⟨_, _, hd5⟩ := drop_cons hd4
    obtain ⟨q, hrec, hqpos⟩ := ih false close (attrSet acc a.key a.val) f
      ⟨q3.line, q3.pos + 1 + (escape true a.val).length + 1, q3.ls⟩ tail flag
      hd5 htail hrest (fun b hb => hwf b (by simp [hb])) (by simp at hf; omega)
    refine ⟨q, ?_, ?_⟩
    · simp only [parseAttrs]
      rw [r1]; simp only [Res.ok_bind]
      rw [if_neg (by decide), if_neg (by decide), if_pos trivial, r2]; simp only [Res.ok_bind]
      rw [if_neg (by decide), r3]; simp only [Res.ok_bind]
      rw [if_neg (by decide), unescape_escape true a.val, hrec]
      simp [attrFold, eraseAttrs]
    · rw [hqpos]
      simp only at hq1 hq2 hq3 ⊢
      simp [dattrsStr]
      omega

end Nstd.Xml
