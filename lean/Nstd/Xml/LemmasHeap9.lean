import Nstd.Xml.LemmasHeap8
/-
  Fuel of `release`: every iteration strictly decreases
     (number of live blocks + number of handles stored in live blocks) + number of pending handles,
  so the fuel the model hands over (`relFuel`) always suffices — the result does not depend on the fuel above
  that bound: the destruction runs to the end (work list empty), on every heap, cyclic or not.
-/
namespace Nstd.Xml.Heap

def wOf : Option Block → Nat
  | some blk => 1 + (kidsOfPay blk.pay).length
  | none => 0

def heapW (h : Heap) (n : Nat) : Nat := sumTo (fun i => wOf (h i)) n

theorem heapW_upd (h : Heap) (n b : Nat) (y : Option Block) (hb : b < n) :
    heapW (upd h b y) n + wOf (h b) = heapW h n + wOf y := by
  unfold heapW
  have := sumTo_update (f := fun i => wOf (h i)) (g := fun i => wOf (upd h b y i)) b n hb
    (by intro j hj; simp only [upd_ne _ _ _ _ hj])
  simp only [upd_same] at this
  exact this

theorem release_nil (h : Heap) (f : Nat) : release h f [] = h := by
  cases f <;> rfl

theorem release_fuel_indep (n : Nat) : ∀ (f g : Nat) (h : Heap) (pend : List Nat),
    (∀ b, n ≤ b → h b = none) → heapW h n + pend.length ≤ f → heapW h n + pend.length ≤ g →
    release h f pend = release h g pend := by
  intro f
  induction f with
  | zero =>
    intro g h pend _ hf _
    have : pend = [] := by
      cases pend with
      | nil => rfl
      | cons a r => simp at hf
    subst this
    rw [release_nil, release_nil]
  | succ f ih =>
    intro g h pend hfresh hf hg
    cases pend with
    | nil => rw [release_nil, release_nil]
    | cons b rest =>
      cases g with
      | zero => simp at hg
      | succ g =>
        simp only [List.length_cons] at hf hg
        cases hb : h b with
        | none =>
          simp only [release, hb]
          exact ih g h rest hfresh (by omega) (by omega)
        | some blk =>
          have hbn : b < n := by
            apply Classical.byContradiction
            intro hn
            have := hfresh b (by omega)
            rw [this] at hb; cases hb
          have hw : wOf (h b) = 1 + (kidsOfPay blk.pay).length := by rw [hb]; rfl
          by_cases hlast : blk.ref ≤ 1
          · simp only [release, hb, if_pos hlast]
            have h1 := heapW_upd h n b none hbn
            have h2 : wOf none = 0 := rfl
            apply ih g (upd h b none) _ _
            · simp only [List.length_append]; omega
            · simp only [List.length_append]; omega
            · intro x hx
              rw [upd_ne _ _ _ _ (by omega)]; exact hfresh x hx
          · simp only [release, hb, if_neg hlast]
            have h1 := heapW_upd h n b (some ⟨blk.ref - 1, blk.pay⟩) hbn
            have h2 : wOf (some (⟨blk.ref - 1, blk.pay⟩ : Block)) = 1 + (kidsOfPay blk.pay).length := rfl
            apply ih g (upd h b (some ⟨blk.ref - 1, blk.pay⟩)) _ _
            · omega
            · omega
            · intro x hx
              rw [upd_ne _ _ _ _ (by omega)]; exact hfresh x hx

theorem sumTo_le {f g : Nat → Nat} : ∀ n, (∀ i, i < n → f i ≤ g i) → sumTo f n ≤ sumTo g n
  | 0, _ => Nat.le_refl _
  | n + 1, h => by
    simp only [sumTo]
    have := sumTo_le n (fun i hi => h i (by omega))
    have := h n (by omega)
    omega

theorem sumTo_succ (f : Nat → Nat) : ∀ n, sumTo (fun i => f i + 1) n = sumTo f n + n
  | 0 => rfl
  | n + 1 => by simp only [sumTo]; rw [sumTo_succ f n]; omega

theorem heapW_le_relFuel (s : St) (k : Nat) : heapW s.heap s.next + k ≤ relFuel s k := by
  unfold relFuel heapW
  have h1 := sumTo_le (f := fun i => wOf (s.heap i)) (g := fun i => (kidsOf (s.heap i)).length + 1) s.next (by
    intro i _
    cases hi : s.heap i with
    | none => simp [wOf]
    | some blk => simp [wOf, kidsOf]; omega)
  rw [sumTo_succ] at h1
  omega

/-- the fuel the model hands to `release` suffices: any larger fuel gives the same heap -/
theorem relFuel_enough (s : St) (hfresh : ∀ b, s.next ≤ b → s.heap b = none) (pend : List Nat) (k g : Nat)
    (hk : pend.length ≤ k) (hg : relFuel s k ≤ g) : release s.heap g pend = release s.heap (relFuel s k) pend := by
  have := heapW_le_relFuel s k
  exact release_fuel_indep s.next g (relFuel s k) s.heap pend hfresh (by omega) (by omega)

end Nstd.Xml.Heap
