import Nstd.Xml.LemmasHeap9
/-
  The value of the TARGET after `vars[v] = String`: the text.
-/
namespace Nstd.Xml.Heap

open Nstd.Xml (Bytes)

theorem fresh_var_value (s : St) (hi : Inv s) (v : Nat) (hv : v < s.nv) (pay : Payload) (hk : kidsOfPay pay = []) (f : Nat)
    (val : Val)
    (hval : repV (upd s.heap s.next (some ⟨1, pay⟩)) val (some s.next)) :
    repV (release (upd s.heap s.next (some ⟨1, pay⟩)) f (s.vars v).toList) val (some s.next) := by
  have hfresh2 : ∀ b, s.next + 1 ≤ b → upd s.heap s.next (some ⟨1, pay⟩) b = none := by
    intro b hb
    have : b ≠ s.next := by omega
    rw [upd_ne _ _ _ _ this]; exact hi.fresh b (by omega)
  have hrel := release_spec (fun i => if i = v then some s.next else s.vars i) s.nv (s.next + 1) f
    (upd s.heap s.next (some ⟨1, pay⟩)) (s.vars v).toList (fresh_var_counts s hi v hv pay hk) hfresh2
  have := hrel.rep v val hv (by simpa using hval)
  simpa using this

theorem setStr_value (s : St) (hi : Inv s) (v : Nat) (hv : v < s.nv) (t : Bytes) :
    repV (assignStr s (.var v) (s.vars v) t).heap (.text t) ((assignStr s (.var v) (s.vars v) t).vars v) := by
  have hnew : repV (upd s.heap s.next (some ⟨1, .text t⟩)) (.text t) (some s.next) :=
    ⟨s.next, 1, rfl, upd_same _ _ _⟩
  cases hvc : s.vars v with
  | none =>
    simp only [assignStr, alloc, setLoc, if_pos]
    exact hnew
  | some c =>
    have hlive := var_live hi hv hvc
    cases hc : s.heap c with
    | none => simp [refOf, hc] at hlive
    | some blk =>
      obtain ⟨r, pay⟩ := blk
      cases pay with
      | text t0 =>
        by_cases hr : r > 1
        · have h := fresh_var_value s hi v hv (.text t) rfl
            (relFuel { heap := upd s.heap s.next (some ⟨1, .text t⟩), next := s.next + 1, nv := s.nv,
                       vars := fun i => if i = v then some s.next else s.vars i } 1) (.text t) hnew
          simp only [hvc, Option.toList] at h
          simpa [assignStr, alloc, setLoc, hc, hr] using h
        · simp only [assignStr, hc, if_neg hr]
          exact ⟨c, r, hvc, upd_same _ _ _⟩
      | elem e =>
        have h := fresh_var_value s hi v hv (.text t) rfl
          (relFuel { heap := upd s.heap s.next (some ⟨1, .text t⟩), next := s.next + 1, nv := s.nv,
                     vars := fun i => if i = v then some s.next else s.vars i } 1) (.text t) hnew
        simp only [hvc, Option.toList] at h
        simpa [assignStr, alloc, setLoc, hc] using h

end Nstd.Xml.Heap
