import Nstd.Xml.LemmasHeap4
/-
  Counting / payload lemmas for the primitives of the write-through operations (alloc, share the children,
  redirect one handle), and the "exclusively owned" block sets.
-/
namespace Nstd.Xml.Heap

open Nstd.Xml (Bytes attrSet)

/-! ### lists -/

theorem count_cons_one (c x : Nat) (l : List Nat) : (c :: l).count x = l.count x + [c].count x := by
  simp [List.count_cons]

theorem count_snoc_one (c x : Nat) (l : List Nat) : (l ++ [c]).count x = l.count x + [c].count x := by
  rw [List.count_append]

theorem count_set_get (x b c : Nat) : ∀ (l : List Nat) (k : Nat), l[k]? = some c →
    (l.set k b).count x + [c].count x = l.count x + [b].count x
  | [], k, h => by simp at h
  | a :: l, 0, h => by
    simp at h; subst h
    simp only [List.set_cons_zero]
    rw [count_cons_one b x l, count_cons_one a x l]; omega
  | a :: l, k + 1, h => by
    simp only [List.getElem?_cons_succ] at h
    have := count_set_get x b c l k h
    simp only [List.set_cons_succ]
    rw [count_cons_one a x (l.set k b), count_cons_one a x l]; omega

theorem mem_of_get {l : List Nat} {k c : Nat} (h : l[k]? = some c) : c ∈ l := List.mem_of_getElem? h

theorem optcount_some (c x : Nat) : (some c : Option Nat).toList.count x = [c].count x := rfl
theorem optcount_none (x : Nat) : (none : Option Nat).toList.count x = 0 := rfl

theorem one_count_self (c : Nat) : [c].count c = 1 := by simp
theorem one_count_ne {c x : Nat} (h : c ≠ x) : [c].count x = 0 := by simp [List.count_cons, h]

/-! ### payloads -/

theorem payOf_upd_ne (h : Heap) (b x : Nat) (y : Option Block) (hx : x ≠ b) : payOf (upd h b y) x = payOf h x := by
  simp [payOf, upd, hx]

theorem payOf_some {h : Heap} {x : Nat} {blk : Block} (hx : h x = some blk) : payOf h x = some blk.pay := by
  simp [payOf, hx]

theorem of_payOf_eq {h h' : Heap} {x : Nat} (he : payOf h x = payOf h' x) {blk : Block} (hx : h x = some blk) :
    ∃ r', h' x = some ⟨r', blk.pay⟩ := by
  rw [payOf_some hx] at he
  unfold payOf at he
  cases h2 : h' x with
  | none => rw [h2] at he; cases he
  | some b2 =>
    rw [h2] at he
    obtain ⟨r2, p2⟩ := b2
    simp at he
    exact ⟨r2, by rw [he]⟩

theorem kidsOf_of_payOf {h h' : Heap} {x : Nat} (he : payOf h x = payOf h' x) : kidsOf (h x) = kidsOf (h' x) := by
  rw [kidsOf_eq_payOf, kidsOf_eq_payOf, he]

theorem heapCnt_of_payOf (h h' : Heap) (n x : Nat) (he : ∀ i, i < n → payOf h i = payOf h' i) :
    heapCnt h n x = heapCnt h' n x := by
  unfold heapCnt
  apply sumTo_congr
  intro i hi
  rw [kidsOf_of_payOf (he i hi)]

/-! ### variables -/

theorem varCnt_set' (vars : Nat → Option Nat) (nv v : Nat) (o : Option Nat) (x : Nat) (hv : v < nv) :
    varCnt (fun i => if i = v then o else vars i) nv x + (vars v).toList.count x = varCnt vars nv x + o.toList.count x := by
  have := varCnt_set vars nv v o x hv
  have e1 : (vars v).toList.count x = if vars v = some x then 1 else 0 := by
    cases hvv : vars v with
    | none => simp
    | some c => by_cases hc : c = x <;> simp [List.count_cons, hc]
  have e2 : o.toList.count x = if o = some x then 1 else 0 := by
    cases o with
    | none => simp
    | some c => by_cases hc : c = x <;> simp [List.count_cons, hc]
  omega

/-! ### incRef / incRefs -/

theorem payOf_incRef (h : Heap) (b x : Nat) : payOf (incRef h b) x = payOf h x := by
  unfold incRef
  cases hb : h b with
  | none => rfl
  | some blk =>
    by_cases hx : x = b
    · subst hx; simp [payOf, upd, hb]
    · exact payOf_upd_ne h b x _ hx

theorem refOf_incRef (h : Heap) (b x : Nat) (hb : h b ≠ none) : refOf (incRef h b) x = refOf h x + [b].count x := by
  unfold incRef
  cases hbb : h b with
  | none => exact absurd hbb hb
  | some blk =>
    by_cases hx : x = b
    · subst hx; rw [refOf_upd_some, one_count_self]; simp [refOf, hbb]
    · rw [refOf_upd_ne _ _ _ _ hx, one_count_ne (Ne.symm hx)]; rfl

theorem incRef_none (h : Heap) (b x : Nat) (hx : h x = none) : incRef h b x = none := by
  unfold incRef
  cases hb : h b with
  | none => exact hx
  | some blk =>
    have : x ≠ b := by intro e; subst e; rw [hx] at hb; cases hb
    rw [upd_ne _ _ _ _ this]; exact hx

theorem incRef_live (h : Heap) (b x : Nat) (hx : h x ≠ none) : incRef h b x ≠ none := by
  intro hn
  have h1 := payOf_incRef h b x
  unfold payOf at h1
  rw [hn] at h1
  cases hxx : h x with
  | none => exact hx hxx
  | some blk => rw [hxx] at h1; cases h1

theorem payOf_incRefs (x : Nat) : ∀ (ks : List Nat) (h : Heap), payOf (incRefs h ks) x = payOf h x
  | [], h => rfl
  | b :: r, h => by
    simp only [incRefs]
    rw [payOf_incRefs x r (incRef h b), payOf_incRef]

theorem incRefs_none (x : Nat) : ∀ (ks : List Nat) (h : Heap), h x = none → incRefs h ks x = none
  | [], h, hx => hx
  | b :: r, h, hx => by
    simp only [incRefs]
    exact incRefs_none x r _ (incRef_none h b x hx)

theorem refOf_incRefs (x : Nat) : ∀ (ks : List Nat) (h : Heap), (∀ c ∈ ks, h c ≠ none) →
    refOf (incRefs h ks) x = refOf h x + ks.count x
  | [], h, _ => by simp [incRefs]
  | b :: r, h, hl => by
    simp only [incRefs]
    rw [refOf_incRefs x r (incRef h b) (fun c hc => incRef_live h b c (hl c (by simp [hc]))),
      refOf_incRef h b x (hl b (by simp))]
    have := count_cons_one b x r
    omega

/-! ### redirecting one handle -/

/-- the Variant at `loc` currently holds `cur` -/
def LocHolds (s : St) : Loc → Option Nat → Prop
  | .var v, cur => v < s.nv ∧ s.vars v = cur
  | .kid p k, cur => ∃ r e c, p < s.next ∧ s.heap p = some ⟨r, .elem e⟩ ∧ e.kids[k]? = some c ∧ cur = some c

theorem setLoc_nv (s : St) (loc : Loc) (b : Nat) : (setLoc s loc b).nv = s.nv := by cases loc <;> rfl
theorem setLoc_next (s : St) (loc : Loc) (b : Nat) : (setLoc s loc b).next = s.next := by cases loc <;> rfl

theorem setKid_elem (h : Heap) (p k b r : Nat) (e : HElem) (hp : h p = some ⟨r, .elem e⟩) :
    setKid h p k b = upd h p (some ⟨r, .elem ⟨e.name, e.attrs, e.kids.set k b⟩⟩) := by
  simp [setKid, hp]

theorem setLoc_refOf (s : St) (loc : Loc) (cur : Option Nat) (b x : Nat) (hl : LocHolds s loc cur) :
    refOf (setLoc s loc b).heap x = refOf s.heap x := by
  cases loc with
  | var v => rfl
  | kid p k =>
    obtain ⟨r, e, c, _, hp, _, _⟩ := hl
    show refOf (setKid s.heap p k b) x = _
    rw [setKid_elem _ _ _ _ _ _ hp]
    by_cases hx : x = p
    · subst hx; rw [refOf_upd_some]; simp [refOf, hp]
    · rw [refOf_upd_ne _ _ _ _ hx]

theorem setLoc_counts (s : St) (loc : Loc) (cur : Option Nat) (b x : Nat) (hl : LocHolds s loc cur) :
    varCnt (setLoc s loc b).vars s.nv x + heapCnt (setLoc s loc b).heap s.next x + cur.toList.count x =
      varCnt s.vars s.nv x + heapCnt s.heap s.next x + [b].count x := by
  cases loc with
  | var v =>
    obtain ⟨hv, hc⟩ := hl
    have := varCnt_set' s.vars s.nv v (some b) x hv
    rw [hc] at this
    show varCnt (fun i => if i = v then some b else s.vars i) s.nv x + heapCnt s.heap s.next x + _ = _
    rw [optcount_some] at this
    omega
  | kid p k =>
    obtain ⟨r, e, c, hpn, hp, hk, hcur⟩ := hl
    subst hcur
    show varCnt s.vars s.nv x + heapCnt (setKid s.heap p k b) s.next x + _ = _
    rw [setKid_elem _ _ _ _ _ _ hp, optcount_some]
    have h1 := heapCnt_upd s.heap s.next p (some ⟨r, .elem ⟨e.name, e.attrs, e.kids.set k b⟩⟩) x hpn
    have h2 : (kidsOf (s.heap p)).count x = e.kids.count x := by rw [hp]; rfl
    have h3 : (kidsOf (some (⟨r, .elem ⟨e.name, e.attrs, e.kids.set k b⟩⟩ : Block))).count x = (e.kids.set k b).count x := rfl
    have h4 := count_set_get x b c e.kids k hk
    omega

theorem setLoc_payOf (s : St) (loc : Loc) (b x : Nat) (hx : ∀ p k, loc = .kid p k → x ≠ p) :
    payOf (setLoc s loc b).heap x = payOf s.heap x := by
  cases loc with
  | var v => rfl
  | kid p k =>
    show payOf (setKid s.heap p k b) x = _
    unfold setKid
    split
    · exact payOf_upd_ne _ _ _ _ (hx p k rfl)
    · rfl

theorem setLoc_vars_other (s : St) (loc : Loc) (b v w : Nat) (hl : ∀ v', loc = .var v' → v' = v) (hw : w ≠ v) :
    (setLoc s loc b).vars w = s.vars w := by
  cases loc with
  | var v' =>
    have := hl v' rfl
    subst this
    show (if w = v' then some b else s.vars w) = _
    simp [hw]
  | kid p k => rfl

theorem setLoc_none (s : St) (loc : Loc) (b x : Nat) (hx : s.heap x = none) : (setLoc s loc b).heap x = none := by
  cases loc with
  | var v => exact hx
  | kid p k =>
    show setKid s.heap p k b x = none
    unfold setKid
    split
    · rename_i r e hp
      have : x ≠ p := by intro e2; subst e2; rw [hx] at hp; cases hp
      rw [upd_ne _ _ _ _ this]; exact hx
    · exact hx

/-! ### alloc -/

theorem alloc_heapCnt (s : St) (pay : Payload) (x : Nat) :
    heapCnt (alloc s pay).1.heap (s.next + 1) x = heapCnt s.heap s.next x + (kidsOfPay pay).count x := by
  show heapCnt (upd s.heap s.next (some ⟨1, pay⟩)) (s.next + 1) x = _
  rw [heapCnt_alloc]; rfl

theorem alloc_refOf (s : St) (pay : Payload) (x : Nat) (hn : s.heap s.next = none) :
    refOf (alloc s pay).1.heap x = refOf s.heap x + [s.next].count x := by
  show refOf (upd s.heap s.next (some ⟨1, pay⟩)) x = _
  by_cases hx : x = s.next
  · subst hx; rw [refOf_upd_some, one_count_self, refOf_none hn]
  · rw [refOf_upd_ne _ _ _ _ hx, one_count_ne (Ne.symm hx)]; rfl

end Nstd.Xml.Heap
