import Nstd.Xml.LemmasHeap10
/-
  Property C16, third sentence — "copies of element values are independent of their source" — about the heap
  model of `Xml::Variant` / `Xml::Element` handles (Heap.lean: blocks with reference counts, copies share the
  block, `clear()` decrements and frees at zero — recursively through the content of an element —, the mutable
  accessors clone unless the count is one).  A VALUE is what a handle denotes: `repV heap val handle` unfolds
  the blocks reachable from the handle into an immutable tree `Val` (null | text | element with nested children).

  Proved here, for ALL states that satisfy the invariant `Inv` (reference count ≥ number of handles pointing to
  the block, for every block) and all values incl. arbitrarily nested and arbitrarily shared children:
    * dropping handles (`release`, the work-list form of `Variant::clear()` / `~Element`) never changes the value
      of any variable (it frees only blocks nobody points to) and keeps the invariant;
    * `vars[d] = vars[s]` (the repaired `Variant::operator=(const Variant&)`, sharing the block) gives `d` the value
      of `s`, leaves every other variable's value alone and keeps the invariant; `vars[v].clear()` likewise;
    * `vars[v] = String` (`operator=(const String&)`): a text whose count is at most one is overwritten IN PLACE — no
      other variable can reach that block (two holders would make the count two) —, otherwise a fresh block is
      made and the old handle dropped; every other variable keeps its value;
    * `Op.mut`: the mutable `toElement()` on the variable, then `content[k].toElement()` down ANY path (a shared
      element — count > 1 — is cloned into a fresh block whose content shares the children; a text / null Variant
      is replaced by a fresh empty element; an element whose count is one is used IN PLACE), then any edit of that
      element (rename, attribute, append text / element / another variable's Variant, remove the first child,
      `Element::clear`, text assignment to a content entry incl. its in-place write): every other variable keeps its
      value.  Reason: every block handed out for writing in place has count ≤ 1 and its one handle sits in a block
      that was handed out the same way (or in the variable itself), so two distinct holders are impossible (`Excl`);
    * hence for EVERY history of operations over any number of variables: a variable that is not the target of an
      operation has the same value at the end as at the start (`independent`), and the invariant holds in every
      reachable state (`reach_inv`).
-/
namespace Nstd.Xml.Heap

/-- The empty state meets the invariant. -/
theorem handles_inv_init (nv : Nat) : Inv (init nv) := inv_init nv

/-- Dropping handles (`Variant::clear()` over a work list, as run by clear / assignment / destruction of an
    element's content): whenever every block's reference count covers the handles that still exist plus the
    ones being dropped, the result again satisfies "count ≤ reference count", nothing is allocated, every
    surviving block keeps its payload, and EVERY variable keeps its value — whatever the fuel. -/
theorem release_keeps_values (vars : Nat → Option Nat) (nv next f : Nat) (h : Heap) (pend : List Nat)
    (hcnt : ∀ x, varCnt vars nv x + heapCnt h next x + pend.count x ≤ refOf h x)
    (hfresh : ∀ b, next ≤ b → h b = none) :
    (∀ x, varCnt vars nv x + heapCnt (release h f pend) next x ≤ refOf (release h f pend) x) ∧
    (∀ w val, w < nv → repV h val (vars w) → repV (release h f pend) val (vars w)) :=
  ⟨(release_spec vars nv next f h pend hcnt hfresh).cnt_le, (release_spec vars nv next f h pend hcnt hfresh).rep⟩

/-- ONE operation of any kind — copy assignment (`operator=(const Variant&)`), `clear()`, text assignment
    (`operator=(const String&)`, in place when the count is one), or a write through the mutable accessors down a
    path followed by an edit —: the invariant is kept and every variable other than the target keeps its value. -/
theorem step_independent (s : St) (hi : Inv s) (op : Op) :
    Inv (step s op) ∧ (step s op).nv = s.nv ∧
    ∀ w val, w ≠ op.target → w < s.nv → repV s.heap val (s.vars w) → repV (step s op).heap val ((step s op).vars w) := by
  cases op with
  | assign d src =>
    by_cases hc : d < s.nv ∧ src < s.nv
    · by_cases hne : d = src
      · have : step s (.assign d src) = s := by simp [step, step?, hc, hne]
        rw [this]; exact ⟨hi, rfl, fun _ _ _ _ h => h⟩
      · obtain ⟨s', hs', hi', hk, _⟩ := assign_ok s hi d src hc.1 hc.2 hne
        have : step s (.assign d src) = s' := by simp [step, hs']
        rw [this]; exact ⟨hi', hk.1, hk.2⟩
    · have : step s (.assign d src) = s := by simp [step, step?, hc]
      rw [this]; exact ⟨hi, rfl, fun _ _ _ _ h => h⟩
  | clear v =>
    by_cases hv : v < s.nv
    · obtain ⟨s', hs', hi', hk⟩ := clear_step_ok s hi v hv
      have : step s (.clear v) = s' := by simp [step, hs']
      rw [this]; exact ⟨hi', hk.1, hk.2⟩
    · have : step s (.clear v) = s := by simp [step, step?, hv]
      rw [this]; exact ⟨hi, rfl, fun _ _ _ _ h => h⟩
  | setStr v t =>
    by_cases hv : v < s.nv
    · have h := setStr_ok s hi v hv t
      have : step s (.setStr v t) = assignStr s (.var v) (s.vars v) t := by simp [step, step?, hv]
      rw [this]; exact ⟨h.1, h.2.1, h.2.2⟩
    · have : step s (.setStr v t) = s := by simp [step, step?, hv]
      rw [this]; exact ⟨hi, rfl, fun _ _ _ _ h => h⟩
  | «mut» v p e =>
    cases hs : step? s (.mut v p e) with
    | none =>
      have : step s (.mut v p e) = s := by simp [step, hs]
      rw [this]; exact ⟨hi, rfl, fun _ _ _ _ h => h⟩
    | some s' =>
      have h := mut_ok s hi v p e s' hs
      have : step s (.mut v p e) = s' := by simp [step, hs]
      rw [this]; exact ⟨h.1, h.2.1, h.2.2⟩

/-- The copy has the value of its source: after `vars[d] = vars[s]` (d ≠ s) the value of `d` is the value `s` had
    (and, by the theorem above, `s` still has it). -/
theorem assign_copies_value (s : St) (hi : Inv s) (d src : Nat) (hd : d < s.nv) (hs : src < s.nv) (hne : d ≠ src)
    (val : Val) (hv : repV s.heap val (s.vars src)) :
    repV (step s (.assign d src)).heap val ((step s (.assign d src)).vars d) ∧
    repV (step s (.assign d src)).heap val ((step s (.assign d src)).vars src) := by
  obtain ⟨s', hs', _, hk, hcopy⟩ := assign_ok s hi d src hd hs hne
  have : step s (.assign d src) = s' := by simp [step, hs']
  rw [this]
  exact ⟨hcopy val hv, hk.2 src val (Ne.symm hne) hs hv⟩

/-- ALL histories: over any sequence of operations (any number of variables, values of any depth and sharing), the
    invariant holds at the end and every variable that no operation of the history writes to has the value it had
    at the start — copies are independent of their source and of each other. -/
theorem independent (ops : List Op) : ∀ (s : St), Inv s →
    Inv (run s ops) ∧
    ∀ w val, (∀ op ∈ ops, op.target ≠ w) → w < s.nv → repV s.heap val (s.vars w) →
      repV (run s ops).heap val ((run s ops).vars w) := by
  induction ops with
  | nil => intro s hi; exact ⟨hi, fun _ _ _ _ h => h⟩
  | cons op ops ih =>
    intro s hi
    obtain ⟨hi1, hnv, hk⟩ := step_independent s hi op
    obtain ⟨hi2, hk2⟩ := ih (step s op) hi1
    refine ⟨hi2, ?_⟩
    intro w val hw hwn hr
    apply hk2 w val (fun o ho => hw o (by simp [ho])) (by rw [hnv]; exact hwn)
    exact hk w val (Ne.symm (hw op (by simp))) hwn hr

/-- Every reachable state satisfies the invariant. -/
theorem reach_inv (nv : Nat) (ops : List Op) : Inv (run (init nv) ops) :=
  (independent ops (init nv) (inv_init nv)).1

/-- "A copy is independent of its source", spelled out: copy `src` into `d`, then run ANY history that never writes
    through `src`: `src` still has its value; and any history that never writes through `d`: the copy still has the
    value the source had when it was copied. -/
theorem copy_then_any_history (s : St) (hi : Inv s) (d src : Nat) (hd : d < s.nv) (hs : src < s.nv) (hne : d ≠ src)
    (val : Val) (hv : repV s.heap val (s.vars src)) (ops : List Op) :
    ((∀ op ∈ ops, op.target ≠ src) →
      repV (run (step s (.assign d src)) ops).heap val ((run (step s (.assign d src)) ops).vars src)) ∧
    ((∀ op ∈ ops, op.target ≠ d) →
      repV (run (step s (.assign d src)) ops).heap val ((run (step s (.assign d src)) ops).vars d)) := by
  have h0 := step_independent s hi (.assign d src)
  have hc := assign_copies_value s hi d src hd hs hne val hv
  have h1 := independent ops (step s (.assign d src)) h0.1
  exact ⟨fun h => h1.2 src val h (by rw [h0.2.1]; exact hs) hc.2, fun h => h1.2 d val h (by rw [h0.2.1]; exact hd) hc.1⟩

/-- Fuel of `release` (the bounded loop that stands for the recursion `clear()` → `~Element` → `~List<Variant>` →
    `clear()` …): every iteration strictly decreases (live blocks + handles stored in live blocks + pending
    handles), so the fuel the model hands over (`relFuel`) always suffices — ANY larger fuel yields the same heap,
    i.e. the destruction runs to the end of its work list on every heap (no bound on depth or sharing). -/
theorem release_fuel_suffices (s : St) (hi : Inv s) (pend : List Nat) (k g : Nat)
    (hk : pend.length ≤ k) (hg : relFuel s k ≤ g) : release s.heap g pend = release s.heap (relFuel s k) pend :=
  relFuel_enough s hi.fresh pend k g hk hg

/-- `clear()` leaves the variable null. -/
theorem clear_value (s : St) (hi : Inv s) (v : Nat) (hv : v < s.nv) :
    repV (step s (.clear v)).heap .null ((step s (.clear v)).vars v) := by
  show (step s (.clear v)).vars v = none
  simp [step, step?, hv]

/-- `vars[v] = String` leaves the variable with that text (whether it was written in place or into a fresh block). -/
theorem setStr_target_value (s : St) (hi : Inv s) (v : Nat) (hv : v < s.nv) (t : Nstd.Xml.Bytes) :
    repV (step s (.setStr v t)).heap (.text t) ((step s (.setStr v t)).vars v) := by
  have : step s (.setStr v t) = assignStr s (.var v) (s.vars v) t := by simp [step, step?, hv]
  rw [this]; exact setStr_value s hi v hv t

/-- non-vacuity: two variables sharing an element with a nested text child; the shared blocks carry count 2 / 1 -/
example :
    let h : Heap := ⟨fun i => if i = 0 then some ⟨2, .elem ⟨[97], [], [1]⟩⟩ else if i = 1 then some ⟨1, .text [120]⟩ else none⟩
    let s : St := ⟨h, 2, 2, fun v => if v < 2 then some 0 else none⟩
    repV s.heap (.elem [97] [] (.text [120] .nil)) (s.vars 0) ∧ repV s.heap (.elem [97] [] (.text [120] .nil)) (s.vars 1) := by
  refine ⟨⟨0, 2, [1], rfl, rfl, 1, [], 1, rfl, rfl, rfl⟩, ⟨0, 2, [1], rfl, rfl, 1, [], 1, rfl, rfl, rfl⟩⟩

/- OPEN: `refines` — the NEW value of the target variable: `abs (run (init nv) ops) = Spec.run ops` for a store of
   immutable trees per variable (the edit lands at the addressed path of the target's tree and nowhere else in it).
   Proved of it: the copy has the source's value (`assign_copies_value`); `clear_value`, `setStr_target_value`; what is not proved is the functional effect
   of `mut` on the target itself (tested by the correspondence run against the eager-copy
   reference).  Needs the sibling frame inside the target's own tree (the same `Excl` argument: a sibling of a path
   block is not a path block, else the count would be two).
   Not claimed: that nothing leaks (every unreachable block is freed) — that is reference-count exactness,
   property C09 (area Rc); here the counts are only bounded from below (`Inv`). -/

end Nstd.Xml.Heap
