import Nstd.Xml.LemmasHeap4
/-
  Property C16, third sentence — "copies of element values are independent of their source" — about the heap
  model of `Xml::Variant` / `Xml::Element` handles (Heap.lean: blocks with reference counts, copies share the
  block, `clear()` decrements and frees at zero — recursively through the content of an element —, the mutable
  accessors clone unless the count is one).  A VALUE is what a handle denotes: `repV heap val handle` unfolds
  the blocks reachable from the handle into an immutable tree `Val` (null | text | element with nested children).

  Proved here, for ALL states that satisfy the invariant `Inv` (reference count ≥ number of handles pointing to
  the block, for every block) and all values incl. arbitrarily nested and arbitrarily shared children:
    * dropping handles (`release`, the work-list form of `Variant::clear()` / `~Element`) never changes the value
      of any variable (it frees only blocks nobody points to) and keeps the invariant;
    * `vars[d] = vars[s]` (the repaired `Variant::operator=(const Variant&)`, sharing the block) gives `d` the value
      of `s`, leaves every other variable's value alone and keeps the invariant; `vars[v].clear()` likewise;
    * `vars[v] = String` (`operator=(const String&)`): a text whose count is at most one is overwritten IN PLACE — no
      other variable can reach that block (two holders would make the count two) —, otherwise a fresh block is
      made and the old handle dropped; every other variable keeps its value;
    * hence for every history of such operations over any number of variables: a variable that is not the target
      of an operation has the same value at the end as at the start.
-/
namespace Nstd.Xml.Heap

/-- the operations on whole variables: copy assignment, clear, assignment of a text -/
def Op.varLevel : Op → Bool
  | .assign _ _ => true
  | .clear _ => true
  | .setStr _ _ => true
  | _ => false

/-- The empty state meets the invariant. -/
theorem handles_inv_init (nv : Nat) : Inv (init nv) := inv_init nv

/-- Dropping handles (`Variant::clear()` over a work list, as run by clear / assignment / destruction of an
    element's content): whenever every block's reference count covers the handles that still exist plus the
    ones being dropped, the result again satisfies "count ≤ reference count", nothing is allocated, every
    surviving block keeps its payload, and EVERY variable keeps its value — whatever the fuel. -/
theorem release_keeps_values (vars : Nat → Option Nat) (nv next f : Nat) (h : Heap) (pend : List Nat)
    (hcnt : ∀ x, varCnt vars nv x + heapCnt h next x + pend.count x ≤ refOf h x)
    (hfresh : ∀ b, next ≤ b → h b = none) :
    (∀ x, varCnt vars nv x + heapCnt (release h f pend) next x ≤ refOf (release h f pend) x) ∧
    (∀ w val, w < nv → repV h val (vars w) → repV (release h f pend) val (vars w)) :=
  ⟨(release_spec vars nv next f h pend hcnt hfresh).cnt_le, (release_spec vars nv next f h pend hcnt hfresh).rep⟩

/-- One copy assignment, clear or text assignment (`operator=(const String&)`: a text block whose count is one is
    WRITTEN IN PLACE, otherwise a fresh block is made): the invariant is kept and every variable other than the
    target keeps its value. -/
theorem varlevel_step_independent (s : St) (hi : Inv s) (op : Op) (hop : op.varLevel = true) :
    Inv (step s op) ∧ (step s op).nv = s.nv ∧
    ∀ w val, w ≠ op.target → w < s.nv → repV s.heap val (s.vars w) → repV (step s op).heap val ((step s op).vars w) := by
  cases op with
  | assign d src =>
    by_cases hc : d < s.nv ∧ src < s.nv
    · by_cases hne : d = src
      · have : step s (.assign d src) = s := by simp [step, step?, hc, hne]
        rw [this]; exact ⟨hi, rfl, fun _ _ _ _ h => h⟩
      · obtain ⟨s', hs', hi', hk, _⟩ := assign_ok s hi d src hc.1 hc.2 hne
        have : step s (.assign d src) = s' := by simp [step, hs']
        rw [this]; exact ⟨hi', hk.1, hk.2⟩
    · have : step s (.assign d src) = s := by simp [step, step?, hc]
      rw [this]; exact ⟨hi, rfl, fun _ _ _ _ h => h⟩
  | clear v =>
    by_cases hv : v < s.nv
    · obtain ⟨s', hs', hi', hk⟩ := clear_step_ok s hi v hv
      have : step s (.clear v) = s' := by simp [step, hs']
      rw [this]; exact ⟨hi', hk.1, hk.2⟩
    · have : step s (.clear v) = s := by simp [step, step?, hv]
      rw [this]; exact ⟨hi, rfl, fun _ _ _ _ h => h⟩
  | setStr v t =>
    by_cases hv : v < s.nv
    · have h := setStr_ok s hi v hv t
      have : step s (.setStr v t) = assignStr s (.var v) (s.vars v) t := by simp [step, step?, hv]
      rw [this]; exact ⟨h.1, h.2.1, h.2.2⟩
    · have : step s (.setStr v t) = s := by simp [step, step?, hv]
      rw [this]; exact ⟨hi, rfl, fun _ _ _ _ h => h⟩
  | «mut» v p e => cases hop

/-- The copy has the value of its source: after `vars[d] = vars[s]` (d ≠ s) the value of `d` is the value `s` had
    (and, by the theorem above, `s` still has it). -/
theorem assign_copies_value (s : St) (hi : Inv s) (d src : Nat) (hd : d < s.nv) (hs : src < s.nv) (hne : d ≠ src)
    (val : Val) (hv : repV s.heap val (s.vars src)) :
    repV (step s (.assign d src)).heap val ((step s (.assign d src)).vars d) ∧
    repV (step s (.assign d src)).heap val ((step s (.assign d src)).vars src) := by
  obtain ⟨s', hs', _, hk, hcopy⟩ := assign_ok s hi d src hd hs hne
  have : step s (.assign d src) = s' := by simp [step, hs']
  rw [this]
  exact ⟨hcopy val hv, hk.2 src val (Ne.symm hne) hs hv⟩

/-- Histories: over any sequence of copy assignments, clears and text assignments (any number of variables, values of any depth and
    sharing), the invariant holds at the end and every variable that no operation of the history writes to has
    the value it had at the start. -/
theorem independent_partial (ops : List Op) : ∀ (s : St), Inv s → (∀ op ∈ ops, op.varLevel = true) →
    Inv (run s ops) ∧
    ∀ w val, (∀ op ∈ ops, op.target ≠ w) → w < s.nv → repV s.heap val (s.vars w) →
      repV (run s ops).heap val ((run s ops).vars w) := by
  induction ops with
  | nil => intro s hi _; exact ⟨hi, fun _ _ _ _ h => h⟩
  | cons op ops ih =>
    intro s hi hall
    obtain ⟨hi1, hnv, hk⟩ := varlevel_step_independent s hi op (hall op (by simp))
    obtain ⟨hi2, hk2⟩ := ih (step s op) hi1 (fun o ho => hall o (by simp [ho]))
    refine ⟨hi2, ?_⟩
    intro w val hw hwn hr
    apply hk2 w val (fun o ho => hw o (by simp [ho])) (by rw [hnv]; exact hwn)
    exact hk w val (Ne.symm (hw op (by simp))) hwn hr

/-- non-vacuity: two variables sharing an element with a nested text child; the shared blocks carry count 2 / 1 -/
example :
    let h : Heap := ⟨fun i => if i = 0 then some ⟨2, .elem ⟨[97], [], [1]⟩⟩ else if i = 1 then some ⟨1, .text [120]⟩ else none⟩
    let s : St := ⟨h, 2, 2, fun v => if v < 2 then some 0 else none⟩
    repV s.heap (.elem [97] [] (.text [120] .nil)) (s.vars 0) ∧ repV s.heap (.elem [97] [] (.text [120] .nil)) (s.vars 1) := by
  refine ⟨⟨0, 2, [1], rfl, rfl, 1, [], 1, rfl, rfl, rfl⟩, ⟨0, 2, [1], rfl, rfl, 1, [], 1, rfl, rfl, rfl⟩⟩

/- OPEN: independence and refinement for the operations that write THROUGH a handle — `Op.mut` (mutable
   `toElement()` down a path of content entries, then rename / attribute / append / remove / clear / text
   assignment to a child / append of another variable's Variant):
     independent : Inv s → ∀ op w val, w ≠ op.target → w < s.nv → repV s.heap val (s.vars w) →
                     repV (step s op).heap val ((step s op).vars w)            -- and Inv (step s op)
     refines     : ∀ ops, abs (run (init nv) ops) = Spec.run ops               -- store of immutable trees per variable
   Not proved in this round.  The model has these operations (Heap.lean: accessElem clones when ref > 1, writes in
   place otherwise; assignStr; walk; editAt) and the correspondence run executes them on the real code against an
   independent reference with eager deep copies (all histories ≤ 3 ops over 12 ops, 3 000 random histories).
   What is proved of the ingredients: the frame lemma `repV_frame` (a write inside a set P of blocks into which
   nothing outside P points leaves every representation that starts outside P alone), `release_keeps_values`,
   and the counting lemmas.  Missing: (1) "count ≤ ref" through alloc / share-children / redirect-one-handle;
   (2) the exclusive-path argument: the blocks handed out by the walk have count ≤ 1, each held by the previous
   one, so no other variable reaches them (two distinct holders would make the count 2) — P := the path. -/

end Nstd.Xml.Heap
