import Nstd.Generated.XmlScan
import Nstd.Xml.LemmasSafe
/-
  Lemmas for PropsGen.lean (tie by translation, extension round 7): byte-exhaustive facts about the generated
  predicates / character sets, the continuations that say how the model goes on after one translated loop body.
-/
set_option linter.unusedSimpArgs false
namespace Nstd.Xml
open CSem

theorem forall_byte {P : UInt8 → Prop} (h : ∀ n : Fin 256, P (UInt8.ofNat n.val)) (c : UInt8) : P c := by
  have := h ⟨c.toNat, c.toNat_lt⟩
  simpa using this

theorem isSpace_translated : Generated.isSpace = isSpace := by
  funext c
  revert c
  apply forall_byte
  decide +kernel

def skipOuterK (t : Bytes) (f : Nat) : Ctl → Res (Pos × Option Pos)
  | .next _ s => skipLoop t f false s.pos s.ce
  | .enter _ s _ => skipLoop t f true s.pos s.ce
  | .ret s => .ok (s.pos, s.ce)

def skipInnerK (t : Bytes) (f : Nat) : Ctl → Res (Pos × Option Pos)
  | .next lvl s => if lvl = 0 then skipLoop t f false s.pos s.ce else skipLoop t f true s.pos s.ce
  | .enter _ s _ => .ok (s.pos, s.ce)
  | .ret s => .ok (s.pos, s.ce)

theorem strncmp0_lit (s lit : Bytes) (n : Nat) (h : lit.length = n) : strncmp0 s lit n = decide (s.take n = lit) := by
  subst h
  simp only [strncmp0, List.take_length]
  by_cases h : s.take lit.length = lit <;> simp [h]

theorem skipLoop_outer_translated (t : Bytes) (f : Nat) (p : Pos) (ce : Option Pos) (tok : Token) (tx : Bytes) :
    skipLoop t (f + 1) false p ce = (Generated.skipSpace_loop0 t ⟨p, ce, tok, tx⟩).bind (skipOuterK t f) := by
  simp only [skipLoop, Generated.skipSpace_loop0, isSpace_translated]
  cases h : peek t p.pos with
  | ok c =>
    simp only [Res.ok_bind]
    by_cases h13 : c = 13
    · subst h13
      cases peek t (p.pos + 1) with
      | ok d => by_cases hd : d = 10 <;> simp [hd, skipOuterK]
      | _ => simp
    · by_cases h10 : c = 10
      · subst h10; simp [skipOuterK]
      · by_cases h60 : c = 60
        · subst h60
          cases cstr t (p.pos + 1) with
          | ok z =>
            simp only [Res.ok_bind, strncmp0_lit z [33, 45, 45] 3 rfl]
            by_cases hz : z.take 3 = [33, 45, 45] <;> simp [hz, skipOuterK, isSpace]
          | _ => simp
        · by_cases hs : isSpace c <;> simp [h13, h10, h60, hs, skipOuterK]
  | _ => simp

theorem strpbrk_eq (set : Bytes) (p : UInt8 → Bool) (h : ∀ b, set.contains b = p b) (s : Bytes) :
    strpbrk set s = idxOf p s := by
  have : (fun b => set.contains b) = p := funext h
  unfold strpbrk
  rw [this]

theorem commentStop_set : ∀ b : UInt8, Generated.skipSpace_set0.contains b = isCommentScanStop b := by
  apply forall_byte; decide +kernel

theorem textStop_set : ∀ b : UInt8, Generated.parseText_set0.contains b = isTextScanStop b := by
  apply forall_byte; decide +kernel

theorem skipLoop_inner_translated (t : Bytes) (f : Nat) (p : Pos) (ce : Option Pos) (tok : Token) (tx : Bytes) :
    skipLoop t (f + 1) true p ce = (Generated.skipSpace_loop1 t ⟨p, ce, tok, tx⟩).bind (skipInnerK t f) := by
  simp only [skipLoop, Generated.skipSpace_loop1]
  cases h : cstr t p.pos with
  | ok z =>
    simp only [Res.ok_bind, strpbrk_eq _ _ commentStop_set]
    cases hk : idxOf isCommentScanStop z with
    | none => simp [skipInnerK]
    | some k =>
      simp only []
      cases peek t (p.pos + k) with
      | ok c =>
        simp only [Res.ok_bind]
        by_cases h13 : c = 13
        · subst h13
          cases peek t (p.pos + k + 1) with
          | ok d => by_cases hd : d = 10 <;> simp [hd, skipInnerK]
          | _ => simp
        · by_cases h10 : c = 10
          · subst h10; simp [skipInnerK]
          · cases cstr t (p.pos + k + 1) with
            | ok z2 =>
              simp only [Res.ok_bind, strncmp0_lit z2 [45, 62] 2 rfl]
              by_cases hz : z2.take 2 = [45, 62] <;> simp [h13, h10, hz, skipInnerK]
            | _ => simp [h13, h10]
      | _ => simp
  | _ => simp

theorem cstr_ok {t : Bytes} {i : Nat} {z : Bytes} (h : cstr t i = .ok z) : i ≤ t.length ∧ z = t.drop i := by
  unfold cstr at h
  by_cases hi : i ≤ t.length
  · simp [hi] at h; exact ⟨hi, h.symm⟩
  · simp [hi] at h

theorem mem_eq {t : Bytes} {a n : Nat} (h : a + n ≤ t.length) : mem t a n = .ok ((t.drop a).take n) := by
  simp [mem, h]

/-- continuation of the model behind one run of the loop body of `parseText` -/
def textK (t : Bytes) (f : Nat) (start : Nat) : Ctl → Res (Bytes × Pos)
  | .next _ s => (textLoop t f s.pos).bind fun q => .ok (unescape (slice t start q.pos), q)
  | .enter _ s _ => .ok (s.text, s.pos)
  | .ret s => .ok (s.text, s.pos)

theorem textLoop_translated (t : Bytes) (f : Nat) (start : Nat) (p : Pos) (ce : Option Pos) (tok : Token) (tx : Bytes)
    (hs : start ≤ p.pos) :
    ((textLoop t (f + 1) p).bind fun q => .ok (unescape (slice t start q.pos), q)) =
      (Generated.parseText_loop0 t start ⟨p, ce, tok, tx⟩).bind (textK t f start) := by
  simp only [textLoop, Generated.parseText_loop0]
  cases h : cstr t p.pos with
  | ok z =>
    simp only [Res.ok_bind, strpbrk_eq _ _ textStop_set]
    cases hk : idxOf isTextScanStop z with
    | none => simp [Generated.syntaxError, Pos.col]
    | some k =>
      simp only []
      obtain ⟨hp, rfl⟩ := cstr_ok h
      obtain ⟨hk1, hk2, _⟩ := idxOf_some hk
      simp only [List.length_drop] at hk1
      have hget : (t.drop p.pos).getD k 0 = t.getD (p.pos + k) 0 := by
        simp [List.getD_eq_getElem?_getD, List.getElem?_drop]
      rw [hget] at hk2
      rw [peek_lt (show p.pos + k < t.length by omega)]
      generalize t.getD (p.pos + k) 0 = c at hk2
      have hc3 : c = 60 ∨ c = 13 ∨ c = 10 := by simpa [isTextScanStop, or_assoc] using hk2
      simp only [Res.ok_bind]
      rcases hc3 with rfl | rfl | rfl
      · rw [mem_eq (by omega)]
        simp [textK, slice]
      · cases peek t (p.pos + k + 1) with
        | ok d => by_cases hd : d = 10 <;> simp [hd, textK]
        | _ => simp
      · simp [textK]
  | _ => simp

theorem nameScan_translated : Generated.readToken_scan0 = isNameByte := by
  funext b
  revert b
  apply forall_byte
  decide +kernel

theorem take_span (p : UInt8 → Bool) : ∀ s : Bytes, s.take (span p s) = s.takeWhile p := by
  intro s
  induction s with
  | nil => simp [span]
  | cons b r ih =>
    by_cases hb : p b = true
    · simp only [span, List.takeWhile_cons, hb, if_true, List.length_cons, List.take_succ_cons]
      simp only [span] at ih
      rw [ih]
    · simp [span, List.takeWhile_cons, hb]

theorem span_le (p : UInt8 → Bool) (s : Bytes) : span p s ≤ s.length := by
  unfold span
  induction s with
  | nil => simp
  | cons b r ih => by_cases hb : p b = true <;> simp [List.takeWhile_cons, hb]; omega

theorem peek_ok_cstr {t : Bytes} {i : Nat} {c : UInt8} (h : peek t i = .ok c) : cstr t i = .ok (t.drop i) := by
  unfold peek at h; unfold cstr
  by_cases hp : i ≤ t.length
  · simp [hp]
  · have h1 : ¬ i < t.length := by omega
    have h2 : ¬ i = t.length := by omega
    simp [h1, h2] at h

/-- what `readToken` leaves in the members, from what the model's `tokenAt` returns: `token.value` is assigned
    only for names and strings (the model says `[]` for the other token types, the code keeps the old value) -/
def tokState (ce : Option Pos) (tok : Token) (tx : Bytes) (r : Token × Pos) : St :=
  ⟨r.2, ce, ⟨r.1.type, if r.1.type = .string ∨ r.1.type = .name then r.1.value else tok.value, r.1.pos⟩, tx⟩

theorem tokenAt_translated (t : Bytes) (p : Pos) (ce : Option Pos) (tok : Token) (tx : Bytes) :
    Generated.readToken_entry t ⟨p, ce, tok, tx⟩ = (tokenAt t p).bind fun r => .ok (.ret (tokState ce tok tx r)) := by
  have hname : ∀ z, cstr t p.pos = .ok z →
      ((cstr t p.pos).bind fun z7 =>
        if (p.pos + span Generated.readToken_scan0 z7 == p.pos) = true then
          (Generated.syntaxError ⟨p.line, p.pos, p.ls⟩ .name : Res Ctl)
        else (mem t p.pos (p.pos + span Generated.readToken_scan0 z7 - p.pos)).bind fun m9 =>
          .ok (.ret ⟨⟨p.line, p.pos + span Generated.readToken_scan0 z7, p.ls⟩, ce, ⟨.name, m9, ⟨p.line, p.pos, p.ls⟩⟩, tx⟩)) =
      ((cstr t p.pos).bind fun s =>
        if (s.takeWhile isNameByte).isEmpty then (.err p.line p.col .name : Res (Token × Pos))
        else .ok (⟨.name, s.takeWhile isNameByte, p⟩, ⟨p.line, p.pos + (s.takeWhile isNameByte).length, p.ls⟩)).bind
        fun r => .ok (.ret (tokState ce tok tx r)) := by
    intro z hz
    obtain ⟨hp, rfl⟩ := cstr_ok hz
    rw [hz]
    simp only [Res.ok_bind, nameScan_translated]
    have hle := span_le isNameByte (t.drop p.pos)
    simp only [List.length_drop] at hle
    by_cases he : ((t.drop p.pos).takeWhile isNameByte) = []
    · simp [span, he, Generated.syntaxError, Pos.col]
    · have hn : span isNameByte (t.drop p.pos) ≠ 0 := by
        simp only [span]; intro h0; exact he (List.length_eq_zero_iff.mp h0)
      have h1 : (p.pos + span isNameByte (t.drop p.pos) == p.pos) = false := by simp; omega
      rw [h1, mem_eq (by omega)]
      have h2 : p.pos + span isNameByte (t.drop p.pos) - p.pos = span isNameByte (t.drop p.pos) := by omega
      rw [h2, take_span]
      simp [he, tokState, span]
  simp only [tokenAt, Generated.readToken_entry]
  cases h : peek t p.pos with
  | ok c =>
    simp only [Res.ok_bind]
    by_cases h60 : c = 60
    · subst h60
      cases peek t (p.pos + 1) with
      | ok d => by_cases hd : d = 47 <;> simp [hd, tokState]
      | _ => simp
    · by_cases h62 : c = 62
      · subst h62; simp [tokState]
      · by_cases h0 : c = 0
        · subst h0; simp [Generated.syntaxError, Pos.col]
        · by_cases h61 : c = 61
          · subst h61; simp [tokState]
          · by_cases hq : c = 34 ∨ c = 39
            · simp only [h60, h62, h0, h61, hq, if_true, if_false]
              cases hz : cstr t (p.pos + 1) with
              | ok z =>
                obtain ⟨hp, rfl⟩ := cstr_ok hz
                have hset : ∀ b : UInt8, (Generated.readToken_set0 c).contains b = (b == c || b == 13 || b == 10) := by
                  intro b; unfold Generated.readToken_set0; by_cases h1 : b = c <;> by_cases h2 : b = 13 <;> by_cases h3 : b = 10 <;> simp [h1, h2, h3]
                simp only [Res.ok_bind, strpbrk_eq _ _ hset]
                cases hk : idxOf (fun b => b == c || b == 13 || b == 10) (t.drop (p.pos + 1)) with
                | none => simp [Generated.syntaxError, Pos.col]
                | some k =>
                  have hk1 := (idxOf_some hk).1
                  simp only [List.length_drop] at hk1
                  simp only []
                  cases peek t (p.pos + 1 + k) with
                  | ok e =>
                    by_cases hec : e = c
                    · have h2 : p.pos + 1 + k - p.pos - 1 = k := by omega
                      rw [h2, mem_eq (by omega)]
                      simp [hec, tokState]
                    · simp [hec, Generated.syntaxError, Pos.col]
                  | _ => simp
              | _ => simp
            · have h34 : c ≠ 34 := fun e => hq (Or.inl e)
              have h39 : c ≠ 39 := fun e => hq (Or.inr e)
              simp only [h60, h62, h0, h61, hq, if_false]
              by_cases h47 : c = 47
              · subst h47
                simp only [if_true]
                cases hd : peek t (p.pos + 1) with
                | ok d =>
                  by_cases hd62 : d = 62
                  · simp [hd62, tokState]
                  · have e1 : (d == 62) = false := by simpa using hd62
                    have e2 : decide (d = 62) = false := by simpa using hd62
                    simp only [Res.ok_bind, e1, e2, Bool.false_eq_true, if_false]
                    exact hname _ (peek_ok_cstr h)
                | _ => simp
              · simp only [h47, if_false, Res.ok_bind]
                exact hname _ (peek_ok_cstr h)
  | _ => simp

theorem Res.bind_eq_ok_iff {α β : Type} {r : Res α} {f : α → Res β} {b : β} :
    (r.bind f = .ok b) ↔ ∃ a, r = .ok a ∧ f a = .ok b := by
  cases r <;> simp

theorem parseText_loop0_mono (t : Bytes) (start : Nat) (s s' : St) (lvl : Nat)
    (h : Generated.parseText_loop0 t start s = .ok (.next lvl s')) : s.pos.pos ≤ s'.pos.pos := by
  unfold Generated.parseText_loop0 at h
  repeat' (first
    | (simp only [Res.bind_eq_ok_iff] at h; obtain ⟨_, _, h⟩ := h)
    | (split at h))
  all_goals (try (first
    | (simp [Generated.syntaxError] at h; done)
    | (simp only [Res.ok.injEq, Ctl.next.injEq] at h; obtain ⟨_, h⟩ := h; subst h; simp; try omega)))


theorem strncmp0_two (t : Bytes) (e : Nat) (a b : UInt8) (he : e < t.length) (hb : b ≠ 0) :
    ∃ d, peek t (e + 1) = .ok d ∧ strncmp0 (t.drop e) [a, b] 2 = (decide (t.getD e 0 = a) && decide (d = b)) := by
  by_cases h1 : e + 1 < t.length
  · refine ⟨t.getD (e + 1) 0, peek_lt h1, ?_⟩
    have e1 : t.drop e = t[e] :: t[e + 1] :: t.drop (e + 2) := by
      rw [List.drop_eq_getElem_cons he, List.drop_eq_getElem_cons h1]
    have g0 : t.getD e 0 = t[e] := by simp [List.getD_eq_getElem?_getD, he]
    have g1 : t.getD (e + 1) 0 = t[e + 1] := by simp [List.getD_eq_getElem?_getD, h1]
    rw [g0, g1]
    simp only [strncmp0]
    rw [e1]
    simp only [List.take_succ_cons, List.take_zero]
    by_cases ha : t[e] = a <;> by_cases hb2 : t[e + 1] = b <;> simp [ha, hb2]
  · have h2 : e + 1 = t.length := by omega
    refine ⟨0, by rw [h2]; exact peek_len t, ?_⟩
    have e1 : t.drop e = [t[e]] := by
      rw [List.drop_eq_getElem_cons he, List.drop_of_length_le (by omega)]
    simp only [strncmp0]
    rw [e1]
    have : ¬ (0 : UInt8) = b := fun h => hb h.symm
    simp [this]

def piK (t : Bytes) (f : Nat) (sp : Pos) : Ctl → Res Pos
  | .next _ s => piInner t f sp s.pos
  | .enter _ s _ => .ok s.pos
  | .ret s => .ok s.pos

theorem piStop_set : ∀ b : UInt8, Generated.parsePi_set0.contains b = isPiScanStop b := by
  apply forall_byte; decide +kernel

theorem piInner_translated (t : Bytes) (f : Nat) (sp p : Pos) (ce : Option Pos) (tok : Token) (tx : Bytes) :
    piInner t (f + 1) sp p = (Generated.parsePi_loop0 t sp.line sp.ls sp.pos ⟨p, ce, tok, tx⟩).bind (piK t f sp) := by
  simp only [piInner, Generated.parsePi_loop0]
  cases h : cstr t p.pos with
  | ok z =>
    simp only [Res.ok_bind, strpbrk_eq _ _ piStop_set]
    cases hk : idxOf isPiScanStop z with
    | none => simp [Generated.syntaxError, Pos.col]
    | some k =>
      simp only []
      obtain ⟨hp, rfl⟩ := cstr_ok h
      obtain ⟨hk1, hk2, _⟩ := idxOf_some hk
      simp only [List.length_drop] at hk1
      have hget : (t.drop p.pos).getD k 0 = t.getD (p.pos + k) 0 := by
        simp [List.getD_eq_getElem?_getD, List.getElem?_drop]
      rw [hget] at hk2
      have he : p.pos + k < t.length := by omega
      obtain ⟨d, hd, hcmp⟩ := strncmp0_two t (p.pos + k) 63 62 he (by decide)
      rw [peek_lt he, cstr_le (Nat.le_of_lt he)]
      simp only [Res.ok_bind, hcmp, hd]
      generalize t.getD (p.pos + k) 0 = c at hk2
      have hc3 : c = 13 ∨ c = 10 ∨ c = 63 := by simpa [isPiScanStop, or_assoc] using hk2
      rcases hc3 with rfl | rfl | rfl
      · by_cases hd10 : d = 10 <;> simp [hd10, piK]
      · simp [piK]
      · by_cases hd62 : d = 62 <;> simp [hd62, piK]
  | _ => simp

end Nstd.Xml
