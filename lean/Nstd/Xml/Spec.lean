import Nstd.Xml.Model
/-
  The element trees property C16 quantifies over ("well-formed names, arbitrary attribute
  values, non-blank, non-adjacent text nodes") and equality of trees up to the source
  positions (`line`, `column`) the parser records.
-/
namespace Nstd.Xml

/-- a tag or attribute name the tokenizer reads back as one name token: non-empty, no NUL,
    `/`, `>`, `=` or white space inside, not starting with `<`, a quote, `!` or `?`
    (every XML 1.0 `Name` qualifies) -/
def wfName : Bytes → Bool
  | [] => false
  | c :: r => (c :: r).all isNameByte && c != 60 && c != 34 && c != 39 && c != 33 && c != 63

/-- attribute list as a `HashMap` holds it: well-formed, pairwise different keys; values arbitrary -/
def attrsWf : List (Bytes × Bytes) → Bool
  | [] => true
  | (k, _) :: r => wfName k && !(r.any (fun kv => kv.1 == k)) && attrsWf r

/-- a text node that is not blank -/
def nonBlank (s : Bytes) : Bool := s.any (fun b => !isSpace b)

mutual
  def Elem.wf : Elem → Bool
    | .mk name _ _ attrs content => wfName name && attrsWf attrs && content.wf false
  /-- `prevText`: the preceding sibling is a text node (two adjacent text nodes are excluded) -/
  def Content.wf : Content → Bool → Bool
    | .nil, _ => true
    | .text s rest, prevText => !prevText && nonBlank s && rest.wf true
    | .elem e rest, _ => e.wf && rest.wf false
end

mutual
  /-- the tree without the recorded source positions -/
  def Elem.shape : Elem → Elem
    | .mk name _ _ attrs content => .mk name 0 0 attrs content.shape
  def Content.shape : Content → Content
    | .nil => .nil
    | .text s rest => .text s rest.shape
    | .elem e rest => .elem e.shape rest.shape
end

/-- no NUL byte (a NUL ends the text handed to `Xml::parse`) -/
def bytesNulFree (s : Bytes) : Bool := s.all (· != 0)

def attrsNulFree : List (Bytes × Bytes) → Bool
  | [] => true
  | (k, v) :: r => bytesNulFree k && bytesNulFree v && attrsNulFree r

mutual
  def Elem.nulFree : Elem → Bool
    | .mk name _ _ attrs content => bytesNulFree name && attrsNulFree attrs && content.nulFree
  def Content.nulFree : Content → Bool
    | .nil => true
    | .text s rest => bytesNulFree s && rest.nulFree
    | .elem e rest => e.nulFree && rest.nulFree
end

/-- body of a comment: the comment `<!--body-->` ends at its closing `-->`, i.e. no `-->` begins
    inside the body (where the first two bytes of the closing `-->` count as following the body).
    Every XML 1.0 comment body (no `--` at all) qualifies; so do bodies with `--`, `-` at the end, `>` … -/
def commentBody (body : Bytes) : Prop :=
  ∀ i, i < body.length →
    ¬((body ++ [45, 45]).getD i 0 = 45 ∧ (body ++ [45, 45]).getD (i + 1) 0 = 45 ∧ (body ++ [45, 45]).getD (i + 2) 0 = 62)

/-- body of a processing instruction: the instruction `<?body?>` ends at its closing `?>`, i.e. no `?>`
    begins inside the body (a `?` is not followed by `>`, where the `?` of the closing `?>` counts as
    following the last byte).  Nothing else is demanded: `<`, `<!--`, `>`, lone `?`, CR, LF, CRLF,
    white space … are all allowed (every XML 1.0 processing instruction qualifies). -/
def piBody (body : Bytes) : Prop :=
  ∀ i, i < body.length → body.getD i 0 = 63 → (body ++ [63]).getD (i + 1) 0 ≠ 62

/-- serialisation of a prologue: processing instructions `<?body?>`, each followed by white space -/
def prologue : List (Bytes × Bytes) → Bytes
  | [] => []
  | (body, ws) :: r => [60, 63] ++ (body ++ ([63, 62] ++ (ws ++ prologue r)))

/-- every body is a `piBody`, every gap consists of white space -/
def prologueOk : List (Bytes × Bytes) → Prop
  | [] => True
  | (body, ws) :: r => piBody body ∧ (∀ b ∈ ws, isSpace b = true) ∧ prologueOk r

/-- the part of `parseDoc` behind the prologue: the root element is read at the cursor `p` -/
def parseRootAt (t : Bytes) (p : Pos) : Res Elem :=
  (readToken t p).bind fun r =>
  if r.1.type ≠ .startTagBegin then .err r.1.pos.line r.1.pos.col .lt
  else (parseElement t (t.length + 2) r.1.pos r.2.1).bind fun e => .ok e.1

/-! ### line and column of an offset (what an error position must denote) -/

/-- state of the line count after a prefix of the text: current line (1-based), offset at which
    it starts, and whether the last byte was a CR (a LF that follows belongs to the same break) -/
structure LineSt where
  line : Nat
  ls : Nat
  cr : Bool
  deriving DecidableEq, Repr

/-- reads bytes (the first one at offset `i`): `\r\n`, `\r` and `\n` each end a line -/
def lineScan : Bytes → Nat → LineSt → LineSt
  | [], _, st => st
  | b :: r, i, st =>
    if b = 13 then lineScan r (i + 1) ⟨st.line + 1, i + 1, true⟩
    else if b = 10 then
      (if st.cr then lineScan r (i + 1) ⟨st.line, i + 1, false⟩
       else lineScan r (i + 1) ⟨st.line + 1, i + 1, false⟩)
    else lineScan r (i + 1) ⟨st.line, st.ls, false⟩

/-- line and column (both 1-based) of the offset `off` of the text `t` -/
def lineCol (t : Bytes) (off : Nat) : Nat × Nat :=
  let st := lineScan (t.take off) 0 ⟨1, 0, false⟩
  (st.line, off - st.ls + 1)

/-- `(l, c)` is the line/column of a position of the text (an offset `0 … length`, the last one
    being the terminator) -/
def Inside (t : Bytes) (l c : Nat) : Prop := ∃ off, off ≤ t.length ∧ lineCol t off = (l, c)

end Nstd.Xml
