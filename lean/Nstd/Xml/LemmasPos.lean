import Nstd.Xml.Spec
import Nstd.Xml.LemmasSafe
/-  the cursor's line bookkeeping agrees with the line/column of its offset; error positions -/
namespace Nstd.Xml

theorem lineScan_append : ∀ (a b : Bytes) (i : Nat) (st : LineSt),
    lineScan (a ++ b) i st = lineScan b (i + a.length) (lineScan a i st) := by
  intro a
  induction a with
  | nil => intro b i st; simp [lineScan]
  | cons x a ih =>
    intro b i st
    simp only [List.cons_append, lineScan, List.length_cons]
    have e : i + (a.length + 1) = i + 1 + a.length := by omega
    split
    · rw [ih, e]
    · split
      · split <;> rw [ih, e]
      · rw [ih, e]

theorem lineScan_line_bounds : ∀ (bs : Bytes) (i : Nat) (st : LineSt),
    st.line ≤ (lineScan bs i st).line ∧ (lineScan bs i st).line ≤ st.line + bs.length := by
  intro bs
  induction bs with
  | nil => intro i st; simp [lineScan]
  | cons b r ih =>
    intro i st
    simp only [lineScan, List.length_cons]
    split
    · have := ih (i + 1) ⟨st.line + 1, i + 1, true⟩
      simp only at this; omega
    · split
      · split
        · have := ih (i + 1) ⟨st.line, i + 1, false⟩
          simp only at this; omega
        · have := ih (i + 1) ⟨st.line + 1, i + 1, false⟩
          simp only at this; omega
      · have := ih (i + 1) ⟨st.line, st.ls, false⟩
        simp only at this; omega

/-- line state in front of offset `off` -/
def stAt (t : Bytes) (off : Nat) : LineSt := lineScan (t.take off) 0 ⟨1, 0, false⟩

theorem stAt_succ (t : Bytes) (off : Nat) (h : off < t.length) :
    stAt t (off + 1) = lineScan [t.getD off 0] off (stAt t off) := by
  unfold stAt
  have : t.take (off + 1) = t.take off ++ [t.getD off 0] := by
    rw [List.take_succ]
    simp [List.getD_eq_getElem?_getD, List.getElem?_eq_getElem h]
  rw [this, lineScan_append]
  simp [List.length_take, Nat.min_eq_left (Nat.le_of_lt h)]

/-- the cursor `p` carries the line and line start of its offset -/
def PosOK (t : Bytes) (p : Pos) : Prop :=
  p.pos ≤ t.length ∧ ∃ cr, stAt t p.pos = ⟨p.line, p.ls, cr⟩ ∧ (cr = true → t.getD p.pos 0 ≠ 10)

theorem PosOK.inside {t : Bytes} {p : Pos} (h : PosOK t p) : Inside t p.line p.col := by
  obtain ⟨h1, cr, h2, _⟩ := h
  refine ⟨p.pos, h1, ?_⟩
  unfold lineCol
  show ((stAt t p.pos).line, p.pos - (stAt t p.pos).ls + 1) = _
  rw [h2]; rfl

theorem PosOK.init (t : Bytes) : PosOK t ⟨1, 0, 0⟩ :=
  ⟨Nat.zero_le _, false, by simp [stAt, lineScan], by simp⟩

/-- one byte that is no line break -/
theorem PosOK.adv1 {t : Bytes} {p : Pos} (h : PosOK t p) (hlt : p.pos < t.length)
    (h13 : t.getD p.pos 0 ≠ 13) (h10 : t.getD p.pos 0 ≠ 10) : PosOK t ⟨p.line, p.pos + 1, p.ls⟩ := by
  obtain ⟨_, cr, h2, _⟩ := h
  refine ⟨hlt, false, ?_, by simp⟩
  show stAt t (p.pos + 1) = _
  rw [stAt_succ t p.pos hlt, h2]
  simp only [lineScan]
  rw [if_neg h13, if_neg h10]

/-- `k` bytes without a line break -/
theorem PosOK.adv {t : Bytes} : ∀ (k : Nat) {p : Pos}, PosOK t p → p.pos + k ≤ t.length →
    (∀ j, j < k → t.getD (p.pos + j) 0 ≠ 13 ∧ t.getD (p.pos + j) 0 ≠ 10) → PosOK t ⟨p.line, p.pos + k, p.ls⟩ := by
  intro k
  induction k with
  | zero => intro p h _ _; exact h
  | succ k ih =>
    intro p h hle hb
    have h1 := h.adv1 (by omega) (hb 0 (by omega)).1 (hb 0 (by omega)).2
    have := ih (p := ⟨p.line, p.pos + 1, p.ls⟩) h1 (by simp; omega)
      (fun j hj => by have := hb (j + 1) (by omega); simpa [Nat.add_assoc, Nat.add_comm 1 j] using this)
    simpa [Nat.add_assoc, Nat.add_comm 1 k] using this

/-- a line feed -/
theorem PosOK.lf {t : Bytes} {p : Pos} (h : PosOK t p) (hlt : p.pos < t.length)
    (h10 : t.getD p.pos 0 = 10) : PosOK t ⟨p.line + 1, p.pos + 1, p.pos + 1⟩ := by
  obtain ⟨_, cr, h2, h3⟩ := h
  have hcr : cr = false := by
    cases cr with
    | false => rfl
    | true => exact absurd h10 (h3 rfl)
  subst hcr
  refine ⟨hlt, false, ?_, by simp⟩
  show stAt t (p.pos + 1) = _
  rw [stAt_succ t p.pos hlt, h2, h10]
  simp [lineScan]

/-- a carriage return that is not followed by a line feed -/
theorem PosOK.cr {t : Bytes} {p : Pos} (h : PosOK t p) (hlt : p.pos < t.length)
    (h13 : t.getD p.pos 0 = 13) (hn : t.getD (p.pos + 1) 0 ≠ 10) : PosOK t ⟨p.line + 1, p.pos + 1, p.pos + 1⟩ := by
  obtain ⟨_, cr, h2, _⟩ := h
  refine ⟨hlt, true, ?_, fun _ => hn⟩
  show stAt t (p.pos + 1) = _
  rw [stAt_succ t p.pos hlt, h2, h13]
  simp [lineScan]

/-- carriage return + line feed -/
theorem PosOK.crlf {t : Bytes} {p : Pos} (h : PosOK t p) (hlt : p.pos + 1 < t.length)
    (h13 : t.getD p.pos 0 = 13) (h10 : t.getD (p.pos + 1) 0 = 10) : PosOK t ⟨p.line + 1, p.pos + 2, p.pos + 2⟩ := by
  obtain ⟨_, cr, h2, _⟩ := h
  refine ⟨hlt, false, ?_, by simp⟩
  show stAt t (p.pos + 1 + 1) = _
  rw [stAt_succ t (p.pos + 1) hlt, stAt_succ t p.pos (by omega), h2, h13, h10]
  simp [lineScan]


theorem peek_eq {t : Bytes} {i : Nat} (h : i ≤ t.length) : peek t i = .ok (t.getD i 0) := by
  by_cases h1 : i < t.length
  · exact peek_lt h1
  · have : i = t.length := by omega
    subst this
    rw [peek_len]; simp

theorem getD_ne_zero_lt {t : Bytes} {i : Nat} (h : t.getD i 0 ≠ 0) : i < t.length := by
  by_cases h1 : i < t.length
  · exact h1
  · exfalso; apply h
    simp [List.getD_eq_getElem?_getD, List.getElem?_eq_none (by omega : t.length ≤ i)]

theorem take3_bytes {t : Bytes} {i : Nat} {a b c : UInt8} (h : (t.drop i).take 3 = [a, b, c]) :
    t.getD i 0 = a ∧ t.getD (i + 1) 0 = b ∧ t.getD (i + 2) 0 = c := by
  have h0 := congrArg (fun l => l.getD 0 0) h
  have h1 := congrArg (fun l => l.getD 1 0) h
  have h2 := congrArg (fun l => l.getD 2 0) h
  simp [List.getD_eq_getElem?_getD, List.getElem?_take] at h0 h1 h2
  simp [List.getD_eq_getElem?_getD]
  exact ⟨h0, h1, h2⟩

theorem take2_bytes {t : Bytes} {i : Nat} {a b : UInt8} (h : (t.drop i).take 2 = [a, b]) :
    t.getD i 0 = a ∧ t.getD (i + 1) 0 = b := by
  have h0 := congrArg (fun l => l.getD 0 0) h
  have h1 := congrArg (fun l => l.getD 1 0) h
  simp [List.getD_eq_getElem?_getD, List.getElem?_take] at h0 h1
  simp [List.getD_eq_getElem?_getD]
  exact ⟨h0, h1⟩

/-- a value satisfies `P`, an error position denotes a position of the text -/
def Res.Good {α : Type} (t : Bytes) (r : Res α) (P : α → Prop) : Prop :=
  match r with
  | .ok a => P a
  | .err l c _ => Inside t l c
  | .oob => True
  | .fuel => True

theorem Res.Good.bind {α β : Type} {t : Bytes} {r : Res α} {P : α → Prop} {f : α → Res β} {Q : β → Prop}
    (h : r.Good t P) (hf : ∀ a, P a → (f a).Good t Q) : (r.bind f).Good t Q := by
  cases r with
  | ok a => exact hf a h
  | err l c m => exact h
  | oob => trivial
  | fuel => trivial

theorem Res.Good.mono {α : Type} {t : Bytes} {r : Res α} {P Q : α → Prop} (h : r.Good t P) (hpq : ∀ a, P a → Q a) :
    r.Good t Q := by
  cases r with
  | ok a => exact hpq a h
  | err l c m => exact h
  | oob => trivial
  | fuel => trivial

theorem commentStop_false {b : UInt8} (h : isCommentScanStop b = false) : b ≠ 13 ∧ b ≠ 10 := by
  constructor <;> (intro e; subst e; revert h; decide)

theorem commentStop_true {b : UInt8} (h : isCommentScanStop b = true) (h13 : b ≠ 13) (h10 : b ≠ 10) : b = 45 := by
  simp only [isCommentScanStop, Bool.or_eq_true, beq_iff_eq] at h
  rcases h with (h | h) | h
  · exact h
  · exact absurd h h10
  · exact absurd h h13

def SkipOK (t : Bytes) (r : Pos × Option Pos) : Prop := PosOK t r.1 ∧ ∀ c, r.2 = some c → PosOK t c

theorem skipLoop_good (t : Bytes) : ∀ (f : Nat) (inC : Bool) (p : Pos) (ce : Option Pos),
    PosOK t p → (∀ c, ce = some c → PosOK t c) → (skipLoop t f inC p ce).Good t (SkipOK t) := by
  intro f
  induction f with
  | zero => intro inC p ce _ _; cases inC <;> trivial
  | succ f ih =>
    intro inC p ce hp hce
    have hple := hp.1
    cases inC with
    | false =>
      simp only [skipLoop]
      rw [peek_eq hple]; simp only [Res.ok_bind]
      by_cases h13 : t.getD p.pos 0 = 13
      · have hlt : p.pos < t.length := getD_ne_zero_lt (by rw [h13]; decide)
        rw [if_pos h13, peek_eq (show p.pos + 1 ≤ t.length by omega)]; simp only [Res.ok_bind]
        by_cases hd10 : t.getD (p.pos + 1) 0 = 10
        · have hlt2 : p.pos + 1 < t.length := getD_ne_zero_lt (by rw [hd10]; decide)
          simp only [hd10, if_true]
          exact ih false _ ce (hp.crlf hlt2 h13 hd10) hce
        · simp only [hd10, if_false]
          exact ih false _ ce (hp.cr hlt h13 hd10) hce
      rw [if_neg h13]
      by_cases h10 : t.getD p.pos 0 = 10
      · have hlt : p.pos < t.length := getD_ne_zero_lt (by rw [h10]; decide)
        rw [if_pos h10]
        exact ih false _ ce (hp.lf hlt h10) hce
      rw [if_neg h10]
      by_cases h60 : t.getD p.pos 0 = 60
      · have hlt : p.pos < t.length := getD_ne_zero_lt (by rw [h60]; decide)
        rw [if_pos h60, cstr_le (show p.pos + 1 ≤ t.length by omega)]; simp only [Res.ok_bind]
        by_cases hcm : (t.drop (p.pos + 1)).take 3 = [33, 45, 45]
        · rw [if_pos hcm]
          have h3 := take3_length hcm
          simp at h3
          obtain ⟨b1, b2, b3⟩ := take3_bytes hcm
          refine ih true _ ce (hp.adv 4 (by omega) ?_) hce
          intro j hj
          have : j = 0 ∨ j = 1 ∨ j = 2 ∨ j = 3 := by omega
          rcases this with rfl | rfl | rfl | rfl
          · rw [Nat.add_zero, h60]; decide
          · rw [b1]; decide
          · rw [show p.pos + 2 = p.pos + 1 + 1 by omega, b2]; decide
          · rw [show p.pos + 3 = p.pos + 1 + 2 by omega, b3]; decide
        · rw [if_neg hcm]; exact ⟨hp, hce⟩
      rw [if_neg h60]
      by_cases hsp : isSpace (t.getD p.pos 0) = true
      · have hlt : p.pos < t.length := getD_ne_zero_lt (by intro e; rw [e] at hsp; revert hsp; decide)
        rw [if_pos hsp]
        exact ih false _ ce (hp.adv1 hlt h13 h10) hce
      · rw [if_neg hsp]; exact ⟨hp, hce⟩
    | true =>
      simp only [skipLoop]
      rw [cstr_le hple]; simp only [Res.ok_bind]
      cases hidx : idxOf isCommentScanStop (t.drop p.pos) with
      | none =>
        simp only
        have hq : PosOK t ⟨p.line, p.pos + (t.drop p.pos).length, p.ls⟩ := by
          refine hp.adv _ (by simp; omega) ?_
          intro j hj
          have := idxOf_none hidx j hj
          rw [getD_drop] at this
          exact commentStop_false this
        exact ⟨hq, fun c hc => by cases hc; exact hq⟩
      | some k =>
        simp only
        obtain ⟨hk, hstop, hbefore⟩ := idxOf_some hidx
        simp at hk
        rw [getD_drop] at hstop
        have he : PosOK t ⟨p.line, p.pos + k, p.ls⟩ := by
          refine hp.adv k (by omega) ?_
          intro j hj
          have := hbefore j hj
          rw [getD_drop] at this
          exact commentStop_false this
        have hlt : p.pos + k < t.length := by omega
        rw [peek_eq (show p.pos + k ≤ t.length by omega)]; simp only [Res.ok_bind]
        by_cases h13 : t.getD (p.pos + k) 0 = 13
        · rw [if_pos h13, peek_eq (show p.pos + k + 1 ≤ t.length by omega)]; simp only [Res.ok_bind]
          by_cases hd10 : t.getD (p.pos + k + 1) 0 = 10
          · have hlt2 : p.pos + k + 1 < t.length := getD_ne_zero_lt (by rw [hd10]; decide)
            simp only [hd10, if_true]
            exact ih true _ ce (he.crlf hlt2 h13 hd10) hce
          · simp only [hd10, if_false]
            exact ih true _ ce (he.cr hlt h13 hd10) hce
        rw [if_neg h13]
        by_cases h10 : t.getD (p.pos + k) 0 = 10
        · rw [if_pos h10]
          exact ih true _ ce (he.lf hlt h10) hce
        rw [if_neg h10, cstr_le (show p.pos + k + 1 ≤ t.length by omega)]; simp only [Res.ok_bind]
        have h45 := commentStop_true hstop h13 h10
        by_cases hcl : (t.drop (p.pos + k + 1)).take 2 = [45, 62]
        · rw [if_pos hcl]
          have h2 := take2_length hcl
          simp at h2
          obtain ⟨b1, b2⟩ := take2_bytes hcl
          have hq : PosOK t ⟨p.line, p.pos + k + 3, p.ls⟩ := by
            refine he.adv 3 (by simp; omega) ?_
            intro j hj
            have : j = 0 ∨ j = 1 ∨ j = 2 := by omega
            rcases this with rfl | rfl | rfl
            · simp only [Nat.add_zero]; rw [h45]; decide
            · simp only; rw [b1]; decide
            · simp only; rw [show p.pos + k + 2 = p.pos + k + 1 + 1 by omega, b2]; decide
          exact ih false _ _ hq (fun c hc => by cases hc; exact hq)
        · rw [if_neg hcl]
          exact ih true _ ce (he.adv1 hlt h13 h10) hce

theorem skipSpace_good (t : Bytes) (p : Pos) (hp : PosOK t p) : (skipSpace t p).Good t (SkipOK t) :=
  skipLoop_good t _ false p none hp (fun c hc => by cases hc)


theorem nameByte_nobreak {b : UInt8} (h : isNameByte b = true) : b ≠ 13 ∧ b ≠ 10 := by
  constructor <;> (intro e; subst e; revert h; decide)

theorem takeWhile_getD {p : UInt8 → Bool} : ∀ (l : Bytes) (j : Nat), j < (l.takeWhile p).length → p (l.getD j 0) = true := by
  intro l
  induction l with
  | nil => intro j hj; simp at hj
  | cons x l ih =>
    intro j hj
    by_cases hx : p x = true
    · simp only [List.takeWhile, hx, List.length_cons] at hj
      cases j with
      | zero => simpa using hx
      | succ j => simpa using ih j (by omega)
    · simp [List.takeWhile, hx] at hj

theorem tokenAt_good (t : Bytes) (p : Pos) (hp : PosOK t p) :
    (tokenAt t p).Good t (fun r => r.1.pos = p ∧ PosOK t r.2) := by
  have hple := hp.1
  unfold tokenAt
  rw [peek_eq hple]; simp only [Res.ok_bind]
  by_cases h60 : t.getD p.pos 0 = 60
  · have hlt : p.pos < t.length := getD_ne_zero_lt (by rw [h60]; decide)
    rw [if_pos h60, peek_eq (show p.pos + 1 ≤ t.length by omega)]; simp only [Res.ok_bind]
    by_cases hd47 : t.getD (p.pos + 1) 0 = 47
    · have hlt2 : p.pos + 1 < t.length := getD_ne_zero_lt (by rw [hd47]; decide)
      rw [if_pos hd47]
      refine ⟨rfl, hp.adv 2 (by omega) ?_⟩
      intro j hj
      have : j = 0 ∨ j = 1 := by omega
      rcases this with rfl | rfl
      · rw [Nat.add_zero, h60]; decide
      · rw [hd47]; decide
    · rw [if_neg hd47]
      exact ⟨rfl, hp.adv1 hlt (by rw [h60]; decide) (by rw [h60]; decide)⟩
  rw [if_neg h60]
  by_cases h62 : t.getD p.pos 0 = 62
  · have hlt : p.pos < t.length := getD_ne_zero_lt (by rw [h62]; decide)
    rw [if_pos h62]
    exact ⟨rfl, hp.adv1 hlt (by rw [h62]; decide) (by rw [h62]; decide)⟩
  rw [if_neg h62]
  by_cases h0 : t.getD p.pos 0 = 0
  · rw [if_pos h0]; exact hp.inside
  rw [if_neg h0]
  have hlt : p.pos < t.length := getD_ne_zero_lt h0
  by_cases h61 : t.getD p.pos 0 = 61
  · rw [if_pos h61]
    exact ⟨rfl, hp.adv1 hlt (by rw [h61]; decide) (by rw [h61]; decide)⟩
  rw [if_neg h61]
  by_cases hq : t.getD p.pos 0 = 34 ∨ t.getD p.pos 0 = 39
  · rw [if_pos hq, cstr_le (show p.pos + 1 ≤ t.length by omega)]; simp only [Res.ok_bind]
    have hq13 : t.getD p.pos 0 ≠ 13 ∧ t.getD p.pos 0 ≠ 10 := by
      rcases hq with e | e <;> rw [e] <;> decide
    cases hidx : idxOf (fun b => b == t.getD p.pos 0 || b == 13 || b == 10) (t.drop (p.pos + 1)) with
    | none => exact hp.inside
    | some k =>
      simp only
      obtain ⟨hk, _, hbefore⟩ := idxOf_some hidx
      simp at hk
      rw [peek_eq (show p.pos + 1 + k ≤ t.length by omega)]; simp only [Res.ok_bind]
      by_cases hec : t.getD (p.pos + 1 + k) 0 ≠ t.getD p.pos 0
      · rw [if_pos hec]; exact hp.inside
      · rw [if_neg hec]
        have hec' : t.getD (p.pos + 1 + k) 0 = t.getD p.pos 0 := by simpa using hec
        refine ⟨rfl, ?_⟩
        have := hp.adv (1 + k + 1) (by omega) ?_
        · simpa [Nat.add_assoc] using this
        · intro j hj
          by_cases hj0 : j = 0
          · subst hj0; simpa using hq13
          · by_cases hjk : j = 1 + k
            · subst hjk
              rw [show p.pos + (1 + k) = p.pos + 1 + k by omega, hec']; exact hq13
            · have := hbefore (j - 1) (by omega)
              rw [getD_drop, show p.pos + 1 + (j - 1) = p.pos + j by omega] at this
              simp only [Bool.or_eq_false_iff, beq_eq_false_iff_ne, ne_eq] at this
              exact ⟨this.1.2, this.2⟩
  rw [if_neg hq]
  have hempt : ∃ b, (if t.getD p.pos 0 = 47 then (peek t (p.pos + 1)).bind fun d => Res.ok (decide (d = 62)) else Res.ok false) = Res.ok b ∧
      (b = true → t.getD p.pos 0 = 47 ∧ t.getD (p.pos + 1) 0 = 62) := by
    by_cases h47 : t.getD p.pos 0 = 47
    · rw [if_pos h47, peek_eq (show p.pos + 1 ≤ t.length by omega)]
      refine ⟨_, rfl, ?_⟩
      intro hb
      exact ⟨h47, by simpa using hb⟩
    · rw [if_neg h47]; exact ⟨false, rfl, by simp⟩
  obtain ⟨b, hb, hb2⟩ := hempt
  rw [hb]; simp only [Res.ok_bind]
  by_cases hbt : b = true
  · rw [if_pos hbt]
    obtain ⟨e1, e2⟩ := hb2 hbt
    have hlt2 : p.pos + 1 < t.length := getD_ne_zero_lt (by rw [e2]; decide)
    refine ⟨rfl, hp.adv 2 (by omega) ?_⟩
    intro j hj
    have : j = 0 ∨ j = 1 := by omega
    rcases this with rfl | rfl
    · rw [Nat.add_zero, e1]; decide
    · rw [e2]; decide
  rw [if_neg hbt, cstr_le hple]; simp only [Res.ok_bind]
  by_cases hemp : ((t.drop p.pos).takeWhile isNameByte).isEmpty = true
  · rw [if_pos hemp]; exact hp.inside
  · rw [if_neg hemp]
    have hl2 : ((t.drop p.pos).takeWhile isNameByte).length ≤ (t.drop p.pos).length :=
      (List.takeWhile_sublist _).length_le
    simp at hl2
    refine ⟨rfl, hp.adv _ (by omega) ?_⟩
    intro j hj
    have := takeWhile_getD (t.drop p.pos) j hj
    rw [getD_drop] at this
    exact nameByte_nobreak this

def ReadOK (t : Bytes) (r : Token × Pos × Option Pos) : Prop :=
  PosOK t r.1.pos ∧ PosOK t r.2.1 ∧ ∀ c, r.2.2 = some c → PosOK t c

theorem readToken_good (t : Bytes) (p : Pos) (hp : PosOK t p) : (readToken t p).Good t (ReadOK t) := by
  unfold readToken
  refine (skipSpace_good t p hp).bind ?_
  intro pc ⟨h1, h2⟩
  refine (tokenAt_good t pc.1 h1).bind ?_
  intro tp ⟨e1, e2⟩
  exact ⟨by rw [e1]; exact h1, e2, h2⟩

theorem textStop_false {b : UInt8} (h : isTextScanStop b = false) : b ≠ 13 ∧ b ≠ 10 := by
  constructor <;> (intro e; subst e; revert h; decide)

theorem textLoop_good (t : Bytes) : ∀ (f : Nat) (p : Pos), PosOK t p → (textLoop t f p).Good t (PosOK t) := by
  intro f
  induction f with
  | zero => intro p _; trivial
  | succ f ih =>
    intro p hp
    have hple := hp.1
    simp only [textLoop]
    rw [cstr_le hple]; simp only [Res.ok_bind]
    cases hidx : idxOf isTextScanStop (t.drop p.pos) with
    | none =>
      simp only
      have hq : PosOK t ⟨p.line, p.pos + (t.drop p.pos).length, p.ls⟩ := by
        refine hp.adv _ (by simp; omega) ?_
        intro j hj
        have := idxOf_none hidx j hj
        rw [getD_drop] at this
        exact textStop_false this
      exact hq.inside
    | some k =>
      simp only
      obtain ⟨hk, hstop, hbefore⟩ := idxOf_some hidx
      simp at hk
      have he : PosOK t ⟨p.line, p.pos + k, p.ls⟩ := by
        refine hp.adv k (by omega) ?_
        intro j hj
        have := hbefore j hj
        rw [getD_drop] at this
        exact textStop_false this
      have hlt : p.pos + k < t.length := by omega
      rw [peek_eq (show p.pos + k ≤ t.length by omega)]; simp only [Res.ok_bind]
      by_cases h13 : t.getD (p.pos + k) 0 = 13
      · rw [if_pos h13, peek_eq (show p.pos + k + 1 ≤ t.length by omega)]; simp only [Res.ok_bind]
        by_cases hd10 : t.getD (p.pos + k + 1) 0 = 10
        · have hlt2 : p.pos + k + 1 < t.length := getD_ne_zero_lt (by rw [hd10]; decide)
          simp only [hd10, if_true]
          exact ih _ (he.crlf hlt2 h13 hd10)
        · simp only [hd10, if_false]
          exact ih _ (he.cr hlt h13 hd10)
      rw [if_neg h13]
      by_cases h10 : t.getD (p.pos + k) 0 = 10
      · rw [if_pos h10]
        exact ih _ (he.lf hlt h10)
      rw [if_neg h10]
      exact he

theorem parseText_good (t : Bytes) (p : Pos) (hp : PosOK t p) : (parseText t p).Good t (fun r => PosOK t r.2) := by
  unfold parseText
  exact (textLoop_good t _ p hp).bind (fun q hq => hq)

theorem parseAttrs_good (t : Bytes) : ∀ (f : Nat) (as : List (Bytes × Bytes)) (p : Pos), PosOK t p →
    (parseAttrs t f as p).Good t (fun r => PosOK t r.2.2) := by
  intro f
  induction f with
  | zero => intro as p _; trivial
  | succ f ih =>
    intro as p hp
    simp only [parseAttrs]
    refine (readToken_good t p hp).bind ?_
    intro r ⟨h1, h2, _⟩
    by_cases c1 : r.1.type = .emptyTagEnd
    · rw [if_pos c1]; exact h2
    rw [if_neg c1]
    by_cases c2 : r.1.type = .tagEnd
    · rw [if_pos c2]; exact h2
    rw [if_neg c2]
    by_cases c3 : r.1.type = .name
    · rw [if_pos c3]
      refine (readToken_good t r.2.1 h2).bind ?_
      intro r2 ⟨g1, g2, _⟩
      by_cases c4 : r2.1.type ≠ .equalsSign
      · rw [if_pos c4]; exact g1.inside
      rw [if_neg c4]
      refine (readToken_good t r2.2.1 g2).bind ?_
      intro r3 ⟨k1, k2, _⟩
      by_cases c5 : r3.1.type ≠ .string
      · rw [if_pos c5]; exact k1.inside
      rw [if_neg c5]
      exact ih _ r3.2.1 k2
    · rw [if_neg c3]
      exact ih _ r.2.1 h2

theorem parse_mutual_good (t : Bytes) : ∀ f : Nat,
    (∀ (start p : Pos), PosOK t p → (parseElement t f start p).Good t (fun r => PosOK t r.2)) ∧
    (∀ (p : Pos), PosOK t p → (parseContent t f p).Good t (fun r => PosOK t r.2)) := by
  intro f
  induction f with
  | zero => exact ⟨fun _ _ _ => trivial, fun _ _ => trivial⟩
  | succ f ih =>
    obtain ⟨ihE, ihC⟩ := ih
    constructor
    · intro start p hp
      simp only [parseElement]
      refine (readToken_good t p hp).bind ?_
      intro r ⟨h1, h2, _⟩
      by_cases c1 : r.1.type ≠ .name
      · rw [if_pos c1]; exact h1.inside
      rw [if_neg c1]
      refine (parseAttrs_good t _ [] r.2.1 h2).bind ?_
      intro a ha
      by_cases c2 : a.2.1 = true
      · rw [if_pos c2]; exact ha
      rw [if_neg c2]
      refine (ihC a.2.2 ha).bind ?_
      intro c hc
      refine (readToken_good t c.2 hc).bind ?_
      intro r2 ⟨g1, g2, _⟩
      by_cases c3 : r2.1.type ≠ .name
      · rw [if_pos c3]; exact g1.inside
      rw [if_neg c3]
      by_cases c4 : r2.1.value ≠ r.1.value
      · rw [if_pos c4]; exact g1.inside
      rw [if_neg c4]
      refine (readToken_good t r2.2.1 g2).bind ?_
      intro r3 ⟨k1, k2, _⟩
      by_cases c5 : r3.1.type ≠ .tagEnd
      · rw [if_pos c5]; exact k1.inside
      rw [if_neg c5]
      exact k2
    · intro p hp
      simp only [parseContent]
      refine (skipSpace_good t p hp).bind ?_
      intro sc ⟨s1, s2⟩
      have hts : PosOK t (match sc.2 with | some ce => ce | none => p) := by
        cases h : sc.2 with
        | none => exact hp
        | some ce => exact s2 ce h
      have htext : ((parseText t (match sc.2 with | some ce => ce | none => p)).bind fun tx =>
            (parseContent t f tx.2).bind fun c => Res.ok (Content.text tx.1 c.1, c.2)).Good t
            (fun r => PosOK t r.2) := by
        refine (parseText_good t _ hts).bind ?_
        intro tx htx
        refine (ihC tx.2 htx).bind ?_
        intro c hc
        exact hc
      have htok := tokenAt_good t sc.1 s1
      cases htk : tokenAt t sc.1 with
      | oob => trivial
      | fuel => trivial
      | err l c m => exact htext
      | ok tp =>
        rw [htk] at htok
        obtain ⟨e1, e2⟩ := htok
        simp only
        by_cases c1 : tp.1.type = .endTagBegin
        · rw [if_pos c1]; exact e2
        rw [if_neg c1]
        by_cases c2 : tp.1.type = .startTagBegin
        · rw [if_pos c2]
          refine (ihE tp.1.pos tp.2 e2).bind ?_
          intro e he
          refine (ihC e.2 he).bind ?_
          intro c hc
          exact hc
        · rw [if_neg c2]; exact htext

theorem piStop_false {b : UInt8} (h : isPiScanStop b = false) : b ≠ 13 ∧ b ≠ 10 := by
  constructor <;> (intro e; subst e; revert h; decide)

theorem piInner_good (t : Bytes) : ∀ (f : Nat) (sp p : Pos), PosOK t sp → PosOK t p →
    (piInner t f sp p).Good t (PosOK t) := by
  intro f
  induction f with
  | zero => intro sp p _ _; trivial
  | succ f ih =>
    intro sp p hsp hp
    have hple := hp.1
    simp only [piInner]
    rw [cstr_le hple]; simp only [Res.ok_bind]
    cases hidx : idxOf isPiScanStop (t.drop p.pos) with
    | none => exact hsp.inside
    | some k =>
      simp only
      obtain ⟨hk, hstop, hbefore⟩ := idxOf_some hidx
      simp at hk
      rw [getD_drop] at hstop
      have he : PosOK t ⟨p.line, p.pos + k, p.ls⟩ := by
        refine hp.adv k (by omega) ?_
        intro j hj
        have := hbefore j hj
        rw [getD_drop] at this
        exact piStop_false this
      have hlt : p.pos + k < t.length := by omega
      rw [peek_eq (show p.pos + k ≤ t.length by omega)]; simp only [Res.ok_bind]
      by_cases h63 : t.getD (p.pos + k) 0 = 63
      · rw [if_pos h63, peek_eq (show p.pos + k + 1 ≤ t.length by omega)]; simp only [Res.ok_bind]
        have he1 : PosOK t ⟨p.line, p.pos + k + 1, p.ls⟩ := he.adv1 hlt (by rw [h63]; decide) (by rw [h63]; decide)
        by_cases hd62 : t.getD (p.pos + k + 1) 0 = 62
        · have hlt2 : p.pos + k + 1 < t.length := getD_ne_zero_lt (by rw [hd62]; decide)
          rw [if_pos hd62]
          exact he1.adv1 hlt2 (by rw [hd62]; decide) (by rw [hd62]; decide)
        · rw [if_neg hd62]
          exact ih sp _ hsp he1
      rw [if_neg h63]
      by_cases h13 : t.getD (p.pos + k) 0 = 13
      · rw [if_pos h13, peek_eq (show p.pos + k + 1 ≤ t.length by omega)]; simp only [Res.ok_bind]
        by_cases hd10 : t.getD (p.pos + k + 1) 0 = 10
        · have hlt2 : p.pos + k + 1 < t.length := getD_ne_zero_lt (by rw [hd10]; decide)
          simp only [hd10, if_true]
          exact ih sp _ hsp (he.crlf hlt2 h13 hd10)
        · simp only [hd10, if_false]
          exact ih sp _ hsp (he.cr hlt h13 hd10)
      rw [if_neg h13]
      have h10 : t.getD (p.pos + k) 0 = 10 := by
        rcases piStop_cases hstop h63 with h | h
        · exact absurd h h13
        · exact h
      exact ih sp _ hsp (he.lf hlt h10)

theorem piLoop_good (t : Bytes) : ∀ (f : Nat) (p : Pos), PosOK t p → (piLoop t f p).Good t (PosOK t) := by
  intro f
  induction f with
  | zero => intro p _; trivial
  | succ f ih =>
    intro p hp
    have hple := hp.1
    simp only [piLoop]
    rw [peek_eq hple]; simp only [Res.ok_bind]
    by_cases h60 : t.getD p.pos 0 = 60
    · have hlt : p.pos < t.length := getD_ne_zero_lt (by rw [h60]; decide)
      rw [if_pos h60, peek_eq (show p.pos + 1 ≤ t.length by omega)]; simp only [Res.ok_bind]
      by_cases hd63 : t.getD (p.pos + 1) 0 = 63
      · have hlt2 : p.pos + 1 < t.length := getD_ne_zero_lt (by rw [hd63]; decide)
        rw [if_pos hd63]
        have h2 : PosOK t ⟨p.line, p.pos + 2, p.ls⟩ := by
          refine hp.adv 2 (by omega) ?_
          intro j hj
          have : j = 0 ∨ j = 1 := by omega
          rcases this with rfl | rfl
          · rw [Nat.add_zero, h60]; decide
          · rw [hd63]; decide
        refine (piInner_good t _ p _ hp h2).bind ?_
        intro q hq
        refine (skipSpace_good t q hq).bind ?_
        intro q2 ⟨hq2, _⟩
        exact ih q2.1 hq2
      · rw [if_neg hd63]; exact hp
    · rw [if_neg h60]; exact hp

theorem parseDoc_good (t : Bytes) : (parseDoc t).Good t (fun _ => True) := by
  unfold parseDoc
  refine (skipSpace_good t _ (PosOK.init t)).bind ?_
  intro s0 ⟨h0, _⟩
  refine (piLoop_good t _ s0.1 h0).bind ?_
  intro p hp
  refine (readToken_good t p hp).bind ?_
  intro r ⟨r1, r2, _⟩
  by_cases c1 : r.1.type ≠ .startTagBegin
  · rw [if_pos c1]; exact r1.inside
  rw [if_neg c1]
  refine ((parse_mutual_good t _).1 r.1.pos r.2.1 r2).bind ?_
  intro e _
  trivial


/-- a position inside the text has line and column between 1 and length + 1 -/
theorem Inside.bounds {t : Bytes} {l c : Nat} (h : Inside t l c) :
    1 ≤ l ∧ l ≤ t.length + 1 ∧ 1 ≤ c ∧ c ≤ t.length + 1 := by
  obtain ⟨off, hoff, hlc⟩ := h
  unfold lineCol at hlc
  simp only [Prod.mk.injEq] at hlc
  obtain ⟨h1, h2⟩ := hlc
  have hb := lineScan_line_bounds (t.take off) 0 ⟨1, 0, false⟩
  simp only [List.length_take] at hb
  have : min off t.length ≤ t.length := Nat.min_le_right _ _
  omega

end Nstd.Xml
