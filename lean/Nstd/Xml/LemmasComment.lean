import Nstd.Xml.LemmasPos
import Nstd.Xml.LemmasRt
/-  a complete comment is skipped by `skipSpace` exactly like white space -/
namespace Nstd.Xml

/-- more fuel does not change a result -/
theorem skipLoop_mono (t : Bytes) : ∀ (f : Nat) (inC : Bool) (p : Pos) (ce : Option Pos) (r : Pos × Option Pos),
    skipLoop t f inC p ce = .ok r → skipLoop t (f + 1) inC p ce = .ok r := by
  intro f
  induction f with
  | zero => intro inC p ce r h; cases inC <;> simp [skipLoop] at h
  | succ f ih =>
    intro inC p ce r h
    cases inC with
    | false =>
      rw [skipLoop] at h ⊢
      obtain ⟨c, hc, h⟩ := bind_eq_ok h
      rw [hc]; simp only [Res.ok_bind]
      by_cases h13 : c = 13
      · rw [if_pos h13] at h ⊢
        obtain ⟨d, hd, h⟩ := bind_eq_ok h
        rw [hd]; simp only [Res.ok_bind]
        exact ih _ _ _ _ h
      rw [if_neg h13] at h ⊢
      by_cases h10 : c = 10
      · rw [if_pos h10] at h ⊢; exact ih _ _ _ _ h
      rw [if_neg h10] at h ⊢
      by_cases h60 : c = 60
      · rw [if_pos h60] at h ⊢
        obtain ⟨s, hs, h⟩ := bind_eq_ok h
        rw [hs]; simp only [Res.ok_bind]
        by_cases hcm : s.take 3 = [33, 45, 45]
        · rw [if_pos hcm] at h ⊢; exact ih _ _ _ _ h
        · rw [if_neg hcm] at h ⊢; exact h
      rw [if_neg h60] at h ⊢
      by_cases hsp : isSpace c = true
      · rw [if_pos hsp] at h ⊢; exact ih _ _ _ _ h
      · rw [if_neg hsp] at h ⊢; exact h
    | true =>
      rw [skipLoop] at h ⊢
      obtain ⟨s, hs, h⟩ := bind_eq_ok h
      rw [hs]; simp only [Res.ok_bind]
      cases hidx : idxOf isCommentScanStop s with
      | none => rw [hidx] at h; exact h
      | some k =>
        rw [hidx] at h
        simp only at h ⊢
        obtain ⟨c, hc, h⟩ := bind_eq_ok h
        rw [hc]; simp only [Res.ok_bind]
        by_cases h13 : c = 13
        · rw [if_pos h13] at h ⊢
          obtain ⟨d, hd, h⟩ := bind_eq_ok h
          rw [hd]; simp only [Res.ok_bind]
          exact ih _ _ _ _ h
        rw [if_neg h13] at h ⊢
        by_cases h10 : c = 10
        · rw [if_pos h10] at h ⊢; exact ih _ _ _ _ h
        rw [if_neg h10] at h ⊢
        obtain ⟨s2, hs2, h⟩ := bind_eq_ok h
        rw [hs2]; simp only [Res.ok_bind]
        by_cases hcl : s2.take 2 = [45, 62]
        · rw [if_pos hcl] at h ⊢; exact ih _ _ _ _ h
        · rw [if_neg hcl] at h ⊢; exact ih _ _ _ _ h

theorem skipLoop_mono_le (t : Bytes) {f f' : Nat} (hle : f ≤ f') {inC : Bool} {p : Pos} {ce : Option Pos}
    {r : Pos × Option Pos} (h : skipLoop t f inC p ce = .ok r) : skipLoop t f' inC p ce = .ok r := by
  induction hle with
  | refl => exact h
  | step _ ih => exact skipLoop_mono t _ _ _ _ _ ih


/-- the comment loop walks from `p` to the terminator `-->` at offset `m` and hands over to the outer loop -/
theorem comment_walk (t : Bytes) (lo m : Nat) (hm : m + 3 ≤ t.length)
    (h1 : t.getD m 0 = 45) (h2 : t.getD (m + 1) 0 = 45) (h3 : t.getD (m + 2) 0 = 62)
    (hbody : ∀ i, lo ≤ i → i < m → ¬(t.getD i 0 = 45 ∧ t.getD (i + 1) 0 = 45 ∧ t.getD (i + 2) 0 = 62)) :
    ∀ (n : Nat) (p : Pos) (ce : Option Pos), lo ≤ p.pos → p.pos ≤ m → m - p.pos ≤ n →
      ∃ q : Pos, q.pos = m + 3 ∧ (PosOK t p → PosOK t q) ∧
        ∀ r, (∃ f, skipLoop t f false q (some q) = .ok r) → ∃ f, skipLoop t f true p ce = .ok r := by
  intro n
  induction n using Nat.strongRecOn with
  | ind n ih =>
    intro p ce hlo hpm hn
    have hple : p.pos ≤ t.length := by omega
    -- next stop
    have hstopm : isCommentScanStop ((t.drop p.pos).getD (m - p.pos) 0) = true := by
      rw [getD_drop, show p.pos + (m - p.pos) = m by omega, h1]; decide
    obtain ⟨k, hidx⟩ : ∃ k, idxOf isCommentScanStop (t.drop p.pos) = some k := by
      cases h : idxOf isCommentScanStop (t.drop p.pos) with
      | some k => exact ⟨k, rfl⟩
      | none =>
        have := idxOf_none h (m - p.pos) (by simp; omega)
        rw [this] at hstopm; cases hstopm
    obtain ⟨hk, hstop, hbefore⟩ := idxOf_some hidx
    simp at hk
    rw [getD_drop] at hstop
    have hkm : p.pos + k ≤ m := by
      by_cases hlt : m < p.pos + k
      · have := hbefore (m - p.pos) (by omega)
        rw [this] at hstopm; cases hstopm
      · omega
    have hadv : PosOK t p → PosOK t ⟨p.line, p.pos + k, p.ls⟩ := by
      intro hp
      refine hp.adv k (by omega) ?_
      intro j hj
      have := hbefore j hj
      rw [getD_drop] at this
      exact commentStop_false this
    -- one iteration of the loop
    have hstep : ∀ (f : Nat) (X : Res (Pos × Option Pos)),
        ((peek t (p.pos + k)).bind fun c =>
          if c = 13 then
            (peek t (p.pos + k + 1)).bind fun d =>
              skipLoop t f true ⟨p.line + 1, if d = 10 then p.pos + k + 2 else p.pos + k + 1,
                if d = 10 then p.pos + k + 2 else p.pos + k + 1⟩ ce
          else if c = 10 then skipLoop t f true ⟨p.line + 1, p.pos + k + 1, p.pos + k + 1⟩ ce
          else (cstr t (p.pos + k + 1)).bind fun s2 =>
            if s2.take 2 = [45, 62] then skipLoop t f false ⟨p.line, p.pos + k + 3, p.ls⟩ (some ⟨p.line, p.pos + k + 3, p.ls⟩)
            else skipLoop t f true ⟨p.line, p.pos + k + 1, p.ls⟩ ce) = X →
        skipLoop t (f + 1) true p ce = X := by
      intro f X hX
      rw [skipLoop, cstr_le hple]; simp only [Res.ok_bind]
      rw [hidx]; simp only
      exact hX
    by_cases hem : p.pos + k = m
    · -- the terminator
      refine ⟨⟨p.line, p.pos + k + 3, p.ls⟩, by simp; omega, ?_, ?_⟩
      · intro hp
        refine (hadv hp).adv 3 (by simp; omega) ?_
        intro j hj
        have : j = 0 ∨ j = 1 ∨ j = 2 := by omega
        simp only
        rcases this with rfl | rfl | rfl
        · rw [Nat.add_zero, hem, h1]; decide
        · rw [hem, h2]; decide
        · rw [hem, h3]; decide
      · intro r ⟨f, hf⟩
        refine ⟨f + 1, hstep f _ ?_⟩
        rw [peek_eq (by omega), hem, h1]; simp only [Res.ok_bind]
        rw [if_neg (by decide), if_neg (by decide), cstr_le (by omega)]; simp only [Res.ok_bind]
        have : (t.drop (m + 1)).take 2 = [45, 62] := by
          have hl : m + 1 + 2 ≤ t.length := by omega
          rw [List.take_drop]
          apply List.ext_getElem
          · simp; omega
          · intro i hi1 hi2
            simp at hi1 hi2
            have : i = 0 ∨ i = 1 := by omega
            rcases this with rfl | rfl
            · simp [List.getD_eq_getElem?_getD] at h2
              have := List.getElem?_eq_getElem (l := t) (i := m + 1) (by omega)
              simp [this] at h2
              simpa using h2
            · simp [List.getD_eq_getElem?_getD] at h3
              have := List.getElem?_eq_getElem (l := t) (i := m + 2) (by omega)
              simp [this] at h3
              simpa [Nat.add_assoc] using h3
        rw [if_pos this]
        rw [← hem]; exact hf
    · have hlt : p.pos + k < m := by omega
      have hltl : p.pos + k < t.length := by omega
      by_cases h13 : t.getD (p.pos + k) 0 = 13
      · by_cases hd10 : t.getD (p.pos + k + 1) 0 = 10
        · have hne : p.pos + k + 1 ≠ m := by intro e; rw [e, h1] at hd10; revert hd10; decide
          obtain ⟨q, hq1, hq2, hq3⟩ := ih (m - (p.pos + k + 2)) (by omega) ⟨p.line + 1, p.pos + k + 2, p.pos + k + 2⟩ ce
            (by simp; omega) (by simp; omega) (by simp)
          refine ⟨q, hq1, fun hp => hq2 ((hadv hp).crlf (show p.pos + k + 1 < t.length by omega) h13 hd10), ?_⟩
          intro r hr
          obtain ⟨f, hf⟩ := hq3 r hr
          refine ⟨f + 1, hstep f _ ?_⟩
          rw [peek_eq (by omega)]; simp only [Res.ok_bind]
          rw [if_pos h13, peek_eq (by omega)]; simp only [Res.ok_bind]
          simp only [hd10, if_true]
          exact hf
        · obtain ⟨q, hq1, hq2, hq3⟩ := ih (m - (p.pos + k + 1)) (by omega) ⟨p.line + 1, p.pos + k + 1, p.pos + k + 1⟩ ce
            (by simp; omega) (by simp; omega) (by simp)
          refine ⟨q, hq1, fun hp => hq2 ((hadv hp).cr hltl h13 hd10), ?_⟩
          intro r hr
          obtain ⟨f, hf⟩ := hq3 r hr
          refine ⟨f + 1, hstep f _ ?_⟩
          rw [peek_eq (by omega)]; simp only [Res.ok_bind]
          rw [if_pos h13, peek_eq (by omega)]; simp only [Res.ok_bind]
          simp only [hd10, if_false]
          exact hf
      by_cases h10 : t.getD (p.pos + k) 0 = 10
      · obtain ⟨q, hq1, hq2, hq3⟩ := ih (m - (p.pos + k + 1)) (by omega) ⟨p.line + 1, p.pos + k + 1, p.pos + k + 1⟩ ce
          (by simp; omega) (by simp; omega) (by simp)
        refine ⟨q, hq1, fun hp => hq2 ((hadv hp).lf hltl h10), ?_⟩
        intro r hr
        obtain ⟨f, hf⟩ := hq3 r hr
        refine ⟨f + 1, hstep f _ ?_⟩
        rw [peek_eq (by omega)]; simp only [Res.ok_bind]
        rw [if_neg h13, if_pos h10]
        exact hf
      · -- a single `-`
        have h45 := commentStop_true hstop h13 h10
        have hnext := hbody (p.pos + k) (by omega) hlt
        obtain ⟨q, hq1, hq2, hq3⟩ := ih (m - (p.pos + k + 1)) (by omega) ⟨p.line, p.pos + k + 1, p.ls⟩ ce
          (by simp; omega) (by simp; omega) (by simp)
        refine ⟨q, hq1, fun hp => hq2 ((hadv hp).adv1 hltl h13 h10), ?_⟩
        intro r hr
        obtain ⟨f, hf⟩ := hq3 r hr
        refine ⟨f + 1, hstep f _ ?_⟩
        rw [peek_eq (by omega)]; simp only [Res.ok_bind]
        rw [if_neg h13, if_neg h10, cstr_le (by omega)]; simp only [Res.ok_bind]
        have : ¬ (t.drop (p.pos + k + 1)).take 2 = [45, 62] := by
          intro e
          exact hnext ⟨h45, (take2_bytes e).1, by simpa [Nat.add_assoc] using (take2_bytes e).2⟩
        rw [if_neg this]
        exact hf


/-- in front of a complete comment `skipSpace` does what the outer loop does behind it -/
theorem skipSpace_comment (t : Bytes) (p : Pos) (body rest : Bytes)
    (h : t.drop p.pos = [60, 33, 45, 45] ++ (body ++ ([45, 45, 62] ++ rest))) (hb : commentBody body) :
    ∃ q : Pos, q.pos = p.pos + 4 + body.length + 3 ∧ (PosOK t p → PosOK t q) ∧
      skipSpace t p = skipLoop t (t.length + 2) false q (some q) := by
  have h0 : t.drop p.pos = 60 :: 33 :: 45 :: 45 :: (body ++ ([45, 45, 62] ++ rest)) := by simpa using h
  obtain ⟨hplt, g0, hd1⟩ := drop_cons h0
  obtain ⟨_, g1, hd2⟩ := drop_cons hd1
  obtain ⟨_, g2, hd3⟩ := drop_cons hd2
  obtain ⟨_, g3, hd4⟩ := drop_cons hd3
  have hd4' : t.drop (p.pos + 4) = body ++ ([45, 45, 62] ++ rest) := by simpa [Nat.add_assoc] using hd4
  have hdm : t.drop (p.pos + 4 + body.length) = 45 :: 45 :: 62 :: rest := by simpa using drop_append hd4'
  obtain ⟨hmlt, m0, hdm1⟩ := drop_cons hdm
  obtain ⟨_, m1, hdm2⟩ := drop_cons hdm1
  obtain ⟨hm2lt, m2, _⟩ := drop_cons hdm2
  have hd4'' : t.drop (p.pos + 4) = (body ++ [45, 45]) ++ (62 :: rest) := by rw [hd4']; simp
  have hbody : ∀ i, p.pos + 4 ≤ i → i < p.pos + 4 + body.length →
      ¬(t.getD i 0 = 45 ∧ t.getD (i + 1) 0 = 45 ∧ t.getD (i + 2) 0 = 62) := by
    intro i hi1 hi2
    have e0 := drop_getD hd4'' (show i - (p.pos + 4) < (body ++ [45, 45]).length by simp; omega)
    rw [show p.pos + 4 + (i - (p.pos + 4)) = i by omega] at e0
    have e1 := drop_getD hd4'' (show i - (p.pos + 4) + 1 < (body ++ [45, 45]).length by simp; omega)
    rw [show p.pos + 4 + (i - (p.pos + 4) + 1) = i + 1 by omega] at e1
    have hget : t.getD (i + 2) 0 = (body ++ [45, 45]).getD (i - (p.pos + 4) + 2) 0 := by
      have e2 := drop_getD hd4'' (show i - (p.pos + 4) + 2 < (body ++ [45, 45]).length by simp; omega)
      rw [show p.pos + 4 + (i - (p.pos + 4) + 2) = i + 2 by omega] at e2
      exact e2
    rw [e0, e1, hget]
    exact hb _ (by omega)
  obtain ⟨q, hq1, hq2, hq3⟩ := comment_walk t (p.pos + 4) (p.pos + 4 + body.length) (by omega) m0 m1
    (by simpa [Nat.add_assoc] using m2) hbody (body.length) ⟨p.line, p.pos + 4, p.ls⟩ none
    (by simp) (by simp) (by simp)
  have hqle : q.pos ≤ t.length := by omega
  obtain ⟨r, hr, _⟩ := skipLoop_ok t (t.length + 2) false q (some q) hqle (by omega)
  obtain ⟨f, hf⟩ := hq3 r ⟨_, hr⟩
  obtain ⟨r', hr', _⟩ := skipLoop_ok t (t.length + 1) true ⟨p.line, p.pos + 4, p.ls⟩ none (by simp; omega) (by simp; omega)
  have e1 := skipLoop_mono_le t (Nat.le_max_left f (t.length + 1)) hf
  have e2 := skipLoop_mono_le t (Nat.le_max_right f (t.length + 1)) hr'
  have hrr : r = r' := by
    rw [e1] at e2; cases e2; rfl
  refine ⟨q, hq1, ?_, ?_⟩
  · intro hp
    exact hq2 (hp.adv 4 (by omega) (by
      intro j hj
      have : j = 0 ∨ j = 1 ∨ j = 2 ∨ j = 3 := by omega
      rcases this with rfl | rfl | rfl | rfl
      · rw [Nat.add_zero, g0]; decide
      · rw [g1]; decide
      · rw [show p.pos + 2 = p.pos + 1 + 1 by omega, g2]; decide
      · rw [show p.pos + 3 = p.pos + 1 + 1 + 1 by omega, g3]; decide))
  · rw [hr, hrr]
    unfold skipSpace
    rw [show t.length + 2 = (t.length + 1) + 1 from rfl, skipLoop]
    rw [peek_drop h0]; simp only [Res.ok_bind]
    rw [if_neg (by decide), if_neg (by decide), if_pos trivial, cstr_le (by omega), hd1]
    simp only [Res.ok_bind]
    rw [if_pos (by simp)]
    exact hr'


/-- the cursor `skipLoop` returns does not depend on the `commentEnd` it is started with, and the
    `commentEnd` it returns is either the one it was started with or the end of a comment it skipped -/
theorem skipLoop_ce_track (t : Bytes) : ∀ (f : Nat) (inC : Bool) (p : Pos) (ce ce' : Option Pos) (r : Pos × Option Pos),
    skipLoop t f inC p ce = .ok r →
    ∃ y, skipLoop t f inC p ce' = .ok (r.1, y) ∧ ((r.2 = ce ∧ y = ce') ∨ (r.2 = y ∧ ∃ c, y = some c)) := by
  intro f
  induction f with
  | zero => intro inC p ce ce' r h; cases inC <;> simp [skipLoop] at h
  | succ f ih =>
    intro inC p ce ce' r h
    cases inC with
    | false =>
      rw [skipLoop] at h ⊢
      obtain ⟨c, hc, h⟩ := bind_eq_ok h
      rw [hc]; simp only [Res.ok_bind]
      by_cases h13 : c = 13
      · rw [if_pos h13] at h ⊢
        obtain ⟨d, hd, h⟩ := bind_eq_ok h
        rw [hd]; simp only [Res.ok_bind]
        exact ih _ _ _ _ _ h
      rw [if_neg h13] at h ⊢
      by_cases h10 : c = 10
      · rw [if_pos h10] at h ⊢; exact ih _ _ _ _ _ h
      rw [if_neg h10] at h ⊢
      by_cases h60 : c = 60
      · rw [if_pos h60] at h ⊢
        obtain ⟨s, hs, h⟩ := bind_eq_ok h
        rw [hs]; simp only [Res.ok_bind]
        by_cases hcm : s.take 3 = [33, 45, 45]
        · rw [if_pos hcm] at h ⊢; exact ih _ _ _ _ _ h
        · rw [if_neg hcm] at h ⊢; cases h; exact ⟨_, rfl, Or.inl ⟨rfl, rfl⟩⟩
      rw [if_neg h60] at h ⊢
      by_cases hsp : isSpace c = true
      · rw [if_pos hsp] at h ⊢; exact ih _ _ _ _ _ h
      · rw [if_neg hsp] at h ⊢; cases h; exact ⟨_, rfl, Or.inl ⟨rfl, rfl⟩⟩
    | true =>
      rw [skipLoop] at h ⊢
      obtain ⟨s, hs, h⟩ := bind_eq_ok h
      rw [hs]; simp only [Res.ok_bind]
      cases hidx : idxOf isCommentScanStop s with
      | none => rw [hidx] at h; simp only at h ⊢; cases h; exact ⟨_, rfl, Or.inr ⟨rfl, _, rfl⟩⟩
      | some k =>
        rw [hidx] at h
        simp only at h ⊢
        obtain ⟨c, hc, h⟩ := bind_eq_ok h
        rw [hc]; simp only [Res.ok_bind]
        by_cases h13 : c = 13
        · rw [if_pos h13] at h ⊢
          obtain ⟨d, hd, h⟩ := bind_eq_ok h
          rw [hd]; simp only [Res.ok_bind]
          exact ih _ _ _ _ _ h
        rw [if_neg h13] at h ⊢
        by_cases h10 : c = 10
        · rw [if_pos h10] at h ⊢; exact ih _ _ _ _ _ h
        rw [if_neg h10] at h ⊢
        obtain ⟨s2, hs2, h⟩ := bind_eq_ok h
        rw [hs2]; simp only [Res.ok_bind]
        by_cases hcl : s2.take 2 = [45, 62]
        · rw [if_pos hcl] at h ⊢
          obtain ⟨y, hy, hcase⟩ := ih _ _ _ (some ⟨p.line, p.pos + k + 3, p.ls⟩) _ h
          refine ⟨y, hy, Or.inr ?_⟩
          rcases hcase with ⟨e1, e2⟩ | hr
          · exact ⟨by rw [e1, e2], _, e2⟩
          · exact hr
        · rw [if_neg hcl] at h ⊢; exact ih _ _ _ _ _ h

theorem skipLoop_ce_irrel (t : Bytes) (f : Nat) (inC : Bool) (p : Pos) (ce ce' : Option Pos) (r : Pos × Option Pos)
    (h : skipLoop t f inC p ce = .ok r) : ∃ y, skipLoop t f inC p ce' = .ok (r.1, y) := by
  obtain ⟨y, hy, _⟩ := skipLoop_ce_track t f inC p ce ce' r h
  exact ⟨y, hy⟩

/-- the token and the cursor behind it, without `commentEnd` -/
def tokenOnly (r : Res (Token × Pos × Option Pos)) : Res (Token × Pos) := r.bind fun x => .ok (x.1, x.2.1)

/-- in front of a complete comment `readToken` delivers the token that follows the comment -/
theorem readToken_comment (t : Bytes) (p : Pos) (body rest : Bytes)
    (h : t.drop p.pos = [60, 33, 45, 45] ++ (body ++ ([45, 45, 62] ++ rest))) (hb : commentBody body) :
    ∃ q : Pos, q.pos = p.pos + 4 + body.length + 3 ∧ (PosOK t p → PosOK t q) ∧
      tokenOnly (readToken t p) = tokenOnly (readToken t q) := by
  obtain ⟨q, hq1, hq2, hq3⟩ := skipSpace_comment t p body rest h hb
  refine ⟨q, hq1, hq2, ?_⟩
  have hlen : q.pos ≤ t.length := by
    have h0 : t.drop p.pos = ([60, 33, 45, 45] ++ (body ++ [45, 45, 62])) ++ rest := by rw [h]; simp
    have hple : p.pos ≤ t.length := by
      by_cases hp : p.pos ≤ t.length
      · exact hp
      · have : t.drop p.pos = [] := List.drop_eq_nil_of_le (by omega)
        rw [this] at h; simp at h
    have := drop_le h0 hple
    simp at this
    omega
  obtain ⟨r, hr, _⟩ := skipLoop_ok t (t.length + 2) false q (some q) hlen (by omega)
  obtain ⟨y, hy⟩ := skipLoop_ce_irrel t _ false q (some q) none r hr
  have hp : skipSpace t p = .ok r := by rw [hq3, hr]
  have hq : skipSpace t q = .ok (r.1, y) := hy
  unfold readToken tokenOnly
  rw [hp, hq]; simp only [Res.ok_bind]
  cases tokenAt t r.1 <;> rfl

/-- element content: in front of a complete comment the content loop does what it does behind it —
    whatever follows (a child element, the end tag, or text, which then starts behind the comment) -/
theorem parseContent_comment (t : Bytes) (p : Pos) (body rest : Bytes) (f : Nat)
    (h : t.drop p.pos = [60, 33, 45, 45] ++ (body ++ ([45, 45, 62] ++ rest))) (hb : commentBody body) :
    ∃ q : Pos, q.pos = p.pos + 4 + body.length + 3 ∧ (PosOK t p → PosOK t q) ∧
      parseContent t (f + 1) p = parseContent t (f + 1) q := by
  obtain ⟨q, hq1, hq2, hq3⟩ := skipSpace_comment t p body rest h hb
  refine ⟨q, hq1, hq2, ?_⟩
  have hlen : q.pos ≤ t.length := by
    have h0 : t.drop p.pos = ([60, 33, 45, 45] ++ (body ++ [45, 45, 62])) ++ rest := by rw [h]; simp
    have hple : p.pos ≤ t.length := by
      by_cases hp : p.pos ≤ t.length
      · exact hp
      · have : t.drop p.pos = [] := List.drop_eq_nil_of_le (by omega)
        rw [this] at h; simp at h
    have := drop_le h0 hple
    simp at this
    omega
  obtain ⟨r, hr, _⟩ := skipLoop_ok t (t.length + 2) false q (some q) hlen (by omega)
  obtain ⟨y, hy, hcase⟩ := skipLoop_ce_track t _ false q (some q) none r hr
  have hp : skipSpace t p = .ok r := by rw [hq3, hr]
  have hq : skipSpace t q = .ok (r.1, y) := hy
  obtain ⟨r1, x⟩ := r
  simp only at hcase hp hq
  rcases hcase with ⟨e1, e2⟩ | ⟨e1, c, e2⟩
  · subst e1 e2
    simp only [parseContent]
    rw [hp, hq]
    simp only [Res.ok_bind]
  · subst e1 e2
    simp only [parseContent]
    rw [hp, hq]
    simp only [Res.ok_bind]

end Nstd.Xml
