import Nstd.Xml.Model
/-  memory safety and termination of the parser model: no `.oob`, no `.fuel`, cursor bounds -/
namespace Nstd.Xml

theorem peek_lt {t : Bytes} {i : Nat} (h : i < t.length) : peek t i = .ok (t.getD i 0) := by
  simp [peek, h]

theorem peek_len (t : Bytes) : peek t t.length = .ok 0 := by
  simp [peek]

theorem peek_le {t : Bytes} {i : Nat} (h : i ≤ t.length) : ∃ b, peek t i = .ok b ∧ (b ≠ 0 → i < t.length) ∧
    (i < t.length → b = t.getD i 0) := by
  by_cases h1 : i < t.length
  · exact ⟨_, peek_lt h1, fun _ => h1, fun _ => rfl⟩
  · have : i = t.length := by omega
    subst this
    exact ⟨0, peek_len t, fun h => absurd rfl h, fun h => absurd h h1⟩

theorem cstr_le {t : Bytes} {i : Nat} (h : i ≤ t.length) : cstr t i = .ok (t.drop i) := by
  simp [cstr, h]

theorem idxOf_some {p : UInt8 → Bool} : ∀ {s : Bytes} {k : Nat}, idxOf p s = some k →
    k < s.length ∧ p (s.getD k 0) = true ∧ ∀ j, j < k → p (s.getD j 0) = false := by
  intro s
  induction s with
  | nil => intro k h; simp [idxOf] at h
  | cons b r ih =>
    intro k h
    simp only [idxOf] at h
    by_cases hb : p b = true
    · simp [hb] at h
      subst h
      simp [hb]
    · simp [hb] at h
      obtain ⟨k', hk', rfl⟩ := h
      obtain ⟨h1, h2, h3⟩ := ih hk'
      refine ⟨by simp; omega, by simpa using h2, ?_⟩
      intro j hj
      cases j with
      | zero => simpa using hb
      | succ j => simpa using h3 j (by omega)

theorem idxOf_none {p : UInt8 → Bool} : ∀ {s : Bytes}, idxOf p s = none → ∀ j, j < s.length → p (s.getD j 0) = false := by
  intro s
  induction s with
  | nil => intro _ j hj; simp at hj
  | cons b r ih =>
    intro h j hj
    simp only [idxOf] at h
    by_cases hb : p b = true
    · simp [hb] at h
    · simp [hb] at h
      cases j with
      | zero => simpa using hb
      | succ j => simpa using ih h j (by simpa using hj)

theorem bind_eq_ok {α β : Type} {r : Res α} {f : α → Res β} {x : β} (h : r.bind f = .ok x) :
    ∃ a, r = .ok a ∧ f a = .ok x := by
  cases r with
  | ok a => exact ⟨a, rfl, h⟩
  | err l c m => cases h
  | oob => cases h
  | fuel => cases h

theorem getD_drop (t : Bytes) (i j : Nat) : (t.drop i).getD j 0 = t.getD (i + j) 0 := by
  simp [List.getD_eq_getElem?_getD]


/-- what `skipLoop` guarantees about the cursor and `commentEnd` -/
def SkipPost (t : Bytes) (inC : Bool) (p : Pos) (ce : Option Pos) (r : Pos × Option Pos) : Prop :=
  p.pos ≤ r.1.pos ∧ r.1.pos ≤ t.length ∧
  (if inC then ∃ c, r.2 = some c ∧ p.pos ≤ c.pos ∧ c.pos ≤ r.1.pos
   else (r.2 = ce ∧ ∀ j, p.pos ≤ j → j < r.1.pos → t.getD j 0 ≠ 60) ∨
        (∃ c, r.2 = some c ∧ p.pos < c.pos ∧ c.pos ≤ r.1.pos))

theorem SkipPost.step_ff {t : Bytes} {p p' : Pos} {ce : Option Pos} {r : Pos × Option Pos}
    (h : SkipPost t false p' ce r) (hle : p.pos ≤ p'.pos)
    (hne : ∀ j, p.pos ≤ j → j < p'.pos → t.getD j 0 ≠ 60) : SkipPost t false p ce r := by
  obtain ⟨h1, h2, h3⟩ := h
  refine ⟨by omega, h2, ?_⟩
  simp only [Bool.false_eq_true, if_false] at h3 ⊢
  rcases h3 with ⟨e, hj⟩ | ⟨c, e, hc1, hc2⟩
  · left
    refine ⟨e, fun j hj1 hj2 => ?_⟩
    by_cases hjp : j < p'.pos
    · exact hne j hj1 hjp
    · exact hj j (by omega) hj2
  · right; exact ⟨c, e, by omega, hc2⟩

theorem SkipPost.step_ft {t : Bytes} {p p' : Pos} {ce : Option Pos} {r : Pos × Option Pos}
    (h : SkipPost t true p' ce r) (hlt : p.pos < p'.pos) : SkipPost t false p ce r := by
  obtain ⟨h1, h2, h3⟩ := h
  refine ⟨by omega, h2, ?_⟩
  simp only [if_true, Bool.false_eq_true, if_false] at h3 ⊢
  obtain ⟨c, e, hc1, hc2⟩ := h3
  right; exact ⟨c, e, by omega, hc2⟩

theorem SkipPost.step_tt {t : Bytes} {p p' : Pos} {ce ce' : Option Pos} {r : Pos × Option Pos}
    (h : SkipPost t true p' ce' r) (hle : p.pos ≤ p'.pos) : SkipPost t true p ce r := by
  obtain ⟨h1, h2, h3⟩ := h
  refine ⟨by omega, h2, ?_⟩
  simp only [if_true] at h3 ⊢
  obtain ⟨c, e, hc1, hc2⟩ := h3
  exact ⟨c, e, by omega, hc2⟩

theorem SkipPost.step_tf {t : Bytes} {p q : Pos} {ce : Option Pos} {r : Pos × Option Pos}
    (h : SkipPost t false q (some q) r) (hle : p.pos ≤ q.pos) : SkipPost t true p ce r := by
  obtain ⟨h1, h2, h3⟩ := h
  refine ⟨by omega, h2, ?_⟩
  simp only [if_true, Bool.false_eq_true, if_false] at h3 ⊢
  rcases h3 with ⟨e, _⟩ | ⟨c, e, hc1, hc2⟩
  · exact ⟨q, e, hle, h1⟩
  · exact ⟨c, e, by omega, hc2⟩

theorem isSpace_ne_60 {c : UInt8} (h : isSpace c = true) : c ≠ 60 := by
  intro e; subst e; revert h; decide

theorem take3_length {s : Bytes} {a b c : UInt8} (h : s.take 3 = [a, b, c]) : 3 ≤ s.length := by
  have := congrArg List.length h
  simp at this
  omega

theorem take2_length {s : Bytes} {a b : UInt8} (h : s.take 2 = [a, b]) : 2 ≤ s.length := by
  have := congrArg List.length h
  simp at this
  omega

theorem skipLoop_ok (t : Bytes) : ∀ (f : Nat) (inC : Bool) (p : Pos) (ce : Option Pos),
    p.pos ≤ t.length → t.length - p.pos < f →
    ∃ r, skipLoop t f inC p ce = .ok r ∧ SkipPost t inC p ce r := by
  intro f
  induction f with
  | zero => intro inC p ce _ h; omega
  | succ f ih =>
    intro inC p ce hp hf
    cases inC with
    | false =>
      simp only [skipLoop]
      obtain ⟨c, hc, hnz, hval⟩ := peek_le hp
      rw [hc]; simp only [Res.ok_bind]
      by_cases h13 : c = 13
      · have hlt : p.pos < t.length := hnz (by rw [h13]; decide)
        obtain ⟨d, hd, hdnz, hdval⟩ := peek_le (show p.pos + 1 ≤ t.length by omega)
        rw [if_pos h13, hd]; simp only [Res.ok_bind]
        have hcv : t.getD p.pos 0 = 13 := by rw [← hval hlt, h13]
        by_cases hd10 : d = 10
        · have hlt2 : p.pos + 1 < t.length := hdnz (by rw [hd10]; decide)
          have hdv : t.getD (p.pos + 1) 0 = 10 := by rw [← hdval hlt2, hd10]
          simp only [hd10, if_true]
          obtain ⟨r, hr, hpost⟩ := ih false ⟨p.line + 1, p.pos + 2, p.pos + 2⟩ ce (by simp; omega) (by simp; omega)
          refine ⟨r, hr, hpost.step_ff (by simp) ?_⟩
          intro j hj1 hj2
          simp at hj2
          have : j = p.pos ∨ j = p.pos + 1 := by omega
          rcases this with rfl | rfl
          · rw [hcv]; decide
          · rw [hdv]; decide
        · simp only [hd10, if_false]
          obtain ⟨r, hr, hpost⟩ := ih false ⟨p.line + 1, p.pos + 1, p.pos + 1⟩ ce (by simp; omega) (by simp; omega)
          refine ⟨r, hr, hpost.step_ff (by simp) ?_⟩
          intro j hj1 hj2
          simp at hj2
          have : j = p.pos := by omega
          subst this; rw [hcv]; decide
      rw [if_neg h13]
      by_cases h10 : c = 10
      · have hlt : p.pos < t.length := hnz (by rw [h10]; decide)
        have hcv : t.getD p.pos 0 = 10 := by rw [← hval hlt, h10]
        rw [if_pos h10]
        obtain ⟨r, hr, hpost⟩ := ih false ⟨p.line + 1, p.pos + 1, p.pos + 1⟩ ce (by simp; omega) (by simp; omega)
        refine ⟨r, hr, hpost.step_ff (by simp) ?_⟩
        intro j hj1 hj2
        simp at hj2
        have : j = p.pos := by omega
        subst this; rw [hcv]; decide
      rw [if_neg h10]
      by_cases h60 : c = 60
      · have hlt : p.pos < t.length := hnz (by rw [h60]; decide)
        rw [if_pos h60, cstr_le (show p.pos + 1 ≤ t.length by omega)]; simp only [Res.ok_bind]
        by_cases hcm : (t.drop (p.pos + 1)).take 3 = [33, 45, 45]
        · rw [if_pos hcm]
          have h3 := take3_length hcm
          simp at h3
          obtain ⟨r, hr, hpost⟩ := ih true ⟨p.line, p.pos + 4, p.ls⟩ ce (by simp; omega) (by simp; omega)
          exact ⟨r, hr, hpost.step_ft (by simp)⟩
        · rw [if_neg hcm]
          refine ⟨(p, ce), rfl, Nat.le_refl _, hp, ?_⟩
          simp only [Bool.false_eq_true, if_false]
          left; exact ⟨trivial, fun j h1 h2 => by omega⟩
      rw [if_neg h60]
      by_cases hsp : isSpace c = true
      · have hlt : p.pos < t.length := hnz (by intro e; subst e; revert hsp; decide)
        have hcv : t.getD p.pos 0 = c := (hval hlt).symm
        rw [if_pos hsp]
        obtain ⟨r, hr, hpost⟩ := ih false ⟨p.line, p.pos + 1, p.ls⟩ ce (by simp; omega) (by simp; omega)
        refine ⟨r, hr, hpost.step_ff (by simp) ?_⟩
        intro j hj1 hj2
        simp at hj2
        have : j = p.pos := by omega
        subst this; rw [hcv]; exact h60
      · rw [if_neg hsp]
        refine ⟨(p, ce), rfl, Nat.le_refl _, hp, ?_⟩
        simp only [Bool.false_eq_true, if_false]
        left; exact ⟨trivial, fun j h1 h2 => by omega⟩
    | true =>
      simp only [skipLoop]
      rw [cstr_le hp]; simp only [Res.ok_bind]
      cases hidx : idxOf isCommentScanStop (t.drop p.pos) with
      | none =>
        simp only
        refine ⟨_, rfl, by simp, by simp; omega, ?_⟩
        simp only [if_true]
        exact ⟨_, rfl, by simp, by simp⟩
      | some k =>
        simp only
        obtain ⟨hk, _, _⟩ := idxOf_some hidx
        simp at hk
        obtain ⟨c, hc, hnz, hval⟩ := peek_le (show p.pos + k ≤ t.length by omega)
        rw [hc]; simp only [Res.ok_bind]
        by_cases h13 : c = 13
        · obtain ⟨d, hd, hdnz, hdval⟩ := peek_le (show p.pos + k + 1 ≤ t.length by omega)
          rw [if_pos h13, hd]; simp only [Res.ok_bind]
          by_cases hd10 : d = 10
          · have hlt2 : p.pos + k + 1 < t.length := hdnz (by rw [hd10]; decide)
            simp only [hd10, if_true]
            obtain ⟨r, hr, hpost⟩ := ih true ⟨p.line + 1, p.pos + k + 2, p.pos + k + 2⟩ ce (by simp; omega) (by simp; omega)
            exact ⟨r, hr, hpost.step_tt (by simp; omega)⟩
          · simp only [hd10, if_false]
            obtain ⟨r, hr, hpost⟩ := ih true ⟨p.line + 1, p.pos + k + 1, p.pos + k + 1⟩ ce (by simp; omega) (by simp; omega)
            exact ⟨r, hr, hpost.step_tt (by simp; omega)⟩
        rw [if_neg h13]
        by_cases h10 : c = 10
        · rw [if_pos h10]
          obtain ⟨r, hr, hpost⟩ := ih true ⟨p.line + 1, p.pos + k + 1, p.pos + k + 1⟩ ce (by simp; omega) (by simp; omega)
          exact ⟨r, hr, hpost.step_tt (by simp; omega)⟩
        rw [if_neg h10, cstr_le (show p.pos + k + 1 ≤ t.length by omega)]; simp only [Res.ok_bind]
        by_cases hcl : (t.drop (p.pos + k + 1)).take 2 = [45, 62]
        · rw [if_pos hcl]
          have h2 := take2_length hcl
          simp at h2
          obtain ⟨r, hr, hpost⟩ := ih false ⟨p.line, p.pos + k + 3, p.ls⟩ (some ⟨p.line, p.pos + k + 3, p.ls⟩) (by simp; omega) (by simp; omega)
          exact ⟨r, hr, hpost.step_tf (by simp; omega)⟩
        · rw [if_neg hcl]
          obtain ⟨r, hr, hpost⟩ := ih true ⟨p.line, p.pos + k + 1, p.ls⟩ ce (by simp; omega) (by simp; omega)
          exact ⟨r, hr, hpost.step_tt (by simp; omega)⟩

theorem skipSpace_ok (t : Bytes) (p : Pos) (hp : p.pos ≤ t.length) :
    ∃ r, skipSpace t p = .ok r ∧ SkipPost t false p none r :=
  skipLoop_ok t _ false p none hp (by omega)


/-- neither an out-of-bounds read nor exhausted fuel; a value satisfies `P` -/
def Res.Safe {α : Type} (r : Res α) (P : α → Prop) : Prop :=
  match r with
  | .ok a => P a
  | .err _ _ _ => True
  | .oob => False
  | .fuel => False

theorem Res.Safe.bind {α β : Type} {r : Res α} {P : α → Prop} {f : α → Res β} {Q : β → Prop}
    (h : r.Safe P) (hf : ∀ a, P a → (f a).Safe Q) : (r.bind f).Safe Q := by
  cases r with
  | ok a => exact hf a h
  | err l c m => trivial
  | oob => exact h
  | fuel => exact h

theorem Res.Safe.mono {α : Type} {r : Res α} {P Q : α → Prop} (h : r.Safe P) (hpq : ∀ a, P a → Q a) : r.Safe Q := by
  cases r with
  | ok a => exact hpq a h
  | err l c m => trivial
  | oob => exact h
  | fuel => exact h

def isTag (ty : TokType) : Prop := ty = .startTagBegin ∨ ty = .endTagBegin

/-- a token starts at the cursor, is not empty and ends inside the text -/
def TokPost (t : Bytes) (p : Pos) (r : Token × Pos) : Prop :=
  r.1.pos = p ∧ p.pos < r.2.pos ∧ r.2.pos ≤ t.length ∧ (isTag r.1.type ∨ t.getD p.pos 0 ≠ 60)

theorem tokenAt_safe (t : Bytes) (p : Pos) (hp : p.pos ≤ t.length) :
    match tokenAt t p with
    | .ok r => TokPost t p r
    | .err _ _ _ => t.getD p.pos 0 ≠ 60
    | .oob => False
    | .fuel => False := by
  unfold tokenAt
  obtain ⟨c, hc, hnz, hval⟩ := peek_le hp
  rw [hc]; simp only [Res.ok_bind]
  have hne60 : c ≠ 60 → t.getD p.pos 0 ≠ 60 := by
    intro h
    by_cases hlt : p.pos < t.length
    · rw [← hval hlt]; exact h
    · have : p.pos = t.length := by omega
      rw [this]; simp
  by_cases h60 : c = 60
  · have hlt : p.pos < t.length := hnz (by rw [h60]; decide)
    obtain ⟨d, hd, _, _⟩ := peek_le (show p.pos + 1 ≤ t.length by omega)
    rw [if_pos h60, hd]; simp only [Res.ok_bind]
    by_cases hd47 : d = 47
    · have hlt2 : p.pos + 1 < t.length := by
        rename_i h1 _; exact h1 (by rw [hd47]; decide)
      rw [if_pos hd47]
      exact ⟨rfl, by simp, by simp; omega, Or.inl (Or.inr rfl)⟩
    · rw [if_neg hd47]
      exact ⟨rfl, by simp, by simp; omega, Or.inl (Or.inl rfl)⟩
  rw [if_neg h60]
  by_cases h62 : c = 62
  · have hlt : p.pos < t.length := hnz (by rw [h62]; decide)
    rw [if_pos h62]
    exact ⟨rfl, by simp, by simp; omega, Or.inr (hne60 h60)⟩
  rw [if_neg h62]
  by_cases h0 : c = 0
  · rw [if_pos h0]; exact hne60 h60
  rw [if_neg h0]
  have hlt : p.pos < t.length := hnz h0
  by_cases h61 : c = 61
  · rw [if_pos h61]
    exact ⟨rfl, by simp, by simp; omega, Or.inr (hne60 h60)⟩
  rw [if_neg h61]
  by_cases hq : c = 34 ∨ c = 39
  · rw [if_pos hq, cstr_le (show p.pos + 1 ≤ t.length by omega)]; simp only [Res.ok_bind]
    cases hidx : idxOf (fun b => b == c || b == 13 || b == 10) (t.drop (p.pos + 1)) with
    | none => exact hne60 h60
    | some k =>
      simp only
      obtain ⟨hk, _, _⟩ := idxOf_some hidx
      simp at hk
      obtain ⟨e, he, _, _⟩ := peek_le (show p.pos + 1 + k ≤ t.length by omega)
      rw [he]; simp only [Res.ok_bind]
      by_cases hec : e ≠ c
      · rw [if_pos hec]; exact hne60 h60
      · rw [if_neg hec]
        exact ⟨rfl, by simp; omega, by simp; omega, Or.inr (hne60 h60)⟩
  rw [if_neg hq]
  have hempt : ∃ b, (if c = 47 then (peek t (p.pos + 1)).bind fun d => Res.ok (decide (d = 62)) else Res.ok false) = Res.ok b ∧
      (b = true → p.pos + 2 ≤ t.length) := by
    by_cases h47 : c = 47
    · obtain ⟨d, hd, hdnz, _⟩ := peek_le (show p.pos + 1 ≤ t.length by omega)
      rw [if_pos h47, hd]
      refine ⟨_, rfl, ?_⟩
      intro hb
      have : d = 62 := by simpa using hb
      have := hdnz (by rw [this]; decide)
      omega
    · rw [if_neg h47]; exact ⟨false, rfl, by simp⟩
  obtain ⟨b, hb, hb2⟩ := hempt
  rw [hb]; simp only [Res.ok_bind]
  by_cases hbt : b = true
  · rw [if_pos hbt]
    exact ⟨rfl, by simp, by simp; exact hb2 hbt, Or.inr (hne60 h60)⟩
  rw [if_neg hbt, cstr_le hp]; simp only [Res.ok_bind]
  by_cases hemp : ((t.drop p.pos).takeWhile isNameByte).isEmpty = true
  · rw [if_pos hemp]; exact hne60 h60
  · rw [if_neg hemp]
    have hl1 : 0 < ((t.drop p.pos).takeWhile isNameByte).length := by
      cases h : (t.drop p.pos).takeWhile isNameByte with
      | nil => simp [h] at hemp
      | cons => simp
    have hl2 : ((t.drop p.pos).takeWhile isNameByte).length ≤ (t.drop p.pos).length :=
      (List.takeWhile_sublist _).length_le
    simp at hl2
    exact ⟨rfl, by simp; omega, by simp; omega, Or.inr (hne60 h60)⟩

/-- result of `readToken`: the token lies behind the old cursor -/
def ReadPost (t : Bytes) (p : Pos) (r : Token × Pos × Option Pos) : Prop :=
  p.pos ≤ r.1.pos.pos ∧ r.1.pos.pos < r.2.1.pos ∧ r.2.1.pos ≤ t.length

theorem readToken_safe (t : Bytes) (p : Pos) (hp : p.pos ≤ t.length) : (readToken t p).Safe (ReadPost t p) := by
  unfold readToken
  obtain ⟨r, hr, h1, h2, _⟩ := skipSpace_ok t p hp
  rw [hr]; simp only [Res.ok_bind]
  have := tokenAt_safe t r.1 h2
  cases htk : tokenAt t r.1 with
  | ok tp =>
    rw [htk] at this
    obtain ⟨e1, e2, e3, _⟩ := this
    simp only [Res.ok_bind, Res.Safe, ReadPost]
    rw [e1]; exact ⟨h1, e2, e3⟩
  | err l c m => trivial
  | oob => rw [htk] at this; exact this
  | fuel => rw [htk] at this; exact this


theorem textStop_false_ne60 {b : UInt8} (h : isTextScanStop b = false) : b ≠ 60 := by
  intro e; subst e; revert h; decide

theorem textStop_true {b : UInt8} (h : isTextScanStop b = true) (h13 : b ≠ 13) (h10 : b ≠ 10) : b = 60 := by
  simp only [isTextScanStop, Bool.or_eq_true, beq_iff_eq] at h
  rcases h with (h | h) | h
  · exact h
  · exact absurd h h13
  · exact absurd h h10

/-- `parseText`'s loop stops at the first `<` at or behind the cursor -/
def TextPost (t : Bytes) (p q : Pos) : Prop :=
  p.pos ≤ q.pos ∧ q.pos < t.length ∧ t.getD q.pos 0 = 60 ∧ ∀ j, p.pos ≤ j → j < q.pos → t.getD j 0 ≠ 60

theorem TextPost.step {t : Bytes} {p p' q : Pos} (h : TextPost t p' q) (hle : p.pos ≤ p'.pos)
    (hne : ∀ j, p.pos ≤ j → j < p'.pos → t.getD j 0 ≠ 60) : TextPost t p q := by
  obtain ⟨h1, h2, h3, h4⟩ := h
  refine ⟨by omega, h2, h3, fun j hj1 hj2 => ?_⟩
  by_cases hjp : j < p'.pos
  · exact hne j hj1 hjp
  · exact h4 j (by omega) hj2

theorem textLoop_safe (t : Bytes) : ∀ (f : Nat) (p : Pos), p.pos ≤ t.length → t.length - p.pos < f →
    (textLoop t f p).Safe (TextPost t p) := by
  intro f
  induction f with
  | zero => intro p _ h; omega
  | succ f ih =>
    intro p hp hf
    simp only [textLoop]
    rw [cstr_le hp]; simp only [Res.ok_bind]
    cases hidx : idxOf isTextScanStop (t.drop p.pos) with
    | none => trivial
    | some k =>
      simp only
      obtain ⟨hk, hstop, hbefore⟩ := idxOf_some hidx
      simp at hk
      rw [getD_drop] at hstop
      have hbefore' : ∀ j, p.pos ≤ j → j < p.pos + k → t.getD j 0 ≠ 60 := by
        intro j hj1 hj2
        have := hbefore (j - p.pos) (by omega)
        rw [getD_drop] at this
        have e : p.pos + (j - p.pos) = j := by omega
        rw [e] at this
        exact textStop_false_ne60 this
      have hlt : p.pos + k < t.length := by omega
      rw [peek_lt hlt]; simp only [Res.ok_bind]
      by_cases h13 : t.getD (p.pos + k) 0 = 13
      · obtain ⟨d, hd, hdnz, hdval⟩ := peek_le (show p.pos + k + 1 ≤ t.length by omega)
        rw [if_pos h13, hd]; simp only [Res.ok_bind]
        by_cases hd10 : d = 10
        · have hlt2 : p.pos + k + 1 < t.length := hdnz (by rw [hd10]; decide)
          have hdv : t.getD (p.pos + k + 1) 0 = 10 := by rw [← hdval hlt2, hd10]
          simp only [hd10, if_true]
          refine (ih ⟨p.line + 1, p.pos + k + 2, p.pos + k + 2⟩ (by simp; omega) (by simp; omega)).mono ?_
          intro q hq
          refine hq.step (by simp; omega) ?_
          intro j hj1 hj2
          simp at hj2
          by_cases hj : j < p.pos + k
          · exact hbefore' j hj1 hj
          · have : j = p.pos + k ∨ j = p.pos + k + 1 := by omega
            rcases this with rfl | rfl
            · rw [h13]; decide
            · rw [hdv]; decide
        · simp only [hd10, if_false]
          refine (ih ⟨p.line + 1, p.pos + k + 1, p.pos + k + 1⟩ (by simp; omega) (by simp; omega)).mono ?_
          intro q hq
          refine hq.step (by simp; omega) ?_
          intro j hj1 hj2
          simp at hj2
          by_cases hj : j < p.pos + k
          · exact hbefore' j hj1 hj
          · have : j = p.pos + k := by omega
            subst this; rw [h13]; decide
      rw [if_neg h13]
      by_cases h10 : t.getD (p.pos + k) 0 = 10
      · rw [if_pos h10]
        refine (ih ⟨p.line + 1, p.pos + k + 1, p.pos + k + 1⟩ (by simp; omega) (by simp; omega)).mono ?_
        intro q hq
        refine hq.step (by simp; omega) ?_
        intro j hj1 hj2
        simp at hj2
        by_cases hj : j < p.pos + k
        · exact hbefore' j hj1 hj
        · have : j = p.pos + k := by omega
          subst this; rw [h10]; decide
      rw [if_neg h10]
      exact ⟨by simp, by simpa using hlt, by simpa using textStop_true hstop h13 h10, by simpa using hbefore'⟩

theorem parseText_safe (t : Bytes) (p : Pos) (hp : p.pos ≤ t.length) :
    (parseText t p).Safe (fun r => TextPost t p r.2) := by
  unfold parseText
  exact (textLoop_safe t _ p hp (by omega)).bind (fun q hq => hq)

/-- the attribute loop ends behind `>` or `/>` -/
theorem parseAttrs_safe (t : Bytes) : ∀ (f : Nat) (as : List (Bytes × Bytes)) (p : Pos),
    p.pos ≤ t.length → t.length - p.pos < f →
    (parseAttrs t f as p).Safe (fun r => p.pos < r.2.2.pos ∧ r.2.2.pos ≤ t.length) := by
  intro f
  induction f with
  | zero => intro as p _ h; omega
  | succ f ih =>
    intro as p hp hf
    simp only [parseAttrs]
    refine (readToken_safe t p hp).bind ?_
    intro r ⟨h1, h2, h3⟩
    by_cases c1 : r.1.type = .emptyTagEnd
    · rw [if_pos c1]; exact ⟨by simp; omega, h3⟩
    rw [if_neg c1]
    by_cases c2 : r.1.type = .tagEnd
    · rw [if_pos c2]; exact ⟨by simp; omega, h3⟩
    rw [if_neg c2]
    by_cases c3 : r.1.type = .name
    · rw [if_pos c3]
      refine (readToken_safe t r.2.1 h3).bind ?_
      intro r2 ⟨g1, g2, g3⟩
      by_cases c4 : r2.1.type ≠ .equalsSign
      · rw [if_pos c4]; trivial
      rw [if_neg c4]
      refine (readToken_safe t r2.2.1 g3).bind ?_
      intro r3 ⟨k1, k2, k3⟩
      by_cases c5 : r3.1.type ≠ .string
      · rw [if_pos c5]; trivial
      rw [if_neg c5]
      refine (ih _ r3.2.1 k3 (by omega)).mono ?_
      intro a ⟨a1, a2⟩
      exact ⟨by omega, a2⟩
    · rw [if_neg c3]
      refine (ih _ r.2.1 h3 (by omega)).mono ?_
      intro a ⟨a1, a2⟩
      exact ⟨by omega, a2⟩


/-- progress of one parser call: the cursor moves forward and stays inside the text -/
def Adv (t : Bytes) (p q : Pos) : Prop := p.pos < q.pos ∧ q.pos ≤ t.length

theorem parse_mutual_safe (t : Bytes) : ∀ f : Nat,
    (∀ (start p : Pos), p.pos ≤ t.length → t.length - p.pos < f →
      (parseElement t f start p).Safe (fun r => Adv t p r.2)) ∧
    (∀ (p : Pos), p.pos ≤ t.length → t.length - p.pos < f →
      (parseContent t f p).Safe (fun r => Adv t p r.2)) := by
  intro f
  induction f with
  | zero => exact ⟨fun _ p _ h => by omega, fun p _ h => by omega⟩
  | succ f ih =>
    obtain ⟨ihE, ihC⟩ := ih
    constructor
    · intro start p hp hf
      simp only [parseElement]
      refine (readToken_safe t p hp).bind ?_
      intro r ⟨h1, h2, h3⟩
      by_cases c1 : r.1.type ≠ .name
      · rw [if_pos c1]; trivial
      rw [if_neg c1]
      refine (parseAttrs_safe t _ [] r.2.1 h3 (by omega)).bind ?_
      intro a ⟨a1, a2⟩
      by_cases c2 : a.2.1 = true
      · rw [if_pos c2]; exact ⟨by simp; omega, a2⟩
      rw [if_neg c2]
      refine (ihC a.2.2 a2 (by omega)).bind ?_
      intro c ⟨d1, d2⟩
      refine (readToken_safe t c.2 d2).bind ?_
      intro r2 ⟨g1, g2, g3⟩
      by_cases c3 : r2.1.type ≠ .name
      · rw [if_pos c3]; trivial
      rw [if_neg c3]
      by_cases c4 : r2.1.value ≠ r.1.value
      · rw [if_pos c4]; trivial
      rw [if_neg c4]
      refine (readToken_safe t r2.2.1 g3).bind ?_
      intro r3 ⟨k1, k2, k3⟩
      by_cases c5 : r3.1.type ≠ .tagEnd
      · rw [if_pos c5]; trivial
      rw [if_neg c5]
      exact ⟨by simp; omega, k3⟩
    · intro p hp hf
      simp only [parseContent]
      obtain ⟨sc, hsc, s1, s2, s3⟩ := skipSpace_ok t p hp
      rw [hsc]; simp only [Res.ok_bind]
      simp only [Bool.false_eq_true, if_false] at s3
      -- the text branch
      have htext : t.getD sc.1.pos 0 ≠ 60 →
          ((parseText t (match sc.2 with | some ce => ce | none => p)).bind fun tx =>
            (parseContent t f tx.2).bind fun c => Res.ok (Content.text tx.1 c.1, c.2)).Safe
            (fun r => Adv t p r.2) := by
        intro hne
        have key : ∃ ts : Pos, (match sc.2 with | some ce => ce | none => p) = ts ∧ ts.pos ≤ t.length ∧
            ∀ q, TextPost t ts q → p.pos < q.pos := by
          rcases s3 with ⟨e, hj⟩ | ⟨c, e, hc1, hc2⟩
          · refine ⟨p, by rw [e], hp, ?_⟩
            intro q ⟨q1, q2, q3, _⟩
            by_cases hq : q.pos < sc.1.pos
            · exact absurd q3 (hj q.pos q1 hq)
            · by_cases hq2 : q.pos = sc.1.pos
              · rw [hq2] at q3; exact absurd q3 hne
              · omega
          · refine ⟨c, by rw [e], by omega, ?_⟩
            intro q ⟨q1, _, _, _⟩
            omega
        obtain ⟨ts, ets, hts, hprog⟩ := key
        rw [ets]
        refine (parseText_safe t ts hts).bind ?_
        intro tx htx
        have hq := hprog tx.2 htx
        have hq2 : tx.2.pos < t.length := htx.2.1
        refine (ihC tx.2 (by omega) (by omega)).bind ?_
        intro c ⟨d1, d2⟩
        exact ⟨by simp; omega, d2⟩
      have htok := tokenAt_safe t sc.1 s2
      cases htk : tokenAt t sc.1 with
      | oob => rw [htk] at htok; exact htok
      | fuel => rw [htk] at htok; exact htok
      | err l c m =>
        rw [htk] at htok
        exact htext htok
      | ok tp =>
        rw [htk] at htok
        obtain ⟨e1, e2, e3, e4⟩ := htok
        simp only
        by_cases c1 : tp.1.type = .endTagBegin
        · rw [if_pos c1]; exact ⟨by simp; omega, e3⟩
        rw [if_neg c1]
        by_cases c2 : tp.1.type = .startTagBegin
        · rw [if_pos c2]
          refine (ihE tp.1.pos tp.2 e3 (by omega)).bind ?_
          intro e ⟨d1, d2⟩
          refine (ihC e.2 d2 (by omega)).bind ?_
          intro c ⟨g1, g2⟩
          exact ⟨by simp; omega, g2⟩
        · rw [if_neg c2]
          apply htext
          rcases e4 with (h | h) | h
          · exact absurd h c2
          · exact absurd h c1
          · exact h


/-- `skipSpace` started on a line break consumes it -/
theorem skipSpace_adv_lb (t : Bytes) (p : Pos) (hlt : p.pos < t.length)
    (hb : t.getD p.pos 0 = 13 ∨ t.getD p.pos 0 = 10) :
    ∃ r, skipSpace t p = .ok r ∧ p.pos < r.1.pos ∧ r.1.pos ≤ t.length := by
  unfold skipSpace
  show ∃ r, skipLoop t ((t.length + 1) + 1) false p none = .ok r ∧ _
  simp only [skipLoop]
  rw [peek_lt hlt]; simp only [Res.ok_bind]
  rcases hb with h13 | h10
  · obtain ⟨d, hd, hdnz, _⟩ := peek_le (show p.pos + 1 ≤ t.length by omega)
    rw [if_pos h13, hd]; simp only [Res.ok_bind]
    by_cases hd10 : d = 10
    · have hlt2 : p.pos + 1 < t.length := hdnz (by rw [hd10]; decide)
      simp only [hd10, if_true]
      obtain ⟨r, hr, r1, r2, _⟩ := skipLoop_ok t (t.length + 1) false ⟨p.line + 1, p.pos + 2, p.pos + 2⟩ none (by simp; omega) (by simp; omega)
      exact ⟨r, hr, by simp at r1; omega, r2⟩
    · simp only [hd10, if_false]
      obtain ⟨r, hr, r1, r2, _⟩ := skipLoop_ok t (t.length + 1) false ⟨p.line + 1, p.pos + 1, p.pos + 1⟩ none (by simp; omega) (by simp; omega)
      exact ⟨r, hr, by simp at r1; omega, r2⟩
  · have h13 : ¬ t.getD p.pos 0 = 13 := by rw [h10]; decide
    rw [if_neg h13, if_pos h10]
    obtain ⟨r, hr, r1, r2, _⟩ := skipLoop_ok t (t.length + 1) false ⟨p.line + 1, p.pos + 1, p.pos + 1⟩ none (by simp; omega) (by simp; omega)
    exact ⟨r, hr, by simp at r1; omega, r2⟩

theorem piStop_cases {b : UInt8} (h : isPiScanStop b = true) (h63 : b ≠ 63) : b = 13 ∨ b = 10 := by
  simp only [isPiScanStop, Bool.or_eq_true, beq_iff_eq] at h
  rcases h with (h | h) | h
  · exact Or.inl h
  · exact Or.inr h
  · exact absurd h h63

theorem piInner_safe (t : Bytes) : ∀ (f : Nat) (sp p : Pos), p.pos ≤ t.length → t.length - p.pos < f →
    (piInner t f sp p).Safe (fun q => Adv t p q) := by
  intro f
  induction f with
  | zero => intro sp p _ h; omega
  | succ f ih =>
    intro sp p hp hf
    simp only [piInner]
    rw [cstr_le hp]; simp only [Res.ok_bind]
    cases hidx : idxOf isPiScanStop (t.drop p.pos) with
    | none => trivial
    | some k =>
      simp only
      obtain ⟨hk, hstop, _⟩ := idxOf_some hidx
      simp at hk
      rw [getD_drop] at hstop
      have hlt : p.pos + k < t.length := by omega
      rw [peek_lt hlt]; simp only [Res.ok_bind]
      by_cases h63 : t.getD (p.pos + k) 0 = 63
      · obtain ⟨d, hd, hdnz, _⟩ := peek_le (show p.pos + k + 1 ≤ t.length by omega)
        rw [if_pos h63, hd]; simp only [Res.ok_bind]
        by_cases hd62 : d = 62
        · have hlt2 : p.pos + k + 1 < t.length := hdnz (by rw [hd62]; decide)
          rw [if_pos hd62]
          exact ⟨by simp; omega, by simp; omega⟩
        · rw [if_neg hd62]
          refine (ih sp ⟨p.line, p.pos + k + 1, p.ls⟩ (by simp; omega) (by simp; omega)).mono ?_
          intro q ⟨q1, q2⟩
          simp at q1
          exact ⟨by omega, q2⟩
      rw [if_neg h63]
      by_cases h13 : t.getD (p.pos + k) 0 = 13
      · obtain ⟨d, hd, hdnz, _⟩ := peek_le (show p.pos + k + 1 ≤ t.length by omega)
        rw [if_pos h13, hd]; simp only [Res.ok_bind]
        by_cases hd10 : d = 10
        · have hlt2 : p.pos + k + 1 < t.length := hdnz (by rw [hd10]; decide)
          simp only [hd10, if_true]
          refine (ih sp ⟨p.line + 1, p.pos + k + 2, p.pos + k + 2⟩ (by simp; omega) (by simp; omega)).mono ?_
          intro q ⟨q1, q2⟩
          simp at q1
          exact ⟨by omega, q2⟩
        · simp only [hd10, if_false]
          refine (ih sp ⟨p.line + 1, p.pos + k + 1, p.pos + k + 1⟩ (by simp; omega) (by simp; omega)).mono ?_
          intro q ⟨q1, q2⟩
          simp at q1
          exact ⟨by omega, q2⟩
      rw [if_neg h13]
      refine (ih sp ⟨p.line + 1, p.pos + k + 1, p.pos + k + 1⟩ (by simp; omega) (by simp; omega)).mono ?_
      intro q ⟨q1, q2⟩
      simp at q1
      exact ⟨by omega, q2⟩

theorem piLoop_safe (t : Bytes) : ∀ (f : Nat) (p : Pos), p.pos ≤ t.length → t.length - p.pos < f →
    (piLoop t f p).Safe (fun q => p.pos ≤ q.pos ∧ q.pos ≤ t.length) := by
  intro f
  induction f with
  | zero => intro p _ h; omega
  | succ f ih =>
    intro p hp hf
    simp only [piLoop]
    obtain ⟨c, hc, hnz, _⟩ := peek_le hp
    rw [hc]; simp only [Res.ok_bind]
    by_cases h60 : c = 60
    · have hlt : p.pos < t.length := hnz (by rw [h60]; decide)
      obtain ⟨d, hd, hdnz, _⟩ := peek_le (show p.pos + 1 ≤ t.length by omega)
      rw [if_pos h60, hd]; simp only [Res.ok_bind]
      by_cases hd63 : d = 63
      · have hlt2 : p.pos + 1 < t.length := hdnz (by rw [hd63]; decide)
        rw [if_pos hd63]
        refine (piInner_safe t _ p ⟨p.line, p.pos + 2, p.ls⟩ (by simp; omega) (by simp; omega)).bind ?_
        intro q ⟨q1, q2⟩
        simp at q1
        obtain ⟨r, hr, r1, r2, _⟩ := skipSpace_ok t q q2
        rw [hr]; simp only [Res.ok_bind]
        refine (ih r.1 r2 (by omega)).mono ?_
        intro q' ⟨a1, a2⟩
        exact ⟨by omega, a2⟩
      · rw [if_neg hd63]; exact ⟨Nat.le_refl _, hp⟩
    · rw [if_neg h60]; exact ⟨Nat.le_refl _, hp⟩

theorem parseDoc_safe (t : Bytes) : (parseDoc t).Safe (fun _ => True) := by
  unfold parseDoc
  obtain ⟨s0, hs0, _, s2, _⟩ := skipSpace_ok t ⟨1, 0, 0⟩ (Nat.zero_le _)
  rw [hs0]; simp only [Res.ok_bind]
  refine (piLoop_safe t _ s0.1 s2 (by omega)).bind ?_
  intro p ⟨_, p2⟩
  refine (readToken_safe t p p2).bind ?_
  intro r ⟨_, _, r3⟩
  by_cases c1 : r.1.type ≠ .startTagBegin
  · rw [if_pos c1]; trivial
  rw [if_neg c1]
  refine ((parse_mutual_safe t _).1 r.1.pos r.2.1 r3 (by omega)).bind ?_
  intro e _
  trivial

end Nstd.Xml
