import Nstd.Xml.LemmasDecor3
/-  decorated round trip at document level; NUL-freeness of the decorated serialisation.
    (Independent of LemmasRt3, whose header-line lemma depends on the processing-instruction loop;
    the few small facts needed from there are re-proved here under `_d` names.) -/
namespace Nstd.Xml

/-- the prologue loop returns at once in front of a `<` that opens no processing instruction -/
theorem piLoop_noop_d {t : Bytes} {p : Pos} {d : UInt8} {r : Bytes} (f : Nat)
    (h : t.drop p.pos = 60 :: d :: r) (hd : d ≠ 63) : piLoop t (f + 1) p = .ok p := by
  obtain ⟨_, _, hdrop⟩ := drop_cons h
  simp only [piLoop]
  rw [peek_drop h]; simp only [Res.ok_bind]
  rw [if_pos trivial, peek_drop hdrop]; simp only [Res.ok_bind]
  rw [if_neg hd]

theorem escapeByte_nul_d (a : Bool) (c : UInt8) (hc : c ≠ 0) : ∀ b ∈ escapeByte a c, b ≠ 0 := by
  by_cases h1 : c = 39
  · subst h1; cases a <;> decide
  by_cases h2 : c = 34
  · subst h2; cases a <;> decide
  by_cases h3 : c = 38
  · subst h3; cases a <;> decide
  by_cases h4 : c = 60
  · subst h4; cases a <;> decide
  by_cases h5 : c = 62
  · subst h5; cases a <;> decide
  by_cases h6 : c = 10
  · subst h6; cases a <;> decide
  by_cases h7 : c = 13
  · subst h7; cases a <;> decide
  rw [escapeByte_plain a c h1 h2 h3 h4 h5 h6 h7]
  intro b hb
  simp at hb
  subst hb
  exact hc

theorem escape_nul_d (a : Bool) : ∀ (s : Bytes), (∀ b ∈ s, b ≠ 0) → ∀ b ∈ escape a s, b ≠ 0 := by
  intro s
  induction s with
  | nil => intro _ b hb; simp [escape] at hb
  | cons c r ih =>
    intro hs b hb
    simp only [escape, List.mem_append] at hb
    rcases hb with hb | hb
    · exact escapeByte_nul_d a c (hs c (by simp)) b hb
    · exact ih (fun x hx => hs x (by simp [hx])) b hb

theorem bytesNulFree_iff_d {s : Bytes} : bytesNulFree s = true ↔ ∀ b ∈ s, b ≠ 0 := by
  simp [bytesNulFree]

/-- `parseDoc` on a misc run, a decorated well-formed root element and anything behind it -/
theorem parseDoc_dec (pre : List MiscItem) (d : DElem) (rest : Bytes) (hpre : miscOk pre)
    (hwf : d.erase.wf = true) (hok : d.Ok) :
    ∃ e', parseDoc (miscStr pre ++ (d.toStr ++ rest)) = .ok e' ∧ e'.shape = d.erase.shape := by
  obtain ⟨c0, r0, hh, c33, c47, c63⟩ := delem_toStr_head d hwf hok
  generalize ht : miscStr pre ++ (d.toStr ++ rest) = t
  have hd : t.drop (Pos.mk 1 0 0).pos = miscStr pre ++ (d.toStr ++ rest) := by rw [← ht]; simp
  obtain ⟨q, ce', hq, hs, hdq⟩ := skipSpace_misc t pre hpre ⟨1, 0, 0⟩ _ hd
    (Or.inr ⟨c0, r0 ++ rest, by rw [hh]; simp, c33⟩)
  have hdq0 : t.drop q.pos = 60 :: c0 :: (r0 ++ rest) := by rw [hdq, hh]; simp
  obtain ⟨hqlt, _, hdq1⟩ := drop_cons hdq0
  have hlen : q.pos + d.toStr.length ≤ t.length := drop_le hdq (by omega)
  unfold parseDoc
  rw [hs]; simp only [Res.ok_bind]
  rw [show t.length + 2 = (t.length + 1) + 1 from rfl, piLoop_noop_d _ hdq0 c63]; simp only [Res.ok_bind]
  rw [readToken_eq (skipSpace_noop_lt hdq0 c33) (tokenAt_startTag hdq0 c47)]; simp only [Res.ok_bind]
  rw [if_neg (by decide)]
  obtain ⟨e', q2, he', hes, _⟩ := delem_rt t d hwf hok (t.length + 1 + 1) q ⟨q.line, q.pos + 1, q.ls⟩ rest
    (by
      have : t.drop q.pos = 60 :: t.drop (q.pos + 1) := by rw [hdq0, hdq1]
      simp only
      rw [← this, hdq])
    (by omega)
  rw [he']; simp only [Res.ok_bind]
  exact ⟨e', rfl, hes⟩

/-! ### NUL-freeness -/

/-- no NUL byte -/
def NF (s : Bytes) : Prop := ∀ b ∈ s, b ≠ 0

theorem NF.nil : NF [] := fun _ h => by simp at h

theorem NF.append {a c : Bytes} (ha : NF a) (hc : NF c) : NF (a ++ c) := by
  intro b hb
  simp only [List.mem_append] at hb
  rcases hb with hb | hb
  · exact ha b hb
  · exact hc b hb

theorem NF.cons {x : UInt8} {c : Bytes} (hx : x ≠ 0) (hc : NF c) : NF (x :: c) := by
  intro b hb
  simp only [List.mem_cons] at hb
  rcases hb with rfl | hb
  · exact hx
  · exact hc b hb

theorem quote_ne_zero (a : DAttr) : a.quote ≠ 0 := by
  rcases quote_cases a with e | e <;> rw [e] <;> decide

theorem dattrs_nf : ∀ (as : List DAttr) (an : Bool) (close : List MiscItem),
    attrsNulFree (eraseAttrs as) = true → dattrsOk an as close → NF (dattrsStr as) ∧ miscOk close := by
  intro as
  induction as with
  | nil => intro an close _ hok; exact ⟨NF.nil, hok.1⟩
  | cons a as ih =>
    intro an close h hok
    simp only [eraseAttrs, attrsNulFree, Bool.and_eq_true, bytesNulFree_iff_d] at h
    obtain ⟨⟨hk, hv⟩, hr⟩ := h
    obtain ⟨hpre, hpreEq, hpostEq, _, _, hrest⟩ := hok
    obtain ⟨ih1, ih2⟩ := ih false close hr hrest
    refine ⟨?_, ih2⟩
    show NF (miscStr a.pre ++ (a.key ++ (miscStr a.preEq ++ (61 :: (miscStr a.postEq ++
      (a.quote :: (escape true a.val ++ (a.quote :: dattrsStr as))))))))
    exact NF.append (miscStr_nul _ hpre) (NF.append hk (NF.append (miscStr_nul _ hpreEq) (NF.cons (by decide)
      (NF.append (miscStr_nul _ hpostEq) (NF.cons (quote_ne_zero a) (NF.append (escape_nul_d true a.val hv)
        (NF.cons (quote_ne_zero a) ih1)))))))

mutual
  theorem delem_nf : (d : DElem) → d.erase.nulFree = true → d.Ok → NF d.toStr
    | .empty lead name l c attrs close, h, hok => by
      simp only [DElem.erase, Elem.nulFree, Bool.and_eq_true, bytesNulFree_iff_d] at h
      obtain ⟨⟨hn, ha⟩, _⟩ := h
      simp only [DElem.Ok] at hok
      obtain ⟨hlead, hok⟩ := hok
      obtain ⟨h1, h2⟩ := dattrs_nf attrs true close ha hok
      rw [DElem.toStr]
      exact NF.cons (by decide) (NF.append (miscStr_nul _ hlead) <| NF.append hn (NF.append h1 (NF.append (miscStr_nul _ h2)
        (NF.cons (by decide) (NF.cons (by decide) NF.nil)))))
    | .full lead name l c attrs close content endPre endPost, h, hok => by
      simp only [DElem.erase, Elem.nulFree, Bool.and_eq_true, bytesNulFree_iff_d] at h
      obtain ⟨⟨hn, ha⟩, hc⟩ := h
      simp only [DElem.Ok] at hok
      obtain ⟨hlead, hoka, hokc, hpre, hpost, _⟩ := hok
      obtain ⟨h1, h2⟩ := dattrs_nf attrs true close ha hoka
      have h3 := dcontent_nf content false hc hokc
      rw [DElem.toStr]
      exact NF.cons (by decide) (NF.append (miscStr_nul _ hlead) <| NF.append hn (NF.append h1 (NF.append (miscStr_nul _ h2)
        (NF.cons (by decide) (NF.append h3 (NF.append (miscStr_nul _ hpre) (NF.append hn
          (NF.append (miscStr_nul _ hpost) (NF.cons (by decide) NF.nil)))))))))
  theorem dcontent_nf : (c : DContent) → (prev : Bool) → c.erase.nulFree = true → c.Ok prev → NF c.toStr
    | .nil pre, prev, _, hok => by
      simp only [DContent.Ok] at hok
      rw [DContent.toStr]
      exact NF.append (miscStr_nul _ hok.1) (NF.cons (by decide) (NF.cons (by decide) NF.nil))
    | .text pre s rest, prev, h, hok => by
      simp only [DContent.erase, Content.nulFree, Bool.and_eq_true, bytesNulFree_iff_d] at h
      simp only [DContent.Ok] at hok
      rw [DContent.toStr]
      exact NF.append (miscStr_nul _ hok.1) (NF.append (escape_nul_d false s h.1) (dcontent_nf rest true h.2 hok.2.2))
    | .elem pre e rest, prev, h, hok => by
      simp only [DContent.erase, Content.nulFree, Bool.and_eq_true] at h
      simp only [DContent.Ok] at hok
      rw [DContent.toStr]
      exact NF.append (miscStr_nul _ hok.1) (NF.append (delem_nf e h.1 hok.2.2.1) (dcontent_nf rest false h.2 hok.2.2.2))
end

theorem cutNul_append_nf {a : Bytes} (h : NF a) (rest : Bytes) : cutNul (a ++ rest) = a ++ cutNul rest := by
  unfold cutNul
  induction a with
  | nil => rfl
  | cons c r ih =>
    have hc : (c != 0) = true := by simpa using h c (by simp)
    simp only [List.cons_append, List.takeWhile, hc]
    rw [ih (fun b hb => h b (by simp [hb]))]

/-- `Xml::parse` on the decorated serialisation, any bytes behind the root element -/
theorem parse_dec (pre : List MiscItem) (d : DElem) (trail : Bytes) (hwf : d.erase.wf = true)
    (hnul : d.erase.nulFree = true) (hpre : miscOk pre) (hok : d.Ok) :
    ∃ e', parse (miscStr pre ++ (d.toStr ++ trail)) = .ok e' ∧ e'.shape = d.erase.shape := by
  unfold parse
  have h1 : NF (miscStr pre ++ d.toStr) := NF.append (miscStr_nul _ hpre) (delem_nf d hnul hok)
  rw [← List.append_assoc, cutNul_append_nf h1, List.append_assoc]
  exact parseDoc_dec pre d (cutNul trail) hpre hwf hok

/-! ### a decidable check for comment bodies (used by the non-vacuity examples) -/

def commentCheck (body : Bytes) : Bool :=
  (List.range body.length).all fun i =>
    !((body ++ [45, 45]).getD i 0 == 45 && (body ++ [45, 45]).getD (i + 1) 0 == 45 && (body ++ [45, 45]).getD (i + 2) 0 == 62)

theorem commentBody_of_check (body : Bytes) (h : commentCheck body = true) : commentBody body := by
  intro i hi hc
  simp only [commentCheck, List.all_eq_true, List.mem_range] at h
  have := h i hi
  rw [hc.1, hc.2.1, hc.2.2] at this
  exact absurd this (by decide)

def miscCheck : List MiscItem → Bool
  | [] => true
  | .ws b :: m => isSpace b && miscCheck m
  | .comment body :: m => commentCheck body && bytesNulFree body && miscCheck m

theorem miscOk_of_check : ∀ (m : List MiscItem), miscCheck m = true → miscOk m := by
  intro m
  induction m with
  | nil => intro _ x hx; simp at hx
  | cons y m ih =>
    intro h x hx
    cases y with
    | ws b =>
      simp only [miscCheck, Bool.and_eq_true] at h
      simp only [List.mem_cons] at hx
      rcases hx with rfl | hx
      · exact h.1
      · exact ih h.2 x hx
    | comment body =>
      simp only [miscCheck, Bool.and_eq_true] at h
      simp only [List.mem_cons] at hx
      rcases hx with rfl | hx
      · exact ⟨commentBody_of_check body h.1.1, h.1.2⟩
      · exact ih h.2 x hx

end Nstd.Xml
