import Nstd.Xml.Model
/-
  Target language of the translator tools/gen_xml.py (tie by translation, extension round 7).

  The translator reads the CURRENT bodies of `Xml::Private::skipSpace`, `readToken`, `parseText`, `syntaxError`
  (src/Document/Xml.cpp) and `String::isSpace` (include/nstd/String.hpp) and writes them, statement by statement, as Lean
  definitions over the primitives below into Nstd/Generated/XmlScan.lean.  PropsGen.lean proves that the hand-written model
  functions (`skipLoop`, `tokenAt`, `textLoop`/`parseText`, `Pos.col`, `isSpace`, `isNameByte`) ARE these translations.

  Semantics of the translation (the translator's trusted part, listed in the MANIFEST note):
    const char* into the text      -> Nat offset into `t ++ [0]`; `*p`, `p[k]` -> `peek t _` (`.oob` behind the terminator)
    nullable result of findOneOf   -> Option Nat (offset relative to the scanned pointer), tested before use
    String::findOneOf / find       -> `strpbrk set (cstr t p)`; String::length -> length of `cstr t p`;
    String::compare(p, lit, n)==0  -> `strncmp0 (cstr t p) lit n`
    String(p, n) / attach(p, n)    -> `mem t p n` (n bytes at p, all inside the text)
    `while(<test of *e only, incl. *e != 0>) ++e;` -> `span test (cstr t e)` bytes are stepped over
    Position                       -> Pos; `commentEnd` (null pointer inside = none) -> Option Pos
    loop body                      -> function St -> Res Ctl (continue of a loop / nested loop entered / return); `break` =
                                      the statements behind the loop, in place; private helpers without parameters in place
    `p[k] == 'a' && p[k+1] == 'b' …` (consecutive, non-NUL) -> the same `strncmp0` as String::compare(p + k, "ab…", n) == 0
    `return syntaxError(P, "..."), false` -> `.err` with line and column as `syntaxError` computes them
-/
namespace Nstd.Xml.CSem

/-- the members of `Xml::Private` the translated functions touch, and the out-parameter of `parseText` -/
structure St where
  pos : Pos
  ce : Option Pos
  tok : Token
  text : Bytes

/-- control outcome of one run of a loop body / straight-line segment.  Loops are numbered by nesting depth (`lvl` 0 = the
    outermost loop of the function).  There is no outcome for `break`: the statements behind a loop are compiled in place at
    every `break` (so "`break;` … `continue;`" and "`return true` from a helper … `continue;`" give the same outcome). -/
inductive Ctl where
  | next (lvl : Nat) (s : St)                     -- `continue` of the loop at depth `lvl` (also: the end of its body)
  | enter (lvl : Nat) (s : St) (loc : List Nat)   -- control stands in front of the loop at depth `lvl`; values of the live locals
  | ret (s : St)                                  -- `return` / `return true` of the translated function

/-- `n` bytes at offset `a`, all of them text bytes -/
def mem (t : Bytes) (a n : Nat) : Res Bytes :=
  if a + n ≤ t.length then .ok ((t.drop a).take n) else .oob

/-- value of a (signed) `char` -/
def sgn (c : UInt8) : Int := if c.toNat < 128 then (c.toNat : Int) else (c.toNat : Int) - 256

/-- `strpbrk` on a C string: offset of the first byte that is in `set` -/
def strpbrk (set : Bytes) (s : Bytes) : Option Nat := idxOf (fun b => set.contains b) s

/-- `String::compare(s, lit, n) == 0` for a literal of at least `n` non-NUL bytes -/
def strncmp0 (s lit : Bytes) (n : Nat) : Bool := s.take n == lit.take n

/-- number of leading bytes of a C string that satisfy `p` -/
def span (p : UInt8 → Bool) (s : Bytes) : Nat := (s.takeWhile p).length

/-- `*src` for a source pointer given as the rest of the string: its first byte, the terminator 0 behind the last one -/
def hd (r : Bytes) : UInt8 := r.headD 0

/-- `str.scanf("#%u", &v)`: `some v` when it returns 1 — the literal `#`, then glibc's `%u` as modelled by `scanU` (Model.lean:
    white space, sign, decimal digits, strtoul saturation, cut to 32 bit) -/
def scanfHashU (s : Bytes) : Option Nat :=
  match s with
  | 35 :: r => scanU r
  | _ => none

end Nstd.Xml.CSem
