import Nstd.Xml.LemmasHeap7
/-
  The edits of the element handed out by the walk, and `Op.mut` as a whole.
-/
namespace Nstd.Xml.Heap

open Nstd.Xml (Bytes attrSet)

theorem release_zero (h : Heap) (l : List Nat) : release h 0 l = h := by
  cases l <;> rfl

/-- a new kid list for the element in block `b` (in `v`'s region), possibly after allocating one childless block
    and taking one more reference to `extra`, then dropping `pend` -/
theorem setkids_ok (s : St) (hi : Inv s) (v : Nat) (P : Nat → Prop) (hex : Excl s v P) (b r : Nat) (e : HElem)
    (hb : s.heap b = some ⟨r, .elem e⟩) (hP : P b) (s1 : St) (e' : HElem) (pend : List Nat) (f : Nat)
    (hnv : s1.nv = s.nv) (hvars : s1.vars = s.vars)
    (hpay1 : ∀ x, x < s.next → payOf s1.heap x = payOf s.heap x)
    (hb1 : s1.heap b = some ⟨r, .elem e⟩)
    (hfresh1 : ∀ x, s1.next ≤ x → s1.heap x = none) (hnext : s.next ≤ s1.next)
    (hcnt : ∀ x, varCnt s.vars s.nv x + heapCnt s1.heap s1.next x + e'.kids.count x + pend.count x
              ≤ refOf s1.heap x + e.kids.count x) :
    Inv { s1 with heap := release (upd s1.heap b (some ⟨r, .elem e'⟩)) f pend } ∧
      Keeps s { s1 with heap := release (upd s1.heap b (some ⟨r, .elem e'⟩)) f pend } v := by
  have hbn : b < s.next := some_lt hi hb
  have h := batch_ok s hi v P hex { s1 with heap := upd s1.heap b (some ⟨r, .elem e'⟩) } pend f hnv
    (by intro w _; show s1.vars w = _; rw [hvars])
    (by
      intro x hx hxn
      show payOf (upd s1.heap b _) x = _
      have hxb : x ≠ b := by intro h; subst h; exact hx hP
      rw [payOf_upd_ne _ _ _ _ hxb]
      exact hpay1 x hxn)
    (by
      intro x
      show varCnt s1.vars s.nv x + heapCnt (upd s1.heap b _) s1.next x + _ ≤ refOf (upd s1.heap b _) x
      rw [hvars, refOf_upd_sameref _ _ _ _ _ _ hb1]
      have h1 := heapCnt_upd s1.heap s1.next b (some ⟨r, .elem e'⟩) x (by omega)
      have h2 : (kidsOf (s1.heap b)).count x = e.kids.count x := by rw [hb1]; rfl
      have h3 : (kidsOf (some (⟨r, .elem e'⟩ : Block))).count x = e'.kids.count x := rfl
      have := hcnt x
      omega)
    (by
      intro x hx
      show upd s1.heap b _ x = none
      have hx' : s1.next ≤ x := hx
      rw [upd_ne _ _ _ _ (by omega)]; exact hfresh1 x hx')
  exact ⟨h.1, h.2.1⟩

/-- every edit of the element in block `b` of `v`'s region -/
theorem editAt_ok (s : St) (hi : Inv s) (v : Nat) (P : Nat → Prop) (hex : Excl s v P) (b : Nat) (hP : P b)
    (ed : Edit) (hpush : ∀ src, ed = .push src → src ≠ v) (s' : St) (he : editAt s b ed = some s') :
    Inv s' ∧ Keeps s s' v := by
  unfold editAt at he
  cases hel : elemAt s b with
  | none => rw [hel] at he; cases he
  | some re =>
    obtain ⟨r, e⟩ := re
    rw [hel] at he
    have hb := elemAt_some hel
    have hbn : b < s.next := some_lt hi hb
    have hc0 := fun x => hi.cnt_le x
    unfold cnt at hc0
    cases ed with
    | rename n =>
      simp only [Option.some.injEq] at he
      subst he
      have h := setkids_ok s hi v P hex b r e hb hP s ⟨n, e.attrs, e.kids⟩ [] 0 rfl rfl (fun _ _ => rfl) hb hi.fresh
        (Nat.le_refl _) (by intro x; have := hc0 x; simp only [List.count_nil]; omega)
      rw [release_zero] at h; exact h
    | setAttr k val =>
      simp only [Option.some.injEq] at he
      subst he
      have h := setkids_ok s hi v P hex b r e hb hP s ⟨e.name, attrSet e.attrs k val, e.kids⟩ [] 0 rfl rfl (fun _ _ => rfl) hb
        hi.fresh (Nat.le_refl _) (by intro x; have := hc0 x; simp only [List.count_nil]; omega)
      rw [release_zero] at h; exact h
    | addText t =>
      simp only [alloc, Option.some.injEq] at he
      subst he
      have hn := hi.fresh s.next (Nat.le_refl _)
      have h := setkids_ok s hi v P hex b r e hb hP (alloc s (.text t)).1 ⟨e.name, e.attrs, e.kids ++ [s.next]⟩ [] 0 rfl rfl
        (fun x hx => payOf_upd_ne _ _ _ _ (by omega))
        (by show upd s.heap s.next _ b = _; rw [upd_ne _ _ _ _ (by omega)]; exact hb)
        (by intro x hx
            have hx' : s.next + 1 ≤ x := hx
            show upd s.heap s.next _ x = none
            rw [upd_ne _ _ _ _ (by omega)]; exact hi.fresh x (by omega))
        (by show s.next ≤ s.next + 1; omega)
        (by intro x
            have h1 : heapCnt (alloc s (.text t)).1.heap (s.next + 1) x = heapCnt s.heap s.next x + (kidsOfPay (.text t)).count x :=
              alloc_heapCnt s (.text t) x
            have h2 : refOf (alloc s (.text t)).1.heap x = refOf s.heap x + [s.next].count x := alloc_refOf s (.text t) x hn
            have h3 : (kidsOfPay (.text t)).count x = 0 := rfl
            have h4 := count_snoc_one s.next x e.kids
            have := hc0 x
            show varCnt s.vars s.nv x + heapCnt (alloc s (.text t)).1.heap (s.next + 1) x + (e.kids ++ [s.next]).count x + _ ≤ _
            simp only [List.count_nil]
            omega)
      rw [release_zero] at h; exact h
    | addElem n =>
      simp only [alloc, Option.some.injEq] at he
      subst he
      have hn := hi.fresh s.next (Nat.le_refl _)
      have h := setkids_ok s hi v P hex b r e hb hP (alloc s (.elem ⟨n, [], []⟩)).1 ⟨e.name, e.attrs, e.kids ++ [s.next]⟩ [] 0 rfl rfl
        (fun x hx => payOf_upd_ne _ _ _ _ (by omega))
        (by show upd s.heap s.next _ b = _; rw [upd_ne _ _ _ _ (by omega)]; exact hb)
        (by intro x hx
            have hx' : s.next + 1 ≤ x := hx
            show upd s.heap s.next _ x = none
            rw [upd_ne _ _ _ _ (by omega)]; exact hi.fresh x (by omega))
        (by show s.next ≤ s.next + 1; omega)
        (by intro x
            have h1 : heapCnt (alloc s (.elem ⟨n, [], []⟩)).1.heap (s.next + 1) x =
                heapCnt s.heap s.next x + (kidsOfPay (.elem ⟨n, [], []⟩)).count x := alloc_heapCnt s _ x
            have h2 : refOf (alloc s (.elem ⟨n, [], []⟩)).1.heap x = refOf s.heap x + [s.next].count x := alloc_refOf s _ x hn
            have h3 : (kidsOfPay (.elem ⟨n, [], []⟩)).count x = 0 := rfl
            have h4 := count_snoc_one s.next x e.kids
            have := hc0 x
            show varCnt s.vars s.nv x + heapCnt (alloc s (.elem ⟨n, [], []⟩)).1.heap (s.next + 1) x + (e.kids ++ [s.next]).count x + _ ≤ _
            simp only [List.count_nil]
            omega)
      rw [release_zero] at h; exact h
    | delFirst =>
      cases hk : e.kids with
      | nil => simp only [hk] at he; cases he
      | cons c rest =>
        simp only [hk, Option.some.injEq] at he
        subst he
        exact setkids_ok s hi v P hex b r e hb hP s ⟨e.name, e.attrs, rest⟩ [c] _ rfl rfl (fun _ _ => rfl) hb hi.fresh
          (Nat.le_refl _) (by intro x; have := hc0 x; have := count_cons_one c x rest; rw [hk]; show _ + rest.count x + _ ≤ _; omega)
    | clearE =>
      simp only [Option.some.injEq] at he
      subst he
      exact setkids_ok s hi v P hex b r e hb hP s ⟨[], [], []⟩ e.kids _ rfl rfl (fun _ _ => rfl) hb hi.fresh
        (Nat.le_refl _) (by intro x; have := hc0 x; show _ + ([] : List Nat).count x + _ ≤ _; simp only [List.count_nil]; omega)
    | setText k t =>
      cases hk : e.kids[k]? with
      | none => simp only [hk] at he; cases he
      | some c =>
        simp only [hk, Option.some.injEq] at he
        subst he
        exact assignStr_ok s hi v P hex (.kid b k) (some c) ⟨r, e, c, hbn, hb, hk, rfl⟩ hP t
    | push src =>
      by_cases hs : src < s.nv
      · simp only [if_pos hs] at he
        cases hv : s.vars src with
        | none => simp only [hv] at he; cases he
        | some c =>
          simp only [hv, Option.some.injEq] at he
          subst he
          have hsv := hpush src rfl
          have hcP : ¬ P c := hex.vars src c hsv hs hv
          have hcb : c ≠ b := by intro h; subst h; exact hcP hP
          have hcl := var_live hi hs hv
          have hcn : s.heap c ≠ none := by intro hn; simp [refOf, hn] at hcl
          have h := setkids_ok s hi v P hex b r e hb hP { s with heap := incRef s.heap c } ⟨e.name, e.attrs, e.kids ++ [c]⟩ [] 0 rfl rfl
            (fun x _ => payOf_incRef _ _ _)
            (by
              show incRef s.heap c b = _
              unfold incRef
              cases hcc : s.heap c with
              | none => exact absurd hcc hcn
              | some blk => rw [upd_ne _ _ _ _ (Ne.symm hcb)]; exact hb)
            (fun x hx => incRef_none _ _ _ (hi.fresh x hx))
            (Nat.le_refl _)
            (by intro x
                have h1 : heapCnt (incRef s.heap c) s.next x = heapCnt s.heap s.next x :=
                  heapCnt_of_payOf _ _ _ _ (fun i _ => payOf_incRef _ _ _)
                have h2 := refOf_incRef s.heap c x hcn
                have h4 := count_snoc_one c x e.kids
                have := hc0 x
                show varCnt s.vars s.nv x + heapCnt (incRef s.heap c) s.next x + (e.kids ++ [c]).count x + _ ≤ refOf (incRef s.heap c) x + _
                simp only [List.count_nil]
                omega)
          rw [release_zero] at h; exact h
      · simp only [if_neg hs] at he; cases he

/-- `vars[v].toElement() … content[k].toElement() …` followed by an edit -/
theorem mut_ok (s : St) (hi : Inv s) (v : Nat) (path : List Nat) (ed : Edit) (s' : St)
    (h : step? s (.mut v path ed) = some s') : Inv s' ∧ Keeps s s' v := by
  simp only [step?] at h
  by_cases hv : v < s.nv
  · simp only [if_pos hv] at h
    obtain ⟨hi0, hk0, P0, hex0, _, hP0⟩ :=
      accessElem_ok s hi v (fun _ => False) (excl_empty s v) (.var v) (s.vars v) ⟨hv, rfl⟩ rfl
    cases hw : walk (accessElem s (.var v) (s.vars v)).1 (accessElem s (.var v) (s.vars v)).2 path with
    | none => rw [hw] at h; cases h
    | some sb =>
      obtain ⟨s1, b1⟩ := sb
      rw [hw] at h
      simp only at h
      obtain ⟨hi1, hk1, P1, hex1, hP1⟩ := walk_ok v path _ _ s1 b1 P0 hi0 hex0 hP0 hw
      have hpush : ∀ src, ed = .push src → src ≠ v ∧ editAt s1 b1 ed = some s' := by
        intro src hsrc
        subst hsrc
        simp only at h
        by_cases hsv : src = v
        · simp only [if_pos hsv] at h; cases h
        · simp only [if_neg hsv] at h; exact ⟨hsv, h⟩
      have hed : editAt s1 b1 ed = some s' := by
        cases ed with
        | push src => exact (hpush src rfl).2
        | rename n => exact h
        | setAttr k val => exact h
        | addText t => exact h
        | addElem n => exact h
        | delFirst => exact h
        | clearE => exact h
        | setText k t => exact h
      obtain ⟨hi2, hk2⟩ := editAt_ok s1 hi1 v P1 hex1 b1 hP1 ed (fun src hs => (hpush src hs).1) s' hed
      exact ⟨hi2, keeps_trans (keeps_trans hk0 hk1) hk2⟩
  · simp only [if_neg hv] at h; cases h

end Nstd.Xml.Heap
