import Nstd.Xml.Heap
/-
  Lemmas about the heap model of Xml::Variant handles (Heap.lean): counting of handles, the representation
  relation between heap handles and immutable values, frame lemmas.
-/
namespace Nstd.Xml.Heap

open Nstd.Xml (Bytes attrSet)

/-! ### sums -/

theorem sumTo_congr {f g : Nat → Nat} : ∀ n, (∀ i, i < n → f i = g i) → sumTo f n = sumTo g n
  | 0, _ => rfl
  | n + 1, h => by
    simp only [sumTo]
    rw [sumTo_congr n (fun i hi => h i (by omega)), h n (by omega)]

theorem sumTo_update {f g : Nat → Nat} (i : Nat) : ∀ n, i < n → (∀ j, j ≠ i → g j = f j) →
    sumTo g n + f i = sumTo f n + g i
  | 0, h, _ => by omega
  | n + 1, h, hg => by
    simp only [sumTo]
    by_cases hin : i = n
    · subst hin
      have := sumTo_congr (f := g) (g := f) i (fun j hj => hg j (by omega))
      omega
    · have := sumTo_update i n (by omega) hg
      have := hg n (by omega)
      omega

theorem sumTo_ge {f : Nat → Nat} (i : Nat) : ∀ n, i < n → f i ≤ sumTo f n
  | 0, h => by omega
  | n + 1, h => by
    simp only [sumTo]
    by_cases hin : i = n
    · subst hin; omega
    · have := sumTo_ge (f := f) i n (by omega); omega

theorem sumTo_ge_two {f : Nat → Nat} (i j : Nat) (hij : i ≠ j) : ∀ n, i < n → j < n → f i + f j ≤ sumTo f n
  | 0, h, _ => by omega
  | n + 1, hi, hj => by
    simp only [sumTo]
    by_cases hin : i = n
    · subst hin
      have := sumTo_ge (f := f) j i (by omega); omega
    · by_cases hjn : j = n
      · subst hjn
        have := sumTo_ge (f := f) i j (by omega); omega
      · have := sumTo_ge_two (f := f) i j hij n (by omega) (by omega); omega

/-! ### handle counting -/

def refOf (h : Heap) (b : Nat) : Nat :=
  match h b with
  | some blk => blk.ref
  | none => 0

def payOf (h : Heap) (b : Nat) : Option Payload := (h b).map (·.pay)

theorem kidsOf_eq_payOf (h : Heap) (b : Nat) :
    kidsOf (h b) = match payOf h b with | some p => kidsOfPay p | none => [] := by
  unfold payOf kidsOf
  cases h b <;> rfl

def varCnt (vars : Nat → Option Nat) (nv : Nat) (b : Nat) : Nat :=
  sumTo (fun v => if vars v = some b then 1 else 0) nv

def heapCnt (h : Heap) (n : Nat) (b : Nat) : Nat :=
  sumTo (fun i => (kidsOf (h i)).count b) n

/-- number of handles (Variant objects: variables and content entries of live elements) that point to block `b` -/
def cnt (s : St) (b : Nat) : Nat := varCnt s.vars s.nv b + heapCnt s.heap s.next b

theorem heapCnt_upd (h : Heap) (n b : Nat) (y : Option Block) (x : Nat) (hb : b < n) :
    heapCnt (upd h b y) n x + (kidsOf (h b)).count x = heapCnt h n x + (kidsOf y).count x := by
  unfold heapCnt
  have := sumTo_update (f := fun i => (kidsOf (h i)).count x) (g := fun i => (kidsOf (upd h b y i)).count x) b n hb
    (by intro j hj; simp only [upd, if_neg hj])
  simp only [upd, if_pos rfl] at this
  exact this

theorem heapCnt_upd_same (h : Heap) (n b : Nat) (y : Option Block) (x : Nat)
    (hk : kidsOf y = kidsOf (h b)) : heapCnt (upd h b y) n x = heapCnt h n x := by
  unfold heapCnt
  apply sumTo_congr
  intro i _
  simp only [upd]
  by_cases hi : i = b
  · subst hi; simp [hk]
  · simp only [if_neg hi]

theorem heapCnt_alloc (h : Heap) (n : Nat) (y : Option Block) (x : Nat) :
    heapCnt (upd h n y) (n + 1) x = heapCnt h n x + (kidsOf y).count x := by
  unfold heapCnt
  simp only [sumTo, upd, if_pos rfl]
  congr 1
  apply sumTo_congr
  intro i hi
  have : i ≠ n := by omega
  simp only [if_neg this]

theorem varCnt_set (vars : Nat → Option Nat) (nv v : Nat) (o : Option Nat) (x : Nat) (hv : v < nv) :
    varCnt (fun i => if i = v then o else vars i) nv x + (if vars v = some x then 1 else 0) =
      varCnt vars nv x + (if o = some x then 1 else 0) := by
  unfold varCnt
  have := sumTo_update (f := fun i => if vars i = some x then 1 else 0)
    (g := fun i => if (if i = v then o else vars i) = some x then 1 else 0) v nv hv
    (by intro j hj; simp only [if_neg hj])
  simp only [if_pos rfl] at this
  exact this

theorem varCnt_ge (vars : Nat → Option Nat) (nv v b : Nat) (hv : v < nv) (h : vars v = some b) :
    1 ≤ varCnt vars nv b := by
  have := sumTo_ge (f := fun i => if vars i = some b then 1 else 0) v nv hv
  simp only [h, if_pos] at this
  exact this

theorem varCnt_ge_two (vars : Nat → Option Nat) (nv v w b : Nat) (hv : v < nv) (hw : w < nv) (hvw : v ≠ w)
    (h1 : vars v = some b) (h2 : vars w = some b) : 2 ≤ varCnt vars nv b := by
  have := sumTo_ge_two (f := fun i => if vars i = some b then 1 else 0) v w hvw nv hv hw
  simp only [h1, h2, if_pos] at this
  exact this

theorem heapCnt_ge (h : Heap) (n p b : Nat) (hp : p < n) (hb : b ∈ kidsOf (h p)) : 1 ≤ heapCnt h n b := by
  have := sumTo_ge (f := fun i => (kidsOf (h i)).count b) p n hp
  have h1 : 1 ≤ (kidsOf (h p)).count b := List.count_pos_iff.mpr hb
  unfold heapCnt; omega

theorem heapCnt_ge_two (h : Heap) (n p q b : Nat) (hp : p < n) (hq : q < n) (hpq : p ≠ q)
    (hb : b ∈ kidsOf (h p)) (hb2 : b ∈ kidsOf (h q)) : 2 ≤ heapCnt h n b := by
  have := sumTo_ge_two (f := fun i => (kidsOf (h i)).count b) p q hpq n hp hq
  have h1 : 1 ≤ (kidsOf (h p)).count b := List.count_pos_iff.mpr hb
  have h2 : 1 ≤ (kidsOf (h q)).count b := List.count_pos_iff.mpr hb2
  unfold heapCnt; omega

/-- the invariant: a block's reference count is at least the number of handles that point to it (so a count of
    one means: at most one handle), and nothing has been allocated at or behind `next` -/
structure Inv (s : St) : Prop where
  cnt_le : ∀ b, cnt s b ≤ refOf s.heap b
  fresh : ∀ b, s.next ≤ b → s.heap b = none

theorem live_lt {s : St} (hi : Inv s) {b : Nat} (h : 1 ≤ refOf s.heap b) : b < s.next := by
  apply Classical.byContradiction
  intro hn
  have := hi.fresh b (by omega)
  simp only [refOf, this] at h
  omega

theorem some_lt {s : St} (hi : Inv s) {b : Nat} {blk : Block} (h : s.heap b = some blk) : b < s.next := by
  apply Classical.byContradiction
  intro hn
  have := hi.fresh b (by omega)
  rw [this] at h; cases h

theorem var_live {s : St} (hi : Inv s) {v b : Nat} (hv : v < s.nv) (h : s.vars v = some b) :
    1 ≤ refOf s.heap b := by
  have := hi.cnt_le b
  have := varCnt_ge s.vars s.nv v b hv h
  unfold cnt at *; omega

theorem kid_live {s : St} (hi : Inv s) {p c : Nat} (hp : p < s.next) (hc : c ∈ kidsOf (s.heap p)) :
    1 ≤ refOf s.heap c := by
  have := hi.cnt_le c
  have := heapCnt_ge s.heap s.next p c hp hc
  unfold cnt at *; omega

/-! ### representation of immutable values -/

def repK (h : Heap) : Kids → List Nat → Prop
  | .nil, ks => ks = []
  | .text s r, ks => ∃ b bs rf, ks = b :: bs ∧ h b = some ⟨rf, .text s⟩ ∧ repK h r bs
  | .elem n as k r, ks => ∃ b bs rf ks', ks = b :: bs ∧ h b = some ⟨rf, .elem ⟨n, as, ks'⟩⟩ ∧ repK h k ks' ∧ repK h r bs

def repV (h : Heap) : Val → Option Nat → Prop
  | .null, o => o = none
  | .text s, o => ∃ b rf, o = some b ∧ h b = some ⟨rf, .text s⟩
  | .elem n as k, o => ∃ b rf ks, o = some b ∧ h b = some ⟨rf, .elem ⟨n, as, ks⟩⟩ ∧ repK h k ks

/-- frame lemma: if the heap changes (payloads) only inside a set `P` of blocks into which nothing outside
    `P` points, a representation that starts outside `P` is untouched -/
theorem repK_frame (h h' : Heap) (P : Nat → Prop)
    (hag : ∀ x blk, ¬ P x → h x = some blk → ∃ r', h' x = some ⟨r', blk.pay⟩)
    (hcl : ∀ x blk, ¬ P x → h x = some blk → ∀ c ∈ kidsOfPay blk.pay, ¬ P c) :
    ∀ (t : Kids) (ks : List Nat), (∀ c ∈ ks, ¬ P c) → repK h t ks → repK h' t ks := by
  intro t
  induction t with
  | nil => intro ks _ hr; exact hr
  | text s r ih =>
    intro ks htop hr
    obtain ⟨b, bs, rf, rfl, hb, hrest⟩ := hr
    have hnb : ¬ P b := htop b (by simp)
    obtain ⟨r', hb'⟩ := hag b _ hnb hb
    exact ⟨b, bs, r', rfl, hb', ih bs (fun c hc => htop c (by simp [hc])) hrest⟩
  | elem n as k r ihk ihr =>
    intro ks htop hr
    obtain ⟨b, bs, rf, ks', rfl, hb, hk, hrest⟩ := hr
    have hnb : ¬ P b := htop b (by simp)
    obtain ⟨r', hb'⟩ := hag b _ hnb hb
    refine ⟨b, bs, r', ks', rfl, hb', ihk ks' ?_ hk, ihr bs (fun c hc => htop c (by simp [hc])) hrest⟩
    intro c hc
    exact hcl b _ hnb hb c hc

theorem repV_frame (h h' : Heap) (P : Nat → Prop)
    (hag : ∀ x blk, ¬ P x → h x = some blk → ∃ r', h' x = some ⟨r', blk.pay⟩)
    (hcl : ∀ x blk, ¬ P x → h x = some blk → ∀ c ∈ kidsOfPay blk.pay, ¬ P c)
    (val : Val) (o : Option Nat) (htop : ∀ b, o = some b → ¬ P b) (hr : repV h val o) : repV h' val o := by
  cases val with
  | null => exact hr
  | text s =>
    obtain ⟨b, rf, rfl, hb⟩ := hr
    obtain ⟨r', hb'⟩ := hag b _ (htop b rfl) hb
    exact ⟨b, r', rfl, hb'⟩
  | elem n as k =>
    obtain ⟨b, rf, ks, rfl, hb, hk⟩ := hr
    obtain ⟨r', hb'⟩ := hag b _ (htop b rfl) hb
    refine ⟨b, r', ks, rfl, hb', repK_frame h h' P hag hcl k ks ?_ hk⟩
    intro c hc
    exact hcl b _ (htop b rfl) hb c hc

end Nstd.Xml.Heap
