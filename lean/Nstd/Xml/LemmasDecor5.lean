import Nstd.Xml.LemmasDecor4
/-  the plain serialisation `Elem.toStr` is the decorated one with the trivial decoration `plain` -/
namespace Nstd.Xml

theorem miscOk_nil : miscOk [] := fun x hx => by simp at hx

theorem plainAttrs_str (as : List (Bytes × Bytes)) : dattrsStr (plainAttrs as) = attrsToStr as := by
  induction as with
  | nil => rfl
  | cons kv as ih =>
    obtain ⟨k, v⟩ := kv
    simp [plainAttrs, dattrsStr, attrsToStr, miscStr, MiscItem.toStr, DAttr.quote, ih]

theorem plainAttrs_erase (as : List (Bytes × Bytes)) : eraseAttrs (plainAttrs as) = as := by
  induction as with
  | nil => rfl
  | cons kv as ih =>
    obtain ⟨k, v⟩ := kv
    simp [plainAttrs, eraseAttrs, ih]

theorem plainAttrs_ok (as : List (Bytes × Bytes)) : ∀ an : Bool, dattrsOk an (plainAttrs as) [] := by
  induction as with
  | nil => intro an; exact ⟨miscOk_nil, fun _ => rfl⟩
  | cons kv as ih =>
    intro an
    obtain ⟨k, v⟩ := kv
    refine ⟨?_, miscOk_nil, miscOk_nil, fun _ => rfl, rfl, ih false⟩
    intro x hx
    simp only [List.mem_singleton] at hx
    subst hx
    show isSpace 32 = true
    decide

mutual
  theorem plain_toStr : (e : Elem) → e.plain.toStr = e.toStr
    | .mk name l c attrs content => by
      by_cases h : content.isEmpty = true
      · simp only [Elem.plain, if_pos h, DElem.toStr, Elem.toStr, plainAttrs_str, miscStr]
        simp
      · have ih := cplain_toStr content
        simp only [Elem.plain, if_neg h, DElem.toStr, Elem.toStr, plainAttrs_str, miscStr, ih]
        simp
  theorem cplain_toStr : (c : Content) → c.plain.toStr = c.toStr ++ [60, 47]
    | .nil => by simp [Content.plain, DContent.toStr, Content.toStr, miscStr]
    | .text s rest => by simp [Content.plain, DContent.toStr, Content.toStr, miscStr, cplain_toStr rest]
    | .elem e rest => by
      simp [Content.plain, DContent.toStr, Content.toStr, miscStr, cplain_toStr rest, plain_toStr e]
end

mutual
  theorem plain_erase : (e : Elem) → e.plain.erase = e
    | .mk name l c attrs content => by
      by_cases h : content.isEmpty = true
      · have : content = .nil := by cases content <;> simp_all [Content.isEmpty]
        subst this
        simp [Elem.plain, Content.isEmpty, DElem.erase, plainAttrs_erase]
      · simp only [Elem.plain, if_neg h, DElem.erase, plainAttrs_erase, cplain_erase content]
  theorem cplain_erase : (c : Content) → c.plain.erase = c
    | .nil => by simp [Content.plain, DContent.erase]
    | .text s rest => by simp [Content.plain, DContent.erase, cplain_erase rest]
    | .elem e rest => by simp [Content.plain, DContent.erase, cplain_erase rest, plain_erase e]
end

mutual
  theorem plain_ok : (e : Elem) → e.plain.Ok
    | .mk name l c attrs content => by
      by_cases h : content.isEmpty = true
      · simp only [Elem.plain, if_pos h, DElem.Ok]
        exact ⟨miscOk_nil, plainAttrs_ok attrs true⟩
      · simp only [Elem.plain, if_neg h, DElem.Ok]
        exact ⟨miscOk_nil, plainAttrs_ok attrs true, cplain_ok content false, miscOk_nil, miscOk_nil, rfl⟩
  theorem cplain_ok : (c : Content) → (prev : Bool) → c.plain.Ok prev
    | .nil, prev => by
      simp only [Content.plain, DContent.Ok]
      exact ⟨miscOk_nil, fun _ => rfl⟩
    | .text s rest, prev => by
      simp only [Content.plain, DContent.Ok]
      exact ⟨miscOk_nil, rfl, cplain_ok rest true⟩
    | .elem e rest, prev => by
      simp only [Content.plain, DContent.Ok]
      exact ⟨miscOk_nil, fun _ => rfl, plain_ok e, cplain_ok rest false⟩
end

/-- the plain round trip (`roundtrip_element`) as the special case of the decorated one -/
theorem parse_plain (e : Elem) (hwf : e.wf = true) (hnul : e.nulFree = true) :
    ∃ e', parse e.toStr = .ok e' ∧ e'.shape = e.shape := by
  have := parse_dec [] e.plain [] (by rw [plain_erase]; exact hwf) (by rw [plain_erase]; exact hnul)
    miscOk_nil (plain_ok e)
  simpa [miscStr, plain_toStr, plain_erase] using this

end Nstd.Xml
