import Nstd.Common.Basic
import Nstd.Xml.Model
import Nstd.Xml.EscapeMem
import Nstd.Xml.Heap
/-
  Line protocol of the Xml area (C16).  One op per line, one observation line per op.
    reset                 -> ready
    parse <hex>           -> ok <dump> | fail <line> <col> <msg>
    pparse <hex>, parser <hex>, file <tree>  -> the same through the public entry points (Xml::parse(const String&),
                             Xml::Parser, Xml::save + Xml::load + Xml::Parser::load of a scratch file)
    tostr <tree>          -> str <hex>            (Element::toString)
    rt <tree>             -> ok <dump> | fail ... (parse (Xml::toString tree))
    esc <0|1> <hex>       -> str <hex>            (escapeString, text / attribute value)
    unesc <hex>           -> str <hex>
    escm <0|1> <hex>      -> mem <capacity> <hex> | FAULT overflow   (escapeString called directly: the bytes
                             and the capacity of the String it returns — its buffer management)
    deep <tree> <depth>   -> dp <tree A> <tree B> <first child W>  (B(A), then a write `depth` levels down the
                             first-element-child path of B through mutable toElement(); W a Variant assigned
                             from A's first child and renamed; A printed after the writes)
    copy <tree>           -> cp <tree A> <tree B> <tree C>   (copies of an Element are independent values:
                             B(A) copy-constructed then edited at top level, C = A assigned then its
                             content cleared, A printed after the edits and destroyed before B, C are printed;
                             trees without positions)
  Variant handles (Heap.lean; 4 variables `Xml::Variant`, state kept until `reset`); every op prints the value of
  every variable afterwards:  hv <v0> <v1> <v2> <v3>   with value := n | t HEX | elem (dump without positions)
    hassign <d> <s>                    vars[d] = vars[s]
    hclear <v>                         vars[v].clear()
    hsetstr <v> <hex>                  vars[v] = String
    hmut <v> <path> <edit…>            mutable toElement() on vars[v], then content[k].toElement() along <path>
                                       (`-` or k.k.k), then one edit of that element:
                                       rename <hex> | attr <hexk> <hexv> | addtext <hex> | addelem <hex> | delfirst |
                                       clear | settext <k> <hex> | push <src>
  dump / tree:  elem := '(' HEX(name) ['#' line '.' col] { '@' HEX(key) '=' HEX(val) } { ',' child } ')'
                child := elem | 't' HEX(text)
-/
open Nstd.Common
namespace Nstd.Xml

def hx (bs : Bytes) : String := String.join (bs.map (fun b => byteHex b.toNat))

def hexTok (bs : Bytes) : String := if bs.isEmpty then "-" else hx bs

def msgStr : Msg → String
  | .eof => "eof" | .newline => "newline" | .name => "name" | .lt => "lt" | .tagname => "tagname"
  | .eq => "eq" | .string => "string" | .endtag => "endtag" | .gt => "gt"

mutual
  partial def dumpElem : Elem → String
    | .mk name line col attrs content =>
      "(" ++ hx name ++ s!"#{line}.{col}" ++
        String.join (attrs.map (fun kv => "@" ++ hx kv.1 ++ "=" ++ hx kv.2)) ++ dumpContent content ++ ")"
  partial def dumpContent : Content → String
    | .nil => ""
    | .text s rest => ",t" ++ hx s ++ dumpContent rest
    | .elem e rest => "," ++ dumpElem e ++ dumpContent rest
end

mutual
  partial def specElem : Elem → String
    | .mk name _ _ attrs content =>
      "(" ++ hx name ++
        String.join (attrs.map (fun kv => "@" ++ hx kv.1 ++ "=" ++ hx kv.2)) ++ specContent content ++ ")"
  partial def specContent : Content → String
    | .nil => ""
    | .text s rest => ",t" ++ hx s ++ specContent rest
    | .elem e rest => "," ++ specElem e ++ specContent rest
end

def Content.snoc : Content → Content → Content
  | .nil, x => x
  | .text s r, x => .text s (r.snoc x)
  | .elem e r, x => .elem e (r.snoc x)

def Content.tail : Content → Content
  | .nil => .nil
  | .text _ r => r
  | .elem _ r => r

/-- the edits the harness applies to the copy-constructed element: new type `zz`, attribute `k`=`v`
    appended (replacing the value of an existing `k`), first child removed, text `new` appended -/
def editCopy : Elem → Elem
  | .mk _ l c attrs content =>
    .mk [122, 122] l c (attrSet attrs [107] [118]) (content.tail.snoc (.text [110, 101, 119] .nil))

def editDeepHere : Elem → Elem
  | .mk _ l c attrs content => .mk [122, 122] l c attrs (content.snoc (.text [110, 101, 119] .nil))

mutual
  /-- follow the first element child `d` times (as far as there is one), edit there -/
  partial def deepEdit (d : Nat) (e : Elem) : Elem :=
    match d, e with
    | 0, e => editDeepHere e
    | d + 1, .mk n l c attrs content =>
      match deepFirst d content with
      | some content' => .mk n l c attrs content'
      | none => editDeepHere e
  partial def deepFirst (d : Nat) : Content → Option Content
    | .nil => none
    | .text s r => (deepFirst d r).map (.text s)
    | .elem e r => some (.elem (deepEdit d e) r)
end

/-- the Variant `w` of the harness' `deep` op: a copy of the first child, renamed `yy` when it is an element -/
def firstChildSpec : Elem → String
  | .mk _ _ _ _ .nil => "n"
  | .mk _ _ _ _ (.text s _) => "t" ++ hx s
  | .mk _ _ _ _ (.elem (.mk _ l c attrs ct) _) => specElem (.mk [121, 121] l c attrs ct)

def clearContent : Elem → Elem
  | .mk n l c attrs _ => .mk n l c attrs .nil

/-- leading hex digits of the character list as bytes -/
partial def takeHex (cs : List Char) (acc : Bytes) : Option (Bytes × List Char) :=
  match cs with
  | a :: b :: rest =>
    match hexVal a, hexVal b with
    | some x, some y => takeHex rest (acc ++ [(x * 16 + y).toUInt8])
    | some _, none => none
    | _, _ => some (acc, cs)
  | [a] => if (hexVal a).isSome then none else some (acc, cs)
  | [] => some (acc, cs)

partial def skipPosNote (cs : List Char) : List Char :=
  match cs with
  | '#' :: rest => rest.dropWhile (fun c => c.isDigit || c == '.')
  | _ => cs

mutual
  partial def treeElem (cs : List Char) : Option (Elem × List Char) :=
    match cs with
    | '(' :: rest => do
      let (name, r1) ← takeHex rest []
      let r2 := skipPosNote r1
      let (attrs, r3) ← treeAttrs r2 []
      let (content, r4) ← treeContent r3
      match r4 with
      | ')' :: r5 => some (.mk name 0 0 attrs content, r5)
      | _ => none
    | _ => none
  partial def treeAttrs (cs : List Char) (acc : List (Bytes × Bytes)) : Option (List (Bytes × Bytes) × List Char) :=
    match cs with
    | '@' :: rest => do
      let (k, r1) ← takeHex rest []
      match r1 with
      | '=' :: r2 => do
        let (v, r3) ← takeHex r2 []
        treeAttrs r3 (attrSet acc k v)
      | _ => none
    | _ => some (acc, cs)
  partial def treeContent (cs : List Char) : Option (Content × List Char) :=
    match cs with
    | ',' :: 't' :: rest => do
      let (s, r1) ← takeHex rest []
      let (c, r2) ← treeContent r1
      some (.text s c, r2)
    | ',' :: rest => do
      let (e, r1) ← treeElem rest
      let (c, r2) ← treeContent r1
      some (.elem e c, r2)
    | _ => some (.nil, cs)
end

def parseTree (s : String) : Option Elem :=
  match treeElem s.toList with
  | some (e, []) => some e
  | _ => none

def bytesOfHex (s : String) : Option Bytes := (fromHex s).map (fun l => l.map Nat.toUInt8)

def showParse (r : Res Elem) : String :=
  match r with
  | .ok e => "ok " ++ dumpElem e
  | .err l c m => s!"fail {l} {c} {msgStr m}"
  | .oob => "FAULT oob"
  | .fuel => "FAULT fuel"

/-! ### Variant handles (Heap.lean) -/

def nVars : Nat := 4

partial def dumpKids : Heap.Kids → String
  | .nil => ""
  | .text s r => ",t" ++ hx s ++ dumpKids r
  | .elem n as k r =>
    ",(" ++ hx n ++ String.join (as.map (fun kv => "@" ++ hx kv.1 ++ "=" ++ hx kv.2)) ++ dumpKids k ++ ")" ++ dumpKids r

def dumpVal : Option Heap.Val → String
  | none => "FAULT"
  | some .null => "n"
  | some (.text s) => "t" ++ hx s
  | some (.elem n as k) =>
    "(" ++ hx n ++ String.join (as.map (fun kv => "@" ++ hx kv.1 ++ "=" ++ hx kv.2)) ++ dumpKids k ++ ")"

def showVars (s : Heap.St) : String :=
  "hv " ++ " ".intercalate ((List.range s.nv).map (fun v => dumpVal (Heap.unfoldV s.heap 100000 (s.vars v))))

def pathOf (w : String) : Option (List Nat) :=
  if w == "-" then some [] else (w.splitOn ".").mapM String.toNat?

def editOf : List String → Option Heap.Edit
  | ["rename", h] => (bytesOfHex h).map .rename
  | ["attr", k, v] => do
    let k ← bytesOfHex k
    let v ← bytesOfHex v
    pure (.setAttr k v)
  | ["addtext", h] => (bytesOfHex h).map .addText
  | ["addelem", h] => (bytesOfHex h).map .addElem
  | ["delfirst"] => some .delFirst
  | ["clear"] => some .clearE
  | ["settext", k, h] => do
    let k ← k.toNat?
    let t ← bytesOfHex h
    pure (.setText k t)
  | ["push", v] => v.toNat?.map .push
  | _ => none

def heapOp : List String → Option Heap.Op
  | ["hassign", d, s] => do
    let d ← d.toNat?
    let s ← s.toNat?
    pure (.assign d s)
  | ["hclear", v] => v.toNat?.map .clear
  | ["hsetstr", v, h] => do
    let v ← v.toNat?
    let t ← bytesOfHex h
    pure (.setStr v t)
  | "hmut" :: v :: p :: ed => do
    let v ← v.toNat?
    let p ← pathOf p
    let ed ← editOf ed
    pure (.mut v p ed)
  | _ => none

def stepLine (st : Heap.St) (ws : List String) : Heap.St × String :=
  if (ws.headD "").startsWith "h" then
    match heapOp ws with
    | some op =>
      match Heap.step? st op with
      | some st' => (st', showVars st')
      | none => (st, "bad-op")
    | none => (st, "bad-op")
  else if ws == ["reset"] then (Heap.init nVars, "ready")
  else (st, (stepPure ws).2)
where stepPure (ws : List String) : Unit × String :=
  match ws with
  | ["reset"] => ((), "ready")
  | ["parse", h] =>
    match bytesOfHex h with
    | some bs => ((), showParse (parse bs))
    | none => ((), "bad-op")
  | ["pparse", h] =>          -- Xml::parse(const String&) -> Xml::parse(const char*): same result, error text in Error
    match bytesOfHex h with
    | some bs => ((), showParse (parse bs))
    | none => ((), "bad-op")
  | ["parser", h] =>          -- Xml::Parser::parse + getErrorLine/Column/String
    match bytesOfHex h with
    | some bs => ((), showParse (parse bs))
    | none => ((), "bad-op")
  | ["nofile"] =>             -- load / save when the file cannot be opened / read: the environment refuses, the calls fail
    ((), "nofile load=0 pload=0 perr=1 save=0 dirload=0 pdirload=0 pdirerr=1")
  | ["file", tr] =>           -- Xml::save(tree, f), Xml::load(f) and Xml::Parser::load(f)
    match parseTree tr with
    | some e => ((), showParse (parse (docToStr e)))
    | none => ((), "bad-op")
  | ["tostr", tr] =>
    match parseTree tr with
    | some e => ((), "str " ++ hexTok e.toStr)
    | none => ((), "bad-op")
  | ["rt", tr] =>
    match parseTree tr with
    | some e => ((), showParse (parse (docToStr e)))
    | none => ((), "bad-op")
  | ["copy", tr] =>
    match parseTree tr with
    | some e => ((), "cp " ++ specElem e ++ " " ++ specElem (editCopy e) ++ " " ++ specElem (clearContent e))
    | none => ((), "bad-op")
  | ["deep", tr, d] =>
    match parseTree tr, d.toNat? with
    | some e, some d => ((), "dp " ++ specElem e ++ " " ++ specElem (deepEdit d e) ++ " " ++ firstChildSpec e)
    | _, _ => ((), "bad-op")
  | ["esc", m, h] =>
    match bytesOfHex h with
    | some bs =>
      if bs.contains 0 then ((), "bad-op")
      else if m == "0" then ((), "str " ++ hexTok (escape false bs))
      else if m == "1" then ((), "str " ++ hexTok (escape true bs))
      else ((), "bad-op")
    | none => ((), "bad-op")
  | ["escm", m, h] =>
    match bytesOfHex h with
    | some bs =>
      if bs.contains 0 || (m != "0" && m != "1") then ((), "bad-op")
      else match escapeMem (m == "1") bs with
        | some b => ((), s!"mem {b.cap} " ++ hexTok b.out)
        | none => ((), "FAULT overflow")
    | none => ((), "bad-op")
  | ["unesc", h] =>
    match bytesOfHex h with
    | some bs => if bs.contains 0 then ((), "bad-op") else ((), "str " ++ hexTok (unescape bs))
    | none => ((), "bad-op")
  | _ => ((), "bad-op")

end Nstd.Xml

def main : IO Unit := Nstd.Common.ioLoop (Nstd.Xml.Heap.init Nstd.Xml.nVars) Nstd.Xml.stepLine
