import Nstd.Sync.Fair
import Nstd.Sync.LemmasSem
/-! Semaphore, liveness under weak fairness: no waiter stays blocked while the count is positive. -/
namespace Nstd.Sync.Sem

/-- the progress step of a thread: `.run 0` at a program point inside a call -/
def prog (s : St) (t : Tid) : Bool :=
  match s.pc t with
  | .idle => false
  | _ => (step s t (.run 0)).isSome

def waiting (p : Pc) : Bool :=
  match p with
  | .wait | .tryWait | .twait _ => true
  | _ => false

/-- inside the ENOSYS polling fallback of wait(timeout) -/
def polling (p : Pc) : Bool :=
  match p with
  | .pollTry _ _ | .pollSleep _ _ _ => true
  | _ => false

/-- the deadline record a thread inside wait(timeout) carries (fallback included) -/
def Pc.dl : Pc → Option Deadline
  | .twait d | .pollTry d _ | .pollSleep d _ _ => some d
  | _ => none

/-- termination measure of the polling loop: twice the milliseconds of the time-out not yet accounted for by the loop variable -/
def pollFuel : Pc → Nat
  | .pollTry d i => 2 * (d.ms - i) + 2
  | .pollSleep d i _ => 2 * (d.ms - i) + 1
  | _ => 0

/-- anywhere inside wait / tryWait / wait(timeout), the polling fallback included -/
def inCall (p : Pc) : Bool := waiting p || polling p || (match p with | .twTry _ => true | _ => false)

/-- one step from a state with a positive count: a thread inside wait / tryWait / wait(timeout) stays there or returns;
    it returns true unless an untimed wait is interrupted (EINTR, documented: "whether it was decremented") -/
theorem waiting_succ {s s' : St} {t u : Tid} {a : Act Op} (hs : step s t a = some s') (hc : 0 < s.count)
    (p : Pc) (hw : waiting p = true) (hp : s.pc u = p) (hno : ¬ (t = u ∧ a = .run 3)) :
    s'.pc u = p ∨ (s'.pc u = .idle ∧ (s'.ret u = some (.bool true) ∨ (p = .wait ∧ s'.ret u = some (.bool false)))) := by
  cases a with
  | tick q => simp [step] at hs; subst hs; exact Or.inl hp
  | call op =>
    simp only [step] at hs
    split at hs
    · simp at hs; subst hs
      by_cases hut : u = t
      · subst hut; rename_i hi; rw [hp] at hi; subst hi; simp [waiting] at hw
      · left; simp [upd, hut, hp]
    · simp at hs
  | run alt =>
    simp only [step] at hs
    cases hpc : s.pc t <;> simp only [hpc] at hs
    all_goals
      try simp only [done, goto] at hs
      (repeat' split at hs) <;> simp at hs <;> (try subst hs) <;>
        (by_cases hut : u = t <;> grind [upd, waiting])

theorem takes_leaves {s s' : St} {u : Tid} (hs : step s u (.run 0) = some s') (hc : 0 < s.count)
    (p : Pc) (_hw : waiting p = true) (hp : s.pc u = p) : s'.pc u ≠ p := by
  simp only [step] at hs
  cases hpc : s.pc u <;> simp only [hpc] at hs
  all_goals
    try simp only [done, goto] at hs
    (repeat' split at hs) <;> simp at hs <;> (try subst hs) <;> grind [upd, waiting]

theorem prog_of_waiting {s : St} {u : Tid} (hc : 0 < s.count) (hw : waiting (s.pc u) = true) : prog s u = true := by
  cases hp : s.pc u <;> simp [hp, waiting] at hw <;> simp [prog, hp, step, hc, done]

/-- **Liveness**, general form: on every weakly fair run, a thread that is inside wait / tryWait / wait(timeout) returns
    if the count is positive at every later moment at which it is still inside that call (other waiters may take
    the count down to zero in between — what matters is what this waiter finds when it looks). -/
theorem waiter_eventually_returns' (r : Run St Op step) (hwf : WeakFair r prog) (n : Nat) (u : Tid)
    (hw : waiting ((r.st n).pc u) = true)
    (hno : ∀ m, n ≤ m → ¬ (r.who m = u ∧ r.act m = .run 3))
    (hpos : ∀ m, n ≤ m → (r.st m).pc u = (r.st n).pc u → 0 < (r.st m).count) :
    ∃ m, n ≤ m ∧ (r.st m).pc u = .idle ∧
      ((r.st m).ret u = some (.bool true) ∨ ((r.st n).pc u = .wait ∧ (r.st m).ret u = some (.bool false))) := by
  obtain ⟨m, hm, hP, hN⟩ := wf_leaves r hwf (fun s => s.pc u = (r.st n).pc u) u n rfl
    (fun m hm hP => prog_of_waiting (hpos m hm hP) (by rw [hP]; exact hw))
    (fun m hm hP ht => by
      have hok := r.ok m
      rw [ht.1, ht.2] at hok
      exact takes_leaves hok (hpos m hm hP) _ hw hP)
  rcases waiting_succ (r.ok m) (hpos m hm hP) _ hw hP (hno m hm) with h | h
  · exact absurd h hN
  · exact ⟨m + 1, by omega, h.1, h.2⟩

/-- **Liveness**: on every weakly fair run, a thread that is inside wait / tryWait / wait(timeout) at a moment from
    which the count stays positive does not stay blocked: it returns, and it returns true unless an untimed `wait`
    is interrupted by EINTR. -/
theorem waiter_eventually_returns (r : Run St Op step) (hwf : WeakFair r prog) (n : Nat)
    (hpos : ∀ m, n ≤ m → 0 < (r.st m).count) (u : Tid) (hw : waiting ((r.st n).pc u) = true)
    (hno : ∀ m, n ≤ m → ¬ (r.who m = u ∧ r.act m = .run 3)) :
    ∃ m, n ≤ m ∧ (r.st m).pc u = .idle ∧
      ((r.st m).ret u = some (.bool true) ∨ ((r.st n).pc u = .wait ∧ (r.st m).ret u = some (.bool false))) :=
  waiter_eventually_returns' r hwf n u hw hno (fun m hm _ => hpos m hm)

theorem reach_run {c now e : Nat} (r : Run St Op step) (h0 : Reach c now e (r.st 0)) : ∀ k, Reach c now e (r.st k)
  | 0 => h0
  | k + 1 => .step (reach_run r h0 k) (r.ok k)

/-- **Liveness, "enough signals arrive"**: run from a reachable state, weakly fair.  `u` is inside wait / tryWait /
    wait(timeout) at `n`.  If at every later moment at which `u` is still inside that call the signals that have arrived
    since `n` plus the count at `n` exceed the successful waits served since `n`
    (`succ m − succ n < count n + (posts m − posts n)`, written without subtraction), then `u` returns (true, unless an
    untimed wait is interrupted by EINTR).  By conservation that surplus IS the count `u` finds. -/
theorem waiter_returns_if_enough_signals {c now e : Nat} (r : Run St Op step) (h0 : Reach c now e (r.st 0))
    (hwf : WeakFair r prog) (n : Nat) (u : Tid) (hw : waiting ((r.st n).pc u) = true)
    (hno : ∀ m, n ≤ m → ¬ (r.who m = u ∧ r.act m = .run 3))
    (henough : ∀ m, n ≤ m → (r.st m).pc u = (r.st n).pc u →
      (r.st m).succ + (r.st n).posts < (r.st n).count + (r.st m).posts + (r.st n).succ) :
    ∃ m, n ≤ m ∧ (r.st m).pc u = .idle ∧
      ((r.st m).ret u = some (.bool true) ∨ ((r.st n).pc u = .wait ∧ (r.st m).ret u = some (.bool false))) := by
  apply waiter_eventually_returns' r hwf n u hw hno
  intro m hm hP
  have h1 := (inv_reach (reach_run r h0 m)).cons
  have h2 := (inv_reach (reach_run r h0 n)).cons
  have e1 := init0_reach (reach_run r h0 m)
  have e2 := init0_reach (reach_run r h0 n)
  have := henough m hm hP
  omega

end Nstd.Sync.Sem
