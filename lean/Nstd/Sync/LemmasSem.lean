import Nstd.Sync.LemmasSignal
/-! Semaphore: conservation of the count and deadlines of the timed wait (inductive invariants over `Reach`). -/
namespace Nstd.Sync.Sem

/-- every logged `false` return of a timed wait happened at or after `call time + time-out` -/
def Good : List FalseRet → Prop
  | [] => True
  | e :: h => e.d.t0 + e.d.ms * 1000000 ≤ e.at_ ∧ Good h

/-- The ENOSYS fallback returns false only after the time-out BECAUSE each iteration sleeps at least as long as it accounts
    for: `stepMs` milliseconds ≤ `sleepUs` microseconds.  Checked on the constants extracted from the CURRENT Semaphore.cpp
    (Generated/SyncSemPoll.lean): a source in which the poll loop sleeps less than it counts fails here. -/
theorem poll_sleep_covers_step : Poll.stepMs * 1000000 ≤ Poll.sleepUs * 1000 := by decide

/-- the poll loop makes progress: its increment is positive -/
theorem poll_step_pos : 0 < Poll.stepMs := by decide

/-- the loop variable starts at 0: all of `timeout` is accounted for -/
theorem poll_start_zero : Poll.start = 0 := by decide

structure Inv (s : St) : Prop where
  cons : s.count + s.succ = s.init0 + s.posts
  dlOk : ∀ t d, s.pc t = .twait d → d.ts.toNs = d.t0 + d.ms * 1000000 ∧ d.ts.valid = true ∧ d.t0 ≤ s.now
  /-- at the `sem_trywait` of the iteration with loop variable `i`, at least `i - start` ms have passed since the call -/
  pollTry : ∀ t d i, s.pc t = .pollTry d i → d.t0 + i * 1000000 ≤ s.now ∧ i < d.ms
  /-- the `usleep` of that iteration ends not before call time + (i + stepMs - start) ms -/
  pollSleep : ∀ t d i w, s.pc t = .pollSleep d i w → d.t0 + (i + Poll.stepMs) * 1000000 ≤ w
  good : Good s.flog

theorem inv_init (count now eintr enosys : Nat) (tf : Bool := false) : Inv (init count now eintr enosys tf) := by
  constructor <;> simp [init, Good]

theorem inv_step {s s' : St} {t : Tid} {a : Act Op} (h : Inv s) (hs : step s t a = some s') : Inv s' := by
  obtain ⟨h1, h2, h4, h5, h3⟩ := h
  have hcov := poll_sleep_covers_step
  have hst := poll_start_zero
  cases a with
  | tick q =>
    simp [step] at hs; subst hs
    refine ⟨h1, ?_, ?_, h5, h3⟩
    · intro t d hp; have := h2 t d hp; exact ⟨this.1, this.2.1, Nat.le_trans this.2.2 (Nat.le_add_right _ _)⟩
    · intro t d i hp; have := h4 t d i hp; exact ⟨Nat.le_trans this.1 (Nat.le_add_right _ _), this.2⟩
  | call op =>
    simp only [step] at hs
    split at hs
    · rename_i hidle
      simp at hs; subst hs
      cases op <;> (refine ⟨?_, ?_, ?_, ?_, ?_⟩ <;> intros <;> grind [upd, mkDeadline_ok])
    · simp at hs
  | run alt =>
    simp only [step] at hs
    cases hpc : s.pc t <;> simp only [hpc] at hs
    all_goals
      try simp only [done, goto] at hs
      (repeat' split at hs) <;> simp at hs <;> (try subst hs) <;>
        (refine ⟨?_, ?_, ?_, ?_, ?_⟩ <;> intros <;> grind [upd, Good, expired_iff, mkDeadline_ok])

theorem inv_reach {count now eintr : Nat} {s : St} (h : Reach count now eintr s) : Inv s := by
  induction h with
  | init e => exact inv_init _ _ _ e
  | initP e tf => exact inv_init _ _ _ e tf
  | step _ hs ih => exact inv_step ih hs

theorem init0_reach {count now eintr : Nat} {s : St} (h : Reach count now eintr s) : s.init0 = count := by
  induction h with
  | init _ => rfl
  | initP _ _ => rfl
  | step _ hs ih =>
    rename_i s1 s2 t a _
    rw [← ih]
    cases a with
    | tick q => simp [step] at hs; subst hs; rfl
    | call op =>
      simp only [step] at hs
      split at hs
      · simp at hs; subst hs; rfl
      · simp at hs
    | run alt =>
      simp only [step] at hs
      cases hpc : s1.pc t <;> simp only [hpc] at hs
      all_goals
        try simp only [done, goto] at hs
        (repeat' split at hs) <;> simp at hs <;> (try subst hs) <;> rfl

theorem good_mem {l : List FalseRet} (h : Good l) : ∀ e ∈ l, e.d.t0 + e.d.ms * 1000000 ≤ e.at_ := by
  induction l with
  | nil => intro e he; simp at he
  | cons x xs ih =>
    intro e he
    simp only [List.mem_cons] at he
    rcases he with rfl | he
    · exact h.1
    · exact ih h.2 e he

end Nstd.Sync.Sem
