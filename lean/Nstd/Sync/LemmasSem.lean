import Nstd.Sync.LemmasSignal
/-! Semaphore: conservation of the count and deadlines of the timed wait (inductive invariants over `Reach`). -/
namespace Nstd.Sync.Sem

/-- every logged `false` return of a timed wait happened at or after `call time + time-out` -/
def Good : List FalseRet → Prop
  | [] => True
  | e :: h => e.d.t0 + e.d.ms * 1000000 ≤ e.at_ ∧ Good h

structure Inv (s : St) : Prop where
  cons : s.count + s.succ = s.init0 + s.posts
  dlOk : ∀ t d, s.pc t = .twait d → d.ts.toNs = d.t0 + d.ms * 1000000 ∧ d.ts.valid = true
  good : Good s.flog

theorem inv_init (count now eintr : Nat) : Inv (init count now eintr) := by
  constructor <;> simp [init, Good]

theorem inv_step {s s' : St} {t : Tid} {a : Act Op} (h : Inv s) (hs : step s t a = some s') : Inv s' := by
  obtain ⟨h1, h2, h3⟩ := h
  cases a with
  | tick q => simp [step] at hs; subst hs; exact ⟨h1, h2, h3⟩
  | call op =>
    simp only [step] at hs
    split at hs
    · rename_i hidle
      simp at hs; subst hs
      cases op <;> (refine ⟨?_, ?_, ?_⟩ <;> intros <;> grind [upd, mkDeadline_ok])
    · simp at hs
  | run alt =>
    simp only [step] at hs
    cases hpc : s.pc t <;> simp only [hpc] at hs
    all_goals
      try simp only [done] at hs
      (repeat' split at hs) <;> simp at hs <;> (try subst hs) <;>
        (refine ⟨?_, ?_, ?_⟩ <;> intros <;> grind [upd, Good, expired_iff])

theorem inv_reach {count now eintr : Nat} {s : St} (h : Reach count now eintr s) : Inv s := by
  induction h with
  | init => exact inv_init _ _ _
  | step _ hs ih => exact inv_step ih hs

theorem init0_reach {count now eintr : Nat} {s : St} (h : Reach count now eintr s) : s.init0 = count := by
  induction h with
  | init => rfl
  | step _ hs ih =>
    rename_i s1 s2 t a _
    rw [← ih]
    cases a with
    | tick q => simp [step] at hs; subst hs; rfl
    | call op =>
      simp only [step] at hs
      split at hs
      · simp at hs; subst hs; rfl
      · simp at hs
    | run alt =>
      simp only [step] at hs
      cases hpc : s1.pc t <;> simp only [hpc] at hs
      all_goals
        try simp only [done] at hs
        (repeat' split at hs) <;> simp at hs <;> (try subst hs) <;> rfl

theorem good_mem {l : List FalseRet} (h : Good l) : ∀ e ∈ l, e.d.t0 + e.d.ms * 1000000 ≤ e.at_ := by
  induction l with
  | nil => intro e he; simp at he
  | cons x xs ih =>
    intro e he
    simp only [List.mem_cons] at he
    rcases he with rfl | he
    · exact h.1
    · exact ih h.2 e he

end Nstd.Sync.Sem
