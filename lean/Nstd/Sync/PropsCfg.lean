import Nstd.Sync.LemmasMonitor
import Nstd.Sync.LemmasRun
import Nstd.Sync.LiveSem
import Nstd.Generated.SyncCfg
import Nstd.Generated.SyncMonitorOrder
import Nstd.Generated.SyncShape
/-
  Property C11 — TIE BY TRANSLATION of the control flow of Mutex / Signal / Monitor.

  `Nstd/Generated/SyncCfg.lean` is produced on every run from the CURRENT Mutex.cpp / Signal.cpp / Monitor.cpp by
  tools/areas/_sync_cfg.py: every member function (POSIX branch) is parsed and symbolically executed into its POSIX-level
  control-flow table (`Cfg.Fn`: pending call, and per (call succeeded?, flag seen) the flag store and the next call / the
  returned value).  The theorems below say that the hand-written transition systems of Model.lean — the ones all safety and
  liveness theorems are about — follow exactly those tables: every step of `Mutex.step` / `Signal.step` / `Monitor.step`
  that completes a POSIX call performs the flag store and goes to the program point (or returns the value) that the
  translated code prescribes for the call's result and the flag's value, the pending call of the table is the call the
  model's program counter stands for, and beginning an API call enters the table at its entry.  A change of one of those
  C++ bodies that changes the control flow changes the generated table and breaks these proofs; a rewrite with the same
  control flow (other loop form, locals, early returns) gives the same table.
  Thread::start (both overloads) / join / ~Thread are covered the same way, with the handle `thread` in the role of the flag.
  Not covered by the tables: the EFFECT of a POSIX call on mutex / wait set / clock / thread table (ASSUMED, Posix.lean), the
  deadline arithmetic (Generated/SyncDeadline), Semaphore (its functions are single calls; the loops of wait(timeout) are
  shape-pinned, Generated/SyncSemPoll).
-/
namespace Nstd.Sync
open Nstd.Sync.Cfg Nstd.Generated

/-- the value a thread sees returned; `r` = what pthread_join handed over -/
def Cfg.RetV.toVal (r : Nat) : RetV → Val
  | .void => .unit
  | .bool b => .bool b
  | .zero => .num 0
  | .joined => .num r

abbrev retVal (v : RetV) : Val := v.toVal 0

/-! ## Mutex -/

def Mutex.at : Mutex.Pc → Option (Fn × Nat)
  | .idle => none
  | .lock => some (SyncCfg.mutex_lock, 0)
  | .tryLock => some (SyncCfg.mutex_tryLock, 0)
  | .unlock => some (SyncCfg.mutex_unlock, 0)

def Mutex.callOf : Mutex.Pc → PCall
  | .tryLock => .mutexTryLock
  | .unlock => .mutexUnlock
  | _ => .mutexLock

def Mutex.fnOf : Mutex.Op → Fn
  | .lock => SyncCfg.mutex_lock | .tryLock => SyncCfg.mutex_tryLock | .unlock => SyncCfg.mutex_unlock

/-- the result of the POSIX call a step completes: `pthread_mutex_trylock` succeeds iff the mutex can be locked (ASSUMED) -/
def Mutex.result (s : Mutex.St) (t : Tid) : Bool :=
  match s.pc t with
  | .tryLock => s.m.canLock t
  | _ => true

theorem mutex_step_is_translated_code (s : Mutex.St) (t : Tid) (s' : Mutex.St) :
    (∀ alt, Mutex.step s t (.run alt) = some s' → ∃ f n e, Mutex.at (s.pc t) = some (f, n) ∧
      f.callAt n = some (Mutex.callOf (s.pc t)) ∧ f.after n (Mutex.result s t) false = some e ∧
      f.after n (Mutex.result s t) true = some e ∧ e.store = none ∧
      ∃ v, e.next = .ret v ∧ s'.pc t = .idle ∧ s'.ret t = some (retVal v)) ∧
    (∀ op, Mutex.step s t (.call op) = some s' →
      (Mutex.fnOf op).entry true = some ⟨none, false, false, .node 0⟩ ∧ (Mutex.fnOf op).entry false = some ⟨none, false, false, .node 0⟩ ∧
      Mutex.at (s'.pc t) = some (Mutex.fnOf op, 0)) := by
  refine ⟨?_, ?_⟩
  · intro alt hs
    simp only [Mutex.step] at hs
    split at hs
    · simp at hs
    · cases hpc : s.pc t <;> simp only [hpc] at hs
      · simp at hs
      · split at hs <;> simp at hs
        subst hs
        exact ⟨_, _, _, rfl, rfl, by simp [Mutex.result, hpc]; rfl, by simp [Mutex.result, hpc]; rfl, rfl, .void, rfl, by simp, by simp [retVal, Cfg.RetV.toVal]⟩
      · split at hs <;> simp at hs <;> subst hs <;> rename_i hc
        · exact ⟨_, _, _, rfl, rfl, by simp [Mutex.result, hpc, hc]; rfl, by simp [Mutex.result, hpc, hc]; rfl, rfl, .bool true, rfl,
            by simp, by simp [retVal, Cfg.RetV.toVal]⟩
        · exact ⟨_, _, _, rfl, rfl, by simp [Mutex.result, hpc, hc]; rfl, by simp [Mutex.result, hpc, hc]; rfl, rfl, .bool false, rfl,
            by simp, by simp [retVal, Cfg.RetV.toVal]⟩
      · split at hs <;> simp at hs
        subst hs
        exact ⟨_, _, _, rfl, rfl, by simp [Mutex.result, hpc]; rfl, by simp [Mutex.result, hpc]; rfl, rfl, .void, rfl, by simp, by simp [retVal, Cfg.RetV.toVal]⟩
  · intro op hs
    simp only [Mutex.step] at hs
    split at hs
    · simp at hs; subst hs
      cases op <;> exact ⟨rfl, rfl, by simp [Mutex.at, Mutex.fnOf]⟩
    · simp at hs

/-! ## Signal -/

def Signal.waitFn (dl : Option Deadline) : Fn := if dl.isSome then SyncCfg.signal_waitT else SyncCfg.signal_wait

/-- `sk` = the variant of `set()` of this instance (`St.setSkips`): with the skip the unlock is discovered before the broadcast -/
def Signal.at (sk : Bool) : Signal.Pc → Option (Fn × Nat)
  | .idle => none
  | .setLock => some (SyncCfg.signal_set, 0)
  | .setBcast => some (SyncCfg.signal_set, if sk then 2 else 1)
  | .setUnlock => some (SyncCfg.signal_set, if sk then 1 else 2)
  | .resetLock => some (SyncCfg.signal_reset, 0)
  | .resetUnlock => some (SyncCfg.signal_reset, 1)
  | .wLock dl => some (Signal.waitFn dl, 0)
  | .wUnlock r dl => some (Signal.waitFn dl, if r then 1 else 3)
  | .wEnter dl | .wBlocked dl | .wRelock dl _ => some (Signal.waitFn dl, 2)

def Signal.callOf : Signal.Pc → PCall
  | .setBcast => .condBroadcast
  | .setUnlock | .resetUnlock | .wUnlock _ _ => .mutexUnlock
  | .wEnter dl | .wBlocked dl | .wRelock dl _ => if dl.isSome then .condTimedWait else .condWait
  | _ => .mutexLock

def Signal.Pc.dlOf : Signal.Pc → Option Deadline
  | .wLock dl | .wUnlock _ dl | .wEnter dl | .wBlocked dl | .wRelock dl _ => dl
  | _ => none

def Signal.fnOf : Signal.Op → Fn
  | .set => SyncCfg.signal_set | .reset => SyncCfg.signal_reset | .wait => SyncCfg.signal_wait | .twait _ => SyncCfg.signal_waitT

/-- does a step at this program counter complete the pending POSIX call, and with which result (ASSUMED POSIX layer):
    the condition wait is three steps of the model (enter, wake-up, re-acquisition); it returns at the re-acquisition —
    non-zero (ETIMEDOUT) iff it timed out — or at once with EINVAL for a malformed deadline -/
def Signal.completes : Signal.Pc → Option Bool
  | .idle | .wBlocked _ => none
  | .wEnter (some d) => if d.ts.valid then none else some false
  | .wEnter none => none
  | .wRelock _ timedOut => some (!timedOut)
  | _ => some true

/-- program counters that say "timed out" belong to a timed wait (holds in every reachable state: `Signal.pcWf_reach`) -/
def Signal.PcWf : Signal.Pc → Prop
  | .wUnlock r dl => r = false → dl ≠ none
  | .wRelock dl timedOut => timedOut = true → dl ≠ none
  | _ => True

theorem Signal.pcWf_step {s s' : Signal.St} {t : Tid} {a : Act Signal.Op} (h : ∀ u, Signal.PcWf (s.pc u))
    (hs : Signal.step s t a = some s') : ∀ u, Signal.PcWf (s'.pc u) := by
  intro u
  have hu := h u
  cases a with
  | tick q => simp [Signal.step] at hs; subst hs; exact hu
  | call op =>
    simp only [Signal.step] at hs
    split at hs
    · simp at hs; subst hs
      by_cases hut : u = t
      · subst hut; cases op <;> simp [upd, Signal.PcWf]
      · simpa [upd, hut] using hu
    · simp at hs
  | run alt =>
    have ht := h t
    simp only [Signal.step] at hs
    cases hpc : s.pc t <;> simp only [hpc] at hs ht
    all_goals
      try simp only [Signal.loopHead, Signal.goto, Signal.done] at hs
      (repeat' split at hs) <;> simp at hs <;> (try subst hs) <;>
        (by_cases hut : u = t
         · subst hut; simp [upd, Signal.PcWf] <;> simp_all [Signal.PcWf]
         · simp only [upd, hut, if_false]
           first
           | exact hu
           | (cases hq : s.pc u <;> rw [hq] at hu <;> simp_all [Signal.PcWf]))

theorem Signal.pcWf_reach {set : Bool} {now spur : Nat} {s : Signal.St} (h : Signal.Reach set now spur s) :
    ∀ u, Signal.PcWf (s.pc u) := by
  induction h with
  | init => intro u; simp [Signal.init, Signal.PcWf]
  | initP _ _ => intro u; simp [Signal.init, Signal.PcWf]
  | step _ hs ih => exact Signal.pcWf_step ih hs

theorem signal_step_is_translated_code (s : Signal.St) (t : Tid) (s' : Signal.St) (hwf : Signal.PcWf (s.pc t))
    (hsk : s.setSkips = SyncShape.signalSetSkips) (hlz : s.lazyDl = SyncShape.signalLazyDeadline) :
    (∀ alt, Signal.step s t (.run alt) = some s' → ∃ f n, Signal.at s.setSkips (s.pc t) = some (f, n) ∧
      f.callAt n = some (Signal.callOf (s.pc t)) ∧
      match Signal.completes (s.pc t) with
      | none => Signal.at s.setSkips (s'.pc t) = some (f, n) ∧ s'.flag = s.flag ∧ (s'.pc t).dlOf = (s.pc t).dlOf
      | some ok => ∃ e, f.after n ok s.flag = some e ∧ s'.flag = e.store.getD s.flag ∧
          match e.next with
          | .node m => Signal.at s.setSkips (s'.pc t) = some (f, m) ∧
              (s'.pc t).dlOf = (if e.clock then Signal.relazy true s.now (s.pc t).dlOf else (s.pc t).dlOf)
          | .ret v => s'.pc t = .idle ∧ s'.ret t = some (retVal v)) ∧
    (∀ op, Signal.step s t (.call op) = some s' →
      ∃ e, (Signal.fnOf op).entry s.flag = some e ∧ e.store = none ∧ e.func = false ∧ e.next = .node 0 ∧
        (e.clock = true ↔ ((∃ ms, op = .twait ms) ∧ s.lazyDl = false)) ∧
        Signal.at s.setSkips (s'.pc t) = some (Signal.fnOf op, 0) ∧ s'.flag = s.flag) := by
  refine ⟨?_, ?_⟩
  · intro alt hs
    simp only [Signal.step] at hs
    cases hpc : s.pc t with
    | idle => simp [hpc] at hs
    | setLock | setBcast | setUnlock | resetLock | resetUnlock =>
      simp only [hpc, Signal.goto, Signal.done] at hs
      (repeat' split at hs) <;> simp at hs <;> (try subst hs) <;>
        (refine ⟨_, _, rfl, ?_, ?_⟩ <;> by_cases hf : s.flag = true <;>
          simp_all [Signal.at, Signal.callOf, Signal.completes, Fn.callAt, Fn.after, Signal.Pc.dlOf, retVal, Cfg.RetV.toVal, SyncCfg.signal_set,
            SyncCfg.signal_reset, upd, SyncShape.signalSetSkips, SyncShape.signalLazyDeadline, Signal.relazy])
    | wLock dl | wEnter dl | wBlocked dl =>
      simp only [hpc, Signal.loopHead, Signal.goto, Signal.done] at hs
      cases dl <;> (repeat' split at hs) <;> simp at hs <;> (try subst hs) <;>
        (refine ⟨_, _, rfl, ?_, ?_⟩ <;> by_cases hf : s.flag = true <;>
          simp_all [Signal.at, Signal.callOf, Signal.completes, Signal.waitFn, Fn.callAt, Fn.after, Signal.Pc.dlOf, retVal, Cfg.RetV.toVal,
            SyncCfg.signal_wait, SyncCfg.signal_waitT, upd, SyncShape.signalSetSkips, SyncShape.signalLazyDeadline, Signal.relazy])
    | wUnlock r dl | wRelock dl r =>
      simp only [hpc, Signal.loopHead, Signal.goto, Signal.done] at hs
      rw [hpc] at hwf
      cases dl <;> cases r <;> (first | (exfalso; simp [Signal.PcWf] at hwf; done) | skip) <;> (repeat' split at hs) <;> simp at hs <;> (try subst hs) <;>
        (refine ⟨_, _, rfl, ?_, ?_⟩ <;> by_cases hf : s.flag = true <;>
          simp_all [Signal.at, Signal.callOf, Signal.completes, Signal.waitFn, Fn.callAt, Fn.after, Signal.Pc.dlOf, retVal, Cfg.RetV.toVal,
            SyncCfg.signal_wait, SyncCfg.signal_waitT, upd, SyncShape.signalSetSkips, SyncShape.signalLazyDeadline, Signal.relazy])
  · intro op hs
    simp only [Signal.step] at hs
    split at hs
    · simp at hs; subst hs
      cases op <;> cases hf : s.flag <;> simp_all [Signal.fnOf, Signal.at, Signal.waitFn, Fn.entry, upd, SyncCfg.signal_set, SyncCfg.signal_reset,
        SyncCfg.signal_wait, SyncCfg.signal_waitT, SyncShape.signalLazyDeadline, SyncShape.signalSetSkips]
    · simp at hs

/-! ## Monitor -/

def Monitor.waitFn (dl : Option Deadline) : Fn := if dl.isSome then SyncCfg.monitor_waitT else SyncCfg.monitor_wait

/-- `sf` = the order of `set()` of this instance of the system (`St.sigFirst`): pthread_cond_signal before the unlock? -/
def Monitor.at (sf : Bool) : Monitor.Pc → Option (Fn × Nat)
  | .idle => none
  | .lock => some (SyncCfg.monitor_lock, 0)
  | .tryLock => some (SyncCfg.monitor_tryLock, 0)
  | .unlock => some (SyncCfg.monitor_unlock, 0)
  | .wEnter dl | .wBlocked dl _ | .wRelock dl _ => some (Monitor.waitFn dl, 0)
  | .setLock => some (SyncCfg.monitor_set, 0)
  | .setUnlock => some (SyncCfg.monitor_set, if sf then 2 else 1)
  | .setSignal => some (SyncCfg.monitor_set, if sf then 1 else 2)

def Monitor.callOf : Monitor.Pc → PCall
  | .tryLock => .mutexTryLock
  | .unlock | .setUnlock => .mutexUnlock
  | .setSignal => .condSignal
  | .wEnter dl | .wBlocked dl _ | .wRelock dl _ => if dl.isSome then .condTimedWait else .condWait
  | _ => .mutexLock

def Monitor.Pc.dlOf : Monitor.Pc → Option Deadline
  | .wEnter dl | .wBlocked dl _ | .wRelock dl _ => dl
  | _ => none

def Monitor.fnOf : Monitor.Op → Fn
  | .lock => SyncCfg.monitor_lock | .tryLock => SyncCfg.monitor_tryLock | .unlock => SyncCfg.monitor_unlock
  | .wait => SyncCfg.monitor_wait | .twait _ => SyncCfg.monitor_waitT | .set => SyncCfg.monitor_set

/-- does a step of thread `t` complete its pending POSIX call, and with which result (ASSUMED POSIX layer):
    `pthread_mutex_trylock` succeeds iff the mutex is free; the condition wait returns at the re-acquisition (non-zero iff
    it timed out) or at once with EINVAL for a malformed deadline -/
def Monitor.completes (s : Monitor.St) (t : Tid) : Option Bool :=
  match s.pc t with
  | .idle | .wBlocked _ _ => none
  | .wEnter (some d) => if d.ts.valid then none else some false
  | .wEnter none => none
  | .wRelock _ timedOut => some (!timedOut)
  | .tryLock => some (decide (s.m = none))
  | _ => some true

/-- `hsf`: the instance of the system whose `set()` has the order of the CURRENT Monitor.cpp (the one the driver runs);
    `hwf`: a "timed out" program counter belongs to a timed wait (every reachable state: `Monitor.Inv.relockTO`). -/
theorem monitor_step_is_translated_code (s : Monitor.St) (t : Tid) (s' : Monitor.St)
    (hsf : s.sigFirst = SyncMonitorOrder.setSignalsFirst) (hwf : ∀ dl, s.pc t = .wRelock dl true → dl ≠ none) :
    (∀ alt, Monitor.step s t (.run alt) = some s' → ∃ f n, Monitor.at s.sigFirst (s.pc t) = some (f, n) ∧
      f.callAt n = some (Monitor.callOf (s.pc t)) ∧ s'.sigFirst = s.sigFirst ∧
      match Monitor.completes s t with
      | none => Monitor.at s.sigFirst (s'.pc t) = some (f, n) ∧ s'.flag = s.flag ∧ (s'.pc t).dlOf = (s.pc t).dlOf
      | some ok => ∃ e, f.after n ok s.flag = some e ∧ s'.flag = e.store.getD s.flag ∧
          match e.next with
          | .node m => Monitor.at s.sigFirst (s'.pc t) = some (f, m) ∧ (s'.pc t).dlOf = (s.pc t).dlOf
          | .ret v => s'.pc t = .idle ∧ s'.ret t = some (retVal v)) ∧
    (∀ op, Monitor.step s t (.call op) = some s' →
      (∃ e, (Monitor.fnOf op).entry s.flag = some e ∧ e.store = none ∧ e.func = false ∧ e.next = .node 0 ∧
        (e.clock = true ↔ ∃ ms, op = .twait ms)) ∧ Monitor.at s.sigFirst (s'.pc t) = some (Monitor.fnOf op, 0) ∧
      s'.flag = s.flag ∧ s'.sigFirst = s.sigFirst) := by
  refine ⟨?_, ?_⟩
  · intro alt hs
    simp only [Monitor.step] at hs
    cases hpc : s.pc t with
    | idle => simp [hpc] at hs
    | lock | tryLock | unlock | setLock | setUnlock | setSignal =>
      simp only [hpc, Monitor.afterSignal, Monitor.goto, Monitor.done] at hs
      (repeat' split at hs) <;> simp at hs <;> (try subst hs) <;>
        (refine ⟨_, _, rfl, ?_, ?_, ?_⟩ <;> by_cases hf : s.flag = true <;>
          simp_all [Monitor.at, Monitor.callOf, Monitor.completes, Fn.callAt, Fn.after, Monitor.Pc.dlOf, retVal, Cfg.RetV.toVal, SyncCfg.monitor_set,
            SyncCfg.monitor_lock, SyncCfg.monitor_tryLock, SyncCfg.monitor_unlock, SyncMonitorOrder.setSignalsFirst, upd])
    | wEnter dl =>
      simp only [hpc, Monitor.goto, Monitor.done] at hs
      cases dl <;> (repeat' split at hs) <;> simp at hs <;> (try subst hs) <;>
        (refine ⟨_, _, rfl, ?_, ?_, ?_⟩ <;> by_cases hf : s.flag = true <;>
          simp_all [Monitor.at, Monitor.callOf, Monitor.completes, Monitor.waitFn, Fn.callAt, Fn.after, Monitor.Pc.dlOf, retVal, Cfg.RetV.toVal,
            SyncCfg.monitor_wait, SyncCfg.monitor_waitT, upd])
    | wBlocked dl sw =>
      simp only [hpc, Monitor.goto, Monitor.done] at hs
      cases dl <;> (repeat' split at hs) <;> simp at hs <;> (try subst hs) <;>
        (refine ⟨_, _, rfl, ?_, ?_, ?_⟩ <;> by_cases hf : s.flag = true <;>
          simp_all [Monitor.at, Monitor.callOf, Monitor.completes, Monitor.waitFn, Fn.callAt, Fn.after, Monitor.Pc.dlOf, retVal, Cfg.RetV.toVal,
            SyncCfg.monitor_wait, SyncCfg.monitor_waitT, upd])
    | wRelock dl r =>
      have hwf' := hwf dl
      simp only [hpc, Monitor.goto, Monitor.done] at hs
      cases dl <;> cases r <;> (first | (exfalso; simp [hpc] at hwf'; done) | skip) <;> (repeat' split at hs) <;> simp at hs <;>
        (try subst hs) <;>
        (refine ⟨_, _, rfl, ?_, ?_, ?_⟩ <;> by_cases hf : s.flag = true <;>
          simp_all [Monitor.at, Monitor.callOf, Monitor.completes, Monitor.waitFn, Fn.callAt, Fn.after, Monitor.Pc.dlOf, retVal, Cfg.RetV.toVal,
            SyncCfg.monitor_wait, SyncCfg.monitor_waitT, upd])
  · intro op hs
    simp only [Monitor.step] at hs
    split at hs
    · simp at hs; subst hs
      cases op <;> by_cases hf : s.flag = true <;>
        simp [hf, Monitor.fnOf, Monitor.at, Monitor.waitFn, Fn.entry, upd, SyncCfg.monitor_set, SyncCfg.monitor_lock,
          SyncCfg.monitor_tryLock, SyncCfg.monitor_unlock, SyncCfg.monitor_wait, SyncCfg.monitor_waitT]
    · simp at hs

/-! ## Semaphore: signal / wait / tryWait are single calls (the loops of wait(timeout) are shape-pinned, Generated/SyncSemPoll) -/

def Sem.at : Sem.Pc → Option (Fn × Nat)
  | .post => some (SyncCfg.semaphore_signal, 0)
  | .wait => some (SyncCfg.semaphore_wait, 0)
  | .tryWait => some (SyncCfg.semaphore_tryWait, 0)
  | _ => none

def Sem.callOf : Sem.Pc → PCall
  | .post => .semPost
  | .wait => .semWait
  | _ => .semTryWait

/-- the result of the semaphore call a step completes (ASSUMED POSIX layer): `sem_wait` fails only with EINTR (alternative 1),
    `sem_trywait` fails iff the count is zero -/
def Sem.result (s : Sem.St) (t : Tid) (alt : Nat) : Bool :=
  match s.pc t with
  | .wait => decide (alt = 0)
  | .tryWait => decide (0 < s.count)
  | _ => true

theorem sem_simple_step_is_translated_code (s : Sem.St) (t : Tid) (s' : Sem.St) (alt : Nat)
    (hp : s.pc t = .post ∨ s.pc t = .wait ∨ s.pc t = .tryWait) (hs : Sem.step s t (.run alt) = some s') :
    ∃ f n, Sem.at (s.pc t) = some (f, n) ∧ f.callAt n = some (Sem.callOf (s.pc t)) ∧
      f.entry true = some ⟨none, false, false, .node 0⟩ ∧ f.entry false = some ⟨none, false, false, .node 0⟩ ∧
      ∃ e v, f.after n (Sem.result s t alt) true = some e ∧ f.after n (Sem.result s t alt) false = some e ∧ e.store = none ∧
        e.next = .ret v ∧ s'.pc t = .idle ∧ s'.ret t = some (retVal v) := by
  simp only [Sem.step] at hs
  rcases hp with hp | hp | hp <;> simp only [hp, Sem.done] at hs <;> (repeat' split at hs) <;> simp at hs <;> (try subst hs) <;>
    (refine ⟨_, _, by rw [hp]; rfl, ?_⟩;
     simp_all [Sem.callOf, Sem.result, Fn.callAt, Fn.after, Fn.entry, SyncCfg.semaphore_signal, SyncCfg.semaphore_wait,
        SyncCfg.semaphore_tryWait, retVal, Cfg.RetV.toVal, upd])

/-! ### Semaphore::wait(timeout): the sem_timedwait retry loop and the ENOSYS polling loop -/

/-- `tf` = the variant of this instance (`St.tryFirst`): with the `sem_trywait` fast path that call is node 0 -/
def Sem.pollAt (tf : Bool) : Sem.Pc → Option Nat
  | .twTry _ => some 0
  | .twait _ => some (if tf then 1 else 0)
  | .pollTry _ _ => some (if tf then 2 else 1)
  | .pollSleep _ _ _ => some (if tf then 3 else 2)
  | _ => none

/-- the POSIX call a program counter of wait(timeout) stands for (the `usleep` argument is the model's `Poll.sleepUs`) -/
def Sem.pollCall : Sem.Pc → SCall
  | .pollTry _ _ | .twTry _ => .semTryWait
  | .pollSleep _ _ _ => .usleep Sem.Poll.sleepUs
  | _ => .semTimedWait

/-- the loop variable a program counter carries -/
def Sem.ctrOf : Sem.Pc → Nat
  | .pollTry _ i | .pollSleep _ i _ => i
  | _ => 0

/-- how the pending call ends for alternative `alt` (ASSUMED POSIX layer): sem_timedwait — 0 success, 1 EINTR, 2 ETIMEDOUT /
    EINVAL, 3 ENOSYS; sem_trywait succeeds iff the count is positive (else EAGAIN); usleep returns -/
def Sem.outcome (s : Sem.St) (t : Tid) (alt : Nat) : Outcome :=
  match s.pc t with
  | .twait _ => if alt = 0 then .ok else if alt = 1 then .eintr else if alt = 3 then .enosys else .other
  | .pollTry _ _ | .twTry _ => if 0 < s.count then .ok else .other
  | _ => .ok

/-- Every step of a thread inside `Semaphore::wait(timeout)` follows the table translated from the current Semaphore.cpp
    (`SyncCfg.semaphore_waitT`: calls with errno classes, `continue`, `goto`, the counted polling loop as decision trees over
    `i < timeout`): the node of the program counter carries the call the model performs (the `usleep` argument IS the model's
    `Poll.sleepUs`); for the outcome of the call the table's edge gives the operation on the loop variable and — after
    deciding its loop tests with the new value and the requested time-out — either the next node, which is where the model
    goes (same deadline record, that loop variable, sleep until `now + sleepUs`), or the value the model returns. -/
theorem sem_timed_wait_step_is_translated_code (s : Sem.St) (t : Tid) (s' : Sem.St) (alt : Nat) (d : Deadline)
    (htf : s.tryFirst = SyncShape.semTryFirst) (hd : (s.pc t).dl = some d) (hs : Sem.step s t (.run alt) = some s') :
    ∃ n, Sem.pollAt s.tryFirst (s.pc t) = some n ∧
      (SyncCfg.semaphore_waitT.nodes[n]?).map (·.call) = some (Sem.pollCall (s.pc t)) ∧
      match SyncCfg.semaphore_waitT.after n (Sem.outcome s t alt) with
      | none => False
      | some e =>
        match e.next.resolve (CtrOp.apply e.ctr (Sem.ctrOf (s.pc t))) d.ms with
        | .node m => Sem.pollAt s.tryFirst (s'.pc t) = some m ∧ (s'.pc t).dl = some d ∧
            ((∃ d' i w, s'.pc t = .pollTry d' i ∨ s'.pc t = .pollSleep d' i w) → Sem.ctrOf (s'.pc t) = CtrOp.apply e.ctr (Sem.ctrOf (s.pc t))) ∧
            (∀ d' i w, s'.pc t = .pollSleep d' i w → w = s.now + Sem.Poll.sleepUs * 1000)
        | .ret b => s'.pc t = .idle ∧ s'.ret t = some (.bool b)
        | .ifLess _ _ => False := by
  simp only [Sem.step] at hs
  cases hpc : s.pc t with
  | idle => simp [hpc, Sem.Pc.dl] at hd
  | post => simp [hpc, Sem.Pc.dl] at hd
  | wait => simp [hpc, Sem.Pc.dl] at hd
  | tryWait => simp [hpc, Sem.Pc.dl] at hd
  | twTry ms => simp [hpc, Sem.Pc.dl] at hd
  | twait d0 =>
    simp only [hpc, Sem.Pc.dl, Option.some.injEq] at hd
    subst hd
    simp only [hpc, Sem.done, Sem.goto] at hs
    (repeat' split at hs) <;> simp at hs <;> (try subst hs) <;>
      (refine ⟨_, rfl, ?_, ?_⟩ <;> cases htf' : s.tryFirst <;>
        simp_all [Sem.outcome, Sem.pollAt, Sem.pollCall, Sem.ctrOf, Sem.Pc.dl, PollFn.after, CtrOp.apply, PNext.resolve,
          SyncCfg.semaphore_waitT, Sem.Poll.start, Sem.Poll.stepMs, Sem.Poll.sleepUs, Nstd.Generated.SyncSemPoll.start,
          Nstd.Generated.SyncSemPoll.stepMs, Nstd.Generated.SyncSemPoll.sleepUs, upd, SyncShape.semTryFirst])
  | pollTry d0 i =>
    simp only [hpc, Sem.Pc.dl, Option.some.injEq] at hd
    subst hd
    simp only [hpc, Sem.done, Sem.goto] at hs
    (repeat' split at hs) <;> simp at hs <;> (try subst hs) <;>
      (refine ⟨_, rfl, ?_, ?_⟩ <;> cases htf' : s.tryFirst <;>
        simp_all [Sem.outcome, Sem.pollAt, Sem.pollCall, Sem.ctrOf, Sem.Pc.dl, PollFn.after, CtrOp.apply, PNext.resolve,
          SyncCfg.semaphore_waitT, Sem.Poll.start, Sem.Poll.stepMs, Sem.Poll.sleepUs, Nstd.Generated.SyncSemPoll.start,
          Nstd.Generated.SyncSemPoll.stepMs, Nstd.Generated.SyncSemPoll.sleepUs, upd, SyncShape.semTryFirst])
  | pollSleep d0 i w =>
    simp only [hpc, Sem.Pc.dl, Option.some.injEq] at hd
    subst hd
    simp only [hpc, Sem.done, Sem.goto] at hs
    (repeat' split at hs) <;> simp at hs <;> (try subst hs) <;>
      (refine ⟨_, rfl, ?_, ?_⟩ <;> cases htf' : s.tryFirst <;>
        simp_all [Sem.outcome, Sem.pollAt, Sem.pollCall, Sem.ctrOf, Sem.Pc.dl, PollFn.after, CtrOp.apply, PNext.resolve,
          SyncCfg.semaphore_waitT, Sem.Poll.start, Sem.Poll.stepMs, Sem.Poll.sleepUs, Nstd.Generated.SyncSemPoll.start,
          Nstd.Generated.SyncSemPoll.stepMs, Nstd.Generated.SyncSemPoll.sleepUs, upd, SyncShape.semTryFirst]) <;>
      (try simp [Nat.not_lt.mpr ‹_ ≤ _›])

/-- beginning `wait(timeout)` enters the table at its entry (node 0, no counter operation); in the try-first variant node 0 is
    the `sem_trywait` fast path: success returns true with one unit taken, failure (count zero) goes on to node 1, the
    `sem_timedwait`, with a deadline computed from the clock as it is then -/
theorem sem_timed_wait_entry_is_translated_code (s : Sem.St) (t : Tid) (htf : s.tryFirst = SyncShape.semTryFirst) :
    SyncCfg.semaphore_waitT.entry = some ⟨none, .node 0⟩ ∧
    SyncCfg.semaphore_waitT.nodes.length = (if SyncShape.semTryFirst then 4 else 3) ∧
    (∀ ms s', Sem.step s t (.call (.twait ms)) = some s' → Sem.pollAt s.tryFirst (s'.pc t) = some 0 ∧
      (SyncCfg.semaphore_waitT.nodes[0]?).map (·.call) = some (Sem.pollCall (s'.pc t))) ∧
    (∀ ms alt s', s.pc t = .twTry ms → s.tryFirst = true → Sem.step s t (.run alt) = some s' →
      match SyncCfg.semaphore_waitT.after 0 (Sem.outcome s t alt) with
      | some ⟨none, .ret b⟩ => b = true ∧ s'.pc t = .idle ∧ s'.ret t = some (.bool true) ∧ s'.count + 1 = s.count
      | some ⟨none, .node m⟩ => Sem.pollAt s.tryFirst (s'.pc t) = some m ∧ s'.pc t = .twait (mkDeadline s.now ms) ∧ s'.count = s.count
      | _ => False) := by
  refine ⟨by decide, by decide, ?_, ?_⟩
  · intro ms s' hs
    simp only [Sem.step] at hs
    split at hs
    · simp at hs; subst hs
      cases h : s.tryFirst <;> simp_all [Sem.pollAt, Sem.pollCall, upd, SyncShape.semTryFirst, SyncCfg.semaphore_waitT]
    · simp at hs
  · intro ms alt s' hpc htrue hs
    rw [htrue] at htf
    simp only [Sem.step, hpc, Sem.done, Sem.goto] at hs
    (repeat' split at hs) <;> simp at hs <;> (try subst hs) <;>
      simp_all [Sem.outcome, Sem.pollAt, PollFn.after, SyncCfg.semaphore_waitT, SyncShape.semTryFirst, upd] <;> omega

/-! ## Thread (Thread.cpp, Thread.hpp): the handle `thread` of Thread object `j` plays the role of the flag -/

/-- table, node and Thread object of a program counter; `create j none` = the pthread_create of the member overload -/
def Thr.at : Thr.Pc → Option (Fn × Nat × Tid)
  | .idle => none
  | .create j b => some (if b.isSome then SyncCfg.thread_start else SyncCfg.thread_mstart, 0, j)
  | .join j => some (SyncCfg.thread_join, 0, j)
  | .dtor j => some (SyncCfg.thread_dtor, 0, j)

def Thr.callOf : Thr.Pc → PCall
  | .create _ _ => .threadCreate
  | _ => .threadJoin

/-- table, Thread object and (member overload) the functor an API call would store -/
def Thr.fnOf : Thr.Op → Fn × Tid × Nat
  | .start j _ => (SyncCfg.thread_start, j, 0)
  | .mstart j k => (SyncCfg.thread_mstart, j, k)
  | .join j => (SyncCfg.thread_join, j, 0)
  | .dtor j => (SyncCfg.thread_dtor, j, 0)

/-- Every step of the Thread system follows the tables translated from the current Thread.cpp / Thread.hpp (`start(obj, member)`
    with `start(proc, param)` inlined, `~Thread` with `join()` inlined).
    * A step that performs the pending `pthread_create` (alternative 0 = success, 1 = failure, ASSUMED) or `pthread_join`: the
      handle of the Thread object is set / cleared / left exactly as the table's edge says, the stored functor is untouched,
      and the call returns the table's value (`joined` = the value of the finished thread, ASSUMED pthread_join).
    * Beginning an API call runs the table's entry edge for the current handle: on an attached object `start` (both overloads)
      returns false WITHOUT storing the functor (`e.func = false`: the order repaired by fixes/sync/0002), `join` on a detached
      object returns 0, `~Thread` of a detached object returns; otherwise the thread arrives at the table's first POSIX call,
      and the member overload has stored its functor (`e.func = true`) on the way. -/
theorem thread_step_is_translated_code (val : Nat → Nat) (s : Thr.St) (t : Tid) (s' : Thr.St) :
    (∀ alt, Thr.step val s t (.api (.run alt)) = some s' → ∃ f n j, Thr.at (s.pc t) = some (f, n, j) ∧
      f.callAt n = some (Thr.callOf (s.pc t)) ∧
      ∃ e, f.after n (decide (alt = 0)) (s.handle j) = some e ∧ e.func = false ∧ s'.func = s.func ∧
        s'.handle j = e.store.getD (s.handle j) ∧ (∀ i, i ≠ j → s'.handle i = s.handle i) ∧
        ∃ v, e.next = .ret v ∧ s'.pc t = .idle ∧ ∃ r, s'.ret t = some (v.toVal r) ∧ (v = .joined → s.status j = .finished r)) ∧
    (∀ op, Thr.step val s t (.api (.call op)) = some s' →
      ∃ e, (Thr.fnOf op).1.entry (s.handle (Thr.fnOf op).2.1) = some e ∧ e.store = none ∧ s'.handle = s.handle ∧
        s'.func = (if e.func then upd s.func (Thr.fnOf op).2.1 (Thr.fnOf op).2.2 else s.func) ∧
        match e.next with
        | .node m => Thr.at (s'.pc t) = some ((Thr.fnOf op).1, m, (Thr.fnOf op).2.1)
        | .ret v => s'.pc t = .idle ∧ s'.ret t = some (v.toVal 0)) := by
  refine ⟨?_, ?_⟩
  · intro alt hs
    simp only [Thr.step] at hs
    cases hpc : s.pc t with
    | idle => simp [hpc] at hs
    | create j b =>
      simp only [hpc, Thr.done] at hs
      cases b <;> (repeat' split at hs) <;> simp at hs <;> (try subst hs) <;>
        (refine ⟨_, _, j, rfl, ?_, ?_⟩ <;> by_cases hh : s.handle j = true <;>
          simp_all [Thr.callOf, Fn.callAt, Fn.after, SyncCfg.thread_start, SyncCfg.thread_mstart, Cfg.RetV.toVal, upd] <;>
          (intro i hi; simp [upd, hi]))
    | join j | dtor j =>
      simp only [hpc, Thr.done] at hs
      split at hs
      · simp at hs
      · cases hst : s.status j <;> simp [hst] at hs
        subst hs
        rename_i ha r
        have h0 : alt = 0 := Classical.byContradiction ha
        subst h0
        refine ⟨_, _, j, rfl, ?_, ?_⟩ <;> by_cases hh : s.handle j = true <;>
          simp_all [Thr.callOf, Fn.callAt, Fn.after, SyncCfg.thread_join, SyncCfg.thread_dtor, Cfg.RetV.toVal, upd] <;>
          (intro i hi; simp [upd, hi])
  · intro op hs
    simp only [Thr.step] at hs
    split at hs
    · cases op <;> simp only [] at hs <;> split at hs <;> simp [Thr.done] at hs <;> subst hs <;>
        simp_all [Thr.fnOf, Thr.at, Fn.entry, SyncCfg.thread_start, SyncCfg.thread_mstart, SyncCfg.thread_join, SyncCfg.thread_dtor,
          Cfg.RetV.toVal, upd]
    · simp at hs

/-! ## over reachable states (the well-formedness hypotheses are invariants); non-vacuity -/

/-- every step of every schedule of the Signal system follows the code translated from the current Signal.cpp -/
theorem signal_reachable_steps_follow_translated_code {set0 : Bool} {now spur : Nat} {s : Signal.St}
    (h : Signal.Reach set0 now spur s) (hsk : s.setSkips = SyncShape.signalSetSkips) (hlz : s.lazyDl = SyncShape.signalLazyDeadline)
    (t : Tid) (s' : Signal.St) (alt : Nat) (hs : Signal.step s t (.run alt) = some s') :
    ∃ f n, Signal.at s.setSkips (s.pc t) = some (f, n) ∧ f.callAt n = some (Signal.callOf (s.pc t)) ∧
      match Signal.completes (s.pc t) with
      | none => Signal.at s.setSkips (s'.pc t) = some (f, n) ∧ s'.flag = s.flag ∧ (s'.pc t).dlOf = (s.pc t).dlOf
      | some ok => ∃ e, f.after n ok s.flag = some e ∧ s'.flag = e.store.getD s.flag ∧
          match e.next with
          | .node m => Signal.at s.setSkips (s'.pc t) = some (f, m) ∧
              (s'.pc t).dlOf = (if e.clock then Signal.relazy true s.now (s.pc t).dlOf else (s.pc t).dlOf)
          | .ret v => s'.pc t = .idle ∧ s'.ret t = some (retVal v) :=
  (signal_step_is_translated_code s t s' (Signal.pcWf_reach h t) hsk hlz).1 alt hs

/-- every step of every schedule of the Monitor system whose `set()` has the order of the current Monitor.cpp follows the
    code translated from the current Monitor.cpp -/
theorem monitor_reachable_steps_follow_translated_code {now spur : Nat} {s : Monitor.St} (h : Monitor.Reach now spur s)
    (hsf : s.sigFirst = SyncMonitorOrder.setSignalsFirst) (t : Tid) (s' : Monitor.St) (alt : Nat)
    (hs : Monitor.step s t (.run alt) = some s') :
    ∃ f n, Monitor.at s.sigFirst (s.pc t) = some (f, n) ∧ f.callAt n = some (Monitor.callOf (s.pc t)) ∧ s'.sigFirst = s.sigFirst ∧
      match Monitor.completes s t with
      | none => Monitor.at s.sigFirst (s'.pc t) = some (f, n) ∧ s'.flag = s.flag ∧ (s'.pc t).dlOf = (s.pc t).dlOf
      | some ok => ∃ e, f.after n ok s.flag = some e ∧ s'.flag = e.store.getD s.flag ∧
          match e.next with
          | .node m => Monitor.at s.sigFirst (s'.pc t) = some (f, m) ∧ (s'.pc t).dlOf = (s.pc t).dlOf
          | .ret v => s'.pc t = .idle ∧ s'.ret t = some (retVal v) :=
  (monitor_step_is_translated_code s t s' hsf (fun dl hp => ((Monitor.inv_reach h).relockTO t dl hp).1)).1 alt hs

/-- the tables have no program points the model does not know (every node is the image of a program counter) -/
theorem translated_tables_have_no_other_program_points :
    SyncCfg.mutex_lock.nodes.length = 1 ∧ SyncCfg.mutex_tryLock.nodes.length = 1 ∧ SyncCfg.mutex_unlock.nodes.length = 1 ∧
    SyncCfg.signal_set.nodes.length = 3 ∧ SyncCfg.signal_reset.nodes.length = 2 ∧ SyncCfg.signal_wait.nodes.length = 3 ∧
    SyncCfg.signal_waitT.nodes.length = 4 ∧ SyncCfg.monitor_lock.nodes.length = 1 ∧ SyncCfg.monitor_tryLock.nodes.length = 1 ∧
    SyncCfg.monitor_unlock.nodes.length = 1 ∧ SyncCfg.monitor_wait.nodes.length = 1 ∧ SyncCfg.monitor_waitT.nodes.length = 1 ∧
    SyncCfg.monitor_set.nodes.length = 3 ∧ SyncCfg.thread_start.nodes.length = 1 ∧ SyncCfg.thread_mstart.nodes.length = 1 ∧
    SyncCfg.thread_join.nodes.length = 1 ∧ SyncCfg.thread_dtor.nodes.length = 1 ∧ SyncCfg.semaphore_signal.nodes.length = 1 ∧
    SyncCfg.semaphore_wait.nodes.length = 1 ∧ SyncCfg.semaphore_tryWait.nodes.length = 1 := by decide

/-- non-vacuity: a reachable Signal state with a waiter at its re-acquisition while the flag is set (the step completes
    pthread_cond_wait with success; the table sends it to the unlock that precedes `return true`), and a reachable Monitor
    state of the current order with a setter at its signal -/
example : ∃ s s', Signal.Reach false 0 0 s ∧ s.pc 1 = .wRelock none false ∧ s.flag = true ∧ Signal.step s 1 (.run 0) = some s' ∧
    s'.pc 1 = .wUnlock true none := by
  refine ⟨_, _, Signal.reach_runActs [(1, .call .wait), (1, .run 0), (1, .run 0), (2, .call .set), (2, .run 0), (2, .run 0), (2, .run 0)]
    .init rfl, rfl, rfl, rfl, rfl⟩

example : ∃ s s', Monitor.Reach 0 0 s ∧ s.sigFirst = SyncMonitorOrder.setSignalsFirst ∧ s.pc 2 = .setSignal ∧
    Monitor.step s 2 (.run 0) = some s' := by
  refine ⟨_, _, Monitor.reach_runActs ([(1, .call .lock), (1, .run 0), (1, .call .wait), (1, .run 0), (2, .call .set), (2, .run 0)] ++
    (if SyncMonitorOrder.setSignalsFirst then [] else [((2 : Tid), (Act.run 0 : Act Monitor.Op))])) (.init SyncMonitorOrder.setSignalsFirst) rfl,
    rfl, rfl, rfl⟩

end Nstd.Sync
