/-
  Sync area (property C11) — C's integer arithmetic on LP64 as far as the deadline computations of the timed waits use it
  (imported by the GENERATED Nstd/Generated/SyncDeadline.lean): `/` and `%` truncate towards zero, `int` is 32 bits,
  `long` / `int64` / `time_t` are 64 bits; signed overflow and division by zero are undefined behaviour — the generated
  `…Safe` propositions list "result in range" for every arithmetic node and "≠ 0" for every divisor.
-/
namespace Nstd.Sync.CArith

/-- C's `a / b` (truncation towards zero) -/
def cdiv (a b : Int) : Int := Int.tdiv a b
/-- C's `a % b` (sign of the dividend) -/
def cmod (a b : Int) : Int := Int.tmod a b

def in32 (x : Int) : Prop := -2147483648 ≤ x ∧ x ≤ 2147483647
def in64 (x : Int) : Prop := -9223372036854775808 ≤ x ∧ x ≤ 9223372036854775807

/-- truncating division in terms of the division `omega` knows: by sign of the dividend -/
theorem cdiv_eq (a b : Int) : cdiv a b = if 0 ≤ a then a / b else -((-a) / b) := by
  unfold cdiv
  split
  · rename_i h; exact Int.tdiv_eq_ediv_of_nonneg h
  · rename_i h
    have h1 : 0 ≤ -a := by omega
    have := Int.tdiv_eq_ediv_of_nonneg (a := -a) (b := b) h1
    rw [Int.neg_tdiv] at this
    omega

theorem cmod_eq (a b : Int) : cmod a b = if 0 ≤ a then a % b else -((-a) % b) := by
  unfold cmod
  split
  · rename_i h; exact Int.tmod_eq_emod_of_nonneg h
  · rename_i h
    have h1 : 0 ≤ -a := by omega
    have := Int.tmod_eq_emod_of_nonneg (a := -a) (b := b) h1
    rw [Int.neg_tmod] at this
    omega

end Nstd.Sync.CArith
