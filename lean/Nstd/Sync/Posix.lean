/-
  Sync area (property C11) — the ASSUMED semantics of the POSIX layer under libnstd's
  Mutex / Semaphore / Signal / Monitor / Thread.  Nothing here is verified against glibc or the
  kernel; `harness/sync/sched.cpp` implements exactly these rules under the real libnstd sources
  and the correspondence run of the check compares both on identical schedules.

  * mutex: owner + recursion count; `lock` is enabled iff the mutex is free or (recursive and owned by
    the caller); `trylock` is always enabled (never blocks) and succeeds under the same condition;
    `unlock` is only legal for the owner.
  * condition variable: the wait set is the set of threads whose program counter is `…Blocked`
    (Monitor additionally records the arrival order for `signal`'s choice).  `wait` atomically releases
    the mutex and joins the wait set.  A blocked thread leaves the wait set by `broadcast` (all),
    `signal` (exactly one chosen waiter if there is any; "more than one" is covered by the spurious
    wake-ups), SPURIOUSLY at any time (budgeted by `spur`, an arbitrary number), or — timed wait only —
    with ETIMEDOUT once `now ≥ deadline`.  A woken thread then has to re-acquire the mutex.
    A timed-out waiter does not consume a signal (glibc hands a consumed signal on).
  * semaphore: counter; `wait` is enabled iff the counter is positive; `sem_wait`/`sem_timedwait` may
    fail with EINTR at any time (budgeted by `eintr`); `sem_timedwait` fails with ETIMEDOUT only when the
    counter is zero and `now ≥ deadline`, with EINVAL when the counter is zero and the deadline is malformed.
  * threads: `create` makes a new thread, `join` is enabled once the target has finished and yields the
    value returned by its function.
  * clock: a monotone virtual clock in nanoseconds (`tick q` adds `q`); CLOCK_REALTIME jumps are outside
    the model.  Integer overflow of `time_t`/`long` is outside the model (unbounded `Nat`); time-outs are ≥ 0.
-/
namespace Nstd.Sync

abbrev Tid := Nat

/-- pointwise update of a per-thread table -/
def upd {α : Type} (f : Tid → α) (t : Tid) (v : α) : Tid → α := fun u => if u = t then v else f u

@[simp] theorem upd_same {α : Type} (f : Tid → α) (t : Tid) (v : α) : upd f t v t = v := by simp [upd]
@[simp] theorem upd_other {α : Type} (f : Tid → α) (t u : Tid) (v : α) (h : u ≠ t) : upd f t v u = f u := by
  simp [upd, h]

/-- what a library call returned -/
inductive Val
  | unit
  | bool (b : Bool)
  | num (n : Nat)
deriving DecidableEq, Repr

/-- actions the scheduler may pick for a thread: begin an API call (only when idle), run the pending
    POSIX operation with alternative `alt`, or let virtual time pass -/
inductive Act (Op : Type)
  | call (op : Op)
  | run (alt : Nat)
  | tick (q : Nat)

/-! ### time -/

structure Timespec where
  sec : Nat
  nsec : Nat
deriving DecidableEq, Repr

def Timespec.toNs (ts : Timespec) : Nat := ts.sec * 1000000000 + ts.nsec
def Timespec.valid (ts : Timespec) : Bool := decide (ts.nsec < 1000000000)

/-- `clock_gettime` on the virtual clock -/
def clockGettime (now : Nat) : Timespec := ⟨now / 1000000000, now % 1000000000⟩

/-- Signal.cpp:80-82 = Monitor.cpp:90-92 = Semaphore.cpp:63-65
    `ts.tv_nsec += (timeout % 1000) * 1000000; ts.tv_sec += timeout / 1000 + ts.tv_nsec / 1000000000;
     ts.tv_nsec %= 1000000000;` -/
def addTimeout (ts : Timespec) (ms : Nat) : Timespec :=
  let nsec1 := ts.nsec + (ms % 1000) * 1000000
  ⟨ts.sec + (ms / 1000 + nsec1 / 1000000000), nsec1 % 1000000000⟩

/-- absolute deadline handed to the timed POSIX wait; `t0`, `ms` are ghost (call time, requested time-out) -/
structure Deadline where
  ts : Timespec
  t0 : Nat
  ms : Nat
deriving DecidableEq, Repr

def mkDeadline (now ms : Nat) : Deadline := ⟨addTimeout (clockGettime now) ms, now, ms⟩

/-- the timed POSIX waits may report ETIMEDOUT exactly when this holds -/
def Deadline.expired (d : Deadline) (now : Nat) : Bool := decide (d.ts.toNs ≤ now)

/-! ### mutex -/

structure PMutex where
  recursive : Bool
  owner : Option Tid
  count : Nat
deriving DecidableEq, Repr

def PMutex.canLock (m : PMutex) (t : Tid) : Bool :=
  decide (m.owner = none) || (m.recursive && decide (m.owner = some t))

def PMutex.lock (m : PMutex) (t : Tid) : PMutex := { m with owner := some t, count := m.count + 1 }

def PMutex.unlock (m : PMutex) (t : Tid) : Option PMutex :=
  if m.owner = some t then
    some (if m.count ≤ 1 then { m with owner := none, count := 0 } else { m with count := m.count - 1 })
  else none

/-- `pthread_cond_wait` entry: the mutex is released completely -/
def PMutex.release (m : PMutex) : PMutex := { m with owner := none, count := 0 }

end Nstd.Sync
