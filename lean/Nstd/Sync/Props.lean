import Nstd.Sync.Model
namespace Nstd.Sync

/-- the deadline handed to the timed POSIX waits is exactly `now + timeout` and well-formed -/
theorem deadline_exact (ts : Timespec) (ms : Nat) :
    (addTimeout ts ms).toNs = ts.toNs + ms * 1000000 ∧ (addTimeout ts ms).nsec < 1000000000 := by
  simp only [addTimeout, Timespec.toNs]
  omega

end Nstd.Sync
