import Nstd.Sync.LemmasMutex
import Nstd.Sync.LemmasSem
import Nstd.Sync.LemmasSignal
import Nstd.Sync.LemmasMonitor
import Nstd.Sync.LemmasThr
import Nstd.Sync.LemmasSleep
import Nstd.Sync.LemmasRun
import Nstd.Sync.LemmasScenario
import Nstd.Sync.LiveSem
import Nstd.Sync.LiveSemClosed
import Nstd.Sync.LiveSemPoll
import Nstd.Sync.LiveSignal
import Nstd.Sync.LiveMonitor
import Nstd.Sync.WhatIf
import Nstd.Sync.LiveDemo
/-
  Property C11 — Mutex, Semaphore, Signal, Monitor and Thread keep their contracts under every interleaving.

  Every theorem below quantifies over ALL reachable states of the transition systems of Model.lean, i.e. over
  every schedule (a schedule is the list of `(thread, action)` choices that `Reach` is built from), with
  unboundedly many threads, any number of spurious wake-ups / EINTR returns (the budgets are arbitrary
  parameters) and clock ticks of any size at any moment.  The POSIX layer is the ASSUMED semantics of Posix.lean.
-/
namespace Nstd.Sync

/-! ## Mutex -/

/-- Mutex admits one thread at a time, re-entrantly for its owner: in every reachable state at most one thread
    is inside (`held t` = successful lock/tryLock returns minus unlock returns of `t`), and a `lock()` of the
    thread that is inside is enabled and nests. -/
theorem mutex_exclusive_reentrant {s : Mutex.St} (h : Mutex.Reach s) :
    (∀ t u, 0 < s.held t → 0 < s.held u → t = u) ∧
    (∀ t, 0 < s.held t → s.pc t = .lock →
      ∃ s', Mutex.step s t (.run 0) = some s' ∧ s'.held t = s.held t + 1 ∧ s'.pc t = .idle) := by
  have hi := Mutex.inv_reach h
  obtain ⟨hr, hn, ho⟩ := hi
  constructor
  · intro t u ht hu
    cases hown : s.m.owner with
    | none => have := (hn hown).2 t; omega
    | some o =>
      have h3 := (ho o hown).2.2
      have e1 : t = o := Classical.byContradiction fun hne => by have := h3 t hne; omega
      have e2 : u = o := Classical.byContradiction fun hne => by have := h3 u hne; omega
      rw [e1, e2]
  · intro t ht hpc
    have hown : s.m.owner = some t := by
      cases hown : s.m.owner with
      | none => have := (hn hown).2 t; omega
      | some o =>
        have h3 := (ho o hown).2.2
        have e1 : t = o := Classical.byContradiction fun hne => by have := h3 t hne; omega
        rw [e1]
    have hc : s.m.canLock t = true := (Mutex.canLock_iff s ⟨hr, hn, ho⟩ t).2 (Or.inr hown)
    cases hs : Mutex.step s t (.run 0) with
    | none => simp [Mutex.step, hpc, hc] at hs
    | some s' =>
      simp [Mutex.step, hpc, hc] at hs; subst hs
      exact ⟨_, rfl, by simp, by simp⟩

/-- tryLock never blocks (its step is always enabled and returns) and succeeds when the mutex is free or
    owned by the caller; it fails exactly when another thread is inside. -/
theorem trylock_nonblocking_succeeds_when_free {s : Mutex.St} (h : Mutex.Reach s) (t : Tid)
    (hpc : s.pc t = .tryLock) :
    ∃ s', Mutex.step s t (.run 0) = some s' ∧ s'.pc t = .idle ∧
      ((∀ u, u ≠ t → s.held u = 0) → s'.ret t = some (.bool true) ∧ s'.held t = s.held t + 1) ∧
      ((∃ u, u ≠ t ∧ 0 < s.held u) → s'.ret t = some (.bool false) ∧ s'.held = s.held) := by
  have hi := Mutex.inv_reach h
  have hcl := Mutex.canLock_iff s hi t
  obtain ⟨hr, hn, ho⟩ := hi
  by_cases hc : s.m.canLock t = true
  · cases hs : Mutex.step s t (.run 0) with
    | none => simp [Mutex.step, hpc, hc] at hs
    | some s' => ?_
    simp [Mutex.step, hpc, hc] at hs; subst hs
    refine ⟨_, rfl, by simp, ?_, ?_⟩
    · intro _; simp
    · intro ⟨u, hut, hu⟩
      exfalso
      rcases hcl.1 hc with hown | hown
      · have := (hn hown).2 u; omega
      · have := (ho t hown).2.2 u hut; omega
  · cases hs : Mutex.step s t (.run 0) with
    | none => simp [Mutex.step, hpc, hc] at hs
    | some s' => ?_
    simp [Mutex.step, hpc, hc] at hs; subst hs
    refine ⟨_, rfl, by simp, ?_, ?_⟩
    · intro hfree
      exfalso
      apply hc
      apply hcl.2
      cases hown : s.m.owner with
      | none => exact Or.inl rfl
      | some o =>
        right
        have := ho o hown
        have e : o = t := Classical.byContradiction fun hne => by have := hfree o hne; omega
        rw [e]
    · intro _; simp

example : ∃ s, Mutex.Reach s ∧ s.held 1 = 2 ∧ s.pc 2 = .tryLock ∧ s.pc 1 = .lock := by
  refine ⟨_, Mutex.reach_runActs [(1, .call .lock), (1, .run 0), (1, .call .tryLock), (1, .run 0), (2, .call .tryLock),
    (1, .call .lock)] .init rfl, ?_, ?_, ?_⟩ <;> rfl

/-- The recursion depth is counted: in every reachable state the POSIX mutex's count is the owner's nesting depth
    (`held`), the mutex is free exactly when nobody is inside, an `unlock()` of a thread that is inside takes one level
    off and frees the mutex exactly at depth 1.  `unlock()` by a thread that is NOT inside is outside the contract
    (POSIX: EPERM for a recursive mutex, the library's `VERIFY` traps in debug builds): the model has no step for it —
    nothing is claimed about such a client, and the controlled scheduler never schedules it. -/
theorem mutex_recursion_depth_counted {s : Mutex.St} (h : Mutex.Reach s) :
    (∀ o, s.m.owner = some o → s.m.count = s.held o ∧ 0 < s.held o) ∧
    (s.m.owner = none ↔ ∀ t, s.held t = 0) ∧
    (∀ t, s.pc t = .unlock → 0 < s.held t →
      ∃ s', Mutex.step s t (.run 0) = some s' ∧ s'.held t + 1 = s.held t ∧ (∀ u, u ≠ t → s'.held u = s.held u) ∧
        s'.m.owner = (if s.held t = 1 then none else some t) ∧ s'.pc t = .idle) ∧
    (∀ t, s.pc t = .unlock → s.held t = 0 → ∀ alt, Mutex.step s t (.run alt) = none) := by
  obtain ⟨hr, hn, ho⟩ := Mutex.inv_reach h
  have hown : ∀ t, 0 < s.held t → s.m.owner = some t := by
    intro t ht
    cases hown : s.m.owner with
    | none => have := (hn hown).2 t; omega
    | some o =>
      have h3 := (ho o hown).2.2
      have e1 : t = o := Classical.byContradiction fun hne => by have := h3 t hne; omega
      rw [e1]
  refine ⟨?_, ?_, ?_, ?_⟩
  · intro o hoo
    have := ho o hoo
    omega
  · constructor
    · intro hnone; exact (hn hnone).2
    · intro hall
      cases hown' : s.m.owner with
      | none => rfl
      | some o => have := ho o hown'; have := hall o; omega
  · intro t hpc ht
    have hot := hown t ht
    obtain ⟨h1, h2, h3⟩ := ho t hot
    by_cases hone : s.held t = 1
    · have hc : s.m.count ≤ 1 := by omega
      refine ⟨_, by simp [Mutex.step, hpc, PMutex.unlock, hot, hc]; rfl, ?_, ?_, ?_, ?_⟩
      · simp; omega
      · intro u hu; simp [upd, hu]
      · simp [hone]
      · simp
    · have hc : ¬ s.m.count ≤ 1 := by omega
      refine ⟨_, by simp [Mutex.step, hpc, PMutex.unlock, hot, hc]; rfl, ?_, ?_, ?_, ?_⟩
      · simp; omega
      · intro u hu; simp [upd, hu]
      · simp [hone, hot]
      · simp
  · intro t hpc h0 alt
    have hno : s.m.owner ≠ some t := by
      intro hot; have := ho t hot; omega
    by_cases ha : alt = 0
    · subst ha; simp [Mutex.step, hpc, PMutex.unlock, hno]
    · simp [Mutex.step, ha]


/-! ## Semaphore -/

/-- Semaphore conserves its count: successful waits never exceed the initial value plus the signals (indeed
    `count + successes = initial + signals`), and while the count is positive no waiter stays blocked: the
    pending `wait`, `wait(timeout)`, `tryWait` of any thread — and the `sem_trywait` of a thread inside the ENOSYS
    polling fallback of `wait(timeout)` — is enabled and returns true.  (`Reach` quantifies over every ENOSYS budget:
    the successes of the polling fallback are counted like all others.) -/
theorem sem_conservation {c now e : Nat} {s : Sem.St} (h : Sem.Reach c now e s) :
    s.count + s.succ = c + s.posts ∧ s.succ ≤ c + s.posts ∧
    (0 < s.count → ∀ t, (s.pc t = .wait ∨ s.pc t = .tryWait ∨ (∃ d, s.pc t = .twait d) ∨ (∃ d i, s.pc t = .pollTry d i) ∨
        ∃ ms, s.pc t = .twTry ms) →
      ∃ s', Sem.step s t (.run 0) = some s' ∧ s'.ret t = some (.bool true) ∧ s'.pc t = .idle ∧ s'.succ = s.succ + 1) := by
  have hi := Sem.inv_reach h
  have h0 := Sem.init0_reach h
  have hc := hi.cons
  rw [h0] at hc
  refine ⟨hc, by omega, ?_⟩
  intro hpos t hpc
  cases hs : Sem.step s t (.run 0) with
  | none => rcases hpc with hpc | hpc | ⟨d, hpc⟩ | ⟨d, i, hpc⟩ | ⟨ms, hpc⟩ <;> simp [Sem.step, hpc, hpos] at hs
  | some s' =>
    rcases hpc with hpc | hpc | ⟨d, hpc⟩ | ⟨d, i, hpc⟩ | ⟨ms, hpc⟩ <;> simp [Sem.step, hpc, hpos] at hs <;> subst hs <;>
      exact ⟨_, rfl, by simp [Sem.done], by simp [Sem.done], by simp [Sem.done]⟩

example : ∃ s, Sem.Reach 1 0 1 s ∧ 0 < s.count ∧ s.pc 1 = .wait ∧ s.succ = 1 := by
  refine ⟨_, Sem.reach_runActs [(1, .call .wait), (1, .run 0), (2, .call .signal), (2, .run 0), (1, .call .wait)] (.init 0) rfl,
    ?_, ?_, ?_⟩ <;> decide

/-- `tryWait` never blocks: in ANY state its step is enabled and returns; it takes one unit exactly when the count is
    positive and reports false, consuming nothing, exactly when the count is zero. -/
theorem sem_trywait_never_blocks (s : Sem.St) (t : Tid) (hpc : s.pc t = .tryWait) :
    ∃ s', Sem.step s t (.run 0) = some s' ∧ s'.pc t = .idle ∧ s'.posts = s.posts ∧
      (0 < s.count → s'.ret t = some (.bool true) ∧ s'.count + 1 = s.count ∧ s'.succ = s.succ + 1) ∧
      (s.count = 0 → s'.ret t = some (.bool false) ∧ s'.count = 0 ∧ s'.succ = s.succ) := by
  by_cases hc : 0 < s.count
  · refine ⟨_, by simp [Sem.step, hpc, hc]; rfl, by simp [Sem.done], by simp [Sem.done], ?_, ?_⟩
    · intro _; refine ⟨by simp [Sem.done], ?_, by simp [Sem.done]⟩
      simp [Sem.done]; omega
    · intro h0; omega
  · refine ⟨_, by simp [Sem.step, hpc, hc]; rfl, by simp [Sem.done], by simp [Sem.done], ?_, ?_⟩
    · intro h0; omega
    · intro h0; exact ⟨by simp [Sem.done], by simp [Sem.done]; omega, by simp [Sem.done]⟩

/-- Accounting of every step a thread takes inside wait / tryWait / wait(timeout), the ENOSYS polling fallback included
    (reachable states, every alternative incl. EINTR, ETIMEDOUT and ENOSYS): a call consumes AT MOST ONE unit, and exactly when
    it returns true —
    * it returns true and has taken exactly one unit of a positive count; or
    * it returns false and has consumed nothing — `tryWait` only at count zero; the timed wait not before `call time +
      time-out` (with ETIMEDOUT only at count zero; after ENOSYS with a time-out ≤ 0 the fallback returns without looking at the
      count); the polling fallback only from its `usleep`, not before `call time + time-out`, never from its `sem_trywait`; or
    * it stays inside the call and has consumed nothing: the EINTR retry of the timed wait (same program point, same
      deadline), a move into / within the polling fallback (same deadline record), or — try-first variant — the failed
      `sem_trywait` fast path at count zero, after which the clock is read (deadline record: this moment, the requested ms).
    No step of a waiter changes the number of signals. -/
theorem sem_wait_step_accounting {c now e : Nat} {s : Sem.St} (h : Sem.Reach c now e s) (t : Tid) (alt : Nat) (s' : Sem.St)
    (hw : Sem.inCall (s.pc t) = true) (hs : Sem.step s t (.run alt) = some s') :
    s'.posts = s.posts ∧
    ((s'.pc t = .idle ∧ s'.ret t = some (.bool true) ∧ 0 < s.count ∧ s'.count + 1 = s.count ∧ s'.succ = s.succ + 1) ∨
     (s'.pc t = .idle ∧ s'.ret t = some (.bool false) ∧ s'.count = s.count ∧ s'.succ = s.succ ∧
        (s.pc t = .tryWait → s.count = 0) ∧
        (∀ d, s.pc t = .twait d → d.t0 + d.ms * 1000000 ≤ s.now ∧ (alt ≠ 3 → s.count = 0)) ∧
        (∀ d i, s.pc t ≠ .pollTry d i) ∧
        (∀ d i w, s.pc t = .pollSleep d i w → w ≤ s.now ∧ d.t0 + d.ms * 1000000 ≤ s.now)) ∨
     (s'.pc t = s.pc t ∧ (∃ d, s.pc t = .twait d) ∧ s'.count = s.count ∧ s'.succ = s.succ ∧ s'.eintr + 1 = s.eintr) ∨
     (Sem.polling (s'.pc t) = true ∧ Sem.Pc.dl (s'.pc t) = Sem.Pc.dl (s.pc t) ∧ s'.count = s.count ∧ s'.succ = s.succ ∧
        ((∃ d, s.pc t = .twait d) → alt = 3 ∧ s'.enosys + 1 = s.enosys)) ∨
     (∃ ms d, s.pc t = .twTry ms ∧ s'.pc t = .twait d ∧ d.ms = ms ∧ d.t0 = s.now ∧ s.count = 0 ∧ s'.count = s.count ∧ s'.succ = s.succ)) := by
  have hi := Sem.inv_reach h
  have hdl := hi.dlOk t
  have hpt := hi.pollTry t
  have hps := hi.pollSleep t
  have hst := Sem.poll_start_zero
  simp only [Sem.step] at hs
  cases hpc : s.pc t <;> simp only [hpc] at hs hw hdl hpt hps <;> simp [Sem.inCall, Sem.waiting, Sem.polling] at hw
  all_goals
    try simp only [Sem.done, Sem.goto] at hs
    (repeat' split at hs) <;> simp at hs <;> (try subst hs) <;>
      (refine ⟨by simp, ?_⟩; grind [upd, expired_iff, Sem.polling, Sem.Pc.dl, mkDeadline_ok])

example : ∃ s, Sem.Reach 0 0 1 s ∧ Sem.inCall (s.pc 1) = true ∧ (Sem.step s 1 (.run 1)).isSome = true := by
  refine ⟨_, Sem.reach_runActs [(1, .call (.twait 5))] (.init 0) rfl, rfl, rfl⟩

/-- The ENOSYS polling fallback of `Semaphore::wait(timeout)` never blocks and terminates.  In ANY state: its `sem_trywait`
    step is always enabled (returns true with one unit taken iff the count is positive, otherwise goes to sleep until
    `now + sleepUs` µs); its `usleep` step is enabled exactly when the clock has reached the wake-up time; and every step of a
    polling thread either returns or strictly decreases `pollFuel` (twice the milliseconds of the time-out not yet accounted
    for) — the loop runs at most ⌈timeout / stepMs⌉ iterations.  ASSUMED: `usleep` returns once its time has passed. -/
theorem sem_enosys_fallback_never_blocks_and_terminates (s : Sem.St) (t : Tid) :
    (∀ d i, s.pc t = .pollTry d i → ∃ s', Sem.step s t (.run 0) = some s' ∧
       (0 < s.count → s'.pc t = .idle ∧ s'.ret t = some (.bool true) ∧ s'.count + 1 = s.count) ∧
       (s.count = 0 → s'.pc t = .pollSleep d i (s.now + Sem.Poll.sleepUs * 1000) ∧ s'.count = 0)) ∧
    (∀ d i w, s.pc t = .pollSleep d i w → ((Sem.step s t (.run 0)).isSome = true ↔ w ≤ s.now)) ∧
    (∀ alt s', Sem.polling (s.pc t) = true → Sem.step s t (.run alt) = some s' →
       s'.pc t = .idle ∨ (Sem.polling (s'.pc t) = true ∧ Sem.pollFuel (s'.pc t) < Sem.pollFuel (s.pc t))) := by
  have hpos := Sem.poll_step_pos
  refine ⟨?_, ?_, ?_⟩
  · intro d i hpc
    by_cases hc : 0 < s.count
    · exact ⟨_, by simp [Sem.step, hpc, hc]; rfl, fun _ => ⟨by simp [Sem.done], by simp [Sem.done], by simp [Sem.done]; omega⟩,
        fun h0 => by omega⟩
    · exact ⟨_, by simp [Sem.step, hpc, hc]; rfl, fun h0 => by omega,
        fun _ => ⟨by simp [Sem.goto], by simp [Sem.goto]; omega⟩⟩
  · intro d i w hpc
    by_cases hw : w ≤ s.now <;> by_cases hi : i + Sem.Poll.stepMs < d.ms <;> simp [Sem.step, hpc, hw, hi]
  · intro alt s' hp hs
    simp only [Sem.step] at hs
    cases hpc : s.pc t <;> simp only [hpc] at hs hp <;> simp [Sem.polling] at hp
    all_goals
      simp only [Sem.done, Sem.goto] at hs
      (repeat' split at hs) <;> simp at hs <;> (try subst hs) <;> grind [upd, Sem.polling, Sem.pollFuel]

/-- non-vacuity: ENOSYS at a timed wait of 25 ms on an empty semaphore — the thread polls, sleeps (10 ms), polls again -/
example : ∃ s, Sem.Reach 0 0 0 s ∧ Sem.polling (s.pc 1) = true ∧ s.enosys = 0 ∧ s.now = 10000000 ∧
    ∃ d, s.pc 1 = .pollTry d 10 := by
  refine ⟨_, Sem.reach_runActs [(1, .call (.twait 25)), (1, .run 3), (1, .run 0), (1, .tick 10000000), (1, .run 0)] (.init 1) rfl,
    rfl, rfl, rfl, _, rfl⟩

/-! ## Signal -/

/-- A wait returns true only if the signal was set since its last reset: for every `true` return of wait() /
    wait(timeout) in the history of any reachable state, the most recent write of the flag before that return
    (or, if there is none, the constructor argument) is `true`, i.e. comes from set(). -/
theorem signal_true_only_if_set_since_reset {set0 : Bool} {now spur : Nat} {s : Signal.St}
    (h : Signal.Reach set0 now spur s) (pre post : List Signal.Ev) (t : Tid) (dl : Option Deadline) (at_ : Nat)
    (hh : s.hist = pre ++ .waitRet t true dl at_ :: post) : Signal.lastWrite set0 post = true := by
  have hg := (Signal.hinv_reach h).good
  rw [hh] at hg
  exact (Signal.good_suffix pre hg).1 rfl

/-- No waiter stays blocked while the signal remains set: in every reachable state in which the flag is set and
    some thread is blocked in the condition wait, a setter holds the mutex and is about to broadcast, and that
    broadcast is enabled. -/
theorem signal_no_waiter_stuck_while_set {set0 : Bool} {now spur : Nat} {s : Signal.St}
    (h : Signal.Reach set0 now spur s) (hf : s.flag = true) (u : Tid) (dl : Option Deadline)
    (hu : s.pc u = .wBlocked dl) :
    ∃ v, s.pc v = .setBcast ∧ (Signal.step s v (.run 0)).isSome = true := by
  obtain ⟨hne, hall⟩ := (Signal.inv_reach h).noStuck hf u dl hu
  cases hm : s.m with
  | none => exact absurd hm hne
  | some v =>
    have hv := hall v hm
    exact ⟨v, hv, by simp [Signal.step, hv]⟩

/-- set() releases all current waiters.  Library content (over every reachable state): when set() arrives at its
    broadcast it still holds the internal mutex and the flag it stored is still set, so no waiter can slip into the
    wait set between store and broadcast and no reset() can intervene; ASSUMED `pthread_cond_broadcast`: the step then
    moves every thread of the wait set to the re-acquisition of the mutex, none stays blocked; the flag is still set and
    the mutex still held afterwards, so the first released waiter to get the mutex finds the flag set
    (`signal_woken_waiter_returns_true_while_set`). -/
theorem signal_set_releases_all_current_waiters {set0 : Bool} {now spur : Nat} {s : Signal.St}
    (h : Signal.Reach set0 now spur s) (t : Tid) (ht : s.pc t = .setBcast) :
    s.m = some t ∧ s.flag = true ∧
    ∃ s', Signal.step s t (.run 0) = some s' ∧
      (∀ u dl, s.pc u = .wBlocked dl → s'.pc u = .wRelock dl false) ∧
      (∀ u dl, s'.pc u ≠ .wBlocked dl) ∧ s'.flag = true ∧ s'.m = some t := by
  have hi := Signal.inv_reach h
  refine ⟨hi.own t (by rw [ht]; rfl), hi.bcastTrue t ht, ?_⟩
  cases hs : Signal.step s t (.run 0) with
  | none => simp [Signal.step, ht] at hs
  | some s' => ?_
  simp [Signal.step, ht] at hs; subst hs
  refine ⟨_, rfl, ?_, ?_, hi.bcastTrue t ht, hi.own t (by rw [ht]; rfl)⟩
  · intro u dl hu
    have hut : u ≠ t := by intro e; subst e; simp [ht] at hu
    simp [Signal.goto, upd, hut, hu]
  · intro u dl
    by_cases hut : u = t
    · subst hut; simp [Signal.goto, upd]
    · simp only [Signal.goto, upd, hut, if_false]
      cases hp : s.pc u <;> simp

/-- a released waiter that gets the mutex while the flag is set leaves wait() / wait(timeout) with `true`
    (one step of the wait loop: re-acquire, `if(signaled)`; holds in every state) -/
theorem signal_woken_waiter_returns_true_while_set (s1 : Signal.St) (u : Tid) (dl : Option Deadline)
    (hu : s1.pc u = .wRelock dl false) (hf : s1.flag = true) (hm : s1.m = none) :
    ∃ s2, Signal.step s1 u (.run 0) = some s2 ∧ s2.pc u = .wUnlock true dl ∧ s2.m = some u := by
  cases hs : Signal.step s1 u (.run 0) with
  | none => simp [Signal.step, hu, hm] at hs
  | some s2 =>
    simp [Signal.step, hu, hm, Signal.loopHead, hf] at hs; subst hs
    exact ⟨_, rfl, by simp [Signal.goto, upd], by simp [Signal.goto]⟩

/-- The internal mutex of a Signal is never held for ever: in every reachable state its owner sits at a program
    point whose next step is enabled (so a released waiter eventually gets the mutex under any fair schedule). -/
theorem signal_mutex_holder_can_step {set0 : Bool} {now spur : Nat} {s : Signal.St}
    (h : Signal.Reach set0 now spur s) (v : Tid) (hv : s.m = some v) :
    (Signal.step s v (.run 0)).isSome = true := by
  have hh := (Signal.inv_reach h).ownConv v hv
  cases hp : s.pc v <;> simp [hp, Signal.holds] at hh <;> simp [Signal.step, hp, hv]
  rename_i dl
  cases dl with
  | none => simp
  | some d => by_cases hd : d.ts.valid = true <;> simp [hd]

/-- After set(), a FUTURE waiter returns true until reset(): a thread that calls wait() / wait(timeout) while the flag is
    set gets through without entering the condition wait — its two steps (lock + test, unlock) are enabled as soon as the
    internal mutex is free, return true and leave the flag set for the next waiter.  Any state.
    (`signal_every_waiter_eventually_returns` is the fair-run version for present and future waiters.) -/
theorem signal_future_waiter_returns_true_while_set (s : Signal.St) (u : Tid) (dl : Option Deadline)
    (hu : s.pc u = .wLock dl) (hf : s.flag = true) (hm : s.m = none) :
    ∃ s1 s2 dl', Signal.step s u (.run 0) = some s1 ∧ s1.pc u = .wUnlock true dl' ∧ s1.m = some u ∧ s1.flag = true ∧
      Signal.step s1 u (.run 0) = some s2 ∧ s2.pc u = .idle ∧ s2.ret u = some (.bool true) ∧ s2.flag = true ∧ s2.m = none := by
  refine ⟨_, _, dl, by simp [Signal.step, hu, hm, hf]; rfl, by simp [Signal.goto], by simp [Signal.goto],
    by simp [Signal.goto, hf], by simp [Signal.step, Signal.goto]; rfl, by simp [Signal.done], by simp [Signal.done],
    by simp [Signal.done, hf], by simp [Signal.done]⟩


/-- The variants of `Signal::set()` / `Signal::wait(timeout)` the contract leaves open (`St.setSkips`: no store and no broadcast
    when the flag is already set; `St.lazyDl`: the clock is read after the lock, only when the call has to block) are part of
    every reachable-state theorem above (`Reach.initP`).  Why the skip loses no wake-up: in every reachable state in which the
    flag is set and the internal mutex is free — what a skipping `set()` finds when it gets the lock — NO thread is blocked in
    the condition wait; and the skipping step itself changes neither flag nor history nor anybody else's program counter. -/
theorem signal_set_may_skip_the_broadcast_when_already_set {set0 : Bool} {now spur : Nat} {s : Signal.St}
    (h : Signal.Reach set0 now spur s) (hf : s.flag = true) (hm : s.m = none) :
    (∀ u dl, s.pc u ≠ .wBlocked dl) ∧
    (∀ t s', s.setSkips = true → s.pc t = .setLock → Signal.step s t (.run 0) = some s' →
      s'.pc t = .setUnlock ∧ s'.m = some t ∧ s'.flag = true ∧ s'.hist = s.hist ∧ ∀ u, u ≠ t → s'.pc u = s.pc u) := by
  refine ⟨?_, ?_⟩
  · intro u dl hu
    exact ((Signal.inv_reach h).noStuck hf u dl hu).1 hm
  · intro t s' hsk hpc hs
    simp [Signal.step, hpc, hm, hsk, hf] at hs
    subst hs
    exact ⟨by simp [Signal.goto], by simp [Signal.goto], by simp [Signal.goto, hf], by simp [Signal.goto],
      fun u hu => by simp [Signal.goto, upd, hu]⟩

/-- non-vacuity: the skipping, lazy instance — set(), then a second set() takes the skip path; a wait(5 ms) after a tick
    computes its deadline from the clock at its lock (t0 = 7), not at the call (0) … except that the flag is set, so here it
    does not compute one at all and returns true -/
example : ∃ s, Signal.Reach false 0 0 s ∧ s.setSkips = true ∧ s.lazyDl = true ∧ s.pc 2 = .setUnlock ∧ s.flag = true ∧
    s.hist = [.write true] := by
  refine ⟨_, Signal.reach_runActs [(1, .call .set), (1, .run 0), (1, .run 0), (1, .run 0), (2, .call .set), (2, .run 0)]
    (.initP true true) rfl, rfl, rfl, rfl, rfl, rfl⟩

example : ∃ s d, Signal.Reach false 0 0 s ∧ s.lazyDl = true ∧ s.pc 1 = .wEnter (some d) ∧ d.t0 = 7 ∧ d.ms = 5 := by
  refine ⟨_, _, Signal.reach_runActs [(1, .call (.twait 5)), (1, .tick 7), (1, .run 0)] (.initP false true) rfl, rfl, rfl, rfl, rfl⟩

/-- the try-first variant of `Semaphore::wait(timeout)`: the fast path fails at count zero and the deadline is computed then -/
example : ∃ s d, Sem.Reach 0 0 0 s ∧ s.tryFirst = true ∧ s.pc 1 = .twait d ∧ d.t0 = 3 ∧ d.ms = 5 := by
  refine ⟨_, _, Sem.reach_runActs [(1, .call (.twait 5)), (1, .tick 3), (1, .run 0)] (.initP 0 true) rfl, rfl, rfl, rfl, rfl⟩

example : ∃ s, Signal.Reach false 0 1 s ∧ s.flag = true ∧ s.pc 1 = .wBlocked none ∧ s.pc 2 = .setBcast := by
  refine ⟨_, Signal.reach_runActs [(1, .call .wait), (1, .run 0), (1, .run 0), (2, .call .set), (2, .run 0)] .init rfl, ?_, ?_, ?_⟩ <;> rfl

example : ∃ s t dl at_ post, Signal.Reach false 0 1 s ∧ s.hist = [] ++ .waitRet t true dl at_ :: post := by
  refine ⟨_, 1, none, 0, _, Signal.reach_runActs [(2, .call .set), (2, .run 0), (2, .run 0), (2, .run 0), (1, .call .wait), (1, .run 0), (1, .run 0)] .init rfl, rfl⟩

/-! ## Monitor -/

/-- Successful Monitor waits never outnumber set() calls (`succ` counts wait()/wait(timeout) returns with `true`,
    `sets` the flag stores of set()). -/
theorem monitor_waits_le_sets {now spur : Nat} {s : Monitor.St} (h : Monitor.Reach now spur s) :
    s.succ ≤ s.sets := by
  have := (Monitor.inv_reach h).counts
  omega

/-- A set() issued after a waiter has taken the monitor releases a waiter.  `wBlocked dl true` says: the thread
    is in the wait set and a set() has stored the flag since it joined.  As long as the flag has not been
    consumed, a wake-up is then under way in every reachable state: a setter is about to unlock / signal, or a
    waiter that left the wait set (not by time-out) is about to re-check the flag; the signal step wakes a member
    of the (non-empty) wait set; and a woken waiter that gets the mutex while the flag is set consumes it and
    returns true. -/
theorem monitor_set_after_take_releases_a_waiter {now spur : Nat} {s : Monitor.St} (h : Monitor.Reach now spur s)
    (hf : s.flag = true) (u : Tid) (dl : Option Deadline) (hu : s.pc u = .wBlocked dl true) :
    (∃ v, (s.pc v = .setUnlock ∧ s.sigFirst = false) ∨ s.pc v = .setSignal ∨ ∃ d, s.pc v = .wRelock d false) ∧
    (∀ v, s.pc v = .setSignal → ∃ w s', Monitor.step s v (.run 0) = some s' ∧ Monitor.isBlocked (s.pc w) = true ∧
        ∃ d, s'.pc w = .wRelock d false) ∧
    (∀ v d, s.pc v = .wRelock d false → s.m = none →
        ∃ s', Monitor.step s v (.run 0) = some s' ∧ s'.ret v = some (.bool true) ∧ s'.flag = false ∧ s'.succ = s.succ + 1) := by
  have hi := Monitor.inv_reach h
  refine ⟨?_, ?_, ?_⟩
  · obtain ⟨v, hv⟩ := Monitor.noLost_reach h hf u dl hu
    refine ⟨v, ?_⟩
    cases hp : s.pc v <;> simp [hp, Monitor.pendingWake] at hv ⊢
    · rename_i d b
      cases b <;> simp at hv ⊢
    · exact hv
  · intro v hv
    have hmem : u ∈ s.waiters := (hi.wf u).2 (by simp [hu, Monitor.isBlocked])
    cases hw : s.waiters with
    | nil => simp [hw] at hmem
    | cons w l =>
      have hwb : Monitor.isBlocked (s.pc w) = true := (hi.wf w).1 (by simp [hw])
      have hwv : w ≠ v := by intro e; subst e; simp [hv, Monitor.isBlocked] at hwb
      cases hs : Monitor.step s v (.run 0) with
      | none => simp [Monitor.step, hv, hw] at hs
      | some s' =>
        simp [Monitor.step, hv, hw] at hs; subst hs
        refine ⟨w, _, rfl, hwb, ?_⟩
        cases hp : s.pc w <;> simp [hp, Monitor.isBlocked] at hwb
        cases hsf : s.sigFirst <;> simp [Monitor.afterSignal, hsf, Monitor.done, Monitor.goto, upd, hwv, Monitor.wake]
  · intro v d hv hm
    cases hs : Monitor.step s v (.run 0) with
    | none => simp [Monitor.step, hv, hm, hf] at hs
    | some s' =>
      simp [Monitor.step, hv, hm, hf] at hs; subst hs
      exact ⟨_, rfl, by simp [Monitor.done], by simp [Monitor.done], by simp [Monitor.done]⟩

example : ∃ s, Monitor.Reach 0 0 s ∧ s.flag = true ∧ s.pc 1 = .wBlocked none true ∧ s.pc 2 = .setUnlock := by
  refine ⟨_, Monitor.reach_runActs [(1, .call .lock), (1, .run 0), (1, .call .wait), (1, .run 0), (2, .call .set), (2, .run 0)] (.init false) rfl,
    ?_, ?_, ?_⟩ <;> rfl

/-- the same in the signal-first order of `set()` (every Monitor theorem quantifies over both orders: `Reach.init sigFirst`):
    the setter signals while it still holds the monitor's mutex, then unlocks -/
example : ∃ s s', Monitor.Reach 0 0 s ∧ s.sigFirst = true ∧ s.flag = true ∧ s.pc 1 = .wBlocked none true ∧ s.pc 2 = .setSignal ∧
    s.m = some 2 ∧ Monitor.step s 2 (.run 0) = some s' ∧ s'.pc 1 = .wRelock none false ∧ s'.pc 2 = .setUnlock ∧ s'.m = some 2 := by
  refine ⟨_, _, Monitor.reach_runActs [(1, .call .lock), (1, .run 0), (1, .call .wait), (1, .run 0), (2, .call .set), (2, .run 0)]
    (.init true) rfl, ?_, ?_, ?_, ?_, ?_, rfl, ?_, ?_, ?_⟩ <;> rfl

/-- A set() is not lost and is consumed by exactly one waiter.  For EVERY step of the system (any state, any thread, any
    action): either no wait succeeds and a pending flag stays pending — in particular a set() issued before anybody waits
    is kept until a waiter looks; or exactly one wait returns true, and that very step found the flag set and cleared it
    (so a second waiter cannot succeed on the same set(): with `monitor_waits_le_sets`, `succ + [flag] ≤ sets`). -/
theorem monitor_set_consumed_by_exactly_one_true_return (s s' : Monitor.St) (t : Tid) (a : Act Monitor.Op)
    (hs : Monitor.step s t a = some s') :
    (s'.succ = s.succ ∧ (s.flag = true → s'.flag = true)) ∨
    (s'.succ = s.succ + 1 ∧ s.flag = true ∧ s'.flag = false ∧ s'.sets = s.sets ∧ s'.pc t = .idle ∧
      s'.ret t = some (.bool true) ∧ ∃ dl, s.pc t = .wRelock dl false) := by
  cases a with
  | tick q => simp [Monitor.step] at hs; subst hs; left; simp
  | call op =>
    simp only [Monitor.step] at hs
    split at hs
    · simp at hs; subst hs; left; simp
    · simp at hs
  | run alt =>
    simp only [Monitor.step] at hs
    cases hpc : s.pc t <;> simp only [hpc] at hs
    all_goals
      try simp only [Monitor.afterSignal, Monitor.goto, Monitor.done] at hs
      (repeat' split at hs) <;> simp at hs <;> (try subst hs) <;> grind [upd]

/-- `wait(timeout)` returning false ⇒ the deadline has passed and this call did not consume the flag: in every reachable
    state, a step of a thread inside wait()/wait(timeout) that returns false is the re-acquisition after ETIMEDOUT of a
    timed wait whose `call time + time-out` is not after the present, and it leaves flag, success and set() counters
    untouched (a pending set() stays pending for the next waiter). -/
theorem monitor_false_return_after_deadline_keeps_flag {now spur : Nat} {s : Monitor.St} (h : Monitor.Reach now spur s)
    (t : Tid) (alt : Nat) (s' : Monitor.St)
    (hw : (∃ dl, s.pc t = .wEnter dl) ∨ (∃ dl sw, s.pc t = .wBlocked dl sw) ∨ (∃ dl b, s.pc t = .wRelock dl b))
    (hs : Monitor.step s t (.run alt) = some s') (hidle : s'.pc t = .idle) (hret : s'.ret t = some (.bool false)) :
    s'.flag = s.flag ∧ s'.succ = s.succ ∧ s'.sets = s.sets ∧
    ∃ d, s.pc t = .wRelock (some d) true ∧ d.t0 + d.ms * 1000000 ≤ s.now := by
  have hi := Monitor.inv_reach h
  have hdl := hi.dlOk t
  have hto := hi.relockTO t
  simp only [Monitor.step] at hs
  rcases hw with ⟨dl, hpc⟩ | ⟨dl, sw, hpc⟩ | ⟨dl, b, hpc⟩
  · simp only [hpc] at hs hdl
    simp only [Monitor.goto, Monitor.done] at hs
    (repeat' split at hs) <;> simp at hs <;> (try subst hs) <;> grind [upd, Monitor.Pc.dl]
  · simp only [hpc] at hs
    simp only [Monitor.goto, Monitor.done] at hs
    (repeat' split at hs) <;> simp at hs <;> (try subst hs) <;> grind [upd]
  · cases b with
    | false =>
      simp only [hpc] at hs
      simp only [Monitor.goto, Monitor.done] at hs
      (repeat' split at hs) <;> simp at hs <;> (try subst hs) <;> grind [upd]
    | true =>
      obtain ⟨hne, hall⟩ := hto dl hpc
      cases dl with
      | none => exact absurd rfl hne
      | some d =>
        have h1 := (hdl d (by rw [hpc]; rfl)).1
        have h2 := hall d rfl
        simp only [hpc] at hs
        simp only [Monitor.goto, Monitor.done] at hs
        (repeat' split at hs) <;> simp at hs <;> (try subst hs) <;>
          first | exact ⟨rfl, rfl, rfl, d, hpc, by omega⟩ | (exfalso; grind)


example : ∃ s, Monitor.Reach 999999999 0 s ∧ s.flag = true ∧ (∃ d, s.pc 1 = .wRelock (some d) true) ∧ s.m = none := by
  refine ⟨_, Monitor.reach_runActs [(1, .call .lock), (1, .run 0), (1, .call (.twait 1)), (1, .run 0), (1, .tick 1000000),
    (1, .run 1), (2, .call .set), (2, .run 0), (2, .run 0), (2, .run 0)] (.init false) rfl, rfl, ⟨_, rfl⟩, rfl⟩

/-- Conservation for the Monitor (every reachable state, both orders of set()): the successful waits plus the pending flag
    are exactly the set() calls that RAISED the flag (found it clear), and those are at most all set() calls.  A set() on
    a flag that is already raised adds nothing — the flag is binary, see the next theorem. -/
theorem monitor_conservation {now spur : Nat} {s : Monitor.St} (h : Monitor.Reach now spur s) :
    s.succ + (if s.flag then 1 else 0) = s.raised ∧ s.raised ≤ s.sets :=
  (Monitor.inv_reach h).cons

/-- "n set() calls after n waiters have taken the monitor release n waiters" is NOT a contract of Monitor and is false:
    the flag is binary.  Two waiters are blocked, two set() calls complete (each wakes one of them), the first woken waiter
    consumes the flag and returns true, the second finds it clear and goes back to sleep: one success for two set() calls,
    everybody else idle, the monitor free — a reachable state.  What holds is `monitor_conservation` (per RAISING set())
    and, per set() that leaves the flag raised with a waiter blocked, `monitor_set_eventually_releases_a_waiter`. -/
theorem monitor_two_sets_may_release_only_one_waiter :
    ∃ s, Monitor.Reach 0 0 s ∧ s.sets = 2 ∧ s.succ = 1 ∧ s.flag = false ∧ s.m = none ∧ s.waiters = [2] ∧
      s.pc 2 = .wBlocked none false ∧ s.pc 1 = .idle ∧ s.pc 3 = .idle ∧ s.pc 4 = .idle := by
  refine ⟨_, Monitor.reach_runActs
    [(1, .call .lock), (1, .run 0), (1, .call .wait), (1, .run 0),
     (2, .call .lock), (2, .run 0), (2, .call .wait), (2, .run 0),
     (3, .call .set), (3, .run 0), (3, .run 0), (3, .run 0),
     (4, .call .set), (4, .run 0), (4, .run 0), (4, .run 0),
     (1, .run 0), (1, .call .unlock), (1, .run 0),
     (2, .run 0), (2, .run 0)] (.init false) rfl, ?_, ?_, ?_, ?_, ?_, ?_, ?_, ?_, ?_⟩ <;> rfl


/-- WHAT-IF (not the assumed semantics): if the POSIX layer let a timed-out waiter consume a concurrent signal,
    `Monitor::wait(timeout)` — which returns false on ETIMEDOUT without looking at the flag — would lose the wake-up:
    after the schedule `lossySchedule` thread 1 is blocked in wait() although a set() stored the flag after it had
    joined the wait set, the flag is still set, the monitor is free, the setter (3) and the timed waiter (2, whose
    wait returned false: one entry in `flog`) are idle, and nobody is left to wake thread 1.  Under the assumed semantics this state is unreachable
    (`monitor_set_after_take_releases_a_waiter`). -/
theorem whatif_signal_consumed_by_timed_out_waiter_loses_a_wakeup :
    ∃ s, Monitor.runLossy (Monitor.init 0 0) Monitor.lossySchedule = some s ∧
      s.flag = true ∧ s.pc 1 = .wBlocked none true ∧ s.waiters = [1] ∧ s.m = none ∧
      s.pc 2 = .idle ∧ s.flog.length = 1 ∧ s.pc 3 = .idle ∧ s.succ = 0 ∧ s.sets = 1 := by
  refine ⟨_, rfl, ?_, ?_, ?_, ?_, ?_, ?_, ?_, ?_, ?_⟩ <;> rfl

/-! ## timed waits -/

/-- The deadline handed to pthread_cond_timedwait / sem_timedwait by the three timed waits (Signal.cpp:80-82,
    Monitor.cpp:90-92, Semaphore.cpp:63-65) is exactly `ts + timeout·10⁶ ns`, normalised. -/
theorem deadline_exact (ts : Timespec) (ms : Nat) :
    (addTimeout ts ms).toNs = ts.toNs + ms * 1000000 ∧ (addTimeout ts ms).nsec < 1000000000 :=
  addTimeout_exact ts ms

/-- Signal::wait(timeout) returns false only after its time-out has expired (and the untimed wait never returns
    false): every `false` return in the history of a reachable state belongs to a timed wait, and the virtual
    time of the return is at least the time of the call (`d.t0`) plus the requested milliseconds (`d.ms`). -/
theorem timed_false_only_after_deadline_signal {set0 : Bool} {now spur : Nat} {s : Signal.St}
    (h : Signal.Reach set0 now spur s) (pre post : List Signal.Ev) (t : Tid) (dl : Option Deadline) (at_ : Nat)
    (hh : s.hist = pre ++ .waitRet t false dl at_ :: post) :
    ∃ d, dl = some d ∧ d.t0 + d.ms * 1000000 ≤ at_ := by
  have hg := (Signal.hinv_reach h).good
  rw [hh] at hg
  obtain ⟨hne, hall⟩ := (Signal.good_suffix pre hg).2 rfl
  cases dl with
  | none => exact absurd rfl hne
  | some d => exact ⟨d, rfl, hall d rfl⟩

example : ∃ s t dl at_ post, Signal.Reach false 999999999 0 s ∧ s.hist = [] ++ .waitRet t false dl at_ :: post := by
  refine ⟨_, 1, _, _, _, Signal.reach_runActs [(1, .call (.twait 1)), (1, .run 0), (1, .run 0), (1, .tick 1000000), (1, .run 1),
    (1, .run 0), (1, .run 0)] .init rfl, rfl⟩

/-- Monitor::wait(timeout) returns false only after its time-out has expired; the untimed wait never returns false. -/
theorem timed_false_only_after_deadline_monitor {now spur : Nat} {s : Monitor.St} (h : Monitor.Reach now spur s)
    (e : Monitor.FalseRet) (he : e ∈ s.flog) : ∃ d, e.dl = some d ∧ d.t0 + d.ms * 1000000 ≤ e.at_ := by
  obtain ⟨hne, hall⟩ := Monitor.good_mem (Monitor.inv_reach h).good e he
  cases hd : e.dl with
  | none => exact absurd hd hne
  | some d => exact ⟨d, rfl, hall d hd⟩

/-- Semaphore::wait(timeout) returns false only after its time-out has expired (EINTR makes it retry with the same
    absolute deadline; ETIMEDOUT/EINVAL make it return false, and EINVAL cannot occur by `deadline_exact`; after ENOSYS — for
    every ENOSYS budget — the polling fallback returns false only when `timeout ≤ 0` or after ⌈timeout/stepMs⌉ sleeps of
    `sleepUs` µs each, which cover the time-out because `stepMs ms ≤ sleepUs µs` for the constants extracted from the current
    Semaphore.cpp: `Sem.poll_sleep_covers_step`, `Sem.poll_start_zero`).  Every false return of the timed wait is logged. -/
theorem timed_false_only_after_deadline_semaphore {c now e0 : Nat} {s : Sem.St} (h : Sem.Reach c now e0 s)
    (e : Sem.FalseRet) (he : e ∈ s.flog) : e.d.t0 + e.d.ms * 1000000 ≤ e.at_ :=
  Sem.good_mem (Sem.inv_reach h).good e he

/-- the ghost fields of a deadline record are what they are said to be: call time and requested time-out -/
theorem deadline_record (now ms : Nat) : (mkDeadline now ms).t0 = now ∧ (mkDeadline now ms).ms = ms ∧
    (mkDeadline now ms).ts.toNs = now + ms * 1000000 ∧ (mkDeadline now ms).ts.valid = true := by
  have := mkDeadline_ok now ms
  exact ⟨this.2.2.1, this.2.2.2, this.1, this.2.1⟩

example : ∃ s e, Sem.Reach 0 999999999 0 s ∧ e ∈ s.flog ∧ e.d.ms = 1500 := by
  refine ⟨_, _, Sem.reach_runActs [(1, .call (.twait 1500)), (1, .tick 1500000000), (1, .run 2)] (.init 0) rfl, List.mem_cons_self, rfl⟩

/-- a false return of the ENOSYS polling fallback in the log: 15 ms time-out, two sleeps of 10 ms -/
example : ∃ s e, Sem.Reach 0 999999999 0 s ∧ e ∈ s.flog ∧ e.d.ms = 15 ∧ e.at_ = e.d.t0 + 20000000 := by
  refine ⟨_, _, Sem.reach_runActs [(1, .call (.twait 15)), (1, .run 3), (1, .run 0), (1, .tick 10000000), (1, .run 0), (1, .run 0),
    (1, .tick 10000000), (1, .run 0)] (.init 1) rfl, List.mem_cons_self, rfl, rfl⟩

example : ∃ s e, Monitor.Reach 999999999 0 s ∧ e ∈ s.flog := by
  refine ⟨_, _, Monitor.reach_runActs [(1, .call .lock), (1, .run 0), (1, .call (.twait 1)), (1, .run 0), (1, .tick 1000000), (1, .run 1),
    (1, .run 0)] (.init false) rfl, List.mem_cons_self⟩

/-! ## Thread -/

/-- a finished thread's result never changes (thread ids are not reused) -/
theorem Thr.finished_stable {val : Nat → Nat} {s s' : Thr.St} {j u : Tid} {a : Thr.Act} {v : Nat}
    (hv : s.status j = .finished v) (hs : Thr.step val s u a = some s') : s'.status j = .finished v := by
  cases a with
  | begin_ =>
    simp only [Thr.step] at hs
    split at hs <;> simp at hs <;> subst hs <;> grind [upd]
  | exit =>
    simp only [Thr.step] at hs
    split at hs
    · split at hs <;> simp at hs
      subst hs; grind [upd]
    · simp at hs
  | api a =>
    cases a with
    | tick q => simp [Thr.step] at hs; subst hs; exact hv
    | call op =>
      simp only [Thr.step] at hs
      split at hs
      · cases op <;> (simp only [] at hs; split at hs <;> simp [Thr.done] at hs <;> subst hs <;> exact hv)
      · simp at hs
    | run alt =>
      simp only [Thr.step] at hs
      cases hp : s.pc u <;> simp only [hp] at hs
      all_goals
        try simp only [Thr.done] at hs
        (repeat' split at hs) <;> simp at hs <;> (try subst hs) <;> grind [upd]

/-- Thread::join returns the thread function's result after it has finished.
    ASSUMED (`pthread_join` of Posix.lean, not library content): the join is enabled only once the target has finished and
    yields the value its function returned; a finished thread's result never changes (`Thr.finished_stable`).
    LIBRARY content, over every reachable state (any schedule, any number of threads and Thread objects, pthread_create
    failing up to `cfail` times, both overloads of start): an attached Thread object (`thread != 0`) always names a thread
    that was really created; the value handed through by `join()` is `val k` for the body `k` that the successful
    `start()` of this object handed over (`started j`; for the member-function overload: the functor that was stored in the
    object when the thread was created — it cannot have been overwritten since, `thread_start_refused_while_attached`);
    `join()` detaches the object and returns to the caller. -/
theorem join_returns_result {val : Nat → Nat} {cfail : Nat} {s : Thr.St} (h : Thr.Reach val cfail s) (t j : Tid)
    (hpc : s.pc t = .join j) :
    (s.handle j = true → s.status j ≠ .none) ∧
    (∀ alt s', Thr.step val s t (.api (.run alt)) = some s' →
       ∃ k, s.started j = some k ∧ s.status j = .finished (val k) ∧ s'.ret t = some (.num (val k)) ∧ s'.pc t = .idle ∧
         s'.handle j = false ∧ Thr.Reach val cfail s') ∧
    (∀ v, s.status j = .finished v → ∃ s', Thr.step val s t (.api (.run 0)) = some s') := by
  have hi := Thr.inv_reach h
  refine ⟨hi.attached j, ?_, ?_⟩
  · intro alt s' hs
    have hr : Thr.Reach val cfail s' := .step h hs
    simp only [Thr.step, hpc] at hs
    split at hs
    · simp at hs
    · cases hst : s.status j <;> simp [hst] at hs
      subst hs
      rename_i v
      obtain ⟨k, hk, rfl⟩ := hi.finished j v hst
      exact ⟨k, hk, rfl, by simp [Thr.done], by simp [Thr.done], by simp [Thr.done], hr⟩
  · intro v hv
    cases hs : Thr.step val s t (.api (.run 0)) with
    | none => simp [Thr.step, hpc, hv] at hs
    | some s' => exact ⟨_, rfl⟩

/-- … exactly once: the join has cleared the handle; from then on (any later state, any schedule) the object stays
    detached, and a further `join()` returns 0 at once without a `pthread_join` and changes nothing. -/
theorem thread_join_exactly_once {val : Nat → Nat} {cfail : Nat} {s : Thr.St} (h : Thr.Reach val cfail s) (j : Tid) (v : Nat)
    (hf : s.status j = .finished v) (hd : s.handle j = false) :
    (∀ u a s', Thr.step val s u a = some s' → s'.handle j = false ∧ s'.status j = .finished v) ∧
    (∀ t s', Thr.step val s t (.api (.call (.join j))) = some s' →
       s'.ret t = some (.num 0) ∧ s'.pc t = .idle ∧ s'.handle = s.handle ∧ s'.status = s.status ∧ s'.func = s.func) := by
  refine ⟨?_, ?_⟩
  · intro u a s' hs
    refine ⟨?_, Thr.finished_stable hf hs⟩
    cases a with
    | begin_ =>
      simp only [Thr.step] at hs
      split at hs <;> simp at hs <;> subst hs <;> exact hd
    | exit =>
      simp only [Thr.step] at hs
      split at hs
      · split at hs <;> simp at hs
        subst hs; exact hd
      · simp at hs
    | api a =>
      cases a with
      | tick q => simp [Thr.step] at hs; subst hs; exact hd
      | call op =>
        simp only [Thr.step] at hs
        split at hs
        · cases op <;> (simp only [] at hs; split at hs <;> simp [Thr.done] at hs <;> subst hs <;> exact hd)
        · simp at hs
      | run alt =>
        simp only [Thr.step] at hs
        cases hp : s.pc u <;> simp only [hp] at hs
        all_goals
          try simp only [Thr.done] at hs
          (repeat' split at hs) <;> simp at hs <;> (try subst hs) <;> grind [upd]
  · intro t s' hs
    simp only [Thr.step] at hs
    split at hs
    · simp [hd, Thr.done] at hs; subst hs
      exact ⟨by simp, by simp, rfl, rfl, rfl⟩
    · simp at hs

/-- A second `start()` — either overload — on a Thread object that still holds a thread is refused and changes nothing:
    it returns false at once, and handle, thread table and in particular the STORED FUNCTOR of the member-function
    overload stay as they are (the running thread may not have read it yet; this is the order repaired by
    fixes/sync/0002).  Any state. -/
theorem thread_start_refused_while_attached {val : Nat → Nat} {s s' : Thr.St} (t j : Tid) (k : Nat) (ha : s.handle j = true)
    (hs : Thr.step val s t (.api (.call (.start j k))) = some s' ∨ Thr.step val s t (.api (.call (.mstart j k))) = some s') :
    s'.ret t = some (.bool false) ∧ s'.pc t = .idle ∧ s'.func = s.func ∧ s'.handle = s.handle ∧ s'.status = s.status ∧
      s'.started = s.started := by
  rcases hs with hs | hs <;>
  · simp only [Thr.step] at hs
    split at hs
    · simp [ha, Thr.done] at hs; subst hs
      exact ⟨by simp, by simp, rfl, rfl, rfl, rfl⟩
    · simp at hs

/-- The thread of a Thread object executes the function its successful `start()` handed over, for both overloads, in
    every reachable state: a running thread `j` executes body `started j`; a thread created by the member-function
    overload that has not begun yet will read `func j`, and that still is `started j`.  And what `started j` is: a
    successful pthread_create records the body of `start(proc, param)` resp. the functor stored in the object; with no
    other thread interfering between the two steps of `start(obj, &X::f)` that is the `k` of the call. -/
theorem thread_runs_started_function {val : Nat → Nat} {cfail : Nat} {s : Thr.St} (h : Thr.Reach val cfail s) (j : Tid) :
    (∀ k, s.status j = .running k → s.started j = some k) ∧
    (s.status j = .created none → s.started j = some (s.func j) ∧ s.handle j = true) ∧
    (∀ k, s.status j = .created (some k) → s.started j = some k ∧ s.handle j = true) ∧
    (∀ t b s', s.pc t = .create j b → Thr.step val s t (.api (.run 0)) = some s' →
       s'.started j = some (b.getD (s.func j)) ∧ s'.ret t = some (.bool true) ∧ s'.handle j = true ∧ s'.status j = .created b) ∧
    (∀ t k s1 s2, Thr.step val s t (.api (.call (.mstart j k))) = some s1 → s.handle j = false →
       Thr.step val s1 t (.api (.run 0)) = some s2 → s2.started j = some k ∧ s2.ret t = some (.bool true)) := by
  have hi := Thr.inv_reach h
  refine ⟨hi.running j, fun hc => ⟨hi.viaFunc j hc, hi.createdAttached j _ hc⟩,
    fun k hc => ⟨hi.direct j k hc, hi.createdAttached j _ hc⟩, ?_, ?_⟩
  · intro t b s' hpc hs
    simp only [Thr.step, hpc] at hs
    simp at hs
    obtain ⟨hn, rfl⟩ := hs
    exact ⟨by simp [Thr.done], by simp [Thr.done], by simp [Thr.done], by simp [Thr.done]⟩
  · intro t k s1 s2 h1 hd h2
    simp only [Thr.step] at h1
    split at h1
    · simp [hd] at h1; subst h1
      simp only [Thr.step, upd_same] at h2
      simp at h2
      obtain ⟨hn, rfl⟩ := h2
      exact ⟨by simp [Thr.done], by simp [Thr.done]⟩
    · simp at h1

/-- Thread::~Thread() of an object that still holds a thread waits for that thread to finish (the join inside the
    destructor; the waiting itself is the ASSUMED pthread_join), and Thread::start reports a failing pthread_create as
    `false` without attaching a thread (library content: handle, thread table unchanged).  Reachable states. -/
theorem thread_dtor_waits_and_failed_start_is_clean {val : Nat → Nat} {cfail : Nat} {s : Thr.St} (h : Thr.Reach val cfail s)
    (t j : Tid) :
    (s.handle j = true → s.status j ≠ .none) ∧
    (s.pc t = .dtor j → ∀ alt s', Thr.step val s t (.api (.run alt)) = some s' →
       (∃ v, s.status j = .finished v) ∧ s'.pc t = .idle ∧ s'.handle j = false) ∧
    (∀ b, s.pc t = .create j b → ∀ s', Thr.step val s t (.api (.run 1)) = some s' →
       s'.ret t = some (.bool false) ∧ s'.handle = s.handle ∧ s'.status = s.status ∧ s'.cfail + 1 = s.cfail) := by
  refine ⟨(Thr.inv_reach h).attached j, ?_, ?_⟩
  · intro hpc alt s' hs
    simp only [Thr.step, hpc] at hs
    split at hs
    · simp at hs
    · cases hst : s.status j <;> simp [hst] at hs
      subst hs
      exact ⟨⟨_, rfl⟩, by simp [Thr.done], by simp [Thr.done]⟩
  · intro b hpc s' hs
    simp only [Thr.step, hpc] at hs
    simp at hs
    obtain ⟨hc, rfl⟩ := hs
    refine ⟨by simp [Thr.done], rfl, rfl, ?_⟩
    simp [Thr.done]; omega

/-- helper for the non-vacuity examples -/
def Thr.runActs (val : Nat → Nat) (s : Thr.St) : List (Tid × Thr.Act) → Option Thr.St
  | [] => some s
  | (t, a) :: l => (Thr.step val s t a).bind fun s' => Thr.runActs val s' l

theorem Thr.reach_runActs {val : Nat → Nat} {cfail : Nat} {s s' : Thr.St} (l : List (Tid × Thr.Act))
    (h : Thr.Reach val cfail s) (hr : Thr.runActs val s l = some s') : Thr.Reach val cfail s' := by
  induction l generalizing s with
  | nil => simp [Thr.runActs] at hr; subst hr; exact h
  | cons x l ih =>
    obtain ⟨t, a⟩ := x
    simp only [Thr.runActs] at hr
    cases hs : Thr.step val s t a with
    | none => simp [hs] at hr
    | some s1 => simp [hs] at hr; exact ih (.step h hs) hr

/-- non-vacuity: the main thread starts object 1 through the member overload with body 5, a second member start with
    body 9 is refused, the thread runs body 5, finishes with `val 5`, and the main thread sits in `join 1` -/
example : ∃ s, Thr.Reach (fun k => k + 100) 0 s ∧ s.pc 0 = .join 1 ∧ s.status 1 = .finished 105 ∧ s.func 1 = 5 ∧
    s.started 1 = some 5 ∧ s.handle 1 = true := by
  refine ⟨_, Thr.reach_runActs [(0, .api (.call (.mstart 1 5))), (0, .api (.run 0)), (0, .api (.call (.mstart 1 9))),
    (1, .begin_), (1, .exit), (0, .api (.call (.join 1)))] .init rfl, ?_, ?_, ?_, ?_, ?_⟩ <;> rfl

example : ∃ s s' : Thr.St, s.pc 0 = .create 1 none ∧ Thr.step id s 0 (.api (.run 1)) = some s' :=
  ⟨{ Thr.init 1 with pc := upd (Thr.init 1).pc 0 (.create 1 none) }, _, rfl, rfl⟩

/-- Thread::sleep never returns early: every return of `Thread::sleep(ms)` in any reachable state of the `Sleep` system (any
    schedule, any number of sleeping threads, ticks of any size) happens at virtual time ≥ call time + ms·10⁶ ns.  Library
    content: the argument conversion `usleep(milliseconds * 1000)`; ASSUMED: `usleep(µs)` suspends for at least `µs`. -/
theorem sleep_not_early {now : Nat} {s : Sleep.St} (h : Sleep.Reach now s) (e : Sleep.Ret) (he : e ∈ s.log) :
    e.t0 + e.ms * 1000000 ≤ e.at_ :=
  Sleep.good_mem (Sleep.inv_reach h).good e he

example : ∃ s e, Sleep.Reach 7 s ∧ e ∈ s.log ∧ e.t0 = 7 ∧ e.at_ = 12 ∧ s.pc 2 ≠ none :=
  ⟨_, _, .step (.step (.step (.step (.init) (t := 1) (a := .call 0) rfl) (t := 2) (a := .call 3) rfl) (t := 0) (a := .tick 5) rfl)
    (t := 1) (a := .run 0) rfl, List.mem_cons_self, rfl, rfl, by decide⟩

/-! ## liveness under fairness (infinite runs, Fair.lean)

  `Run` = an infinite sequence of states with the `(thread, action)` taken at every index.  `WeakFair r prog`: a thread
  whose progress step (`.run 0` inside a call, never the blocked state of a condition wait, so spurious wake-ups are
  never required) is enabled continuously eventually takes it.  `StrongFair r lk`: a thread whose mutex acquisition is
  enabled infinitely often eventually performs it (starvation-free mutex).  Weak fairness alone cannot give the
  Signal / Monitor statements: other threads may take the mutex every time it is free. -/

/-- No waiter stays blocked while the count is positive (liveness): on every weakly fair run, a thread inside
    wait / tryWait / wait(timeout) at a moment from which the count stays positive returns, and it returns true unless
    an untimed wait() is interrupted by EINTR.  `hposix`: `sem_timedwait` does not report ENOSYS to `u` from `n` on (in the
    polling fallback the return additionally needs the passage of time: `sem_enosys_fallback_never_blocks_and_terminates`). -/
theorem sem_waiter_eventually_returns (r : Run Sem.St Sem.Op Sem.step) (hwf : WeakFair r Sem.prog) (n : Nat)
    (hpos : ∀ m, n ≤ m → 0 < (r.st m).count) (u : Tid) (hw : Sem.waiting ((r.st n).pc u) = true)
    (hposix : ∀ m, n ≤ m → ¬ (r.who m = u ∧ r.act m = .run 3)) :
    ∃ m, n ≤ m ∧ (r.st m).pc u = .idle ∧
      ((r.st m).ret u = some (.bool true) ∨ ((r.st n).pc u = .wait ∧ (r.st m).ret u = some (.bool false))) :=
  Sem.waiter_eventually_returns r hwf n hpos u hw hposix

/-- No waiter stays blocked while the signal remains set (liveness): on every run from a reachable state that is weakly
    fair for all threads and whose internal mutex is starvation-free, a thread blocked in wait() / wait(timeout) at a
    moment from which the flag stays set eventually returns — true, unless it is a timed wait whose time-out fired. -/
theorem signal_waiter_eventually_returns {set0 : Bool} {now spur : Nat} (r : Run Signal.St Signal.Op Signal.step)
    (h0 : Signal.Reach set0 now spur (r.st 0)) (hwf : WeakFair r Signal.prog) (hsf : StrongFair r Signal.lk) (n : Nat)
    (hset : ∀ m, n ≤ m → (r.st m).flag = true) (u : Tid) (dl : Option Deadline) (hu : (r.st n).pc u = .wBlocked dl) :
    ∃ m, n ≤ m ∧ (r.st m).pc u = .idle ∧
      ((r.st m).ret u = some (.bool true) ∨ (dl ≠ none ∧ (r.st m).ret u = some (.bool false))) :=
  Signal.waiter_eventually_returns r h0 hwf hsf n hset u dl hu

/-- After set(), every present and future waiter returns true until reset() (liveness): the same for a thread that is
    anywhere inside wait() / wait(timeout) at a moment from which the flag stays set — blocked, just arrived, or on its way
    back from a wake-up. -/
theorem signal_every_waiter_eventually_returns {set0 : Bool} {now spur : Nat} (r : Run Signal.St Signal.Op Signal.step)
    (h0 : Signal.Reach set0 now spur (r.st 0)) (hwf : WeakFair r Signal.prog) (hsf : StrongFair r Signal.lk) (n : Nat)
    (hset : ∀ m, n ≤ m → (r.st m).flag = true) (u : Tid) (dl : Option Deadline)
    (hu : Signal.inWait ((r.st n).pc u) = some dl) :
    ∃ m, n ≤ m ∧ (r.st m).pc u = .idle ∧
      ((r.st m).ret u = some (.bool true) ∨ (dl ≠ none ∧ (r.st m).ret u = some (.bool false))) :=
  Signal.every_waiter_eventually_returns r h0 hwf hsf n hset u dl hu

/-- Every Semaphore waiter returns if enough signals arrive (liveness, weak fairness only): `u` is inside wait / tryWait /
    wait(timeout) at `n`; if at every later moment at which `u` is still inside that call the signals that arrived since
    `n` plus the count at `n` exceed the successful waits served since `n` (other waiters may consume, as long as a
    surplus is left when `u` looks), `u` returns — true, unless an untimed wait() is interrupted by EINTR. -/
theorem sem_waiter_returns_if_enough_signals {c now e : Nat} (r : Run Sem.St Sem.Op Sem.step) (h0 : Sem.Reach c now e (r.st 0))
    (hwf : WeakFair r Sem.prog) (n : Nat) (u : Tid) (hw : Sem.waiting ((r.st n).pc u) = true)
    (hposix : ∀ m, n ≤ m → ¬ (r.who m = u ∧ r.act m = .run 3))
    (henough : ∀ m, n ≤ m → (r.st m).pc u = (r.st n).pc u →
      (r.st m).succ + (r.st n).posts < (r.st n).count + (r.st m).posts + (r.st n).succ) :
    ∃ m, n ≤ m ∧ (r.st m).pc u = .idle ∧
      ((r.st m).ret u = some (.bool true) ∨ ((r.st n).pc u = .wait ∧ (r.st m).ret u = some (.bool false))) :=
  Sem.waiter_returns_if_enough_signals r h0 hwf n u hw hposix henough

/-- k waiters, k signals ⇒ all return (closed system, weak fairness only).  From `n` on no thread begins a new wait / tryWait /
    wait(timeout) (anybody may still signal) and all threads inside such a call at `n` belong to the list `W`; at `m0` the
    count at `n` plus the signals since `n` have reached `|W|`.  Then every thread still waiting at `m0` returns, and returns
    TRUE (unless an untimed wait() is hit by EINTR): each waiter succeeds at most once, so the others cannot starve it.
    (A waiter that is not waiting any more at `m0` has returned already.)  Per-thread success accounting: `Sem.closed_run`. -/
theorem sem_closed_system_all_waiters_return {c now e : Nat} (r : Run Sem.St Sem.Op Sem.step) (h0 : Sem.Reach c now e (r.st 0))
    (hwf : WeakFair r Sem.prog) (n : Nat) (W : List Tid)
    (hclosed : ∀ m, n ≤ m → ∀ op, r.act m = .call op → op = .signal)
    (hW : ∀ t, Sem.inCall ((r.st n).pc t) = true → t ∈ W)
    (m0 : Nat) (hm0 : n ≤ m0) (henough : W.length + (r.st n).posts ≤ (r.st n).count + (r.st m0).posts)
    (u : Tid) (hu : Sem.waiting ((r.st m0).pc u) = true)
    (hposix : ∀ m, m0 ≤ m → ¬ (r.who m = u ∧ r.act m = .run 3)) :
    ∃ m, m0 ≤ m ∧ (r.st m).pc u = .idle ∧
      ((r.st m).ret u = some (.bool true) ∨ ((r.st m0).pc u = .wait ∧ (r.st m).ret u = some (.bool false))) :=
  Sem.closed_system_all_waiters_return r h0 hwf n W hclosed hW m0 hm0 henough u hu hposix

/-- The ENOSYS polling fallback of `Semaphore::wait(timeout)` returns (liveness): on every weakly fair run on which virtual time
    grows beyond every bound (`Sem.TimeDiverges`; the fallback sleeps, so without the passage of time nothing can be said), a
    thread inside the fallback eventually returns — true if it finds a unit at one of its polls, false after at most
    ⌈timeout/stepMs⌉ sleeps (`sem_wait_step_accounting` says which).  ASSUMED: `usleep` returns once its time has passed. -/
theorem sem_poller_eventually_returns (r : Run Sem.St Sem.Op Sem.step) (hwf : WeakFair r Sem.prog) (htime : Sem.TimeDiverges r)
    (n : Nat) (u : Tid) (hp : Sem.polling ((r.st n).pc u) = true) : ∃ m, n ≤ m ∧ (r.st m).pc u = .idle :=
  Sem.poller_eventually_returns r hwf htime _ n u hp (Nat.le_refl _)

/-- A set() issued after a waiter has taken the monitor eventually releases a waiter (liveness): `u` is blocked in
    the untimed wait(), a set() has stored the flag since `u` joined the wait set and the flag is still set.  On every
    run that is weakly fair, whose monitor mutex is starvation-free and on which the clients do not keep the monitor
    locked for ever, some wait returns true afterwards. -/
theorem monitor_set_eventually_releases_a_waiter {now spur : Nat} (r : Run Monitor.St Monitor.Op Monitor.step)
    (h0 : Monitor.Reach now spur (r.st 0)) (hwf : WeakFair r Monitor.prog) (hsf : StrongFair r Monitor.lk)
    (hfree : ∀ k, ∃ j, k ≤ j ∧ (r.st j).m = none) (n : Nat) (hf : (r.st n).flag = true) (u : Tid)
    (hu : (r.st n).pc u = .wBlocked none true) : ∃ m, n ≤ m ∧ (r.st n).succ < (r.st m).succ :=
  Monitor.set_eventually_releases_a_waiter r h0 hwf hsf hfree n hf u hu

/-! non-vacuity of the three liveness theorems: concrete fair runs (LiveDemo.lean) that meet their hypotheses -/

example : WeakFair Sem.demoRun Sem.prog ∧ (∀ m, 1 ≤ m → 0 < (Sem.demoRun.st m).count) ∧
    Sem.waiting ((Sem.demoRun.st 1).pc 1) = true ∧ (∀ m, 1 ≤ m → ¬ (Sem.demoRun.who m = 1 ∧ Sem.demoRun.act m = .run 3)) := by
  refine ⟨?_, ?_, rfl, ?_⟩
  rotate_right
  · intro m hm ⟨_, h⟩
    match m with
    | 1 => cases h
    | k + 2 => cases h
  · intro t n h
    have h2 := h (n + 2) (by omega)
    exfalso
    have : Sem.prog Sem.d2 t = false := by
      simp only [Sem.prog, Sem.d2, Sem.d1, Sem.d0, Sem.step, Sem.init, Sem.done, Option.getD]
      by_cases ht : t = 1 <;> simp [upd, ht]
    have e : Sem.demoRun.st (n + 2) = Sem.d2 := rfl
    rw [e, this] at h2; cases h2
  · intro m hm
    match m with
    | 1 => decide
    | k + 2 =>
      show 0 < Sem.d2.count
      decide

/-- non-vacuity of `sem_poller_eventually_returns`: the run `Sem.pollRun` (LiveDemo.lean): ENOSYS at a timed wait of 5 ms on an
    empty semaphore, one poll, one sleep of 10 ms, false; then only time passes -/
example : WeakFair Sem.pollRun Sem.prog ∧ Sem.TimeDiverges Sem.pollRun ∧ Sem.polling ((Sem.pollRun.st 2).pc 1) = true ∧
    (Sem.pollRun.st 5).pc 1 = .idle := by
  refine ⟨?_, ?_, rfl, Sem.p5idle 1⟩
  · intro t n h
    have h2 := h (n + 5) (by omega)
    exfalso
    have : Sem.prog (Sem.pollRun.st (n + 5)) t = false := by
      show Sem.prog { Sem.p5 with now := Sem.p5.now + n } t = false
      simp [Sem.prog, Sem.p5idle t]
    rw [this] at h2; cases h2
  · intro T n
    refine ⟨n + T + 5, by omega, ?_⟩
    show T ≤ Sem.p5.now + (n + T)
    omega

/-- the extra hypotheses of `sem_waiter_returns_if_enough_signals` and `signal_every_waiter_eventually_returns` on the
    same runs (their fairness hypotheses are the ones shown above / below) -/
example : Sem.Reach 2 0 0 (Sem.demoRun.st 0) ∧ Sem.waiting ((Sem.demoRun.st 1).pc 1) = true ∧
    (∀ m, 1 ≤ m → (Sem.demoRun.st m).pc 1 = (Sem.demoRun.st 1).pc 1 →
      (Sem.demoRun.st m).succ + (Sem.demoRun.st 1).posts < (Sem.demoRun.st 1).count + (Sem.demoRun.st m).posts + (Sem.demoRun.st 1).succ) := by
  refine ⟨.init 0, rfl, ?_⟩
  intro m hm
  match m with
  | 1 => intro _; decide
  | k + 2 =>
    intro h
    have e : (Sem.demoRun.st (k + 2)).pc 1 = Sem.d2.pc 1 := rfl
    rw [e] at h
    exact absurd h (by decide)

/-- the hypotheses of `sem_closed_system_all_waiters_return` on the demo run: closed from 1 on, W = [1], enough at 1 -/
example : (∀ m, 1 ≤ m → ∀ op, Sem.demoRun.act m = .call op → op = .signal) ∧
    (∀ t, Sem.inCall ((Sem.demoRun.st 1).pc t) = true → t ∈ [1]) ∧
    [1].length + (Sem.demoRun.st 1).posts ≤ (Sem.demoRun.st 1).count + (Sem.demoRun.st 1).posts := by
  refine ⟨?_, ?_, by decide⟩
  · intro m hm op h
    match m with
    | 1 => cases h
    | k + 2 => cases h
  · intro t ht
    by_cases h1 : t = 1
    · simp [h1]
    · have : (Sem.demoRun.st 1).pc t = .idle := by
        show Sem.d1.pc t = .idle
        simp [Sem.d1, Sem.d0, Sem.step, Sem.init, Option.getD, upd, h1]
      rw [this] at ht; cases ht

example : Signal.inWait ((Signal.demoRun.st 7).pc 1) = some none ∧ (Signal.demoRun.st 7).pc 1 = .wRelock none false := ⟨rfl, rfl⟩

example : Signal.Reach false 0 0 (Signal.demoRun.st 0) ∧ WeakFair Signal.demoRun Signal.prog ∧
    StrongFair Signal.demoRun Signal.lk ∧ (∀ m, 5 ≤ m → (Signal.demoRun.st m).flag = true) ∧
    (Signal.demoRun.st 5).pc 1 = .wBlocked none := by
  refine ⟨.init, ?_, ?_, ?_, rfl⟩
  · intro t n h
    have h2 := h (n + 9) (by omega)
    have e : Signal.demoRun.st (n + 9) = Signal.d9 := rfl
    rw [e] at h2
    simp [Signal.prog, Signal.d9_idle] at h2
  · intro t n h
    obtain ⟨j, hj, hl⟩ := h (n + 9) (by omega)
    obtain ⟨k, rfl⟩ : ∃ k, j = k + 9 := ⟨j - 9, by omega⟩
    have e : Signal.demoRun.st (k + 9) = Signal.d9 := rfl
    rw [e] at hl
    simp [Signal.lk, Signal.d9_idle] at hl
  · intro m hm
    match m with
    | 5 => rfl
    | 6 => rfl
    | 7 => rfl
    | 8 => rfl
    | k + 9 => rfl

example : Monitor.Reach 0 0 (Monitor.demoRun.st 0) ∧ WeakFair Monitor.demoRun Monitor.prog ∧
    StrongFair Monitor.demoRun Monitor.lk ∧ (∀ k, ∃ j, k ≤ j ∧ (Monitor.demoRun.st j).m = none) ∧
    (Monitor.demoRun.st 6).flag = true ∧ (Monitor.demoRun.st 6).pc 1 = .wBlocked none true := by
  refine ⟨.init false, ?_, ?_, ?_, rfl, rfl⟩
  · intro t n h
    have h2 := h (n + 11) (by omega)
    have e : Monitor.demoRun.st (n + 11) = Monitor.d11 := rfl
    rw [e] at h2
    simp [Monitor.prog, Monitor.d11_idle] at h2
  · intro t n h
    obtain ⟨j, hj, hl⟩ := h (n + 11) (by omega)
    obtain ⟨k, rfl⟩ : ∃ k, j = k + 11 := ⟨j - 11, by omega⟩
    have e : Monitor.demoRun.st (k + 11) = Monitor.d11 := rfl
    rw [e] at hl
    simp [Monitor.lk, Monitor.d11_idle] at hl
  · intro k
    exact ⟨k + 11, by omega, rfl⟩

/-! ## the driver of the correspondence run -/

/-- The scenario interpreter of the model driver (Scenario.lean) moves the primitive only along `step`: from a
    reachable state every call / run / tick it performs leads to a reachable state, so every state compared with
    the implementation in the correspondence run is one the theorems above speak about. -/
theorem driver_stays_within_model {p : Scen.PrimSt} (h : Scen.PrimReach p) :
    (∀ t a p', Scen.primRun p t a = some p' → Scen.PrimReach p') ∧
    (∀ t op p', Scen.primCall p t op = some p' → Scen.PrimReach p') ∧
    (∀ q, Scen.PrimReach (Scen.primTick p q)) :=
  ⟨fun _ _ _ hr => Scen.primRun_reach h hr, fun _ _ _ hr => Scen.primCall_reach h hr, fun _ => Scen.primTick_reach h⟩

end Nstd.Sync
