import Nstd.Sync.Posix
import Nstd.Generated.SyncSemPoll
import Nstd.Generated.SyncApi
/-
  Sync area (property C11) — the five primitives as interleaving transition systems over the assumed
  POSIX layer, transcribed call by call from src/Mutex.cpp, Semaphore.cpp, Signal.cpp, Monitor.cpp,
  Thread.cpp.  A thread is a program counter; a program counter names the POSIX call the thread is
  about to perform; one atomic step = the effect of that call + the library code up to the next POSIX
  call (this is exactly the granularity of the controlled scheduler in harness/sync/sched.cpp).
  Thread ids are arbitrary naturals: every system has unboundedly many threads, each of which may
  begin any API call whenever it is idle (`Act.call`).  `step … = none` means "not enabled".
-/
namespace Nstd.Sync

/-! ## Mutex (Mutex.cpp): a PTHREAD_MUTEX_RECURSIVE mutex -/
namespace Mutex

inductive Op | lock | tryLock | unlock
deriving DecidableEq, Repr

inductive Pc | idle | lock | tryLock | unlock
deriving DecidableEq, Repr

structure St where
  m : PMutex
  pc : Tid → Pc
  ret : Tid → Option Val
  /-- ghost: successful lock/tryLock returns minus unlock returns of each thread -/
  held : Tid → Nat

/-- `Mutex::Mutex()`: the kind of the pthread mutex is read from the CURRENT Mutex.cpp (Generated/SyncApi: the attribute
    passed to pthread_mutex_init) -/
def init : St := ⟨⟨Nstd.Generated.SyncApi.mutexRecursive, none, 0⟩, fun _ => .idle, fun _ => none, fun _ => 0⟩

def step (s : St) (t : Tid) : Act Op → Option St
  | .tick _ => some s
  | .call op =>
    if s.pc t = .idle then
      some { s with ret := upd s.ret t none,
                    pc := upd s.pc t (match op with | .lock => .lock | .tryLock => .tryLock | .unlock => .unlock) }
    else none
  | .run alt =>
    if alt ≠ 0 then none else
    match s.pc t with
    | .idle => none
    | .lock =>            -- VERIFY(pthread_mutex_lock(data) == 0)
      if s.m.canLock t then
        some { s with m := s.m.lock t, pc := upd s.pc t .idle, ret := upd s.ret t (some .unit),
                      held := upd s.held t (s.held t + 1) }
      else none
    | .tryLock =>         -- return pthread_mutex_trylock(data) == 0
      if s.m.canLock t then
        some { s with m := s.m.lock t, pc := upd s.pc t .idle, ret := upd s.ret t (some (.bool true)),
                      held := upd s.held t (s.held t + 1) }
      else some { s with pc := upd s.pc t .idle, ret := upd s.ret t (some (.bool false)) }
    | .unlock =>          -- VERIFY(pthread_mutex_unlock(data) == 0); only legal for the owner
      match s.m.unlock t with
      | some m' => some { s with m := m', pc := upd s.pc t .idle, ret := upd s.ret t (some .unit),
                                 held := upd s.held t (s.held t - 1) }
      | none => none

inductive Reach : St → Prop
  | init : Reach init
  | step {s s' t a} : Reach s → step s t a = some s' → Reach s'

end Mutex

/-! ## Semaphore (Semaphore.cpp): sem_t -/
namespace Sem

/-- the constants of the ENOSYS polling loop of `wait(timeout)`, extracted from the CURRENT Semaphore.cpp by
    tools/areas/sync.py (`translate_poll`, which also pins the shape of the two loops transcribed below) -/
abbrev Poll.start : Nat := Nstd.Generated.SyncSemPoll.start
abbrev Poll.stepMs : Nat := Nstd.Generated.SyncSemPoll.stepMs
abbrev Poll.sleepUs : Nat := Nstd.Generated.SyncSemPoll.sleepUs

inductive Op | signal | wait | twait (ms : Nat) | tryWait
deriving DecidableEq, Repr

/-- `pollTry d i`: in the ENOSYS fallback, about to call `sem_trywait` in the iteration with loop variable `i`;
    `pollSleep d i wake`: inside the `usleep` of that iteration, which returns once the clock has reached `wake` -/
inductive Pc | idle | post | wait | tryWait | twait (d : Deadline)
  | pollTry (d : Deadline) (i : Nat) | pollSleep (d : Deadline) (i : Nat) (wake : Nat)
  /-- `wait(timeout)` in the variant that first tries `sem_trywait` and reads the clock only when that fails -/
  | twTry (ms : Nat)
deriving DecidableEq, Repr

/-- a timed wait that returned false: its deadline record and the time of the return (ghost) -/
structure FalseRet where
  tid : Tid
  d : Deadline
  at_ : Nat
deriving Repr

structure St where
  count : Nat
  pc : Tid → Pc
  ret : Tid → Option Val
  now : Nat
  eintr : Nat
  /-- ghost -/
  init0 : Nat
  posts : Nat
  succ : Nat
  flog : List FalseRet
  /-- how often `sem_timedwait` may still report ENOSYS (an arbitrary parameter; 0 on a system that implements it) -/
  enosys : Nat
  /-- variant of `wait(timeout)` (constant along a run; the contract does not fix it, every theorem holds for both): does it
      begin with a `sem_trywait` fast path and compute the deadline only when that fails? -/
  tryFirst : Bool

def init (count now eintr : Nat) (enosys : Nat := 0) (tryFirst : Bool := false) : St :=
  ⟨count, fun _ => .idle, fun _ => none, now, eintr, count, 0, 0, [], enosys, tryFirst⟩

def done (s : St) (t : Tid) (v : Val) : St := { s with pc := upd s.pc t .idle, ret := upd s.ret t (some v) }
def goto (s : St) (t : Tid) (p : Pc) : St := { s with pc := upd s.pc t p }

def step (s : St) (t : Tid) : Act Op → Option St
  | .tick q => some { s with now := s.now + q }
  | .call op =>
    if s.pc t = .idle then
      some { s with ret := upd s.ret t none,
                    pc := upd s.pc t (match op with
                      | .signal => .post | .wait => .wait | .tryWait => .tryWait
                      -- clock_gettime(CLOCK_REALTIME, &ts); ts += timeout   — or, in the try-first variant, sem_trywait before that
                      | .twait ms => if s.tryFirst then .twTry ms else .twait (mkDeadline s.now ms)) }
    else none
  | .run alt =>
    match s.pc t with
    | .idle => none
    | .twTry ms =>        -- if(sem_trywait(data) != -1) return true; clock_gettime; ts += timeout
      if alt = 0 then
        if s.count > 0 then some (done { s with count := s.count - 1, succ := s.succ + 1 } t (.bool true))
        else some (goto s t (.twait (mkDeadline s.now ms)))
      else none
    | .post =>            -- VERIFY(sem_post(data) != -1)
      if alt = 0 then some (done { s with count := s.count + 1, posts := s.posts + 1 } t .unit) else none
    | .wait =>            -- return sem_wait(data) != -1
      if alt = 0 then
        if s.count > 0 then some (done { s with count := s.count - 1, succ := s.succ + 1 } t (.bool true)) else none
      else if alt = 1 then   -- EINTR: sem_wait returns -1, wait() returns false
        if s.eintr > 0 then some (done { s with eintr := s.eintr - 1 } t (.bool false)) else none
      else none
    | .tryWait =>         -- return sem_trywait(data) != -1
      if alt = 0 then
        if s.count > 0 then some (done { s with count := s.count - 1, succ := s.succ + 1 } t (.bool true))
        else some (done s t (.bool false))
      else none
    | .twait d =>         -- for(;;) { if(sem_timedwait(data, &ts) == -1) { if(errno == EINTR) continue; if(errno == ENOSYS) goto no_sem_timedwait; return false; } return true; }
      if alt = 0 then
        if s.count > 0 then some (done { s with count := s.count - 1, succ := s.succ + 1 } t (.bool true)) else none
      else if alt = 1 then   -- EINTR: retry with the same absolute deadline
        if s.eintr > 0 then some { s with eintr := s.eintr - 1 } else none
      else if alt = 2 then   -- ETIMEDOUT (or EINVAL for a malformed deadline): only when the counter is zero
        if s.count = 0 ∧ (d.ts.valid = false ∨ d.expired s.now = true) then
          some (done { s with flog := ⟨t, d, s.now⟩ :: s.flog } t (.bool false))
        else none
      else if alt = 3 then   -- ENOSYS: no_sem_timedwait: for(int i = start; i < timeout; i += stepMs) — the first loop test
        if s.enosys > 0 then
          if Poll.start < d.ms then some (goto { s with enosys := s.enosys - 1 } t (.pollTry d Poll.start))
          else some (done { s with enosys := s.enosys - 1, flog := ⟨t, d, s.now⟩ :: s.flog } t (.bool false))
        else none
      else none
    | .pollTry d i =>     -- if(sem_trywait(data) != -1) return true; usleep(sleepUs);
      if alt = 0 then
        if s.count > 0 then some (done { s with count := s.count - 1, succ := s.succ + 1 } t (.bool true))
        else some (goto s t (.pollSleep d i (s.now + Poll.sleepUs * 1000)))
      else none
    | .pollSleep d i wake =>   -- usleep returns (ASSUMED: not before `wake`); i += stepMs; i < timeout ? next iteration : return false
      if alt = 0 ∧ wake ≤ s.now then
        if i + Poll.stepMs < d.ms then some (goto s t (.pollTry d (i + Poll.stepMs)))
        else some (done { s with flog := ⟨t, d, s.now⟩ :: s.flog } t (.bool false))
      else none

inductive Reach (count now eintr : Nat) : St → Prop
  | init (enosys : Nat) : Reach count now eintr (init count now eintr enosys)
  | initP (enosys : Nat) (tryFirst : Bool) : Reach count now eintr (init count now eintr enosys tryFirst)
  | step {s s' t a} : Reach count now eintr s → step s t a = some s' → Reach count now eintr s'

end Sem

/-! ## Signal (Signal.cpp): manual-reset event = flag + mutex + condition variable -/
namespace Signal

inductive Op | set | reset | wait | twait (ms : Nat)
deriving DecidableEq, Repr

inductive Pc
  | idle
  | setLock | setBcast | setUnlock
  | resetLock | resetUnlock
  | wLock (dl : Option Deadline)
  | wUnlock (r : Bool) (dl : Option Deadline)
  | wEnter (dl : Option Deadline)
  | wBlocked (dl : Option Deadline)
  | wRelock (dl : Option Deadline) (timedOut : Bool)
deriving DecidableEq, Repr

/-- ghost history: writes of the flag and returns of wait / wait(timeout) -/
inductive Ev
  | write (b : Bool)
  | waitRet (t : Tid) (r : Bool) (dl : Option Deadline) (at_ : Nat)
deriving Repr

structure St where
  /-- owner of the internal default (non-recursive) mutex `mdata` -/
  m : Option Tid
  flag : Bool
  pc : Tid → Pc
  ret : Tid → Option Val
  now : Nat
  spur : Nat
  /-- ghost: newest event first -/
  hist : List Ev
  /-- variants the contract does not fix (constant along a run; every theorem holds for all four combinations; the driver
      takes them from the current source, Generated/SyncShape): `set()` on a flag that is already set leaves out the store and
      the broadcast (nobody can be blocked then) -/
  setSkips : Bool
  /-- `wait(timeout)` reads the clock and computes its deadline only after it has locked and found the flag clear -/
  lazyDl : Bool

def init (set : Bool) (now spur : Nat) (setSkips : Bool := false) (lazyDl : Bool := false) : St :=
  ⟨none, set, fun _ => .idle, fun _ => none, now, spur, [], setSkips, lazyDl⟩

def goto (s : St) (t : Tid) (p : Pc) : St := { s with pc := upd s.pc t p }
def done (s : St) (t : Tid) (v : Val) : St := { s with pc := upd s.pc t .idle, ret := upd s.ret t (some v) }

/-- the deadline `wait(timeout)` goes on with after its lock: in the lazy variant it is computed now -/
def relazy (lazy : Bool) (now : Nat) : Option Deadline → Option Deadline
  | none => none
  | some d => if lazy then some (mkDeadline now d.ms) else some d

/-- the loop head of wait()/wait(timeout), executed while holding the mutex:
    `if(signaled) { unlock; return true; }  pthread_cond_[timed]wait(...)` -/
def loopHead (s : St) (t : Tid) (dl : Option Deadline) : St :=
  if s.flag then goto s t (.wUnlock true dl) else goto s t (.wEnter dl)

def step (s : St) (t : Tid) : Act Op → Option St
  | .tick q => some { s with now := s.now + q }
  | .call op =>
    if s.pc t = .idle then
      some { s with ret := upd s.ret t none,
                    pc := upd s.pc t (match op with
                      | .set => .setLock | .reset => .resetLock | .wait => .wLock none
                      | .twait ms => .wLock (some (mkDeadline s.now ms))) }
    else none
  | .run alt =>
    match s.pc t with
    | .idle => none
    -- set(): lock; signaled = true; broadcast; unlock   (order after fixes/sync/0001: the broadcast is issued
    -- while the mutex is held, so that the unlock is set()'s last access to the object)
    | .setLock =>
      if alt = 0 ∧ s.m = none then
        if s.setSkips = true ∧ s.flag = true then some (goto { s with m := some t } t .setUnlock)     -- if(!signaled) { … } skipped
        else some (goto { s with m := some t, flag := true, hist := .write true :: s.hist } t .setBcast)
      else none
    | .setBcast =>
      if alt = 0 then
        some (goto { s with pc := fun u => match s.pc u with | .wBlocked dl => .wRelock dl false | p => p } t .setUnlock)
      else none
    | .setUnlock =>
      if alt = 0 ∧ s.m = some t then some (done { s with m := none } t .unit) else none
    -- reset(): lock; signaled = false; unlock
    | .resetLock =>
      if alt = 0 ∧ s.m = none then
        some (goto { s with m := some t, flag := false, hist := .write false :: s.hist } t .resetUnlock) else none
    | .resetUnlock =>
      if alt = 0 ∧ s.m = some t then some (done { s with m := none } t .unit) else none
    -- wait() / wait(timeout)
    | .wLock dl =>          -- (lazy variant: the deadline is computed now, from the clock as it is after the lock)
      if alt = 0 ∧ s.m = none then
        (if s.flag then some (goto { s with m := some t } t (.wUnlock true dl))
         else some (goto { s with m := some t } t (.wEnter (relazy s.lazyDl s.now dl))))
      else none
    | .wUnlock r dl =>
      if alt = 0 ∧ s.m = some t then
        some (done { s with m := none, hist := .waitRet t r dl s.now :: s.hist } t (.bool r))
      else none
    | .wEnter dl =>         -- pthread_cond_[timed]wait: atomically release the mutex and block
      if alt = 0 ∧ s.m = some t then
        match dl with
        | some d => if d.ts.valid then some (goto { s with m := none } t (.wBlocked dl))
                    else some (goto s t (.wUnlock false dl))      -- EINVAL ≠ 0: unlock; return false
        | none => some (goto { s with m := none } t (.wBlocked dl))
      else none
    | .wBlocked dl =>
      if alt = 0 then        -- spurious wake-up
        if s.spur > 0 then some (goto { s with spur := s.spur - 1 } t (.wRelock dl false)) else none
      else if alt = 1 then   -- ETIMEDOUT
        match dl with
        | some d => if d.expired s.now then some (goto s t (.wRelock dl true)) else none
        | none => none
      else none
    | .wRelock dl timedOut => -- re-acquire the mutex, return from pthread_cond_[timed]wait
      if alt = 0 ∧ s.m = none then
        if timedOut then some (goto { s with m := some t } t (.wUnlock false dl))
        else some (loopHead { s with m := some t } t dl)
      else none

inductive Reach (set : Bool) (now spur : Nat) : St → Prop
  | init : Reach set now spur (init set now spur)
  | initP (setSkips lazyDl : Bool) : Reach set now spur (init set now spur setSkips lazyDl)
  | step {s s' t a} : Reach set now spur s → step s t a = some s' → Reach set now spur s'

end Signal

/-! ## Monitor (Monitor.cpp): flag + mutex + condition variable, auto-reset, `set` wakes one waiter.
    The contract does not fix whether `set()` signals before or after it releases the mutex: the system is parametric in
    that order (`sigFirst`, constant along every run; the driver takes it from the current source, Generated/SyncMonitorOrder)
    and every theorem is proved for both. -/
namespace Monitor

inductive Op | lock | tryLock | unlock | wait | twait (ms : Nat) | set
deriving DecidableEq, Repr

inductive Pc
  | idle
  | lock | tryLock | unlock
  | wEnter (dl : Option Deadline)
  /-- `saw` is ghost: a `set()` stored the flag after this thread joined the wait set -/
  | wBlocked (dl : Option Deadline) (saw : Bool)
  | wRelock (dl : Option Deadline) (timedOut : Bool)
  | setLock | setUnlock | setSignal
deriving DecidableEq, Repr

structure FalseRet where
  tid : Tid
  dl : Option Deadline
  at_ : Nat
deriving Repr

structure St where
  /-- owner of the monitor's default (non-recursive) mutex `mdata` -/
  m : Option Tid
  flag : Bool
  /-- wait set of the condition variable in arrival order -/
  waiters : List Tid
  pc : Tid → Pc
  ret : Tid → Option Val
  now : Nat
  spur : Nat
  /-- ghost -/
  sets : Nat
  succ : Nat
  flog : List FalseRet
  /-- ghost: the set() calls that found the flag clear and raised it (a set() on a raised flag adds nothing: the flag is binary) -/
  raised : Nat
  /-- the order of `set()`: true = lock; store; pthread_cond_signal; unlock — false = lock; store; unlock; pthread_cond_signal -/
  sigFirst : Bool
  /-- ghost: thread t holds the monitor as a CLIENT — successful returns of lock / tryLock / pthread_cond_[timed]wait minus
      unlock returns and pthread_cond_[timed]wait entries of t (the monitor is not recursive: 0 or 1) -/
  held : Tid → Bool

def init (now spur : Nat) (sigFirst : Bool := false) : St :=
  ⟨none, false, [], fun _ => .idle, fun _ => none, now, spur, 0, 0, [], 0, sigFirst, fun _ => false⟩

def goto (s : St) (t : Tid) (p : Pc) : St := { s with pc := upd s.pc t p }
def done (s : St) (t : Tid) (v : Val) : St := { s with pc := upd s.pc t .idle, ret := upd s.ret t (some v) }

/-- where `set()` goes after its pthread_cond_signal: to the unlock (sigFirst) or back to the caller -/
def afterSignal (s : St) (t : Tid) : St := if s.sigFirst then goto s t .setUnlock else done s t .unit

def markSaw (p : Pc) : Pc := match p with | .wBlocked dl _ => .wBlocked dl true | p => p
def wake (p : Pc) : Pc := match p with | .wBlocked dl _ => .wRelock dl false | p => p

def step (s : St) (t : Tid) : Act Op → Option St
  | .tick q => some { s with now := s.now + q }
  | .call op =>
    if s.pc t = .idle then
      some { s with ret := upd s.ret t none,
                    pc := upd s.pc t (match op with
                      | .lock => .lock | .tryLock => .tryLock | .unlock => .unlock | .set => .setLock
                      | .wait => .wEnter none
                      | .twait ms => .wEnter (some (mkDeadline s.now ms))) }
    else none
  | .run alt =>
    match s.pc t with
    | .idle => none
    | .lock => if alt = 0 ∧ s.m = none then some (done { s with m := some t, held := upd s.held t true } t .unit) else none
    | .tryLock =>
      if alt = 0 then
        if s.m = none then some (done { s with m := some t, held := upd s.held t true } t (.bool true)) else some (done s t (.bool false))
      else none
    | .unlock => if alt = 0 ∧ s.m = some t then some (done { s with m := none, held := upd s.held t false } t .unit) else none
    -- wait(): for(;;) { pthread_cond_[timed]wait(...) [!= 0 → return false]; if(signaled) { signaled = false; return true; } }
    | .wEnter dl =>
      if alt = 0 ∧ s.m = some t then
        match dl with
        | some d =>
          if d.ts.valid then some (goto { s with m := none, held := upd s.held t false, waiters := s.waiters ++ [t] } t (.wBlocked dl false))
          else some (done { s with flog := ⟨t, dl, s.now⟩ :: s.flog } t (.bool false))    -- EINVAL
        | none => some (goto { s with m := none, held := upd s.held t false, waiters := s.waiters ++ [t] } t (.wBlocked dl false))
      else none
    | .wBlocked dl _ =>
      if alt = 0 then
        if s.spur > 0 then
          some (goto { s with spur := s.spur - 1, waiters := s.waiters.filter (· ≠ t) } t (.wRelock dl false))
        else none
      else if alt = 1 then
        match dl with
        | some d => if d.expired s.now then some (goto { s with waiters := s.waiters.filter (· ≠ t) } t (.wRelock dl true)) else none
        | none => none
      else none
    | .wRelock dl timedOut =>
      if alt = 0 ∧ s.m = none then
        if timedOut then some (done { s with m := some t, held := upd s.held t true, flog := ⟨t, dl, s.now⟩ :: s.flog } t (.bool false))
        else if s.flag then some (done { s with m := some t, held := upd s.held t true, flag := false, succ := s.succ + 1 } t (.bool true))
        else some (goto { s with m := some t, held := upd s.held t true } t (.wEnter dl))
      else none
    -- set(): lock; signaled = true; then unlock; pthread_cond_signal — or (sigFirst) pthread_cond_signal; unlock
    | .setLock =>
      if alt = 0 ∧ s.m = none then
        let raised' := if s.flag then s.raised else s.raised + 1
        some (goto { s with m := some t, flag := true, sets := s.sets + 1, raised := raised', pc := fun u => markSaw (s.pc u) } t
          (if s.sigFirst then .setSignal else .setUnlock))
      else none
    | .setUnlock =>
      if alt = 0 ∧ s.m = some t then
        (if s.sigFirst then some (done { s with m := none } t .unit) else some (goto { s with m := none } t .setSignal))
      else none
    | .setSignal =>         -- wakes the chosen waiter if there is any
      match s.waiters[alt]? with
      | some w => some (afterSignal { s with waiters := s.waiters.filter (· ≠ w), pc := upd s.pc w (wake (s.pc w)) } t)
      | none => if alt = 0 then some (afterSignal s t) else none

inductive Reach (now spur : Nat) : St → Prop
  | init (sigFirst : Bool) : Reach now spur (init now spur sigFirst)
  | step {s s' t a} : Reach now spur s → step s t a = some s' → Reach now spur s'

end Monitor

/-! ## Thread (Thread.cpp, Thread.hpp): start (both overloads) / join / ~Thread over pthread_create / pthread_join.
    Thread object `j` creates the thread with id `j`.  A thread function is identified by a body number `k`; it returns
    `val k` (a parameter of the system).  `start(proc, param)` hands the body to pthread_create directly; the
    member-function overload `start(obj, &X::f)` (Thread.hpp) stores a functor in the Thread object (`func j`) and creates
    a thread that reads that functor when it begins to run — which is why `func` must not be overwritten while the
    object holds a thread (the test `if(thread) return false` comes first, fixes/sync/0002). -/
namespace Thr

inductive Op
  | start (j : Tid) (k : Nat)     -- thr[j].start(proc_k, param)
  | mstart (j : Tid) (k : Nat)    -- thr[j].start(obj_k, &X::f)
  | join (j : Tid) | dtor (j : Tid)
deriving DecidableEq, Repr

/-- `create j none`: pthread_create(proc<Func0>, &this->func) of the member overload; `create j (some k)`: pthread_create(proc_k, param) -/
inductive Pc | idle | create (j : Tid) (direct : Option Nat) | join (j : Tid) | dtor (j : Tid)
deriving DecidableEq, Repr

/-- `created b`: the thread exists and has not begun; `b = some k` — its function is body k, `b = none` — it will read
    the functor of its Thread object.  `running k`: it executes body k.  `finished v`: its function returned v. -/
inductive Status | none | created (b : Option Nat) | running (k : Nat) | finished (v : Nat)
deriving DecidableEq, Repr

/-- extra actions of this system: a created thread begins to run, a running thread's function returns -/
inductive Act
  | api (a : Sync.Act Op)
  | begin_
  | exit

structure St where
  /-- `Thread::thread != 0` of Thread object j -/
  handle : Tid → Bool
  /-- `Thread::func` of Thread object j: the body number of the stored functor -/
  func : Tid → Nat
  status : Tid → Status
  pc : Tid → Pc
  ret : Tid → Option Val
  /-- how often pthread_create may still fail (EAGAIN); an arbitrary parameter -/
  cfail : Nat
  /-- ghost: the body handed over by the successful start of object j (for the member overload: the functor stored in
      the object at the moment of the pthread_create) -/
  started : Tid → Option Nat

def init (cfail : Nat := 0) : St :=
  ⟨fun _ => false, fun _ => 0, fun t => if t = 0 then .running 0 else .none, fun _ => .idle, fun _ => none, cfail,
   fun t => if t = 0 then some 0 else none⟩

def done (s : St) (t : Tid) (v : Val) : St := { s with pc := upd s.pc t .idle, ret := upd s.ret t (some v) }

def Status.isRunning : Status → Bool
  | .running _ => true
  | _ => false

def step (val : Nat → Nat) (s : St) (t : Tid) : Act → Option St
  | .begin_ =>           -- proc<T>(&this->func) → t->call(): the functor is read when the thread begins
    match s.status t with
    | .created (some k) => some { s with status := upd s.status t (.running k) }
    | .created none => some { s with status := upd s.status t (.running (s.func t)) }
    | _ => none
  | .exit =>
    match s.status t with
    | .running k =>
      if s.pc t = .idle ∧ val k < 4294967296 then some { s with status := upd s.status t (.finished (val k)) } else none
    | _ => none
  | .api (.tick _) => some s
  | .api (.call op) =>
    if (s.status t).isRunning = true ∧ s.pc t = .idle then
      match op with
      | .start j k =>    -- if(thread) return false;
        if s.handle j then some (done s t (.bool false))
        else some { s with ret := upd s.ret t none, pc := upd s.pc t (.create j (some k)) }
      | .mstart j k =>   -- if(thread) return false; this->func = Func0(obj, ptr); return start(&proc<Func0>, &this->func);
        if s.handle j then some (done s t (.bool false))
        else some { s with ret := upd s.ret t none, func := upd s.func j k, pc := upd s.pc t (.create j none) }
      | .join j =>       -- if(!thread) return 0;
        if s.handle j then some { s with ret := upd s.ret t none, pc := upd s.pc t (.join j) } else some (done s t (.num 0))
      | .dtor j =>       -- Thread::~Thread(): if(thread) join();
        if s.handle j then some { s with ret := upd s.ret t none, pc := upd s.pc t (.dtor j) } else some (done s t .unit)
    else none
  | .api (.run alt) =>
    match s.pc t with
    | .idle => none
    | .create j b =>
      if alt = 0 then      -- pthread_create(...) == 0; this->thread = handle; return true
        if s.status j = .none then
          some (done { s with status := upd s.status j (.created b), handle := upd s.handle j true,
                              started := upd s.started j (some (b.getD (s.func j))) } t (.bool true))
        else none
      else if alt = 1 then -- pthread_create(...) != 0: return false (no thread, `thread` stays 0)
        if s.cfail > 0 then some (done { s with cfail := s.cfail - 1 } t (.bool false)) else none
      else none
    | .join j =>         -- pthread_join(thread, &retval); thread = 0; return (uint)(intptr_t)retval
      if alt ≠ 0 then none else
      match s.status j with
      | .finished v => some (done { s with handle := upd s.handle j false } t (.num v))
      | _ => none
    | .dtor j =>         -- the join inside the destructor; the result is dropped
      if alt ≠ 0 then none else
      match s.status j with
      | .finished _ => some (done { s with handle := upd s.handle j false } t .unit)
      | _ => none

inductive Reach (val : Nat → Nat) (cfail : Nat) : St → Prop
  | init : Reach val cfail (init cfail)
  | step {s s' t a} : Reach val cfail s → step val s t a = some s' → Reach val cfail s'

end Thr

/-! ## Thread::sleep (Thread.cpp): `usleep(milliseconds * 1000)` on the virtual clock.
    ASSUMED `usleep(µs)`: the caller is suspended until the clock has advanced by at least `µs` microseconds. -/
namespace Sleep

/-- a pending sleep: wake-up time handed to the POSIX layer, and (ghost) call time and requested milliseconds -/
structure Pending where
  wake : Nat
  t0 : Nat
  ms : Nat
deriving DecidableEq, Repr

/-- ghost: a return of Thread::sleep -/
structure Ret where
  tid : Tid
  t0 : Nat
  ms : Nat
  at_ : Nat
deriving Repr

structure St where
  now : Nat
  pc : Tid → Option Pending
  log : List Ret

def init (now : Nat) : St := ⟨now, fun _ => none, []⟩

/-- the factor of `usleep(milliseconds * <factor>)`, read from the CURRENT Thread.cpp (Generated/SyncApi) -/
abbrev usPerMs : Nat := Nstd.Generated.SyncApi.sleepUsPerMs

/-- `Op` = the milliseconds argument -/
def step (s : St) (t : Tid) : Act Nat → Option St
  | .tick q => some { s with now := s.now + q }
  | .call ms =>          -- usleep(milliseconds * usPerMs): microseconds; the POSIX layer counts nanoseconds
    if s.pc t = none then some { s with pc := upd s.pc t (some ⟨s.now + (ms * usPerMs) * 1000, s.now, ms⟩) } else none
  | .run alt =>
    match s.pc t with
    | none => none
    | some p => if alt = 0 ∧ p.wake ≤ s.now then some { s with pc := upd s.pc t none, log := ⟨t, p.t0, p.ms, s.now⟩ :: s.log } else none

inductive Reach (now : Nat) : St → Prop
  | init : Reach now (init now)
  | step {s s' t a} : Reach now s → step s t a = some s' → Reach now s'

end Sleep

end Nstd.Sync
