import Nstd.Sync.Posix
import Nstd.Generated.SyncDeadline
/-
  Property C11, the deadline arithmetic of the three timed waits — stated over the expressions that
  tools/areas/sync.py TRANSLATES from the current `Signal.cpp`, `Monitor.cpp`, `Semaphore.cpp` on every run
  (`Nstd/Generated/SyncDeadline.lean`: the statements between `clock_gettime(CLOCK_REALTIME, &ts)` and the timed POSIX
  wait, symbolically executed into `sec nsec timeout ↦ (tv_sec, tv_nsec)` over `Int`).  A change of those source lines
  changes the generated definitions and these theorems are re-checked against it.

  C's `/` and `%` truncate towards zero, Lean's `Int` operators are Euclidean; they agree on the non-negative operands
  that occur here (the clock value and the time-out are ≥ 0: hypotheses of the theorems; overflow of `time_t`/`long`
  is outside the model).
-/
namespace Nstd.Sync
open Nstd.Generated

/-- what "the deadline is exact" means for a translated computation `f`: from a normalised clock value and a
    non-negative time-out in ms it yields the normalised timespec of `clock + timeout·10⁶ ns` -/
def DeadlineExact (f : Int → Int → Int → Int × Int) : Prop :=
  ∀ sec nsec ms : Int, 0 ≤ sec → 0 ≤ nsec → nsec < 1000000000 → 0 ≤ ms →
    (f sec nsec ms).1 * 1000000000 + (f sec nsec ms).2 = sec * 1000000000 + nsec + ms * 1000000 ∧
    0 ≤ (f sec nsec ms).2 ∧ (f sec nsec ms).2 < 1000000000

/-- an exact computation is the one of the model (`addTimeout` of Posix.lean, used by `mkDeadline` in all three
    transition systems): same seconds, same nanoseconds, for every normalised clock value and every time-out -/
theorem DeadlineExact.agrees_with_model {f : Int → Int → Int → Int × Int} (h : DeadlineExact f) (ts : Timespec) (ms : Nat)
    (hv : ts.nsec < 1000000000) :
    f ts.sec ts.nsec ms = (((addTimeout ts ms).sec : Int), ((addTimeout ts ms).nsec : Int)) := by
  obtain ⟨h1, h2, h3⟩ := h ts.sec ts.nsec ms (by omega) (by omega) (by omega) (by omega)
  have e : f ts.sec ts.nsec ms = ((f ts.sec ts.nsec ms).1, (f ts.sec ts.nsec ms).2) := rfl
  rw [e]
  simp only [addTimeout, Prod.mk.injEq]
  omega

/-- Signal::wait(timeout): the deadline handed to pthread_cond_timedwait is exactly `now + timeout·10⁶ ns`, normalised -/
theorem deadline_exact_signal : DeadlineExact SyncDeadline.signal := by
  intro sec nsec ms h0 h1 h2 h3
  simp only [SyncDeadline.signal]
  omega

/-- Monitor::wait(timeout): the same for its pthread_cond_timedwait -/
theorem deadline_exact_monitor : DeadlineExact SyncDeadline.monitor := by
  intro sec nsec ms h0 h1 h2 h3
  simp only [SyncDeadline.monitor]
  omega

/-- Semaphore::wait(timeout): the same for sem_timedwait -/
theorem deadline_exact_semaphore : DeadlineExact SyncDeadline.semaphore := by
  intro sec nsec ms h0 h1 h2 h3
  simp only [SyncDeadline.semaphore]
  omega

/-- The model's `mkDeadline` (clock_gettime on the virtual clock, then `addTimeout`) is the translated computation of
    each of the three sources, applied to the clock reading. -/
theorem deadline_model_is_translated_code (now ms : Nat) :
    SyncDeadline.signal (clockGettime now).sec (clockGettime now).nsec ms
      = (((mkDeadline now ms).ts.sec : Int), ((mkDeadline now ms).ts.nsec : Int)) ∧
    SyncDeadline.monitor (clockGettime now).sec (clockGettime now).nsec ms
      = (((mkDeadline now ms).ts.sec : Int), ((mkDeadline now ms).ts.nsec : Int)) ∧
    SyncDeadline.semaphore (clockGettime now).sec (clockGettime now).nsec ms
      = (((mkDeadline now ms).ts.sec : Int), ((mkDeadline now ms).ts.nsec : Int)) := by
  have hv : (clockGettime now).nsec < 1000000000 := by simp only [clockGettime]; omega
  exact ⟨deadline_exact_signal.agrees_with_model _ ms hv, deadline_exact_monitor.agrees_with_model _ ms hv,
    deadline_exact_semaphore.agrees_with_model _ ms hv⟩

/-! ### the same statements with C's semantics, for all 64-bit inputs

  `SyncDeadline.<x>C` / `<x>Safe` are generated from the same source statements with C's LP64 semantics (CArith.lean: `/`, `%`
  truncate towards zero; `<x>Safe` = every arithmetic result fits its C type — `int` 32 bits where all operands are `int`,
  otherwise the 64 bits of `long` / `int64` / `time_t` — and no divisor is zero). -/

open Nstd.Sync.CArith in
/-- For EVERY 64-bit time-out (negative ones included) and every normalised clock value below 9·10¹⁸ s: the statements have
    no undefined behaviour (no signed overflow — in particular not in `(timeout % 1000) * 1000000` nor in the additions to
    `tv_sec` / `tv_nsec` —, no division by zero); the result is exactly `clock + timeout·10⁶ ns` with `|tv_nsec| < 10⁹`; and for
    time-outs ≥ 0 it is normalised (`0 ≤ tv_nsec`) and equal to the unbounded computation the `deadline_exact_*` theorems and
    the model use (so C's truncating `/` `%` and Lean's agree where it matters: time-out 0, carries, very long time-outs).
    For a negative time-out `tv_nsec` may come out negative (EINVAL from the timed POSIX wait) or the deadline lies in the
    past (immediate ETIMEDOUT): a false return either way; negative time-outs are outside the model. -/
def Deadline64 (fC : Int → Int → Int → Int × Int) (safe : Int → Int → Int → Prop) (fU : Int → Int → Int → Int × Int) : Prop :=
  ∀ sec nsec ms : Int, 0 ≤ sec → sec ≤ 9000000000000000000 → 0 ≤ nsec → nsec < 1000000000 → in64 ms →
    safe sec nsec ms ∧
    (fC sec nsec ms).1 * 1000000000 + (fC sec nsec ms).2 = sec * 1000000000 + nsec + ms * 1000000 ∧
    -1000000000 < (fC sec nsec ms).2 ∧ (fC sec nsec ms).2 < 1000000000 ∧ in64 (fC sec nsec ms).1 ∧
    (0 ≤ ms → 0 ≤ (fC sec nsec ms).2 ∧ fC sec nsec ms = fU sec nsec ms)

open Nstd.Sync.CArith in
theorem deadline_64bit_no_overflow_exact_signal :
    Deadline64 SyncDeadline.signalC SyncDeadline.signalSafe SyncDeadline.signal := by
  intro sec nsec ms h0 h1 h2 h3 h4
  simp only [in64] at h4
  simp only [SyncDeadline.signalSafe, SyncDeadline.signalC, SyncDeadline.signal, in64, in32, cdiv_eq, cmod_eq, Prod.mk.injEq]
  omega

open Nstd.Sync.CArith in
theorem deadline_64bit_no_overflow_exact_monitor :
    Deadline64 SyncDeadline.monitorC SyncDeadline.monitorSafe SyncDeadline.monitor := by
  intro sec nsec ms h0 h1 h2 h3 h4
  simp only [in64] at h4
  simp only [SyncDeadline.monitorSafe, SyncDeadline.monitorC, SyncDeadline.monitor, in64, in32, cdiv_eq, cmod_eq, Prod.mk.injEq]
  omega

open Nstd.Sync.CArith in
theorem deadline_64bit_no_overflow_exact_semaphore :
    Deadline64 SyncDeadline.semaphoreC SyncDeadline.semaphoreSafe SyncDeadline.semaphore := by
  intro sec nsec ms h0 h1 h2 h3 h4
  simp only [in64] at h4
  simp only [SyncDeadline.semaphoreSafe, SyncDeadline.semaphoreC, SyncDeadline.semaphore, in64, in32, cdiv_eq, cmod_eq, Prod.mk.injEq]
  omega

/-- non-vacuity / corner cases of the C version: time-out 0, carry, the longest time-out, a negative one (tv_nsec < 0) -/
example : SyncDeadline.signalC 5 999000000 0 = (5, 999000000) ∧ SyncDeadline.signalC 5 999000000 1500 = (7, 499000000) ∧
    SyncDeadline.signalC 1700000000 999999999 9223372036854775807 = (9223373736854776, 806999999) ∧
    SyncDeadline.signalC 5 1000000 (-2) = (5, -1000000) := by decide

/-- non-vacuity: a clock phase with nanosecond carry and a time-out above one second -/
example : SyncDeadline.signal 5 999000000 1500 = (7, 499000000) := by decide

end Nstd.Sync
