import Nstd.Common.Basic
import Nstd.Sync.Scenario
import Nstd.Generated.SyncMonitorOrder
import Nstd.Generated.SyncShape
/-
  Line protocol of the Sync area (same lines as harness/sync.cpp):
    reset
    scen <prim> <init> <sec> <nsec> <quantum_ns> <spur> <eintr> [F:<create failures>] [N:<ENOSYS returns of sem_timedwait>] T:<ret>:<op>,<op>,... T:...    -> ok <threads>
    run <t.a>,<t.a>,... | run - | rrun <seed> <prefix>       -> init:<events> <t.a>/<candidates>:<events> ... | <verdict>
-/
open Nstd.Common
namespace Nstd.Sync.Scen

def parseOp (prim : String) (s : String) : Option SOp :=
  let (name, arg) : String × Option String :=
    match s.splitOn "-" with
    | [n] => (n, none)
    | [n, a] => (n, some a)
    | _ => ("", none)
  let op : Option SOp :=
    match name, arg with
    | "lock", none => some .lock
    -- Mutex::Guard / Monitor::Guard (Mutex.hpp, Monitor.hpp): what constructor / destructor / Guard::wait forward to is read from the current headers
    | "glock", none => guardOp (if prim == "mon" then Nstd.Generated.SyncApi.monitorGuardCtor else Nstd.Generated.SyncApi.mutexGuardCtor) none
    | "gunlock", none => guardOp (if prim == "mon" then Nstd.Generated.SyncApi.monitorGuardDtor else Nstd.Generated.SyncApi.mutexGuardDtor) none
    | "gwait", none => if prim == "mon" then guardOp Nstd.Generated.SyncApi.monitorGuardWait none else none
    | "gtwait", some a => if prim == "mon" then a.toNat?.bind fun ms => guardOp Nstd.Generated.SyncApi.monitorGuardWaitTimeout (some ms) else none
    | "tid", none => some .tid
    | "yield", none => some .yield
    | "sleep", some a => a.toNat?.map .sleep
    | "try", some a => a.toNat?.map .try_
    | "unlock", none => some .unlock
    | "signal", none => some .signal
    | "wait", none => some .wait
    | "twait", some a => a.toNat?.map .twait
    | "trywait", none => some .trywait
    | "set", none => some .set
    | "reset", none => some .reset
    | "destroy", none => some .destroy
    | "start", some a => a.toNat?.bind fun j => if j > 0 ∧ j < 8 then some (.start j) else none
    -- the member-function overload of Thread::start (Thread.hpp): stores the functor in the object, then start(proc, param)
    | "mstart", some a => a.toNat?.bind fun j => if j > 0 ∧ j < 8 then some (.mstart j) else none
    -- member-function overload on Thread object j = n / 8 with the body object of program k = n % 8
    | "xstart", some a => a.toNat?.bind fun n => if n / 8 > 0 ∧ n / 8 < 8 then some (.xstart (n / 8) (n % 8)) else none
    | "dtor", some a => a.toNat?.bind fun j => if j > 0 ∧ j < 8 then some (.dtor j) else none
    | "join", some a => a.toNat?.bind fun j => if j > 0 ∧ j < 8 then some (.join j) else none
    | _, _ => none
  op.bind fun o => if opValid prim o then some o else none

def parseProg (prim : String) (tok : String) : Option (Nat × Array SOp) :=
  match tok.splitOn ":" with
  | ["T", r, ops] => do
    let ret ← r.toNat?
    let l ← if ops == "" then some [] else (ops.splitOn ",").mapM (parseOp prim)
    if l.length > 64 then none else pure (ret, l.toArray)
  | _ => none

def mkWorld (prim : String) (init sec nsec quantum spur eintr cfail enosys : Nat) (progs : Array (Nat × Array SOp)) : Option World :=
  let now := sec * 1000000000 + nsec
  let p : Option PrimSt :=
    if prim == "mtx" then some (.mtx Mutex.init)
    else if prim == "sem" then some (.sem (Sem.init init now eintr enosys Nstd.Generated.SyncShape.semTryFirst))
    else if prim == "sig" then some (.sig (Signal.init (init != 0) now spur Nstd.Generated.SyncShape.signalSetSkips Nstd.Generated.SyncShape.signalLazyDeadline))   -- the variants of the current source
    else if prim == "mon" then some (.mon (Monitor.init now spur Nstd.Generated.SyncMonitorOrder.setSignalsFirst))   -- the order of set() in the current source
    else if prim == "thr" then some .thr
    else none
  p.map fun p => { prim := p, thr := Thr.init cfail, slp := Sleep.init now, progs := progs, pos := Array.replicate progs.size 0, quantum := quantum }

def parseScen (ws : List String) : Option World :=
  match ws with
  | "scen" :: prim :: init :: sec :: nsec :: q :: spur :: eintr :: rest => do
    -- optional `F:<n>`: pthread_create may fail n times
    let (cfail, rest) ← match rest with
      | opt :: more =>
        if opt.startsWith "F:" then (opt.drop 2).toString.toNat?.map fun n => (n, more) else some (0, rest)
      | [] => some (0, rest)
    -- optional `N:<n>` (sem only): sem_timedwait may report ENOSYS n times
    let (enosys, progs) ← match rest with
      | opt :: more =>
        if opt.startsWith "N:" then (if prim == "sem" then (opt.drop 2).toString.toNat?.map fun n => (n, more) else none) else some (0, rest)
      | [] => some (0, rest)
    let init ← init.toNat?
    let sec ← sec.toNat?
    let nsec ← nsec.toNat?
    let q ← q.toNat?
    let spur ← spur.toNat?
    let eintr ← eintr.toNat?
    if nsec ≥ 1000000000 ∨ q = 0 ∨ progs.isEmpty ∨ progs.length > 8 then none
    let ps ← progs.mapM (parseProg prim)
    let ok := ps.all fun (_, ops) => ops.all fun o =>
      match o with | .start j | .mstart j | .join j | .dtor j => j < ps.length | .xstart j k => j < ps.length ∧ k < ps.length | _ => true
    if !ok then none
    mkWorld prim init sec nsec q spur eintr cfail enosys ps.toArray
  | _ => none

def parseChoice (s : String) : Option (Nat × Nat) :=
  match s.splitOn "." with
  | [t, a] => do pure (← t.toNat?, ← a.toNat?)
  | _ => none

def parseSchedule (s : String) : Option (List (Nat × Nat)) :=
  if s == "-" then some [] else (s.splitOn ",").mapM parseChoice

def stepLine (st : Option World) (ws : List String) : Option World × String :=
  match ws with
  | ["reset"] => (none, "ok")
  | "scen" :: _ =>
    match parseScen ws with
    | some w => (some w, s!"ok {w.n}")
    | none => (none, "bad-op")
  | ["run", sch] =>
    match st, parseSchedule sch with
    | some w, some pre => (st, runSchedule w pre)
    | _, _ => (st, "bad-op")
  | ["rrun", seed, sch] =>
    match st, seed.toNat?, parseSchedule sch with
    | some w, some sd, some pre => if sd = 0 ∨ sd ≥ 18446744073709551616 then (st, "bad-op") else (st, runSchedule w pre sd)
    | _, _, _ => (st, "bad-op")
  | _ => (st, "bad-op")

end Nstd.Sync.Scen

def main : IO Unit := Nstd.Common.ioLoop (none : Option Nstd.Sync.Scen.World) Nstd.Sync.Scen.stepLine
