import Nstd.Sync.LemmasSignal
/-! Monitor: inductive invariants over `Reach` (all schedules, any number of threads). -/
namespace Nstd.Sync.Monitor

def isBlocked : Pc → Bool
  | .wBlocked _ _ => true
  | _ => false

/-- program points from which a wake-up is under way: a setter that has stored the flag and not yet signalled,
    or a waiter that left the wait set without time-out and will re-check the flag when it gets the mutex -/
def pendingWake (sigFirst : Bool) : Pc → Bool
  | .setUnlock => !sigFirst          -- in the signal-first order the setter at its unlock has already signalled
  | .setSignal | .wRelock _ false => true
  | _ => false

def Pc.dl : Pc → Option Deadline
  | .wEnter dl | .wBlocked dl _ | .wRelock dl _ => dl
  | _ => none

def Good : List FalseRet → Prop
  | [] => True
  | e :: h => (e.dl ≠ none ∧ ∀ d, e.dl = some d → d.t0 + d.ms * 1000000 ≤ e.at_) ∧ Good h

structure Inv (s : St) : Prop where
  wf : ∀ u, u ∈ s.waiters ↔ isBlocked (s.pc u) = true
  counts : s.succ + (if s.flag then 1 else 0) ≤ s.sets
  dlOk : ∀ t d, (s.pc t).dl = some d → d.ts.toNs = d.t0 + d.ms * 1000000 ∧ d.ts.valid = true
  relockTO : ∀ t dl, s.pc t = .wRelock dl true → dl ≠ none ∧ ∀ d, dl = some d → d.ts.toNs ≤ s.now
  good : Good s.flog
  setOwn : ∀ t, s.pc t = .setUnlock → s.m = some t
  /-- in the signal-first order the setter still holds the mutex when it signals -/
  sigOwn : s.sigFirst = true → ∀ t, s.pc t = .setSignal → s.m = some t
  /-- conservation: every set() that raised the flag has been consumed by exactly one successful wait or is still pending -/
  cons : s.succ + (if s.flag then 1 else 0) = s.raised ∧ s.raised ≤ s.sets

theorem inv_init (now spur : Nat) (sf : Bool) : Inv (init now spur sf) := by
  constructor <;> simp [init, isBlocked, Good, Pc.dl]

theorem isBlocked_markSaw (p : Pc) : isBlocked (markSaw p) = isBlocked p := by cases p <;> rfl
theorem dl_markSaw (p : Pc) : (markSaw p).dl = p.dl := by cases p <;> rfl
theorem markSaw_relock (p : Pc) (dl : Option Deadline) (b : Bool) : markSaw p = .wRelock dl b ↔ p = .wRelock dl b := by
  cases p <;> simp [markSaw]
theorem markSaw_setUnlock (p : Pc) : markSaw p = .setUnlock ↔ p = .setUnlock := by cases p <;> simp [markSaw]
theorem wake_setUnlock (p : Pc) : wake p = .setUnlock ↔ p = .setUnlock := by cases p <;> simp [wake]
theorem markSaw_setSignal (p : Pc) : markSaw p = .setSignal ↔ p = .setSignal := by cases p <;> simp [markSaw]
theorem wake_setSignal (p : Pc) : wake p = .setSignal ↔ p = .setSignal := by cases p <;> simp [wake]
theorem isBlocked_wake (p : Pc) : isBlocked (wake p) = false := by cases p <;> rfl
theorem dl_wake (p : Pc) : (wake p).dl = p.dl := by cases p <;> rfl
theorem wake_relockTO (p : Pc) (dl : Option Deadline) : wake p = .wRelock dl true ↔ p = .wRelock dl true := by
  cases p <;> simp [wake]

theorem mem_of_get {l : List Tid} {a : Nat} {w : Tid} (h : l[a]? = some w) : w ∈ l :=
  List.mem_of_getElem? h

set_option maxHeartbeats 1600000 in
theorem inv_step {s s' : St} {t : Tid} {a : Act Op} (h : Inv s) (hs : step s t a = some s') : Inv s' := by
  obtain ⟨h1, h2, h3, h4, h5, h6, h7, h8⟩ := h
  cases a with
  | tick q =>
    simp [step] at hs; subst hs
    refine ⟨h1, h2, h3, ?_, h5, h6, h7, h8⟩
    intro u dl hu; have := h4 u dl hu; refine ⟨this.1, fun d hd => ?_⟩; have := this.2 d hd; simp; omega
  | call op =>
    simp only [step] at hs
    split at hs
    · rename_i hidle
      simp at hs; subst hs
      cases op <;> (refine ⟨?_, ?_, ?_, ?_, ?_, ?_, ?_, ?_⟩ <;> intros <;> grind [upd, isBlocked, Pc.dl, mkDeadline_ok])
    · simp at hs
  | run alt =>
    simp only [step] at hs
    cases hpc : s.pc t <;> simp only [hpc] at hs
    all_goals
      try simp only [afterSignal, goto, done] at hs
      (repeat' split at hs) <;> simp at hs <;> (try subst hs) <;>
        (refine ⟨?_, ?_, ?_, ?_, ?_, ?_, ?_, ?_⟩ <;> intros <;>
          grind [upd, isBlocked, Pc.dl, Good, expired_iff, mem_of_get, isBlocked_markSaw, dl_markSaw, markSaw_relock,
            isBlocked_wake, dl_wake, wake_relockTO, markSaw_setUnlock, wake_setUnlock, markSaw_setSignal, wake_setSignal])

theorem inv_reach {now spur : Nat} {s : St} (h : Reach now spur s) : Inv s := by
  induction h with
  | init sf => exact inv_init _ _ sf
  | step _ hs ih => exact inv_step ih hs

/-- while the flag is set, a waiter that was already blocked when a `set()` stored the flag always has a wake-up under way -/
def NoLost (s : St) : Prop :=
  s.flag = true → ∀ u dl, s.pc u = .wBlocked dl true → ∃ v, pendingWake s.sigFirst (s.pc v) = true

theorem noLost_init (now spur : Nat) (sf : Bool) : NoLost (init now spur sf) := by
  intro h; simp [init] at h

set_option maxHeartbeats 1600000 in
theorem noLost_step {s s' : St} {t : Tid} {a : Act Op} (hi : Inv s) (h : NoLost s) (hs : step s t a = some s') :
    NoLost s' := by
  obtain ⟨h1, h2, h3, h4, h5, h6, h7, h8⟩ := hi
  cases a with
  | tick q => simp [step] at hs; subst hs; exact h
  | call op =>
    simp only [step] at hs
    split at hs
    · rename_i hidle
      simp at hs; subst hs
      intro hf u dl hu
      obtain ⟨v, hv⟩ := h hf u dl (by cases op <;> grind [upd])
      exact ⟨v, by cases op <;> grind [upd, pendingWake]⟩
    · simp at hs
  | run alt =>
    simp only [step] at hs
    cases hpc : s.pc t <;> simp only [hpc] at hs
    case setSignal =>
      split at hs
      · rename_i w hw
        have hwb := (h1 w).1 (mem_of_get hw)
        have hwt : w ≠ t := by intro e; subst e; simp [hpc, isBlocked] at hwb
        cases hsf : s.sigFirst <;> (simp [afterSignal, hsf, done, goto] at hs; subst hs) <;>
        · intro hf u dl hu
          refine ⟨w, ?_⟩
          cases hp : s.pc w <;> simp [hp, isBlocked] at hwb
          simp [upd, hwt, wake, pendingWake]
      · rename_i hnone
        split at hs
        · rename_i h0
          intro hf u dl hu
          exfalso
          have hu' : s.pc u = .wBlocked dl true := by
            cases hsf : s.sigFirst <;> (simp [afterSignal, hsf, done, goto] at hs; subst hs) <;>
            · have hut : u ≠ t := by intro e; subst e; simp [upd] at hu
              simpa [upd, hut] using hu
          replace hu := hu'
          have hs := ()
          have hm := (h1 u).2 (by simp [hu, isBlocked])
          subst h0
          cases hw : s.waiters with
          | nil => simp [hw] at hm
          | cons a l => simp [hw] at hnone
        · simp at hs
    all_goals
      try simp only [goto, done] at hs
      (repeat' split at hs) <;> simp at hs <;> (try subst hs) <;>
        (intro hf u dl hu
         first
         | (exfalso; grind [upd, isBlocked, pendingWake, markSaw, wake]; done)
         | (exact ⟨t, by grind [upd, pendingWake]⟩)
         | (obtain ⟨v, hv⟩ := h (by grind) u dl (by grind [upd]); exact ⟨v, by grind [upd, pendingWake]⟩))

end Nstd.Sync.Monitor

namespace Nstd.Sync.Monitor
theorem noLost_reach {now spur : Nat} {s : St} (h : Reach now spur s) : NoLost s := by
  induction h with
  | init sf => exact noLost_init _ _ sf
  | step hr hs ih => exact noLost_step (inv_reach hr) ih hs

theorem good_mem {l : List FalseRet} (h : Good l) :
    ∀ e ∈ l, e.dl ≠ none ∧ ∀ d, e.dl = some d → d.t0 + d.ms * 1000000 ≤ e.at_ := by
  induction l with
  | nil => intro e he; simp at he
  | cons x xs ih =>
    intro e he
    simp only [List.mem_cons] at he
    rcases he with rfl | he
    · exact h.1
    · exact ih h.2 e he
end Nstd.Sync.Monitor
