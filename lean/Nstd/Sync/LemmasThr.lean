import Nstd.Sync.Model
/-! Thread: the handle kept in a Thread object always names a thread that was really created, and the thread runs the
    function that the successful start() handed over (inductive invariant over `Reach`). -/
namespace Nstd.Sync.Thr

/-- library content of start (both overloads) / join / ~Thread:
    * `thread` is set exactly by a successful pthread_create and cleared only after the join, so an attached object
      always refers to an existing thread, and a thread that has not begun yet belongs to an attached object;
    * the functor stored by the member-function overload is not touched while the object is attached, so a thread that
      has not yet read it will read the one its start() stored (`started`);
    * a running thread executes the body `started` names, a finished one has returned `val` of it. -/
structure Inv (val : Nat → Nat) (s : St) : Prop where
  attached : ∀ j, s.handle j = true → s.status j ≠ .none
  createdAttached : ∀ j b, s.status j = .created b → s.handle j = true
  viaFunc : ∀ j, s.status j = .created none → s.started j = some (s.func j)
  direct : ∀ j k, s.status j = .created (some k) → s.started j = some k
  running : ∀ j k, s.status j = .running k → s.started j = some k
  finished : ∀ j v, s.status j = .finished v → ∃ k, s.started j = some k ∧ v = val k

theorem inv_init (val : Nat → Nat) (cfail : Nat) : Inv val (init cfail) := by
  constructor <;> intro j <;> simp [init] <;> intros <;> grind

theorem inv_step {val : Nat → Nat} {s s' : St} {t : Tid} {a : Act} (h : Inv val s) (hs : step val s t a = some s') :
    Inv val s' := by
  obtain ⟨h1, h2, h3, h4, h5, h6⟩ := h
  cases a with
  | begin_ =>
    simp only [step] at hs
    split at hs <;> simp at hs <;> subst hs <;>
      (refine ⟨?_, ?_, ?_, ?_, ?_, ?_⟩ <;> intros <;> grind [upd])
  | exit =>
    simp only [step] at hs
    split at hs
    · split at hs <;> simp at hs
      subst hs
      refine ⟨?_, ?_, ?_, ?_, ?_, ?_⟩ <;> intros <;> grind [upd]
    · simp at hs
  | api a =>
    cases a with
    | tick q => simp [step] at hs; subst hs; exact ⟨h1, h2, h3, h4, h5, h6⟩
    | call op =>
      simp only [step] at hs
      split at hs
      · cases op <;> (simp only [] at hs; split at hs <;> simp [done] at hs <;> subst hs <;>
          (refine ⟨?_, ?_, ?_, ?_, ?_, ?_⟩ <;> intros <;> grind [upd]))
      · simp at hs
    | run alt =>
      simp only [step] at hs
      cases hp : s.pc t <;> simp only [hp] at hs
      all_goals
        try simp only [done] at hs
        (repeat' split at hs) <;> simp at hs <;> (try subst hs) <;>
          (refine ⟨?_, ?_, ?_, ?_, ?_, ?_⟩ <;> intros <;> grind [upd, Option.getD])

theorem inv_reach {val : Nat → Nat} {cfail : Nat} {s : St} (h : Reach val cfail s) : Inv val s := by
  induction h with
  | init => exact inv_init _ _
  | step _ hs ih => exact inv_step ih hs

end Nstd.Sync.Thr
