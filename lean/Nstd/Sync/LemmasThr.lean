import Nstd.Sync.Model
/-! Thread: the handle kept in a Thread object always names a thread that was really created (inductive invariant). -/
namespace Nstd.Sync.Thr

/-- library content of start/join/~Thread: `thread` is set exactly by a successful pthread_create and cleared only after
    the join, so an attached object always refers to an existing thread; a thread never goes back to "not created" -/
def Inv (s : St) : Prop := ∀ j, s.handle j = true → s.status j ≠ .none

theorem inv_step {s s' : St} {t : Tid} {a : Act} (h : Inv s) (hs : step s t a = some s') : Inv s' := by
  unfold Inv at *
  cases a with
  | begin_ =>
    simp only [step] at hs
    split at hs <;> simp at hs
    subst hs; intro j hj; grind [upd]
  | exit v =>
    simp only [step] at hs
    split at hs <;> simp at hs
    subst hs; intro j hj; grind [upd]
  | api a =>
    cases a with
    | tick q => simp [step] at hs; subst hs; exact h
    | call op =>
      simp only [step] at hs
      split at hs
      · cases op <;> (simp only [] at hs; split at hs <;> simp [done] at hs <;> subst hs <;> exact h)
      · simp at hs
    | run alt =>
      simp only [step] at hs
      cases hp : s.pc t <;> simp only [hp] at hs
      all_goals
        try simp only [done] at hs
        (repeat' split at hs) <;> simp at hs <;> (try subst hs) <;> (intro j hj; grind [upd])

theorem inv_reach {cfail : Nat} {s : St} (h : Reach cfail s) : Inv s := by
  induction h with
  | init => intro j hj; simp [init] at hj
  | step _ hs ih => exact inv_step ih hs

end Nstd.Sync.Thr
