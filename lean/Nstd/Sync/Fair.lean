import Nstd.Sync.Model
/-! Infinite runs and fairness, generic over the transition systems of Model.lean.
    `WeakFair prog`: a thread whose progress step (`.run 0` at a program point that is neither idle nor blocked in a
    condition wait) is enabled continuously from some point on eventually takes it.
    `StrongFair lk`: a thread whose lock-acquisition step is enabled infinitely often eventually takes it
    (a starvation-free mutex; weak fairness alone does not give this: other threads may take the mutex every time
    it is free). -/
namespace Nstd.Sync

structure Run (σ Op : Type) (step : σ → Tid → Act Op → Option σ) where
  st : Nat → σ
  who : Nat → Tid
  act : Nat → Act Op
  ok : ∀ n, step (st n) (who n) (act n) = some (st (n + 1))

variable {σ Op : Type} {step : σ → Tid → Act Op → Option σ}

def Run.takes (r : Run σ Op step) (m : Nat) (t : Tid) : Prop := r.who m = t ∧ r.act m = .run 0

def WeakFair (r : Run σ Op step) (prog : σ → Tid → Bool) : Prop :=
  ∀ t n, (∀ m, n ≤ m → prog (r.st m) t = true) → ∃ m, n ≤ m ∧ r.takes m t

def StrongFair (r : Run σ Op step) (lk : σ → Tid → Bool) : Prop :=
  ∀ t n, (∀ k, n ≤ k → ∃ j, k ≤ j ∧ lk (r.st j) t = true) → ∃ m, n ≤ m ∧ r.takes m t

/-- a state predicate that survives every step except thread `t`'s progress step holds until `t` takes that step -/
theorem stable_until (r : Run σ Op step) (P : σ → Prop) (t : Tid) (n : Nat) (hP : P (r.st n))
    (hstab : ∀ m, n ≤ m → P (r.st m) → ¬ r.takes m t → P (r.st (m + 1)))
    (hno : ∀ m, n ≤ m → ¬ (P (r.st m) ∧ r.takes m t)) : ∀ m, n ≤ m → P (r.st m) := by
  intro m hm
  induction m with
  | zero => have : n = 0 := by omega
            subst this; exact hP
  | succ k ih =>
    by_cases hk : n ≤ k
    · have hpk := ih hk
      exact hstab k hk hpk (fun ht => hno k hk ⟨hpk, ht⟩)
    · have : n = k + 1 := by omega
      subst this; exact hP

/-- weak fairness: `t` eventually takes its progress step from a state in which `P` still holds -/
theorem wf_step (r : Run σ Op step) {prog : σ → Tid → Bool} (hwf : WeakFair r prog) (P : σ → Prop) (t : Tid) (n : Nat)
    (hP : P (r.st n))
    (hprog : ∀ m, n ≤ m → P (r.st m) → prog (r.st m) t = true)
    (hstab : ∀ m, n ≤ m → P (r.st m) → ¬ r.takes m t → P (r.st (m + 1))) :
    ∃ m, n ≤ m ∧ P (r.st m) ∧ r.takes m t := by
  apply Classical.byContradiction
  intro hcon
  have hno : ∀ m, n ≤ m → ¬ (P (r.st m) ∧ r.takes m t) := fun m hm h => hcon ⟨m, hm, h.1, h.2⟩
  have hall := stable_until r P t n hP hstab hno
  obtain ⟨m, hm, ht⟩ := hwf t n (fun m hm => hprog m hm (hall m hm))
  exact hno m hm ⟨hall m hm, ht⟩

/-- strong fairness: the same for a step that is only enabled infinitely often while `P` holds -/
theorem sf_step (r : Run σ Op step) {lk : σ → Tid → Bool} (hsf : StrongFair r lk) (P : σ → Prop) (t : Tid) (n : Nat)
    (hP : P (r.st n))
    (hio : (∀ m, n ≤ m → P (r.st m)) → ∀ k, n ≤ k → ∃ j, k ≤ j ∧ lk (r.st j) t = true)
    (hstab : ∀ m, n ≤ m → P (r.st m) → ¬ r.takes m t → P (r.st (m + 1))) :
    ∃ m, n ≤ m ∧ P (r.st m) ∧ r.takes m t := by
  apply Classical.byContradiction
  intro hcon
  have hno : ∀ m, n ≤ m → ¬ (P (r.st m) ∧ r.takes m t) := fun m hm h => hcon ⟨m, hm, h.1, h.2⟩
  have hall := stable_until r P t n hP hstab hno
  obtain ⟨m, hm, ht⟩ := hsf t n (hio hall)
  exact hno m hm ⟨hall m hm, ht⟩

/-- weak fairness, "leaves" form: if `P` makes `t`'s progress step enabled and that step ends `P`, then `P` ends -/
theorem wf_leaves (r : Run σ Op step) {prog : σ → Tid → Bool} (hwf : WeakFair r prog) (P : σ → Prop) (t : Tid) (n : Nat)
    (hP : P (r.st n))
    (hprog : ∀ m, n ≤ m → P (r.st m) → prog (r.st m) t = true)
    (htake : ∀ m, n ≤ m → P (r.st m) → r.takes m t → ¬ P (r.st (m + 1))) :
    ∃ m, n ≤ m ∧ P (r.st m) ∧ ¬ P (r.st (m + 1)) := by
  apply Classical.byContradiction
  intro hcon
  have hall : ∀ m, n ≤ m → P (r.st m) := by
    intro m hm
    induction m with
    | zero => have : n = 0 := by omega
              subst this; exact hP
    | succ k ih =>
      by_cases hk : n ≤ k
      · exact Classical.byContradiction fun h => hcon ⟨k, hk, ih hk, h⟩
      · have : n = k + 1 := by omega
        subst this; exact hP
  obtain ⟨m, hm, ht⟩ := hwf t n (fun m hm => hprog m hm (hall m hm))
  exact htake m hm (hall m hm) ht (hall (m + 1) (by omega))

/-- strong fairness, "leaves" form -/
theorem sf_leaves (r : Run σ Op step) {lk : σ → Tid → Bool} (hsf : StrongFair r lk) (P : σ → Prop) (t : Tid) (n : Nat)
    (hP : P (r.st n))
    (hio : (∀ m, n ≤ m → P (r.st m)) → ∀ k, n ≤ k → ∃ j, k ≤ j ∧ lk (r.st j) t = true)
    (htake : ∀ m, n ≤ m → P (r.st m) → r.takes m t → ¬ P (r.st (m + 1))) :
    ∃ m, n ≤ m ∧ P (r.st m) ∧ ¬ P (r.st (m + 1)) := by
  apply Classical.byContradiction
  intro hcon
  have hall : ∀ m, n ≤ m → P (r.st m) := by
    intro m hm
    induction m with
    | zero => have : n = 0 := by omega
              subst this; exact hP
    | succ k ih =>
      by_cases hk : n ≤ k
      · exact Classical.byContradiction fun h => hcon ⟨k, hk, ih hk, h⟩
      · have : n = k + 1 := by omega
        subst this; exact hP
  obtain ⟨m, hm, ht⟩ := hsf t n (hio hall)
  exact htake m hm (hall m hm) ht (hall (m + 1) (by omega))

end Nstd.Sync
