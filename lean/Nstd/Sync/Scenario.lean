import Nstd.Sync.Model
/-
  Scenario interpreter of the Sync driver: 1..8 threads, each running a straight-line program of API
  calls on ONE primitive, thread 0 being the process' main thread.  It only *drives* the transition
  systems of Model.lean (`step` is the function the theorems are about): a schedule choice `(t, alt)`
  becomes `step … t (.run alt)`; when that makes the call return, the thread's next call is begun with
  `step … t (.call op)` in the same atomic step — exactly what the real thread does between two POSIX
  calls.  Enabled candidates are computed by probing `step`.
-/
namespace Nstd.Sync.Scen

inductive SOp
  | lock | try_ (skip : Nat) | unlock | signal | wait | twait (ms : Nat) | trywait | set | reset
  | start (j : Nat) | join (j : Nat) | dtor (j : Nat)
  /-- `Thread::start(obj, &X::f)` (member-function overload) on Thread object j with the body of program j -/
  | mstart (j : Nat)
  /-- the same overload on Thread object j with the body of program k: `Thr.Op.mstart j k`.  The interpreter can only
      follow it when the object is attached (the call fails and changes nothing): thread j running program k ≠ j has no
      representation in `World` -/
  | xstart (j k : Nat)
  /-- delete the primitive (only generated where no correct implementation touches it afterwards) -/
  | destroy
  /-- `Thread::getCurrentThreadId()` / `Thread::yield()`: no call of the simulated POSIX layer, no model state; they return -/
  | tid | yield
  /-- `Thread::sleep(ms)`: a step of the `Sleep` system (virtual clock) -/
  | sleep (ms : Nat)
deriving DecidableEq, Repr

inductive Kind | normal | spur | eintr | timeout | tick
deriving DecidableEq, Repr

inductive PrimSt
  | mtx (s : Mutex.St) | sem (s : Sem.St) | sig (s : Signal.St) | mon (s : Monitor.St) | thr

structure World where
  prim : PrimSt
  thr : Thr.St
  /-- Thread::sleep; its clock runs in step with the primitive's -/
  slp : Sleep.St
  progs : Array (Nat × Array SOp)
  pos : Array Nat
  quantum : Nat

/-- what a Guard operation of the scenario language means for the model: the (single) call the Guard member forwards to,
    as read from the CURRENT Mutex.hpp / Monitor.hpp (Generated/SyncApi); a Guard member that does anything else has no
    counterpart here (the op is then rejected by the driver and the correspondence run reports the broken tie) -/
def guardOp (l : List Nstd.Generated.SyncApi.Call) (arg : Option Nat) : Option SOp :=
  match l, arg with
  | [.lock], none => some .lock
  | [.unlock], none => some .unlock
  | [.wait], none => some .wait
  | [.waitTimeout], some ms => some (.twait ms)
  | _, _ => none

def valStr : Val → String
  | .unit => "v"
  | .bool b => if b then "1" else "0"
  | .num n => toString n

/-! ### dispatch to the five systems -/

def primIdle (p : PrimSt) (t : Tid) : Bool :=
  match p with
  | .mtx s => s.pc t == .idle | .sem s => s.pc t == .idle | .sig s => s.pc t == .idle | .mon s => s.pc t == .idle
  | .thr => true

def primRet (p : PrimSt) (t : Tid) : Option Val :=
  match p with
  | .mtx s => s.ret t | .sem s => s.ret t | .sig s => s.ret t | .mon s => s.ret t | .thr => none

def primCall (p : PrimSt) (t : Tid) (op : SOp) : Option PrimSt :=
  match p, op with
  | .mtx s, .lock => (Mutex.step s t (.call .lock)).map .mtx
  | .mtx s, .try_ _ => (Mutex.step s t (.call .tryLock)).map .mtx
  | .mtx s, .unlock => (Mutex.step s t (.call .unlock)).map .mtx
  | .sem s, .signal => (Sem.step s t (.call .signal)).map .sem
  | .sem s, .wait => (Sem.step s t (.call .wait)).map .sem
  | .sem s, .twait ms => (Sem.step s t (.call (.twait ms))).map .sem
  | .sem s, .trywait => (Sem.step s t (.call .tryWait)).map .sem
  | .sig s, .set => (Signal.step s t (.call .set)).map .sig
  | .sig s, .reset => (Signal.step s t (.call .reset)).map .sig
  | .sig s, .wait => (Signal.step s t (.call .wait)).map .sig
  | .sig s, .twait ms => (Signal.step s t (.call (.twait ms))).map .sig
  | .mon s, .lock => (Monitor.step s t (.call .lock)).map .mon
  | .mon s, .try_ _ => (Monitor.step s t (.call .tryLock)).map .mon
  | .mon s, .unlock => (Monitor.step s t (.call .unlock)).map .mon
  | .mon s, .wait => (Monitor.step s t (.call .wait)).map .mon
  | .mon s, .twait ms => (Monitor.step s t (.call (.twait ms))).map .mon
  | .mon s, .set => (Monitor.step s t (.call .set)).map .mon
  | _, _ => none

/-- is the op part of the primitive's API (checked when the scenario is parsed) -/
def opValid (prim : String) (op : SOp) : Bool :=
  match op with
  | .start _ | .mstart _ | .join _ | .dtor _ | .xstart _ _ => true
  | .destroy => prim == "sig" || prim == "mon"
  | .tid | .yield | .sleep _ => true
  | .lock | .try_ _ | .unlock => prim == "mtx" || prim == "mon"
  | .signal | .trywait => prim == "sem"
  | .wait | .twait _ => prim == "sem" || prim == "sig" || prim == "mon"
  | .set => prim == "sig" || prim == "mon"
  | .reset => prim == "sig"

def primRun (p : PrimSt) (t : Tid) (alt : Nat) : Option PrimSt :=
  match p with
  | .mtx s => (Mutex.step s t (.run alt)).map .mtx
  | .sem s => (Sem.step s t (.run alt)).map .sem
  | .sig s => (Signal.step s t (.run alt)).map .sig
  | .mon s => (Monitor.step s t (.run alt)).map .mon
  | .thr => none

def primTick (p : PrimSt) (q : Nat) : PrimSt :=
  match p with
  | .mtx s => .mtx s
  | .sem s => match Sem.step s 0 (.tick q) with | some s' => .sem s' | none => .sem s
  | .sig s => match Signal.step s 0 (.tick q) with | some s' => .sig s' | none => .sig s
  | .mon s => match Monitor.step s 0 (.tick q) with | some s' => .mon s' | none => .mon s
  | .thr => .thr

/-- classification of an enabled alternative (only used by the default policy of the scheduler) -/
def primKind (p : PrimSt) (t : Tid) (alt : Nat) : Kind :=
  match p with
  | .sem s => (match s.pc t with
      | .wait => if alt = 1 then .eintr else .normal
      -- alternative 3 = ENOSYS (budgeted, never taken by the default policy)
      | .twait _ => if alt = 1 ∨ alt = 3 then .eintr else if alt = 2 then .timeout else .normal
      | _ => .normal)
  | .sig s => (match s.pc t with
      | .wBlocked _ => if alt = 0 then .spur else .timeout
      | _ => .normal)
  | .mon s => (match s.pc t with
      | .wBlocked _ _ => if alt = 0 then .spur else .timeout
      | _ => .normal)
  | _ => .normal

def primMaxAlt (p : PrimSt) : Nat :=
  match p with
  | .mon s => max 3 s.waiters.length
  | _ => 4

/-- a tick is offered while some thread sits in a timed wait whose (well-formed) deadline lies in the future -/
def primWantsTick (p : PrimSt) (t : Tid) : Bool :=
  match p with
  | .sem s => (match s.pc t with
      | .twait d => d.ts.valid && !d.expired s.now
      | .pollSleep _ _ wake => decide (s.now < wake)      -- the usleep of the ENOSYS polling loop
      | _ => false)
  | .sig s => (match s.pc t with | .wBlocked (some d) => d.ts.valid && !d.expired s.now | _ => false)
  | .mon s => (match s.pc t with | .wBlocked (some d) _ => d.ts.valid && !d.expired s.now | _ => false)
  | _ => false

/-! ### the interpreter -/

def World.n (w : World) : Nat := w.progs.size

/-- the value returned by thread body k = the `T:<ret>:` of program k -/
def World.val (w : World) (k : Nat) : Nat := (w.progs[k]?.map (·.1)).getD 0

def World.live (w : World) (t : Tid) : Bool :=
  match w.thr.status t with | .created _ | .running _ => true | _ => false

/-- enabled alternatives of thread t -/
def World.alts (w : World) (t : Tid) : List (Nat × Kind) :=
  match w.thr.status t with
  | .created _ => [(0, .normal)]
  | .running _ =>
    if w.thr.pc t != .idle then
      -- alternative 1 of a pending pthread_create = the call fails (budgeted; never taken by the default policy)
      [(0, Kind.normal), (1, Kind.eintr)].filter fun (a, _) => (Thr.step w.val w.thr t (.api (.run a))).isSome
    else if (w.slp.pc t).isSome then
      if (Sleep.step w.slp t (.run 0)).isSome then [(0, Kind.normal)] else []
    else
      (List.range (primMaxAlt w.prim)).filterMap fun a =>
        if (primRun w.prim t a).isSome then some (a, primKind w.prim t a) else none
  | _ => []

def World.cands (w : World) : List (Nat × Nat × Kind) :=
  let th := (List.range w.n).flatMap fun t => (w.alts t).map fun (a, k) => (t, a, k)
  let tick := (List.range w.n).any fun t => (w.thr.status t).isRunning && w.thr.pc t == .idle &&
    (primWantsTick w.prim t || ((w.slp.pc t).isSome && (Sleep.step w.slp t (.run 0)).isNone))
  if tick then th ++ [(99, 0, .tick)] else th

/-- thread t has just returned from a call or begun to run: begin its next call(s) up to the next POSIX
    operation, or finish the thread.  Returns `none` on an internal inconsistency. -/
def advance (fuel : Nat) (w : World) (t : Tid) (evs : List String) : Option (World × List String) :=
  match fuel with
  | 0 => none
  | fuel + 1 =>
    match w.progs[t]? with
    | none => none
    | some (_, ops) =>
      let k := w.pos[t]?.getD 0
      match ops[k]? with
      | none =>        -- the thread function returns (the value of its body: `World.val`)
        (Thr.step w.val w.thr t .exit).map fun th => ({ w with thr := th }, evs)
      | some (.start j) =>
        match Thr.step w.val w.thr t (.api (.call (.start j j))) with
        | none => none
        | some th =>
          if th.pc t == .idle then
            advance fuel { w with thr := th, pos := w.pos.set! t (k + 1) } t
              (evs ++ [s!"{k}={valStr ((th.ret t).getD .unit)}"])
          else some ({ w with thr := th }, evs)
      | some (.mstart j) =>
        match Thr.step w.val w.thr t (.api (.call (.mstart j j))) with
        | none => none
        | some th =>
          if th.pc t == .idle then
            advance fuel { w with thr := th, pos := w.pos.set! t (k + 1) } t
              (evs ++ [s!"{k}={valStr ((th.ret t).getD .unit)}"])
          else some ({ w with thr := th }, evs)
      | some (.join j) =>
        match Thr.step w.val w.thr t (.api (.call (.join j))) with
        | none => none
        | some th =>
          if th.pc t == .idle then
            advance fuel { w with thr := th, pos := w.pos.set! t (k + 1) } t
              (evs ++ [s!"{k}={valStr ((th.ret t).getD .unit)}"])
          else some ({ w with thr := th }, evs)
      | some (.xstart j b) =>
        -- only followed on an attached object (`start` returns false at once and the model says what that leaves
        -- unchanged: the stored functor); otherwise the scenario is ill-formed for this interpreter
        if w.thr.handle j then
          match Thr.step w.val w.thr t (.api (.call (.mstart j b))) with
          | none => none
          | some th =>
            if th.pc t == .idle then
              advance fuel { w with thr := th, pos := w.pos.set! t (k + 1) } t
                (evs ++ [s!"{k}={valStr ((th.ret t).getD .unit)}"])
            else none
        else none
      | some (.dtor j) =>
        match Thr.step w.val w.thr t (.api (.call (.dtor j))) with
        | none => none
        | some th =>
          if th.pc t == .idle then
            advance fuel { w with thr := th, pos := w.pos.set! t (k + 1) } t
              (evs ++ [s!"{k}={valStr ((th.ret t).getD .unit)}"])
          else some ({ w with thr := th }, evs)
      | some .destroy =>   -- no POSIX scheduling point; object lifetime is not part of the model
        advance fuel { w with pos := w.pos.set! t (k + 1) } t (evs ++ [s!"{k}=v"])
      | some .tid => advance fuel { w with pos := w.pos.set! t (k + 1) } t (evs ++ [s!"{k}=1"])
      | some (.sleep ms) => (Sleep.step w.slp t (.call ms)).map fun sl => ({ w with slp := sl }, evs)
      | some .yield => advance fuel { w with pos := w.pos.set! t (k + 1) } t (evs ++ [s!"{k}=v"])
      | some op => (primCall w.prim t op).map fun p => ({ w with prim := p }, evs)

/-- the pending call of thread t has returned `v` -/
def returned (w : World) (t : Tid) (v : Val) : Option (World × List String) :=
  match w.progs[t]? with
  | none => none
  | some (_, ops) =>
    let k := w.pos[t]?.getD 0
    let skip := match ops[k]?, v with
      | some (.try_ n), .bool false => n
      | _, _ => 0
    advance (ops.size + 2) { w with pos := w.pos.set! t (k + 1 + skip) } t [s!"{k}={valStr v}"]

def applyChoice (w : World) (t a : Nat) : Option (World × List String) :=
  if t = 99 then
    some ({ w with prim := primTick w.prim w.quantum, slp := (Sleep.step w.slp 0 (.tick w.quantum)).getD w.slp }, [])
  else
    match w.thr.status t with
    | .created _ =>
      (Thr.step w.val w.thr t .begin_).bind fun th => advance ((w.progs[t]?.map (·.2.size)).getD 0 + 2) { w with thr := th } t []
    | .running _ =>
      if w.thr.pc t != .idle then
        (Thr.step w.val w.thr t (.api (.run a))).bind fun th =>
          match th.ret t with
          | some v => returned { w with thr := th } t v
          | none => none
      else if (w.slp.pc t).isSome then
        (Sleep.step w.slp t (.run a)).bind fun sl => returned { w with slp := sl } t .unit
      else
        (primRun w.prim t a).bind fun p =>
          if primIdle p t then
            match primRet p t with
            | some v => returned { w with prim := p } t v
            | none => none
          else some ({ w with prim := p }, [])
    | _ => none

def candStr (c : List (Nat × Nat × Kind)) : String :=
  ",".intercalate (c.map fun (t, a, _) => s!"{t}.{a}")

def evStr (evs : List String) : String := String.join (evs.map (· ++ ","))

def defaultPick (c : List (Nat × Nat × Kind)) : Option (Nat × Nat) :=
  match c.find? (fun (_, _, k) => k == .normal || k == .timeout) with
  | some (t, a, _) => some (t, a)
  | none => (c.find? (fun (_, _, k) => k == .tick)).map fun (t, a, _) => (t, a)

def verdictIds (w : World) : String :=
  String.join (((List.range w.n).filter w.live).map fun t => s!" {t}")

def rndNext (x : UInt64) : UInt64 :=
  let x := x ^^^ (x <<< 13)
  let x := x ^^^ (x >>> 7)
  x ^^^ (x <<< 17)

/-- replay the schedule prefix, then follow the default policy (`rs = none`) or draw every further choice
    from all candidates with xorshift64 (`rs = some state`); returns the trace line -/
def runLoop (fuel : Nat) (w : World) (pre : List (Nat × Nat)) (rs : Option UInt64) (acc : String) : String :=
  match fuel with
  | 0 => acc ++ " | model-fuel"
  | fuel + 1 =>
    if !(List.range w.n).any w.live then acc ++ " | done"
    else
      let c := w.cands
      let pick : Option (Nat × Nat) × Bool :=     -- (choice, choice came from the prefix)
        match pre with
        | (t, a) :: _ => (if c.any (fun (t', a', _) => t' == t && a' == a) then some (t, a) else none, true)
        | [] =>
          match rs with
          | none => (defaultPick c, false)
          | some x => ((c[((rndNext x) >>> 11).toNat % c.length]?).map (fun (t, a, _) => (t, a)), false)
      match pick with
      | (none, true) => acc ++ " | bad-schedule" ++ verdictIds w
      | (none, false) => acc ++ " | deadlock" ++ verdictIds w
      | (some (t, a), _) =>
        match applyChoice w t a with
        | none => acc ++ " | model-inconsistent"
        | some (w', evs) =>
          let rs' := match pre, rs with | [], some x => some (rndNext x) | _, r => r
          runLoop fuel w' pre.tail rs' (acc ++ s!" {t}.{a}/{candStr c}:" ++ evStr evs)

def runSchedule (w0 : World) (pre : List (Nat × Nat)) (seed : Nat := 0) : String :=
  let rs : Option UInt64 :=
    if seed = 0 then none else some (UInt64.ofNat seed * 0x2545F4914F6CDD1D + 0x9E3779B97F4A7C15)
  match advance ((w0.progs[0]?.map (·.2.size)).getD 0 + 2) w0 0 [] with
  | none => "model-inconsistent"
  | some (w, evs) => runLoop 100000 w pre rs ("init:" ++ evStr evs)

end Nstd.Sync.Scen
