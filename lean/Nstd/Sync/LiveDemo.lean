import Nstd.Sync.LiveSem
import Nstd.Sync.LiveSemPoll
import Nstd.Sync.LiveSignal
import Nstd.Sync.LiveMonitor
/-! Concrete fair runs meeting the hypotheses of the liveness theorems (non-vacuity): a short schedule after which
    every thread is idle and only time passes. -/
namespace Nstd.Sync

def Sem.d0 : Sem.St := Sem.init 2 0 0
def Sem.d1 : Sem.St := (Sem.step Sem.d0 1 (.call .wait)).getD Sem.d0
def Sem.d2 : Sem.St := (Sem.step Sem.d1 1 (.run 0)).getD Sem.d0
/-- the schedule (1, .call .wait), (1, .run 0), then only time passes -/
def Sem.demoRun : Run Sem.St Sem.Op Sem.step where
  st := fun k => match k with | 0 => Sem.d0 | 1 => Sem.d1 | _ => Sem.d2
  who := fun k => match k with | 0 => 1 | 1 => 1 | _ => 0
  act := fun k => match k with | 0 => .call .wait | 1 => .run 0 | _ => .tick 0
  ok := by
    intro n
    match n with
    | 0 => rfl
    | 1 => rfl
    | k + 2 => rfl

/-! a run through the ENOSYS polling fallback: ENOSYS at a timed wait of 5 ms on an empty semaphore, one poll, one sleep of
    10 ms, false; then only time passes (1 ns per step, for ever) -/
def Sem.p0 : Sem.St := Sem.init 0 0 0 1
def Sem.p1 : Sem.St := (Sem.step Sem.p0 1 (.call (.twait 5))).getD Sem.p0
def Sem.p2 : Sem.St := (Sem.step Sem.p1 1 (.run 3)).getD Sem.p0
def Sem.p3 : Sem.St := (Sem.step Sem.p2 1 (.run 0)).getD Sem.p0
def Sem.p4 : Sem.St := (Sem.step Sem.p3 0 (.tick 10000000)).getD Sem.p0
def Sem.p5 : Sem.St := (Sem.step Sem.p4 1 (.run 0)).getD Sem.p0
theorem some_getD_of_isSome {α : Type} (o : Option α) (d : α) (h : o.isSome = true) : o = some (o.getD d) := by
  cases o <;> simp_all
theorem Sem.p4pc : Sem.p4.pc 1 = .pollSleep (mkDeadline 0 5) 0 10000000 := by
  simp [Sem.p4, Sem.p3, Sem.p2, Sem.p1, Sem.p0, Sem.step, Sem.init, Sem.goto, upd, Sem.Poll.start, Sem.Poll.sleepUs,
    Nstd.Generated.SyncSemPoll.start, Nstd.Generated.SyncSemPoll.sleepUs, mkDeadline]
theorem Sem.p4now : Sem.p4.now = 10000000 := by
  simp [Sem.p4, Sem.p3, Sem.p2, Sem.p1, Sem.p0, Sem.step, Sem.init, Sem.goto, upd, Sem.Poll.start, Sem.Poll.sleepUs,
    Nstd.Generated.SyncSemPoll.start, Nstd.Generated.SyncSemPoll.sleepUs, mkDeadline]
theorem Sem.p34 : Sem.step Sem.p3 0 (.tick 10000000) = some Sem.p4 := by simp [Sem.p4, Sem.step]
theorem Sem.p45 : Sem.step Sem.p4 1 (.run 0) = some Sem.p5 := by
  apply some_getD_of_isSome
  simp only [Sem.step, Sem.p4pc, Sem.p4now]
  simp
  split <;> rfl
theorem Sem.p4idle (t : Tid) (ht : t ≠ 1) : Sem.p4.pc t = .idle := by
  simp [Sem.p4, Sem.p3, Sem.p2, Sem.p1, Sem.p0, Sem.step, Sem.init, Sem.goto, upd, ht, Sem.Poll.start,
    Nstd.Generated.SyncSemPoll.start, mkDeadline]
theorem Sem.p5idle (t : Tid) : Sem.p5.pc t = .idle := by
  have h := Sem.p45
  simp only [Sem.step, Sem.p4pc, Sem.p4now] at h
  have hs : ¬ (Sem.Poll.stepMs < (mkDeadline 0 5).ms) := by decide
  simp only [Nat.zero_add, Nat.le_refl, and_self, if_true, hs, if_false, Sem.done, Option.some.injEq] at h
  rw [← h]
  by_cases ht : t = 1
  · simp [upd, ht]
  · simp [upd, ht, Sem.p4idle t ht]
def Sem.pollRun : Run Sem.St Sem.Op Sem.step where
  st := fun k => match k with | 0 => Sem.p0 | 1 => Sem.p1 | 2 => Sem.p2 | 3 => Sem.p3 | 4 => Sem.p4 | k + 5 => { Sem.p5 with now := Sem.p5.now + k }
  who := fun k => match k with | 0 => 1 | 1 => 1 | 2 => 1 | 3 => 0 | 4 => 1 | _ => 0
  act := fun k => match k with | 0 => .call (.twait 5) | 1 => .run 3 | 2 => .run 0 | 3 => .tick 10000000 | 4 => .run 0 | _ => .tick 1
  ok := by
    intro n
    match n with
    | 0 => rfl
    | 1 => rfl
    | 2 => rfl
    | 3 => exact Sem.p34
    | 4 => exact Sem.p45
    | k + 5 =>
      show Sem.step { Sem.p5 with now := Sem.p5.now + k } 0 (.tick 1) = some { Sem.p5 with now := Sem.p5.now + (k + 1) }
      simp [Sem.step, Nat.add_assoc]

def Signal.d0 : Signal.St := Signal.init false 0 0
def Signal.d1 : Signal.St := (Signal.step Signal.d0 1 (.call .wait)).getD Signal.d0
def Signal.d2 : Signal.St := (Signal.step Signal.d1 1 (.run 0)).getD Signal.d0
def Signal.d3 : Signal.St := (Signal.step Signal.d2 1 (.run 0)).getD Signal.d0
def Signal.d4 : Signal.St := (Signal.step Signal.d3 2 (.call .set)).getD Signal.d0
def Signal.d5 : Signal.St := (Signal.step Signal.d4 2 (.run 0)).getD Signal.d0
def Signal.d6 : Signal.St := (Signal.step Signal.d5 2 (.run 0)).getD Signal.d0
def Signal.d7 : Signal.St := (Signal.step Signal.d6 2 (.run 0)).getD Signal.d0
def Signal.d8 : Signal.St := (Signal.step Signal.d7 1 (.run 0)).getD Signal.d0
def Signal.d9 : Signal.St := (Signal.step Signal.d8 1 (.run 0)).getD Signal.d0
/-- the schedule (1, .call .wait), (1, .run 0), (1, .run 0), (2, .call .set), (2, .run 0), (2, .run 0), (2, .run 0), (1, .run 0), (1, .run 0), then only time passes -/
def Signal.demoRun : Run Signal.St Signal.Op Signal.step where
  st := fun k => match k with | 0 => Signal.d0 | 1 => Signal.d1 | 2 => Signal.d2 | 3 => Signal.d3 | 4 => Signal.d4 | 5 => Signal.d5 | 6 => Signal.d6 | 7 => Signal.d7 | 8 => Signal.d8 | _ => Signal.d9
  who := fun k => match k with | 0 => 1 | 1 => 1 | 2 => 1 | 3 => 2 | 4 => 2 | 5 => 2 | 6 => 2 | 7 => 1 | 8 => 1 | _ => 0
  act := fun k => match k with | 0 => .call .wait | 1 => .run 0 | 2 => .run 0 | 3 => .call .set | 4 => .run 0 | 5 => .run 0 | 6 => .run 0 | 7 => .run 0 | 8 => .run 0 | _ => .tick 0
  ok := by
    intro n
    match n with
    | 0 => rfl
    | 1 => rfl
    | 2 => rfl
    | 3 => rfl
    | 4 => rfl
    | 5 => rfl
    | 6 => rfl
    | 7 => rfl
    | 8 => rfl
    | k + 9 => rfl

def Monitor.d0 : Monitor.St := Monitor.init 0 0
def Monitor.d1 : Monitor.St := (Monitor.step Monitor.d0 1 (.call .lock)).getD Monitor.d0
def Monitor.d2 : Monitor.St := (Monitor.step Monitor.d1 1 (.run 0)).getD Monitor.d0
def Monitor.d3 : Monitor.St := (Monitor.step Monitor.d2 1 (.call .wait)).getD Monitor.d0
def Monitor.d4 : Monitor.St := (Monitor.step Monitor.d3 1 (.run 0)).getD Monitor.d0
def Monitor.d5 : Monitor.St := (Monitor.step Monitor.d4 2 (.call .set)).getD Monitor.d0
def Monitor.d6 : Monitor.St := (Monitor.step Monitor.d5 2 (.run 0)).getD Monitor.d0
def Monitor.d7 : Monitor.St := (Monitor.step Monitor.d6 2 (.run 0)).getD Monitor.d0
def Monitor.d8 : Monitor.St := (Monitor.step Monitor.d7 2 (.run 0)).getD Monitor.d0
def Monitor.d9 : Monitor.St := (Monitor.step Monitor.d8 1 (.run 0)).getD Monitor.d0
def Monitor.d10 : Monitor.St := (Monitor.step Monitor.d9 1 (.call .unlock)).getD Monitor.d0
def Monitor.d11 : Monitor.St := (Monitor.step Monitor.d10 1 (.run 0)).getD Monitor.d0
/-- the schedule (1, .call .lock), (1, .run 0), (1, .call .wait), (1, .run 0), (2, .call .set), (2, .run 0), (2, .run 0), (2, .run 0), (1, .run 0), (1, .call .unlock), (1, .run 0), then only time passes -/
def Monitor.demoRun : Run Monitor.St Monitor.Op Monitor.step where
  st := fun k => match k with | 0 => Monitor.d0 | 1 => Monitor.d1 | 2 => Monitor.d2 | 3 => Monitor.d3 | 4 => Monitor.d4 | 5 => Monitor.d5 | 6 => Monitor.d6 | 7 => Monitor.d7 | 8 => Monitor.d8 | 9 => Monitor.d9 | 10 => Monitor.d10 | _ => Monitor.d11
  who := fun k => match k with | 0 => 1 | 1 => 1 | 2 => 1 | 3 => 1 | 4 => 2 | 5 => 2 | 6 => 2 | 7 => 2 | 8 => 1 | 9 => 1 | 10 => 1 | _ => 0
  act := fun k => match k with | 0 => .call .lock | 1 => .run 0 | 2 => .call .wait | 3 => .run 0 | 4 => .call .set | 5 => .run 0 | 6 => .run 0 | 7 => .run 0 | 8 => .run 0 | 9 => .call .unlock | 10 => .run 0 | _ => .tick 0
  ok := by
    intro n
    match n with
    | 0 => rfl
    | 1 => rfl
    | 2 => rfl
    | 3 => rfl
    | 4 => rfl
    | 5 => rfl
    | 6 => rfl
    | 7 => rfl
    | 8 => rfl
    | 9 => rfl
    | 10 => rfl
    | k + 11 => rfl

theorem Signal.d9_idle (t : Tid) : Signal.d9.pc t = .idle := by
  by_cases h1 : t = 1 <;> by_cases h2 : t = 2 <;>
    simp [Signal.d9, Signal.d8, Signal.d7, Signal.d6, Signal.d5, Signal.d4, Signal.d3, Signal.d2, Signal.d1, Signal.d0,
      Signal.step, Signal.init, Signal.done, Signal.goto, Signal.loopHead, Signal.relazy, Option.getD, upd, h1, h2]

theorem Monitor.d11_idle (t : Tid) : Monitor.d11.pc t = .idle := by
  by_cases h1 : t = 1 <;> by_cases h2 : t = 2 <;>
    simp [Monitor.d11, Monitor.d10, Monitor.d9, Monitor.d8, Monitor.d7, Monitor.d6, Monitor.d5, Monitor.d4, Monitor.d3,
      Monitor.d2, Monitor.d1, Monitor.d0, Monitor.step, Monitor.init, Monitor.done, Monitor.goto, Monitor.afterSignal, Monitor.markSaw,
      Monitor.wake, Option.getD, upd, h1, h2]

end Nstd.Sync
