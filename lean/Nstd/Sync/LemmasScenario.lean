import Nstd.Sync.Scenario
/-! The scenario interpreter of the driver only moves the primitive along `step`: every primitive state it can
    reach is `Reach`-able in the transition system the theorems are about. -/
namespace Nstd.Sync.Scen

/-- the primitive state of a driver world is a reachable state of its transition system -/
inductive PrimReach : PrimSt → Prop
  | mtx {s} : Mutex.Reach s → PrimReach (.mtx s)
  | sem {c n e s} : Sem.Reach c n e s → PrimReach (.sem s)
  | sig {b n sp s} : Signal.Reach b n sp s → PrimReach (.sig s)
  | mon {n sp s} : Monitor.Reach n sp s → PrimReach (.mon s)
  | thr : PrimReach .thr

theorem primRun_reach {p p' : PrimSt} {t : Tid} {a : Nat} (h : PrimReach p) (hr : primRun p t a = some p') :
    PrimReach p' := by
  cases h with
  | mtx hs => simp only [primRun, Option.map_eq_some_iff] at hr; obtain ⟨s', h1, rfl⟩ := hr; exact .mtx (.step hs h1)
  | sem hs => simp only [primRun, Option.map_eq_some_iff] at hr; obtain ⟨s', h1, rfl⟩ := hr; exact .sem (.step hs h1)
  | sig hs => simp only [primRun, Option.map_eq_some_iff] at hr; obtain ⟨s', h1, rfl⟩ := hr; exact .sig (.step hs h1)
  | mon hs => simp only [primRun, Option.map_eq_some_iff] at hr; obtain ⟨s', h1, rfl⟩ := hr; exact .mon (.step hs h1)
  | thr => simp [primRun] at hr

theorem primCall_reach {p p' : PrimSt} {t : Tid} {op : SOp} (h : PrimReach p) (hr : primCall p t op = some p') :
    PrimReach p' := by
  cases h with
  | mtx hs =>
    cases op <;> simp only [primCall, Option.map_eq_some_iff, reduceCtorEq] at hr <;>
      first | (obtain ⟨s', h1, rfl⟩ := hr; exact .mtx (.step hs h1)) | exact absurd hr (by simp)
  | sem hs =>
    cases op <;> simp only [primCall, Option.map_eq_some_iff, reduceCtorEq] at hr <;>
      first | (obtain ⟨s', h1, rfl⟩ := hr; exact .sem (.step hs h1)) | exact absurd hr (by simp)
  | sig hs =>
    cases op <;> simp only [primCall, Option.map_eq_some_iff, reduceCtorEq] at hr <;>
      first | (obtain ⟨s', h1, rfl⟩ := hr; exact .sig (.step hs h1)) | exact absurd hr (by simp)
  | mon hs =>
    cases op <;> simp only [primCall, Option.map_eq_some_iff, reduceCtorEq] at hr <;>
      first | (obtain ⟨s', h1, rfl⟩ := hr; exact .mon (.step hs h1)) | exact absurd hr (by simp)
  | thr => cases op <;> simp [primCall] at hr

theorem primTick_reach {p : PrimSt} {q : Nat} (h : PrimReach p) : PrimReach (primTick p q) := by
  cases h with
  | mtx hs => exact .mtx hs
  | sem hs => exact .sem (.step (t := 0) (a := .tick q) hs rfl)
  | sig hs => exact .sig (.step (t := 0) (a := .tick q) hs rfl)
  | mon hs => exact .mon (.step (t := 0) (a := .tick q) hs rfl)
  | thr => exact .thr

end Nstd.Sync.Scen
