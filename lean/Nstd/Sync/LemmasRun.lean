import Nstd.Sync.LemmasMutex
import Nstd.Sync.LemmasSem
import Nstd.Sync.LemmasSignal
import Nstd.Sync.LemmasMonitor
/-! Helpers of Props.lean: running a list of scheduler choices (used by the non-vacuity examples) and the
    suffix lemma for the Signal history. -/
namespace Nstd.Sync

/-! ## helpers for the non-vacuity examples: run a list of scheduler choices -/
def Mutex.runActs (s : Mutex.St) : List (Tid × Act Mutex.Op) → Option Mutex.St
  | [] => some s
  | (t, a) :: l => (Mutex.step s t a).bind fun s' => Mutex.runActs s' l
def Signal.runActs (s : Signal.St) : List (Tid × Act Signal.Op) → Option Signal.St
  | [] => some s
  | (t, a) :: l => (Signal.step s t a).bind fun s' => Signal.runActs s' l
def Monitor.runActs (s : Monitor.St) : List (Tid × Act Monitor.Op) → Option Monitor.St
  | [] => some s
  | (t, a) :: l => (Monitor.step s t a).bind fun s' => Monitor.runActs s' l
def Sem.runActs (s : Sem.St) : List (Tid × Act Sem.Op) → Option Sem.St
  | [] => some s
  | (t, a) :: l => (Sem.step s t a).bind fun s' => Sem.runActs s' l

theorem Signal.reach_runActs {set : Bool} {now spur : Nat} {s s' : Signal.St} (l : List (Tid × Act Signal.Op))
    (h : Signal.Reach set now spur s) (hr : Signal.runActs s l = some s') : Signal.Reach set now spur s' := by
  induction l generalizing s with
  | nil => simp [Signal.runActs] at hr; subst hr; exact h
  | cons x l ih =>
    obtain ⟨t, a⟩ := x
    simp only [Signal.runActs] at hr
    cases hs : Signal.step s t a with
    | none => simp [hs] at hr
    | some s1 => simp [hs] at hr; exact ih (.step h hs) hr


theorem Mutex.reach_runActs {s s' : Mutex.St} (l : List (Tid × Act Mutex.Op))
    (h : Mutex.Reach s) (hr : Mutex.runActs s l = some s') : Mutex.Reach s' := by
  induction l generalizing s with
  | nil => simp [Mutex.runActs] at hr; subst hr; exact h
  | cons x l ih =>
    obtain ⟨t, a⟩ := x
    simp only [Mutex.runActs] at hr
    cases hs : Mutex.step s t a with
    | none => simp [hs] at hr
    | some s1 => simp [hs] at hr; exact ih (.step h hs) hr

theorem Monitor.reach_runActs {now spur : Nat} {s s' : Monitor.St} (l : List (Tid × Act Monitor.Op))
    (h : Monitor.Reach now spur s) (hr : Monitor.runActs s l = some s') : Monitor.Reach now spur s' := by
  induction l generalizing s with
  | nil => simp [Monitor.runActs] at hr; subst hr; exact h
  | cons x l ih =>
    obtain ⟨t, a⟩ := x
    simp only [Monitor.runActs] at hr
    cases hs : Monitor.step s t a with
    | none => simp [hs] at hr
    | some s1 => simp [hs] at hr; exact ih (.step h hs) hr

theorem Sem.reach_runActs {c now e : Nat} {s s' : Sem.St} (l : List (Tid × Act Sem.Op))
    (h : Sem.Reach c now e s) (hr : Sem.runActs s l = some s') : Sem.Reach c now e s' := by
  induction l generalizing s with
  | nil => simp [Sem.runActs] at hr; subst hr; exact h
  | cons x l ih =>
    obtain ⟨t, a⟩ := x
    simp only [Sem.runActs] at hr
    cases hs : Sem.step s t a with
    | none => simp [hs] at hr
    | some s1 => simp [hs] at hr; exact ih (.step h hs) hr

theorem Signal.good_suffix {set0 : Bool} : ∀ (pre : List Signal.Ev) {post : List Signal.Ev} {t : Tid} {r : Bool}
    {dl : Option Deadline} {at_ : Nat}, Signal.Good set0 (pre ++ .waitRet t r dl at_ :: post) →
    (r = true → Signal.lastWrite set0 post = true) ∧
    (r = false → dl ≠ none ∧ ∀ d, dl = some d → d.t0 + d.ms * 1000000 ≤ at_)
  | [], _, _, _, _, _, h => ⟨h.1, h.2.1⟩
  | .write _ :: pre, _, _, _, _, _, h => Signal.good_suffix pre (by simpa [Signal.Good] using h)
  | .waitRet _ _ _ _ :: pre, _, _, _, _, _, h => Signal.good_suffix pre (by simp only [List.cons_append, Signal.Good] at h; exact h.2.2)


end Nstd.Sync
