import Nstd.Sync.Model
/-! Mutex: the ghost `held` table agrees with the POSIX mutex (inductive invariant over `Reach`). -/
namespace Nstd.Sync.Mutex

/-- the mutex is recursive; its owner/count are exactly the thread that is inside and its nesting depth -/
def Inv (s : St) : Prop :=
  s.m.recursive = true ∧
  (s.m.owner = none → s.m.count = 0 ∧ ∀ t, s.held t = 0) ∧
  (∀ o, s.m.owner = some o → s.m.count = s.held o ∧ 0 < s.m.count ∧ ∀ t, t ≠ o → s.held t = 0)

theorem inv_init : Inv init := by
  simp [Inv, init, Nstd.Generated.SyncApi.mutexRecursive]

theorem canLock_iff (s : St) (h : Inv s) (t : Tid) :
    s.m.canLock t = true ↔ (s.m.owner = none ∨ s.m.owner = some t) := by
  simp [PMutex.canLock, h.1]

theorem inv_step {s s' : St} {t : Tid} {a : Act Op} (h : Inv s) (hs : step s t a = some s') : Inv s' := by
  obtain ⟨hr, hn, ho⟩ := h
  cases a with
  | tick q => simp [step] at hs; subst hs; exact ⟨hr, hn, ho⟩
  | call op =>
    simp only [step] at hs
    split at hs
    · simp at hs; subst hs; exact ⟨hr, hn, ho⟩
    · simp at hs
  | run alt =>
    simp only [step] at hs
    split at hs
    · simp at hs
    · cases hpc : s.pc t <;> simp only [hpc] at hs
      · simp at hs
      · -- lock
        split at hs
        · rename_i hc
          simp at hs; subst hs
          have hc' := (canLock_iff s ⟨hr, hn, ho⟩ t).1 hc
          refine ⟨by simpa [PMutex.lock] using hr, by simp [PMutex.lock], ?_⟩
          intro o hoo
          simp [PMutex.lock] at hoo; subst hoo
          rcases hc' with hc' | hc'
          · obtain ⟨h0, hz⟩ := hn hc'
            refine ⟨by simp [PMutex.lock, h0, hz], by simp [PMutex.lock], ?_⟩
            intro u hu; simp [upd, hu, hz]
          · obtain ⟨h1, h2, h3⟩ := ho _ hc'
            refine ⟨by simp [PMutex.lock, h1], by simp [PMutex.lock], ?_⟩
            intro u hu; simp [upd, hu, h3 u hu]
        · simp at hs
      · -- tryLock
        split at hs
        · rename_i hc
          simp at hs; subst hs
          have hc' := (canLock_iff s ⟨hr, hn, ho⟩ t).1 hc
          refine ⟨by simpa [PMutex.lock] using hr, by simp [PMutex.lock], ?_⟩
          intro o hoo
          simp [PMutex.lock] at hoo; subst hoo
          rcases hc' with hc' | hc'
          · obtain ⟨h0, hz⟩ := hn hc'
            refine ⟨by simp [PMutex.lock, h0, hz], by simp [PMutex.lock], ?_⟩
            intro u hu; simp [upd, hu, hz]
          · obtain ⟨h1, h2, h3⟩ := ho _ hc'
            refine ⟨by simp [PMutex.lock, h1], by simp [PMutex.lock], ?_⟩
            intro u hu; simp [upd, hu, h3 u hu]
        · simp at hs; subst hs; exact ⟨hr, hn, ho⟩
      · -- unlock
        simp only [PMutex.unlock] at hs
        split at hs
        · rename_i m' hm
          split at hm
          · rename_i hown
            obtain ⟨h1, h2, h3⟩ := ho _ hown
            simp at hm hs; subst hs; subst hm
            split
            · rename_i hle
              refine ⟨by simpa using hr, ?_, by simp⟩
              intro _
              refine ⟨by simp, ?_⟩
              intro u
              by_cases hu : u = t
              · subst hu; simp; omega
              · simp [upd, hu, h3 u hu]
            · rename_i hgt
              refine ⟨by simpa using hr, by simp [hown], ?_⟩
              intro o hoo
              simp [hown] at hoo; subst hoo
              refine ⟨by simp; omega, by simp; omega, ?_⟩
              intro u hu; simp [upd, hu, h3 u hu]
          · simp at hm
        · simp at hs

theorem inv_reach {s : St} (h : Reach s) : Inv s := by
  induction h with
  | init => exact inv_init
  | step _ hs ih => exact inv_step ih hs

end Nstd.Sync.Mutex
