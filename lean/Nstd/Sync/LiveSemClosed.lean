import Nstd.Sync.LiveSem
/-! Semaphore, closed-system accounting over runs: k waiters, k signals ⇒ all return. -/
namespace Nstd.Sync.Sem

/-- how many threads of the list `W` are inside wait / tryWait / wait(timeout) (the ENOSYS polling fallback included) -/
def nw (W : List Tid) (s : St) : Nat := (W.map fun t => if inCall (s.pc t) then 1 else 0).sum

theorem sum_le {W : List Tid} {f g : Tid → Nat} (h : ∀ x, f x ≤ g x) : (W.map f).sum ≤ (W.map g).sum := by
  induction W with
  | nil => simp
  | cons x xs ih => simp only [List.map_cons, List.sum_cons]; have := h x; omega

theorem sum_lt {W : List Tid} {f g : Tid → Nat} (h : ∀ x, f x ≤ g x) {t : Tid} (ht : t ∈ W) (hlt : f t + 1 ≤ g t) :
    (W.map f).sum + 1 ≤ (W.map g).sum := by
  induction W with
  | nil => simp at ht
  | cons x xs ih =>
    simp only [List.map_cons, List.sum_cons]
    simp only [List.mem_cons] at ht
    rcases ht with rfl | ht
    · have := sum_le (W := xs) h; omega
    · have := ih ht; have := h x; omega

theorem nw_le_length (W : List Tid) (s : St) : nw W s ≤ W.length := by
  unfold nw
  induction W with
  | nil => simp
  | cons x xs ih => simp only [List.map_cons, List.sum_cons, List.length_cons]; split <;> omega

theorem nw_pos {W : List Tid} {s : St} {u : Tid} (hu : u ∈ W) (hw : inCall (s.pc u) = true) : 1 ≤ nw W s := by
  have := sum_lt (W := W) (f := fun _ => 0) (g := fun t => if inCall (s.pc t) then 1 else 0) (fun x => Nat.zero_le _) hu
    (by simp [hw])
  unfold nw; omega

/-- one step that does not begin a new wait: no thread becomes a waiter, a success is the return of a waiter, signals only grow -/
theorem closed_step {s s' : St} {t : Tid} {a : Act Op} (hs : step s t a = some s')
    (hc : ∀ op, a = .call op → op = .signal) :
    (∀ x, inCall (s'.pc x) = true → inCall (s.pc x) = true) ∧
    (s'.succ = s.succ ∨ (s'.succ = s.succ + 1 ∧ inCall (s.pc t) = true ∧ inCall (s'.pc t) = false)) ∧
    s.posts ≤ s'.posts := by
  cases a with
  | tick q => simp [step] at hs; subst hs; exact ⟨fun _ h => h, Or.inl rfl, Nat.le_refl _⟩
  | call op =>
    have := hc op rfl; subst this
    simp only [step] at hs
    split at hs
    · simp at hs; subst hs
      refine ⟨?_, Or.inl rfl, Nat.le_refl _⟩
      intro x hx
      by_cases hxt : x = t
      · subst hxt; simp [upd, inCall, waiting, polling] at hx
      · simpa [upd, hxt] using hx
    · simp at hs
  | run alt =>
    simp only [step] at hs
    cases hpc : s.pc t <;> simp only [hpc] at hs
    all_goals
      try simp only [done, goto] at hs
      (repeat' split at hs) <;> simp at hs <;> (try subst hs) <;>
        (refine ⟨?_, ?_, ?_⟩ <;> (try intro x) <;> grind [upd, inCall, waiting, polling])

/-- per-step accounting: `succ + nw` does not grow when no new wait begins and every waiter is in `W` -/
theorem closed_step_nw {s s' : St} {t : Tid} {a : Act Op} (hs : step s t a = some s')
    (hc : ∀ op, a = .call op → op = .signal) (W : List Tid) (hW : ∀ x, inCall (s.pc x) = true → x ∈ W) :
    s'.succ + nw W s' ≤ s.succ + nw W s := by
  obtain ⟨h1, h2, _⟩ := closed_step hs hc
  have hle : ∀ x, (if inCall (s'.pc x) then 1 else 0) ≤ (if inCall (s.pc x) then 1 else 0) := by
    intro x
    by_cases hx : inCall (s'.pc x) = true
    · simp [hx, h1 x hx]
    · simp [hx]
  rcases h2 with h2 | ⟨h2, hwt, hwt'⟩
  · have := sum_le (W := W) hle; unfold nw; omega
  · have := sum_lt (W := W) hle (hW t hwt) (by simp [hwt, hwt'])
    unfold nw; omega

variable {c now e : Nat}

/-- along a run that is closed from `n` on (no new wait begins; all waiters at `n` are in `W`) -/
theorem closed_run (r : Run St Op step) (n : Nat) (W : List Tid)
    (hclosed : ∀ m, n ≤ m → ∀ op, r.act m = .call op → op = .signal)
    (hW : ∀ t, inCall ((r.st n).pc t) = true → t ∈ W) :
    ∀ d, (∀ t, inCall ((r.st (n + d)).pc t) = true → t ∈ W) ∧
      (r.st (n + d)).succ + nw W (r.st (n + d)) ≤ (r.st n).succ + nw W (r.st n) ∧ (r.st n).posts ≤ (r.st (n + d)).posts
  | 0 => ⟨hW, Nat.le_refl _, Nat.le_refl _⟩
  | d + 1 => by
    obtain ⟨i1, i2, i3⟩ := closed_run r n W hclosed hW d
    have hc := hclosed (n + d) (by omega)
    have hst := closed_step (r.ok (n + d)) hc
    have hnw := closed_step_nw (r.ok (n + d)) hc W i1
    refine ⟨fun t ht => i1 t (hst.1 t ht), ?_, ?_⟩
    · show (r.st (n + d + 1)).succ + nw W (r.st (n + d + 1)) ≤ _; omega
    · show _ ≤ (r.st (n + d + 1)).posts; have := hst.2.2; omega

/-- **k waiters, k signals ⇒ all return.**  Run from a reachable state, weakly fair.  From `n` on the system is closed: no
    thread begins a new wait / tryWait / wait(timeout) (signals may still be issued by anybody), and the threads that are
    inside such a call at `n` all belong to the list `W`.  Once enough signals have arrived — at `m0` the count at `n` plus
    the signals since `n` reach `|W|` — every thread that is still inCall returns, and it returns TRUE (unless an untimed
    wait() is interrupted by EINTR): no waiter of `W` can be starved by the others, because each of them succeeds at most
    once.  (A waiter that is no longer inCall at `m0` has already returned — a tryWait or a timed wait may have given up
    before the signals arrived.) -/
theorem closed_system_all_waiters_return (r : Run St Op step) (h0 : Reach c now e (r.st 0)) (hwf : WeakFair r prog)
    (n : Nat) (W : List Tid)
    (hclosed : ∀ m, n ≤ m → ∀ op, r.act m = .call op → op = .signal)
    (hW : ∀ t, inCall ((r.st n).pc t) = true → t ∈ W)
    (m0 : Nat) (hm0 : n ≤ m0) (henough : W.length + (r.st n).posts ≤ (r.st n).count + (r.st m0).posts)
    (u : Tid) (hu : waiting ((r.st m0).pc u) = true)
    (hno : ∀ m, m0 ≤ m → ¬ (r.who m = u ∧ r.act m = .run 3)) :
    ∃ m, m0 ≤ m ∧ (r.st m).pc u = .idle ∧
      ((r.st m).ret u = some (.bool true) ∨ ((r.st m0).pc u = .wait ∧ (r.st m).ret u = some (.bool false))) := by
  apply waiter_eventually_returns' r hwf m0 u hu hno
  intro m hm hP
  have hnm : n ≤ m := by omega
  obtain ⟨i1, i2, i3⟩ := closed_run r n W hclosed hW (m - n)
  obtain ⟨_, _, j3⟩ := closed_run r m0 W (fun k hk => hclosed k (by omega))
    (by have := (closed_run r n W hclosed hW (m0 - n)).1; rwa [Nat.add_sub_cancel' hm0] at this) (m - m0)
  rw [Nat.add_sub_cancel' hnm] at i1 i2 i3
  rw [Nat.add_sub_cancel' hm] at j3
  have huw : inCall ((r.st m).pc u) = true := by rw [hP]; simp [inCall, hu]
  have h1 := nw_pos (i1 u huw) huw
  have h2 := nw_le_length W (r.st n)
  have c1 := (inv_reach (reach_run r h0 m)).cons
  have c2 := (inv_reach (reach_run r h0 n)).cons
  have e1 := init0_reach (reach_run r h0 m)
  have e2 := init0_reach (reach_run r h0 n)
  omega

end Nstd.Sync.Sem
