import Nstd.Sync.Model
/-! Signal: inductive invariants over `Reach` (all schedules, any number of threads). -/
namespace Nstd.Sync

theorem clockGettime_toNs (now : Nat) : (clockGettime now).toNs = now ∧ (clockGettime now).nsec < 1000000000 := by
  simp only [clockGettime, Timespec.toNs]; omega

theorem addTimeout_exact (ts : Timespec) (ms : Nat) :
    (addTimeout ts ms).toNs = ts.toNs + ms * 1000000 ∧ (addTimeout ts ms).nsec < 1000000000 := by
  simp only [addTimeout, Timespec.toNs]; omega

theorem mkDeadline_ok (now ms : Nat) :
    (mkDeadline now ms).ts.toNs = now + ms * 1000000 ∧ (mkDeadline now ms).ts.valid = true ∧
    (mkDeadline now ms).t0 = now ∧ (mkDeadline now ms).ms = ms := by
  have h1 := clockGettime_toNs now
  have h2 := addTimeout_exact (clockGettime now) ms
  refine ⟨?_, ?_, rfl, rfl⟩
  · show (addTimeout (clockGettime now) ms).toNs = _
    omega
  · show (addTimeout (clockGettime now) ms).valid = true
    simp only [Timespec.valid, decide_eq_true_eq]
    exact h2.2

theorem expired_iff (d : Deadline) (now : Nat) : d.expired now = true ↔ d.ts.toNs ≤ now := by
  simp [Deadline.expired]

namespace Signal

theorem relazy_none (lz : Bool) (now : Nat) (dl : Option Deadline) : relazy lz now dl = none ↔ dl = none := by
  cases dl <;> cases lz <;> simp [relazy]

/-- a deadline after `relazy` is the old one or a freshly computed one: well-formed either way -/
theorem relazy_some (lz : Bool) (now : Nat) (dl : Option Deadline) (d' : Deadline) (h : relazy lz now dl = some d') :
    ∃ d, dl = some d ∧ (d' = d ∨ (d' = mkDeadline now d.ms ∧ d'.ts.toNs = d'.t0 + d'.ms * 1000000 ∧ d'.ts.valid = true)) := by
  cases dl with
  | none => simp [relazy] at h
  | some d =>
    cases lz <;> simp [relazy] at h <;> subst h
    · exact ⟨_, rfl, Or.inl rfl⟩
    · have := mkDeadline_ok now d.ms
      exact ⟨_, rfl, Or.inr ⟨rfl, by omega, this.2.1⟩⟩

def holds : Pc → Bool
  | .setBcast | .setUnlock | .resetUnlock | .wUnlock _ _ | .wEnter _ => true
  | _ => false

/-- mutual exclusion of the internal mutex, what the flag is at the program points that have read it, and
    "a blocked waiter while the flag is set ⇒ the mutex is held by a setter that is about to broadcast" -/
structure Inv (s : St) : Prop where
  own : ∀ t, holds (s.pc t) = true → s.m = some t
  ownConv : ∀ v, s.m = some v → holds (s.pc v) = true
  enterFalse : ∀ t dl, s.pc t = .wEnter dl → s.flag = false
  unlockTrue : ∀ t dl, s.pc t = .wUnlock true dl → s.flag = true
  noStuck : s.flag = true → ∀ u dl, s.pc u = .wBlocked dl → s.m ≠ none ∧ ∀ v, s.m = some v → s.pc v = .setBcast
  /-- the setter reaches its broadcast with the flag it has just stored (it still holds the mutex) -/
  bcastTrue : ∀ t, s.pc t = .setBcast → s.flag = true

theorem inv_init (set : Bool) (now spur : Nat) (sk lz : Bool := false) : Inv (init set now spur sk lz) := by
  constructor <;> simp [init, holds]

theorem inv_step {s s' : St} {t : Tid} {a : Act Op} (h : Inv s) (hs : step s t a = some s') : Inv s' := by
  obtain ⟨h1, h0, h2, h3, h4, h5⟩ := h
  cases a with
  | tick q => simp [step] at hs; subst hs; exact ⟨h1, h0, h2, h3, h4, h5⟩
  | call op =>
    simp only [step] at hs
    split at hs
    · rename_i hidle
      simp at hs; subst hs
      cases op <;> (refine ⟨?_, ?_, ?_, ?_, ?_, ?_⟩ <;> intros <;> grind [upd, holds])
    · simp at hs
  | run alt =>
    simp only [step] at hs
    cases hpc : s.pc t <;> simp only [hpc] at hs
    all_goals
      try simp only [loopHead, goto, done] at hs
      (repeat' split at hs) <;> simp at hs <;> (try subst hs) <;>
        (refine ⟨?_, ?_, ?_, ?_, ?_, ?_⟩ <;> intros <;> grind [upd, holds])

theorem inv_reach {set : Bool} {now spur : Nat} {s : St} (h : Reach set now spur s) : Inv s := by
  induction h with
  | init => exact inv_init _ _ _
  | initP sk lz => exact inv_init _ _ _ sk lz
  | step _ hs ih => exact inv_step ih hs

/-! ### history: which flag value a returning wait has seen; deadlines -/

/-- the most recent write of the flag in the history (newest event first), else the initial value -/
def lastWrite (set0 : Bool) : List Ev → Bool
  | [] => set0
  | .write b :: _ => b
  | .waitRet _ _ _ _ :: h => lastWrite set0 h

/-- every `true` return is preceded by a flag value `true`; every `false` return belongs to a timed wait whose
    time-out had expired -/
def Good (set0 : Bool) : List Ev → Prop
  | [] => True
  | .write _ :: h => Good set0 h
  | .waitRet _ r dl at_ :: h =>
    (r = true → lastWrite set0 h = true) ∧
    (r = false → dl ≠ none ∧ ∀ d, dl = some d → d.t0 + d.ms * 1000000 ≤ at_) ∧ Good set0 h

def Pc.dl : Pc → Option Deadline
  | .wLock dl | .wUnlock _ dl | .wEnter dl | .wBlocked dl | .wRelock dl _ => dl
  | _ => none

structure HInv (set0 : Bool) (s : St) : Prop where
  flagHist : s.flag = lastWrite set0 s.hist
  good : Good set0 s.hist
  dlOk : ∀ t d, (s.pc t).dl = some d → d.ts.toNs = d.t0 + d.ms * 1000000 ∧ d.ts.valid = true
  relockTO : ∀ t dl, s.pc t = .wRelock dl true → dl ≠ none ∧ ∀ d, dl = some d → d.ts.toNs ≤ s.now
  unlockF : ∀ t dl, s.pc t = .wUnlock false dl → dl ≠ none ∧ ∀ d, dl = some d → d.ts.toNs ≤ s.now

theorem hinv_init (set : Bool) (now spur : Nat) (sk lz : Bool := false) : HInv set (init set now spur sk lz) := by
  constructor <;> simp [init, lastWrite, Good, Pc.dl]

theorem hinv_step {set0 : Bool} {s s' : St} {t : Tid} {a : Act Op} (hi : Inv s) (h : HInv set0 s)
    (hs : step s t a = some s') : HInv set0 s' := by
  obtain ⟨i1, i0, i2, i3, i4, i5⟩ := hi
  obtain ⟨h1, h2, h3, h4, h5⟩ := h
  cases a with
  | tick q =>
    simp [step] at hs; subst hs
    refine ⟨h1, h2, h3, ?_, ?_⟩
    · intro u dl hu; have := h4 u dl hu; refine ⟨this.1, fun d hd => ?_⟩; have := this.2 d hd; simp; omega
    · intro u dl hu; have := h5 u dl hu; refine ⟨this.1, fun d hd => ?_⟩; have := this.2 d hd; simp; omega
  | call op =>
    simp only [step] at hs
    split at hs
    · rename_i hidle
      simp at hs; subst hs
      cases op <;> (refine ⟨?_, ?_, ?_, ?_, ?_⟩ <;> intros <;> grind [upd, Pc.dl, mkDeadline_ok])
    · simp at hs
  | run alt =>
    simp only [step] at hs
    cases hpc : s.pc t <;> simp only [hpc] at hs
    all_goals
      try simp only [loopHead, goto, done] at hs
      (repeat' split at hs) <;> simp at hs <;> (try subst hs) <;>
        (refine ⟨?_, ?_, ?_, ?_, ?_⟩ <;> intros <;> grind [upd, Pc.dl, lastWrite, Good, expired_iff, relazy_some, relazy_none])

theorem hinv_reach {set : Bool} {now spur : Nat} {s : St} (h : Reach set now spur s) : HInv set s := by
  induction h with
  | init => exact hinv_init _ _ _
  | initP sk lz => exact hinv_init _ _ _ sk lz
  | step hr hs ih => exact hinv_step (inv_reach hr) ih hs

end Signal
end Nstd.Sync
