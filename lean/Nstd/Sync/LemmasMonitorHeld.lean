import Nstd.Sync.LemmasMonitor
/-! Monitor as a lock: who holds the monitor's mutex.  `held t` (ghost) = thread `t` holds it as a CLIENT (after lock / a
    successful tryLock / a return of the condition wait, until unlock / the next entry into the condition wait); the only
    other owners are `set()` calls between their lock and their unlock. -/
namespace Nstd.Sync.Monitor

structure HeldInv (s : St) : Prop where
  own : ∀ t, s.held t = true → s.m = some t
  who : ∀ t, s.m = some t → s.held t = true ∨ s.pc t = .setUnlock ∨ s.pc t = .setSignal
  setter : ∀ t, (s.pc t = .setUnlock ∨ s.pc t = .setSignal) → s.held t = false
  /-- in the unlock-first order the setter does not own the mutex any more when it signals -/
  released : s.sigFirst = false → ∀ t, s.pc t = .setSignal → s.m ≠ some t

theorem heldInv_init (now spur : Nat) (sf : Bool) : HeldInv (init now spur sf) := by
  constructor <;> simp [init]

set_option maxHeartbeats 1600000 in
theorem heldInv_step {s s' : St} {t : Tid} {a : Act Op} (h : HeldInv s) (hs : step s t a = some s') : HeldInv s' := by
  obtain ⟨h1, h2, h3, h4⟩ := h
  cases a with
  | tick q => simp [step] at hs; subst hs; exact ⟨h1, h2, h3, h4⟩
  | call op =>
    simp only [step] at hs
    split at hs
    · rename_i hidle
      simp at hs; subst hs
      cases op <;> (refine ⟨?_, ?_, ?_, ?_⟩ <;> intros <;> grind [upd])
    · simp at hs
  | run alt =>
    simp only [step] at hs
    cases hpc : s.pc t <;> simp only [hpc] at hs
    all_goals
      try simp only [afterSignal, goto, done] at hs
      (repeat' split at hs) <;> simp at hs <;> (try subst hs) <;>
        (refine ⟨?_, ?_, ?_, ?_⟩ <;> intros <;>
          grind [upd, markSaw_setUnlock, wake_setUnlock, markSaw_setSignal, wake_setSignal])

theorem heldInv_reach {now spur : Nat} {s : St} (h : Reach now spur s) : HeldInv s := by
  induction h with
  | init sf => exact heldInv_init _ _ sf
  | step _ hs ih => exact heldInv_step ih hs

end Nstd.Sync.Monitor
