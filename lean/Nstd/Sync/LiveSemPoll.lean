import Nstd.Sync.LiveSem
/-! Semaphore, liveness of the ENOSYS polling fallback of wait(timeout): under weak fairness and the passage of time a
    polling thread returns (the loop terminates: `pollFuel`). -/
namespace Nstd.Sync.Sem

/-- virtual time grows beyond every bound along the run (the fallback sleeps: without the passage of time it cannot go on) -/
def TimeDiverges (r : Run St Op step) : Prop := ∀ T n, ∃ m, n ≤ m ∧ T ≤ (r.st m).now

theorem now_mono_step {s s' : St} {t : Tid} {a : Act Op} (hs : step s t a = some s') : s.now ≤ s'.now := by
  cases a with
  | tick q => simp [step] at hs; subst hs; simp
  | call op =>
    simp only [step] at hs
    split at hs
    · simp at hs; subst hs; exact Nat.le_refl _
    · simp at hs
  | run alt =>
    simp only [step] at hs
    cases hpc : s.pc t <;> simp only [hpc] at hs
    all_goals
      try simp only [done, goto] at hs
      (repeat' split at hs) <;> simp at hs <;> (try subst hs) <;> simp

theorem now_mono_run (r : Run St Op step) (n : Nat) : ∀ d, (r.st n).now ≤ (r.st (n + d)).now
  | 0 => Nat.le_refl _
  | d + 1 => Nat.le_trans (now_mono_run r n d) (now_mono_step (r.ok (n + d)))

/-- the program counter of a polling thread is only changed by that thread's own `.run 0` step -/
theorem polling_pc_stable {s s' : St} {t u : Tid} {a : Act Op} (hs : step s t a = some s') (hp : polling (s.pc u) = true)
    (hno : ¬ (t = u ∧ a = .run 0)) : s'.pc u = s.pc u := by
  cases a with
  | tick q => simp [step] at hs; subst hs; rfl
  | call op =>
    simp only [step] at hs
    split at hs
    · rename_i hidle
      simp at hs; subst hs
      by_cases hut : u = t
      · subst hut; rw [hidle] at hp; simp [polling] at hp
      · simp [upd, hut]
    · simp at hs
  | run alt =>
    by_cases hut : u = t
    · subst hut
      have ha : alt ≠ 0 := fun h => hno ⟨rfl, by rw [h]⟩
      simp only [step] at hs
      cases hpc : s.pc u <;> simp only [hpc] at hs hp <;> simp [polling] at hp
      all_goals simp [ha] at hs
    · simp only [step] at hs
      cases hpc : s.pc t <;> simp only [hpc] at hs
      all_goals
        try simp only [done, goto] at hs
        (repeat' split at hs) <;> simp at hs <;> (try subst hs) <;> simp [upd, hut]

/-- when is the progress step of a polling thread enabled -/
theorem prog_of_polling {s : St} {u : Tid} (hp : polling (s.pc u) = true)
    (hw : ∀ d i w, s.pc u = .pollSleep d i w → w ≤ s.now) : prog s u = true := by
  cases hpc : s.pc u <;> simp [hpc, polling] at hp
  · rename_i d i
    by_cases hc : 0 < s.count <;> simp [prog, hpc, step, hc]
  · rename_i d i w
    have := hw d i w hpc
    by_cases hi : i + Poll.stepMs < d.ms <;> simp [prog, hpc, step, this, hi]

/-- one `.run 0` step of a polling thread returns or burns fuel -/
theorem polling_step {s s' : St} {u : Tid} (hp : polling (s.pc u) = true) (hs : step s u (.run 0) = some s') :
    s'.pc u = .idle ∨ (polling (s'.pc u) = true ∧ pollFuel (s'.pc u) < pollFuel (s.pc u)) := by
  have hpos : 0 < Poll.stepMs := by decide
  simp only [step] at hs
  cases hpc : s.pc u <;> simp only [hpc] at hs hp <;> simp [polling] at hp
  all_goals
    simp only [done, goto] at hs
    (repeat' split at hs) <;> simp at hs <;> (try subst hs) <;> grind [upd, polling, pollFuel]

/-- **Liveness of the ENOSYS fallback**: on every weakly fair run on which time diverges, a thread inside the polling
    fallback of wait(timeout) returns. -/
theorem poller_eventually_returns (r : Run St Op step) (hwf : WeakFair r prog) (htime : TimeDiverges r) :
    ∀ (k n : Nat) (u : Tid), polling ((r.st n).pc u) = true → pollFuel ((r.st n).pc u) ≤ k →
      ∃ m, n ≤ m ∧ (r.st m).pc u = .idle := by
  intro k
  induction k with
  | zero =>
    intro n u hp hk
    cases hpc : (r.st n).pc u <;> simp [hpc, polling] at hp <;> simp [hpc, pollFuel] at hk
  | succ k ih =>
    intro n u hp hk
    -- u eventually takes its progress step while still at the same program point
    have hA : ∃ m, n ≤ m ∧ (r.st m).pc u = (r.st n).pc u ∧ r.takes m u := by
      apply Classical.byContradiction
      intro hcon
      have hstay : ∀ m, n ≤ m → (r.st m).pc u = (r.st n).pc u := by
        intro m hm
        induction m with
        | zero => have : n = 0 := by omega
                  subst this; rfl
        | succ j ihj =>
          by_cases hj : n ≤ j
          · have hq := ihj hj
            have hnt : ¬ r.takes j u := fun ht => hcon ⟨j, hj, hq, ht⟩
            have := polling_pc_stable (r.ok j) (by rw [hq]; exact hp) (fun h => hnt ⟨h.1, h.2⟩)
            rw [this, hq]
          · have : n = j + 1 := by omega
            subst this; rfl
      -- from some moment on the progress step is enabled for ever
      have hen : ∃ m1, n ≤ m1 ∧ ∀ m, m1 ≤ m → prog (r.st m) u = true := by
        cases hpc : (r.st n).pc u with
        | pollSleep d i w =>
          obtain ⟨m1, hm1, hw⟩ := htime w n
          refine ⟨m1, hm1, fun m hm => prog_of_polling (by rw [hstay m (by omega)]; exact hp) ?_⟩
          intro d' i' w' hq
          rw [hstay m (by omega), hpc] at hq
          cases hq
          have := now_mono_run r m1 (m - m1)
          rw [Nat.add_sub_cancel' hm] at this
          omega
        | pollTry d i =>
          refine ⟨n, Nat.le_refl _, fun m hm => prog_of_polling (by rw [hstay m hm]; exact hp) ?_⟩
          intro d' i' w' hq
          rw [hstay m hm, hpc] at hq
          cases hq
        | idle => simp [hpc, polling] at hp
        | post => simp [hpc, polling] at hp
        | wait => simp [hpc, polling] at hp
        | tryWait => simp [hpc, polling] at hp
        | twait d => simp [hpc, polling] at hp
        | twTry ms => simp [hpc, polling] at hp
      obtain ⟨m1, hm1, hall⟩ := hen
      obtain ⟨m, hm, ht⟩ := hwf u m1 hall
      exact hcon ⟨m, by omega, hstay m (by omega), ht⟩
    obtain ⟨m, hm, hq, ht⟩ := hA
    have hok := r.ok m
    rw [ht.1, ht.2] at hok
    rcases polling_step (by rw [hq]; exact hp) hok with h | ⟨h1, h2⟩
    · exact ⟨m + 1, by omega, h⟩
    · rw [hq] at h2
      obtain ⟨m', hm', hidle⟩ := ih (m + 1) u h1 (by omega)
      exact ⟨m', by omega, hidle⟩

end Nstd.Sync.Sem
