import Nstd.Sync.LemmasMonitor
/-! What-if: a POSIX layer in which a waiter that times out may CONSUME a concurrent signal (POSIX permits
    "pthread_cond_timedwait … may consume a condition signal directed concurrently at the condition variable";
    glibc ≥ 2.25 hands such a signal on, which is the semantics assumed everywhere else in this area).
    `stepLossy` adds one alternative to `pthread_cond_signal`: alternative `1000 + i` picks the i-th waiter, which
    must be a timed waiter whose deadline has passed, and lets it return ETIMEDOUT. -/
namespace Nstd.Sync.Monitor

def stepLossy (s : St) (t : Tid) (a : Act Op) : Option St :=
  match a with
  | .run alt =>
    if alt ≥ 1000 then
      match s.pc t, s.waiters[alt - 1000]? with
      | .setSignal, some w =>
        match s.pc w with
        | .wBlocked (some d) _ =>
          if d.expired s.now then
            some (done { s with waiters := s.waiters.filter (· ≠ w), pc := upd s.pc w (.wRelock (some d) true) } t .unit)
          else none
        | _ => none
      | _, _ => none
    else step s t a
  | _ => step s t a

def runLossy (s : St) : List (Tid × Act Op) → Option St
  | [] => some s
  | (t, a) :: l => (stepLossy s t a).bind fun s' => runLossy s' l

/-- thread 1: lock; wait() — thread 2: lock; wait(1 ms) — thread 3: set(), whose signal is consumed by thread 2's time-out -/
def lossySchedule : List (Tid × Act Op) :=
  [(1, .call .lock), (1, .run 0), (1, .call .wait), (1, .run 0),
   (2, .call .lock), (2, .run 0), (2, .call (.twait 1)), (2, .run 0),
   (3, .call .set), (3, .run 0), (3, .run 0), (3, .tick 1000000), (3, .run 1001),
   (2, .run 0), (2, .call .unlock), (2, .run 0)]

end Nstd.Sync.Monitor
