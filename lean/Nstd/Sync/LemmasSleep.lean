import Nstd.Sync.Model
/-! Thread::sleep: a sleep never returns early (inductive invariant over `Reach`). -/
namespace Nstd.Sync.Sleep

def Good : List Ret → Prop
  | [] => True
  | e :: h => e.t0 + e.ms * 1000000 ≤ e.at_ ∧ Good h

/-- `Thread::sleep(ms)` asks `usleep` for at least `ms` milliseconds: the factor read from the CURRENT Thread.cpp is ≥ 1000 -/
theorem sleep_unit_covers_ms : 1000 ≤ usPerMs := by decide

structure Inv (s : St) : Prop where
  wakeOk : ∀ t p, s.pc t = some p → p.t0 + p.ms * 1000000 ≤ p.wake
  good : Good s.log

theorem inv_step {s s' : St} {t : Tid} {a : Act Nat} (h : Inv s) (hs : step s t a = some s') : Inv s' := by
  obtain ⟨h1, h2⟩ := h
  cases a with
  | tick q => simp [step] at hs; subst hs; exact ⟨h1, h2⟩
  | call ms =>
    simp only [step] at hs
    split at hs <;> simp at hs
    subst hs
    refine ⟨?_, h2⟩
    intro u p hp
    by_cases hut : u = t
    · subst hut; simp [upd] at hp; subst hp; simp
      have hk := Nat.mul_le_mul_right 1000 (Nat.mul_le_mul_left ms sleep_unit_covers_ms)
      exact Nat.le_trans (Nat.le_of_eq (by omega : ms * 1000000 = ms * 1000 * 1000)) hk
    · exact h1 u p (by simpa [upd, hut] using hp)
  | run alt =>
    simp only [step] at hs
    cases hp : s.pc t with
    | none => simp [hp] at hs
    | some p =>
      simp only [hp] at hs
      split at hs <;> simp at hs
      rename_i hc
      subst hs
      refine ⟨?_, ?_⟩
      · intro u q hq
        by_cases hut : u = t
        · subst hut; simp [upd] at hq
        · exact h1 u q (by simpa [upd, hut] using hq)
      · have := h1 t p hp
        exact ⟨by simp; omega, h2⟩

theorem inv_reach {now : Nat} {s : St} (h : Reach now s) : Inv s := by
  induction h with
  | init => exact ⟨by intro t p hp; simp [init] at hp, trivial⟩
  | step _ hs ih => exact inv_step ih hs

theorem good_mem {l : List Ret} (h : Good l) : ∀ e ∈ l, e.t0 + e.ms * 1000000 ≤ e.at_ := by
  induction l with
  | nil => intro e he; simp at he
  | cons x xs ih =>
    intro e he
    simp only [List.mem_cons] at he
    rcases he with rfl | he
    · exact h.1
    · exact ih h.2 e he

end Nstd.Sync.Sleep
