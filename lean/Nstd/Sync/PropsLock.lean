import Nstd.Sync.LemmasMonitorHeld
import Nstd.Sync.LemmasRun
import Nstd.Sync.Scenario
/-
  Property C11 — the Monitor as a lock: `Monitor::lock / tryLock / unlock` together with `wait` and `set`
  (every reachable state of `Monitor.step`, i.e. every schedule, any number of threads, both orders of `set()`).
  `held t` is the ghost "t holds the monitor as a client": set by the returns of lock / successful tryLock / the condition
  wait inside wait()/wait(timeout), cleared by unlock and by the entry into the condition wait.
-/
namespace Nstd.Sync

/-- Monitor admits one client at a time, and `set()` never lets a second one in: in every reachable state at most one
    thread holds the monitor; the holder owns the internal mutex; the only other owners of that mutex are `set()` calls
    between their lock and their unlock, and such a caller is never counted as a holder (so a `set()` by another thread
    while a client is inside waits at its `pthread_mutex_lock`, and a client's `lock()` waits while a `set()` is in there). -/
theorem monitor_exclusive {now spur : Nat} {s : Monitor.St} (h : Monitor.Reach now spur s) :
    (∀ t u, s.held t = true → s.held u = true → t = u) ∧
    (∀ t, s.held t = true → s.m = some t) ∧
    (∀ t, s.m = some t → s.held t = true ∨ s.pc t = .setUnlock ∨ s.pc t = .setSignal) ∧
    (∀ t, (s.pc t = .setLock ∨ s.pc t = .setUnlock ∨ s.pc t = .setSignal) → s.held t = true →
      s.pc t = .setLock ∧ ∀ alt, Monitor.step s t (.run alt) = none) := by
  have hi := Monitor.heldInv_reach h
  refine ⟨?_, hi.own, hi.who, ?_⟩
  · intro t u ht hu
    have h1 := hi.own t ht
    have h2 := hi.own u hu
    rw [h1] at h2
    exact Option.some.inj h2
  · intro t hp hh
    rcases hp with hp | hp | hp
    · refine ⟨hp, fun alt => ?_⟩
      have := hi.own t hh
      simp [Monitor.step, hp, this]
    · have := hi.setter t (Or.inl hp); rw [this] at hh; cases hh
    · have := hi.setter t (Or.inr hp); rw [this] at hh; cases hh

/-- lock / tryLock / unlock and the lock side of wait, step by step (reachable states):
    * `lock()` is enabled exactly when the internal mutex is free; when it returns the caller is THE holder;
    * `tryLock()` never blocks: its step is always enabled and returns — true (caller becomes the holder) when the mutex is
      free, false (nothing changed) when a client holds the monitor, a `set()` is between its lock and unlock, or a waiter is
      between re-acquisition and going back to sleep;
    * `unlock()` of the holder is enabled and leaves the monitor free with no holder; `unlock()` of a thread that does not
      hold the monitor has no step: outside the contract (like Mutex);
    * `wait()/wait(timeout)` of the holder gives the monitor up when it enters the condition wait (EINVAL excepted: returns
      false still holding it), and every return from the condition wait — true, false after a time-out, or back to sleep — has
      re-acquired it: the caller of wait always gets the monitor back before wait returns. -/
theorem monitor_lock_trylock_unlock {now spur : Nat} {s : Monitor.St} (h : Monitor.Reach now spur s) (t : Tid) :
    (s.pc t = .lock → ((Monitor.step s t (.run 0)).isSome = true ↔ s.m = none) ∧
      ∀ s', Monitor.step s t (.run 0) = some s' → s'.pc t = .idle ∧ s'.held t = true ∧ ∀ u, u ≠ t → s'.held u = false) ∧
    (s.pc t = .tryLock → ∃ s', Monitor.step s t (.run 0) = some s' ∧ s'.pc t = .idle ∧
      (s.m = none → s'.ret t = some (.bool true) ∧ s'.held t = true ∧ ∀ u, u ≠ t → s'.held u = false) ∧
      (s.m ≠ none → s'.ret t = some (.bool false) ∧ s'.held = s.held ∧ s'.m = s.m ∧ s'.flag = s.flag ∧ s'.waiters = s.waiters)) ∧
    (s.pc t = .unlock → s.held t = true →
      ∃ s', Monitor.step s t (.run 0) = some s' ∧ s'.pc t = .idle ∧ s'.m = none ∧ ∀ u, s'.held u = false) ∧
    (s.pc t = .unlock → s.held t = false → ∀ alt, Monitor.step s t (.run alt) = none) ∧
    (∀ dl s', s.pc t = .wEnter dl → s.held t = true → Monitor.step s t (.run 0) = some s' →
      (s'.m = none ∧ (∀ u, s'.held u = false) ∧ ∃ b, s'.pc t = .wBlocked dl b) ∨
      (s'.pc t = .idle ∧ s'.ret t = some (.bool false) ∧ s'.held t = true ∧ ∃ d, dl = some d ∧ d.ts.valid = false)) ∧
    (∀ dl b s', s.pc t = .wRelock dl b → Monitor.step s t (.run 0) = some s' →
      s.m = none ∧ s'.m = some t ∧ s'.held t = true ∧ ∀ u, u ≠ t → s'.held u = false) := by
  have hi := Monitor.heldInv_reach h
  have hnone : s.m = none → ∀ u, s.held u = false := by
    intro hm u
    cases hu : s.held u with
    | false => rfl
    | true => have := hi.own u hu; rw [hm] at this; cases this
  have hothers : ∀ v, s.m = some v → ∀ u, u ≠ v → s.held u = false := by
    intro v hm u huv
    cases hu : s.held u with
    | false => rfl
    | true => have := hi.own u hu; rw [hm] at this; exact absurd (Option.some.inj this).symm huv
  refine ⟨?_, ?_, ?_, ?_, ?_, ?_⟩
  · intro hpc
    refine ⟨?_, ?_⟩
    · by_cases hm : s.m = none <;> simp [Monitor.step, hpc, hm]
    · intro s' hs
      by_cases hm : s.m = none
      · simp [Monitor.step, hpc, hm] at hs; subst hs
        refine ⟨by simp [Monitor.done], by simp [Monitor.done], fun u hu => ?_⟩
        simp [Monitor.done, upd, hu, hnone hm u]
      · simp [Monitor.step, hpc, hm] at hs
  · intro hpc
    by_cases hm : s.m = none
    · refine ⟨_, by simp [Monitor.step, hpc, hm]; rfl, by simp [Monitor.done], ?_, fun hne => absurd hm hne⟩
      intro _
      refine ⟨by simp [Monitor.done], by simp [Monitor.done], fun u hu => ?_⟩
      simp [Monitor.done, upd, hu, hnone hm u]
    · refine ⟨_, by simp [Monitor.step, hpc, hm]; rfl, by simp [Monitor.done], fun h0 => absurd h0 hm, ?_⟩
      intro _
      exact ⟨by simp [Monitor.done], rfl, rfl, rfl, rfl⟩
  · intro hpc hh
    have hm := hi.own t hh
    refine ⟨_, by simp [Monitor.step, hpc, hm]; rfl, by simp [Monitor.done], by simp [Monitor.done], fun u => ?_⟩
    by_cases hu : u = t
    · subst hu; simp [Monitor.done, upd]
    · simp [Monitor.done, upd, hu, hothers t hm u hu]
  · intro hpc hh alt
    have hno : s.m ≠ some t := by
      intro hm
      rcases hi.who t hm with h1 | h1 | h1
      · rw [hh] at h1; cases h1
      · rw [hpc] at h1; cases h1
      · rw [hpc] at h1; cases h1
    by_cases ha : alt = 0 <;> simp [Monitor.step, hpc, ha, hno]
  · intro dl s' hpc hh hs
    have hm := hi.own t hh
    simp only [Monitor.step, hpc] at hs
    cases dl with
    | none =>
      simp [hm] at hs; subst hs
      left
      refine ⟨by simp [Monitor.goto], fun u => ?_, false, by simp [Monitor.goto]⟩
      by_cases hu : u = t
      · subst hu; simp [Monitor.goto, upd]
      · simp [Monitor.goto, upd, hu, hothers t hm u hu]
    | some d =>
      by_cases hv : d.ts.valid = true
      · simp [hm, hv] at hs; subst hs
        left
        refine ⟨by simp [Monitor.goto], fun u => ?_, false, by simp [Monitor.goto]⟩
        by_cases hu : u = t
        · subst hu; simp [Monitor.goto, upd]
        · simp [Monitor.goto, upd, hu, hothers t hm u hu]
      · simp [hm, hv] at hs; subst hs
        right
        exact ⟨by simp [Monitor.done], by simp [Monitor.done], by simp [Monitor.done, hh], d, rfl, by simpa using hv⟩
  · intro dl b s' hpc hs
    simp only [Monitor.step, hpc] at hs
    by_cases hm : s.m = none
    · refine ⟨hm, ?_⟩
      have hn := hnone hm
      cases b <;> by_cases hf : s.flag = true <;> simp [hm, hf] at hs <;> subst hs <;>
        (refine ⟨by simp [Monitor.done, Monitor.goto], by simp [Monitor.done, Monitor.goto], fun u hu => ?_⟩;
         simp [Monitor.done, Monitor.goto, upd, hu, hn u])
    · simp [hm] at hs

/-- non-vacuity: thread 1 holds the monitor, thread 2 is at its tryLock (will fail), thread 3 at the lock of a `set()` (waits) -/
example : ∃ s, Monitor.Reach 0 0 s ∧ s.held 1 = true ∧ s.pc 2 = .tryLock ∧ s.pc 3 = .setLock ∧ s.m = some 1 ∧
    (Monitor.step s 3 (.run 0)).isNone = true := by
  refine ⟨_, Monitor.reach_runActs [(1, .call .lock), (1, .run 0), (2, .call .tryLock), (3, .call .set)] (.init false) rfl,
    ?_, ?_, ?_, ?_, ?_⟩ <;> rfl

/-- … and a state in which the mutex is owned by a `set()` (not a holder) while a client's `lock()` has to wait -/
example : ∃ s, Monitor.Reach 0 0 s ∧ s.m = some 3 ∧ s.held 3 = false ∧ s.pc 3 = .setUnlock ∧ s.pc 1 = .lock ∧
    (Monitor.step s 1 (.run 0)).isNone = true := by
  refine ⟨_, Monitor.reach_runActs [(3, .call .set), (3, .run 0), (1, .call .lock)] (.init false) rfl, ?_, ?_, ?_, ?_, ?_⟩ <;> rfl

/-! ## Guards, constructors (facts read from the CURRENT sources by `translate_api`, Generated/SyncApi.lean) -/

open Nstd.Generated in
/-- The Guards are pure forwarders and the constructors establish the initial states of the transition systems — stated over
    what tools/areas/sync.py reads from the current headers / sources on every run:
    `Mutex::Guard` = `lock()` in the constructor, `unlock()` in the destructor; `Monitor::Guard` the same plus `wait()` /
    `wait(timeout)` handed through (so a Guard's lifetime is a lock()…unlock() section of the theorems above, which is how the
    driver maps the Guard operations); `Mutex::Mutex()` makes a RECURSIVE mutex (what `mutex_exclusive_reentrant` needs);
    `Signal(set)` starts with the flag = its argument (default false) and `Monitor()` with the flag clear, both with a free
    internal mutex; `Semaphore(value)` starts with count = value.  Destructors, `Thread::Thread()`, `~Thread`, `yield`,
    `getCurrentThreadId` are shape-pinned by the translator only (no state of the model). -/
theorem guards_and_constructors_as_modelled :
    (Scen.guardOp SyncApi.mutexGuardCtor none = some .lock ∧ Scen.guardOp SyncApi.mutexGuardDtor none = some .unlock) ∧
    (Scen.guardOp SyncApi.monitorGuardCtor none = some .lock ∧ Scen.guardOp SyncApi.monitorGuardDtor none = some .unlock ∧
      Scen.guardOp SyncApi.monitorGuardWait none = some .wait ∧
      ∀ ms, Scen.guardOp SyncApi.monitorGuardWaitTimeout (some ms) = some (.twait ms)) ∧
    (SyncApi.mutexRecursive = true ∧ Mutex.init.m = ⟨true, none, 0⟩) ∧
    (∀ b now spur, (Signal.init b now spur).flag = SyncApi.signalInitFlag b ∧ (Signal.init b now spur).m = none) ∧
    SyncApi.signalDefaultArg = false ∧
    (∀ now spur sf, (Monitor.init now spur sf).flag = SyncApi.monitorInitFlag ∧ (Monitor.init now spur sf).m = none ∧
      ∀ t, (Monitor.init now spur sf).held t = false) ∧
    (∀ v now e n, (Sem.init v now e n).count = SyncApi.semInitCount v) := by
  refine ⟨⟨rfl, rfl⟩, ⟨rfl, rfl, rfl, fun _ => rfl⟩, ⟨rfl, rfl⟩, fun _ _ _ => ⟨rfl, rfl⟩, rfl, fun _ _ _ => ⟨rfl, rfl, fun _ => rfl⟩,
    fun _ _ _ _ => rfl⟩

end Nstd.Sync
