/-
  Sync area (property C11) — POSIX-level control-flow tables of member functions (the data type of the GENERATED
  Nstd/Generated/SyncCfg.lean, produced from the current C++ sources by tools/areas/_sync_cfg.py).

  A function is a list of program points (`Node`): the pending POSIX call and, for (did the call succeed?, value of the
  `signaled` flag seen by the library code that runs after the call), an `Edge`: the flag store that code performs (if
  any) and where it ends — at the next POSIX call (`Next.node`) or with a return (`Next.ret`).  For Thread the handle
  `thread` (attached or not) plays the role of the flag.  No edge =
  a `VERIFY(...)` on the call's result fails there (the library traps; the model assumes those calls succeed).
-/
namespace Nstd.Sync.Cfg

inductive PCall | mutexLock | mutexTryLock | mutexUnlock | condWait | condTimedWait | condSignal | condBroadcast
  | threadCreate | threadJoin | semPost | semWait | semTryWait
deriving DecidableEq, Repr

/-- what a member function returns: nothing, a bool, the literal 0 (`Thread::join` without a handle), or the value handed
    over by `pthread_join` -/
inductive RetV | void | bool (b : Bool) | zero | joined
deriving DecidableEq, Repr

inductive Next | node (n : Nat) | ret (v : RetV)
deriving DecidableEq, Repr

/-- `store`: the store to the flag (`signaled`; for Thread: the handle `thread` becomes set / clear); `func`: the functor of
    `Thread::start(obj, member)` is stored on the way -/
structure Edge where
  store : Option Bool
  func : Bool
  /-- the clock is read and the deadline of a timed wait computed on the way (the `DEADLINE` marker of the translator) -/
  clock : Bool
  next : Next
deriving DecidableEq, Repr

structure Node where
  call : PCall
  okT : Option Edge
  okF : Option Edge
  failT : Option Edge
  failF : Option Edge
deriving DecidableEq, Repr

/-- entry edges (flag true / false: the code before the first POSIX call) and the program points -/
structure Fn where
  entryT : Option Edge
  entryF : Option Edge
  nodes : List Node
deriving DecidableEq, Repr

/-- the library code after POSIX call `n` returned (`ok`) with the flag being `flag` -/
def Fn.after (f : Fn) (n : Nat) (ok flag : Bool) : Option Edge :=
  match f.nodes[n]? with
  | none => none
  | some nd => match ok, flag with
    | true, true => nd.okT | true, false => nd.okF | false, true => nd.failT | false, false => nd.failF

def Fn.callAt (f : Fn) (n : Nat) : Option PCall := (f.nodes[n]?).map (·.call)

def Fn.entry (f : Fn) (flag : Bool) : Option Edge := if flag then f.entryT else f.entryF

/-! ### `Semaphore::wait(int64)`: calls with an errno class, one counted loop `for(int i = a; i < timeout; i += b)` -/

inductive SCall | semTimedWait | semTryWait | usleep (us : Nat)
deriving DecidableEq, Repr

/-- operation on the loop variable performed by the library code after a call -/
inductive CtrOp | init (a : Nat) | add (b : Nat)
deriving DecidableEq, Repr

/-- where the library code ends; `ifLess t e` = the loop test `i < timeout` (after the counter operation of the edge) -/
inductive PNext | node (n : Nat) | ret (b : Bool) | ifLess (thn els : PNext)
deriving DecidableEq, Repr

structure PEdge where
  ctr : Option CtrOp
  next : PNext
deriving DecidableEq, Repr

/-- how the pending call ended: success, or -1 with errno EINTR / ENOSYS / anything else -/
inductive Outcome | ok | eintr | enosys | other
deriving DecidableEq, Repr

structure PNode where
  call : SCall
  ok : Option PEdge
  eintr : Option PEdge
  enosys : Option PEdge
  other : Option PEdge
deriving DecidableEq, Repr

structure PollFn where
  entry : Option PEdge
  nodes : List PNode
deriving DecidableEq, Repr

def CtrOp.apply : Option CtrOp → Nat → Nat
  | none, i => i
  | some (.init a), _ => a
  | some (.add b), i => i + b

/-- decide the loop tests with the value `i` of the loop variable and the time-out `ms` -/
def PNext.resolve (i ms : Nat) : PNext → PNext
  | .ifLess t e => if i < ms then t.resolve i ms else e.resolve i ms
  | x => x

def PollFn.after (f : PollFn) (n : Nat) (o : Outcome) : Option PEdge :=
  match f.nodes[n]? with
  | none => none
  | some nd => match o with
    | .ok => nd.ok | .eintr => nd.eintr | .enosys => nd.enosys | .other => nd.other

end Nstd.Sync.Cfg
