import Nstd.Sync.Fair
import Nstd.Sync.LemmasMonitor
/-! Monitor, liveness: a set() issued after a waiter has taken the monitor eventually releases a waiter — under weak
    fairness of every thread, a starvation-free monitor mutex, and clients that do not keep the monitor locked for ever. -/
namespace Nstd.Sync.Monitor

def prog (s : St) (t : Tid) : Bool :=
  match s.pc t with
  | .idle => false
  | .wBlocked _ _ => false
  | _ => (step s t (.run 0)).isSome

def lk (s : St) (t : Tid) : Bool :=
  match s.pc t with
  | .lock | .setLock | .wRelock _ _ => s.m == none
  | _ => false

theorem markSaw_of_not_blocked (p : Pc) (h : isBlocked p = false) : markSaw p = p := by
  cases p <;> simp [isBlocked] at h <;> rfl

/-- frame + successor facts of one step, seen from a thread `u` -/
theorem succ_facts {s s' : St} {t : Tid} {a : Act Op} (hi : Inv s) (hs : step s t a = some s') (u : Tid) :
    -- a woken waiter either stays where it is, or it got the mutex: then it consumes the flag if it is set
    (∀ d, s.pc u = .wRelock d false → s'.pc u = .wRelock d false ∨ (s.flag = true → s'.succ = s.succ + 1)) ∧
    -- an untimed blocked waiter leaves the wait set only as a woken waiter
    (∀ sw, s.pc u = .wBlocked none sw → (∃ sw', s'.pc u = .wBlocked none sw') ∨ s'.pc u = .wRelock none false) ∧
    (s.sigFirst = false → s.pc u = .setUnlock → s'.pc u = .setUnlock ∨ s'.pc u = .setSignal) ∧
    (t = u → a = .run 0 → s'.pc u ≠ s.pc u) ∧
    (t ≠ u → isBlocked (s.pc u) = false → s'.pc u = s.pc u) ∧
    -- the step that takes `t` away from the signal wakes a waiter unless the wait set is empty
    (s.pc t = .setSignal → s'.pc t ≠ .setSignal → s.waiters = [] ∨ ∃ w d, s'.pc w = .wRelock d false) ∧
    s.succ ≤ s'.succ ∧
    (s.flag = true → s'.flag = true ∨ s'.succ = s.succ + 1) ∧
    s'.sigFirst = s.sigFirst := by
  obtain ⟨h1, h2, h3, h4, h5, h6, h7, h8⟩ := hi
  cases a with
  | tick q => simp [step] at hs; subst hs; refine ⟨?_, ?_, ?_, ?_, ?_, ?_, ?_, ?_, ?_⟩ <;> intros <;> simp_all
  | call op =>
    simp only [step] at hs
    split at hs
    · rename_i hidle
      simp at hs; subst hs
      cases op <;> (refine ⟨?_, ?_, ?_, ?_, ?_, ?_, ?_, ?_, ?_⟩ <;> intros <;> grind [upd, isBlocked])
    · simp at hs
  | run alt =>
    simp only [step] at hs
    cases hpc : s.pc t <;> simp only [hpc] at hs
    case setSignal =>
      split at hs
      · rename_i w hw
        have hwb := (h1 w).1 (mem_of_get hw)
        have hwt : w ≠ t := by intro e; subst e; simp [hpc, isBlocked] at hwb
        cases hp : s.pc w <;> simp [hp, isBlocked] at hwb
        rename_i dlw sww
        cases hsf : s.sigFirst <;> (simp [afterSignal, hsf, done, goto] at hs; subst hs) <;>
        · refine ⟨?_, ?_, ?_, ?_, ?_, ?_, ?_, ?_, ?_⟩
          · intro d hu; left
            have h1' : u ≠ t := by intro e; subst e; simp [hpc] at hu
            have h2' : u ≠ w := by intro e; subst e; simp [hu] at hp
            simp [upd, h1', h2', hu]
          · intro sw hu
            have h1' : u ≠ t := by intro e; subst e; simp [hpc] at hu
            by_cases h2' : u = w
            · right; subst h2'; simp [upd, h1', hu, wake]
            · left; exact ⟨sw, by simp [upd, h1', h2', hu]⟩
          · intro _ hu
            have h1' : u ≠ t := by intro e; subst e; simp [hpc] at hu
            have h2' : u ≠ w := by intro e; subst e; simp [hu] at hp
            left; simp [upd, h1', h2', hu]
          · intro e _; subst e; simp [upd, hpc]
          · intro htu hnb
            have h2' : u ≠ w := by intro e; subst e; simp [hp, isBlocked] at hnb
            simp [upd, Ne.symm htu, h2']
          · intro _ _; right
            exact ⟨w, dlw, by simp [upd, hwt, hp, wake]⟩
          · simp
          · intro hf; left; simpa using hf
          · simp [hsf]
      · rename_i hnone
        split at hs
        · rename_i h0
          subst h0
          have hw : s.waiters = [] := by
            cases hl : s.waiters with
            | nil => rfl
            | cons a l => simp [hl] at hnone
          cases hsf : s.sigFirst <;> (simp [afterSignal, hsf, done, goto] at hs; subst hs) <;>
            (refine ⟨?_, ?_, ?_, ?_, ?_, ?_, ?_, ?_, ?_⟩ <;> intros <;> grind [upd, isBlocked])
        · simp at hs
    all_goals
      try simp only [goto, done] at hs
      (repeat' split at hs) <;> simp at hs <;> (try subst hs) <;>
        (refine ⟨?_, ?_, ?_, ?_, ?_, ?_, ?_, ?_, ?_⟩ <;> intros <;>
          grind [upd, isBlocked, markSaw, isBlocked_markSaw, markSaw_setUnlock, markSaw_relock, markSaw_of_not_blocked])

variable {now spur : Nat}

theorem reach_run (r : Run St Op step) (h0 : Reach now spur (r.st 0)) : ∀ k, Reach now spur (r.st k)
  | 0 => h0
  | k + 1 => .step (reach_run r h0 k) (r.ok k)

theorem succ_mono (r : Run St Op step) (h0 : Reach now spur (r.st 0)) (k : Nat) : ∀ d, (r.st k).succ ≤ (r.st (k + d)).succ
  | 0 => Nat.le_refl _
  | d + 1 => Nat.le_trans (succ_mono r h0 k d) (succ_facts (inv_reach (reach_run r h0 (k + d))) (r.ok (k + d)) 0).2.2.2.2.2.2.1

theorem succ_mono' (r : Run St Op step) (h0 : Reach now spur (r.st 0)) {k m : Nat} (h : k ≤ m) :
    (r.st k).succ ≤ (r.st m).succ := by
  have := succ_mono r h0 k (m - k)
  rwa [Nat.add_sub_cancel' h] at this

theorem sigFirst_const (r : Run St Op step) (h0 : Reach now spur (r.st 0)) (k : Nat) :
    ∀ d, (r.st (k + d)).sigFirst = (r.st k).sigFirst
  | 0 => rfl
  | d + 1 => by
    have := (succ_facts (inv_reach (reach_run r h0 (k + d))) (r.ok (k + d)) 0).2.2.2.2.2.2.2.2
    show (r.st (k + d + 1)).sigFirst = _
    rw [this, sigFirst_const r h0 k d]

theorem sigFirst_const' (r : Run St Op step) (h0 : Reach now spur (r.st 0)) {k m : Nat} (h : k ≤ m) :
    (r.st m).sigFirst = (r.st k).sigFirst := by
  have := sigFirst_const r h0 k (m - k)
  rwa [Nat.add_sub_cancel' h] at this

/-- while no wait has succeeded since `n`, the flag that was set at `n` is still set -/
theorem flag_stays (r : Run St Op step) (h0 : Reach now spur (r.st 0)) (n : Nat) (hf : (r.st n).flag = true) :
    ∀ d, (r.st (n + d)).flag = true ∨ (r.st n).succ < (r.st (n + d)).succ
  | 0 => Or.inl hf
  | d + 1 => by
    rcases flag_stays r h0 n hf d with h | h
    · rcases (succ_facts (inv_reach (reach_run r h0 (n + d))) (r.ok (n + d)) 0).2.2.2.2.2.2.2.1 h with h' | h'
      · exact Or.inl h'
      · right
        have := succ_mono r h0 n d
        show (r.st n).succ < (r.st (n + d + 1)).succ
        omega
    · right
      have := (succ_facts (inv_reach (reach_run r h0 (n + d))) (r.ok (n + d)) 0).2.2.2.2.2.2.1
      show (r.st n).succ < (r.st (n + d + 1)).succ
      omega

/-- a woken waiter eventually gets the monitor; if the flag is still set then, it consumes it -/
theorem stage_woken (r : Run St Op step) (h0 : Reach now spur (r.st 0)) (hsf : StrongFair r lk)
    (hfree : ∀ k, ∃ j, k ≤ j ∧ (r.st j).m = none) (n : Nat) (hf : (r.st n).flag = true)
    (k : Nat) (hk : n ≤ k) (v : Tid) (d : Option Deadline) (hv : (r.st k).pc v = .wRelock d false) :
    ∃ m, n ≤ m ∧ (r.st n).succ < (r.st m).succ := by
  obtain ⟨m, hm, hP, hN⟩ := sf_leaves r hsf (fun s => s.pc v = .wRelock d false) v k hv
    (fun hall j hj => by
      obtain ⟨i, hi, hfr⟩ := hfree j
      exact ⟨i, hi, by simp [lk, hall i (by omega), hfr]⟩)
    (fun m _ hP ht hP' => by
      have := (succ_facts (inv_reach (reach_run r h0 m)) (r.ok m) v).2.2.2.1 ht.1 ht.2
      exact this (by rw [hP', hP]))
  rcases (succ_facts (inv_reach (reach_run r h0 m)) (r.ok m) v).1 d hP with h | h
  · exact absurd h hN
  · have hnm : n ≤ m := by omega
    have hfl := flag_stays r h0 n hf (m - n)
    rw [Nat.add_sub_cancel' hnm] at hfl
    rcases hfl with hfl | hfl
    · refine ⟨m + 1, by omega, ?_⟩
      have := h hfl
      have := succ_mono' r h0 hnm
      omega
    · exact ⟨m, hnm, hfl⟩

/-- **Liveness**: a set() issued after a waiter has taken the monitor eventually releases a waiter.
    `u` is blocked in the untimed wait() and a set() has stored the flag since it joined the wait set
    (`wBlocked none true`), the flag being still set.  On every run that is weakly fair for all threads, whose monitor
    mutex is starvation-free and on which clients do not keep the monitor locked for ever (`hfree`), some wait
    returns true afterwards (`succ` grows). -/
theorem set_eventually_releases_a_waiter (r : Run St Op step) (h0 : Reach now spur (r.st 0))
    (hwf : WeakFair r prog) (hsf : StrongFair r lk) (hfree : ∀ k, ∃ j, k ≤ j ∧ (r.st j).m = none)
    (n : Nat) (hf : (r.st n).flag = true) (u : Tid) (hu : (r.st n).pc u = .wBlocked none true) :
    ∃ m, n ≤ m ∧ (r.st n).succ < (r.st m).succ := by
  -- does u leave the wait set at all?
  by_cases hleave : ∃ m, n ≤ m ∧ (r.st m).pc u = .wRelock none false
  · obtain ⟨m, hm, hpc⟩ := hleave
    exact stage_woken r h0 hsf hfree n hf m hm u none hpc
  · have hblocked : ∀ m, n ≤ m → ∃ sw, (r.st m).pc u = .wBlocked none sw := by
      intro m hm
      induction m with
      | zero => have : n = 0 := by omega
                subst this; exact ⟨_, hu⟩
      | succ j ih =>
        by_cases hj : n ≤ j
        · obtain ⟨sw, hsw⟩ := ih hj
          rcases (succ_facts (inv_reach (reach_run r h0 j)) (r.ok j) u).2.1 sw hsw with h | h
          · exact h
          · exact absurd ⟨j + 1, by omega, h⟩ hleave
        · have : n = j + 1 := by omega
          subst this; exact ⟨_, hu⟩
    -- the wake-up that is under way at time n
    obtain ⟨v, hv⟩ := noLost_reach (reach_run r h0 n) hf u none hu
    -- from a setter at the signal
    have fromSignal : ∀ k, n ≤ k → (r.st k).pc v = .setSignal → ∃ m, n ≤ m ∧ (r.st n).succ < (r.st m).succ := by
      intro k hk hvk
      obtain ⟨m, hm, hP, hN⟩ := wf_leaves r hwf (fun s => s.pc v = .setSignal) v k hvk
        (fun m _ hP => by
          simp only [prog, hP, step]
          cases (r.st m).waiters[0]? <;> simp)
        (fun m _ hP ht hP' => by
          have := (succ_facts (inv_reach (reach_run r h0 m)) (r.ok m) v).2.2.2.1 ht.1 ht.2
          exact this (by rw [hP', hP]))
      have hi := inv_reach (reach_run r h0 m)
      have hwho : r.who m = v := Classical.byContradiction fun hw =>
        hN (by rw [(succ_facts hi (r.ok m) v).2.2.2.2.1 hw (by rw [hP]; rfl), hP])
      rcases (succ_facts hi (r.ok m) u).2.2.2.2.2.1 (by rw [hwho]; exact hP) (by rw [hwho]; exact hN) with h | ⟨w, d, h⟩
      · obtain ⟨sw, hsw⟩ := hblocked m (by omega)
        have := (hi.wf u).2 (by rw [hsw]; rfl)
        rw [h] at this; cases this
      · exact stage_woken r h0 hsf hfree n hf (m + 1) (by omega) w d h
    cases hp : (r.st n).pc v <;> simp [hp, pendingWake] at hv
    · -- wRelock _ false
      rename_i d b
      cases b <;> simp at hv
      exact stage_woken r h0 hsf hfree n hf n (Nat.le_refl _) v d hp
    · -- setUnlock (only pending in the unlock-first order)
      obtain ⟨m, hm, hP, hN⟩ := wf_leaves r hwf (fun s => s.pc v = .setUnlock) v n hp
        (fun m hm' hP => by
          have := (inv_reach (reach_run r h0 m)).setOwn v hP
          have hsfm : (r.st m).sigFirst = false := by rw [sigFirst_const' r h0 hm']; exact hv
          simp [prog, hP, step, this, hsfm])
        (fun m _ hP ht hP' => by
          have := (succ_facts (inv_reach (reach_run r h0 m)) (r.ok m) v).2.2.2.1 ht.1 ht.2
          exact this (by rw [hP', hP]))
      rcases (succ_facts (inv_reach (reach_run r h0 m)) (r.ok m) v).2.2.1 (by rw [sigFirst_const' r h0 hm]; exact hv) hP with h | h
      · exact absurd h hN
      · exact fromSignal (m + 1) (by omega) h
    · exact fromSignal n (Nat.le_refl _) hp

end Nstd.Sync.Monitor
