import Nstd.Sync.Fair
import Nstd.Sync.LemmasSignal
/-! Signal, liveness: under weak fairness of every thread and a starvation-free internal mutex, no waiter stays
    blocked while the signal remains set. -/
namespace Nstd.Sync.Signal

/-- progress step: `.run 0` at a program point inside a call that is not the blocked state of the condition wait
    (spurious wake-ups are never required to happen) -/
def prog (s : St) (t : Tid) : Bool :=
  match s.pc t with
  | .idle => false
  | .wBlocked _ => false
  | _ => (step s t (.run 0)).isSome

/-- the acquisition of the internal mutex is enabled -/
def lk (s : St) (t : Tid) : Bool :=
  match s.pc t with
  | .setLock | .resetLock | .wLock _ | .wRelock _ _ => s.m == none
  | _ => false

/-- remaining steps of a mutex holder until it releases the mutex -/
def hd : Pc → Nat
  | .setBcast | .wEnter _ => 2
  | .setUnlock | .resetUnlock | .wUnlock _ _ => 1
  | _ => 0

theorem hd_pos {p : Pc} (h : holds p = true) : 0 < hd p := by cases p <;> simp [holds] at h <;> simp [hd]

/-- frame + successor facts of one step, seen from a thread `u` -/
theorem succ_facts {s s' : St} {t : Tid} {a : Act Op} (hi : Inv s) (hs : step s t a = some s') (u : Tid) :
    -- a returning waiter
    (∀ r dl, s.pc u = .wUnlock r dl → s'.pc u = .wUnlock r dl ∨ (s'.pc u = .idle ∧ s'.ret u = some (.bool r))) ∧
    -- (re-)acquisition of the mutex while the flag is set
    (∀ dl, s.flag = true → s.pc u = .wLock dl → s'.pc u = .wLock dl ∨ ∃ dl', s'.pc u = .wUnlock true dl') ∧
    (∀ dl b, s.flag = true → s.pc u = .wRelock dl b → s'.pc u = .wRelock dl b ∨ s'.pc u = .wUnlock (!b) dl) ∧
    -- a blocked waiter
    (∀ dl, s.pc u = .wBlocked dl → s'.pc u = .wBlocked dl ∨ ∃ b, s'.pc u = .wRelock dl b) ∧
    -- the holder of the mutex
    (s.m = some u → s'.m = none ∨ (s'.m = some u ∧ (s'.pc u = s.pc u ∨ hd (s'.pc u) < hd (s.pc u)))) ∧
    -- taking the progress step changes the program counter
    (t = u → a = .run 0 → s'.pc u ≠ s.pc u) ∧
    -- other threads only touch the program counter of a blocked thread
    (t ≠ u → (∀ dl, s.pc u ≠ .wBlocked dl) → s'.pc u = s.pc u) ∧
    -- the step that takes `t` away from the broadcast wakes every blocked thread
    (s.pc t = .setBcast → s'.pc t ≠ .setBcast → ∀ dl, s.pc u = .wBlocked dl → s'.pc u = .wRelock dl false) := by
  obtain ⟨h1, h0, h2, h3, h4, h5⟩ := hi
  cases a with
  | tick q => simp [step] at hs; subst hs; refine ⟨?_, ?_, ?_, ?_, ?_, ?_, ?_, ?_⟩ <;> intros <;> simp_all
  | call op =>
    simp only [step] at hs
    split at hs
    · rename_i hidle
      simp at hs; subst hs
      cases op <;> (refine ⟨?_, ?_, ?_, ?_, ?_, ?_, ?_, ?_⟩ <;> intros <;> grind [upd, holds, hd])
    · simp at hs
  | run alt =>
    simp only [step] at hs
    cases hpc : s.pc t <;> simp only [hpc] at hs
    all_goals
      try simp only [loopHead, goto, done] at hs
      (repeat' split at hs) <;> simp at hs <;> (try subst hs) <;>
        (refine ⟨?_, ?_, ?_, ?_, ?_, ?_, ?_, ?_⟩ <;> intros <;> grind [upd, holds, hd])

theorem prog_of_holder {s : St} {v : Tid} (hi : Inv s) (hv : s.m = some v) : prog s v = true := by
  have hh := hi.ownConv v hv
  cases hp : s.pc v <;> simp [hp, holds] at hh <;> simp [prog, step, hp, hv]
  rename_i dl
  cases dl with
  | none => simp
  | some d => by_cases hd : d.ts.valid = true <;> simp [hd]

variable {set0 : Bool} {now spur : Nat}

theorem reach_run (r : Run St Op step) (h0 : Reach set0 now spur (r.st 0)) : ∀ k, Reach set0 now spur (r.st k)
  | 0 => h0
  | k + 1 => .step (reach_run r h0 k) (r.ok k)

/-- the internal mutex is free again and again (its holder always finishes its critical section) -/
theorem free_later (r : Run St Op step) (h0 : Reach set0 now spur (r.st 0)) (hwf : WeakFair r prog) :
    ∀ d k v, (r.st k).m = some v → hd ((r.st k).pc v) ≤ d → ∃ j, k ≤ j ∧ (r.st j).m = none := by
  intro d
  induction d with
  | zero =>
    intro k v hv hd0
    have := hd_pos ((inv_reach (reach_run r h0 k)).ownConv v hv)
    omega
  | succ d ih =>
    intro k v hv hdk
    obtain ⟨m, hm, hP, hN⟩ := wf_leaves r hwf (fun s => s.m = some v ∧ s.pc v = (r.st k).pc v) v k ⟨hv, rfl⟩
      (fun m _ hP => prog_of_holder (inv_reach (reach_run r h0 m)) hP.1)
      (fun m _ hP ht hP' => by
        have hok := r.ok m
        have := (succ_facts (inv_reach (reach_run r h0 m)) hok v).2.2.2.2.2.1 ht.1 ht.2
        exact this (by rw [hP'.2, hP.2]))
    have hf := (succ_facts (inv_reach (reach_run r h0 m)) (r.ok m) v).2.2.2.2.1 hP.1
    rcases hf with hf | ⟨hf1, hf2⟩
    · exact ⟨m + 1, by omega, hf⟩
    · rcases hf2 with hf2 | hf2
      · exact absurd ⟨hf1, by rw [hf2, hP.2]⟩ hN
      · obtain ⟨j, hj, hfree⟩ := ih (m + 1) v hf1 (by rw [hP.2] at hf2; omega)
        exact ⟨j, by omega, hfree⟩

theorem free_io (r : Run St Op step) (h0 : Reach set0 now spur (r.st 0)) (hwf : WeakFair r prog) (k : Nat) :
    ∃ j, k ≤ j ∧ (r.st j).m = none := by
  cases hm : (r.st k).m with
  | none => exact ⟨k, Nat.le_refl _, hm⟩
  | some v => exact free_later r h0 hwf _ k v hm (Nat.le_refl _)

/-- stage 3: a waiter that holds the mutex and is about to return does return -/
theorem stage_unlock (r : Run St Op step) (h0 : Reach set0 now spur (r.st 0)) (hwf : WeakFair r prog)
    (k : Nat) (u : Tid) (b : Bool) (dl : Option Deadline) (hu : (r.st k).pc u = .wUnlock b dl) :
    ∃ m, k ≤ m ∧ (r.st m).pc u = .idle ∧ (r.st m).ret u = some (.bool b) := by
  obtain ⟨m, hm, hP, hN⟩ := wf_leaves r hwf (fun s => s.pc u = .wUnlock b dl) u k hu
    (fun m _ hP => by
      have hi := inv_reach (reach_run r h0 m)
      exact prog_of_holder hi (hi.own u (by rw [hP]; rfl)))
    (fun m _ hP ht hP' => by
      have := (succ_facts (inv_reach (reach_run r h0 m)) (r.ok m) u).2.2.2.2.2.1 ht.1 ht.2
      exact this (by rw [hP', hP]))
  rcases (succ_facts (inv_reach (reach_run r h0 m)) (r.ok m) u).1 b dl hP with h | h
  · exact absurd h hN
  · exact ⟨m + 1, by omega, h.1, h.2⟩

/-- stage 2: a waiter that wants the mutex gets it (starvation-free mutex) and, the flag being set, goes on to return -/
theorem stage_lock (r : Run St Op step) (h0 : Reach set0 now spur (r.st 0)) (hwf : WeakFair r prog) (hsf : StrongFair r lk)
    (n : Nat) (hset : ∀ m, n ≤ m → (r.st m).flag = true) (k : Nat) (hk : n ≤ k) (u : Tid) (dl : Option Deadline) (b : Bool)
    (hu : ((r.st k).pc u = .wLock dl ∧ b = false) ∨ (r.st k).pc u = .wRelock dl b) :
    ∃ m, k ≤ m ∧ (r.st m).pc u = .idle ∧ (r.st m).ret u = some (.bool (!b)) := by
  have key : ∃ m dl', k ≤ m ∧ (r.st m).pc u = .wUnlock (!b) dl' := by
    rcases hu with ⟨hu, hb⟩ | hu
    · subst hb
      obtain ⟨m, hm, hP, hN⟩ := sf_leaves r hsf (fun s => s.pc u = .wLock dl) u k hu
        (fun hall j hj => by
          obtain ⟨i, hi, hfree⟩ := free_io r h0 hwf j
          exact ⟨i, hi, by simp [lk, hall i (by omega), hfree]⟩)
        (fun m _ hP ht hP' => by
          have := (succ_facts (inv_reach (reach_run r h0 m)) (r.ok m) u).2.2.2.2.2.1 ht.1 ht.2
          exact this (by rw [hP', hP]))
      rcases (succ_facts (inv_reach (reach_run r h0 m)) (r.ok m) u).2.1 dl (hset m (by omega)) hP with h | ⟨dl', h⟩
      · exact absurd h hN
      · exact ⟨m + 1, dl', by omega, h⟩
    · obtain ⟨m, hm, hP, hN⟩ := sf_leaves r hsf (fun s => s.pc u = .wRelock dl b) u k hu
        (fun hall j hj => by
          obtain ⟨i, hi, hfree⟩ := free_io r h0 hwf j
          exact ⟨i, hi, by simp [lk, hall i (by omega), hfree]⟩)
        (fun m _ hP ht hP' => by
          have := (succ_facts (inv_reach (reach_run r h0 m)) (r.ok m) u).2.2.2.2.2.1 ht.1 ht.2
          exact this (by rw [hP', hP]))
      rcases (succ_facts (inv_reach (reach_run r h0 m)) (r.ok m) u).2.2.1 dl b (hset m (by omega)) hP with h | h
      · exact absurd h hN
      · exact ⟨m + 1, dl, by omega, h⟩
  obtain ⟨m, dl', hm, hpc⟩ := key
  obtain ⟨m', hm', h1, h2⟩ := stage_unlock r h0 hwf m u (!b) dl' hpc
  exact ⟨m', by omega, h1, h2⟩

/-- stage 1: a blocked waiter leaves the wait set while the flag is set (the pending broadcast is executed) -/
theorem stage_blocked (r : Run St Op step) (h0 : Reach set0 now spur (r.st 0)) (hwf : WeakFair r prog)
    (n : Nat) (hset : ∀ m, n ≤ m → (r.st m).flag = true) (u : Tid) (dl : Option Deadline)
    (hu : (r.st n).pc u = .wBlocked dl) : ∃ m b, n ≤ m ∧ (r.st m).pc u = .wRelock dl b := by
  -- the broadcaster at time n
  have hi := inv_reach (reach_run r h0 n)
  obtain ⟨hne, hall⟩ := hi.noStuck (hset n (Nat.le_refl _)) u dl hu
  cases hm : (r.st n).m with
  | none => exact absurd hm hne
  | some v =>
    have hv := hall v hm
    apply Classical.byContradiction
    intro hcon
    -- otherwise u stays blocked for ever ...
    have hblocked : ∀ m, n ≤ m → (r.st m).pc u = .wBlocked dl := by
      intro m hm'
      induction m with
      | zero => have : n = 0 := by omega
                subst this; exact hu
      | succ j ih =>
        by_cases hj : n ≤ j
        · rcases (succ_facts (inv_reach (reach_run r h0 j)) (r.ok j) u).2.2.2.1 dl (ih hj) with h | ⟨b, h⟩
          · exact h
          · exact absurd ⟨j + 1, b, by omega, h⟩ hcon
        · have : n = j + 1 := by omega
          subst this; exact hu
    -- ... but the broadcaster takes its step
    obtain ⟨m, hm', hP, hN⟩ := wf_leaves r hwf (fun s => s.pc v = .setBcast) v n hv
      (fun m _ hP => by simp [prog, hP, step])
      (fun m _ hP ht hP' => by
        have := (succ_facts (inv_reach (reach_run r h0 m)) (r.ok m) v).2.2.2.2.2.1 ht.1 ht.2
        exact this (by rw [hP', hP]))
    -- the step that ends `pc v = setBcast` is v's broadcast, which wakes u
    have hub := hblocked m hm'
    have hub' := hblocked (m + 1) (by omega)
    have hf := succ_facts (inv_reach (reach_run r h0 m)) (r.ok m)
    by_cases hw : r.who m = v
    · have := (hf u).2.2.2.2.2.2.2 (by rw [hw]; exact hP) (by rw [hw]; exact hN) dl hub
      rw [hub'] at this; cases this
    · have := (hf v).2.2.2.2.2.2.1 hw (by intro d; rw [hP]; intro h; cases h)
      exact hN (by rw [this, hP])

/-- **Liveness**: on every run that is weakly fair for all threads and whose internal mutex is starvation-free, a
    thread that is blocked in wait() / wait(timeout) at a moment from which the signal remains set eventually
    returns — with `true`, unless it is a timed wait whose time-out fired first. -/
theorem waiter_eventually_returns (r : Run St Op step) (h0 : Reach set0 now spur (r.st 0))
    (hwf : WeakFair r prog) (hsf : StrongFair r lk) (n : Nat) (hset : ∀ m, n ≤ m → (r.st m).flag = true)
    (u : Tid) (dl : Option Deadline) (hu : (r.st n).pc u = .wBlocked dl) :
    ∃ m, n ≤ m ∧ (r.st m).pc u = .idle ∧
      ((r.st m).ret u = some (.bool true) ∨ (dl ≠ none ∧ (r.st m).ret u = some (.bool false))) := by
  obtain ⟨k, b, hk, hpc⟩ := stage_blocked r h0 hwf n hset u dl hu
  obtain ⟨m, hm, h1, h2⟩ := stage_lock r h0 hwf hsf n hset k hk u dl b (Or.inr hpc)
  refine ⟨m, by omega, h1, ?_⟩
  cases b with
  | false => left; simpa using h2
  | true =>
    right
    exact ⟨((hinv_reach (reach_run r h0 k)).relockTO u dl hpc).1, by simpa using h2⟩

/-- program points inside wait() / wait(timeout) -/
def inWait : Pc → Option (Option Deadline)
  | .wLock dl | .wUnlock _ dl | .wEnter dl | .wBlocked dl | .wRelock dl _ => some dl
  | _ => none

/-- **Liveness, every present and future waiter**: on every run that is weakly fair for all threads and whose internal
    mutex is starvation-free, a thread that is ANYWHERE inside wait() / wait(timeout) at a moment from which the signal
    remains set — blocked in the condition wait, or having just called wait() (a future waiter), or on its way back
    from a wake-up — returns: with `true`, unless it is a timed wait whose time-out had fired. -/
theorem every_waiter_eventually_returns (r : Run St Op step) (h0 : Reach set0 now spur (r.st 0))
    (hwf : WeakFair r prog) (hsf : StrongFair r lk) (n : Nat) (hset : ∀ m, n ≤ m → (r.st m).flag = true)
    (u : Tid) (dl : Option Deadline) (hu : inWait ((r.st n).pc u) = some dl) :
    ∃ m, n ≤ m ∧ (r.st m).pc u = .idle ∧
      ((r.st m).ret u = some (.bool true) ∨ (dl ≠ none ∧ (r.st m).ret u = some (.bool false))) := by
  have hi := inv_reach (reach_run r h0 n)
  have hh := hinv_reach (reach_run r h0 n)
  cases hp : (r.st n).pc u <;> simp [hp, inWait] at hu
  case wLock d =>
    subst hu
    obtain ⟨m, hm, h1, h2⟩ := stage_lock r h0 hwf hsf n hset n (Nat.le_refl _) u d false (Or.inl ⟨hp, rfl⟩)
    exact ⟨m, hm, h1, Or.inl (by simpa using h2)⟩
  case wUnlock b d =>
    subst hu
    obtain ⟨m, hm, h1, h2⟩ := stage_unlock r h0 hwf n u b d hp
    refine ⟨m, hm, h1, ?_⟩
    cases b with
    | true => exact Or.inl h2
    | false => exact Or.inr ⟨(hh.unlockF u d hp).1, h2⟩
  case wEnter d =>
    have := hi.enterFalse u d hp
    rw [hset n (Nat.le_refl _)] at this; cases this
  case wBlocked d =>
    subst hu
    exact waiter_eventually_returns r h0 hwf hsf n hset u d hp
  case wRelock d b =>
    subst hu
    obtain ⟨m, hm, h1, h2⟩ := stage_lock r h0 hwf hsf n hset n (Nat.le_refl _) u d b (Or.inr hp)
    refine ⟨m, hm, h1, ?_⟩
    cases b with
    | false => exact Or.inl (by simpa using h2)
    | true => exact Or.inr ⟨(hh.relockTO u d hp).1, by simpa using h2⟩

end Nstd.Sync.Signal
