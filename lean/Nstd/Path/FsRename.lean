import Nstd.Path.FsUnlink
/-
  File::rename of a file or symbolic link: when it reports success the entry sits at the destination,
  the source is gone, nothing else changed.
-/
namespace Nstd.Path

def renKey (pf pt : CPath) (x : CPath × Entry) : CPath × Entry :=
  if pf.isPrefixOf x.1 then (pt ++ x.1.drop pf.length, x.2) else x

theorem moveTree_ents (fs : Fs) (pf pt : CPath) : (fs.moveTree pf pt).ents = (fs.del pt).ents.map (renKey pf pt) := rfl

theorem lookup_map_rename (pf pt q : CPath) (hne : pt ≠ pf) : ∀ (l : List (CPath × Entry)),
    (∀ x ∈ l, pf.isPrefixOf x.1 = true → x.1 = pf) → (∀ x ∈ l, x.1 ≠ pt) →
    lookup q (l.map (renKey pf pt)) = if q = pt then lookup pf l else if q = pf then none else lookup q l := by
  intro l
  induction l with
  | nil => intro _ _; simp [lookup]
  | cons x rest ih =>
    intro hleaf hnopt
    obtain ⟨k, v⟩ := x
    have ih' := ih (fun y hy => hleaf y (List.mem_cons_of_mem _ hy)) (fun y hy => hnopt y (List.mem_cons_of_mem _ hy))
    have hkpt : k ≠ pt := hnopt (k, v) (List.mem_cons_self)
    simp only [List.map_cons, renKey]
    by_cases hp : pf.isPrefixOf k = true
    · have hk : k = pf := hleaf (k, v) (List.mem_cons_self) hp
      subst hk
      simp only [hp, if_true, List.drop_length, List.append_nil, lookup]
      by_cases hq : q = pt
      · subst hq; simp
      · have : ¬ pt = q := fun h => hq h.symm
        simp only [this, if_false, hq]
        rw [ih']
        simp only [hq, if_false]
        by_cases hqk : q = k
        · subst hqk; simp
        · have : ¬ k = q := fun h => hqk h.symm
          simp [hqk, this]
    · simp only [hp, Bool.false_eq_true, if_false, lookup]
      have hkpf : k ≠ pf := by
        intro h; apply hp; rw [h]; exact List.isPrefixOf_iff_prefix.mpr (List.prefix_refl _)
      by_cases hq : q = pt
      · subst hq
        have : ¬ k = q := hkpt
        simp only [this, if_false, if_true, hkpf]
        rw [ih']; simp
      · by_cases hqf : q = pf
        · subst hqf
          simp only [hkpf, if_false, hq, if_true]
          rw [ih']; simp [hq]
        · simp only [hq, hqf, if_false]
          by_cases hkq : k = q
          · simp [hkq]
          · simp only [hkq, if_false]
            rw [ih']; simp [hq, hqf]

/-- moving a leaf entry: it appears at `pt`, disappears at `pf`, everything else stays -/
theorem moveTree_get (fs : Fs) (pf pt : CPath) (e : Entry) (hleaf : Leaf fs pf) (hg : fs.get pf = some e)
    (hpf : pf ≠ []) (hpt : pt ≠ []) (hne : pt ≠ pf) (q : CPath) :
    (fs.moveTree pf pt).get q = if q = pt then some e else if q = pf then none else fs.get q := by
  unfold Fs.get
  rw [moveTree_ents]
  by_cases hq : q = []
  · subst hq
    have h1 : ¬ ([] : CPath) = pt := fun h => hpt h.symm
    have h2 : ¬ ([] : CPath) = pf := fun h => hpf h.symm
    simp [h1, h2]
  · simp only [hq, if_false]
    rw [lookup_map_rename pf pt q hne]
    · unfold Fs.get at hg
      rw [if_neg hpf] at hg
      simp only [Fs.del, lookup_filter_ne]
      have hfp : ¬ pf = pt := fun h => hne h.symm
      by_cases hq1 : q = pt
      · simp [hq1, hfp, hg]
      · by_cases hq2 : q = pf
        · simp [hq2, hfp]
        · simp [hq1, hq2]
    · intro x hx hp
      have hx' := del_sub fs pt x hx
      by_cases hxe : x.1 = pf
      · exact hxe
      · exact absurd ⟨List.isPrefixOf_iff_prefix.mp hp, hxe⟩ (hleaf x hx')
    · intro x hx
      simp only [Fs.del, List.mem_filter, ne_eq, decide_eq_true_eq] at hx
      exact hx.2

end Nstd.Path
