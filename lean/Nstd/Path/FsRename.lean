import Nstd.Path.FsUnlink
/-
  File::rename of a file or symbolic link: when it reports success the entry sits at the destination,
  the source is gone, nothing else changed.
-/
namespace Nstd.Path

def renKey (pf pt : CPath) (x : CPath × Entry) : CPath × Entry :=
  if pf.isPrefixOf x.1 then (pt ++ x.1.drop pf.length, x.2) else x

theorem moveTree_ents (fs : Fs) (pf pt : CPath) : (fs.moveTree pf pt).ents = (fs.del pt).ents.map (renKey pf pt) := rfl

theorem lookup_map_rename (pf pt q : CPath) (hne : pt ≠ pf) : ∀ (l : List (CPath × Entry)),
    (∀ x ∈ l, pf.isPrefixOf x.1 = true → x.1 = pf) → (∀ x ∈ l, x.1 ≠ pt) →
    lookup q (l.map (renKey pf pt)) = if q = pt then lookup pf l else if q = pf then none else lookup q l := by
  intro l
  induction l with
  | nil => intro _ _; simp [lookup]
  | cons x rest ih =>
    intro hleaf hnopt
    obtain ⟨k, v⟩ := x
    have ih' := ih (fun y hy => hleaf y (List.mem_cons_of_mem _ hy)) (fun y hy => hnopt y (List.mem_cons_of_mem _ hy))
    have hkpt : k ≠ pt := hnopt (k, v) (List.mem_cons_self)
    simp only [List.map_cons, renKey]
    by_cases hp : pf.isPrefixOf k = true
    · have hk : k = pf := hleaf (k, v) (List.mem_cons_self) hp
      subst hk
      simp only [hp, if_true, List.drop_length, List.append_nil, lookup]
      by_cases hq : q = pt
      · subst hq; simp
      · have : ¬ pt = q := fun h => hq h.symm
        simp only [this, if_false, hq]
        rw [ih']
        simp only [hq, if_false]
        by_cases hqk : q = k
        · subst hqk; simp
        · have : ¬ k = q := fun h => hqk h.symm
          simp [hqk, this]
    · simp only [hp, Bool.false_eq_true, if_false, lookup]
      have hkpf : k ≠ pf := by
        intro h; apply hp; rw [h]; exact List.isPrefixOf_iff_prefix.mpr (List.prefix_refl _)
      by_cases hq : q = pt
      · subst hq
        have : ¬ k = q := hkpt
        simp only [this, if_false, if_true, hkpf]
        rw [ih']; simp
      · by_cases hqf : q = pf
        · subst hqf
          simp only [hkpf, if_false, hq, if_true]
          rw [ih']; simp [hq]
        · simp only [hq, hqf, if_false]
          by_cases hkq : k = q
          · simp [hkq]
          · simp only [hkq, if_false]
            rw [ih']; simp [hq, hqf]

/-- moving a leaf entry: it appears at `pt`, disappears at `pf`, everything else stays -/
theorem moveTree_get (fs : Fs) (pf pt : CPath) (e : Entry) (hleaf : Leaf fs pf) (hg : fs.get pf = some e)
    (hpf : pf ≠ []) (hpt : pt ≠ []) (hne : pt ≠ pf) (q : CPath) :
    (fs.moveTree pf pt).get q = if q = pt then some e else if q = pf then none else fs.get q := by
  unfold Fs.get
  rw [moveTree_ents]
  by_cases hq : q = []
  · subst hq
    have h1 : ¬ ([] : CPath) = pt := fun h => hpt h.symm
    have h2 : ¬ ([] : CPath) = pf := fun h => hpf h.symm
    simp [h1, h2]
  · simp only [hq, if_false]
    rw [lookup_map_rename pf pt q hne]
    · unfold Fs.get at hg
      rw [if_neg hpf] at hg
      simp only [Fs.del, lookup_filter_ne]
      have hfp : ¬ pf = pt := fun h => hne h.symm
      by_cases hq1 : q = pt
      · simp [hq1, hfp, hg]
      · by_cases hq2 : q = pf
        · simp [hq2, hfp]
        · simp [hq1, hq2]
    · intro x hx hp
      have hx' := del_sub fs pt x hx
      by_cases hxe : x.1 = pf
      · exact hxe
      · exact absurd ⟨List.isPrefixOf_iff_prefix.mp hp, hxe⟩ (hleaf x hx')
    · intro x hx
      simp only [Fs.del, List.mem_filter, ne_eq, decide_eq_true_eq] at hx
      exact hx.2


theorem walk_lift2 (fs fs' : Fs) (R : (CPath → List Name → Bool → Res) → (CPath → List Name → Bool → Res) → Prop)
    (h0 : R (fun _ _ _ => .err .eloop) (fun _ _ _ => .err .eloop))
    (hstep : ∀ k k', R k k' → R (walkAux fs k) (walkAux fs' k')) : ∀ fuel, R (walk fs fuel) (walk fs' fuel) := by
  intro fuel
  induction fuel with
  | zero => exact hstep _ _ h0
  | succ fuel ih => exact hstep _ _ ih

/-- a resolution that found something is not disturbed by an entry made where nothing was -/
theorem walk_found_stable (fs : Fs) (P : CPath) (x : Entry) (hP : P ≠ []) (hnone : fs.get P = none) (fuel : Nat) :
    ∀ (cur : CPath) (comps : List Name) (fo : Bool) (p : CPath) (e : Entry),
    walk fs fuel cur comps fo = .found p e → walk (fs.set P x) fuel cur comps fo = .found p e := by
  apply walk_lift2 fs (fs.set P x) (fun k k' => ∀ (cur : CPath) (comps : List Name) (fo : Bool) (p : CPath) (e : Entry),
    k cur comps fo = .found p e → k' cur comps fo = .found p e)
  · intro _ _ _ _ _ h; simp at h
  · intro k k' hk cur comps
    induction comps generalizing cur with
    | nil => intro fo p e h; simpa [walkAux] using h
    | cons c rest ih =>
      intro fo p e h
      rw [walkAux_cons] at h ⊢
      by_cases h1 : c = [46]
      · rw [if_pos h1] at h ⊢; exact ih _ _ _ _ h
      · rw [if_neg h1] at h ⊢
        by_cases h2 : c = dotdot
        · rw [if_pos h2] at h ⊢; exact ih _ _ _ _ h
        · rw [if_neg h2] at h ⊢
          rw [get_set fs P _ x hP]
          cases hg : fs.get (cur ++ [c]) with
          | none =>
            simp only [hg] at h
            by_cases hr : rest = [] <;> simp [hr] at h
          | some e0 =>
            simp only [hg] at h
            have hne : cur ++ [c] ≠ P := by intro heq; rw [heq, hnone] at hg; simp at hg
            rw [if_neg hne]
            cases e0 with
            | dir => (try dsimp only at h); (try dsimp only); exact ih _ _ _ _ h
            | file d => (try dsimp only at h); (try dsimp only); exact h
            | link t =>
              (try dsimp only at h); (try dsimp only)
              by_cases hr : rest = [] ∧ fo = false
              · rw [if_pos hr] at h ⊢; exact h
              · rw [if_neg hr] at h ⊢; exact hk _ _ _ _ _ h

theorem resolve_found_stable (fs : Fs) (P : CPath) (x : Entry) (hP : P ≠ []) (hnone : fs.get P = none)
    (path : Bytes) (fo : Bool) (p : CPath) (e : Entry) (h : resolve fs path fo = .found p e) :
    resolve (fs.set P x) path fo = .found p e := by
  unfold resolve at h ⊢
  by_cases hne : path = []
  · simp [hne] at h
  · rw [if_neg hne] at h ⊢
    exact walk_found_stable fs P x hP hnone _ _ _ _ _ _ h

theorem resolve_found_nondir (fs : Fs) (path : Bytes) (fo : Bool) (p : CPath) (e : Entry)
    (h : resolve fs path fo = .found p e) (he : e ≠ .dir) : p ≠ [] ∧ fs.get p = some e := by
  unfold resolve at h
  by_cases hne : path = []
  · simp [hne] at h
  · rw [if_neg hne] at h
    exact walk_found_nondir fs _ _ _ _ _ _ h he

theorem resolve_missing_get (fs : Fs) (path : Bytes) (fo : Bool) (pa : CPath) (n : Name)
    (h : resolve fs path fo = .missing pa n) : fs.get (pa ++ [n]) = none := by
  unfold resolve at h
  by_cases hne : path = []
  · simp [hne] at h
  · rw [if_neg hne] at h
    exact walk_missing_get fs _ _ _ _ _ _ h

/-- the outcome of a successful rename(2) of a file or symbolic link in a well-formed world -/
theorem sysRename_exact (fs fs' : Fs) (frm to : Bytes) (hwf : WF fs) (pf : CPath) (e : Entry)
    (hsrc : resolve fs frm false = .found pf e) (he : e ≠ .dir)
    (h : sysRename fs frm to = (fs', .ok ())) :
    ∃ pt, pt ≠ [] ∧ fs'.get pt = some e ∧ (pt ≠ pf → fs'.get pf = none) ∧
      (∀ q, q ≠ pt → q ≠ pf → fs'.get q = fs.get q) ∧
      (resolve fs to false = .missing pt.dropLast (pt.getLast?.getD []) ∨ ∃ et, resolve fs to false = .found pt et) := by
  obtain ⟨hpf, hgpf⟩ := resolve_found_nondir fs frm false pf e hsrc he
  have hleaf := leaf_of_nondir fs hwf pf e hpf hgpf he
  unfold sysRename at h
  rw [hsrc] at h
  by_cases hcw : pf.isPrefixOf cwd = true
  · simp [hcw] at h
  simp only [hcw, Bool.false_eq_true, if_false] at h
  cases hrt : resolve fs to false with
  | err e0 => simp [hrt] at h
  | missing pa n =>
    simp only [hrt, he, false_and, if_false, Prod.mk.injEq, and_true] at h
    subst h
    have hnone := resolve_missing_get fs to false pa n hrt
    have hne : pa ++ [n] ≠ pf := by intro heq; rw [heq, hgpf] at hnone; simp at hnone
    refine ⟨pa ++ [n], by simp, ?_, ?_, ?_, Or.inl (by simp)⟩
    · rw [moveTree_get fs pf _ e hleaf hgpf hpf (by simp) hne]; simp
    · intro _
      rw [moveTree_get fs pf _ e hleaf hgpf hpf (by simp) hne]
      have : ¬ pf = pa ++ [n] := fun hh => hne hh.symm
      simp [this]
    · intro q hq1 hq2
      rw [moveTree_get fs pf _ e hleaf hgpf hpf (by simp) hne]
      simp [hq1, hq2]
  | found pt et =>
    simp only [hrt] at h
    by_cases h1 : pt = pf
    · simp only [h1, if_true, Prod.mk.injEq, and_true] at h
      subst h
      subst h1
      exact ⟨pt, hpf, hgpf, fun hh => absurd rfl hh, fun _ _ _ => rfl, Or.inr ⟨et, rfl⟩⟩
    · rw [if_neg h1, if_neg he] at h
      by_cases h3 : et = .dir
      · rw [if_pos h3] at h; simp at h
      · rw [if_neg h3] at h
        simp only [Prod.mk.injEq, and_true] at h
        subst h
        obtain ⟨hpt, _⟩ := resolve_found_nondir fs to false pt et hrt h3
        refine ⟨pt, hpt, ?_, ?_, ?_, Or.inr ⟨et, rfl⟩⟩
        · rw [moveTree_get fs pf pt e hleaf hgpf hpf hpt h1]; simp
        · intro _
          rw [moveTree_get fs pf pt e hleaf hgpf hpf hpt h1]
          have : ¬ pf = pt := fun hh => h1 hh.symm
          simp [this]
        · intro q hq1 hq2
          rw [moveTree_get fs pf pt e hleaf hgpf hpf hpt h1]
          simp [hq1, hq2]


theorem del_set_ents (fs : Fs) (P : CPath) (x : Entry) : ((fs.set P x).del P).ents = (fs.del P).ents := by
  simp [Fs.set, Fs.del, List.filter_filter]

theorem moveTree_set (fs : Fs) (P pf : CPath) (x : Entry) : (fs.set P x).moveTree pf P = fs.moveTree pf P := by
  unfold Fs.moveTree
  rw [del_set_ents]

/-- File::rename of a file or symbolic link that reports success, in a well-formed world: the entry now
    sits at the destination `pt`, the source path is gone, nothing else changed -/
theorem fileRename_exact (fs : Fs) (frm to : Bytes) (fie : Bool) (hwf : WF fs) (pf : CPath) (e : Entry)
    (hsrc : resolve fs frm false = .found pf e) (he : e ≠ .dir)
    (h : (fileRename fs frm to fie).2 = true) :
    ∃ pt, pt ≠ [] ∧ (fileRename fs frm to fie).1.get pt = some e ∧
      (pt ≠ pf → (fileRename fs frm to fie).1.get pf = none) ∧
      (∀ q, q ≠ pt → q ≠ pf → (fileRename fs frm to fie).1.get q = fs.get q) := by
  unfold fileRename at h ⊢
  cases fie with
  | false =>
    simp only [Bool.false_eq_true, if_false] at h ⊢
    cases hr : sysRename fs frm to with
    | mk fs1 r =>
      rw [hr] at h
      cases r with
      | error _ => simp [isOk] at h
      | ok u =>
        obtain ⟨pt, h1, h2, h3, h4, _⟩ := sysRename_exact fs fs1 frm to hwf pf e hsrc he hr
        exact ⟨pt, h1, h2, h3, h4⟩
  | true =>
    simp only [if_true] at h ⊢
    by_cases hs : isOk (sysStat fs frm false) = false
    · rw [if_pos hs] at h; simp at h
    · rw [if_neg hs] at h ⊢
      cases ho : sysOpen fs to { acc := .rdonly, creat := true, excl := true } with
      | mk fs1 r =>
        rw [ho] at h
        cases r with
        | error _ => simp at h
        | ok fd =>
          simp only at h ⊢
          unfold sysOpen at ho
          simp only [and_self, if_true] at ho
          cases hres : resolve fs to false with
          | found p e0 => simp [hres] at ho
          | err e0 => simp [hres] at ho
          | missing pa n =>
            simp only [hres, Prod.mk.injEq] at ho
            obtain ⟨hfs1, _⟩ := ho
            subst hfs1
            have hPne := append_singleton_ne_nil pa n
            have hnone := resolve_missing_get fs to false pa n hres
            obtain ⟨hpf, hgpf⟩ := resolve_found_nondir fs frm false pf e hsrc he
            have hne : pa ++ [n] ≠ pf := by intro heq; rw [heq, hgpf] at hnone; simp at hnone
            have hleaf := leaf_of_nondir fs hwf pf e hpf hgpf he
            -- in the world with the placeholder: the source resolves as before, the destination to the placeholder
            have hsrc1 := resolve_found_stable fs (pa ++ [n]) (.file []) hPne hnone frm false pf e hsrc
            have hto1 : resolve (fs.set (pa ++ [n]) (.file [])) to false = .found (pa ++ [n]) (.file []) := by
              unfold resolve at hres ⊢
              by_cases hne0 : to = []
              · simp [hne0] at hres
              · rw [if_neg hne0] at hres ⊢
                exact walk_after_create fs (.file []) (by intro t; simp) _ _ _ false false _ _ (Or.inl rfl) hres
            have hcw : ¬ (pf.isPrefixOf cwd = true) := by
              intro hcw
              have : sysRename (fs.set (pa ++ [n]) (.file [])) frm to = (fs.set (pa ++ [n]) (.file []), .error .einval) := by
                unfold sysRename
                rw [hsrc1]
                simp [hcw]
              rw [this] at h
              simp at h
            have hren : sysRename (fs.set (pa ++ [n]) (.file [])) frm to = (fs.moveTree pf (pa ++ [n]), .ok ()) := by
              unfold sysRename
              rw [hsrc1]
              simp only [hcw, if_false, hto1, hne, he, moveTree_set]
              simp
            rw [hren]
            simp only
            refine ⟨pa ++ [n], hPne, ?_, ?_, ?_⟩
            · rw [moveTree_get fs pf _ e hleaf hgpf hpf hPne hne]; simp
            · intro _
              rw [moveTree_get fs pf _ e hleaf hgpf hpf hPne hne]
              have : ¬ pf = pa ++ [n] := fun hh => hne hh.symm
              simp [this]
            · intro q hq1 hq2
              rw [moveTree_get fs pf _ e hleaf hgpf hpf hPne hne]
              simp [hq1, hq2]

end Nstd.Path
