import Nstd.Common.Basic
import Nstd.Path.Model
import Nstd.Path.FsLib
import Nstd.Path.FsSpec
import Nstd.Path.FsMore
import Nstd.Path.Obj
/-
  Line protocol of the Path area (property C19).  Path ops are stateless:
     dir <hex> | base <hex> <hexext> | stem <hex> <hexext> | ext <hex> | simp <hex> |
     abs <hex> | rel <hexfrom> <hexto>
  each answers one line: the returned string in hex (`-` = empty) resp. `0`/`1`.
-/
open Nstd.Common
namespace Nstd.Path

/-- C strings: no NUL byte -/
def okStr (b : Bytes) : Bool := b.all (fun c => c != 0)

def b01' (b : Bool) : String := if b then "1" else "0"

def pathOp (ws : List String) : Option String :=
  match ws with
  | ["dir", p] => do let p ← fromHex p; if okStr p then pure (toHex (getDirectoryName p)) else none
  | ["base", p, e] => do
      let p ← fromHex p; let e ← fromHex e
      if okStr p && okStr e then pure (toHex (getBaseName p e)) else none
  | ["stem", p, e] => do
      let p ← fromHex p; let e ← fromHex e
      if okStr p && okStr e then pure (toHex (getStem p e)) else none
  | ["ext", p] => do let p ← fromHex p; if okStr p then pure (toHex (getExtension p)) else none
  | ["simp", p] => do let p ← fromHex p; if okStr p then pure (toHex (simplifyPath p)) else none
  | ["abs", p] => do let p ← fromHex p; if okStr p then pure (if isAbsolutePath p then "1" else "0") else none
  | ["rel", f, t] => do
      let f ← fromHex f; let t ← fromHex t
      if okStr f && okStr t then pure (toHex (getRelativePath f t)) else none
  | ["wild", p, s] => do
      let p ← fromHex p; let s ← fromHex s
      if okStr p && okStr s then pure (b01' (szWildMatch7 lowerAscii p s)) else none
  | _ => none

/-! ### file-system ops

  World: `/s` (scratch, the working directory) and `/o` (the OUTSIDE sentinel: file `of` = "OUT",
  directory `od` with file `x` = "X").  Every fs op answers `<result> | <snapshot>`; the snapshot lists
  every entry of the world: `d:<path>`, `f:<path>:<bytes>`, `l:<path>:<target>` (hex; order irrelevant).
     fsmkdir p | fsmkfile p data | fssymlink target p        raw system calls (set-up)
     fscreate p | fscreatef p k | fscreateabs p              Directory::create (k-th mkdir fails)
     fsrmdir p rec | fsunlink p | fsrename a b fie | fscopy a b fie | fscopyf a b fie mode
     fsexists p | fsreadall p | fsls p | fsfile p flags script
-/

def cpathHex (p : CPath) : String := toHex (([47] : Bytes).intercalate p)

def snapshot (fs : Fs) : String :=
  " ".intercalate (fs.ents.map (fun (p, e) =>
    match e with
    | .dir => s!"d:{cpathHex p}"
    | .file d => s!"f:{cpathHex p}:{toHex d}"
    | .link t => s!"l:{cpathHex p}:{toHex t}"))

def b01 (b : Bool) : String := if b then "1" else "0"

/-- fs paths: C strings (a backslash is an ordinary byte for the kernel; File.cpp's path functions split at it) -/
def lexDepth : List Bytes → Int → Option Int
  | [], d => some d
  | c :: rest, d =>
    if c = [46] then lexDepth rest d
    else if c = dotdot then (if d - 1 < 0 then none else lexDepth rest (d - 1))
    else lexDepth rest (d + 1)

/-- the path does not lexically climb above the world root (which is a scratch directory in reality) -/
def lexInside (b : Bytes) : Bool := (lexDepth (kchunks b) (if startsWith47 b then 0 else 1)).isSome

def okFsPath (b : Bytes) : Bool := b.all (fun c => c != 0) && lexInside b

/-- last component is a name (rmdir/unlink/rename of `.`/`..`/the root have their own errno rules: outside) -/
def lastIsName (b : Bytes) : Bool :=
  match (kchunks b).getLast? with
  | some c => c != [46] && c != dotdot
  | none => false

/-- the model keeps the working directory and its ancestors (assumption): such arguments are rejected -/
def hitsCwd (fs : Fs) (b : Bytes) : Bool :=
  match resolve fs b true with
  | .found q _ => q.isPrefixOf cwd
  | _ => false

/-- Directory::purge climbs through getDirectoryName: only relative paths of plain names are run -/
def purgeOk (b : Bytes) : Bool :=
  !startsWith47 b && !b.contains 92 && (kchunks b).all (fun c => c != [46] && c != dotdot) && !(kchunks b).isEmpty

def parseBool (s : String) : Option Bool :=
  if s == "0" then some false else if s == "1" then some true else none

/-- script of one File object: `w<hex>` write(String), `v` write("VW", 2) answering the count, `s<whence>:<offset>` seek,
    `r` readAll, `p<n>` read(buffer, n), `z` size; `i` isOpen, `o` open again (refused), `f` flush have constant
    answers on an open File; parsing stops at the first malformed item (second component) -/
def parseScript : List String → List (Option FileOp × String) × Bool
  | [] => ([], true)
  | it :: rest =>
    let c := (it.take 1).toString
    let arg := (it.drop 1).toString
    let op : Option (Option FileOp × String) :=
      if c == "w" then (fromHex arg).map (fun d => (some (FileOp.write d), "w"))
      else if c == "v" && arg == "" then some (some (FileOp.write [86, 87]), "v")
      else if c == "r" && arg == "" then some (some .readAll, "r")
      else if c == "z" && arg == "" then some (some .size, "z")
      else if c == "p" && arg != "" then
        match arg.toNat? with
        | some n => if n ≤ 4096 then some (some (.read n), "p") else none
        | none => none
      else if c == "Z" then (arg.toNat?).bind (fun k => if k ≤ 3 then some (some (FileOp.sizeF k), "z") else none)
      else if c == "R" then (arg.toNat?).bind (fun k => if k ≤ 3 then some (some (FileOp.readAllF k), "r") else none)
      else if c == "S" then
        match arg.splitOn ":" with
        | [w, o] =>
          match (if w == "0" then some Whence.set else if w == "1" then some Whence.cur else if w == "2" then some Whence.end_ else none), o.toInt? with
          | some wh, some off => some (some (.seekF off wh), "s")
          | _, _ => none
        | _ => none
      else if c == "i" && arg == "" then some (none, " i=1")
      else if c == "o" && arg == "" then some (none, " o=0")
      else if c == "f" && arg == "" then some (none, " f=1")
      else if c == "s" then
        match arg.splitOn ":" with
        | [w, o] =>
          match (if w == "0" then some Whence.set else if w == "1" then some Whence.cur else if w == "2" then some Whence.end_ else none), o.toInt? with
          | some wh, some off => some (some (.seek off wh), "s")
          | _, _ => none
        | _ => none
      else none
    match op with
    | none => ([], false)
    | some op => let (ops, ok) := parseScript rest; (op :: ops, ok)

def outStr (tag : String) : FileOut → String
  | .wrote ok => if tag == "v" then (if ok then " v=2" else " v=-1") else s!" w={b01 ok}"
  | .pos (some n) => s!" s={n}"
  | .pos none => " s=-1"
  | .data (some d) => s!" {if tag == "p" then "p" else "r"}={toHex d}"
  | .data none => s!" {if tag == "p" then "p" else "r"}=fail"
  | .size (some n) => s!" z={n}"
  | .size none => " z=-1"

/-- the printed answers: the File operations answer what the model computed, the constant items their constant -/
def mergeOuts : List (Option FileOp × String) → List FileOut → String
  | [], _ => ""
  | (none, t) :: rest, outs => t ++ mergeOuts rest outs
  | (some _, t) :: rest, o :: outs => outStr t o ++ mergeOuts rest outs
  | (some _, _) :: _, [] => " ?"

/-- the `d_type` fault of the run: 0 = none, 1 = every entry DT_UNKNOWN, 2 = names ending in an odd byte -/
def unkOf (mode : Nat) : Bytes → Bool := fun p =>
  mode == 1 || (mode == 2 && (match p.getLast? with | some c => c % 2 == 1 | none => false))

def noDotDot (b : Bytes) : Bool := (kchunks b).all (fun c => c != dotdot)

/-- `fsobj`: the life cycle of three File objects (Nstd/Path/Obj.lean; the theorems of PropsObj.lean are about exactly
    these transitions).  What the system calls answer comes from the file-system model: open succeeds iff `fileOpen`
    does (read-only flags: the world does not change), a directory is refused after the descriptor was obtained,
    File::copy is run with a failing lseek (the world does not change either). -/
def objRun (fs : Fs) : List String → Obj.St → String → Option String
  | [], st, out =>
    let st := Obj.run st [.destroy 0, .destroy 1, .destroy 2, .destroy 3, .destroy 4, .destroy 5]
    some (out ++ s!" end={Obj.held st}")
  | it :: rest, st, out =>
    let parts := it.splitOn ":"
    let head := parts.headD ""
    let c := (head.take 1).toString
    if c == "k" then
      match parts with
      | [_, a, b, n] => do
        let a ← fromHex a; let b ← fromHex b
        if !(okFsPath a && okFsPath b && lastIsName b) || fileExists fs b || !(n == "0" || n == "1") then none
        let readable := (fileReadAllPath fs a).isSome
        let env : Obj.CopyEnv :=
          if readable then (if n == "0" then .sizeSeekFail else .rewindSeekFail)
          else if dirExists fs a then .srcDir else .srcFail
        let (st', ok) := Obj.step st (.copy env)
        objRun fs rest st' (out ++ s!" k={b01 ok}/{Obj.held st'} fired={b01 readable}")
      | _ => none
    else do
      let i ← ((head.drop 1).toString).toNat?
      if i > 2 then none
      if c == "O" then
        match parts with
        | [_, p] => do           -- Directory object i = slot 3 + i; opendir succeeds iff the model can list the directory
          let p ← fromHex p
          if !okFsPath p || p.isEmpty then none
          let env : Obj.OpenEnv := if (dirList fs p).isSome then .ok else .fail
          let (st', ok) := Obj.step st (.openF (3 + i) env false)
          objRun fs rest st' (out ++ s!" O={b01 ok}/{Obj.held st'}")
        | _ => none
      else if c == "C" && parts.length == 1 && head.length == 2 then
        let (st', _) := Obj.step st (.close (3 + i))
        objRun fs rest st' (out ++ s!" C=1/{Obj.held st'}")
      else if c == "X" && parts.length == 1 && head.length == 2 then
        let (st', _) := Obj.step st (.destroy (3 + i))
        objRun fs rest st' (out ++ s!" X=1/{Obj.held st'}")
      else if c == "o" then
        match parts with
        | [_, p, fl] => do
          let p ← fromHex p; let fl ← fl.toNat?
          if !okFsPath p || !(fl == 1 || fl == 5) then none
          let env : Obj.OpenEnv :=
            if (fileOpen fs p fl).2.isSome then .ok else if dirExists fs p then .isDir else .fail
          let (st', ok) := Obj.step st (.openF i env (fl == 5))
          objRun fs rest st' (out ++ s!" o={b01 ok}/{Obj.held st'}")
        | _ => none
      else if parts.length != 1 || head.length != 2 then none
      else if c == "c" then
        let (st', _) := Obj.step st (.close i)
        objRun fs rest st' (out ++ s!" c=1/{Obj.held st'}")
      else if c == "q" then
        let (st', r) := Obj.step st (.isOpen i)
        objRun fs rest st' (out ++ s!" q={b01 r}/{Obj.held st'}")
      else if c == "x" then
        let (st', _) := Obj.step st (.destroy i)
        objRun fs rest st' (out ++ s!" x=1/{Obj.held st'}")
      else none

def fsOp (fs : Fs) (ws : List String) : Option (Fs × String) :=
  match ws with
  | ["fsmkdir", p] => do
      let p ← fromHex p; if !okFsPath p then none
      pure (fsApply fs (.mkdir p), b01 (isOk (sysMkdir fs p).2))
  | ["fsmkfile", p, d] => do
      let p ← fromHex p; let d ← fromHex d; if !okFsPath p then none
      pure (fsApply fs (.mkfile p d), b01 (mkfile fs p d).2)
  | ["fssymlink", t, p] => do
      let t ← fromHex t; let p ← fromHex p; if !(okFsPath p && okFsPath t) then none
      pure (fsApply fs (.symlink t p), b01 (isOk (sysSymlink fs t p).2))
  | ["fscreate", p] => do
      let p ← fromHex p; if !okFsPath p then none
      pure (fsApply fs (.create p none), b01 (dirCreateTop fs p none).2.1)
  | ["fscreateabs", p] => do
      let p ← fromHex p; if !okFsPath p || startsWith47 p then none
      pure (fsApply fs (.create ([47, 115, 47] ++ p) none), b01 (dirCreateTop fs ([47, 115, 47] ++ p) none).2.1)
  | ["fscreatef", p, k] => do
      let p ← fromHex p; let k ← k.toNat?; if !okFsPath p then none
      let (_, r, fired) := dirCreateTop fs p (some k)
      pure (fsApply fs (.create p (some k)), s!"{b01 r} fired={fired}")
  | ["fspurge", p, r] => do
      let p ← fromHex p; let r ← parseBool r; if !(okFsPath p && purgeOk p) || hitsCwd fs p then none
      pure (fsApply fs (.purge p r), b01 (dirPurge fs p r).2)
  | ["fsabspath", p] => do
      let p ← fromHex p; if !okStr p then none
      pure (fs, toHex (getAbsolutePath p))
  | ["fsrmdir", p, r] => do
      let p ← fromHex p; let r ← parseBool r; if !(okFsPath p) || hitsCwd fs p then none
      pure (fsApply fs (.rmdir p r), b01 (dirUnlinkTop fs p r).2)
  | ["fsunlink", p] => do
      let p ← fromHex p; if !(okFsPath p && lastIsName p) then none
      pure (fsApply fs (.unlink p), b01 (fileUnlink fs p).2)
  | ["fsrename", a, b, f] => do
      let a ← fromHex a; let b ← fromHex b; let f ← parseBool f
      if !(okFsPath a && okFsPath b && lastIsName a && lastIsName b) || hitsCwd fs a then none
      pure (fsApply fs (.rename a b f), b01 (fileRename fs a b f).2)
  | ["fscopy", a, b, f] => do
      let a ← fromHex a; let b ← fromHex b; let f ← parseBool f
      if !(okFsPath a && okFsPath b && lastIsName b) then none
      pure (fsApply fs (.copy a b f .none), b01 (fileCopy fs a b f .none).2.1)
  | ["fscopyf", a, b, f, m] => do
      let a ← fromHex a; let b ← fromHex b; let f ← parseBool f
      let m ← (if m == "0" then some SfFault.fail else if m == "1" then some SfFault.half else none)
      if !(okFsPath a && okFsPath b && lastIsName b) then none
      let (_, ok, fired) := fileCopy fs a b f m
      pure (fsApply fs (.copy a b f m), s!"{b01 ok} fired={b01 fired}")
  | ["fsexists", p] => do
      let p ← fromHex p; if !okFsPath p then none
      pure (fs, s!"{b01 (fileExists fs p)} {b01 (dirExists fs p)} {b01 (fileTime fs p)} {b01 (fileIsExecutable fs p)}")
  | ["fsreadall", p] => do
      let p ← fromHex p; if !okFsPath p then none
      pure (fs, match fileReadAllPath fs p with | some d => s!"1 {toHex d}" | none => "0")
  | ["fsls", p] => do
      let p ← fromHex p; if !okFsPath p then none
      pure (fs, match dirList fs p with
        | some l => " ".intercalate ("ls=1" :: l.map (fun (n, d) => s!"{toHex n}:{b01 d}"))
        | none => "ls=0")
  | ["fsfile", p, flags, script] => do
      let p ← fromHex p; let flags ← flags.toNat?; if !okFsPath p || flags ≥ 16 then none
      let (items, ok) := parseScript (script.splitOn ",")
      let ops := items.filterMap (·.1)
      let fs' := fsApply fs (.file p flags ops)
      match (fileSession fs p flags ops).2 with
      | none => pure (fs', "open=0")
      | some outs => pure (fs', "open=1" ++ mergeOuts items outs ++ (if ok then "" else " bad") ++ " closed=1")
  | ["fslsp", p, pat, dO, m] => do
      let p ← fromHex p; let pat ← fromHex pat; let dO ← parseBool dO; let m ← m.toNat?
      if !okFsPath p || !okStr pat || !patOk pat || m > 2 then none
      pure (fs, match dirListPat fs p pat dO (unkOf m) with
        | some l => " ".intercalate ("ls=1" :: l.map (fun (n, d) => s!"{toHex n}:{b01 d}")) ++ " again=0 afterclose=0"
        | none => "ls=0")
  | ["fsrmdiru", p, r, m] => do
      let p ← fromHex p; let r ← parseBool r; let m ← m.toNat?
      if !(okFsPath p) || hitsCwd fs p || m > 2 then none
      let res := dirUnlinkTopU (unkOf m) fs p r
      pure (res.1, b01 res.2)
  | ["fscd", d, p] => do
      let d ← fromHex d; let p ← fromHex p
      if !(okFsPath d && okFsPath p && noDotDot p) then none
      let wd' := dirChange fs cwd d
      let wd := wd'.getD cwd
      let a := getAbsolutePathAt wd p
      pure (fs, s!"cd={b01 wd'.isSome} cwd={toHex (cwdString wd)} abs={toHex a} e={b01 (fileExistsAt fs wd p)} d={b01 (dirExistsAt fs wd p)} ea={b01 (fileExistsAt fs wd a)} da={b01 (dirExistsAt fs wd a)}")
  | ["fsopenf", p, flags] => do
      let p ← fromHex p; let flags ← flags.toNat?; if !okFsPath p || flags ≥ 16 then none
      let r := fileOpenF fs p flags
      pure (r.1, s!"open={b01 r.2.1.isSome} fired={b01 r.2.2}")
  | ["fscdl", d, need] => do
      let d ← fromHex d; let need ← need.toNat?
      if !(okFsPath d) || need > 100000 then none
      let wd := (dirChange fs cwd d).getD cwd
      pure (fs, match getcwdLoop (cwdString wd) need 64 4096 with
        | some t => s!"cwd={toHex t}"
        | none => "cwd=fail")
  | ["fsconst", _] => pure (fs, "tmp=2f746d70 home=1")
  | ["fsobj", script] => do
      let r ← objRun fs (script.splitOn ",") Obj.init "obj"
      pure (fs, r)
  | _ => none

structure St where
  fs : Fs := initFs

def init0 : St := {}

def stepLine (st : St) (ws : List String) : St × String :=
  match ws with
  | ["reset"] => (init0, "ok")
  | _ =>
    match pathOp ws with
    | some out => (st, out)
    | none =>
      match fsOp st.fs ws with
      | some (fs', out) =>
        -- the theorems about Directory::unlink assume a well-formed world: every state the run reaches is checked
        ({ fs := fs' }, out ++ (if decide (WF fs') then "" else " !not-wellformed") ++ " | " ++ snapshot fs')
      | none => (st, "bad-op")

end Nstd.Path

def main : IO Unit := Nstd.Common.ioLoop Nstd.Path.init0 Nstd.Path.stepLine
