import Nstd.Common.Basic
import Nstd.Path.Model
import Nstd.Path.FsLib
import Nstd.Path.FsSpec
/-
  Line protocol of the Path area (property C19).  Path ops are stateless:
     dir <hex> | base <hex> <hexext> | stem <hex> <hexext> | ext <hex> | simp <hex> |
     abs <hex> | rel <hexfrom> <hexto>
  each answers one line: the returned string in hex (`-` = empty) resp. `0`/`1`.
-/
open Nstd.Common
namespace Nstd.Path

/-- C strings: no NUL byte -/
def okStr (b : Bytes) : Bool := b.all (fun c => c != 0)

def pathOp (ws : List String) : Option String :=
  match ws with
  | ["dir", p] => do let p ← fromHex p; if okStr p then pure (toHex (getDirectoryName p)) else none
  | ["base", p, e] => do
      let p ← fromHex p; let e ← fromHex e
      if okStr p && okStr e then pure (toHex (getBaseName p e)) else none
  | ["stem", p, e] => do
      let p ← fromHex p; let e ← fromHex e
      if okStr p && okStr e then pure (toHex (getStem p e)) else none
  | ["ext", p] => do let p ← fromHex p; if okStr p then pure (toHex (getExtension p)) else none
  | ["simp", p] => do let p ← fromHex p; if okStr p then pure (toHex (simplifyPath p)) else none
  | ["abs", p] => do let p ← fromHex p; if okStr p then pure (if isAbsolutePath p then "1" else "0") else none
  | ["rel", f, t] => do
      let f ← fromHex f; let t ← fromHex t
      if okStr f && okStr t then pure (toHex (getRelativePath f t)) else none
  | _ => none

/-! ### file-system ops

  World: `/s` (scratch, the working directory) and `/o` (the OUTSIDE sentinel: file `of` = "OUT",
  directory `od` with file `x` = "X").  Every fs op answers `<result> | <snapshot>`; the snapshot lists
  every entry of the world: `d:<path>`, `f:<path>:<bytes>`, `l:<path>:<target>` (hex; order irrelevant).
     fsmkdir p | fsmkfile p data | fssymlink target p        raw system calls (set-up)
     fscreate p | fscreatef p k | fscreateabs p              Directory::create (k-th mkdir fails)
     fsrmdir p rec | fsunlink p | fsrename a b fie | fscopy a b fie | fscopyf a b fie mode
     fsexists p | fsreadall p | fsls p | fsfile p flags script
-/

def cpathHex (p : CPath) : String := toHex (([47] : Bytes).intercalate p)

def snapshot (fs : Fs) : String :=
  " ".intercalate (fs.ents.map (fun (p, e) =>
    match e with
    | .dir => s!"d:{cpathHex p}"
    | .file d => s!"f:{cpathHex p}:{toHex d}"
    | .link t => s!"l:{cpathHex p}:{toHex t}"))

def b01 (b : Bool) : String := if b then "1" else "0"

/-- fs paths: C strings (a backslash is an ordinary byte for the kernel; File.cpp's path functions split at it) -/
def lexDepth : List Bytes → Int → Option Int
  | [], d => some d
  | c :: rest, d =>
    if c = [46] then lexDepth rest d
    else if c = dotdot then (if d - 1 < 0 then none else lexDepth rest (d - 1))
    else lexDepth rest (d + 1)

/-- the path does not lexically climb above the world root (which is a scratch directory in reality) -/
def lexInside (b : Bytes) : Bool := (lexDepth (kchunks b) (if startsWith47 b then 0 else 1)).isSome

def okFsPath (b : Bytes) : Bool := b.all (fun c => c != 0) && lexInside b

/-- last component is a name (rmdir/unlink/rename of `.`/`..`/the root have their own errno rules: outside) -/
def lastIsName (b : Bytes) : Bool :=
  match (kchunks b).getLast? with
  | some c => c != [46] && c != dotdot
  | none => false

/-- the model keeps the working directory and its ancestors (assumption): such arguments are rejected -/
def hitsCwd (fs : Fs) (b : Bytes) : Bool :=
  match resolve fs b true with
  | .found q _ => q.isPrefixOf cwd
  | _ => false

/-- Directory::purge climbs through getDirectoryName: only relative paths of plain names are run -/
def purgeOk (b : Bytes) : Bool :=
  !startsWith47 b && !b.contains 92 && (kchunks b).all (fun c => c != [46] && c != dotdot) && !(kchunks b).isEmpty

def parseBool (s : String) : Option Bool :=
  if s == "0" then some false else if s == "1" then some true else none

/-- script of one File object: `w<hex>` write, `s<whence>:<offset>` seek, `r` readAll, `z` size;
    parsing stops at the first malformed item (second component) -/
def parseScript : List String → List FileOp × Bool
  | [] => ([], true)
  | it :: rest =>
    let c := it.take 1
    let arg := (it.drop 1).toString
    let op : Option FileOp :=
      if c == "w" then (fromHex arg).map FileOp.write
      else if c == "r" && arg == "" then some .readAll
      else if c == "z" && arg == "" then some .size
      else if c == "s" then
        match arg.splitOn ":" with
        | [w, o] =>
          match (if w == "0" then some Whence.set else if w == "1" then some Whence.cur else if w == "2" then some Whence.end_ else none), o.toInt? with
          | some wh, some off => some (.seek off wh)
          | _, _ => none
        | _ => none
      else none
    match op with
    | none => ([], false)
    | some op => let (ops, ok) := parseScript rest; (op :: ops, ok)

def outStr : FileOut → String
  | .wrote ok => s!" w={b01 ok}"
  | .pos (some n) => s!" s={n}"
  | .pos none => " s=-1"
  | .data (some d) => s!" r={toHex d}"
  | .data none => " r=fail"
  | .size (some n) => s!" z={n}"
  | .size none => " z=-1"

def fsOp (fs : Fs) (ws : List String) : Option (Fs × String) :=
  match ws with
  | ["fsmkdir", p] => do
      let p ← fromHex p; if !okFsPath p then none
      pure (fsApply fs (.mkdir p), b01 (isOk (sysMkdir fs p).2))
  | ["fsmkfile", p, d] => do
      let p ← fromHex p; let d ← fromHex d; if !okFsPath p then none
      pure (fsApply fs (.mkfile p d), b01 (mkfile fs p d).2)
  | ["fssymlink", t, p] => do
      let t ← fromHex t; let p ← fromHex p; if !(okFsPath p && okFsPath t) then none
      pure (fsApply fs (.symlink t p), b01 (isOk (sysSymlink fs t p).2))
  | ["fscreate", p] => do
      let p ← fromHex p; if !okFsPath p then none
      pure (fsApply fs (.create p none), b01 (dirCreateTop fs p none).2.1)
  | ["fscreateabs", p] => do
      let p ← fromHex p; if !okFsPath p || startsWith47 p then none
      pure (fsApply fs (.create ([47, 115, 47] ++ p) none), b01 (dirCreateTop fs ([47, 115, 47] ++ p) none).2.1)
  | ["fscreatef", p, k] => do
      let p ← fromHex p; let k ← k.toNat?; if !okFsPath p then none
      let (_, r, fired) := dirCreateTop fs p (some k)
      pure (fsApply fs (.create p (some k)), s!"{b01 r} fired={fired}")
  | ["fspurge", p, r] => do
      let p ← fromHex p; let r ← parseBool r; if !(okFsPath p && purgeOk p) || hitsCwd fs p then none
      pure (fsApply fs (.purge p r), b01 (dirPurge fs p r).2)
  | ["fsabspath", p] => do
      let p ← fromHex p; if !okStr p then none
      pure (fs, toHex (getAbsolutePath p))
  | ["fsrmdir", p, r] => do
      let p ← fromHex p; let r ← parseBool r; if !(okFsPath p) || hitsCwd fs p then none
      pure (fsApply fs (.rmdir p r), b01 (dirUnlinkTop fs p r).2)
  | ["fsunlink", p] => do
      let p ← fromHex p; if !(okFsPath p && lastIsName p) then none
      pure (fsApply fs (.unlink p), b01 (fileUnlink fs p).2)
  | ["fsrename", a, b, f] => do
      let a ← fromHex a; let b ← fromHex b; let f ← parseBool f
      if !(okFsPath a && okFsPath b && lastIsName a && lastIsName b) || hitsCwd fs a then none
      pure (fsApply fs (.rename a b f), b01 (fileRename fs a b f).2)
  | ["fscopy", a, b, f] => do
      let a ← fromHex a; let b ← fromHex b; let f ← parseBool f
      if !(okFsPath a && okFsPath b && lastIsName b) then none
      pure (fsApply fs (.copy a b f .none), b01 (fileCopy fs a b f .none).2.1)
  | ["fscopyf", a, b, f, m] => do
      let a ← fromHex a; let b ← fromHex b; let f ← parseBool f
      let m ← (if m == "0" then some SfFault.fail else if m == "1" then some SfFault.half else none)
      if !(okFsPath a && okFsPath b && lastIsName b) then none
      let (_, ok, fired) := fileCopy fs a b f m
      pure (fsApply fs (.copy a b f m), s!"{b01 ok} fired={b01 fired}")
  | ["fsexists", p] => do
      let p ← fromHex p; if !okFsPath p then none
      pure (fs, s!"{b01 (fileExists fs p)} {b01 (dirExists fs p)}")
  | ["fsreadall", p] => do
      let p ← fromHex p; if !okFsPath p then none
      pure (fs, match fileReadAllPath fs p with | some d => s!"1 {toHex d}" | none => "0")
  | ["fsls", p] => do
      let p ← fromHex p; if !okFsPath p then none
      pure (fs, match dirList fs p with
        | some l => " ".intercalate ("ls=1" :: l.map (fun (n, d) => s!"{toHex n}:{b01 d}"))
        | none => "ls=0")
  | ["fsfile", p, flags, script] => do
      let p ← fromHex p; let flags ← flags.toNat?; if !okFsPath p || flags ≥ 16 then none
      let (ops, ok) := parseScript (script.splitOn ",")
      let fs' := fsApply fs (.file p flags ops)
      match (fileSession fs p flags ops).2 with
      | none => pure (fs', "open=0")
      | some outs => pure (fs', "open=1" ++ String.join (outs.map outStr) ++ (if ok then "" else " bad"))
  | _ => none

structure St where
  fs : Fs := initFs

def init0 : St := {}

def stepLine (st : St) (ws : List String) : St × String :=
  match ws with
  | ["reset"] => (init0, "ok")
  | _ =>
    match pathOp ws with
    | some out => (st, out)
    | none =>
      match fsOp st.fs ws with
      | some (fs', out) =>
        -- the theorems about Directory::unlink assume a well-formed world: every state the run reaches is checked
        ({ fs := fs' }, out ++ (if decide (WF fs') then "" else " !not-wellformed") ++ " | " ++ snapshot fs')
      | none => (st, "bad-op")

end Nstd.Path

def main : IO Unit := Nstd.Common.ioLoop Nstd.Path.init0 Nstd.Path.stepLine
