import Nstd.Common.Basic
import Nstd.Path.Model
/-
  Line protocol of the Path area (property C19).  Path ops are stateless:
     dir <hex> | base <hex> <hexext> | stem <hex> <hexext> | ext <hex> | simp <hex> |
     abs <hex> | rel <hexfrom> <hexto>
  each answers one line: the returned string in hex (`-` = empty) resp. `0`/`1`.
-/
open Nstd.Common
namespace Nstd.Path

/-- C strings: no NUL byte -/
def okStr (b : Bytes) : Bool := b.all (fun c => c != 0)

def pathOp (ws : List String) : Option String :=
  match ws with
  | ["dir", p] => do let p ← fromHex p; if okStr p then pure (toHex (getDirectoryName p)) else none
  | ["base", p, e] => do
      let p ← fromHex p; let e ← fromHex e
      if okStr p && okStr e then pure (toHex (getBaseName p e)) else none
  | ["stem", p, e] => do
      let p ← fromHex p; let e ← fromHex e
      if okStr p && okStr e then pure (toHex (getStem p e)) else none
  | ["ext", p] => do let p ← fromHex p; if okStr p then pure (toHex (getExtension p)) else none
  | ["simp", p] => do let p ← fromHex p; if okStr p then pure (toHex (simplifyPath p)) else none
  | ["abs", p] => do let p ← fromHex p; if okStr p then pure (if isAbsolutePath p then "1" else "0") else none
  | ["rel", f, t] => do
      let f ← fromHex f; let t ← fromHex t
      if okStr f && okStr t then pure (toHex (getRelativePath f t)) else none
  | _ => none

structure St where
  dummy : Unit := ()

def init0 : St := {}

def stepLine (st : St) (ws : List String) : St × String :=
  match ws with
  | ["reset"] => (init0, "ok")
  | _ =>
    match pathOp ws with
    | some out => (st, out)
    | none => (st, "bad-op")

end Nstd.Path

def main : IO Unit := Nstd.Common.ioLoop Nstd.Path.init0 Nstd.Path.stepLine
