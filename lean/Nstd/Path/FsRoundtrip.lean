import Nstd.Path.FsRename
/-
  End to end: what was written through File::open(write[, append]) + File::write … is what the static
  File::readAll(path) returns afterwards.
-/
namespace Nstd.Path

theorem writeAt_end (c d : Bytes) : writeAt c c.length d = c ++ d := by
  simp [writeAt]

theorem specRun_writes (acc : Access) (hacc : acc ≠ .rdonly) : ∀ (ds : List Bytes) (c : Bytes),
    specRun acc ⟨c, c.length⟩ (ds.map FileOp.write) =
      (⟨c ++ ds.flatten, (c ++ ds.flatten).length⟩, ds.map (fun _ => FileOut.wrote true)) := by
  intro ds
  induction ds with
  | nil => intro c; simp [specRun]
  | cons d rest ih =>
    intro c
    simp only [List.map_cons, specRun, specStep, hacc, if_false]
    by_cases hd : d = []
    · subst hd
      simp only [if_true]
      rw [ih c]
      simp
    · simp only [hd, if_false, writeAt_end]
      have : c.length + d.length = (c ++ d).length := by simp
      rw [this, ih (c ++ d)]
      simp

/-- changing the bytes of one file does not disturb a resolution that ends at that file -/
theorem walk_file_stable (fs fs' : Fs) (p : CPath) (c c' : Bytes) (hp : fs.get p = some (.file c))
    (hp' : fs'.get p = some (.file c')) (hother : ∀ q, q ≠ p → fs'.get q = fs.get q) (fuel : Nat) :
    ∀ (cur : CPath) (comps : List Name) (fo : Bool),
    walk fs fuel cur comps fo = .found p (.file c) → walk fs' fuel cur comps fo = .found p (.file c') := by
  apply walk_lift2 fs fs' (fun k k' => ∀ (cur : CPath) (comps : List Name) (fo : Bool),
    k cur comps fo = .found p (.file c) → k' cur comps fo = .found p (.file c'))
  · intro _ _ _ h; simp at h
  · intro k k' hk cur comps
    induction comps generalizing cur with
    | nil => intro fo h; simp [walkAux] at h
    | cons x rest ih =>
      intro fo h
      rw [walkAux_cons] at h ⊢
      by_cases h1 : x = [46]
      · rw [if_pos h1] at h ⊢; exact ih _ _ h
      · rw [if_neg h1] at h ⊢
        by_cases h2 : x = dotdot
        · rw [if_pos h2] at h ⊢; exact ih _ _ h
        · rw [if_neg h2] at h ⊢
          by_cases hq : cur ++ [x] = p
          · rw [hq] at h ⊢
            rw [hp] at h
            rw [hp']
            simp only at h ⊢
            by_cases hr : rest = []
            · simp [hr]
            · simp [hr] at h
          · rw [hother _ hq]
            cases hg : fs.get (cur ++ [x]) with
            | none =>
              simp only [hg] at h
              by_cases hr : rest = [] <;> simp [hr] at h
            | some e0 =>
              simp only [hg] at h
              cases e0 with
              | dir => (try dsimp only at h); (try dsimp only); exact ih _ _ h
              | file d =>
                (try dsimp only at h); (try dsimp only)
                by_cases hr : rest = []
                · simp [hr] at h; exact absurd h.1 hq
                · simp [hr] at h
              | link t =>
                (try dsimp only at h); (try dsimp only)
                by_cases hr : rest = [] ∧ fo = false
                · simp [hr] at h
                · rw [if_neg hr] at h ⊢; exact hk _ _ _ h

/-- static File::readAll(path) on a path that resolves to a file returns its bytes -/
theorem readAllPath_of_resolve (fs : Fs) (path : Bytes) (p : CPath) (c : Bytes)
    (h : resolve fs path true = .found p (.file c)) : fileReadAllPath fs path = some c := by
  have hg := (resolve_found_nondir fs path true p (.file c) h (by simp)).2
  unfold fileReadAllPath fileOpen sysOpen
  have hfl : openFlags readFlag = { acc := .rdonly } := by rfl
  have happ : hasFlag readFlag appendFlag = false := by decide
  simp only [hfl, Bool.false_eq_true, and_self, if_false, h, happ]
  unfold fileReadAll
  rw [fileSize_eq]
  simp [sysRead, fileData_of_get fs p c hg]

/-- File::open(path, writeFlag) on an existing file, then File::write d₁ … dₙ: every write answers true
    and File::readAll(path) afterwards returns d₁ ++ … ++ dₙ -/
theorem write_then_readAll_existing (fs : Fs) (path : Bytes) (p : CPath) (c : Bytes) (ds : List Bytes)
    (hres : resolve fs path true = .found p (.file c)) :
    ∃ fs1 fd, fileOpen fs path writeFlag = (fs1, some fd) ∧
      (runOps fs1 fd (ds.map FileOp.write)).2.2 = ds.map (fun _ => FileOut.wrote true) ∧
      fileReadAllPath (runOps fs1 fd (ds.map FileOp.write)).1 path = some ds.flatten := by
  obtain ⟨hp, hg⟩ := resolve_found_nondir fs path true p (.file c) hres (by simp)
  have hfl : openFlags writeFlag = { acc := .wronly, creat := true, trunc := true } := by rfl
  have happ : hasFlag writeFlag appendFlag = false := by decide
  refine ⟨fs.set p (.file []), ⟨p, .wronly, false, 0⟩, ?_, ?_⟩
  · unfold fileOpen sysOpen
    simp [hfl, hres, happ]
  · have hget1 : (fs.set p (.file [])).get p = some (.file []) := by rw [get_set fs p p _ hp]; simp
    have href := runOps_refines (ds.map FileOp.write) (fs.set p (.file [])) ⟨p, .wronly, false, 0⟩ [] rfl hp hget1
    have hspec := specRun_writes .wronly (by simp) ds []
    simp only [List.length_nil, List.nil_append] at hspec
    simp only [hspec] at href
    obtain ⟨h1, h2, _, h4⟩ := href
    refine ⟨h1, ?_⟩
    apply readAllPath_of_resolve _ path p
    unfold resolve at hres ⊢
    by_cases hne : path = []
    · simp [hne] at hres
    · rw [if_neg hne] at hres ⊢
      apply walk_file_stable fs _ p c ds.flatten hg h2 _ _ _ _ _ hres
      intro q hq
      rw [h4 q hq, get_set fs p q _ hp, if_neg hq]

/-- … and when the file did not exist it is created, with the same guarantee -/
theorem write_then_readAll_new (fs : Fs) (path : Bytes) (pa : CPath) (n : Name) (ds : List Bytes)
    (hres : resolve fs path true = .missing pa n) :
    ∃ fs1 fd, fileOpen fs path writeFlag = (fs1, some fd) ∧
      (runOps fs1 fd (ds.map FileOp.write)).2.2 = ds.map (fun _ => FileOut.wrote true) ∧
      fileReadAllPath (runOps fs1 fd (ds.map FileOp.write)).1 path = some ds.flatten := by
  have hP := append_singleton_ne_nil pa n
  have hfl : openFlags writeFlag = { acc := .wronly, creat := true, trunc := true } := by rfl
  have happ : hasFlag writeFlag appendFlag = false := by decide
  refine ⟨fs.set (pa ++ [n]) (.file []), ⟨pa ++ [n], .wronly, false, 0⟩, ?_, ?_⟩
  · unfold fileOpen sysOpen
    simp [hfl, hres, happ]
  · have hget1 : (fs.set (pa ++ [n]) (.file [])).get (pa ++ [n]) = some (.file []) := by
      rw [get_set fs _ _ _ hP]; simp
    have href := runOps_refines (ds.map FileOp.write) (fs.set (pa ++ [n]) (.file [])) ⟨pa ++ [n], .wronly, false, 0⟩ []
      rfl hP hget1
    have hspec := specRun_writes .wronly (by simp) ds []
    simp only [List.length_nil, List.nil_append] at hspec
    simp only [hspec] at href
    obtain ⟨h1, h2, _, h4⟩ := href
    refine ⟨h1, ?_⟩
    apply readAllPath_of_resolve _ path (pa ++ [n])
    -- the world after the writes looks like fs with the new file holding the written bytes
    have hequiv : ∀ q, (runOps (fs.set (pa ++ [n]) (.file [])) ⟨pa ++ [n], .wronly, false, 0⟩ (ds.map FileOp.write)).1.get q
        = (fs.set (pa ++ [n]) (.file ds.flatten)).get q := by
      intro q
      by_cases hq : q = pa ++ [n]
      · subst hq; rw [h2, get_set fs _ _ _ hP]; simp
      · rw [h4 q hq, get_set fs _ q _ hP, get_set fs _ q _ hP, if_neg hq, if_neg hq]
    rw [resolve_congr _ _ hequiv]
    unfold resolve at hres ⊢
    by_cases hne : path = []
    · simp [hne] at hres
    · rw [if_neg hne] at hres ⊢
      exact walk_after_create fs (.file ds.flatten) (by intro t; simp) _ _ _ true true _ _ (Or.inr rfl) hres


/-- … and open(write | append) of a missing file creates it, with the same guarantee -/
theorem append_then_readAll_new (fs : Fs) (path : Bytes) (pa : CPath) (n : Name) (ds : List Bytes)
    (hres : resolve fs path true = .missing pa n) :
    ∃ fs1 fd, fileOpen fs path (writeFlag + appendFlag) = (fs1, some fd) ∧
      (runOps fs1 fd (ds.map FileOp.write)).2.2 = ds.map (fun _ => FileOut.wrote true) ∧
      fileReadAllPath (runOps fs1 fd (ds.map FileOp.write)).1 path = some ds.flatten := by
  have hP := append_singleton_ne_nil pa n
  have hfl : openFlags (writeFlag + appendFlag) = { acc := .wronly, creat := true } := by rfl
  have happ : hasFlag (writeFlag + appendFlag) appendFlag = true := by decide
  refine ⟨fs.set (pa ++ [n]) (.file []), ⟨pa ++ [n], .wronly, false, 0⟩, ?_, ?_⟩
  · unfold fileOpen sysOpen
    simp [hfl, hres, happ, sysLseek, fileData, get_set fs _ _ _ hP]
  · have hget1 : (fs.set (pa ++ [n]) (.file [])).get (pa ++ [n]) = some (.file []) := by
      rw [get_set fs _ _ _ hP]; simp
    have href := runOps_refines (ds.map FileOp.write) (fs.set (pa ++ [n]) (.file [])) ⟨pa ++ [n], .wronly, false, 0⟩ []
      rfl hP hget1
    have hspec := specRun_writes .wronly (by simp) ds []
    simp only [List.length_nil, List.nil_append] at hspec
    simp only [hspec] at href
    obtain ⟨h1, h2, _, h4⟩ := href
    refine ⟨h1, ?_⟩
    apply readAllPath_of_resolve _ path (pa ++ [n])
    -- the world after the writes looks like fs with the new file holding the written bytes
    have hequiv : ∀ q, (runOps (fs.set (pa ++ [n]) (.file [])) ⟨pa ++ [n], .wronly, false, 0⟩ (ds.map FileOp.write)).1.get q
        = (fs.set (pa ++ [n]) (.file ds.flatten)).get q := by
      intro q
      by_cases hq : q = pa ++ [n]
      · subst hq; rw [h2, get_set fs _ _ _ hP]; simp
      · rw [h4 q hq, get_set fs _ q _ hP, get_set fs _ q _ hP, if_neg hq, if_neg hq]
    rw [resolve_congr _ _ hequiv]
    unfold resolve at hres ⊢
    by_cases hne : path = []
    · simp [hne] at hres
    · rw [if_neg hne] at hres ⊢
      exact walk_after_create fs (.file ds.flatten) (by intro t; simp) _ _ _ true true _ _ (Or.inr rfl) hres


/-- File::open(path, writeFlag | appendFlag) on an existing file keeps its bytes and positions at the end:
    after File::write d₁ … dₙ, File::readAll(path) returns the old bytes followed by d₁ ++ … ++ dₙ -/
theorem append_then_readAll_existing (fs : Fs) (path : Bytes) (p : CPath) (c : Bytes) (ds : List Bytes)
    (hres : resolve fs path true = .found p (.file c)) :
    ∃ fd, fileOpen fs path (writeFlag + appendFlag) = (fs, some fd) ∧
      (runOps fs fd (ds.map FileOp.write)).2.2 = ds.map (fun _ => FileOut.wrote true) ∧
      fileReadAllPath (runOps fs fd (ds.map FileOp.write)).1 path = some (c ++ ds.flatten) := by
  obtain ⟨hp, hg⟩ := resolve_found_nondir fs path true p (.file c) hres (by simp)
  have hfl : openFlags (writeFlag + appendFlag) = { acc := .wronly, creat := true } := by rfl
  have happ : hasFlag (writeFlag + appendFlag) appendFlag = true := by decide
  refine ⟨⟨p, .wronly, false, c.length⟩, ?_, ?_⟩
  · unfold fileOpen sysOpen
    simp only [hfl, Bool.false_eq_true, and_false, if_false, hres, happ]
    have hnn : ¬ ((c.length : Int) < 0) := by omega
    simp [sysLseek, fileData_of_get fs p c hg, hnn]
  · have href := runOps_refines (ds.map FileOp.write) fs ⟨p, .wronly, false, c.length⟩ c rfl hp hg
    have hspec := specRun_writes .wronly (by simp) ds c
    simp only [hspec] at href
    obtain ⟨h1, h2, _, h4⟩ := href
    refine ⟨h1, ?_⟩
    apply readAllPath_of_resolve _ path p
    unfold resolve at hres ⊢
    by_cases hne : path = []
    · simp [hne] at hres
    · rw [if_neg hne] at hres ⊢
      exact walk_file_stable fs _ p c (c ++ ds.flatten) hg h2 (fun q hq => h4 q hq) _ _ _ _ hres

end Nstd.Path
