import Nstd.Path.FsLib
import Nstd.Path.Spec
/-
  Specification side of property C19, file-system part.
  * a File object is a byte array with a position (`FSpec`), `specStep` is what each operation must do;
  * `NoNew fs fs'` : no path exists in `fs'` that did not exist in `fs`;
  * `Under d q` : path `q` lies in the tree rooted at `d`.
-/
namespace Nstd.Path

structure FSpec where
  content : Bytes
  pos : Nat
deriving Repr, DecidableEq

/-- File::size when the k-th lseek fails: failure is reported for k ≤ 1 (nothing moved), for k = 2 when the position was
    not at the end (then it STAYS at the end: the restoring lseek is the one that failed); otherwise the size -/
def specSizeF (s : FSpec) (k : Nat) : FSpec × Option Nat :=
  if k ≤ 1 then (s, none)
  else if k = 2 ∧ s.pos ≠ s.content.length then (⟨s.content, s.content.length⟩, none)
  else (s, some s.content.length)

/-- what one File operation must answer and do, given the access mode of the open file -/
def specStep (acc : Access) (s : FSpec) : FileOp → FSpec × FileOut
  | .write d =>
    if acc = .rdonly then (s, .wrote false)
    else if d = [] then (s, .wrote true)
    else (⟨writeAt s.content s.pos d, s.pos + d.length⟩, .wrote true)
  | .seek off w =>
    let base : Int := match w with
      | .set => 0
      | .cur => s.pos
      | .end_ => s.content.length
    if base + off < 0 then (s, .pos none) else (⟨s.content, (base + off).toNat⟩, .pos (some (base + off).toNat))
  | .readAll =>
    if acc = .wronly then (s, .data none)
    else (⟨s.content, s.pos + (s.content.drop s.pos).length⟩, .data (some (s.content.drop s.pos)))
  | .size => (s, .size (some s.content.length))
  | .read n =>
    if acc = .wronly then (s, .data none)
    else (⟨s.content, s.pos + ((s.content.drop s.pos).take n).length⟩, .data (some ((s.content.drop s.pos).take n)))
  | .seekF _ _ => (s, .pos none)
  | .sizeF k => ((specSizeF s k).1, .size (specSizeF s k).2)
  | .readAllF k =>
    match (specSizeF s k).2 with
    | none => ((specSizeF s k).1, .data none)
    | some _ =>
      if acc = .wronly then (s, .data none)
      else (⟨s.content, s.pos + (s.content.drop s.pos).length⟩, .data (some (s.content.drop s.pos)))

def specRun (acc : Access) (s : FSpec) : List FileOp → FSpec × List FileOut
  | [] => (s, [])
  | op :: rest =>
    let (s1, o) := specStep acc s op
    let (s2, os) := specRun acc s1 rest
    (s2, o :: os)

/-- no new entries: every path present afterwards was present before -/
def NoNew (fs fs' : Fs) : Prop := ∀ q, fs.get q = none → fs'.get q = none

/-- `q` lies in the tree rooted at `d` -/
def Under (d q : CPath) : Prop := d <+: q

/-! well-formed worlds (what the kernel maintains): names are names, no path twice, parents are directories -/

/-- every component of every stored path is a proper name -/
def NamesOk (fs : Fs) : Prop := ∀ x ∈ fs.ents, ∀ c ∈ x.1, KName c

/-- no canonical path is stored twice -/
def NoDupKeys (fs : Fs) : Prop := (fs.ents.map (·.1)).Nodup

/-- every proper, non-empty prefix of a stored path is stored as a directory -/
def ParentsOk (fs : Fs) : Prop :=
  ∀ x ∈ fs.ents, ∀ k, k < x.1.length → 0 < k → ∃ y ∈ fs.ents, y.1 = x.1.take k ∧ y.2 = .dir

structure WF (fs : Fs) : Prop where
  names : NamesOk fs
  nodup : NoDupKeys fs
  parents : ParentsOk fs

instance (c : Bytes) : Decidable (KName c) := by unfold KName; exact inferInstance
instance (fs : Fs) : Decidable (NamesOk fs) := by unfold NamesOk; exact inferInstance
instance (fs : Fs) : Decidable (NoDupKeys fs) := by unfold NoDupKeys; exact inferInstance
instance (fs : Fs) : Decidable (ParentsOk fs) := by unfold ParentsOk; exact inferInstance
instance (fs : Fs) : Decidable (WF fs) :=
  decidable_of_iff (NamesOk fs ∧ NoDupKeys fs ∧ ParentsOk fs)
    ⟨fun h => ⟨h.1, h.2.1, h.2.2⟩, fun h => ⟨h.names, h.nodup, h.parents⟩⟩


end Nstd.Path
