import Nstd.Path.FsCreate
import Nstd.Path.FsFail
import Nstd.Path.FsUnlink
import Nstd.Path.FsCopy
import Nstd.Path.FsRename
import Nstd.Path.FsCreateOk
import Nstd.Path.FsRoundtrip
import Nstd.Path.FsWf
import Nstd.Path.FsList
import Nstd.Path.FsSucc
import Nstd.Path.FsUnlinkGen
/-
  Property C19, file-system part: theorems about the algorithms of File.cpp / Directory.cpp
  (Nstd/Path/FsLib.lean) over the ASSUMED POSIX semantics of Nstd/Path/Fs.lean, for all worlds
  (trees with files, directories, symbolic links anywhere), all path strings, all injected faults.
  Spec notions: Nstd/Path/FsSpec.lean.
-/
namespace Nstd.Path

/-- Files return exactly the bytes written: every script of write / seek / readAll / size on an open
    File object answers what the byte-array-with-position specification answers, leaves exactly the
    specified bytes in the file, and changes no other entry of the world. -/
theorem file_bytes_exact (ops : List FileOp) (fs : Fs) (fd : Fd) (c : Bytes)
    (hdir : fd.isDir = false) (hp : fd.path ≠ []) (hget : fs.get fd.path = some (.file c)) :
    (runOps fs fd ops).2.2 = (specRun fd.acc ⟨c, fd.pos⟩ ops).2 ∧
    (runOps fs fd ops).1.get fd.path = some (.file (specRun fd.acc ⟨c, fd.pos⟩ ops).1.content) ∧
    (runOps fs fd ops).2.1.pos = (specRun fd.acc ⟨c, fd.pos⟩ ops).1.pos ∧
    ∀ q, q ≠ fd.path → (runOps fs fd ops).1.get q = fs.get q :=
  runOps_refines ops fs fd c hdir hp hget

/-- … end to end through the library calls: File::open(path, writeFlag) (existing file → truncated, missing
    file → created), File::write d₁ … dₙ (each answers true), then the static File::readAll(path) returns
    exactly d₁ ++ … ++ dₙ; with writeFlag | appendFlag the old bytes followed by them (a missing file is
    created in both modes). -/
theorem written_bytes_are_read_back (fs : Fs) (path : Bytes) (ds : List Bytes) :
    (∀ p c, resolve fs path true = .found p (.file c) →
      ∃ fs1 fd, fileOpen fs path writeFlag = (fs1, some fd) ∧
        (runOps fs1 fd (ds.map FileOp.write)).2.2 = ds.map (fun _ => FileOut.wrote true) ∧
        fileReadAllPath (runOps fs1 fd (ds.map FileOp.write)).1 path = some ds.flatten) ∧
    (∀ pa n, resolve fs path true = .missing pa n →
      ∃ fs1 fd, fileOpen fs path writeFlag = (fs1, some fd) ∧
        (runOps fs1 fd (ds.map FileOp.write)).2.2 = ds.map (fun _ => FileOut.wrote true) ∧
        fileReadAllPath (runOps fs1 fd (ds.map FileOp.write)).1 path = some ds.flatten) ∧
    (∀ p c, resolve fs path true = .found p (.file c) →
      ∃ fd, fileOpen fs path (writeFlag + appendFlag) = (fs, some fd) ∧
        (runOps fs fd (ds.map FileOp.write)).2.2 = ds.map (fun _ => FileOut.wrote true) ∧
        fileReadAllPath (runOps fs fd (ds.map FileOp.write)).1 path = some (c ++ ds.flatten)) ∧
    (∀ pa n, resolve fs path true = .missing pa n →
      ∃ fs1 fd, fileOpen fs path (writeFlag + appendFlag) = (fs1, some fd) ∧
        (runOps fs1 fd (ds.map FileOp.write)).2.2 = ds.map (fun _ => FileOut.wrote true) ∧
        fileReadAllPath (runOps fs1 fd (ds.map FileOp.write)).1 path = some ds.flatten) :=
  ⟨fun p c h => write_then_readAll_existing fs path p c ds h,
   fun pa n h => write_then_readAll_new fs path pa n ds h,
   fun p c h => append_then_readAll_existing fs path p c ds h,
   fun pa n h => append_then_readAll_new fs path pa n ds h⟩

/-- … across copy: a File::copy that reports success (with or without an injected partial transfer) has put
    exactly the bytes of the source file into the destination file — an existing file or one created where
    the path was missing — and has changed no other entry of the world. -/
theorem copy_bytes_exact (fs : Fs) (src dst : Bytes) (fie : Bool) (fault : SfFault)
    (h : (fileCopy fs src dst fie fault).2.1 = true) :
    ∃ ps d P, resolve fs src true = .found ps (.file d) ∧ P ≠ [] ∧
      (fileCopy fs src dst fie fault).1.get P = some (.file d) ∧
      (∀ q, q ≠ P → (fileCopy fs src dst fie fault).1.get q = fs.get q) ∧
      ((∃ d0, fs.get P = some (.file d0)) ∨ (∃ pa n, resolve fs dst (!fie) = .missing pa n ∧ P = pa ++ [n])) :=
  fileCopy_exact fs src dst fie fault h

/-- … across rename: a File::rename (with or without failIfExists) of a file or symbolic link that reports
    success in a well-formed world has moved exactly that entry, bytes unchanged, to the destination `pt`;
    the source path is gone and no other entry of the world changed. -/
theorem rename_bytes_exact (fs : Fs) (frm to : Bytes) (fie : Bool) (hwf : WF fs) (pf : CPath) (e : Entry)
    (hsrc : resolve fs frm false = .found pf e) (he : e ≠ .dir)
    (h : (fileRename fs frm to fie).2 = true) :
    ∃ pt, pt ≠ [] ∧ (fileRename fs frm to fie).1.get pt = some e ∧
      (pt ≠ pf → (fileRename fs frm to fie).1.get pf = none) ∧
      (∀ q, q ≠ pt → q ≠ pf → (fileRename fs frm to fie).1.get q = fs.get q) :=
  fileRename_exact fs frm to fie hwf pf e hsrc he h

/-- … and these calls do succeed (the "reports success" hypotheses above are not vacuous): File::copy of a
    regular file, without a transfer fault, onto a path that is missing below an existing directory (any
    failIfExists) or — failIfExists = false — onto another existing file returns true. -/
theorem copy_succeeds (fs : Fs) (src dst : Bytes) (fie : Bool) (ps : CPath) (d : Bytes)
    (hsrc : resolve fs src true = .found ps (.file d))
    (hdst : (∃ pa n, resolve fs dst (!fie) = .missing pa n) ∨
            (fie = false ∧ ∃ p d0, resolve fs dst true = .found p (.file d0) ∧ p ≠ ps)) :
    (fileCopy fs src dst fie .none).2.1 = true :=
  fileCopy_succeeds fs src dst fie ps d hsrc hdst

/-- File::rename of a file or symbolic link onto a path that is missing below an existing directory returns
    true, with and without failIfExists (world with the invariant of all histories). -/
theorem rename_succeeds (fs : Fs) (hinv : WF fs ∧ fs.get cwd = some .dir) (frm to : Bytes) (fie : Bool)
    (pf : CPath) (e : Entry) (hsrc : resolve fs frm false = .found pf e) (he : e ≠ .dir) (pa : CPath) (n : Name)
    (hto : resolve fs to false = .missing pa n) : (fileRename fs frm to fie).2 = true :=
  fileRename_succeeds fs hinv frm to fie pf e hsrc he pa n hto

/-- A failed operation leaves the tree unchanged: File::open and File::rename that report failure leave
    every entry as it was; so does a failed File::copy without an injected transfer fault — in particular
    copying a file onto itself is refused and the file keeps its bytes.  (With an injected transfer fault the
    destination, which open(O_TRUNC) has emptied already, is removed: `failed_op_leaves_no_new_file`.) -/
theorem failed_op_leaves_tree_unchanged (fs : Fs) :
    (∀ path flags, (fileOpen fs path flags).2 = none → (fileOpen fs path flags).1 = fs) ∧
    (∀ frm to fie, (fileRename fs frm to fie).2 = false → ∀ q, (fileRename fs frm to fie).1.get q = fs.get q) ∧
    (∀ src dst fie, (fileCopy fs src dst fie .none).2.1 = false → (fileCopy fs src dst fie .none).1 = fs) :=
  ⟨fun p f h => fileOpen_failed_same fs p f h,
   fun a b f h => fileRename_failed_same fs a b f h,
   fun a b f h => fileCopy_failed_same fs a b f h⟩

/-- Directory::create returns true exactly when the directory exists afterwards — for every world,
    every path string and every injected mkdir fault. -/
theorem create_true_iff_exists_after (fs : Fs) (dir : Bytes) (fault : Option Nat) :
    (dirCreateTop fs dir fault).2.1 = true ↔ dirExists (dirCreateTop fs dir fault).1 dir = true := by
  unfold dirCreateTop
  have := dirCreate_iff (dir.length + 1) fs dir fault 0 (by omega)
  cases h : dirCreate (dir.length + 1) fs dir fault 0 with
  | mk fs' rest =>
    obtain ⟨r, f, n⟩ := rest
    rw [h] at this
    simp only at this ⊢
    rw [this]

/-- … and then every parent it recursed through exists as a directory too. -/
theorem create_makes_parents (fs : Fs) (dir a : Bytes) (fault : Option Nat)
    (h : (dirCreateTop fs dir fault).2.1 = true) (ha : Ancestor a dir) :
    dirExists (dirCreateTop fs dir fault).1 a = true :=
  ancestors_exist _ dir a ((create_true_iff_exists_after fs dir fault).mp h) ha

/-- Directory::create makes all missing parents: when every component of the path is a proper name and at
    every prefix there is nothing yet or a real directory (`Clear`), Directory::create (no injected fault)
    returns true and the directory exists afterwards — together with all its parents (`create_makes_parents`). -/
theorem create_succeeds (fs : Fs) (dir : Bytes) (hch : kchunks dir ≠ [])
    (hclear : Clear fs (start0 dir) (kchunks dir)) :
    (dirCreateTop fs dir none).2.1 = true ∧ dirExists (dirCreateTop fs dir none).1 dir = true := by
  have h : (dirCreateTop fs dir none).2.1 = true := by
    unfold dirCreateTop
    have := dirCreate_succeeds (dir.length + 1) fs dir 0 (by omega) hch hclear
    cases hr : dirCreate (dir.length + 1) fs dir none 0 with
    | mk fs' rest =>
      obtain ⟨r, f, n⟩ := rest
      rw [hr] at this
      exact this
  exact ⟨h, (create_true_iff_exists_after fs dir none).mp h⟩

/-- Directory::create never changes or removes an existing entry and adds nothing but directories
    (whatever it returns). -/
theorem create_only_adds_directories (fs : Fs) (dir : Bytes) (fault : Option Nat) (q : CPath) :
    (dirCreateTop fs dir fault).1.get q = fs.get q ∨
    (fs.get q = none ∧ (dirCreateTop fs dir fault).1.get q = some .dir) := by
  unfold dirCreateTop
  have := dirCreate_adds (dir.length + 1) fs dir fault 0 q
  cases h : dirCreate (dir.length + 1) fs dir fault 0 with
  | mk fs' rest =>
    obtain ⟨r, f, n⟩ := rest
    rw [h] at this
    exact this

/-- Failed operations report failure without leaving new files behind: whenever File::open,
    File::rename or File::copy answers "failed", every path that exists afterwards existed before
    (for every world and all path strings).  For copy the one exception is spelled out: an injected
    transfer fault while the destination's last component is a symbolic link.  File::unlink and
    Directory::unlink never add anything, whatever they answer. -/
theorem failed_op_leaves_no_new_file (fs : Fs) :
    (∀ path flags, (fileOpen fs path flags).2 = none → NoNew fs (fileOpen fs path flags).1) ∧
    (∀ frm to fie, (fileRename fs frm to fie).2 = false → NoNew fs (fileRename fs frm to fie).1) ∧
    (∀ src dst fie fault, (fault = .none ∨ ∀ p t, resolve fs dst false ≠ .found p (.link t)) →
        (fileCopy fs src dst fie fault).2.1 = false → NoNew fs (fileCopy fs src dst fie fault).1) ∧
    (∀ path, NoNew fs (fileUnlink fs path).1) ∧
    (∀ dir recursive, NoNew fs (dirUnlinkTop fs dir recursive).1) :=
  ⟨fun p f h => fileOpen_failed_noNew fs p f h,
   fun a b f h => fileRename_failed_noNew fs a b f h,
   fun a b f ft hl h => fileCopy_failed_noNew fs a b f ft hl h,
   fun p => fileUnlink_noNew fs p,
   fun d r => dirUnlink_noNew _ r fs d⟩

/-- Recursive unlink never follows a symbolic link out of its tree: for a plain path (parent chain of
    real directories; the last component may be anything) whose last component sits at canonical path `d`,
    Directory::unlink — recursive or not, whatever it returns — leaves every entry outside the tree at
    `d` exactly as it was, wherever the symbolic links inside the tree point. -/
theorem unlink_never_follows_symlink_out (fs : Fs) (dir : Bytes) (d : CPath) (recursive : Bool)
    (hok : NamesOk fs) (hpp : PlainParent fs dir d) :
    ∀ q, ¬ (d <+: q) → (dirUnlinkTop fs dir recursive).1.get q = fs.get q :=
  (dirUnlink_frame _ recursive fs dir d hok hpp).out

/-- The same for EVERY path string (through symbolic links, with `.` and `..`, relative or absolute): whatever
    Directory::unlink does — recursive or not, whatever it returns — every entry that changes lies in the
    directory `d` the path resolves to (last component not followed), and entries are only removed.  In
    particular nothing changes at all when the path does not resolve to a directory (e.g. its last component is
    a symbolic link, whatever that points to), and a symbolic link INSIDE the tree is removed, never followed. -/
theorem unlink_stays_in_resolved_tree (fs : Fs) (hok : NamesOk fs) (dir : Bytes) (recursive : Bool) :
    (∀ q, (dirUnlinkTop fs dir recursive).1.get q ≠ fs.get q → ∃ d, resolve fs dir false = .found d .dir ∧ d <+: q) ∧
    (∀ q, (dirUnlinkTop fs dir recursive).1.get q = fs.get q ∨ (dirUnlinkTop fs dir recursive).1.get q = none) :=
  ⟨fun q h => dirUnlink_loc _ recursive fs dir q hok h, (dirUnlink_shrinks _ recursive fs dir).2⟩

/-- … and it removes nothing but entries: each entry afterwards was there before. -/
theorem unlink_only_removes (fs : Fs) (dir : Bytes) (d : CPath) (recursive : Bool)
    (hok : NamesOk fs) (hpp : PlainParent fs dir d) :
    ∀ x ∈ (dirUnlinkTop fs dir recursive).1.ents, x ∈ fs.ents :=
  (dirUnlink_frame _ recursive fs dir d hok hpp).sub

/-- whenever Directory::unlink (recursive or not) reports success in a well-formed world, every path in
    the tree at `d` is gone and every other path is unchanged. -/
theorem unlink_success_means_tree_gone (fs : Fs) (dir : Bytes) (d : CPath) (recursive : Bool)
    (hwf : WF fs) (hpp : PlainParent fs dir d) (h : (dirUnlinkTop fs dir recursive).2 = true) :
    ∀ q, (d <+: q → (dirUnlinkTop fs dir recursive).1.get q = none) ∧
         (¬ (d <+: q) → (dirUnlinkTop fs dir recursive).1.get q = fs.get q) :=
  fun q => ⟨dirUnlink_true_gone _ recursive fs dir d hwf hpp h q,
            (dirUnlink_frame _ recursive fs dir d hwf.names hpp).out q⟩

/-- Recursive unlink removes exactly the given tree: in a well-formed world, recursive Directory::unlink of
    an existing directory given by a plain path (not the working directory or one of its ancestors, which the
    model keeps) succeeds, afterwards no path of the tree at `d` exists and
    every other path is unchanged. -/
theorem unlink_removes_exactly_tree (fs : Fs) (dir : Bytes) (d : CPath)
    (hwf : WF fs) (hpp : PlainParent fs dir d) (hg : fs.get d = some .dir) (hcw : d.isPrefixOf cwd = false) :
    (dirUnlinkTop fs dir true).2 = true ∧
    ∀ q, (d <+: q → (dirUnlinkTop fs dir true).1.get q = none) ∧
         (¬ (d <+: q) → (dirUnlinkTop fs dir true).1.get q = fs.get q) :=
  ⟨dirUnlinkTop_succeeds fs dir d hwf hpp hg hcw,
   unlink_success_means_tree_gone fs dir d true hwf hpp (dirUnlinkTop_succeeds fs dir d hwf hpp hg hcw)⟩

/-- well-formedness is kept by Directory::unlink (so the theorems apply to whole histories of unlinks) -/
theorem unlink_keeps_wellformed (fs : Fs) (dir : Bytes) (recursive : Bool) (hwf : WF fs) :
    WF (dirUnlinkTop fs dir recursive).1 :=
  dirUnlink_wf _ recursive fs dir hwf

/-- Every history keeps the world well-formed: starting from the initial world of the correspondence run (or
    any world satisfying the invariant), after ANY sequence of operations — raw mkdir/creat/symlink,
    Directory::create (with faults), Directory::unlink, Directory::purge, File::unlink, File::rename (files,
    links and directory subtrees), File::copy (with faults), File sessions — names are names, no path is
    stored twice, every parent is a directory, and the working directory is a directory. -/
theorem wf_run (ops : List FsOp) : WF (fsRun initFs ops) ∧ (fsRun initFs ops).get cwd = some .dir := by
  have h0 : Inv initFs := ⟨⟨by unfold NamesOk KName; decide, by unfold NoDupKeys; decide, by unfold ParentsOk; decide⟩,
    by decide⟩
  exact fsRun_inv ops initFs h0

theorem wf_step (fs : Fs) (op : FsOp) (h : WF fs ∧ fs.get cwd = some .dir) :
    WF (fsApply fs op) ∧ (fsApply fs op).get cwd = some .dir :=
  fsApply_inv fs h op

/-- the theorems that assume a well-formed world, as facts about all histories: after any history,
    recursive unlink of an existing plain directory removes exactly its tree … -/
theorem history_unlink_removes_exactly_tree (ops : List FsOp) (dir : Bytes) (d : CPath)
    (hpp : PlainParent (fsRun initFs ops) dir d) (hg : (fsRun initFs ops).get d = some .dir)
    (hcw : d.isPrefixOf cwd = false) :
    (dirUnlinkTop (fsRun initFs ops) dir true).2 = true ∧
    ∀ q, (d <+: q → (dirUnlinkTop (fsRun initFs ops) dir true).1.get q = none) ∧
         (¬ (d <+: q) → (dirUnlinkTop (fsRun initFs ops) dir true).1.get q = (fsRun initFs ops).get q) :=
  unlink_removes_exactly_tree _ dir d (wf_run ops).1 hpp hg hcw

/-- … any Directory::unlink stays inside the tree … -/
theorem history_unlink_never_follows_symlink_out (ops : List FsOp) (dir : Bytes) (d : CPath) (recursive : Bool)
    (hpp : PlainParent (fsRun initFs ops) dir d) :
    ∀ q, ¬ (d <+: q) → (dirUnlinkTop (fsRun initFs ops) dir recursive).1.get q = (fsRun initFs ops).get q :=
  unlink_never_follows_symlink_out _ dir d recursive (wf_run ops).1.names hpp

/-- … and a successful rename of a file or link moves exactly that entry. -/
theorem history_rename_bytes_exact (ops : List FsOp) (frm to : Bytes) (fie : Bool) (pf : CPath) (e : Entry)
    (hsrc : resolve (fsRun initFs ops) frm false = .found pf e) (he : e ≠ .dir)
    (h : (fileRename (fsRun initFs ops) frm to fie).2 = true) :
    ∃ pt, pt ≠ [] ∧ (fileRename (fsRun initFs ops) frm to fie).1.get pt = some e ∧
      (pt ≠ pf → (fileRename (fsRun initFs ops) frm to fie).1.get pf = none) ∧
      (∀ q, q ≠ pt → q ≠ pf → (fileRename (fsRun initFs ops) frm to fie).1.get q = (fsRun initFs ops).get q) :=
  rename_bytes_exact _ frm to fie (wf_run ops).1 pf e hsrc he h

/-- … after any history (no hypothesis left). -/
theorem history_unlink_stays_in_resolved_tree (ops : List FsOp) (dir : Bytes) (recursive : Bool) (q : CPath)
    (h : (dirUnlinkTop (fsRun initFs ops) dir recursive).1.get q ≠ (fsRun initFs ops).get q) :
    ∃ d, resolve (fsRun initFs ops) dir false = .found d .dir ∧ d <+: q :=
  (unlink_stays_in_resolved_tree _ (wf_run ops).1.names dir recursive).1 q h

/-- Directory::open + Directory::read (no pattern) on a plain directory of a well-formed world: the listing
    contains exactly the entries of the directory, every name once; the is-directory flag is true for
    directories and for symbolic links that `stat` resolves to a directory, false otherwise. -/
theorem listing_exact (fs : Fs) (hwf : WF fs) (dir : Bytes) (d : CPath) (hpp : PlainParent fs dir d)
    (hg : fs.get d = some .dir) :
    ∃ l, dirList fs dir = some l ∧
      (∀ n b, (n, b) ∈ l ↔ ∃ e, fs.get (d ++ [n]) = some e ∧ b = listedAsDir fs dir n e) ∧
      List.Pairwise (fun a b : Name × Bool => a.1 ≠ b.1) l :=
  dirList_plain fs hwf dir d hpp hg

/-- Directory::purge answers what Directory::unlink answers and, like it, never adds an entry (afterwards it
    only removes parent directories that `rmdir` accepts, i.e. empty ones). -/
theorem purge_answers_like_unlink (fs : Fs) (path : Bytes) (recursive : Bool) :
    (dirPurge fs path recursive).2 = (dirUnlinkTop fs path recursive).2 ∧ NoNew fs (dirPurge fs path recursive).1 :=
  dirPurge_spec fs path recursive

/-- File::getAbsolutePath returns an absolute path: the argument itself when it is absolute, otherwise the
    working directory, `/`, and the argument. -/
theorem absolute_path_spec (p : Bytes) :
    isAbsolutePath (getAbsolutePath p) = true ∧
    (isAbsolutePath p = true → getAbsolutePath p = p) ∧
    (isAbsolutePath p = false → getAbsolutePath p = [47, 115] ++ [47] ++ p) := by
  unfold getAbsolutePath
  by_cases h : isAbsolutePath p = true
  · simp [h]
  · have h' : isAbsolutePath p = false := by simpa using h
    simp only [h', Bool.false_eq_true, if_false]
    exact ⟨by rfl, fun hh => absurd hh (by simp), fun _ => trivial⟩

/-- File::rename(from, to, false) of a DIRECTORY that reports success (world satisfying the invariant of all
    histories): either source and destination are the same entry, or the whole subtree now hangs at the
    destination `pt` (`get (pt ++ r) = old get (pf ++ r)`), nothing is left below the source, and every
    other path is unchanged. -/
theorem rename_directory_moves_subtree (fs : Fs) (hinv : WF fs ∧ fs.get cwd = some .dir) (frm to : Bytes) (pf : CPath)
    (hrf : resolve fs frm false = .found pf .dir) (h : (fileRename fs frm to false).2 = true) :
    (fileRename fs frm to false).1 = fs ∨
    ∃ pt, ¬ pf <+: pt ∧ ∀ q, (fileRename fs frm to false).1.get q =
      if pt <+: q then fs.get (pf ++ q.drop pt.length) else if pf <+: q then none else fs.get q :=
  rename_directory_exact fs hinv frm to pf hrf h

/-! non-vacuity -/
/-- a world with a tree `/s/a` (file, sub-directory with a file, link to the outside directory `/o/od`) -/
def exWorld : Fs :=
  ⟨[([[115]], .dir), ([[111]], .dir), ([[111], [111, 100]], .dir), ([[111], [111, 100], [120]], .file [88]),
    ([[115], [97]], .dir), ([[115], [97], [102]], .file [1]), ([[115], [97], [98]], .dir),
    ([[115], [97], [98], [103]], .file [2]), ([[115], [97], [108]], .link [47, 111, 47, 111, 100])]⟩

example : WF exWorld :=
  ⟨by unfold NamesOk KName; decide, by unfold NoDupKeys; decide, by unfold ParentsOk; decide⟩
example : PlainParent exWorld [97] [[115], [97]] :=
  ⟨by decide, [], [97], by decide, trivial, by decide, by decide, by decide⟩
example : (dirUnlinkTop exWorld [97] true).2 = true := by decide
example : (fileRename exWorld [97] [99] false).2 = true := by decide
example : (dirList exWorld [97]).isSome = true := by decide
example : (dirUnlinkTop exWorld [97] true).1.get [[111], [111, 100], [120]] = some (.file [88]) := by decide
example : (fileRename ⟨[([[115]], .dir)]⟩ [122] [110] true).2 = false := by decide
example : (fileRename exWorld [97, 47, 102] [104] true).2 = true := by decide
example : resolve exWorld [97, 47, 102] false = .found [[115], [97], [102]] (.file [1]) := by rfl
example : (fileCopy ⟨[([[115]], .dir), ([[115], [102]], .file [1, 2])]⟩ [102] [103] true .half).2.1 = false := by decide
example : (fileCopy ⟨[([[115]], .dir), ([[115], [102]], .file [1, 2])]⟩ [102] [103] true .none).2.1 = true := by decide
example : (dirCreateTop ⟨[([[115]], .dir)]⟩ [97, 47, 98] none).2.1 = true := by decide
example : Clear ⟨[([[115]], .dir)]⟩ (start0 [97, 47, 98]) (kchunks [97, 47, 98]) := by
  show Clear _ [[115]] [[97], [98]]
  exact ⟨by decide, by decide, Or.inl (by decide), by decide, by decide, Or.inl (by decide), trivial⟩
example : (dirCreateTop ⟨[([[115]], .dir), ([[115], [97]], .file [1])]⟩ [97] none).2.1 = false := by decide
example : Ancestor [97] [97, 47, 98] := Ancestor.parent (Ancestor.self _) (by decide : splitLast isSlash [97, 47, 98] = some ([97], 47, [98])) (by decide)

end Nstd.Path
