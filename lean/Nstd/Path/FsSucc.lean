import Nstd.Path.FsWf
/-
  File::copy and File::rename succeed when nothing is in the way (so the "… that reports success" theorems
  are not vacuous).
-/
namespace Nstd.Path

theorem resolve_missing_follow (fs : Fs) (path : Bytes) (pa : CPath) (n : Name)
    (h : resolve fs path false = .missing pa n) : resolve fs path true = .missing pa n := by
  unfold resolve at h ⊢
  by_cases hne : path = []
  · simp [hne] at h
  · rw [if_neg hne] at h ⊢
    exact walk_missing_follow fs _ _ _ _ _ h

/-- File::copy succeeds: the source is a regular file, no transfer fault, and the destination is missing
    below an existing directory (any failIfExists) or — with failIfExists = false — another existing file -/
theorem fileCopy_succeeds (fs : Fs) (src dst : Bytes) (fie : Bool) (ps : CPath) (d : Bytes)
    (hsrc : resolve fs src true = .found ps (.file d))
    (hdst : (∃ pa n, resolve fs dst (!fie) = .missing pa n) ∨
            (fie = false ∧ ∃ p d0, resolve fs dst true = .found p (.file d0) ∧ p ≠ ps)) :
    (fileCopy fs src dst fie .none).2.1 = true := by
  obtain ⟨hps, hget⟩ := resolve_found_nondir fs src true ps (.file d) hsrc (by simp)
  have ho : sysOpen fs src { acc := .rdonly } = (fs, .ok ⟨ps, .rdonly, false, 0⟩) := by
    unfold sysOpen; simp [hsrc]
  have hsize : (fileData fs ps).length = d.length := by rw [fileData_of_get fs ps d hget]
  unfold fileCopy
  rw [ho]
  simp only [Bool.false_eq_true, if_false, hsize]
  rcases hdst with ⟨pa, n, hm⟩ | ⟨hf, p, d0, hp, hne⟩
  · have hm' : resolve fs dst true = .missing pa n := by
      cases fie with
      | true => exact resolve_missing_follow fs dst pa n (by simpa using hm)
      | false => simpa using hm
    have hsame : sameFile fs ⟨ps, .rdonly, false, 0⟩ dst = false := by unfold sameFile; rw [hm']
    rw [hsame]
    simp only [Bool.false_eq_true, if_false]
    have hnone := resolve_missing_get fs dst _ pa n hm
    have hopen : sysOpen fs dst { acc := .wronly, creat := true, excl := fie, trunc := true } =
        (fs.set (pa ++ [n]) (.file []), .ok ⟨pa ++ [n], .wronly, false, 0⟩) := by
      unfold sysOpen
      cases fie with
      | true => simp only [and_self, if_true]; rw [show resolve fs dst false = .missing pa n by simpa using hm]
      | false => simp only [Bool.false_eq_true, and_false, if_false]; rw [hm']; simp
    rw [hopen]
    simp only
    exact copyData_none_succeeds fs ⟨ps, .rdonly, false, 0⟩ ⟨pa ++ [n], .wronly, false, 0⟩ dst (pa ++ [n]) d rfl rfl rfl hget
      (append_singleton_ne_nil pa n) (by intro hh; simp only at hh; rw [hh, hnone] at hget; simp at hget) rfl rfl rfl
  · subst hf
    obtain ⟨hpne, _⟩ := resolve_found_nondir fs dst true p (.file d0) hp (by simp)
    have hsame : sameFile fs ⟨ps, .rdonly, false, 0⟩ dst = false := by
      unfold sameFile; rw [hp]; simp [hne]
    rw [hsame]
    simp only [Bool.false_eq_true, if_false]
    have hopen : sysOpen fs dst { acc := .wronly, creat := true, excl := false, trunc := true } =
        (fs.set p (.file []), .ok ⟨p, .wronly, false, 0⟩) := by
      unfold sysOpen
      simp [hp]
    rw [hopen]
    simp only
    exact copyData_none_succeeds fs ⟨ps, .rdonly, false, 0⟩ ⟨p, .wronly, false, 0⟩ dst p d rfl rfl rfl hget
      hpne (fun hh => hne hh.symm) rfl rfl rfl

/-- File::rename succeeds: the source is a file or symbolic link, the destination is missing below an existing
    directory (with or without failIfExists), in a world satisfying the invariant of all histories -/
theorem fileRename_succeeds (fs : Fs) (hinv : Inv fs) (frm to : Bytes) (fie : Bool) (pf : CPath) (e : Entry)
    (hsrc : resolve fs frm false = .found pf e) (he : e ≠ .dir) (pa : CPath) (n : Name)
    (hto : resolve fs to false = .missing pa n) : (fileRename fs frm to fie).2 = true := by
  obtain ⟨hpf, hgpf⟩ := resolve_found_nondir fs frm false pf e hsrc he
  have hcw : ¬ (pf.isPrefixOf cwd = true) := by
    intro h
    have hp := List.isPrefixOf_iff_prefix.mp h
    obtain ⟨t, ht⟩ := hp
    have hl := congrArg List.length ht
    simp [cwd] at hl
    have : pf = cwd := by
      cases pf with
      | nil => exact absurd rfl hpf
      | cons a as =>
        cases as with
        | nil => cases t with
          | nil => simpa using ht
          | cons _ _ => simp at hl
        | cons _ _ => simp at hl; omega
    rw [this, hinv.2] at hgpf
    exact he (Option.some.inj hgpf).symm
  have hrename : ∀ X : Fs, resolve X frm false = .found pf e → resolve X to false = .missing pa n →
      (sysRename X frm to).2 = .ok () := by
    intro X h1 h2
    unfold sysRename
    rw [h1]
    simp only [hcw, if_false, h2, he, false_and]
    simp
  unfold fileRename
  cases fie with
  | false =>
    simp only [Bool.false_eq_true, if_false]
    have := hrename fs hsrc hto
    cases hr : sysRename fs frm to with
    | mk fs1 r => rw [hr] at this; simp only at this; subst this; rfl
  | true =>
    have hstat : isOk (sysStat fs frm false) = true := by unfold sysStat; rw [hsrc]; rfl
    simp only [if_true, hstat, Bool.true_eq_false, if_false]
    have hPne := append_singleton_ne_nil pa n
    have hnone := resolve_missing_get fs to false pa n hto
    have hopen : sysOpen fs to { acc := .rdonly, creat := true, excl := true } =
        (fs.set (pa ++ [n]) (.file []), .ok ⟨pa ++ [n], .rdonly, false, 0⟩) := by
      unfold sysOpen; simp only [and_self, if_true]; rw [hto]
    rw [hopen]
    simp only
    have hsrc1 := resolve_found_stable fs (pa ++ [n]) (.file []) hPne hnone frm false pf e hsrc
    have hto1 : resolve (fs.set (pa ++ [n]) (.file [])) to false = .found (pa ++ [n]) (.file []) := by
      unfold resolve at hto ⊢
      by_cases hne0 : to = []
      · simp [hne0] at hto
      · rw [if_neg hne0] at hto ⊢
        exact walk_after_create fs (.file []) (by intro t; simp) _ _ _ false false _ _ (Or.inl rfl) hto
    have hne : pa ++ [n] ≠ pf := by intro h; rw [h, hgpf] at hnone; simp at hnone
    have hren : (sysRename (fs.set (pa ++ [n]) (.file [])) frm to).2 = .ok () := by
      unfold sysRename
      rw [hsrc1]
      simp only [hcw, if_false, hto1, hne, he]
      simp
    cases hr : sysRename (fs.set (pa ++ [n]) (.file [])) frm to with
    | mk fs2 r => rw [hr] at hren; simp only at hren; subst hren; rfl

end Nstd.Path
