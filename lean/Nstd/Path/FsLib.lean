import Nstd.Path.Fs
/-
  The algorithms of src/File.cpp and src/Directory.cpp (POSIX branches, repaired code) on top of
  the assumed system calls of Nstd/Path/Fs.lean: File::open flag mapping, size/readAll/write/seek,
  rename with its exclusive placeholder, copy via sendfile, File::exists / Directory::exists,
  Directory::create (recursion over getDirectoryName), Directory::unlink (recursive, by entry type),
  Directory::open/read listing.
  Injected faults (interposed in the harness): `sendfile` fails / transfers only half; the k-th `mkdir` fails.
-/
namespace Nstd.Path

def readFlag : Nat := 1
def writeFlag : Nat := 2
def appendFlag : Nat := 4
def openFlag : Nat := 8

def hasFlag (flags f : Nat) : Bool := (flags / f) % 2 == 1

/-- the `oflags` computed by File::open -/
def openFlags (flags : Nat) : OFlags :=
  if hasFlag flags readFlag && hasFlag flags writeFlag then
    if hasFlag flags openFlag then { acc := .rdwr } else { acc := .rdwr, creat := true }
  else if hasFlag flags writeFlag then
    if hasFlag flags openFlag then { acc := .wronly }
    else if hasFlag flags appendFlag then { acc := .wronly, creat := true }
    else { acc := .wronly, creat := true, trunc := true }
  else { acc := .rdonly }

/-- File::open on a closed File object -/
def fileOpen (fs : Fs) (path : Bytes) (flags : Nat) : Fs × Option Fd :=
  match sysOpen fs path (openFlags flags) with
  | (fs', .error _) => (fs', none)
  | (fs', .ok fd) =>
    if fd.isDir = true then (fs', none)      -- repaired: fstat + S_ISDIR → close, EISDIR
    else if hasFlag flags appendFlag then
      match sysLseek fs' fd 0 .end_ with
      | (fd', .ok _) => (fs', some fd')
      | (_, .error _) => (fs', none)
    else (fs', some fd)

/-- File::size: three lseeks (current, end, back when different) -/
def fileSize (fs : Fs) (fd : Fd) : Fd × Option Nat :=
  match sysLseek fs fd 0 .cur with
  | (_, .error _) => (fd, none)
  | (fd1, .ok cur) =>
    match sysLseek fs fd1 0 .end_ with
    | (_, .error _) => (fd1, none)
    | (fd2, .ok size) =>
      if cur ≠ size then
        match sysLseek fs fd2 cur .set with
        | (_, .error _) => (fd2, none)
        | (fd3, .ok _) => (fd3, some size)
      else (fd2, some size)

/-- File::readAll(String&): size(), then ONE read of that many bytes from the current position -/
def fileReadAll (fs : Fs) (fd : Fd) : Fd × Option Bytes :=
  match fileSize fs fd with
  | (fd1, none) => (fd1, none)
  | (fd1, some size) =>
    match sysRead fs fd1 size with
    | (fd2, .error _) => (fd2, none)
    | (fd2, .ok d) => (fd2, some d)

/-- File::write(const String&) -/
def fileWrite (fs : Fs) (fd : Fd) (data : Bytes) : Fs × Fd × Bool :=
  match sysWrite fs fd data with
  | (fs', fd', .ok n) => (fs', fd', n == data.length)
  | (fs', fd', .error _) => (fs', fd', false)

/-- File::seek: the new position or -1 -/
def fileSeek (fs : Fs) (fd : Fd) (off : Int) (w : Whence) : Fd × Option Nat :=
  match sysLseek fs fd off w with
  | (fd', .ok n) => (fd', some n)
  | (fd', .error _) => (fd', none)

/-- File::read(buffer, len): ONE read(2) of at most `len` bytes from the current position -/
def fileRead (fs : Fs) (fd : Fd) (len : Nat) : Fd × Option Bytes :=
  match sysRead fs fd len with
  | (fd', .ok d) => (fd', some d)
  | (fd', .error _) => (fd', none)

/-- lseek under the environment's choice to fail: `k = 0` → THIS call fails (position unchanged), otherwise the
    countdown goes on; `none` = no failure pending -/
def lseekF (fs : Fs) (fd : Fd) (off : Int) (w : Whence) : Option Nat → (Fd × Except Errno Nat) × Option Nat
  | some 0 => ((fd, .error .einval), none)
  | some (k + 1) => (sysLseek fs fd off w, some k)
  | none => (sysLseek fs fd off w, none)

/-- File::size when the environment lets the k-th of its lseek calls fail (k = 0, 1, 2; a larger k never fires):
    the error returns of File.cpp:180-189.  Note k = 2: the position has been moved to the end and is NOT restored. -/
def fileSizeF (fs : Fs) (fd : Fd) (k : Nat) : Fd × Option Nat :=
  match lseekF fs fd 0 .cur (some k) with
  | ((_, .error _), _) => (fd, none)
  | ((fd1, .ok cur), f1) =>
    match lseekF fs fd1 0 .end_ f1 with
    | ((_, .error _), _) => (fd1, none)
    | ((fd2, .ok size), f2) =>
      if cur ≠ size then
        match lseekF fs fd2 cur .set f2 with
        | ((_, .error _), _) => (fd2, none)
        | ((fd3, .ok _), _) => (fd3, some size)
      else (fd2, some size)

/-- File::readAll(String&) under the same choice: size() fails → false, nothing read -/
def fileReadAllF (fs : Fs) (fd : Fd) (k : Nat) : Fd × Option Bytes :=
  match fileSizeF fs fd k with
  | (fd1, none) => (fd1, none)
  | (fd1, some size) =>
    match sysRead fs fd1 size with
    | (fd2, .error _) => (fd2, none)
    | (fd2, .ok d) => (fd2, some d)

/-- the operations on one open File object and what they answer -/
inductive FileOp
  | write (d : Bytes)
  | seek (off : Int) (w : Whence)
  | readAll
  | size
  | read (len : Nat)
  | seekF (off : Int) (w : Whence)      -- File::seek whose lseek fails
  | sizeF (k : Nat)                     -- File::size whose k-th lseek fails
  | readAllF (k : Nat)                  -- File::readAll whose k-th lseek (inside size) fails
deriving Repr

inductive FileOut
  | wrote (ok : Bool)
  | pos (p : Option Nat)
  | data (d : Option Bytes)
  | size (n : Option Nat)
deriving Repr, DecidableEq

def fileStep (fs : Fs) (fd : Fd) : FileOp → Fs × Fd × FileOut
  | .write d => let (fs', fd', ok) := fileWrite fs fd d; (fs', fd', .wrote ok)
  | .seek off w => let (fd', r) := fileSeek fs fd off w; (fs, fd', .pos r)
  | .readAll => let (fd', r) := fileReadAll fs fd; (fs, fd', .data r)
  | .size => let (fd', r) := fileSize fs fd; (fs, fd', .size r)
  | .read n => let (fd', r) := fileRead fs fd n; (fs, fd', .data r)
  | .seekF _ _ => (fs, fd, .pos none)
  | .sizeF k => let (fd', r) := fileSizeF fs fd k; (fs, fd', .size r)
  | .readAllF k => let (fd', r) := fileReadAllF fs fd k; (fs, fd', .data r)

/-- a script of operations on one File object -/
def runOps (fs : Fs) (fd : Fd) : List FileOp → Fs × Fd × List FileOut
  | [] => (fs, fd, [])
  | op :: rest =>
    let (fs1, fd1, o) := fileStep fs fd op
    let (fs2, fd2, os) := runOps fs1 fd1 rest
    (fs2, fd2, o :: os)

/-- static File::readAll(path, data) -/
def fileReadAllPath (fs : Fs) (path : Bytes) : Option Bytes :=
  match fileOpen fs path readFlag with
  | (_, none) => none
  | (fs', some fd) => (fileReadAll fs' fd).2

def isOk {α} : Except Errno α → Bool
  | .ok _ => true
  | .error _ => false

/-- File::unlink -/
def fileUnlink (fs : Fs) (path : Bytes) : Fs × Bool :=
  let (fs', r) := sysUnlink fs path
  (fs', isOk r)

/-- File::rename(from, to, failIfExists) (repaired: the placeholder is removed when rename fails) -/
def fileRename (fs : Fs) (frm to : Bytes) (failIfExists : Bool) : Fs × Bool :=
  if failIfExists then
    if isOk (sysStat fs frm false) = false then (fs, false)     -- repaired: lstat(from) first
    else
    match sysOpen fs to { acc := .rdonly, creat := true, excl := true } with
    | (fs1, .error _) => (fs1, false)
    | (fs1, .ok _) =>
      match sysRename fs1 frm to with
      | (fs2, .error _) => ((sysUnlink fs2 to).1, false)
      | (fs2, .ok _) => (fs2, true)
  else
    let (fs', r) := sysRename fs frm to
    (fs', isOk r)

/-- injected sendfile fault: fail at once, or transfer only half of the bytes -/
inductive SfFault | none | fail | half
deriving DecidableEq, Repr

/-- number of bytes the (possibly faulted) sendfile is asked to transfer -/
def copyCount (fault : SfFault) (size : Nat) : Nat :=
  match fault with
  | .none => size
  | .fail => 0
  | .half => size / 2

/-- what the (possibly faulted) sendfile returns to File::copy -/
def copySent (fault : SfFault) (r : Except Errno Nat) : Option Nat :=
  match fault, r with
  | .fail, _ => Option.none
  | _, .ok n => some n
  | _, .error _ => Option.none

/-- the data phase of File::copy: sendfile, and on a short count remove the destination again -/
def copyData (fs1 : Fs) (dest fd : Fd) (size : Nat) (dst : Bytes) (fault : SfFault) : Fs × Bool × Bool :=
  let r := sysSendfile fs1 dest fd (copyCount fault size)
  if copySent fault r.2.2.2 ≠ some size then ((sysUnlink r.1 dst).1, false, fault ≠ .none)
  else (r.1, true, fault ≠ .none)

/-- `stat(destination)` names the open source file (same device and inode; the model has no hard links, so:
    the same canonical path) -/
def sameFile (fs : Fs) (fd : Fd) (dst : Bytes) : Bool :=
  match resolve fs dst true with
  | .found p _ => p == fd.path
  | _ => false

/-- File::copy(src, destination, failIfExists) (repaired: a directory source is refused before the
    destination is touched; an incomplete destination is removed);
    third component of the result: did the injected fault fire -/
def fileCopy (fs : Fs) (src dst : Bytes) (failIfExists : Bool) (fault : SfFault) : Fs × Bool × Bool :=
  match sysOpen fs src { acc := .rdonly } with
  | (fs0, .error _) => (fs0, false, false)
  | (fs0, .ok fd) =>
    if fd.isDir = true then (fs0, false, false)      -- repaired: fstat + S_ISDIR before the destination is touched
    else if sameFile fs0 fd dst = true then (fs0, false, false)   -- repaired: stat(destination) has the same st_dev/st_ino
    else
      match sysOpen fs0 dst { acc := .wronly, creat := true, excl := failIfExists, trunc := true } with
      | (fs1, .error _) => (fs1, false, false)
      | (fs1, .ok dest) => copyData fs1 dest fd (fileData fs0 fd.path).length dst fault

/-- File::exists (lstat) -/
def fileExists (fs : Fs) (path : Bytes) : Bool := isOk (sysStat fs path false)

/-- Directory::exists (stat + S_ISDIR) -/
def dirExists (fs : Fs) (path : Bytes) : Bool :=
  match sysStat fs path true with
  | .ok .dir => true
  | _ => false

/-- mkdir with the injected fault: `fault = some k` makes the k-th call (k = 0 is the next) fail with EIO -/
def mkdirF (fs : Fs) (path : Bytes) (fault : Option Nat) : Fs × Bool × Option Nat × Bool :=
  match fault with
  | some 0 => (fs, false, none, true)
  | some (k + 1) => let (fs', r) := sysMkdir fs path; (fs', isOk r, some k, false)
  | none => let (fs', r) := sysMkdir fs path; (fs', isOk r, none, false)

/-- the parent Directory::create (repaired, POSIX branch) recurses to: the text before the last `/`
    (a backslash is part of a name for mkdir and stat), `.` when there is no `/` -/
def getDirectoryNameK (dir : Bytes) : Bytes :=
  match splitLast isSlash dir with
  | some (d, _, _) => d
  | none => [46]

/-- the tail of Directory::create: `mkdir(dir)`, and when that fails the answer is Directory::exists(dir) -/
def createHere (fs : Fs) (dir : Bytes) (fault : Option Nat) (fired : Nat) : Fs × Bool × Option Nat × Nat :=
  match mkdirF fs dir fault with
  | (fs', true, fault', f) => (fs', true, fault', fired + (if f then 1 else 0))
  | (fs', false, fault', f) => (fs', dirExists fs' dir, fault', fired + (if f then 1 else 0))

/-- Directory::create (repaired).  The recursion follows getDirectoryName, which shortens the string;
    `fuel` ≥ length of `dir` + 1 is enough.  Result: (world, returned bool, fault countdown, faults fired) -/
def dirCreate : Nat → Fs → Bytes → Option Nat → Nat → Fs × Bool × Option Nat × Nat
  | 0, fs, _, fault, fired => (fs, false, fault, fired)
  | fuel + 1, fs, dir, fault, fired =>
    let parent := getDirectoryNameK dir
    if parent ≠ [46] ∧ parent ≠ [] ∧ dirExists fs parent = false then
      match dirCreate fuel fs parent fault fired with
      | (fs', false, fault', fired') => (fs', false, fault', fired')
      | (fs', true, fault', fired') => createHere fs' dir fault' fired'
    else createHere fs dir fault fired

def dirCreateTop (fs : Fs) (dir : Bytes) (fault : Option Nat) : Fs × Bool × Nat :=
  let (fs', r, _, fired) := dirCreate (dir.length + 1) fs dir fault 0
  (fs', r, fired)

/-- the loop over the directory entries of Directory::unlink -/
def unlinkEntries (rec : Fs → Bytes → Fs × Bool) (prefix_ : Bytes) : Fs → List (Name × Entry) → Fs × Bool
  | fs, [] => (fs, true)
  | fs, (n, e) :: rest =>
    match e with
    | .dir =>
      match rec fs (prefix_ ++ n) with
      | (fs', false) => (fs', false)
      | (fs', true) => unlinkEntries rec prefix_ fs' rest
    | _ =>
      match fileUnlink fs (prefix_ ++ n) with
      | (fs', false) => (fs', false)
      | (fs', true) => unlinkEntries rec prefix_ fs' rest

/-- Directory::unlink(dir, recursive); `fuel` bounds the directory depth -/
def dirUnlink : Nat → Bool → Fs → Bytes → Fs × Bool
  | 0, _, fs, _ => (fs, false)
  | fuel + 1, recursive, fs, dir =>
    match sysRmdir fs dir with
    | (fs', .ok _) => (fs', true)
    | (fs', .error e) =>
      if recursive = false ∨ e ≠ .enotempty then (fs', false)
      else
        match sysReaddir fs' dir with
        | .error _ => (fs', false)
        | .ok (_, ents) =>
          match unlinkEntries (dirUnlink fuel true) (dir ++ [47]) fs' ents with
          | (fs'', false) => (fs'', false)
          | (fs'', true) => let (fs3, r) := sysRmdir fs'' dir; (fs3, isOk r)

/-- length of the longest stored path -/
def maxDepth (fs : Fs) : Nat := fs.ents.foldl (fun m x => max m x.1.length) 0

/-- the recursion of Directory::unlink is as deep as the tree; the model gives it the longest stored path + 2 -/
def dirUnlinkTop (fs : Fs) (dir : Bytes) (recursive : Bool) : Fs × Bool :=
  dirUnlink (maxDepth fs + 2) recursive fs dir

/-- the loop of Directory::purge: `for(i = getDirectoryName(path); i != "."; i = getDirectoryName(i)) if(rmdir(i) != 0) break;` -/
def purgeUp : Nat → Fs → Bytes → Fs
  | 0, fs, _ => fs
  | n + 1, fs, i =>
    if i = [46] then fs
    else
      match sysRmdir fs i with
      | (fs', .ok _) => purgeUp n fs' (getDirectoryName i)
      | (fs', .error _) => fs'

/-- Directory::purge(path, recursive): unlink, then remove the parents while they are empty -/
def dirPurge (fs : Fs) (path : Bytes) (recursive : Bool) : Fs × Bool :=
  match dirUnlinkTop fs path recursive with
  | (fs', false) => (fs', false)
  | (fs', true) => (purgeUp (path.length + 1) fs' (getDirectoryName path), true)

/-- File::getAbsolutePath with the working directory `/s` -/
def getAbsolutePath (path : Bytes) : Bytes :=
  if isAbsolutePath path then path else [47, 115] ++ [47] ++ path

/-- Directory::open(dir, "", dirsOnly = false) + read until the end: (name, isDir) in readdir order.
    A symbolic link is reported as directory when `stat` says so. -/
def dirList (fs : Fs) (dir : Bytes) : Option (List (Name × Bool)) :=
  match sysReaddir fs (if dir = [] then [46] else dir) with
  | .error _ => none
  | .ok (_, ents) =>
    some (ents.map (fun (n, e) =>
      match e with
      | .dir => (n, true)
      | .link _ => (n, dirExists fs ((if dir = [] then [] else dir ++ [47]) ++ n))
      | .file _ => (n, false)))


/-- the state-changing operations of the correspondence run (what a history consists of) -/
inductive FsOp
  | mkdir (path : Bytes)
  | mkfile (path data : Bytes)
  | symlink (target path : Bytes)
  | create (path : Bytes) (fault : Option Nat)
  | rmdir (path : Bytes) (recursive : Bool)
  | purge (path : Bytes) (recursive : Bool)
  | unlink (path : Bytes)
  | rename (frm to : Bytes) (failIfExists : Bool)
  | copy (src dst : Bytes) (failIfExists : Bool) (fault : SfFault)
  | file (path : Bytes) (flags : Nat) (script : List FileOp)

/-- raw creat + write used for set-up -/
def mkfile (fs : Fs) (path data : Bytes) : Fs × Bool :=
  match sysOpen fs path { acc := .wronly, creat := true, trunc := true } with
  | (fs', .error _) => (fs', false)
  | (fs', .ok fd) => ((sysWrite fs' fd data).1, true)

/-- File f; f.open(path, flags); script; f.close() -/
def fileSession (fs : Fs) (path : Bytes) (flags : Nat) (script : List FileOp) : Fs × Option (List FileOut) :=
  match fileOpen fs path flags with
  | (fs', none) => (fs', none)
  | (fs', some fd) => let r := runOps fs' fd script; (r.1, some r.2.2)

/-- the world after one operation -/
def fsApply (fs : Fs) : FsOp → Fs
  | .mkdir p => (sysMkdir fs p).1
  | .mkfile p d => (mkfile fs p d).1
  | .symlink t p => (sysSymlink fs t p).1
  | .create p fault => (dirCreateTop fs p fault).1
  | .rmdir p r => (dirUnlinkTop fs p r).1
  | .purge p r => (dirPurge fs p r).1
  | .unlink p => (fileUnlink fs p).1
  | .rename a b f => (fileRename fs a b f).1
  | .copy a b f ft => (fileCopy fs a b f ft).1
  | .file p fl sc => (fileSession fs p fl sc).1

/-- the world every history of the correspondence run starts from: `/s` (scratch, working directory) and the
    outside sentinel `/o` (file `of` = "OUT", directory `od` with file `x` = "X") -/
def initFs : Fs :=
  ⟨[([[115]], .dir), ([[111]], .dir), ([[111], [111, 102]], .file [79, 85, 84]),
    ([[111], [111, 100]], .dir), ([[111], [111, 100], [120]], .file [88])]⟩


/-- the world after a history -/
def fsRun (fs : Fs) (ops : List FsOp) : Fs := ops.foldl fsApply fs

end Nstd.Path
