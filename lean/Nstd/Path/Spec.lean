import Nstd.Path.Model
/-
  Specification side of property C19 (paths): what a path string DENOTES.
  A stack machine reads the separator-free pieces of the string from left to right:
  `.` and empty pieces do nothing, `..` pops a component (or, with nothing to pop, counts one
  more leading `..`), any other piece is pushed.  The denotation is
      (absolute?, number of leading `..`, components)
  with the components kept as a stack: INNERMOST (last) component FIRST.
  `..` above the root of an absolute path is kept (File::simplifyPath("/../a") = "/../a" is what
  the library's unit test documents), i.e. the equivalence is the finer, purely lexical one.
-/
namespace Nstd.Path

structure Den where
  abs : Bool
  ups : Nat
  comps : List Bytes
deriving DecidableEq, Repr

def dstep (d : Den) (c : Bytes) : Den :=
  if c = [46] then d
  else if c = dotdot then
    match d.comps with
    | [] => { d with ups := d.ups + 1 }
    | _ :: rest => { d with comps := rest }
  else { d with comps := c :: d.comps }

/-- the denotation of a path string -/
def denote (p : Bytes) : Den := (chunks p).foldl dstep ⟨startsWithSlash p, 0, []⟩

/-- a component name: non-empty, free of separators, neither `.` nor `..` -/
def IsName (c : Bytes) : Prop := c ≠ [] ∧ (∀ x ∈ c, isSep x = false) ∧ c ≠ [46] ∧ c ≠ dotdot

def Den.Valid (d : Den) : Prop := ∀ c ∈ d.comps, IsName c

/-- canonical text of a stack of items (innermost first) -/
def renderItems (abs : Bool) : List Bytes → Bytes
  | [] => []
  | c :: rest => push abs (renderItems abs rest) c

/-- canonical text of a denotation: `/`-joined `..`s and components, a leading `/` when absolute;
    the empty relative denotation is the empty string, the root is `/` -/
def render (d : Den) : Bytes :=
  let r := renderItems d.abs (d.comps ++ List.replicate d.ups dotdot)
  if r = [] ∧ d.abs = true then [47] else r

/-- path concatenation `a / b` (an empty `a` is the current directory) -/
def join (a b : Bytes) : Bytes := if a = [] then b else a ++ 47 :: b

/-- a relative path from `f` to `t` exists lexically: both absolute or both relative, and `f` does not
    start with more `..` than `t` (leaving such a directory would need its name) -/
def RelExists (f t : Bytes) : Prop := (denote f).abs = (denote t).abs ∧ (denote f).ups ≤ (denote t).ups

instance (f t : Bytes) : Decidable (RelExists f t) := by unfold RelExists; exact inferInstance

end Nstd.Path
