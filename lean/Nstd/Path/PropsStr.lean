import Nstd.Path.Lemmas
import Nstd.Path.Props
/-
  Property C19, path part, extension round: full declarative specifications of the decomposition functions of
  File.cpp — the decomposition they return is the ONLY one of its shape (for all strings, both separators).
-/
namespace Nstd.Path

/-- getDirectoryName / getBaseName are THE split at the last separator: whenever `p = d ++ [s] ++ b` with `s` a
    separator (`/` or `\`) and `b` separator-free, then getDirectoryName p = d and getBaseName p = b — whatever `d`
    contains (empty, trailing separators, drive prefixes …). -/
theorem dir_base_unique (d b : Bytes) (s : Nat) (hs : isSep s = true) (hb : ∀ x ∈ b, isSep x = false) :
    getDirectoryName (d ++ s :: b) = d ∧ getBaseName (d ++ s :: b) [] = b := by
  unfold getDirectoryName getBaseName afterLastSep
  rw [splitLast_append d s b hs hb]
  simp

/-- … and a string without any separator is its own base name, with directory name "." -/
theorem dir_base_no_separator (p : Bytes) (h : ∀ x ∈ p, isSep x = false) :
    getDirectoryName p = [46] ∧ getBaseName p [] = p := by
  unfold getDirectoryName getBaseName afterLastSep
  rw [splitLast_none.mpr h]
  simp

/-- getStem / getExtension are THE split of the base name at its last dot: whenever the base name is
    `st ++ "." ++ e` with `e` dot-free, then getStem p = st and getExtension p = e; a base name without a dot is its
    own stem and has the empty extension. -/
theorem stem_ext_unique (p st e : Bytes) (hbase : getBaseName p [] = st ++ 46 :: e) (he : ∀ x ∈ e, isDot x = false) :
    getStem p [] = st ∧ getExtension p = e := by
  have hb : afterLastSep p = st ++ 46 :: e := by simpa [getBaseName] using hbase
  unfold getStem getExtension
  simp only [ne_eq, not_true_eq_false, if_false]
  rw [hb, splitLast_append st 46 e (by decide) he]
  simp

theorem stem_ext_no_dot (p : Bytes) (h : ∀ x ∈ getBaseName p [], isDot x = false) :
    getStem p [] = getBaseName p [] ∧ getExtension p = [] := by
  have hb : getBaseName p [] = afterLastSep p := by simp [getBaseName]
  rw [hb] at h ⊢
  unfold getStem getExtension
  simp only [ne_eq, not_true_eq_false, if_false]
  rw [splitLast_none.mpr h]
  simp

/-- getStem(file, extension) with a non-empty extension IS getBaseName(file, extension) (what that strips:
    `base_ext_prefix` in Props.lean) -/
theorem stem_with_extension (p e : Bytes) (hne : e ≠ []) : getStem p e = getBaseName p e := by
  simp [getStem, hne]

theorem suffix_iff_drop (e b : Bytes) :
    e <:+ b ↔ b.length ≥ e.length ∧ b.drop (b.length - e.length) = e := by
  constructor
  · rintro ⟨t, rfl⟩
    refine ⟨by simp, ?_⟩
    have : (t ++ e).length - e.length = t.length := by simp
    rw [this, List.drop_left]
  · rintro ⟨_, h2⟩
    refine ⟨b.take (b.length - e.length), ?_⟩
    conv => rhs; rw [← List.take_append_drop (b.length - e.length) b]
    rw [h2]

theorem suffix_dot_iff (e b : Bytes) :
    (46 :: e) <:+ b ↔ b.length ≥ e.length + 1 ∧ b[b.length - (e.length + 1)]? = some 46 ∧
      b.drop (b.length - e.length) = e := by
  constructor
  · rintro ⟨t, rfl⟩
    refine ⟨by simp, ?_, ?_⟩
    · have : (t ++ 46 :: e).length - (e.length + 1) = t.length := by simp
      rw [this]; simp
    · have h1 : (t ++ 46 :: e).length - e.length = (t ++ [46]).length := by simp; omega
      have h2 : t ++ 46 :: e = (t ++ [46]) ++ e := by simp
      rw [h1, h2, List.drop_left]
  · rintro ⟨h3, h4, h5⟩
    rw [suffix_iff_drop]
    refine ⟨by simp; omega, ?_⟩
    have hlt : b.length - (e.length + 1) < b.length := by omega
    have hl : (46 :: e).length = e.length + 1 := by simp
    rw [hl, List.drop_eq_getElem_cons hlt]
    have : b[b.length - (e.length + 1)] = 46 := by
      have := List.getElem?_eq_getElem hlt
      rw [this] at h4
      exact Option.some.inj h4
    rw [this]
    congr 1
    have : b.length - (e.length + 1) + 1 = b.length - e.length := by omega
    rw [this, h5]

/-- getBaseName(file, extension) / getStem(file, extension) with a non-empty extension, exactly (B = the base name
    without extension argument; `<:+` = is a suffix of): an extension that starts with a dot is cut off exactly when B
    ends with it; any other extension `e` is cut off, together with the dot before it, exactly when B ends with
    "." ++ e; in every other case B is returned unchanged. -/
theorem base_ext_spec (p e : Bytes) (hne : e ≠ []) :
    getStem p e = getBaseName p e ∧
    (e.head? = some 46 →
      (e <:+ getBaseName p [] → getBaseName p e ++ e = getBaseName p []) ∧
      (¬ e <:+ getBaseName p [] → getBaseName p e = getBaseName p [])) ∧
    (e.head? ≠ some 46 →
      ((46 :: e) <:+ getBaseName p [] → getBaseName p e ++ 46 :: e = getBaseName p []) ∧
      (¬ (46 :: e) <:+ getBaseName p [] → getBaseName p e = getBaseName p [])) := by
  have hb : getBaseName p [] = afterLastSep p := by simp [getBaseName]
  have hel : e.length ≠ 0 := by intro h; exact hne (List.eq_nil_of_length_eq_zero h)
  refine ⟨by simp [getStem, hne], ?_, ?_⟩
  · intro hh
    rw [hb, suffix_iff_drop]
    unfold getBaseName
    simp only [hel, if_false, hh, if_true]
    constructor
    · intro h
      rw [if_pos h]
      conv => rhs; rw [← List.take_append_drop ((afterLastSep p).length - e.length) (afterLastSep p)]
      rw [h.2]
    · intro h; rw [if_neg h]
  · intro hh
    rw [hb, suffix_dot_iff]
    unfold getBaseName
    simp only [hel, if_false, hh]
    constructor
    · intro h
      rw [if_pos h]
      have hs := (suffix_dot_iff e (afterLastSep p)).mpr h
      rw [suffix_iff_drop] at hs
      have hl : (46 :: e).length = e.length + 1 := by simp
      rw [hl] at hs
      conv => rhs; rw [← List.take_append_drop ((afterLastSep p).length - (e.length + 1)) (afterLastSep p)]
      rw [hs.2]
    · intro h; rw [if_neg h]

/-- root-level paths: a string that consists of ONE separator (either kind) followed by a separator-free name `b`
    ("/file", "\\x", "/") has the EMPTY directory name and base name `b` — the separator at index 0 is found. -/
theorem root_level_split (s : Nat) (b : Bytes) (hs : isSep s = true) (hb : ∀ x ∈ b, isSep x = false) :
    getDirectoryName (s :: b) = [] ∧ getBaseName (s :: b) [] = b := by
  simpa using dir_base_unique [] b s hs hb

/-- directory name + "/" + base name is lexically the same path as the argument: simplifyPath cannot tell them
    apart — for every string, root-level paths and both separators included -/
theorem dir_base_simplify (p : Bytes) :
    simplifyPath (getDirectoryName p ++ 47 :: getBaseName p []) = simplifyPath p :=
  (simplify_eq_iff _ _).mpr (dir_base_denote p)

/-- … and byte for byte when the last separator of the argument is a `/` -/
theorem dir_base_exact (d b : Bytes) (hb : ∀ x ∈ b, isSep x = false) :
    getDirectoryName (d ++ 47 :: b) ++ 47 :: getBaseName (d ++ 47 :: b) [] = d ++ 47 :: b := by
  obtain ⟨h1, h2⟩ := dir_base_unique d b 47 (by decide) hb
  rw [h1, h2]

/-! non-vacuity -/
example : getDirectoryName ([99, 58, 92, 97] ++ 47 :: [98, 46, 99]) = [99, 58, 92, 97] := (dir_base_unique _ _ 47 (by decide) (by decide)).1
example : getBaseName [97, 47, 98] [] = [] ++ 46 :: [] → False := by decide
example : getDirectoryName [47, 102] = [] ∧ getBaseName [47, 102] [] = [102] := root_level_split 47 [102] (by decide) (by decide)
example : getDirectoryName [47] = [] ∧ getBaseName [47] [] = [] := root_level_split 47 [] (by decide) (by simp)
example : getBaseName [97, 46, 116, 120, 116] [116, 120, 116] = [97] := by decide

end Nstd.Path
