import Nstd.Path.Lemmas
/-
  Property C19, path part, extension round: full declarative specifications of the decomposition functions of
  File.cpp — the decomposition they return is the ONLY one of its shape (for all strings, both separators).
-/
namespace Nstd.Path

/-- getDirectoryName / getBaseName are THE split at the last separator: whenever `p = d ++ [s] ++ b` with `s` a
    separator (`/` or `\`) and `b` separator-free, then getDirectoryName p = d and getBaseName p = b — whatever `d`
    contains (empty, trailing separators, drive prefixes …). -/
theorem dir_base_unique (d b : Bytes) (s : Nat) (hs : isSep s = true) (hb : ∀ x ∈ b, isSep x = false) :
    getDirectoryName (d ++ s :: b) = d ∧ getBaseName (d ++ s :: b) [] = b := by
  unfold getDirectoryName getBaseName afterLastSep
  rw [splitLast_append d s b hs hb]
  simp

/-- … and a string without any separator is its own base name, with directory name "." -/
theorem dir_base_no_separator (p : Bytes) (h : ∀ x ∈ p, isSep x = false) :
    getDirectoryName p = [46] ∧ getBaseName p [] = p := by
  unfold getDirectoryName getBaseName afterLastSep
  rw [splitLast_none.mpr h]
  simp

/-- getStem / getExtension are THE split of the base name at its last dot: whenever the base name is
    `st ++ "." ++ e` with `e` dot-free, then getStem p = st and getExtension p = e; a base name without a dot is its
    own stem and has the empty extension. -/
theorem stem_ext_unique (p st e : Bytes) (hbase : getBaseName p [] = st ++ 46 :: e) (he : ∀ x ∈ e, isDot x = false) :
    getStem p [] = st ∧ getExtension p = e := by
  have hb : afterLastSep p = st ++ 46 :: e := by simpa [getBaseName] using hbase
  unfold getStem getExtension
  simp only [ne_eq, not_true_eq_false, if_false]
  rw [hb, splitLast_append st 46 e (by decide) he]
  simp

theorem stem_ext_no_dot (p : Bytes) (h : ∀ x ∈ getBaseName p [], isDot x = false) :
    getStem p [] = getBaseName p [] ∧ getExtension p = [] := by
  have hb : getBaseName p [] = afterLastSep p := by simp [getBaseName]
  rw [hb] at h ⊢
  unfold getStem getExtension
  simp only [ne_eq, not_true_eq_false, if_false]
  rw [splitLast_none.mpr h]
  simp

/-- getStem(file, extension) with a non-empty extension IS getBaseName(file, extension) (what that strips:
    `base_ext_prefix` in Props.lean) -/
theorem stem_with_extension (p e : Bytes) (hne : e ≠ []) : getStem p e = getBaseName p e := by
  simp [getStem, hne]

/-! non-vacuity -/
example : getDirectoryName ([99, 58, 92, 97] ++ 47 :: [98, 46, 99]) = [99, 58, 92, 97] := (dir_base_unique _ _ 47 (by decide) (by decide)).1
example : getBaseName [97, 47, 98] [] = [] ++ 46 :: [] → False := by decide

end Nstd.Path
