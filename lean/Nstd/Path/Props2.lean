import Nstd.Path.Glob
/-
  Property C19, extension round: Directory::open(dir, pattern, dirsOnly) / Directory::read — wildcard matching.
  (File-system theorems of the round: Nstd/Path/FsProps2.lean.)
-/
namespace Nstd.Path

/-- The declarative meaning of a pattern: `Glob eqv pattern name` holds exactly when the name can be cut into one
    piece per pattern byte — any piece for `*`, exactly one byte for `?`, exactly one `eqv`-equivalent byte for
    every other pattern byte. -/
theorem glob_is_segmentation (eqv : Nat → Nat → Prop) (pattern name : Bytes) :
    Glob eqv pattern name ↔ ∃ pieces : List Bytes, Seg eqv pattern pieces ∧ pieces.flatten = name :=
  glob_iff_seg pattern name

/-- The hand-written matcher of Directory.cpp (`PatternMatcher::szWildMatch7`, used by Directory::read in the
    _WIN32 branch; single back-track point, goto structure) decides the declarative wildcard semantics for ALL
    patterns and names: `*` = any byte string, `?` = one byte, every other byte = itself up to
    String::toLowerCase. -/
theorem szWildMatch7_is_glob (lower : Nat → Nat) (pattern name : Bytes) :
    szWildMatch7 lower pattern name = true ↔ Glob (eqvLower lower) pattern name := by
  unfold szWildMatch7
  have := wildF_spec lower (pattern.length + name.length + 1) false pattern name (by omega)
  simpa using this

/-- … and its loop terminates: every round returns, moves the pattern anchor forward or moves the name anchor
    forward, so |pattern| + |name| + 1 rounds are enough — with ANY larger number of rounds the answer is the same. -/
theorem szWildMatch7_terminates (lower : Nat → Nat) (pattern name : Bytes) (fuel : Nat)
    (h : pattern.length + name.length < fuel) :
    wildF lower fuel false pattern name = szWildMatch7 lower pattern name := by
  have h1 := wildF_spec lower fuel false pattern name h
  have h2 := szWildMatch7_is_glob lower pattern name
  simp only [Bool.false_eq_true, if_false] at h1
  cases ha : wildF lower fuel false pattern name <;> cases hb : szWildMatch7 lower pattern name <;> simp_all

/-- The model of libc `fnmatch(pattern, name, 0)` that Directory::read (POSIX branch) is run against decides the
    same declarative semantics with byte equality (patterns without `[` and `\`, which the run never uses). -/
theorem fnmatch_model_is_glob (pattern name : Bytes) :
    fnmatchM pattern name = true ↔ Glob (fun a b => a = b) pattern name :=
  fnmatchM_iff pattern name

/-- Both matchers agree on names and patterns without letters to fold: for a `lower` that is injective on the
    bytes involved (here: the identity), szWildMatch7 = fnmatch. -/
theorem szWildMatch7_eq_fnmatch (pattern name : Bytes) :
    szWildMatch7 id pattern name = fnmatchM pattern name := by
  have h1 := szWildMatch7_is_glob id pattern name
  have h2 := fnmatch_model_is_glob pattern name
  have he : eqvLower id = (fun a b => a = b) := by
    funext a b; simp [eqvLower]; exact ⟨fun h => h.symm, fun h => h.symm⟩
  rw [he] at h1
  cases ha : szWildMatch7 id pattern name <;> cases hb : fnmatchM pattern name <;> simp_all

/-- the assumption of the model of szWildMatch7 about String::toLowerCase (a name byte never folds to the folded
    terminator) holds for the ASCII folding the driver uses -/
theorem lowerAscii_nul (x : Nat) (hx : x ≠ 0) : lowerAscii x ≠ lowerAscii 0 := by
  unfold lowerAscii
  by_cases h : 65 ≤ x ∧ x ≤ 90
  · simp [h]
  · simp [h]; exact hx

/-! non-vacuity / samples -/
example : szWildMatch7 lowerAscii [42, 46, 84, 88, 84] [97, 46, 98, 46, 116, 120, 116] = true := by decide   -- "*.TXT" ~ "a.b.txt"
example : szWildMatch7 lowerAscii [97, 42, 98, 63] [97, 98, 98, 98] = true := by decide                      -- "a*b?" ~ "abbb"
example : szWildMatch7 lowerAscii [97, 42, 98, 63] [97, 98, 98] = true := by decide
example : szWildMatch7 lowerAscii [97, 42, 98, 63] [97, 98] = false := by decide
example : fnmatchM [42, 46, 84, 88, 84] [97, 46, 98, 46, 116, 120, 116] = false := by rw [← szWildMatch7_eq_fnmatch]; decide                  -- fnmatch is case sensitive
example : Glob (fun a b => a = b) [42, 98] [97, 98] := Glob.starS (Glob.star0 (Glob.lit (by decide) (by decide) rfl Glob.nil))

end Nstd.Path
