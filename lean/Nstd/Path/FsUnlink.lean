import Nstd.Path.FsFail
import Nstd.Path.FsCreate
import Nstd.Path.Lemmas
/-
  Directory::unlink: it only removes entries of the tree rooted at the given directory (never follows a
  symbolic link out of it), and with a well-formed world it removes exactly that tree.
-/
namespace Nstd.Path

/-- the directory a relative / absolute path string starts from -/
def start0 (path : Bytes) : CPath := if startsWith47 path then [] else cwd

/-- walking the components `cs` from `start` only meets real directories (no link, no `.`/`..`) -/
def PlainDirs (fs : Fs) : CPath → List Name → Prop
  | _, [] => True
  | start, c :: rest => c ≠ [46] ∧ c ≠ dotdot ∧ fs.get (start ++ [c]) = some .dir ∧ PlainDirs fs (start ++ [c]) rest

/-- `path` is a plain path whose parent chain consists of real directories; its last component `n` (at
    canonical path `d`) may be anything: missing, file, link or directory -/
def PlainParent (fs : Fs) (path : Bytes) (d : CPath) : Prop :=
  path ≠ [] ∧ ∃ cs n, kchunks path = cs ++ [n] ∧ PlainDirs fs (start0 path) cs ∧ n ≠ [46] ∧ n ≠ dotdot ∧
    d = start0 path ++ cs ++ [n]

def Sub (fs' fs : Fs) : Prop := ∀ x, x ∈ fs'.ents → x ∈ fs.ents

theorem Sub.refl (fs : Fs) : Sub fs fs := fun _ h => h
theorem Sub.trans {a b c : Fs} (h1 : Sub a b) (h2 : Sub b c) : Sub a c := fun x h => h2 x (h1 x h)
theorem del_sub (fs : Fs) (p : CPath) : Sub (fs.del p) fs := by
  intro x hx; simp only [Fs.del, List.mem_filter] at hx; exact hx.1
theorem NamesOk.sub {fs fs' : Fs} (h : NamesOk fs) (hs : Sub fs' fs) : NamesOk fs' := fun x hx => h x (hs x hx)

theorem plain_walk_last (fs : Fs) (k : CPath → List Name → Bool → Res) : ∀ (cs : List Name) (start : CPath) (n : Name),
    PlainDirs fs start cs → n ≠ [46] → n ≠ dotdot →
    walkAux fs k start (cs ++ [n]) false =
      match fs.get (start ++ cs ++ [n]) with
      | none => .missing (start ++ cs) n
      | some e => .found (start ++ cs ++ [n]) e := by
  intro cs
  induction cs with
  | nil =>
    intro start n _ h1 h2
    simp only [List.nil_append, List.append_nil]
    rw [walkAux_cons, if_neg h1, if_neg h2]
    cases hg : fs.get (start ++ [n]) with
    | none => simp
    | some e => cases e <;> simp [walkAux]
  | cons c rest ih =>
    intro start n hp h1 h2
    obtain ⟨hc1, hc2, hg, hrest⟩ := hp
    rw [List.cons_append, walkAux_cons, if_neg hc1, if_neg hc2]
    simp only [hg]
    rw [ih (start ++ [c]) n hrest h1 h2]
    simp [List.append_assoc]

theorem plain_walk_dir (fs : Fs) (k : CPath → List Name → Bool → Res) : ∀ (cs : List Name) (start : CPath) (fo : Bool),
    PlainDirs fs start cs → walkAux fs k start cs fo = .found (start ++ cs) .dir := by
  intro cs
  induction cs with
  | nil => intro start fo _; simp [walkAux]
  | cons c rest ih =>
    intro start fo hp
    obtain ⟨hc1, hc2, hg, hrest⟩ := hp
    rw [walkAux_cons, if_neg hc1, if_neg hc2]
    simp only [hg]
    rw [ih (start ++ [c]) fo hrest]
    simp [List.append_assoc]

theorem plainDirs_snoc (fs : Fs) : ∀ (cs : List Name) (start : CPath) (n : Name),
    PlainDirs fs start cs → n ≠ [46] → n ≠ dotdot → fs.get (start ++ cs ++ [n]) = some .dir →
    PlainDirs fs start (cs ++ [n]) := by
  intro cs
  induction cs with
  | nil => intro start n _ h1 h2 hg; simp only [List.append_nil] at hg; exact ⟨h1, h2, hg, trivial⟩
  | cons c rest ih =>
    intro start n hp h1 h2 hg
    obtain ⟨hc1, hc2, hgc, hrest⟩ := hp
    refine ⟨hc1, hc2, hgc, ih (start ++ [c]) n hrest h1 h2 ?_⟩
    simpa [List.append_assoc] using hg

theorem plainDirs_congr (fs fs' : Fs) : ∀ (cs : List Name) (start : CPath),
    (∀ k, k ≤ cs.length → k ≥ 1 → fs'.get (start ++ cs.take k) = fs.get (start ++ cs.take k)) →
    PlainDirs fs start cs → PlainDirs fs' start cs := by
  intro cs
  induction cs with
  | nil => intro _ _ _; trivial
  | cons c rest ih =>
    intro start hag hp
    obtain ⟨hc1, hc2, hg, hrest⟩ := hp
    refine ⟨hc1, hc2, ?_, ih (start ++ [c]) ?_ hrest⟩
    · have := hag 1 (by simp) (by omega)
      simp only [List.take_succ_cons, List.take_zero] at this
      rw [this]; exact hg
    · intro k hk1 hk2
      have := hag (k + 1) (by simp; omega) (by omega)
      simp only [List.take_succ_cons] at this
      simpa [List.append_assoc] using this

/-- resolution of a plain-parent path without following its last component -/
theorem resolve_plainParent (fs : Fs) (path : Bytes) (d : CPath) (h : PlainParent fs path d) :
    resolve fs path false =
      match fs.get d with
      | none => .missing d.dropLast (d.getLast?.getD [])
      | some e => .found d e := by
  obtain ⟨hne, cs, n, hch, hpl, hn1, hn2, hd⟩ := h
  unfold resolve
  rw [if_neg hne, hch]
  have hw : ∀ fuel, walk fs fuel (start0 path) (cs ++ [n]) false =
      match fs.get (start0 path ++ cs ++ [n]) with
      | none => .missing (start0 path ++ cs) n
      | some e => .found (start0 path ++ cs ++ [n]) e := by
    intro fuel
    cases fuel with
    | zero => exact plain_walk_last fs _ cs _ n hpl hn1 hn2
    | succ f => exact plain_walk_last fs _ cs _ n hpl hn1 hn2
  have := hw walkFuel
  unfold start0 at this hd
  rw [this, hd]
  cases fs.get ((if startsWith47 path = true then [] else cwd) ++ cs ++ [n]) with
  | none => simp
  | some e => rfl


theorem plainParent_ne_nil {fs : Fs} {path : Bytes} {d : CPath} (h : PlainParent fs path d) : d ≠ [] := by
  obtain ⟨_, cs, n, _, _, _, _, hd⟩ := h
  rw [hd]; simp

theorem rmdir_plain (fs : Fs) (path : Bytes) (d : CPath) (h : PlainParent fs path d) :
    sysRmdir fs path =
      match fs.get d with
      | some .dir =>
        if d.isPrefixOf cwd then (fs, .error .einval)
        else if fs.children d ≠ [] then (fs, .error .enotempty) else (fs.del d, .ok ())
      | some _ => (fs, .error .enotdir)
      | none => (fs, .error .enoent) := by
  have hld : lastDot path = none := by
    obtain ⟨_, cs, n, hch, _, hn1, hn2, _⟩ := h
    unfold lastDot
    rw [hch]
    simp [hn1, hn2]
  unfold sysRmdir
  rw [hld]
  simp only
  unfold sysRmdirCore
  rw [resolve_plainParent fs path d h]
  cases fs.get d with
  | none => rfl
  | some e => cases e <;> rfl

theorem unlink_plain (fs : Fs) (path : Bytes) (d : CPath) (h : PlainParent fs path d) :
    sysUnlink fs path =
      match fs.get d with
      | some .dir => (fs, .error .eisdir)
      | some _ => (fs.del d, .ok ())
      | none => (fs, .error .enoent) := by
  unfold sysUnlink
  rw [resolve_plainParent fs path d h]
  cases fs.get d with
  | none => rfl
  | some e => cases e <;> rfl

theorem readdir_plain (fs : Fs) (path : Bytes) (d : CPath) (h : PlainParent fs path d) (hg : fs.get d = some .dir) :
    sysReaddir fs path = .ok (d, fs.children d) := by
  obtain ⟨hne, cs, n, hch, hpl, hn1, hn2, hd⟩ := h
  have hpl2 : PlainDirs fs (start0 path) (cs ++ [n]) := plainDirs_snoc fs cs _ n hpl hn1 hn2 (by rw [← hd]; exact hg)
  unfold sysReaddir resolve
  rw [if_neg hne, hch]
  have hw : walk fs walkFuel (start0 path) (cs ++ [n]) true = .found (start0 path ++ (cs ++ [n])) .dir := by
    cases walkFuel with
    | zero => exact plain_walk_dir fs _ _ _ _ hpl2
    | succ f => exact plain_walk_dir fs _ _ _ _ hpl2
  unfold start0 at hw hd
  rw [hw]
  simp only
  rw [← List.append_assoc, ← hd]

/-- the path string Directory::unlink builds for an entry of a plain directory is plain again -/
theorem plainParent_child (fs : Fs) (dir : Bytes) (d : CPath) (n : Name) (h : PlainParent fs dir d)
    (hg : fs.get d = some .dir) (hn : KName n) : PlainParent fs (dir ++ [47] ++ n) (d ++ [n]) := by
  obtain ⟨hne, cs, n0, hch, hpl, hn1, hn2, hd⟩ := h
  have hst : start0 (dir ++ [47] ++ n) = start0 dir := by
    unfold start0
    rw [List.append_assoc, startsWith47_append dir _ hne]
  refine ⟨by simp, cs ++ [n0], n, ?_, ?_, hn.2.2.1, hn.2.2.2, ?_⟩
  · rw [List.append_assoc, List.singleton_append, kchunks_append_sep dir 47 n (by decide), hch,
      kchunks_of_sepfree n hn.1 hn.2.1]
  · rw [hst]
    exact plainDirs_snoc fs cs _ n0 hpl hn1 hn2 (by rw [← hd]; exact hg)
  · rw [hst, hd]; simp [List.append_assoc]

theorem children_names (fs : Fs) (hok : NamesOk fs) (d : CPath) : ∀ x ∈ fs.children d, KName x.1 := by
  intro x hx
  simp only [Fs.children, List.mem_filterMap] at hx
  obtain ⟨y, hy, hyx⟩ := hx
  by_cases hp : d.isPrefixOf y.1 = true
  · rw [if_pos hp] at hyx
    cases hdr : y.1.drop d.length with
    | nil => simp [hdr] at hyx
    | cons n rest =>
      cases rest with
      | nil =>
        simp [hdr] at hyx
        rw [← hyx]
        apply hok y hy n
        have : n ∈ y.1.drop d.length := by rw [hdr]; simp
        exact List.mem_of_mem_drop this
      | cons _ _ => simp [hdr] at hyx
  · rw [if_neg hp] at hyx; simp at hyx

/-- `q` is not strictly inside the tree at `d` (it is `d` itself or lies elsewhere) -/
def NotInside (d q : CPath) : Prop := ¬ (d <+: q ∧ q ≠ d)

theorem get_del_other (fs : Fs) (p q : CPath) (hp : p ≠ []) (hq : q ≠ p) : (fs.del p).get q = fs.get q := by
  rw [get_del fs p q hp, if_neg hq]

theorem sysRmdirCore_sub (fs : Fs) (path : Bytes) : Sub (sysRmdirCore fs path).1 fs := by
  unfold sysRmdirCore
  cases resolve fs path false with
  | found p e =>
    cases e with
    | dir =>
      simp only
      by_cases h1 : p.isPrefixOf cwd = true
      · simp [h1]; exact Sub.refl fs
      · by_cases h2 : fs.children p ≠ []
        · simp [h1, h2]; exact Sub.refl fs
        · simp only [h1, h2, if_false]; exact del_sub fs p
    | file _ => exact Sub.refl fs
    | link _ => exact Sub.refl fs
  | missing _ _ => exact Sub.refl fs
  | err _ => exact Sub.refl fs


theorem sysRmdir_sub (fs : Fs) (path : Bytes) : Sub (sysRmdir fs path).1 fs := by
  rcases sysRmdir_cases fs path with h | ⟨e, h⟩
  · rw [h]; exact sysRmdirCore_sub fs path
  · rw [h]; exact Sub.refl fs

theorem sysUnlink_sub (fs : Fs) (path : Bytes) : Sub (sysUnlink fs path).1 fs := by
  unfold sysUnlink
  cases resolve fs path false with
  | found p e => cases e <;> first | exact Sub.refl fs | exact del_sub fs p
  | missing _ _ => exact Sub.refl fs
  | err _ => exact Sub.refl fs


/-- `fs'` arose from `fs` by removing entries only, all of them in the tree at `d` -/
structure Frame (d : CPath) (fs fs' : Fs) : Prop where
  sub : Sub fs' fs
  out : ∀ q, ¬ (d <+: q) → fs'.get q = fs.get q

theorem Frame.refl (d : CPath) (fs : Fs) : Frame d fs fs := ⟨Sub.refl fs, fun _ _ => rfl⟩

theorem frame_del (fs : Fs) (d : CPath) (hd : d ≠ []) : Frame d fs (fs.del d) :=
  ⟨del_sub fs d, fun q hq => get_del_other fs d q hd (fun h => hq (by rw [h]; exact List.prefix_refl _))⟩

theorem not_prefix_child (d q : CPath) (n : Name) (h : NotInside d q) : ¬ (d ++ [n] <+: q) := by
  intro hp
  apply h
  obtain ⟨t, ht⟩ := hp
  refine ⟨⟨[n] ++ t, by rw [← ht]; simp⟩, ?_⟩
  intro hq
  have := congrArg List.length ht
  rw [hq] at this
  simp at this

theorem plainParent_transfer (fs fs1 : Fs) (dir : Bytes) (d : CPath)
    (hag : ∀ q, NotInside d q → fs1.get q = fs.get q) (h : PlainParent fs dir d) : PlainParent fs1 dir d := by
  obtain ⟨hne, cs, n, hch, hpl, hn1, hn2, hd⟩ := h
  refine ⟨hne, cs, n, hch, ?_, hn1, hn2, hd⟩
  apply plainDirs_congr fs fs1 cs _ _ hpl
  intro k hk1 _
  apply hag
  intro hin
  obtain ⟨t, ht⟩ := hin.1
  have := congrArg List.length ht
  rw [hd] at this
  simp [List.length_take] at this
  omega

theorem fileUnlink_plain_frame (fs : Fs) (path : Bytes) (d : CPath) (h : PlainParent fs path d) :
    Frame d fs (fileUnlink fs path).1 := by
  unfold fileUnlink
  simp only
  rw [unlink_plain fs path d h]
  have hd := plainParent_ne_nil h
  cases fs.get d with
  | none => exact Frame.refl d fs
  | some e => cases e <;> first | exact Frame.refl d fs | exact frame_del fs d hd

/-- the loop over the entries of a plain directory only removes entries strictly inside it -/
theorem unlinkEntries_frame (rec : Fs → Bytes → Fs × Bool)
    (hrec : ∀ fs path d, NamesOk fs → PlainParent fs path d → Frame d fs (rec fs path).1)
    (dir : Bytes) (d : CPath) :
    ∀ (ents : List (Name × Entry)) (fs : Fs), (∀ x ∈ ents, KName x.1) → NamesOk fs → PlainParent fs dir d →
      fs.get d = some .dir →
      Sub (unlinkEntries rec (dir ++ [47]) fs ents).1 fs ∧
      ∀ q, NotInside d q → (unlinkEntries rec (dir ++ [47]) fs ents).1.get q = fs.get q := by
  intro ents
  induction ents with
  | nil => intro fs _ _ _ _; exact ⟨Sub.refl fs, fun _ _ => rfl⟩
  | cons x rest ih =>
    intro fs hnames hok hpp hg
    obtain ⟨n, e⟩ := x
    have hn : KName n := hnames (n, e) (List.mem_cons_self)
    have hrestn : ∀ y ∈ rest, KName y.1 := fun y hy => hnames y (List.mem_cons_of_mem _ hy)
    have hcp := plainParent_child fs dir d n hpp hg hn
    -- one step: fs1 differs from fs only inside d ++ [n]
    have step : ∀ fs1 : Fs, Frame (d ++ [n]) fs fs1 →
        (Sub fs1 fs ∧ ∀ q, NotInside d q → fs1.get q = fs.get q) ∧
        (Sub (unlinkEntries rec (dir ++ [47]) fs1 rest).1 fs ∧
          ∀ q, NotInside d q → (unlinkEntries rec (dir ++ [47]) fs1 rest).1.get q = fs.get q) := by
      intro fs1 hf
      have hag : ∀ q, NotInside d q → fs1.get q = fs.get q := fun q hq => hf.out q (not_prefix_child d q n hq)
      have hnd : NotInside d d := fun hh => hh.2 rfl
      have := ih fs1 hrestn (hok.sub hf.sub) (plainParent_transfer fs fs1 dir d hag hpp) (by rw [hag d hnd]; exact hg)
      exact ⟨⟨hf.sub, hag⟩, ⟨this.1.trans hf.sub, fun q hq => by rw [this.2 q hq, hag q hq]⟩⟩
    cases e with
    | dir =>
      simp only [unlinkEntries]
      have hf := hrec fs (dir ++ [47] ++ n) (d ++ [n]) hok hcp
      cases hr : rec fs (dir ++ [47] ++ n) with
      | mk fs1 ok =>
        rw [hr] at hf
        cases ok with
        | false => exact (step fs1 hf).1
        | true => exact (step fs1 hf).2
    | file dd =>
      simp only [unlinkEntries]
      have hf := fileUnlink_plain_frame fs (dir ++ [47] ++ n) (d ++ [n]) hcp
      cases hr : fileUnlink fs (dir ++ [47] ++ n) with
      | mk fs1 ok =>
        rw [hr] at hf
        cases ok with
        | false => exact (step fs1 hf).1
        | true => exact (step fs1 hf).2
    | link t =>
      simp only [unlinkEntries]
      have hf := fileUnlink_plain_frame fs (dir ++ [47] ++ n) (d ++ [n]) hcp
      cases hr : fileUnlink fs (dir ++ [47] ++ n) with
      | mk fs1 ok =>
        rw [hr] at hf
        cases ok with
        | false => exact (step fs1 hf).1
        | true => exact (step fs1 hf).2

theorem notInside_of_outside (d q : CPath) (h : ¬ (d <+: q)) : NotInside d q := fun hh => h hh.1

/-- Directory::unlink on a plain path only removes entries, and only in the tree rooted there -/
theorem dirUnlink_frame : ∀ (fuel : Nat) (recursive : Bool) (fs : Fs) (path : Bytes) (d : CPath),
    NamesOk fs → PlainParent fs path d → Frame d fs (dirUnlink fuel recursive fs path).1 := by
  intro fuel
  induction fuel with
  | zero => intro _ fs _ d _ _; exact Frame.refl d fs
  | succ fuel ih =>
    intro recursive fs path d hok hpp
    have hd := plainParent_ne_nil hpp
    simp only [dirUnlink]
    rw [rmdir_plain fs path d hpp]
    cases hg : fs.get d with
    | none => simp; exact Frame.refl d fs
    | some e =>
      cases e with
      | file _ => simp; exact Frame.refl d fs
      | link _ => simp; exact Frame.refl d fs
      | dir =>
        simp only
        by_cases hcw : d.isPrefixOf cwd = true
        · rw [if_pos hcw]; simp; exact Frame.refl d fs
        rw [if_neg hcw]
        by_cases hch : fs.children d ≠ []
        · rw [if_pos hch]
          simp only
          by_cases hc : recursive = false ∨ Errno.enotempty ≠ Errno.enotempty
          · rw [if_pos hc]; exact Frame.refl d fs
          · rw [if_neg hc, readdir_plain fs path d hpp hg]
            simp only
            have hloop := unlinkEntries_frame (dirUnlink fuel true) (fun a b c h1 h2 => ih true a b c h1 h2) path d
              (fs.children d) fs (children_names fs hok d) hok hpp hg
            cases hu : unlinkEntries (dirUnlink fuel true) (path ++ [47]) fs (fs.children d) with
            | mk fs2 ok =>
              rw [hu] at hloop
              have hf2 : Frame d fs fs2 := ⟨hloop.1, fun q hq => hloop.2 q (notInside_of_outside d q hq)⟩
              cases ok with
              | false => exact hf2
              | true =>
                simp only
                have hpp2 := plainParent_transfer fs fs2 path d hloop.2 hpp
                rw [rmdir_plain fs2 path d hpp2]
                have hfin : ∀ fs3 : Fs, Frame d fs2 fs3 → Frame d fs fs3 := fun fs3 h3 =>
                  ⟨h3.sub.trans hf2.sub, fun q hq => by rw [h3.out q hq, hf2.out q hq]⟩
                cases fs2.get d with
                | none => exact hfin _ (Frame.refl d fs2)
                | some e2 =>
                  cases e2 with
                  | file _ => exact hfin _ (Frame.refl d fs2)
                  | link _ => exact hfin _ (Frame.refl d fs2)
                  | dir =>
                    simp only
                    rw [if_neg hcw]
                    by_cases hch2 : fs2.children d ≠ []
                    · rw [if_pos hch2]; exact hfin _ (Frame.refl d fs2)
                    · rw [if_neg hch2]; exact hfin _ (frame_del fs2 d hd)
        · rw [if_neg hch]; exact frame_del fs d hd


/-! ### well-formed worlds: removing exactly the tree -/

theorem nodup_unique : ∀ (l : List (CPath × Entry)), (l.map (·.1)).Nodup →
    ∀ x ∈ l, ∀ y ∈ l, x.1 = y.1 → x = y := by
  intro l
  induction l with
  | nil => intro _ x hx; simp at hx
  | cons a rest ih =>
    intro hn x hx y hy hxy
    simp only [List.map_cons, List.nodup_cons] at hn
    simp only [List.mem_cons] at hx hy
    rcases hx with rfl | hx
    · rcases hy with rfl | hy
      · rfl
      · exact absurd (List.mem_map.mpr ⟨y, hy, hxy.symm⟩) hn.1
    · rcases hy with rfl | hy
      · exact absurd (List.mem_map.mpr ⟨x, hx, hxy⟩) hn.1
      · exact ih hn.2 x hx y hy hxy

/-- nothing is stored strictly below `p` -/
def Leaf (fs : Fs) (p : CPath) : Prop := ∀ x ∈ fs.ents, ¬ (p <+: x.1 ∧ x.1 ≠ p)

theorem lookup_some_mem : ∀ (l : List (CPath × Entry)) (p : CPath) (e : Entry), lookup p l = some e → (p, e) ∈ l := by
  intro l
  induction l with
  | nil => intro p e h; simp [lookup] at h
  | cons x rest ih =>
    intro p e h
    obtain ⟨k, v⟩ := x
    simp only [lookup] at h
    by_cases hk : k = p
    · simp [hk] at h; subst hk; subst h; simp
    · simp only [hk, if_false] at h
      exact List.mem_cons_of_mem _ (ih p e h)

theorem mem_lookup (fs : Fs) (hn : NoDupKeys fs) (p : CPath) (e : Entry) (h : (p, e) ∈ fs.ents) :
    lookup p fs.ents = some e := by
  cases hl : lookup p fs.ents with
  | none =>
    exfalso
    have : ∀ (l : List (CPath × Entry)), (p, e) ∈ l → lookup p l ≠ none := by
      intro l
      induction l with
      | nil => intro h; simp at h
      | cons x rest ih =>
        intro hm
        obtain ⟨k, v⟩ := x
        simp only [lookup]
        by_cases hk : k = p
        · simp [hk]
        · simp only [hk, if_false]
          simp only [List.mem_cons, Prod.mk.injEq] at hm
          rcases hm with hm | hm
          · exact absurd hm.1.symm hk
          · exact ih hm
    exact this fs.ents h hl
  | some e' =>
    have := lookup_some_mem fs.ents p e' hl
    have := nodup_unique fs.ents hn (p, e) h (p, e') this rfl
    simp only [Prod.mk.injEq, true_and] at this
    rw [this]

theorem del_wf (fs : Fs) (p : CPath) (hwf : WF fs) (hleaf : Leaf fs p) : WF (fs.del p) := by
  refine ⟨hwf.names.sub (del_sub fs p), ?_, ?_⟩
  · exact List.Nodup.sublist ((List.filter_sublist).map _) hwf.nodup
  · intro x hx k hk2 hk1
    have hx' := del_sub fs p x hx
    obtain ⟨y, hy, hy1, hy2⟩ := hwf.parents x hx' k hk2 hk1
    refine ⟨y, ?_, hy1, hy2⟩
    simp only [Fs.del, List.mem_filter, ne_eq, decide_eq_true_eq]
    refine ⟨hy, ?_⟩
    intro hyp
    apply hleaf x hx'
    rw [← hyp, hy1]
    refine ⟨List.take_prefix k x.1, ?_⟩
    intro h
    have := congrArg List.length h
    simp [List.length_take] at this
    omega

theorem leaf_of_no_children (fs : Fs) (hwf : WF fs) (p : CPath) (h : fs.children p = []) : Leaf fs p := by
  intro x hx hh
  obtain ⟨⟨t, ht⟩, hne⟩ := hh
  -- the entry of length |p|+1 above x is a child of p
  have hlen : p.length < x.1.length := by
    have := congrArg List.length ht
    simp at this
    cases t with
    | nil => simp at ht; exact absurd ht.symm hne
    | cons a b => simp at this; omega
  have key : ∃ y ∈ fs.ents, y.1 = x.1.take (p.length + 1) := by
    by_cases heq : p.length + 1 = x.1.length
    · exact ⟨x, hx, by rw [heq, List.take_length]⟩
    · obtain ⟨y, hy, hy1, _⟩ := hwf.parents x hx (p.length + 1) (by omega) (by omega)
      exact ⟨y, hy, hy1⟩
  obtain ⟨y, hy, hy1⟩ := key
  have hmem : ∃ z, z ∈ fs.children p := by
    have hy2 : y.1 = p ++ t.take 1 := by
      rw [hy1, ← ht, List.take_length_add_append]
    have hpy : p.isPrefixOf y.1 = true := by
      rw [List.isPrefixOf_iff_prefix, hy2]
      exact List.prefix_append _ _
    have hdrop : ∃ n, y.1.drop p.length = [n] := by
      rw [hy2, List.drop_left]
      cases t with
      | nil => simp at ht; exact absurd ht.symm hne
      | cons a b => exact ⟨a, by simp⟩
    obtain ⟨n, hn⟩ := hdrop
    refine ⟨(n, y.2), ?_⟩
    simp only [Fs.children, List.mem_filterMap]
    exact ⟨y, hy, by simp [hpy, hn]⟩
  obtain ⟨z, hz⟩ := hmem
  rw [h] at hz
  simp at hz


theorem get_some_mem (fs : Fs) (q : CPath) (e : Entry) (hq : q ≠ []) (h : fs.get q = some e) : (q, e) ∈ fs.ents := by
  unfold Fs.get at h
  rw [if_neg hq] at h
  exact lookup_some_mem fs.ents q e h

theorem leaf_of_nondir (fs : Fs) (hwf : WF fs) (p : CPath) (e : Entry) (hp : p ≠ []) (hg : fs.get p = some e)
    (he : e ≠ .dir) : Leaf fs p := by
  intro x hx hh
  obtain ⟨⟨t, ht⟩, hne⟩ := hh
  have hlen : p.length < x.1.length := by
    have := congrArg List.length ht
    simp at this
    cases t with
    | nil => simp at ht; exact absurd ht.symm hne
    | cons a b => simp at this; omega
  have hpl : 0 < p.length := List.length_pos_iff.mpr hp
  obtain ⟨y, hy, hy1, hy2⟩ := hwf.parents x hx p.length hlen hpl
  have hyp : y.1 = p := by rw [hy1, ← ht]; simp
  have : lookup p fs.ents = some .dir := by
    apply mem_lookup fs hwf.nodup
    rw [← hyp, ← hy2]; exact hy
  unfold Fs.get at hg
  rw [if_neg hp, this] at hg
  exact he (Option.some.inj hg).symm

theorem sysRmdirCore_wf (fs : Fs) (path : Bytes) (hwf : WF fs) : WF (sysRmdirCore fs path).1 := by
  unfold sysRmdirCore
  cases resolve fs path false with
  | found p e =>
    cases e with
    | dir =>
      simp only
      by_cases h1 : p.isPrefixOf cwd = true
      · simp [h1]; exact hwf
      · by_cases h2 : fs.children p ≠ []
        · simp [h1, h2]; exact hwf
        · simp only [h1, h2, if_false]
          exact del_wf fs p hwf (leaf_of_no_children fs hwf p (by simpa using h2))
    | file _ => exact hwf
    | link _ => exact hwf
  | missing _ _ => exact hwf
  | err _ => exact hwf


theorem sysRmdir_wf (fs : Fs) (path : Bytes) (hwf : WF fs) : WF (sysRmdir fs path).1 := by
  rcases sysRmdir_cases fs path with h | ⟨e, h⟩
  · rw [h]; exact sysRmdirCore_wf fs path hwf
  · rw [h]; exact hwf

theorem sysUnlink_wf (fs : Fs) (path : Bytes) (hwf : WF fs) : WF (sysUnlink fs path).1 := by
  unfold sysUnlink
  cases hr : resolve fs path false with
  | found p e =>
    have key : e ≠ .dir → WF (fs.del p) := by
      intro he
      unfold resolve at hr
      by_cases hne : path = []
      · simp [hne] at hr
      · rw [if_neg hne] at hr
        have := walk_found_nondir fs _ _ _ _ _ _ hr he
        exact del_wf fs p hwf (leaf_of_nondir fs hwf p e this.1 this.2 he)
    cases e with
    | dir => exact hwf
    | file d => exact key (by simp)
    | link t => exact key (by simp)
  | missing _ _ => exact hwf
  | err _ => exact hwf

theorem unlinkEntries_wf (rec : Fs → Bytes → Fs × Bool) (hrec : ∀ fs p, WF fs → WF (rec fs p).1) (pre_ : Bytes) :
    ∀ (ents : List (Name × Entry)) (fs : Fs), WF fs → WF (unlinkEntries rec pre_ fs ents).1 := by
  intro ents
  induction ents with
  | nil => intro fs h; exact h
  | cons x rest ih =>
    intro fs hwf
    obtain ⟨n, e⟩ := x
    have hfile : WF (fileUnlink fs (pre_ ++ n)).1 := by unfold fileUnlink; exact sysUnlink_wf fs _ hwf
    cases e with
    | dir =>
      simp only [unlinkEntries]
      have := hrec fs (pre_ ++ n) hwf
      cases hr : rec fs (pre_ ++ n) with
      | mk fs' ok =>
        rw [hr] at this
        cases ok with
        | false => exact this
        | true => exact ih fs' this
    | file d =>
      simp only [unlinkEntries]
      cases hr : fileUnlink fs (pre_ ++ n) with
      | mk fs' ok =>
        rw [hr] at hfile
        cases ok with
        | false => exact hfile
        | true => exact ih fs' hfile
    | link t =>
      simp only [unlinkEntries]
      cases hr : fileUnlink fs (pre_ ++ n) with
      | mk fs' ok =>
        rw [hr] at hfile
        cases ok with
        | false => exact hfile
        | true => exact ih fs' hfile

theorem dirUnlink_wf : ∀ (fuel : Nat) (recursive : Bool) (fs : Fs) (dir : Bytes), WF fs →
    WF (dirUnlink fuel recursive fs dir).1 := by
  intro fuel
  induction fuel with
  | zero => intro _ fs _ h; exact h
  | succ fuel ih =>
    intro recursive fs dir hwf
    simp only [dirUnlink]
    have h1 := sysRmdir_wf fs dir hwf
    cases hr : sysRmdir fs dir with
    | mk fs' r =>
      rw [hr] at h1
      cases r with
      | ok _ => exact h1
      | error e =>
        simp only
        by_cases hc : recursive = false ∨ e ≠ .enotempty
        · rw [if_pos hc]; exact h1
        · rw [if_neg hc]
          cases hd : sysReaddir fs' dir with
          | error _ => exact h1
          | ok pe =>
            obtain ⟨p, ents⟩ := pe
            simp only
            have h2 := unlinkEntries_wf (dirUnlink fuel true) (fun a b => ih true a b) (dir ++ [47]) ents fs' h1
            cases hu : unlinkEntries (dirUnlink fuel true) (dir ++ [47]) fs' ents with
            | mk fs'' ok =>
              rw [hu] at h2
              cases ok with
              | false => exact h2
              | true => exact sysRmdir_wf fs'' dir h2

/-- a successful rmdir of a plain directory in a well-formed world leaves nothing of its tree -/
theorem rmdir_ok_gone (X X' : Fs) (path : Bytes) (d : CPath) (hwf : WF X) (hpp : PlainParent X path d)
    (h : sysRmdir X path = (X', .ok ())) : ∀ q, d <+: q → X'.get q = none := by
  rw [rmdir_plain X path d hpp] at h
  have hd := plainParent_ne_nil hpp
  cases hg : X.get d with
  | none => simp [hg] at h
  | some e =>
    cases e with
    | file _ => simp [hg] at h
    | link _ => simp [hg] at h
    | dir =>
      simp only [hg] at h
      by_cases hcw : d.isPrefixOf cwd = true
      · simp [hcw] at h
      rw [if_neg hcw] at h
      by_cases hch : X.children d ≠ []
      · simp [hch] at h
      · rw [if_neg hch] at h
        simp only [Prod.mk.injEq, and_true] at h
        subst h
        have hleaf := leaf_of_no_children X hwf d (by simpa using hch)
        intro q hq
        rw [get_del X d q hd]
        by_cases hqd : q = d
        · simp [hqd]
        · rw [if_neg hqd]
          cases hgq : X.get q with
          | none => rfl
          | some eq =>
            exfalso
            have hqne : q ≠ [] := by
              intro h0; subst h0
              obtain ⟨t, ht⟩ := hq
              simp at ht
              exact hd ht.1
            exact hleaf (q, eq) (get_some_mem X q eq hqne hgq) ⟨hq, hqd⟩

/-- when Directory::unlink of a plain directory reports success in a well-formed world, nothing of the
    tree is left -/
theorem dirUnlink_true_gone (fuel : Nat) (recursive : Bool) (fs : Fs) (path : Bytes) (d : CPath)
    (hwf : WF fs) (hpp : PlainParent fs path d) (h : (dirUnlink fuel recursive fs path).2 = true) :
    ∀ q, d <+: q → (dirUnlink fuel recursive fs path).1.get q = none := by
  cases fuel with
  | zero => simp [dirUnlink] at h
  | succ fuel =>
    simp only [dirUnlink] at h ⊢
    cases hr : sysRmdir fs path with
    | mk fs' r =>
      rw [hr] at h
      cases r with
      | ok u => simp only; exact rmdir_ok_gone fs fs' path d hwf hpp hr
      | error e =>
        simp only at h ⊢
        -- the first rmdir failed: the world is unchanged
        have hfs' : fs' = fs := by
          have := rmdir_plain fs path d hpp
          rw [hr] at this
          cases hg : fs.get d with
          | none => simp [hg] at this; exact this.1
          | some e0 =>
            cases e0 with
            | file _ => simp [hg] at this; exact this.1
            | link _ => simp [hg] at this; exact this.1
            | dir =>
              simp only [hg] at this
              by_cases hcw : d.isPrefixOf cwd = true
              · simp [hcw] at this; exact this.1
              · by_cases hch : fs.children d ≠ []
                · simp [hcw, hch] at this; exact this.1
                · simp [hcw, hch] at this
        subst hfs'
        by_cases hc : recursive = false ∨ e ≠ .enotempty
        · rw [if_pos hc] at h; simp at h
        · rw [if_neg hc] at h ⊢
          cases hd : sysReaddir fs' path with
          | error _ => rw [hd] at h; simp at h
          | ok pe =>
            obtain ⟨p, ents⟩ := pe
            rw [hd] at h
            simp only at h ⊢
            -- the directory listing is that of d
            have hgd : fs'.get d = some .dir := by
              have := rmdir_plain fs' path d hpp
              rw [hr] at this
              cases hg : fs'.get d with
              | none => simp [hg] at this; exfalso; apply hc; right; rw [this]; simp
              | some e0 =>
                cases e0 with
                | dir => rfl
                | file _ => simp [hg] at this; exfalso; apply hc; right; rw [this]; simp
                | link _ => simp [hg] at this; exfalso; apply hc; right; rw [this]; simp
            have hrd := readdir_plain fs' path d hpp hgd
            rw [hd] at hrd
            simp only [Except.ok.injEq, Prod.mk.injEq] at hrd
            obtain ⟨_, hents⟩ := hrd
            subst hents
            have hloopf := unlinkEntries_frame (dirUnlink fuel true)
              (fun a b c h1 h2 => dirUnlink_frame fuel true a b c h1 h2) path d
              (fs'.children d) fs' (children_names fs' hwf.names d) hwf.names hpp hgd
            have hloopw := unlinkEntries_wf (dirUnlink fuel true) (fun a b hw => dirUnlink_wf fuel true a b hw)
              (path ++ [47]) (fs'.children d) fs' hwf
            cases hu : unlinkEntries (dirUnlink fuel true) (path ++ [47]) fs' (fs'.children d) with
            | mk fs2 ok =>
              rw [hu] at h hloopf hloopw
              cases ok with
              | false => simp at h
              | true =>
                simp only at h ⊢
                have hpp2 := plainParent_transfer fs' fs2 path d hloopf.2 hpp
                cases hr2 : sysRmdir fs2 path with
                | mk fs3 r3 =>
                  rw [hr2] at h
                  cases r3 with
                  | error _ => simp [isOk] at h
                  | ok u => simp only; exact rmdir_ok_gone fs2 fs3 path d hloopw hpp2 hr2


/-! ### success: the recursion reaches and removes everything -/

theorem child_path_eq (d y : CPath) (n : Name) (hp : d.isPrefixOf y = true) (hd : y.drop d.length = [n]) : y = d ++ [n] := by
  have := List.prefix_iff_eq_append.mp (List.isPrefixOf_iff_prefix.mp hp)
  rw [hd] at this
  exact this.symm

theorem mem_children (fs : Fs) (d : CPath) (n : Name) (e : Entry) :
    (n, e) ∈ fs.children d ↔ (d ++ [n], e) ∈ fs.ents := by
  simp only [Fs.children, List.mem_filterMap]
  constructor
  · rintro ⟨y, hy, hyx⟩
    by_cases hp : d.isPrefixOf y.1 = true
    · rw [if_pos hp] at hyx
      cases hdr : y.1.drop d.length with
      | nil => simp [hdr] at hyx
      | cons m rest =>
        cases rest with
        | nil =>
          simp [hdr] at hyx
          obtain ⟨h1, h2⟩ := hyx
          subst h1
          have := child_path_eq d y.1 m hp hdr
          rw [← this, ← h2]; exact hy
        | cons _ _ => simp [hdr] at hyx
    · rw [if_neg hp] at hyx; simp at hyx
  · intro h
    refine ⟨(d ++ [n], e), h, ?_⟩
    have hp : d.isPrefixOf (d ++ [n]) = true := List.isPrefixOf_iff_prefix.mpr (List.prefix_append _ _)
    simp [hp]

theorem children_distinct (fs : Fs) (hn : NoDupKeys fs) (d : CPath) :
    List.Pairwise (fun a b : Name × Entry => a.1 ≠ b.1) (fs.children d) := by
  unfold NoDupKeys List.Nodup at hn
  rw [List.pairwise_map] at hn
  unfold Fs.children
  apply List.Pairwise.filterMap _ _ hn
  intro x y hxy b hb b' hb' hbb
  apply hxy
  by_cases hp : d.isPrefixOf x.1 = true
  · by_cases hp' : d.isPrefixOf y.1 = true
    · rw [if_pos hp] at hb
      rw [if_pos hp'] at hb'
      cases hdr : x.1.drop d.length with
      | nil => simp [hdr] at hb
      | cons m rest =>
        cases rest with
        | cons _ _ => simp [hdr] at hb
        | nil =>
          cases hdr' : y.1.drop d.length with
          | nil => simp [hdr'] at hb'
          | cons m' rest' =>
            cases rest' with
            | cons _ _ => simp [hdr'] at hb'
            | nil =>
              simp [hdr] at hb
              simp [hdr'] at hb'
              have h1 := child_path_eq d x.1 m hp hdr
              have h2 := child_path_eq d y.1 m' hp' hdr'
              rw [h1, h2]
              have : m = m' := by rw [← hb] at hbb; rw [← hb'] at hbb; exact hbb
              rw [this]
    · rw [if_neg hp'] at hb'; simp at hb'
  · rw [if_neg hp] at hb; simp at hb

theorem get_of_mem (fs : Fs) (hn : NoDupKeys fs) (q : CPath) (e : Entry) (hq : q ≠ []) (h : (q, e) ∈ fs.ents) :
    fs.get q = some e := by
  unfold Fs.get
  rw [if_neg hq]
  exact mem_lookup fs hn q e h

/-- the loop over distinct, still present entries of a plain directory succeeds and removes them all -/
theorem unlinkEntries_succeeds (rec : Fs → Bytes → Fs × Bool) (dir : Bytes) (d : CPath)
    (hframe : ∀ fs path d, NamesOk fs → PlainParent fs path d → Frame d fs (rec fs path).1)
    (hwfr : ∀ fs p, WF fs → WF (rec fs p).1)
    (hgone : ∀ fs path d, WF fs → PlainParent fs path d → (rec fs path).2 = true → ∀ q, d <+: q → (rec fs path).1.get q = none)
    (bound : Fs → CPath → Prop) (hbsub : ∀ fs fs' c, Sub fs' fs → bound fs c → bound fs' c)
    (hsucc : ∀ fs path c, WF fs → PlainParent fs path c → fs.get c = some .dir → bound fs c → (rec fs path).2 = true) :
    ∀ (ents : List (Name × Entry)) (fs : Fs), WF fs → PlainParent fs dir d → fs.get d = some .dir →
      (∀ x ∈ ents, KName x.1) → List.Pairwise (fun a b : Name × Entry => a.1 ≠ b.1) ents →
      (∀ x ∈ ents, fs.get (d ++ [x.1]) = some x.2) → (∀ x ∈ ents, bound fs (d ++ [x.1])) →
      (unlinkEntries rec (dir ++ [47]) fs ents).2 = true ∧
      ∀ x ∈ ents, (unlinkEntries rec (dir ++ [47]) fs ents).1.get (d ++ [x.1]) = none := by
  intro ents
  induction ents with
  | nil => intro fs _ _ _ _ _ _ _; exact ⟨rfl, fun x hx => by simp at hx⟩
  | cons x rest ih =>
    intro fs hwf hpp hg hnames hpw hpres hbound
    obtain ⟨n, e⟩ := x
    have hn : KName n := hnames (n, e) (List.mem_cons_self)
    have hcp := plainParent_child fs dir d n hpp hg hn
    have hge : fs.get (d ++ [n]) = some e := hpres (n, e) (List.mem_cons_self)
    rw [List.pairwise_cons] at hpw
    -- after the first entry has been removed (world fs1), the rest goes through by induction
    have step : ∀ fs1 : Fs, Frame (d ++ [n]) fs fs1 → WF fs1 → (∀ q, d ++ [n] <+: q → fs1.get q = none) →
        (unlinkEntries rec (dir ++ [47]) fs1 rest).2 = true ∧
        ∀ x ∈ (n, e) :: rest, (unlinkEntries rec (dir ++ [47]) fs1 rest).1.get (d ++ [x.1]) = none := by
      intro fs1 hf hwf1 hgone1
      have hag : ∀ q, NotInside d q → fs1.get q = fs.get q := fun q hq => hf.out q (not_prefix_child d q n hq)
      have hnd : NotInside d d := fun hh => hh.2 rfl
      have hpp1 := plainParent_transfer fs fs1 dir d hag hpp
      have hother : ∀ y ∈ rest, fs1.get (d ++ [y.1]) = fs.get (d ++ [y.1]) := by
        intro y hy
        apply hf.out
        intro hpre
        have hne := hpw.1 y hy
        obtain ⟨t, ht⟩ := hpre
        have h1 := congrArg List.length ht
        simp at h1
        have ht0 : t = [] := by cases t with | nil => rfl | cons a b => simp at h1
        subst ht0
        simp at ht
        exact hne ht
      have := ih fs1 hwf1 hpp1 (by rw [hag d hnd]; exact hg)
        (fun y hy => hnames y (List.mem_cons_of_mem _ hy)) hpw.2
        (fun y hy => by rw [hother y hy]; exact hpres y (List.mem_cons_of_mem _ hy))
        (fun y hy => hbsub fs fs1 _ hf.sub (hbound y (List.mem_cons_of_mem _ hy)))
      refine ⟨this.1, ?_⟩
      intro y hy
      simp only [List.mem_cons] at hy
      rcases hy with rfl | hy
      · -- the first entry stays removed: later steps only remove
        have hsub2 := (unlinkEntries_frame rec hframe dir d rest fs1
          (fun y hy => hnames y (List.mem_cons_of_mem _ hy)) hwf1.names hpp1 (by rw [hag d hnd]; exact hg)).1
        have h0 := hgone1 (d ++ [n]) (List.prefix_refl _)
        cases hq : (unlinkEntries rec (dir ++ [47]) fs1 rest).1.get (d ++ [n]) with
        | none => rfl
        | some e2 =>
          exfalso
          have hm := get_some_mem _ _ e2 (by simp) hq
          have hm1 := hsub2 _ hm
          have hw := unlinkEntries_wf rec hwfr (dir ++ [47]) rest fs1 hwf1
          rw [get_of_mem fs1 hwf1.nodup _ e2 (by simp) hm1] at h0
          simp at h0
      · exact this.2 y hy
    cases e with
    | dir =>
      simp only [unlinkEntries]
      have hf := hframe fs (dir ++ [47] ++ n) (d ++ [n]) hwf.names hcp
      have hw1 := hwfr fs (dir ++ [47] ++ n) hwf
      have hs := hsucc fs (dir ++ [47] ++ n) (d ++ [n]) hwf hcp hge (hbound (n, .dir) (List.mem_cons_self))
      have hg1 := hgone fs (dir ++ [47] ++ n) (d ++ [n]) hwf hcp hs
      cases hr : rec fs (dir ++ [47] ++ n) with
      | mk fs1 ok =>
        rw [hr] at hf hw1 hs hg1
        simp only at hs
        subst hs
        exact step fs1 hf hw1 hg1
    | file dd =>
      simp only [unlinkEntries]
      have hul := unlink_plain fs (dir ++ [47] ++ n) (d ++ [n]) hcp
      rw [hge] at hul
      simp only at hul
      have hfu : fileUnlink fs (dir ++ [47] ++ n) = (fs.del (d ++ [n]), true) := by
        unfold fileUnlink; rw [hul]; rfl
      rw [hfu]
      refine step (fs.del (d ++ [n])) (frame_del fs _ (by simp)) ?_ ?_
      · exact del_wf fs _ hwf (leaf_of_nondir fs hwf _ _ (by simp) hge (by simp))
      · intro q hq
        have hleaf := leaf_of_nondir fs hwf (d ++ [n]) (.file dd) (by simp) hge (by simp)
        rw [get_del fs _ q (by simp)]
        by_cases hqd : q = d ++ [n]
        · simp [hqd]
        · rw [if_neg hqd]
          cases hgq : fs.get q with
          | none => rfl
          | some eq =>
            exfalso
            have hqne : q ≠ [] := by
              intro h0; subst h0; obtain ⟨t, ht⟩ := hq; simp at ht
            exact hleaf (q, eq) (get_some_mem fs q eq hqne hgq) ⟨hq, hqd⟩
    | link t =>
      simp only [unlinkEntries]
      have hul := unlink_plain fs (dir ++ [47] ++ n) (d ++ [n]) hcp
      rw [hge] at hul
      simp only at hul
      have hfu : fileUnlink fs (dir ++ [47] ++ n) = (fs.del (d ++ [n]), true) := by
        unfold fileUnlink; rw [hul]; rfl
      rw [hfu]
      refine step (fs.del (d ++ [n])) (frame_del fs _ (by simp)) ?_ ?_
      · exact del_wf fs _ hwf (leaf_of_nondir fs hwf _ _ (by simp) hge (by simp))
      · intro q hq
        have hleaf := leaf_of_nondir fs hwf (d ++ [n]) (.link t) (by simp) hge (by simp)
        rw [get_del fs _ q (by simp)]
        by_cases hqd : q = d ++ [n]
        · simp [hqd]
        · rw [if_neg hqd]
          cases hgq : fs.get q with
          | none => rfl
          | some eq =>
            exfalso
            have hqne : q ≠ [] := by
              intro h0; subst h0; obtain ⟨t, ht⟩ := hq; simp at ht
            exact hleaf (q, eq) (get_some_mem fs q eq hqne hgq) ⟨hq, hqd⟩


theorem foldl_max_ge : ∀ (l : List (CPath × Entry)) (m : Nat),
    m ≤ l.foldl (fun m x => max m x.1.length) m ∧ ∀ x ∈ l, x.1.length ≤ l.foldl (fun m x => max m x.1.length) m := by
  intro l
  induction l with
  | nil => intro m; exact ⟨Nat.le_refl _, fun x hx => by simp at hx⟩
  | cons a rest ih =>
    intro m
    simp only [List.foldl_cons]
    have := ih (max m a.1.length)
    refine ⟨Nat.le_trans (Nat.le_max_left _ _) this.1, ?_⟩
    intro x hx
    simp only [List.mem_cons] at hx
    rcases hx with rfl | hx
    · exact Nat.le_trans (Nat.le_max_right _ _) this.1
    · exact this.2 x hx

theorem le_maxDepth (fs : Fs) : ∀ x ∈ fs.ents, x.1.length ≤ maxDepth fs := (foldl_max_ge fs.ents 0).2

/-- recursive Directory::unlink of an existing plain directory succeeds when the fuel covers the depth -/
theorem dirUnlink_succeeds : ∀ (fuel : Nat) (fs : Fs) (path : Bytes) (d : CPath),
    WF fs → PlainParent fs path d → fs.get d = some .dir → d.isPrefixOf cwd = false →
    (∀ x ∈ fs.ents, d <+: x.1 → x.1.length < d.length + fuel) →
    (dirUnlink fuel true fs path).2 = true := by
  intro fuel
  induction fuel with
  | zero =>
    intro fs path d _ hpp hg _ hb
    have hd := plainParent_ne_nil hpp
    have := hb (d, .dir) (get_some_mem fs d .dir hd hg) (List.prefix_refl _)
    simp at this
  | succ fuel ih =>
    intro fs path d hwf hpp hg hcw hb
    have hd := plainParent_ne_nil hpp
    have hcw' : ¬ (d.isPrefixOf cwd = true) := by simp [hcw]
    simp only [dirUnlink]
    rw [rmdir_plain fs path d hpp, hg]
    simp only
    rw [if_neg hcw']
    by_cases hch : fs.children d ≠ []
    · rw [if_pos hch]
      simp only
      rw [if_neg (by simp), readdir_plain fs path d hpp hg]
      simp only
      have hloop := unlinkEntries_succeeds (dirUnlink fuel true) path d
        (fun a b c h1 h2 => dirUnlink_frame fuel true a b c h1 h2)
        (fun a b hw => dirUnlink_wf fuel true a b hw)
        (fun a b c hw hp hs => dirUnlink_true_gone fuel true a b c hw hp hs)
        (fun fs c => c.isPrefixOf cwd = false ∧ ∀ x ∈ fs.ents, c <+: x.1 → x.1.length < c.length + fuel)
        (fun a a' c hs hbd => ⟨hbd.1, fun x hx => hbd.2 x (hs x hx)⟩)
        (fun a b c hw hp hgc hbd => ih a b c hw hp hgc hbd.1 hbd.2)
        (fs.children d) fs hwf hpp hg (children_names fs hwf.names d) (children_distinct fs hwf.nodup d)
        (fun x hx => get_of_mem fs hwf.nodup _ _ (by simp) ((mem_children fs d x.1 x.2).mp hx))
        (fun x _ => ⟨by
          cases hq : (d ++ [x.1]).isPrefixOf cwd with
          | false => rfl
          | true =>
            exfalso
            apply hcw'
            exact List.isPrefixOf_iff_prefix.mpr
              (List.IsPrefix.trans (List.prefix_append d [x.1]) (List.isPrefixOf_iff_prefix.mp hq)),
          fun y hy hpre => by
          have hdy : d <+: y.1 := List.IsPrefix.trans (List.prefix_append d [x.1]) hpre
          have := hb y hy hdy
          simp only [List.length_append, List.length_cons, List.length_nil]
          omega⟩)
      have hfr := unlinkEntries_frame (dirUnlink fuel true)
        (fun a b c h1 h2 => dirUnlink_frame fuel true a b c h1 h2) path d
        (fs.children d) fs (children_names fs hwf.names d) hwf.names hpp hg
      have hw2 := unlinkEntries_wf (dirUnlink fuel true) (fun a b hw => dirUnlink_wf fuel true a b hw)
        (path ++ [47]) (fs.children d) fs hwf
      cases hu : unlinkEntries (dirUnlink fuel true) (path ++ [47]) fs (fs.children d) with
      | mk fs2 ok =>
        rw [hu] at hloop hfr hw2
        obtain ⟨hok, hgone⟩ := hloop
        simp only at hok
        subst hok
        simp only
        have hpp2 := plainParent_transfer fs fs2 path d hfr.2 hpp
        have hg2 : fs2.get d = some .dir := by rw [hfr.2 d (fun hh => hh.2 rfl)]; exact hg
        have hch2 : fs2.children d = [] := by
          cases hc : fs2.children d with
          | nil => rfl
          | cons z zs =>
            exfalso
            have hz : z ∈ fs2.children d := by rw [hc]; simp
            have hm2 := (mem_children fs2 d z.1 z.2).mp hz
            have hm := hfr.1 _ hm2
            have hzc := (mem_children fs d z.1 z.2).mpr hm
            have h0 := hgone z hzc
            rw [get_of_mem fs2 hw2.nodup _ _ (by simp) hm2] at h0
            simp at h0
        rw [rmdir_plain fs2 path d hpp2, hg2]
        simp [hch2, isOk, hcw]
    · rw [if_neg hch]

theorem dirUnlinkTop_succeeds (fs : Fs) (path : Bytes) (d : CPath) (hwf : WF fs) (hpp : PlainParent fs path d)
    (hg : fs.get d = some .dir) (hcw : d.isPrefixOf cwd = false) : (dirUnlinkTop fs path true).2 = true := by
  unfold dirUnlinkTop
  apply dirUnlink_succeeds _ fs path d hwf hpp hg hcw
  intro x hx _
  have := le_maxDepth fs x hx
  omega

end Nstd.Path
