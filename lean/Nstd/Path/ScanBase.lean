import Nstd.Path.ScanBack
/-
  The translated File::getBaseName (Nstd/Generated/PathScan.lean): the code behind the label `removeExtension`
  (`base_tail`: it strips exactly what the model strips), the backward scan, and the result of the whole
  translated function for both shapes of the argument.
-/
namespace Nstd.Path.Scan
open Nstd.Path Nstd.Path.Cxx Nstd.Generated.PathScan

/-- what File::getBaseName does with the part behind the last separator (the model's text) -/
def stripExt (result ext : Bytes) : Bytes :=
  let rl := result.length
  let el := ext.length
  if el = 0 then result
  else if ext.head? = some 46 then
    if rl ≥ el ∧ result.drop (rl - el) = ext then result.take (rl - el) else result
  else
    if rl ≥ el + 1 ∧ result[rl - (el + 1)]? = some 46 ∧ result.drop (rl - el) = ext
    then result.take (rl - (el + 1)) else result

theorem getBaseName_eq_stripExt (file ext : Bytes) :
    Nstd.Path.getBaseName file ext = stripExt (afterLastSep file) ext := rfl

theorem cstrEq_tail (pre b ext : Bytes) (h : ext.length ≤ b.length) :
    cstrEq (pre ++ b) (((pre.length : Int) + (b.length : Int)) - (ext.length : Int)) ext 0
      = decide (b.drop (b.length - ext.length) = ext) := by
  have e : ((pre.length : Int) + (b.length : Int)) - (ext.length : Int) = ((pre.length + (b.length - ext.length) : Nat) : Int) := by omega
  rw [e]
  unfold cstrEq
  rw [Int.toNat_natCast]
  have : (pre ++ b).drop (pre.length + (b.length - ext.length)) = b.drop (b.length - ext.length) := by simp
  rw [this]
  simp

theorem mk_tail (pre b : Bytes) (n : Nat) (_h : n ≤ b.length) :
    mk (pre ++ b) (pre.length : Int) (n : Int) = b.take n := by
  rw [mk_nat]; simp

open getBaseName in
theorem base_tail (f0 : Nat) (pre b ext : Bytes) (pos RL0 EL0 EP0 ELP0 : Int) (r : Bytes) :
    ∃ st', getBaseName_at_removeExtension f0
        ⟨pre ++ b, ext, 0, ((pre ++ b).length : Int), pos, (pre.length : Int), RL0, EL0, EP0, ELP0, r⟩ = some (Exit.ret, st')
      ∧ st'.ret = stripExt b ext := by
  have hl : ((pre ++ b).length : Int) = (pre.length : Int) + (b.length : Int) := by simp
  have q1 : ((pre ++ b).length : Int) - ((pre.length : Int) - 0) = ((b.length : Nat) : Int) := by omega
  have q3 : decide ((0 : Int) ≤ (pre.length : Int) - 0) = true := by apply decide_eq_true; omega
  have q4 : decide ((0 : Int) ≤ ((b.length : Nat) : Int)) = true := by apply decide_eq_true; omega
  have q5 : decide ((0 : Int) ≤ ((ext.length : Nat) : Int)) = true := by apply decide_eq_true; omega
  have q6 : mkOk (pre ++ b) (pre.length : Int) ((b.length : Nat) : Int) = true := by rw [mkOk_nat]; simp
  have q7 : mk (pre ++ b) (pre.length : Int) ((b.length : Nat) : Int) = b := by rw [mk_tail _ _ _ (Nat.le_refl _)]; simp
  unfold getBaseName_at_removeExtension stripExt
  simp only [q1, q3, q4, q5, q6, q7]
  bool_norm
  by_cases he : ext.length = 0
  · have : ¬ ((ext.length : Int) ≠ 0) := by omega
    simp only [this, he]
    bool_norm
    exact ⟨_, rfl, rfl⟩
  · have hne : ext ≠ [] := by intro h; simp [h] at he
    have hh : ext.head? = some (cAt ext 0) := by
      cases ext with
      | nil => exact absurd rfl hne
      | cons c et => simp [cAt]
    have h1 : decide ((ext.length : Int) ≠ 0) = true := by apply decide_eq_true; omega
    have h2 : inb ext 0 = true := by simp [inb]
    simp only [h1, he, h2, hh, Option.some.injEq]
    bool_norm
    generalize cAt ext 0 = c
    have g3 : ((b.length : Nat) : Int) - ((ext.length : Nat) : Int) = ((b.length - ext.length : Nat) : Int) ∨ ¬ ext.length ≤ b.length := by omega
    by_cases hc : c = 46
    · simp only [hc]
      bool_norm
      by_cases hge : ext.length ≤ b.length
      · have g1 : decide (((b.length : Nat) : Int) ≥ ((ext.length : Nat) : Int)) = true := by
          apply decide_eq_true; omega
        have g2 : inb (pre ++ b) ((pre.length : Int) + (b.length : Int) - ((ext.length : Nat) : Int)) = true := by
          simp only [inb, Bool.and_eq_true, decide_eq_true_eq]; omega
        have g3 : ((b.length : Nat) : Int) - ((ext.length : Nat) : Int) = ((b.length - ext.length : Nat) : Int) := by omega
        have g4 : pre.length + (b.length - ext.length) ≤ (pre ++ b).length := by simp
        simp only [g1, g2, cstrEq_tail pre b _ hge, g3, mkOk_nat, g4, mk_tail pre b _ (Nat.sub_le _ _)]
        bool_norm
        by_cases hd : List.drop (b.length - ext.length) b = ext
        · simp only [hd]
          bool_norm
          exact ⟨_, rfl, by simp [hge]⟩
        · simp only [hd]
          bool_norm
          exact ⟨_, rfl, by simp⟩
      · have g1 : decide (((b.length : Nat) : Int) ≥ ((ext.length : Nat) : Int)) = false := by
          apply decide_eq_false; omega
        simp only [g1]
        bool_norm
        exact ⟨_, rfl, by simp [hge]⟩
    · have hc' : decide (c = 46) = false := by apply decide_eq_false; exact hc
      have g0 : decide ((0 : Int) ≤ ((ext.length : Nat) : Int) + 1) = true := by apply decide_eq_true; omega
      simp only [hc', hc, g0]
      bool_norm
      by_cases hge : ext.length + 1 ≤ b.length
      · have g1 : decide (((b.length : Nat) : Int) ≥ ((ext.length : Nat) : Int) + 1) = true := by
          apply decide_eq_true; omega
        have e5 : (pre.length : Int) + (((b.length : Nat) : Int) - (((ext.length : Nat) : Int) + 1))
            = ((pre.length + (b.length - (ext.length + 1)) : Nat) : Int) := by omega
        have g5 : pre.length + (b.length - (ext.length + 1)) ≤ (pre ++ b).length := by simp
        have hk : b.length - (ext.length + 1) < b.length := by omega
        have g6 : (pre ++ b).getD (pre.length + (b.length - (ext.length + 1))) 0 = b[b.length - (ext.length + 1)] := by
          simp [List.getD_eq_getElem?_getD, List.getElem?_append_right, hk]
        have g7 : b[b.length - (ext.length + 1)]? = some b[b.length - (ext.length + 1)] := by simp [hk]
        simp only [g1, e5, inb_nat, cAt_nat, g5, g6, g7, Option.some.injEq]
        bool_norm
        by_cases hdot : b[b.length - (ext.length + 1)] = 46
        · have hge' : ext.length ≤ b.length := by omega
          have g2 : inb (pre ++ b) ((pre.length : Int) + (b.length : Int) - ((ext.length : Nat) : Int)) = true := by
            simp only [inb, Bool.and_eq_true, decide_eq_true_eq]; omega
          have g3 : ((b.length : Nat) : Int) - (((ext.length : Nat) : Int) + 1) = ((b.length - (ext.length + 1) : Nat) : Int) := by omega
          have g4 : pre.length + (b.length - (ext.length + 1)) ≤ (pre ++ b).length := by simp
          simp only [hdot, g2, cstrEq_tail pre b _ hge', g3, mkOk_nat, g4, mk_tail pre b _ (Nat.sub_le _ _)]
          bool_norm
          by_cases hd : List.drop (b.length - ext.length) b = ext
          · simp only [hd]
            bool_norm
            exact ⟨_, rfl, by simp [hge]⟩
          · simp only [hd]
            bool_norm
            exact ⟨_, rfl, by simp⟩
        · have hdot' : decide (b[b.length - (ext.length + 1)] = 46) = false := by apply decide_eq_false; exact hdot
          simp only [hdot', hdot]
          bool_norm
          exact ⟨_, rfl, by simp⟩
      · have g1 : decide (((b.length : Nat) : Int) ≥ ((ext.length : Nat) : Int) + 1) = false := by
          apply decide_eq_false; omega
        simp only [g1]
        bool_norm
        exact ⟨_, rfl, by simp [hge]⟩
open getBaseName in
theorem base_skip (f0 : Nat) (file ext : Bytes) (L R a1 a2 a3 a4 : Int) (r : Bytes) (lo : Nat) :
    ∀ (k : Nat), lo + k ≤ file.length →
      (∀ i, lo ≤ i → i < lo + k → isSep (file.getD i 0) = false) →
      ∀ fuel, getBaseName_loop1 f0 (fuel + k) ⟨file, ext, 0, L, ((lo + k : Nat) : Int) - 1, R, a1, a2, a3, a4, r⟩
        = getBaseName_loop1 f0 fuel ⟨file, ext, 0, L, (lo : Int) - 1, R, a1, a2, a3, a4, r⟩ := by
  intro k
  induction k with
  | zero => intro _ _ fuel; rfl
  | succ k ih =>
    intro hk hs fuel
    have hp := hs (lo + k) (by omega) (by omega)
    have e : ((lo + (k + 1) : Nat) : Int) - 1 = ((lo + k : Nat) : Int) := by omega
    have h0 : ((lo + k : Nat) : Int) ≥ 0 := by omega
    have h1 : lo + k ≤ file.length := by omega
    rw [show fuel + (k + 1) = (fuel + k) + 1 by omega]
    simp only [e, getBaseName_loop1, cAt_nat, inb_nat, sep_test, hp, h0, h1]
    bool_norm
    exact ih (by omega) (fun i h1 h2 => hs i h1 (by omega)) fuel

open getBaseName in
theorem base_none (file ext : Bytes) (hb : ∀ z ∈ file, isSep z = false) (fuel : Nat) (hf : file.length + 1 ≤ fuel) :
    Nstd.Generated.PathScan.getBaseName fuel file ext = some (stripExt file ext) := by
  unfold Nstd.Generated.PathScan.getBaseName
  obtain ⟨g, rfl⟩ : ∃ g, fuel = (g + 1) + file.length := ⟨fuel - 1 - file.length, by omega⟩
  have hlen : decide ((0 : Int) ≤ (file.length : Int)) = true := by apply decide_eq_true; omega
  have hpos : (0 : Int) + ((file.length : Int) - 1) = ((0 + file.length : Nat) : Int) - 1 := by omega
  simp only [hlen, hpos]
  bool_norm
  rw [base_skip _ _ _ _ _ _ _ _ _ _ 0 file.length (by omega) (all_hyp file _ hb) (g + 1)]
  have h0 : ¬ (((0 : Nat) : Int) - 1 ≥ 0) := by omega
  simp only [getBaseName_loop1, h0]
  bool_norm
  obtain ⟨st', h1, h2⟩ := base_tail (g + 1 + file.length) [] file ext (((0 : Nat) : Int) - 1) 0 0 0 0 []
  simp only [List.nil_append, List.length_nil, Int.natCast_zero] at h1 ⊢
  rw [h1]
  simp [h2]

open getBaseName in
theorem base_some (x : Bytes) (s : Nat) (b ext : Bytes) (hs : isSep s = true) (hb : ∀ z ∈ b, isSep z = false)
    (fuel : Nat) (hf : (x ++ s :: b).length + 1 ≤ fuel) :
    Nstd.Generated.PathScan.getBaseName fuel (x ++ s :: b) ext = some (stripExt b ext) := by
  unfold Nstd.Generated.PathScan.getBaseName
  have hl := len_app x s b
  obtain ⟨g, rfl⟩ : ∃ g, fuel = (g + 1) + b.length := ⟨fuel - 1 - b.length, by omega⟩
  have hlen : decide ((0 : Int) ≤ ((x ++ s :: b).length : Int)) = true := by apply decide_eq_true; omega
  have hpos : (0 : Int) + (((x ++ s :: b).length : Int) - 1) = (((x.length + 1) + b.length : Nat) : Int) - 1 := by omega
  simp only [hlen, hpos]
  bool_norm
  rw [base_skip _ _ _ _ _ _ _ _ _ _ (x.length + 1) b.length (by omega) (after_hyp x s b _ hb) (g + 1)]
  have e1 : ((x.length + 1 : Nat) : Int) - 1 = (x.length : Int) := by omega
  have h0 : (x.length : Int) ≥ 0 := by omega
  have h1 : x.length ≤ (x ++ s :: b).length := by omega
  simp only [e1, getBaseName_loop1, cAt_nat, inb_nat, sep_test, getD_append_at, hs, h0, h1]
  bool_norm
  obtain ⟨st', h1, h2⟩ := base_tail (g + 1 + b.length) (x ++ [s]) b ext (x.length : Int) 0 0 0 0 []
  have e2 : (x ++ [s]) ++ b = x ++ s :: b := by simp
  have e3 : (((x ++ [s]).length : Nat) : Int) = (x.length : Int) + 1 := by simp
  rw [e2, e3] at h1
  rw [h1]
  simp [h2]

end Nstd.Path.Scan
