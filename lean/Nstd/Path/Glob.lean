import Nstd.Path.FsMore
/-
  Wildcard matching (Directory::open(dir, pattern, …) / Directory::read): the declarative semantics `Glob`,
  its reading as a segmentation of the name (`glob_iff_seg`), and the proofs that
  * `fnmatchM` (the assumed behaviour of libc fnmatch for patterns over `*`, `?`, ordinary bytes) and
  * `wildF` / `szWildMatch7` (the hand-written matcher of Directory.cpp: one back-track point, gotos)
  decide exactly `Glob` — for ALL patterns and names; for the latter with every fuel above |pattern| + |name|
  (the loop terminates: each round shortens the pattern or the name).
-/
namespace Nstd.Path

/-- declarative wildcard semantics: `*` stands for any (possibly empty) byte string, `?` for exactly one byte, any
    other pattern byte `c` for one byte `x` with `eqv c x` -/
inductive Glob (eqv : Nat → Nat → Prop) : Bytes → Bytes → Prop
  | nil : Glob eqv [] []
  | star0 {p s} : Glob eqv p s → Glob eqv (42 :: p) s
  | starS {p s x} : Glob eqv (42 :: p) s → Glob eqv (42 :: p) (x :: s)
  | any {p s x} : Glob eqv p s → Glob eqv (63 :: p) (x :: s)
  | lit {c p x s} : c ≠ 42 → c ≠ 63 → eqv c x → Glob eqv p s → Glob eqv (c :: p) (x :: s)

/-- what one pattern byte may stand for -/
def Fits (eqv : Nat → Nat → Prop) (c : Nat) (piece : Bytes) : Prop :=
  if c = 42 then True else if c = 63 then ∃ x, piece = [x] else ∃ x, piece = [x] ∧ eqv c x

/-- one fitting piece per pattern byte -/
inductive Seg (eqv : Nat → Nat → Prop) : Bytes → List Bytes → Prop
  | nil : Seg eqv [] []
  | cons {c piece p pieces} : Fits eqv c piece → Seg eqv p pieces → Seg eqv (c :: p) (piece :: pieces)

variable {eqv : Nat → Nat → Prop}

theorem Glob.nil_inv {s : Bytes} (h : Glob eqv [] s) : s = [] := by
  generalize hp : ([] : Bytes) = pp at h
  cases h <;> first | rfl | (simp at hp)

theorem Glob.cons_nil_inv {c : Nat} {p : Bytes} (h : Glob eqv (c :: p) []) : c = 42 ∧ Glob eqv p [] := by
  generalize hp : c :: p = pp at h
  generalize hs : ([] : Bytes) = ss at h
  cases h with
  | nil => simp at hp
  | star0 h' => simp at hp; obtain ⟨h1, h2⟩ := hp; subst h1 h2; subst hs; exact ⟨rfl, h'⟩
  | starS _ => simp at hs
  | any _ => simp at hs
  | lit _ _ _ _ => simp at hs

theorem Glob.cons_cons_inv {c x : Nat} {p s : Bytes} (h : Glob eqv (c :: p) (x :: s)) :
    (c = 42 ∧ (Glob eqv p (x :: s) ∨ Glob eqv (42 :: p) s)) ∨ (c = 63 ∧ Glob eqv p s) ∨
    (c ≠ 42 ∧ c ≠ 63 ∧ eqv c x ∧ Glob eqv p s) := by
  generalize hp : c :: p = pp at h
  generalize hs : x :: s = ss at h
  cases h with
  | nil => simp at hp
  | star0 h' =>
    simp at hp; obtain ⟨h1, h2⟩ := hp; subst h1 h2; subst hs
    exact Or.inl ⟨rfl, Or.inl h'⟩
  | starS h' =>
    simp at hp hs; obtain ⟨h1, h2⟩ := hp; obtain ⟨h3, h4⟩ := hs; subst h1 h2 h3 h4
    exact Or.inl ⟨rfl, Or.inr h'⟩
  | any h' =>
    simp at hp hs; obtain ⟨h1, h2⟩ := hp; obtain ⟨h3, h4⟩ := hs; subst h1 h2 h3 h4
    exact Or.inr (Or.inl ⟨rfl, h'⟩)
  | lit n1 n2 he h' =>
    simp at hp hs; obtain ⟨h1, h2⟩ := hp; obtain ⟨h3, h4⟩ := hs; subst h1 h2 h3 h4
    exact Or.inr (Or.inr ⟨n1, n2, he, h'⟩)

/-- `*` = some suffix of the name matches the rest of the pattern -/
def StarG (eqv : Nat → Nat → Prop) (p s : Bytes) : Prop := ∃ k, Glob eqv p (s.drop k)

theorem glob_star_iff (p s : Bytes) : Glob eqv (42 :: p) s ↔ StarG eqv p s := by
  constructor
  · intro h
    generalize hp : 42 :: p = pp at h
    induction h with
    | nil => simp at hp
    | star0 h' _ => simp at hp; subst hp; exact ⟨0, by simpa using h'⟩
    | starS h' ih =>
      obtain ⟨k, hk⟩ := ih hp
      exact ⟨k + 1, by simpa using hk⟩
    | any _ _ => simp at hp
    | lit n1 _ _ _ _ => simp at hp; exact absurd hp.1.symm n1
  · rintro ⟨k, hk⟩
    induction k generalizing s with
    | zero => exact Glob.star0 (by simpa using hk)
    | succ k ih =>
      cases s with
      | nil => exact Glob.star0 (by simpa using hk)
      | cons x t => exact Glob.starS (ih t (by simpa using hk))

theorem starG_tail {p : Bytes} {x : Nat} {t : Bytes} (hn : ¬ Glob eqv p (x :: t)) :
    StarG eqv p (x :: t) ↔ StarG eqv p t := by
  constructor
  · rintro ⟨k, hk⟩
    cases k with
    | zero => exact absurd (by simpa using hk) hn
    | succ k => exact ⟨k, by simpa using hk⟩
  · rintro ⟨k, hk⟩; exact ⟨k + 1, by simpa using hk⟩

theorem starG_star (p s : Bytes) : StarG eqv (42 :: p) s ↔ StarG eqv p s := by
  constructor
  · rintro ⟨k, hk⟩
    obtain ⟨j, hj⟩ := (glob_star_iff p _).mp hk
    exact ⟨k + j, by rw [List.drop_drop] at hj; simpa [Nat.add_comm] using hj⟩
  · rintro ⟨k, hk⟩; exact ⟨k, Glob.star0 hk⟩

theorem starG_dropStars (p s : Bytes) : StarG eqv (dropStars p) s ↔ StarG eqv p s := by
  induction p with
  | nil => simp [dropStars]
  | cons c p ih =>
    by_cases hc : c = 42
    · subst hc; simp only [dropStars, if_true]; rw [ih, starG_star]
    · simp only [dropStars, hc, if_false]

theorem glob_nil_iff (p : Bytes) : Glob eqv p [] ↔ dropStars p = [] := by
  induction p with
  | nil => simp [dropStars]; exact Glob.nil
  | cons c p ih =>
    by_cases hc : c = 42
    · subst hc; simp only [dropStars, if_true]; rw [← ih]
      exact ⟨fun h => (Glob.cons_nil_inv h).2, Glob.star0⟩
    · simp only [dropStars, hc, if_false]
      constructor
      · intro h; exact absurd (Glob.cons_nil_inv h).1 hc
      · intro h; simp at h

/-- the name is the concatenation of one piece per pattern byte, each piece fitting its byte -/
theorem glob_iff_seg (p s : Bytes) :
    Glob eqv p s ↔ ∃ pieces : List Bytes, Seg eqv p pieces ∧ pieces.flatten = s := by
  constructor
  · intro h
    induction h with
    | nil => exact ⟨[], Seg.nil, rfl⟩
    | star0 _ ih =>
      obtain ⟨ps, h1, h2⟩ := ih
      exact ⟨[] :: ps, Seg.cons (by simp [Fits]) h1, by simpa using h2⟩
    | @starS p s x _ ih =>
      obtain ⟨ps, h1, h2⟩ := ih
      cases h1 with
      | cons hf hr =>
        rename_i pc rest
        exact ⟨(x :: pc) :: rest, Seg.cons (by simp [Fits]) hr, by simp at h2 ⊢; exact h2⟩
    | @any p s x _ ih =>
      obtain ⟨ps, h1, h2⟩ := ih
      exact ⟨[x] :: ps, Seg.cons (by simp [Fits]) h1, by simp [h2]⟩
    | @lit c p x s n1 n2 he _ ih =>
      obtain ⟨ps, h1, h2⟩ := ih
      exact ⟨[x] :: ps, Seg.cons (by simp [Fits, n1, n2, he]) h1, by simp [h2]⟩
  · rintro ⟨ps, h1, h2⟩
    induction h1 generalizing s with
    | nil => simp at h2; subst h2; exact Glob.nil
    | @cons c pc p rest hf _ ih =>
      simp only [List.flatten_cons] at h2
      subst h2
      have hrest := ih rest.flatten rfl
      by_cases hc : c = 42
      · subst hc
        clear hf
        induction pc with
        | nil => exact Glob.star0 (by simpa using hrest)
        | cons x pc ihp => exact Glob.starS ihp
      · by_cases hq : c = 63
        · subst hq
          simp only [Fits, hc, if_false, if_true] at hf
          obtain ⟨x, rfl⟩ := hf
          exact Glob.any hrest
        · simp only [Fits, hc, hq, if_false] at hf
          obtain ⟨x, rfl, he⟩ := hf
          exact Glob.lit hc hq he hrest

/-! ### the assumed fnmatch decides `Glob` with byte equality -/

theorem fnmatchM_iff_aux : ∀ (n : Nat) (p s : Bytes), p.length + s.length ≤ n →
    (fnmatchM p s = true ↔ Glob (fun a b => a = b) p s) := by
  intro n
  induction n with
  | zero =>
    intro p s h
    have hp : p = [] := List.eq_nil_of_length_eq_zero (by omega)
    have hs : s = [] := List.eq_nil_of_length_eq_zero (by omega)
    subst hp hs
    simp [fnmatchM]; exact Glob.nil
  | succ n ih =>
    intro p s h
    cases p with
    | nil =>
      cases s with
      | nil => simp [fnmatchM]; exact Glob.nil
      | cons x s =>
        simp only [fnmatchM]
        constructor
        · intro hh; simp at hh
        · intro hh; exact absurd (Glob.nil_inv hh) (by simp)
    | cons c p =>
      cases s with
      | nil =>
        simp only [fnmatchM]
        by_cases hc : c = 42
        · subst hc
          simp only [if_true]
          rw [ih p [] (by simp at h ⊢; omega)]
          exact ⟨Glob.star0, fun hh => (Glob.cons_nil_inv hh).2⟩
        · simp only [hc, if_false]
          constructor
          · intro hh; simp at hh
          · intro hh; exact absurd (Glob.cons_nil_inv hh).1 hc
      | cons x s =>
        simp only [fnmatchM]
        by_cases hc : c = 42
        · subst hc
          simp only [if_true, Bool.or_eq_true]
          rw [ih p (x :: s) (by simp at h ⊢; omega), ih (42 :: p) s (by simp at h ⊢; omega)]
          constructor
          · rintro (hh | hh)
            · exact Glob.star0 hh
            · exact Glob.starS hh
          · intro hh
            rcases Glob.cons_cons_inv hh with ⟨_, h1 | h1⟩ | ⟨h1, _⟩ | ⟨h1, _⟩
            · exact Or.inl h1
            · exact Or.inr h1
            · simp at h1
            · exact absurd rfl h1
        · simp only [hc, if_false]
          by_cases hq : c = 63
          · subst hq
            simp only [if_true]
            rw [ih p s (by simp at h ⊢; omega)]
            constructor
            · exact Glob.any
            · intro hh
              rcases Glob.cons_cons_inv hh with ⟨h1, _⟩ | ⟨_, h1⟩ | ⟨_, h1, _⟩
              · simp at h1
              · exact h1
              · exact absurd rfl h1
          · simp only [hq, if_false, Bool.and_eq_true, beq_iff_eq]
            rw [ih p s (by simp at h ⊢; omega)]
            constructor
            · rintro ⟨h1, h2⟩; exact Glob.lit hc hq h1 h2
            · intro hh
              rcases Glob.cons_cons_inv hh with ⟨h1, _⟩ | ⟨h1, _⟩ | ⟨_, _, h1, h2⟩
              · exact absurd h1 hc
              · exact absurd h1 hq
              · exact ⟨h1, h2⟩

theorem fnmatchM_iff (p s : Bytes) : fnmatchM p s = true ↔ Glob (fun a b => a = b) p s :=
  fnmatchM_iff_aux _ p s (Nat.le_refl _)

/-! ### szWildMatch7 decides `Glob` with equality after toLowerCase -/

/-- literal pattern byte `c` stands for name byte `x` when they agree after String::toLowerCase -/
def eqvLower (lower : Nat → Nat) : Nat → Nat → Prop := fun c x => lower x = lower c

/-- number of pattern bytes that need a byte of the name -/
def minLen : Bytes → Nat
  | [] => 0
  | c :: p => (if c = 42 then 0 else 1) + minLen p

theorem glob_minLen {p s : Bytes} (h : Glob eqv p s) : minLen p ≤ s.length := by
  induction h with
  | nil => simp [minLen]
  | star0 _ ih => simpa [minLen] using ih
  | starS _ ih => simp [minLen] at ih ⊢; omega
  | any _ ih => simp [minLen] at ih ⊢; omega
  | lit n1 _ _ _ ih => simp [minLen, n1] at ih ⊢; omega

theorem minLen_pos_of_dropStars {p : Bytes} (h : dropStars p ≠ []) : 0 < minLen p := by
  induction p with
  | nil => simp [dropStars] at h
  | cons c p ih =>
    by_cases hc : c = 42
    · subst hc; simp only [dropStars, if_true] at h; simpa [minLen] using ih h
    · simp [minLen, hc]; omega

theorem dropStars_length_le (p : Bytes) : (dropStars p).length ≤ p.length := by
  induction p with
  | nil => simp [dropStars]
  | cons c p ih =>
    by_cases hc : c = 42
    · subst hc; simp only [dropStars, if_true, List.length_cons]; omega
    · simp [dropStars, hc]

variable (lower : Nat → Nat)

theorem wscan_nil (p : Bytes) : wscan lower p [] = .ret (dropStars p == []) := by
  cases p <;> simp [wscan]

/-- `return` inside the loop or after it: the answer is the truth; a `false` even means that no suffix of the
    name can match (the pattern needs more bytes than the name has) -/
theorem wscan_ret : ∀ (str pat : Bytes) (b : Bool), wscan lower pat str = .ret b →
    (b = true ↔ Glob (eqvLower lower) pat str) ∧ (b = false → str.length < minLen pat) := by
  intro str
  induction str with
  | nil =>
    intro pat b h
    rw [wscan_nil] at h
    simp only [ScanRes.ret.injEq] at h
    subst h
    refine ⟨?_, ?_⟩
    · rw [glob_nil_iff]; simp
    · intro hb
      have : dropStars pat ≠ [] := by simpa using hb
      simpa using minLen_pos_of_dropStars this
  | cons x s ih =>
    intro pat b h
    cases pat with
    | nil => simp [wscan] at h
    | cons c p =>
      simp only [wscan] at h
      by_cases hq : c = 63
      · subst hq
        simp only [if_true] at h
        obtain ⟨i1, i2⟩ := ih p b h
        refine ⟨i1.trans ⟨Glob.any, fun hh => ?_⟩, fun hb => by have := i2 hb; simp [minLen]; omega⟩
        rcases Glob.cons_cons_inv hh with ⟨h1, _⟩ | ⟨_, h1⟩ | ⟨_, h1, _⟩
        · simp at h1
        · exact h1
        · exact absurd rfl h1
      · simp only [hq, if_false] at h
        by_cases hc : c = 42
        · subst hc
          simp only [if_true] at h
          by_cases hd : dropStars p = []
          · simp only [hd, if_true, ScanRes.ret.injEq] at h
            subst h
            refine ⟨⟨fun _ => ?_, fun _ => rfl⟩, fun hb => by simp at hb⟩
            rw [glob_star_iff, ← starG_dropStars, hd]
            exact ⟨(x :: s).length, by simpa using Glob.nil⟩
          · simp [hd] at h
        · simp only [hc, if_false] at h
          by_cases hl : lower x ≠ lower c
          · simp [hl] at h
          · simp only [hl, if_false] at h
            have hl' : lower x = lower c := by simpa using hl
            obtain ⟨i1, i2⟩ := ih p b h
            refine ⟨i1.trans ⟨Glob.lit hc hq hl', fun hh => ?_⟩, fun hb => by have := i2 hb; simp [minLen, hc]; omega⟩
            rcases Glob.cons_cons_inv hh with ⟨h1, _⟩ | ⟨h1, _⟩ | ⟨_, _, _, h1⟩
            · exact absurd h1 hc
            · exact absurd h1 hq
            · exact h1

/-- `goto starCheck`: pattern and name do not match at this anchor (and the name is not at its end) -/
theorem wscan_mismatch : ∀ (str pat : Bytes), wscan lower pat str = .mismatch →
    ¬ Glob (eqvLower lower) pat str ∧ str ≠ [] := by
  intro str
  induction str with
  | nil => intro pat h; rw [wscan_nil] at h; simp at h
  | cons x s ih =>
    intro pat h
    refine ⟨?_, by simp⟩
    cases pat with
    | nil => intro hh; exact absurd (Glob.nil_inv hh) (by simp)
    | cons c p =>
      simp only [wscan] at h
      intro hh
      by_cases hq : c = 63
      · subst hq
        simp only [if_true] at h
        rcases Glob.cons_cons_inv hh with ⟨h1, _⟩ | ⟨_, h1⟩ | ⟨_, h1, _⟩
        · simp at h1
        · exact (ih p h).1 h1
        · exact absurd rfl h1
      · simp only [hq, if_false] at h
        by_cases hc : c = 42
        · subst hc
          simp only [if_true] at h
          by_cases hd : dropStars p = [] <;> simp [hd] at h
        · simp only [hc, if_false] at h
          rcases Glob.cons_cons_inv hh with ⟨h1, _⟩ | ⟨h1, _⟩ | ⟨_, _, h1, h2⟩
          · exact absurd h1 hc
          · exact absurd h1 hq
          · have h1' : lower x = lower c := h1
            simp only [h1', ne_eq, not_true_eq_false, if_false] at h
            exact (ih p h).1 h2

/-- case `'*'`: the new anchors.  Matching from the old anchors = some suffix from the new string anchor matches the
    new pattern anchor; and (greedy completeness) whenever ANY suffix of the old string matches the old pattern,
    some suffix of the new string matches the new pattern — so one back-track point is enough. -/
theorem wscan_restart : ∀ (str pat p' s' : Bytes), wscan lower pat str = .restart p' s' →
    p'.length < pat.length ∧ s'.length ≤ str.length ∧
    (Glob (eqvLower lower) pat str ↔ StarG (eqvLower lower) p' s') ∧
    (∀ k, Glob (eqvLower lower) pat (str.drop k) → StarG (eqvLower lower) p' s') := by
  intro str
  induction str with
  | nil => intro pat p' s' h; rw [wscan_nil] at h; simp at h
  | cons x s ih =>
    intro pat p' s' h
    cases pat with
    | nil => simp [wscan] at h
    | cons c p =>
      simp only [wscan] at h
      -- a suffix of `x :: s` that starts with a byte: its tail is a suffix of `s`
      have hdrop : ∀ k y rest, (x :: s).drop k = y :: rest → ∃ j, rest = s.drop j := by
        intro k y rest hk
        cases k with
        | zero => simp at hk; exact ⟨0, by simp [hk.2]⟩
        | succ k =>
          simp only [List.drop_succ_cons] at hk
          refine ⟨k + 1, ?_⟩
          have := congrArg List.tail hk
          simpa [List.tail_drop] using this.symm
      by_cases hq : c = 63
      · subst hq
        simp only [if_true] at h
        obtain ⟨i1, i2, i3, i4⟩ := ih p p' s' h
        refine ⟨by simp; omega, by simp; omega, ?_, ?_⟩
        · rw [← i3]
          refine ⟨fun hh => ?_, Glob.any⟩
          rcases Glob.cons_cons_inv hh with ⟨h1, _⟩ | ⟨_, h1⟩ | ⟨_, h1, _⟩
          · simp at h1
          · exact h1
          · exact absurd rfl h1
        · intro k hk
          cases hd : (x :: s).drop k with
          | nil => rw [hd] at hk; exact absurd (Glob.cons_nil_inv hk).1 (by simp)
          | cons y rest =>
            rw [hd] at hk
            obtain ⟨j, hj⟩ := hdrop k y rest hd
            rcases Glob.cons_cons_inv hk with ⟨h1, _⟩ | ⟨_, h1⟩ | ⟨_, h1, _⟩
            · simp at h1
            · rw [hj] at h1; exact i4 j h1
            · exact absurd rfl h1
      · simp only [hq, if_false] at h
        by_cases hc : c = 42
        · subst hc
          simp only [if_true] at h
          by_cases hd : dropStars p = []
          · simp [hd] at h
          · simp only [hd, if_false, ScanRes.restart.injEq] at h
            obtain ⟨h1, h2⟩ := h
            subst h1 h2
            refine ⟨by have := dropStars_length_le p; simp; omega, Nat.le_refl _, ?_, ?_⟩
            · rw [glob_star_iff, starG_dropStars]
            · intro k hk
              rw [starG_dropStars]
              obtain ⟨j, hj⟩ := (glob_star_iff p _).mp hk
              exact ⟨k + j, by rw [List.drop_drop] at hj; simpa [Nat.add_comm] using hj⟩
        · simp only [hc, if_false] at h
          by_cases hl : lower x ≠ lower c
          · simp [hl] at h
          · simp only [hl, if_false] at h
            have hl' : lower x = lower c := by simpa using hl
            obtain ⟨i1, i2, i3, i4⟩ := ih p p' s' h
            refine ⟨by simp; omega, by simp; omega, ?_, ?_⟩
            · rw [← i3]
              refine ⟨fun hh => ?_, Glob.lit hc hq hl'⟩
              rcases Glob.cons_cons_inv hh with ⟨h1, _⟩ | ⟨h1, _⟩ | ⟨_, _, _, h1⟩
              · exact absurd h1 hc
              · exact absurd h1 hq
              · exact h1
            · intro k hk
              cases hd : (x :: s).drop k with
              | nil => rw [hd] at hk; exact absurd (Glob.cons_nil_inv hk).1 hc
              | cons y rest =>
                rw [hd] at hk
                obtain ⟨j, hj⟩ := hdrop k y rest hd
                rcases Glob.cons_cons_inv hk with ⟨h1, _⟩ | ⟨h1, _⟩ | ⟨_, _, _, h1⟩
                · exact absurd h1 hc
                · exact absurd h1 hq
                · rw [hj] at h1; exact i4 j h1

/-- the loop of szWildMatch7 with enough fuel: before a `*` was seen it decides `Glob`, afterwards
    "some suffix of the name (from the string anchor) matches the pattern (from the pattern anchor)" -/
theorem wildF_spec : ∀ (fuel : Nat) (star : Bool) (pat str : Bytes), pat.length + str.length < fuel →
    (wildF lower fuel star pat str = true ↔
      if star then StarG (eqvLower lower) pat str else Glob (eqvLower lower) pat str) := by
  intro fuel
  induction fuel with
  | zero => intro _ _ _ h; omega
  | succ fuel ih =>
    intro star pat str hf
    simp only [wildF]
    cases hs : wscan lower pat str with
    | ret b =>
      simp only
      obtain ⟨r1, r2⟩ := wscan_ret lower str pat b hs
      cases star with
      | false => simpa using r1
      | true =>
        simp only [if_true]
        constructor
        · intro hb; exact ⟨0, by simpa using r1.mp hb⟩
        · rintro ⟨k, hk⟩
          cases b with
          | true => rfl
          | false =>
            have h1 := r2 rfl
            have h2 := glob_minLen hk
            simp at h2
            omega
    | restart p' s' =>
      simp only
      obtain ⟨r1, r2, r3, r4⟩ := wscan_restart lower str pat p' s' hs
      rw [ih true p' s' (by omega)]
      simp only [if_true]
      cases star with
      | false => simpa using r3.symm
      | true =>
        simp only [if_true]
        constructor
        · intro hh; exact ⟨0, by simpa using r3.mpr hh⟩
        · rintro ⟨k, hk⟩; exact r4 k hk
    | mismatch =>
      simp only
      obtain ⟨r1, r2⟩ := wscan_mismatch lower str pat hs
      cases star with
      | false => simpa using r1
      | true =>
        simp only [Bool.true_eq_false, if_false, if_true]
        cases str with
        | nil => exact absurd rfl r2
        | cons x t =>
          simp only
          rw [ih true pat t (by simp at hf; omega)]
          simp only [if_true]
          exact (starG_tail r1).symm

end Nstd.Path
