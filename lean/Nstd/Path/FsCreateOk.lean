import Nstd.Path.FsUnlink
/-
  Directory::create succeeds (and makes every missing parent) when nothing but directories is in the way.
-/
namespace Nstd.Path

/-- walking `cs` from `start`: proper names, and at every prefix there is nothing yet or a real directory -/
def Clear (fs : Fs) : CPath → List Name → Prop
  | _, [] => True
  | start, c :: rest => c ≠ [46] ∧ c ≠ dotdot ∧ (fs.get (start ++ [c]) = none ∨ fs.get (start ++ [c]) = some .dir) ∧
      Clear fs (start ++ [c]) rest

theorem clear_prefix (fs : Fs) : ∀ (xs ys : List Name) (start : CPath), Clear fs start (xs ++ ys) → Clear fs start xs := by
  intro xs
  induction xs with
  | nil => intro _ _ _; trivial
  | cons c rest ih =>
    intro ys start h
    obtain ⟨h1, h2, h3, h4⟩ := h
    exact ⟨h1, h2, h3, ih ys _ h4⟩

theorem clear_mono (fs fs' : Fs) (h : OnlyAddsDirs fs fs') : ∀ (cs : List Name) (start : CPath), Clear fs start cs → Clear fs' start cs := by
  intro cs
  induction cs with
  | nil => intro _ _; trivial
  | cons c rest ih =>
    intro start hc
    obtain ⟨h1, h2, h3, h4⟩ := hc
    refine ⟨h1, h2, ?_, ih _ h4⟩
    rcases h (start ++ [c]) with he | ⟨_, hd⟩
    · rw [he]; exact h3
    · exact Or.inr hd

theorem plainDirs_of_clear_walk (fs : Fs) (k : CPath → List Name → Bool → Res) : ∀ (cs : List Name) (start : CPath) (q : CPath),
    Clear fs start cs → walkAux fs k start cs true = .found q .dir → PlainDirs fs start cs := by
  intro cs
  induction cs with
  | nil => intro _ _ _ _; trivial
  | cons c rest ih =>
    intro start q hc hw
    obtain ⟨h1, h2, h3, h4⟩ := hc
    rw [walkAux_cons, if_neg h1, if_neg h2] at hw
    rcases h3 with hn | hd
    · simp only [hn] at hw
      by_cases hr : rest = [] <;> simp [hr] at hw
    · simp only [hd] at hw
      exact ⟨h1, h2, hd, ih _ q h4 hw⟩

theorem plainDirs_of_clear_exists (fs : Fs) (path : Bytes) (hc : Clear fs (start0 path) (kchunks path))
    (he : dirExists fs path = true) : PlainDirs fs (start0 path) (kchunks path) := by
  unfold dirExists sysStat resolve at he
  by_cases hne : path = []
  · subst hne; simp [kchunks_nil, PlainDirs]
  · rw [if_neg hne] at he
    cases hw : walk fs walkFuel (if startsWith47 path = true then [] else cwd) (kchunks path) true with
    | found q e =>
      rw [hw] at he
      cases e with
      | dir =>
        unfold start0 at hc ⊢
        cases hf : walkFuel with
        | zero => rw [hf] at hw; exact plainDirs_of_clear_walk fs _ _ _ q hc hw
        | succ f => rw [hf] at hw; exact plainDirs_of_clear_walk fs _ _ _ q hc hw
      | file _ => simp at he
      | link _ => simp at he
    | missing _ _ => rw [hw] at he; simp at he
    | err _ => rw [hw] at he; simp at he

theorem dirExists_of_plainDirs (fs : Fs) (path : Bytes) (hne : path ≠ []) (hp : PlainDirs fs (start0 path) (kchunks path)) :
    dirExists fs path = true := by
  unfold dirExists sysStat resolve
  rw [if_neg hne]
  have : walk fs walkFuel (start0 path) (kchunks path) true = .found (start0 path ++ kchunks path) .dir := by
    cases walkFuel with
    | zero => exact plain_walk_dir fs _ _ _ _ hp
    | succ f => exact plain_walk_dir fs _ _ _ _ hp
  unfold start0 at this
  rw [this]

/-- all components exist already: mkdir answers EEXIST and Directory::exists says yes -/
theorem createHere_existing (fs : Fs) (dir : Bytes) (fired : Nat) (hne : dir ≠ [])
    (hp : PlainDirs fs (start0 dir) (kchunks dir)) : (createHere fs dir none fired).2.1 = true := by
  rw [createHere_iff]
  have hex := dirExists_of_plainDirs fs dir hne hp
  have hadd := createHere_adds fs dir none fired
  apply dirExists_of_plainDirs _ dir hne
  apply plainDirs_congr fs _ _ _ _ hp
  intro k hk1 hk2
  rcases hadd (start0 dir ++ (kchunks dir).take k) with he | ⟨hn, _⟩
  · exact he
  · -- that prefix is a directory in fs, so it cannot have been missing
    exfalso
    have : ∀ (cs : List Name) (start : CPath) (k : Nat), PlainDirs fs start cs → 1 ≤ k → k ≤ cs.length →
        fs.get (start ++ cs.take k) = some .dir := by
      intro cs
      induction cs with
      | nil => intro _ k _ h1 h2; simp at h2; omega
      | cons c rest ih =>
        intro start k hpd h1 h2
        obtain ⟨_, _, hg, hrest⟩ := hpd
        cases k with
        | zero => omega
        | succ k =>
          cases k with
          | zero => simpa using hg
          | succ k =>
            have := ih (start ++ [c]) (k + 1) hrest (by omega) (by simp at h2; omega)
            simpa [List.append_assoc] using this
    rw [this _ _ k hp hk2 hk1] at hn
    simp at hn

/-- the parent chain exists, the last component is missing or a directory: Directory::create's mkdir step succeeds -/
theorem createHere_last (fs : Fs) (dir : Bytes) (fired : Nat) (cs : List Name) (n : Name) (hne : dir ≠ [])
    (hch : kchunks dir = cs ++ [n]) (hp : PlainDirs fs (start0 dir) cs) (hn1 : n ≠ [46]) (hn2 : n ≠ dotdot)
    (hlast : fs.get (start0 dir ++ cs ++ [n]) = none ∨ fs.get (start0 dir ++ cs ++ [n]) = some .dir) :
    (createHere fs dir none fired).2.1 = true := by
  rcases hlast with hnone | hdir
  · -- mkdir creates it
    have hpp : PlainParent fs dir (start0 dir ++ cs ++ [n]) := ⟨hne, cs, n, hch, hp, hn1, hn2, rfl⟩
    have hres := resolve_plainParent fs dir _ hpp
    rw [hnone] at hres
    unfold createHere mkdirF sysMkdir
    simp only [hres, isOk]
  · exact createHere_existing fs dir fired hne (by rw [hch]; exact plainDirs_snoc fs cs _ n hp hn1 hn2 hdir)

theorem dirCreate_fault_none : ∀ (fuel : Nat) (fs : Fs) (dir : Bytes) (fired : Nat),
    (dirCreate fuel fs dir none fired).2.2.1 = none := by
  intro fuel
  induction fuel with
  | zero => intro _ _ _; rfl
  | succ fuel ih =>
    intro fs dir fired
    have hhere : ∀ fs' fired', (createHere fs' dir none fired').2.2.1 = none := by
      intro fs' fired'
      unfold createHere mkdirF
      simp only
      cases sysMkdir fs' dir with
      | mk a r => cases r <;> simp [isOk]
    simp only [dirCreate]
    by_cases hc : getDirectoryNameK dir ≠ [46] ∧ getDirectoryNameK dir ≠ [] ∧ dirExists fs (getDirectoryNameK dir) = false
    · rw [if_pos hc]
      have := ih fs (getDirectoryNameK dir) fired
      cases hrec : dirCreate fuel fs (getDirectoryNameK dir) none fired with
      | mk fs' rest =>
        obtain ⟨r, fault', fired'⟩ := rest
        rw [hrec] at this
        simp only at this
        subst this
        cases r with
        | true => exact hhere fs' fired'
        | false => rfl
    · rw [if_neg hc]; exact hhere fs fired


theorem clear_last (fs : Fs) : ∀ (cs : List Name) (start : CPath) (n : Name), Clear fs start (cs ++ [n]) →
    n ≠ [46] ∧ n ≠ dotdot ∧ (fs.get (start ++ cs ++ [n]) = none ∨ fs.get (start ++ cs ++ [n]) = some .dir) := by
  intro cs
  induction cs with
  | nil => intro start n h; obtain ⟨h1, h2, h3, _⟩ := h; exact ⟨h1, h2, by simpa using h3⟩
  | cons c rest ih =>
    intro start n h
    obtain ⟨_, _, _, h4⟩ := h
    have := ih (start ++ [c]) n h4
    simpa [List.append_assoc] using this

theorem start0_append (d t : Bytes) (hd : d ≠ []) : start0 (d ++ t) = start0 d := by
  unfold start0; rw [startsWith47_append d t hd]

/-- Directory::create succeeds when only directories (or nothing) are in the way -/
theorem dirCreate_succeeds : ∀ (fuel : Nat) (fs : Fs) (dir : Bytes) (fired : Nat), dir.length < fuel →
    kchunks dir ≠ [] → Clear fs (start0 dir) (kchunks dir) → (dirCreate fuel fs dir none fired).2.1 = true := by
  intro fuel
  induction fuel with
  | zero => intro _ dir _ h; omega
  | succ fuel ih =>
    intro fs dir fired hlen hch hclear
    have hne : dir ≠ [] := by intro h; subst h; exact hch kchunks_nil
    simp only [dirCreate]
    unfold getDirectoryNameK
    cases hs : splitLast isSlash dir with
    | none =>
      simp only [ne_eq, not_true_eq_false, false_and, if_false]
      have hsf := splitLast_none.mp hs
      have hcd : kchunks dir = [] ++ [dir] := by simp [kchunks_of_sepfree dir hne hsf]
      have hc1 : Clear fs (start0 dir) ([] ++ [dir]) := by rw [← hcd]; exact hclear
      have hl := clear_last fs [] _ dir hc1
      exact createHere_last fs dir fired [] dir hne hcd trivial hl.1 hl.2.1 hl.2.2
    | some t =>
      obtain ⟨d, s, b⟩ := t
      obtain ⟨hdir, hsep, hbsf⟩ := splitLast_some hs
      simp only
      have hchunks : kchunks dir = kchunks d ++ kchunks b := by rw [hdir, kchunks_append_sep d s b hsep]
      -- once the parent chain exists the mkdir step goes through
      have key : ∀ (fs' : Fs) (f' : Nat), OnlyAddsDirs fs fs' → PlainDirs fs' (start0 dir) (kchunks d) →
          (createHere fs' dir none f').2.1 = true := by
        intro fs' f' hadd hpd
        have hcl' := clear_mono fs fs' hadd _ _ hclear
        by_cases hb : b = []
        · subst hb
          have : kchunks dir = kchunks d := by rw [hchunks, kchunks_nil, List.append_nil]
          exact createHere_existing fs' dir f' hne (by rw [this]; exact hpd)
        · have hcb : kchunks b = [b] := kchunks_of_sepfree b hb hbsf
          have hcd : kchunks dir = kchunks d ++ [b] := by rw [hchunks, hcb]
          have hl := clear_last fs' (kchunks d) _ b (by rw [← hcd]; exact hcl')
          exact createHere_last fs' dir f' (kchunks d) b hne hcd hpd hl.1 hl.2.1 hl.2.2
      by_cases hc : d ≠ [46] ∧ d ≠ [] ∧ dirExists fs d = false
      · rw [if_pos hc]
        have hst : start0 dir = start0 d := by rw [hdir]; exact start0_append d _ hc.2.1
        have hcld : Clear fs (start0 d) (kchunks d) := by
          rw [← hst]; exact clear_prefix fs _ _ _ (by rw [← hchunks]; exact hclear)
        have hchd : kchunks d ≠ [] := by
          intro h0
          have : dirExists fs d = true := dirExists_of_plainDirs fs d hc.2.1 (by rw [h0]; trivial)
          rw [this] at hc; simp at hc
        have hdl : d.length < fuel := by
          have := congrArg List.length hdir
          simp at this
          omega
        have hrec := ih fs d fired hdl hchd hcld
        have hiff := dirCreate_iff fuel fs d none fired hdl
        have hadd := dirCreate_adds fuel fs d none fired
        have hfn := dirCreate_fault_none fuel fs d fired
        cases hr : dirCreate fuel fs d none fired with
        | mk fs' rest =>
          obtain ⟨r, fault', fired'⟩ := rest
          rw [hr] at hrec hiff hadd hfn
          simp only at hrec hiff hfn
          subst hrec
          subst hfn
          simp only
          apply key fs' fired' hadd
          rw [hst]
          exact plainDirs_of_clear_exists fs' d (clear_mono fs fs' hadd _ _ hcld) hiff.symm
      · rw [if_neg hc]
        apply key fs fired (OnlyAddsDirs.refl fs)
        by_cases hd0 : d = []
        · subst hd0; simp [kchunks_nil, PlainDirs]
        · by_cases hd1 : d = [46]
          · exfalso
            subst hd1
            have : kchunks dir = [46] :: kchunks b := by rw [hchunks]; rfl
            rw [this] at hclear
            exact hclear.1 rfl
          · have hex : dirExists fs d = true := by
              cases hh : dirExists fs d with
              | true => rfl
              | false => exact absurd ⟨hd1, hd0, hh⟩ hc
            have hst : start0 dir = start0 d := by rw [hdir]; exact start0_append d _ hd0
            have hcld : Clear fs (start0 d) (kchunks d) := by
              rw [← hst]; exact clear_prefix fs _ _ _ (by rw [← hchunks]; exact hclear)
            rw [hst]
            exact plainDirs_of_clear_exists fs d hcld hex

end Nstd.Path
